(* C03: the stacked (source-weighted) ratio is the a_k-weighted mean of the
   per-source ratios, GIVEN that the (source, event) pair table lists every
   pair at most once (the C05 invariant).  Without it numpy's `+=` with a
   repeated index keeps only the last write: see stacked_dup_refuted. *)
From Coq Require Import Reals ZArith List Bool Lra Lia Arith Permutation.
From Sky Require Import Num NumR G_weights M_Weights S_Llh P_WeightsBase.
Import ListNotations.
Open Scope R_scope.

Section S.
  Variable erfR : R -> R.
  Notation Nm := (RNum erfR).

  Definition pair_of (v : nat * nat * R) : nat * nat := fst v.
  Definition src_of (v : nat * nat * R) : nat := fst (fst v).
  Definition evt_of (v : nat * nat * R) : nat := snd (fst v).

  (* the ratio listed for the pair (k, e), 0 if the event was not selected for k *)
  Definition lookup (vals : list (nat * nat * R)) (k e : nat) : R :=
    match find (fun v => Nat.eqb (src_of v) k && Nat.eqb (evt_of v) e) vals with
    | Some v => snd v
    | None => 0
    end.

  Definition pairs_k (vals : list (nat * nat * R)) (k : nat) : list (nat * R) :=
    map (fun v => (snd (fst v), snd v)) (filter (fun v => Nat.eqb (fst (fst v)) k) vals).

  Lemma last_for_none_if_absent vals k e :
    (forall v, In v vals -> pair_of v <> (k, e)) -> last_for e (pairs_k vals k) = None.
  Proof.
    unfold pairs_k. induction vals as [|[[s i] r] vals IH]; intros H; [reflexivity|].
    cbn [filter fst snd]. destruct (Nat.eqb s k) eqn:Es.
    - cbn [map last_for fst snd]. rewrite IH by (intros v Hv; apply H; now right).
      destruct (Nat.eqb i e) eqn:Ei; [|reflexivity].
      exfalso. apply (H (s, i, r)); [now left|].
      apply Nat.eqb_eq in Es, Ei. subst. reflexivity.
    - apply IH. intros v Hv. apply H. now right.
  Qed.

  Lemma last_for_lookup vals k e :
    NoDup (map pair_of vals) ->
    match last_for e (pairs_k vals k) with Some r => r | None => 0 end = lookup vals k e.
  Proof.
    unfold lookup, pairs_k.
    induction vals as [|[[s i] r] vals IH]; intros Hnd; [reflexivity|].
    cbn [map] in Hnd. apply NoDup_cons_iff in Hnd as [Hnotin Hnd].
    cbn [filter find fst snd src_of evt_of].
    destruct (Nat.eqb s k) eqn:Es; cbn [andb].
    - cbn [map last_for fst snd].
      destruct (Nat.eqb i e) eqn:Ei.
      + (* this is the pair (k,e): by NoDup it does not occur later *)
        apply Nat.eqb_eq in Es, Ei. subst s i.
        assert (Hn : last_for e (pairs_k vals k) = None).
        { apply last_for_none_if_absent. intros v Hv E. apply Hnotin.
          apply in_map_iff. exists v. split; [exact E|exact Hv]. }
        unfold pairs_k in Hn. rewrite Hn. reflexivity.
      + specialize (IH Hnd).
        destruct (last_for e (map (fun v => (snd (fst v), snd v))
                                  (filter (fun v => Nat.eqb (fst (fst v)) k) vals)));
          exact IH.
    - apply IH. exact Hnd.
  Qed.

  Lemma nth_map_lt {A B} (f : A -> B) (l : list A) (e : nat) (d : A) (d' : B) :
    (e < length l)%nat -> nth e (map f l) d' = f (nth e l d).
  Proof.
    revert e. induction l as [|a l IH]; intros e He; [cbn in He; lia|].
    destruct e as [|e]; [reflexivity|]. cbn [map nth]. apply IH. cbn in He. lia.
  Qed.

  (* one `+=` statement of numpy *)
  Lemma fancy_add_length upd (old : list R) pairs : length (fancy_add upd old pairs) = length old.
  Proof. unfold fancy_add. rewrite map_length, combine_length, seq_length. lia. Qed.

  Lemma fancy_add_nth upd (old : list R) pairs e :
    (e < length old)%nat ->
    nth e (fancy_add upd old pairs) 0 =
    match last_for e pairs with
    | Some v => upd (nth e old 0) v
    | None => nth e old 0
    end.
  Proof.
    intros He. unfold fancy_add.
    set (g := fun ie : nat * R => match last_for (fst ie) pairs with
                                  | Some v => upd (snd ie) v | None => snd ie end).
    rewrite (nth_indep _ 0 (g (0%nat, 0))) by (rewrite map_length, combine_length, seq_length; lia).
    rewrite map_nth. rewrite combine_nth by (rewrite seq_length; reflexivity).
    rewrite seq_nth by exact He. unfold g. cbn [fst snd]. reflexivity.
  Qed.

  Lemma sw_source_step_length a_k vals R k :
    length (sw_source_step Nm a_k vals R k) = length R.
  Proof. unfold sw_source_step. apply fancy_add_length. Qed.

  Lemma sw_source_step_nth a_k vals Ri k e :
    NoDup (map pair_of vals) -> (e < length Ri)%nat ->
    nth e (sw_source_step Nm a_k vals Ri k) 0 = nth e Ri 0 + lookup vals k e * nth k a_k 0.
  Proof.
    intros Hnd He. unfold sw_source_step. cbv zeta.
    rewrite fancy_add_nth by exact He.
    pose proof (last_for_lookup vals k e Hnd) as HL. unfold pairs_k in HL.
    cbn [nzero RNum].
    destruct (last_for e (map (fun v => (snd (fst v), snd v))
                              (filter (fun v => Nat.eqb (fst (fst v)) k) vals))) as [r|].
    - rewrite K_sw_term. rewrite <- HL. reflexivity.
    - rewrite <- HL. lra.
  Qed.

  Lemma sw_fold_nth a_k vals ks : forall Ri e,
    NoDup (map pair_of vals) -> (e < length Ri)%nat ->
    nth e (fold_left (sw_source_step Nm a_k vals) ks Ri) 0 =
    nth e Ri 0 + Rsum (map (fun k => lookup vals k e * nth k a_k 0) ks).
  Proof.
    induction ks as [|k ks IH]; intros Ri e Hnd He; cbn [fold_left map].
    - cbn. lra.
    - rewrite IH by (try exact Hnd; rewrite sw_source_step_length; exact He).
      rewrite sw_source_step_nth by assumption.
      unfold Rsum. cbn [fold_right]. lra.
  Qed.

  Lemma sw_fold_length a_k vals ks : forall Ri,
    length (fold_left (sw_source_step Nm a_k vals) ks Ri) = length Ri.
  Proof.
    induction ks as [|k ks IH]; intros Ri; cbn [fold_left]; [reflexivity|].
    rewrite IH. apply sw_source_step_length.
  Qed.

  (* C03: R_i = sum_k a_k R_ik / sum_k a_k *)
  Theorem stacked_ratio_is_weighted_mean a_k n_sel vals e :
    NoDup (map pair_of vals) -> (e < n_sel)%nat ->
    nth e (sw_ratio Nm a_k n_sel vals) 0 =
    Rsum (map (fun k => lookup vals k e * nth k a_k 0) (seq 0 (length a_k))) / Rsum a_k.
  Proof.
    intros Hnd He. unfold sw_ratio. cbv zeta.
    set (R1 := fold_left (sw_source_step Nm a_k vals) (seq 0 (length a_k)) (repeat (nzero Nm) n_sel)).
    assert (HL : length R1 = n_sel).
    { unfold R1. rewrite sw_fold_length. apply repeat_length. }
    rewrite (nth_map_lt (fun r => w_sw_norm Nm r (nsum Nm a_k)) R1 e 0 0)
      by (rewrite HL; exact He).
    rewrite K_sw_norm, nsum_R. f_equal.
    unfold R1. rewrite sw_fold_nth by (try exact Hnd; rewrite repeat_length; exact He).
    rewrite nth_repeat. cbn [nzero RNum]. lra.
  Qed.

  (* ---- consequences of the weighted-mean form *)
  Lemma map_nth_seq0 (l : list R) : map (fun k => nth k l 0) (seq 0 (length l)) = l.
  Proof.
    induction l as [|x l IH]; [reflexivity|].
    cbn [length seq map nth]. f_equal. rewrite <- seq_shift, map_map. exact IH.
  Qed.

  Lemma weighted_between (l w : nat -> R) (m M : R) (ks : list nat) :
    (forall k, In k ks -> 0 <= w k /\ m <= l k <= M) ->
    m * Rsum (map w ks) <= Rsum (map (fun k => l k * w k) ks) <= M * Rsum (map w ks).
  Proof.
    unfold Rsum. induction ks as [|k ks IH]; intros H; cbn [map fold_right]; [lra|].
    destruct (H k (or_introl eq_refl)) as (Hw & Hm & HM).
    assert (IH' := IH (fun k' Hk' => H k' (or_intror Hk'))). nra.
  Qed.

  (* the stacked ratio lies between the smallest and the largest per-source ratio *)
  Theorem stacked_ratio_between a_k n_sel vals e (m M : R) :
    NoDup (map pair_of vals) -> (e < n_sel)%nat ->
    List.Forall (fun x => 0 <= x) a_k -> 0 < Rsum a_k ->
    (forall k, (k < length a_k)%nat -> m <= lookup vals k e <= M) ->
    m <= nth e (sw_ratio Nm a_k n_sel vals) 0 <= M.
  Proof.
    intros Hnd He Hnn Hpos Hb.
    rewrite stacked_ratio_is_weighted_mean by assumption.
    pose proof (weighted_between (fun k => lookup vals k e) (fun k => nth k a_k 0) m M
                  (seq 0 (length a_k))) as W.
    rewrite map_nth_seq0 in W.
    assert (Hk : forall k, In k (seq 0 (length a_k)) ->
                 0 <= nth k a_k 0 /\ m <= lookup vals k e <= M).
    { intros k Hin. apply in_seq in Hin. split; [|apply Hb; lia].
      rewrite List.Forall_forall in Hnn. apply Hnn. apply nth_In. lia. }
    specialize (W Hk). destruct W as [W1 W2].
    split.
    - apply (Rmult_le_reg_r (Rsum a_k)); [exact Hpos|].
      unfold Rdiv. rewrite Rmult_assoc, Rinv_l, Rmult_1_r by lra. exact W1.
    - apply (Rmult_le_reg_r (Rsum a_k)); [exact Hpos|].
      unfold Rdiv. rewrite Rmult_assoc, Rinv_l, Rmult_1_r by lra. exact W2.
  Qed.

  (* ---- the order of the value array (rows of the pair table) is irrelevant *)
  Lemma lookup_in vals v :
    NoDup (map pair_of vals) -> In v vals -> lookup vals (src_of v) (evt_of v) = snd v.
  Proof.
    unfold lookup. induction vals as [|u vals IH]; intros Hnd Hin; [destruct Hin|].
    cbn [map] in Hnd. apply NoDup_cons_iff in Hnd as [Hnotin Hnd].
    cbn [find]. destruct Hin as [->|Hin].
    - rewrite !Nat.eqb_refl. reflexivity.
    - destruct (Nat.eqb (src_of u) (src_of v) && Nat.eqb (evt_of u) (evt_of v)) eqn:E.
      + exfalso. apply andb_true_iff in E as [E1 E2]. apply Nat.eqb_eq in E1, E2.
        apply Hnotin. apply in_map_iff. exists v. split; [|exact Hin].
        unfold pair_of, src_of, evt_of in *. destruct u as [[? ?] ?], v as [[? ?] ?].
        cbn in *. congruence.
      + apply IH; assumption.
  Qed.

  Lemma lookup_absent vals k e :
    (forall v, In v vals -> pair_of v <> (k, e)) -> lookup vals k e = 0.
  Proof.
    unfold lookup. intros H.
    destruct (find _ vals) as [v|] eqn:F; [|reflexivity].
    apply find_some in F as [Hin E]. exfalso. apply (H v Hin).
    apply andb_true_iff in E as [E1 E2]. apply Nat.eqb_eq in E1, E2.
    unfold pair_of, src_of, evt_of in *. destruct v as [[? ?] ?]. cbn in *. congruence.
  Qed.

  Lemma lookup_perm vals vals' k e :
    NoDup (map pair_of vals) -> Permutation vals vals' -> lookup vals k e = lookup vals' k e.
  Proof.
    intros Hnd HP.
    assert (Hnd' : NoDup (map pair_of vals')).
    { eapply Permutation_NoDup; [|exact Hnd]. apply Permutation_map. exact HP. }
    destruct (find (fun v => Nat.eqb (src_of v) k && Nat.eqb (evt_of v) e) vals) as [v|] eqn:F.
    - apply find_some in F as [Hin E].
      apply andb_true_iff in E as [E1 E2]. apply Nat.eqb_eq in E1, E2. subst k e.
      rewrite (lookup_in vals v Hnd Hin).
      rewrite (lookup_in vals' v Hnd' (Permutation_in _ HP Hin)). reflexivity.
    - assert (A : forall v, In v vals -> pair_of v <> (k, e)).
      { intros v Hin E. pose proof (find_none _ _ F v Hin) as N. cbn beta in N.
        unfold pair_of, src_of, evt_of in *. destruct v as [[s i] r]. cbn in *.
        inversion E; subst. rewrite !Nat.eqb_refl in N. discriminate. }
      rewrite (lookup_absent vals k e A).
      rewrite (lookup_absent vals' k e); [reflexivity|].
      intros v Hin. apply A. apply (Permutation_in _ (Permutation_sym HP) Hin).
  Qed.

  Lemma sw_ratio_length a_k n_sel vals : length (sw_ratio Nm a_k n_sel vals) = n_sel.
  Proof.
    unfold sw_ratio. cbv zeta. rewrite map_length, sw_fold_length. apply repeat_length.
  Qed.

  Theorem stacked_ratio_value_order a_k n_sel vals vals' :
    NoDup (map pair_of vals) -> Permutation vals vals' ->
    sw_ratio Nm a_k n_sel vals = sw_ratio Nm a_k n_sel vals'.
  Proof.
    intros Hnd HP.
    assert (Hnd' : NoDup (map pair_of vals')).
    { eapply Permutation_NoDup; [|exact Hnd]. apply Permutation_map. exact HP. }
    apply (nth_ext _ _ 0 0); [now rewrite !sw_ratio_length|].
    intros e He. rewrite sw_ratio_length in He.
    rewrite !stacked_ratio_is_weighted_mean by assumption.
    f_equal. f_equal. apply map_ext. intros k. rewrite (lookup_perm vals vals' k e Hnd HP).
    reflexivity.
  Qed.

  (* ---- a common factor on all a_k cancels (no assumption on the pair table) *)
  Lemma nth_scale c (a : list R) k : nth k (map (Rmult c) a) 0 = c * nth k a 0.
  Proof.
    revert k. induction a as [|x a IH]; intros [|k]; cbn [map nth]; try lra. apply IH.
  Qed.

  Lemma Rsum_scale c (a : list R) : Rsum (map (Rmult c) a) = c * Rsum a.
  Proof. unfold Rsum. induction a as [|x a IH]; cbn [map fold_right]; [lra|]. rewrite IH. lra. Qed.

  Lemma fancy_add_scale c ak (old : list R) pairs :
    fancy_add (fun o r => w_sw_term Nm o r (c * ak)) (map (Rmult c) old) pairs
    = map (Rmult c) (fancy_add (fun o r => w_sw_term Nm o r ak) old pairs).
  Proof.
    unfold fancy_add. rewrite map_length, map_map.
    generalize 0%nat as s. induction old as [|x old IH]; intros s; [reflexivity|].
    cbn [length seq map combine fst snd]. f_equal; [|apply IH].
    destruct (last_for s pairs) as [v|]; [|reflexivity].
    rewrite !K_sw_term. lra.
  Qed.

  Lemma sw_fold_scale c a_k vals ks : forall Ri,
    fold_left (sw_source_step Nm (map (Rmult c) a_k) vals) ks (map (Rmult c) Ri)
    = map (Rmult c) (fold_left (sw_source_step Nm a_k vals) ks Ri).
  Proof.
    induction ks as [|k ks IH]; intros Ri; cbn [fold_left]; [reflexivity|].
    rewrite <- IH. f_equal. unfold sw_source_step. cbv zeta.
    cbn [nzero RNum]. rewrite nth_scale. apply fancy_add_scale.
  Qed.

  Theorem stacked_ratio_scale c a_k n_sel vals :
    c <> 0 -> Rsum a_k <> 0 ->
    sw_ratio Nm (map (Rmult c) a_k) n_sel vals = sw_ratio Nm a_k n_sel vals.
  Proof.
    intros Hc HA. unfold sw_ratio. cbv zeta. rewrite map_length.
    replace (repeat (nzero Nm) n_sel) with (map (Rmult c) (repeat (nzero Nm) n_sel)) at 1.
    2:{ cbn [nzero RNum]. induction n_sel as [|n IHn]; cbn [repeat map]; [reflexivity|].
        rewrite IHn. f_equal. lra. }
    rewrite sw_fold_scale, map_map, !nsum_R, Rsum_scale.
    apply map_ext. intros r. rewrite !K_sw_norm. field. split; assumption.
  Qed.

  (* ---- permuting the sources consistently (weights and the labels of the pair table) *)
  Definition relabel (p : list nat) (v : nat * nat * R) : nat * nat * R :=
    (nth (src_of v) p (length p), evt_of v, snd v).

  Lemma map_nth_seq_nat (p : list nat) d : map (fun j => nth j p d) (seq 0 (length p)) = p.
  Proof.
    induction p as [|x p IH]; [reflexivity|].
    cbn [length seq map nth]. f_equal. rewrite <- seq_shift, map_map. exact IH.
  Qed.

  Lemma nth_eqb_inj (p : list nat) s j :
    NoDup p -> (s < length p)%nat -> (j < length p)%nat ->
    Nat.eqb (nth s p (length p)) (nth j p (length p)) = Nat.eqb s j.
  Proof.
    intros Hnd Hs Hj. destruct (Nat.eqb_spec s j) as [->|N]; [apply Nat.eqb_refl|].
    apply Nat.eqb_neq. intros E. apply N.
    apply (proj1 (NoDup_nth p (length p)) Hnd s j Hs Hj E).
  Qed.

  Lemma lookup_relabel p vals j e :
    NoDup p -> List.Forall (fun v => (src_of v < length p)%nat) vals -> (j < length p)%nat ->
    lookup (map (relabel p) vals) (nth j p (length p)) e = lookup vals j e.
  Proof.
    intros Hnd Hall Hj. unfold lookup.
    induction Hall as [|u vals Hu _ IH]; [reflexivity|].
    cbn [map find].
    assert (E1 : src_of (relabel p u) = nth (src_of u) p (length p)) by reflexivity.
    assert (E2 : evt_of (relabel p u) = evt_of u) by reflexivity.
    assert (E3 : snd (relabel p u) = snd u) by reflexivity.
    rewrite E1, E2, (nth_eqb_inj p (src_of u) j Hnd Hu Hj).
    destruct (Nat.eqb (src_of u) j && Nat.eqb (evt_of u) e); [exact E3|exact IH].
  Qed.

  Lemma relabel_NoDup p vals :
    NoDup p -> List.Forall (fun v => (src_of v < length p)%nat) vals ->
    NoDup (map pair_of vals) -> NoDup (map pair_of (map (relabel p) vals)).
  Proof.
    intros Hp Hall. induction Hall as [|u vals Hu Hall IH]; intros Hnd; [constructor|].
    cbn [map] in *. apply NoDup_cons_iff in Hnd as [Hnotin Hnd].
    apply NoDup_cons_iff. split; [|apply IH; exact Hnd].
    intros Hin. apply Hnotin. rewrite map_map in Hin. apply in_map_iff in Hin as (v & E & Hv).
    apply in_map_iff. exists v. split; [|exact Hv].
    rewrite List.Forall_forall in Hall. specialize (Hall v Hv).
    unfold pair_of, relabel, src_of, evt_of in *. destruct u as [[su eu] ru], v as [[sv ev] rv].
    cbn [fst snd] in *. inversion E as [[E1 E2]].
    assert (sv = su).
    { apply (proj1 (NoDup_nth p (length p)) Hp sv su Hall Hu E1). }
    subst. reflexivity.
  Qed.

  Theorem stacked_ratio_perm_sources a_k n_sel vals p e :
    Permutation p (seq 0 (length a_k)) ->
    NoDup (map pair_of vals) ->
    List.Forall (fun v => (src_of v < length a_k)%nat) vals -> (e < n_sel)%nat ->
    nth e (sw_ratio Nm (map (fun i => nth i a_k 0) p) n_sel vals) 0
    = nth e (sw_ratio Nm a_k n_sel (map (relabel p) vals)) 0.
  Proof.
    intros HP Hnd Hall He.
    assert (HL : length p = length a_k).
    { rewrite (Permutation_length HP). apply seq_length. }
    assert (Hp : NoDup p).
    { eapply Permutation_NoDup; [apply Permutation_sym; exact HP|apply seq_NoDup]. }
    rewrite <- HL in Hall.
    pose proof (relabel_NoDup p vals Hp Hall Hnd) as Hnd'.
    rewrite !stacked_ratio_is_weighted_mean by assumption.
    rewrite map_length.
    set (g := fun i => lookup (map (relabel p) vals) i e * nth i a_k 0).
    assert (Eden : Rsum (map (fun i => nth i a_k 0) p) = Rsum a_k).
    { rewrite (Rsum_perm _ _ (Permutation_map (fun i => nth i a_k 0) HP)).
      rewrite map_nth_seq0. reflexivity. }
    rewrite Eden. f_equal.
    transitivity (Rsum (map g p)).
    - rewrite <- (map_nth_seq_nat p (length p)) at 2. rewrite map_map.
      f_equal. apply map_ext_in. intros j Hj. apply in_seq in Hj. unfold g.
      rewrite (lookup_relabel p vals j e Hp Hall) by lia. f_equal.
      rewrite (nth_indep _ 0 (nth (length p) a_k 0)) by (rewrite map_length; lia).
      rewrite (map_nth (fun i => nth i a_k 0) p (length p) j). reflexivity.
    - rewrite <- HL. apply Rsum_perm. apply Permutation_map. rewrite HL. exact HP.
  Qed.

  (* a worked instance: three sources with a_k = (1, 2, 4), event 0 selected for sources 0
     and 2 with ratios 3/2 and 4: R_0 = (1*3/2 + 4*4) / 7 *)
  Lemma stacked_example :
    let vals : list (nat * nat * R) :=
      [((0%nat, 0%nat), 3 / 2); ((0%nat, 2%nat), 2); ((1%nat, 1%nat), 1); ((2%nat, 0%nat), 4)] in
    nth 0 (sw_ratio Nm [1; 2; 4] 3 vals) 0 = (1 * (3 / 2) + 4 * 4) / 7.
  Proof.
    cbv zeta. rewrite stacked_ratio_is_weighted_mean; [|cbn; repeat constructor; cbn; intuition congruence|lia].
    unfold lookup, Rsum. cbn. lra.
  Qed.

  (* negative weights break the min/max bound: the guard a_k >= 0 is needed *)
  Lemma stacked_between_guard_needed :
    exists a_k vals,
      NoDup (map pair_of vals) /\ 0 < Rsum a_k
      /\ (forall k, (k < length a_k)%nat -> 1 <= lookup vals k 0 <= 3)
      /\ nth 0 (sw_ratio Nm a_k 1 vals) 0 < 1.
  Proof.
    exists [2; -1], [((0%nat, 0%nat), 1); ((1%nat, 0%nat), 3)].
    assert (Hnd : NoDup (map pair_of [((0%nat, 0%nat), 1); ((1%nat, 0%nat), 3)])).
    { cbn. repeat constructor; cbn; intuition congruence. }
    split; [exact Hnd|]. split; [unfold Rsum; cbn; lra|]. split.
    - intros k Hk. cbn in Hk. destruct k as [|[|k]]; [| |lia]; unfold lookup; cbn; lra.
    - rewrite stacked_ratio_is_weighted_mean by (try exact Hnd; lia).
      unfold lookup, Rsum. cbn. lra.
  Qed.

  (* what happens without the invariant: the same pair listed twice keeps only
     its last ratio (numpy's buffered `+=`), not the sum *)
  Theorem stacked_dup_refuted :
    exists a_k vals,
      ~ NoDup (map pair_of vals) /\
      nth 0 (sw_ratio Nm a_k 1 vals) 0 <> Rsum (map (fun v => snd v * nth (src_of v) a_k 0) vals) / Rsum a_k.
  Proof.
    exists [1], [((0%nat, 0%nat), 2); ((0%nat, 0%nat), 3)]. split.
    - intros H. cbn in H. apply NoDup_cons_iff in H as [H _]. apply H. now left.
    - unfold sw_ratio, sw_source_step, fancy_add. cbn.
      unfold Rsum. cbn. lra.
  Qed.
End S.
