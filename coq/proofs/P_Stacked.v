(* C01/C03: the stacked (source-weighted) ratio is the a_k-weighted mean of the
   per-source ratios, GIVEN that the (source, event) pair table lists every
   pair at most once (the C05 invariant).  Without it numpy's `+=` with a
   repeated index keeps only the last write: see stacked_dup_refuted. *)
From Coq Require Import Reals ZArith List Bool Lra Lia Arith.
From Sky Require Import Num NumR G_llh M_Llh S_Llh P_Llh P_LlhValue.
Import ListNotations.
Open Scope R_scope.

Section S.
  Variable erfR : R -> R.
  Notation Nm := (RNum erfR).

  Definition pair_of (v : nat * nat * R) : nat * nat := fst v.
  Definition src_of (v : nat * nat * R) : nat := fst (fst v).
  Definition evt_of (v : nat * nat * R) : nat := snd (fst v).

  (* the ratio listed for the pair (k, e), 0 if the event was not selected for k *)
  Definition lookup (vals : list (nat * nat * R)) (k e : nat) : R :=
    match find (fun v => Nat.eqb (src_of v) k && Nat.eqb (evt_of v) e) vals with
    | Some v => snd v
    | None => 0
    end.

  Definition pairs_k (vals : list (nat * nat * R)) (k : nat) : list (nat * R) :=
    map (fun v => (snd (fst v), snd v)) (filter (fun v => Nat.eqb (fst (fst v)) k) vals).

  Lemma last_for_none_if_absent vals k e :
    (forall v, In v vals -> pair_of v <> (k, e)) -> last_for e (pairs_k vals k) = None.
  Proof.
    unfold pairs_k. induction vals as [|[[s i] r] vals IH]; intros H; [reflexivity|].
    cbn [filter fst snd]. destruct (Nat.eqb s k) eqn:Es.
    - cbn [map last_for fst snd]. rewrite IH by (intros v Hv; apply H; now right).
      destruct (Nat.eqb i e) eqn:Ei; [|reflexivity].
      exfalso. apply (H (s, i, r)); [now left|].
      apply Nat.eqb_eq in Es, Ei. subst. reflexivity.
    - apply IH. intros v Hv. apply H. now right.
  Qed.

  Lemma last_for_lookup vals k e :
    NoDup (map pair_of vals) ->
    match last_for e (pairs_k vals k) with Some r => r | None => 0 end = lookup vals k e.
  Proof.
    unfold lookup, pairs_k.
    induction vals as [|[[s i] r] vals IH]; intros Hnd; [reflexivity|].
    cbn [map] in Hnd. apply NoDup_cons_iff in Hnd as [Hnotin Hnd].
    cbn [filter find fst snd src_of evt_of].
    destruct (Nat.eqb s k) eqn:Es; cbn [andb].
    - cbn [map last_for fst snd].
      destruct (Nat.eqb i e) eqn:Ei.
      + (* this is the pair (k,e): by NoDup it does not occur later *)
        apply Nat.eqb_eq in Es, Ei. subst s i.
        assert (Hn : last_for e (pairs_k vals k) = None).
        { apply last_for_none_if_absent. intros v Hv E. apply Hnotin.
          apply in_map_iff. exists v. split; [exact E|exact Hv]. }
        unfold pairs_k in Hn. rewrite Hn. reflexivity.
      + specialize (IH Hnd).
        destruct (last_for e (map (fun v => (snd (fst v), snd v))
                                  (filter (fun v => Nat.eqb (fst (fst v)) k) vals)));
          exact IH.
    - apply IH. exact Hnd.
  Qed.

  Lemma nth_map_lt {A B} (f : A -> B) (l : list A) (e : nat) (d : A) (d' : B) :
    (e < length l)%nat -> nth e (map f l) d' = f (nth e l d).
  Proof.
    revert e. induction l as [|a l IH]; intros e He; [cbn in He; lia|].
    destruct e as [|e]; [reflexivity|]. cbn [map nth]. apply IH. cbn in He. lia.
  Qed.

  (* one `+=` statement of numpy *)
  Lemma fancy_add_length upd (old : list R) pairs : length (fancy_add upd old pairs) = length old.
  Proof. unfold fancy_add. rewrite map_length, combine_length, seq_length. lia. Qed.

  Lemma fancy_add_nth upd (old : list R) pairs e :
    (e < length old)%nat ->
    nth e (fancy_add upd old pairs) 0 =
    match last_for e pairs with
    | Some v => upd (nth e old 0) v
    | None => nth e old 0
    end.
  Proof.
    intros He. unfold fancy_add.
    set (g := fun ie : nat * R => match last_for (fst ie) pairs with
                                  | Some v => upd (snd ie) v | None => snd ie end).
    rewrite (nth_indep _ 0 (g (0%nat, 0))) by (rewrite map_length, combine_length, seq_length; lia).
    rewrite map_nth. rewrite combine_nth by (rewrite seq_length; reflexivity).
    rewrite seq_nth by exact He. unfold g. cbn [fst snd]. reflexivity.
  Qed.

  Lemma sw_source_step_length a_k vals R k :
    length (sw_source_step Nm a_k vals R k) = length R.
  Proof. unfold sw_source_step. apply fancy_add_length. Qed.

  Lemma sw_source_step_nth a_k vals Ri k e :
    NoDup (map pair_of vals) -> (e < length Ri)%nat ->
    nth e (sw_source_step Nm a_k vals Ri k) 0 = nth e Ri 0 + lookup vals k e * nth k a_k 0.
  Proof.
    intros Hnd He. unfold sw_source_step. cbv zeta.
    rewrite fancy_add_nth by exact He.
    pose proof (last_for_lookup vals k e Hnd) as HL. unfold pairs_k in HL.
    cbn [nzero RNum].
    destruct (last_for e (map (fun v => (snd (fst v), snd v))
                              (filter (fun v => Nat.eqb (fst (fst v)) k) vals))) as [r|].
    - rewrite K_sw_term. rewrite <- HL. reflexivity.
    - rewrite <- HL. lra.
  Qed.

  Lemma sw_fold_nth a_k vals ks : forall Ri e,
    NoDup (map pair_of vals) -> (e < length Ri)%nat ->
    nth e (fold_left (sw_source_step Nm a_k vals) ks Ri) 0 =
    nth e Ri 0 + Rsum (map (fun k => lookup vals k e * nth k a_k 0) ks).
  Proof.
    induction ks as [|k ks IH]; intros Ri e Hnd He; cbn [fold_left map].
    - cbn. lra.
    - rewrite IH by (try exact Hnd; rewrite sw_source_step_length; exact He).
      rewrite sw_source_step_nth by assumption.
      unfold Rsum. cbn [fold_right]. lra.
  Qed.

  Lemma sw_fold_length a_k vals ks : forall Ri,
    length (fold_left (sw_source_step Nm a_k vals) ks Ri) = length Ri.
  Proof.
    induction ks as [|k ks IH]; intros Ri; cbn [fold_left]; [reflexivity|].
    rewrite IH. apply sw_source_step_length.
  Qed.

  (* C03: R_i = sum_k a_k R_ik / sum_k a_k *)
  Theorem stacked_ratio_is_weighted_mean a_k n_sel vals e :
    NoDup (map pair_of vals) -> (e < n_sel)%nat ->
    nth e (sw_ratio Nm a_k n_sel vals) 0 =
    Rsum (map (fun k => lookup vals k e * nth k a_k 0) (seq 0 (length a_k))) / Rsum a_k.
  Proof.
    intros Hnd He. unfold sw_ratio. cbv zeta.
    set (R1 := fold_left (sw_source_step Nm a_k vals) (seq 0 (length a_k)) (repeat (nzero Nm) n_sel)).
    assert (HL : length R1 = n_sel).
    { unfold R1. rewrite sw_fold_length. apply repeat_length. }
    rewrite (nth_map_lt (fun r => k_sw_norm Nm r (nsum Nm a_k)) R1 e 0 0)
      by (rewrite HL; exact He).
    rewrite K_sw_norm, nsum_R. f_equal.
    unfold R1. rewrite sw_fold_nth by (try exact Hnd; rewrite repeat_length; exact He).
    rewrite nth_repeat. cbn [nzero RNum]. lra.
  Qed.

  (* what happens without the invariant: the same pair listed twice keeps only
     its last ratio (numpy's buffered `+=`), not the sum *)
  Theorem stacked_dup_refuted :
    exists a_k vals,
      ~ NoDup (map pair_of vals) /\
      nth 0 (sw_ratio Nm a_k 1 vals) 0 <> Rsum (map (fun v => snd v * nth (src_of v) a_k 0) vals) / Rsum a_k.
  Proof.
    exists [1], [((0%nat, 0%nat), 2); ((0%nat, 0%nat), 3)]. split.
    - intros H. cbn in H. apply NoDup_cons_iff in H as [H _]. apply H. now left.
    - unfold sw_ratio, sw_source_step, fancy_add. cbn.
      unfold Rsum. cbn. lra.
  Qed.
End S.
