(* Proofs for C08, part 1: kernels, unused-seed search, worker services,
   minimiser restarts and the separation of the two streams. *)
From Coq Require Import ZArith List Bool Lia Permutation Sorted.
From Sky Require Import Result PyList Num G_random M_Random S_Random.
Import ListNotations.
Open Scope Z_scope.

(* ------------------------------------------------------------------ *)
(* Characterising lemmas of the regenerated kernels                     *)
Section KNum.
  Context {T : Type} (N : Num T).
  Lemma K_rc_norm c l : rc_norm N c l = ndiv N c l /\ rc_norm_last = -1.
  Proof. split; reflexivity. Qed.
  Lemma K_rc_nonneg x : rc_nonneg N x = nleb N (nzero N) x. Proof. reflexivity. Qed.
  Lemma K_rc_sum_bad s a : rc_sum_bad N s a = nltb N a (nabs N (nsub N s (none N))).
  Proof. reflexivity. Qed.
  Lemma K_rc_atol e64 ep :
    rc_atol1 N (rc_atol0 N e64) ep = nmax N (nsqrt N e64) (nsqrt N ep).
  Proof. reflexivity. Qed.
  Lemma K_rc_ss_table x : rc_ss_table N x = x. Proof. reflexivity. Qed.
  Lemma K_init_value lo u hi lo' :
    init_value N lo u hi lo' = nadd N lo (nmul N u (nsub N hi lo')).
  Proof. reflexivity. Qed.
End KNum.

Lemma K_rc_size_bad a b : rc_size_bad a b = negb (a =? b). Proof. reflexivity. Qed.
Lemma K_rc_draw_size n : rc_draw_size n = n. Proof. reflexivity. Qed.
Lemma K_rc_perm j : rc_perm j = j. Proof. reflexivity. Qed.
Lemma K_rc_ss_value j v : rc_ss_value j v = v /\ rc_ss_value_idx0 j = j.
Proof. split; reflexivity. Qed.
Lemma K_rc_side_right : rc_side_right = true. Proof. reflexivity. Qed.
Lemma K_rc_scatter j v : rc_scatter_at j = j /\ rc_scatter_val v = v.
Proof. split; reflexivity. Qed.
Lemma K_rc_take i v : rc_take i v = v /\ rc_take_idx0 i = i. Proof. split; reflexivity. Qed.

Lemma existsb_eqb_In x l : existsb (Z.eqb x) l = true <-> In x l.
Proof.
  rewrite existsb_exists. split.
  - intros [y [Hy He]]. apply Z.eqb_eq in He. subst. exact Hy.
  - intros H. exists x. split; [exact H | apply Z.eqb_refl].
Qed.

Lemma K_seed_need s l : seed_need s l = true <-> In s l.
Proof. unfold seed_need. apply existsb_eqb_In. Qed.
Lemma K_seed_keep i l : seed_keep i l = true <-> ~ In i l.
Proof.
  unfold seed_keep. rewrite negb_true_iff. split.
  - intros H Hin. apply existsb_eqb_In in Hin. congruence.
  - intros H. destruct (existsb (Z.eqb i) l) eqn:E; [|reflexivity].
    apply existsb_eqb_In in E. contradiction.
Qed.
Lemma K_seed_used l : seed_used l = l. Proof. reflexivity. Qed.
Lemma K_seed_range n : seed_lo = 1 /\ seed_hi n = n + 2. Proof. split; reflexivity. Qed.
Lemma K_seed_elt i : seed_elt i = i. Proof. reflexivity. Qed.
Lemma K_seed_reseed_arg s : seed_reseed_arg s = s. Proof. reflexivity. Qed.
Lemma K_seed_create_rss r : seed_create_rss r = r. Proof. reflexivity. Qed.

Lemma K_wk_first r : wk_first r = r. Proof. reflexivity. Qed.
Lemma K_wk_range n : wk_lo = 1 /\ wk_hi n = n. Proof. split; reflexivity. Qed.
Lemma K_wk_seed v : wk_seed v = v. Proof. reflexivity. Qed.
Lemma K_wk_randint : wk_randint_lo = 0 /\ wk_randint_hi = 4294967296.
Proof. split; reflexivity. Qed.
Lemma K_wk_single_rss r : wk_single_rss r = r. Proof. reflexivity. Qed.
Lemma K_wk_master_rss v : wk_master_rss v = v /\ wk_master_rss_idx0 = 0.
Proof. split; reflexivity. Qed.
Lemma K_wk_proc_rss pid v : wk_proc_rss pid v = v /\ wk_proc_rss_idx0 pid = pid.
Proof. split; reflexivity. Qed.
Lemma K_wk_proc_cond pid : wk_proc_cond pid = (0 <? pid).
Proof. unfold wk_proc_cond. apply Z.gtb_ltb. Qed.

Lemma K_trial_min_none o :
  trial_min_none o = match o with None => true | Some _ => false end.
Proof. reflexivity. Qed.
Lemma K_trial_min_seed s : trial_min_seed s = s. Proof. reflexivity. Qed.
Lemma K_trial_gen_rss r : trial_gen_rss r = r. Proof. reflexivity. Qed.
Lemma K_trial_fit_rss m : trial_fit_rss m = m. Proof. reflexivity. Qed.
Lemma K_trial_rec_seed s : trial_rec_seed s = s. Proof. reflexivity. Qed.
Lemma K_pseudo_rss r : pseudo_bkg_rss r = r /\ pseudo_sig_rss r = r.
Proof. split; reflexivity. Qed.
Lemma K_trials_rss r : trials_rss r = r. Proof. reflexivity. Qed.
Lemma K_fit_max_rss m : fit_max_rss m = m. Proof. reflexivity. Qed.
Lemma K_max_min_rss r : max_min_rss r = r. Proof. reflexivity. Qed.
Lemma K_min_loop_cond reps mx c r :
  min_loop_cond reps mx c r = negb c && r && (reps <? mx).
Proof. reflexivity. Qed.
Lemma K_min_reps : min_reps0 = 0 /\ forall r, min_reps_inc r = r + 1.
Proof. split; reflexivity. Qed.
Lemma K_min_init_rss r : min_init_rss r = r. Proof. reflexivity. Qed.
Lemma K_min_fail c : min_fail c = negb c. Proof. reflexivity. Qed.
Lemma K_init_size n : init_size n = n /\ init_size_idx0 = 0. Proof. split; reflexivity. Qed.
Lemma K_ont : ont_lo = 0 /\ ont_hi = 1 /\ forall n, ont_size n = n.
Proof. repeat split; reflexivity. Qed.
Lemma K_bkg_n po nf v : bkg_n po nf v = if po then v else nf. Proof. reflexivity. Qed.
Lemma K_bkg_choice n r : bkg_choice_size n = n /\ bkg_choice_rss r = r /\ bkg_scr_rss r = r.
Proof. repeat split; reflexivity. Qed.
Lemma K_scr_size n : scr_size n = n. Proof. reflexivity. Qed.
Lemma K_sig_choice_size n : sig_choice_size n = n. Proof. reflexivity. Qed.
Lemma K_sig_redraw n ns :
  sig_redraw_cond n ns = (n <? ns) /\ sig_redraw_size ns n = ns - n.
Proof. split; reflexivity. Qed.
Lemma K_sig_redraw_need n : sig_redraw_need n = (0 <? n).
Proof. unfold sig_redraw_need. apply Z.gtb_ltb. Qed.
Lemma K_ana_sig_none m : ana_sig_none m = (m =? 0). Proof. reflexivity. Qed.

(* ------------------------------------------------------------------ *)
(* unused-seed search                                                   *)

Lemma zinsert_In x y l : In y (zinsert x l) <-> y = x \/ In y l.
Proof.
  induction l as [|a r IH]; cbn [zinsert].
  - cbn. intuition.
  - destruct (x <? a) eqn:E1.
    + cbn. intuition.
    + destruct (x =? a) eqn:E2.
      * apply Z.eqb_eq in E2. subst. cbn. intuition.
      * cbn [In]. rewrite IH. intuition.
Qed.

Lemma np_unique_In y l : In y (np_unique l) <-> In y l.
Proof.
  induction l as [|a r IH]; cbn [np_unique fold_right].
  - reflexivity.
  - change (fold_right zinsert [] r) with (np_unique r).
    rewrite zinsert_In, IH. cbn. intuition.
Qed.

Lemma zrange_In lo hi x : In x (zrange lo hi) <-> lo <= x < hi.
Proof.
  unfold zrange. rewrite in_map_iff. split.
  - intros [k [Hk Hin]]. apply in_seq in Hin. lia.
  - intros H. exists (Z.to_nat (x - lo)). split; [lia|]. apply in_seq. lia.
Qed.

Lemma zrange_NoDup lo hi : NoDup (zrange lo hi).
Proof.
  unfold zrange. apply FinFun.Injective_map_NoDup; [|apply seq_NoDup].
  intros a b H. lia.
Qed.

Lemma zrange_length lo hi : length (zrange lo hi) = Z.to_nat (hi - lo).
Proof. unfold zrange. rewrite map_length, seq_length. reflexivity. Qed.

(* pigeonhole: len+1 distinct candidates cannot all be among len used seeds *)
Lemma seed_search_ok seeds :
  exists s, seed_search seeds = Ok s /\ ~ In s seeds
            /\ 1 <= s <= zlen (np_unique seeds) + 1.
Proof.
  unfold seed_search. rewrite K_seed_used.
  destruct (K_seed_range (zlen (np_unique seeds))) as [Hlo Hhi]. rewrite Hlo, Hhi.
  set (used := np_unique seeds).
  destruct (find (fun i => seed_keep i used) (zrange 1 (zlen used + 2))) as [i|] eqn:F.
  - apply find_some in F. destruct F as [Hin Hk].
    apply zrange_In in Hin. apply K_seed_keep in Hk.
    exists i. rewrite K_seed_elt. split; [reflexivity|]. split.
    + intros H. apply Hk. apply np_unique_In. exact H.
    + lia.
  - exfalso.
    assert (Hincl : incl (zrange 1 (zlen used + 2)) used).
    { intros x Hx. pose proof (find_none _ _ F x Hx) as Hf. cbn beta in Hf.
      destruct (in_dec Z.eq_dec x used) as [Hi|Hn]; [exact Hi|].
      apply K_seed_keep in Hn. congruence. }
    pose proof (NoDup_incl_length (zrange_NoDup 1 (zlen used + 2)) Hincl) as Hl.
    rewrite zrange_length in Hl. unfold zlen in Hl. lia.
Qed.

(* the first candidate accepted by `find` is the least one *)
Lemma find_first {A} (f : A -> bool) l x :
  find f l = Some x ->
  exists l1 l2, l = l1 ++ x :: l2 /\ forall y, In y l1 -> f y = false.
Proof.
  induction l as [|a r IH]; cbn [find]; [discriminate|].
  destruct (f a) eqn:E.
  - intros H. inversion H. subst. exists [], r. split; [reflexivity|]. intros y [].
  - intros H. destruct (IH H) as [l1 [l2 [Hl Hf]]].
    exists (a :: l1), l2. split; [rewrite Hl; reflexivity|].
    intros y [Hy|Hy]; [subst; exact E | apply Hf; exact Hy].
Qed.

Lemma zrange_split lo hi l1 x l2 :
  zrange lo hi = l1 ++ x :: l2 -> forall j, lo <= j < x -> In j l1.
Proof.
  intros H j Hj.
  assert (Hin : In j (zrange lo hi)).
  { apply zrange_In. assert (In x (zrange lo hi)) as Hx by (rewrite H; apply in_elt).
    apply zrange_In in Hx. lia. }
  rewrite H in Hin. apply in_app_or in Hin. destruct Hin as [Hin|Hin]; [exact Hin|].
  exfalso. destruct Hin as [Hin|Hin]; [lia|].
  (* j after x in a strictly increasing list: impossible *)
  assert (Hs : forall a b (l : list Z),
             StronglySorted Z.lt (a ++ x :: b) -> In j b -> x < j).
  { intros a b _ Hss Hjb. induction a as [|a0 a IHa]; cbn in Hss.
    - inversion Hss as [|? ? _ Hall]. subst. rewrite Forall_forall in Hall. apply Hall. exact Hjb.
    - inversion Hss. auto. }
  assert (Hss : StronglySorted Z.lt (zrange lo hi)).
  { unfold zrange. generalize (Z.to_nat (hi - lo)) as n. intros n.
    assert (G : forall s, StronglySorted Z.lt (map (fun k => lo + Z.of_nat k) (seq s n))).
    { induction n as [|n IHn]; intros s; cbn [seq map]; constructor.
      - apply IHn.
      - rewrite Forall_forall. intros y Hy. apply in_map_iff in Hy.
        destruct Hy as [k [Hk Hks]]. apply in_seq in Hks. lia. }
    apply G. }
  rewrite H in Hss. pose proof (Hs l1 l2 [] Hss Hin). lia.
Qed.

Lemma seed_search_least seeds s :
  seed_search seeds = Ok s -> least_unused_pos seeds s.
Proof.
  unfold seed_search. rewrite K_seed_used.
  destruct (K_seed_range (zlen (np_unique seeds))) as [Hlo Hhi]. rewrite Hlo, Hhi.
  set (used := np_unique seeds).
  destruct (find (fun i => seed_keep i used) (zrange 1 (zlen used + 2))) as [i|] eqn:F;
    [|discriminate].
  rewrite K_seed_elt. intros H. inversion H. subst i. clear H.
  pose proof (find_some _ _ F) as [Hin Hk].
  apply zrange_In in Hin. apply K_seed_keep in Hk.
  destruct (find_first _ _ _ F) as [l1 [l2 [Hsplit Hf]]].
  split; [lia|]. split.
  - intros H. apply Hk. apply np_unique_In. exact H.
  - intros j Hj. pose proof (zrange_split _ _ _ _ _ Hsplit j Hj) as Hj1.
    specialize (Hf j Hj1). cbn beta in Hf.
    destruct (in_dec Z.eq_dec j used) as [Hi|Hn].
    + apply np_unique_In. exact Hi.
    + apply K_seed_keep in Hn. congruence.
Qed.

Theorem extend_seed_fresh rss_seed seeds :
  exists s, extend_seed rss_seed seeds = Ok s /\ fresh seeds s
            /\ (~ In rss_seed seeds -> s = rss_seed)
            /\ (In rss_seed seeds -> least_unused_pos seeds s).
Proof.
  unfold extend_seed, fresh.
  destruct (seed_need rss_seed seeds) eqn:E.
  - apply K_seed_need in E.
    destruct (seed_search_ok seeds) as [s [Hs [Hn _]]].
    exists s. rewrite Hs. cbn [bind]. rewrite K_seed_reseed_arg.
    split; [reflexivity|]. split; [exact Hn|]. split; [tauto|].
    intros _. apply seed_search_least. exact Hs.
  - exists rss_seed. split; [reflexivity|].
    assert (Hn : ~ In rss_seed seeds).
    { intros H. apply K_seed_need in H. congruence. }
    split; [exact Hn|]. split; [reflexivity|]. tauto.
Qed.

(* ------------------------------------------------------------------ *)
(* worker services                                                      *)
Section MachineProofs.
  Variables rng val : Type.
  Variable seed_rng : Z -> rng.
  Variable draw : rng -> req -> val * rng.
  Variable val_int : val -> Z.

  Notation rssT := (rss rng).
  Notation wseeds := (worker_seeds rng val draw val_int).
  Notation rdraw := (rss_draw rng val draw).

  Lemma rss_draw_seed r q : rs_seed (snd (rdraw r q)) = rs_seed r.
  Proof. unfold rss_draw. destruct (draw (rs_st r) q). reflexivity. Qed.

  Lemma worker_seeds_length k r : length (fst (wseeds k r)) = k.
  Proof.
    revert r. induction k as [|k IH]; intros r; cbn [worker_seeds]; [reflexivity|].
    destruct (rdraw r _) as [v r1]. specialize (IH r1).
    destruct (wseeds k r1) as [l r2]. cbn in *. lia.
  Qed.

  (* the seed of worker j does not depend on how many workers follow it *)
  Lemma worker_seeds_prefix n m r :
    (n <= m)%nat -> fst (wseeds n r) = firstn n (fst (wseeds m r)).
  Proof.
    revert m r. induction n as [|n IH]; intros m r Hnm; [reflexivity|].
    destruct m as [|m]; [lia|]. cbn [worker_seeds].
    destruct (rdraw r _) as [v r1].
    specialize (IH m r1 ltac:(lia)).
    destruct (wseeds n r1) as [l r2]. destruct (wseeds m r1) as [l' r2'].
    cbn in *. rewrite IH. reflexivity.
  Qed.

  (* every worker seed is the integer read of a randint(0, 2^32) request;
     the parent stream is advanced by exactly these requests *)
  Notation randints := (randints rng val draw val_int).
  Lemma worker_seeds_randints k r : wseeds k r = randints k r.
  Proof.
    revert r. induction k as [|k IH]; intros r; [reflexivity|].
    cbn [worker_seeds randints].
    destruct K_wk_randint as [Hlo Hhi]. rewrite Hlo, Hhi.
    destruct (rdraw r _) as [v r1]. rewrite IH.
    destruct (randints k r1). rewrite K_wk_seed. reflexivity.
  Qed.

  Lemma rss_list_spec parent ncpu :
    1 <= ncpu ->
    rss_list rng val seed_rng draw val_int parent ncpu =
      if ncpu =? 1 then [parent]
      else snd (randints (Z.to_nat (ncpu - 1)) parent)
           :: map (rss_new rng seed_rng) (fst (randints (Z.to_nat (ncpu - 1)) parent)).
  Proof.
    intros H. unfold rss_list. destruct (ncpu =? 1); [reflexivity|].
    destruct (K_wk_range ncpu) as [Hlo Hhi]. rewrite Hlo, Hhi.
    rewrite worker_seeds_randints.
    destruct (randints (Z.to_nat (ncpu - 1)) parent). reflexivity.
  Qed.

  Lemma rss_list_length parent ncpu :
    1 <= ncpu -> zlen (rss_list rng val seed_rng draw val_int parent ncpu) = ncpu.
  Proof.
    intros H. rewrite rss_list_spec by exact H. unfold zlen.
    destruct (ncpu =? 1) eqn:E.
    - apply Z.eqb_eq in E. subst. reflexivity.
    - cbn [length]. rewrite map_length, <- worker_seeds_randints, worker_seeds_length. lia.
  Qed.

  (* process pid > 0 works with a fresh service whose seed is the pid-th
     randint draw of the parent; process 0 with the parent itself *)
  Lemma proc_rss_worker parent ncpu pid :
    1 < ncpu -> 0 < pid < ncpu ->
    exists s, nth_error (fst (randints (Z.to_nat (ncpu - 1)) parent)) (Z.to_nat (pid - 1)) = Some s
              /\ proc_rss rng val seed_rng draw val_int parent ncpu pid
                 = Ok (rss_new rng seed_rng s).
  Proof.
    intros Hn Hp. unfold proc_rss.
    rewrite rss_list_spec by lia.
    destruct (ncpu =? 1) eqn:E; [apply Z.eqb_eq in E; lia|].
    rewrite K_wk_proc_cond. destruct (0 <? pid) eqn:E2; [|apply Z.ltb_ge in E2; lia].
    destruct (K_wk_proc_rss pid 0) as [_ Hi]. rewrite Hi.
    set (l := fst (randints (Z.to_nat (ncpu - 1)) parent)).
    assert (Hl : length l = Z.to_nat (ncpu - 1)).
    { unfold l. rewrite <- worker_seeds_randints. apply worker_seeds_length. }
    destruct (nth_error l (Z.to_nat (pid - 1))) as [s|] eqn:En.
    - exists s. split; [reflexivity|].
      unfold py_get, zlen. cbn [length]. rewrite map_length, Hl.
      destruct (pid <? 0) eqn:E3; [apply Z.ltb_lt in E3; lia|].
      destruct ((pid <? 0) || (Z.of_nat (S (Z.to_nat (ncpu - 1))) <=? pid)) eqn:E4.
      { apply orb_true_iff in E4. destruct E4 as [E4|E4]; [apply Z.ltb_lt in E4; lia|apply Z.leb_le in E4; lia]. }
      replace (Z.to_nat pid) with (S (Z.to_nat (pid - 1))) by lia.
      cbn [nth_error]. rewrite nth_error_map, En. reflexivity.
    - apply nth_error_None in En. lia.
  Qed.

  Lemma proc_rss_master parent ncpu :
    1 <= ncpu ->
    proc_rss rng val seed_rng draw val_int parent ncpu 0
      = Ok (snd (randints (Z.to_nat (ncpu - 1)) parent)).
  Proof.
    intros Hn. unfold proc_rss. rewrite rss_list_spec by lia.
    destruct (ncpu =? 1) eqn:E.
    - apply Z.eqb_eq in E. subst. reflexivity.
    - rewrite K_wk_proc_cond. cbn [Z.ltb Z.compare].
      destruct (K_wk_master_rss 0) as [_ Hi]. rewrite Hi. reflexivity.
  Qed.

  Lemma proc_rss_master_len parent ncpu :
    1 <= ncpu ->
    proc_rss rng val seed_rng draw val_int parent ncpu 0
      = Ok (snd (randints (Z.to_nat (ncpu - 1)) parent))
    /\ zlen (rss_list rng val seed_rng draw val_int parent ncpu) = ncpu.
  Proof. intros H. split; [apply proc_rss_master | apply rss_list_length]; exact H. Qed.

  (* ---------------------------------------------------------------- *)
  (* minimiser restarts                                                *)
  Variable impl : nat -> option val -> bool * bool.
  Notation mloop := (min_loop rng val draw impl).

  (* n requests uniform(size=nfloat) on a service *)
  Definition restart_draws (nfloat : Z) : nat -> rssT -> rssT :=
    iter_state rssT (fun r => snd (rdraw r (RUniform nfloat))).

  Lemma iter_state_snoc {S} (f : S -> S) n s :
    iter_state S f (Datatypes.S n) s = iter_state S f n (f s).
  Proof. reflexivity. Qed.

  Lemma with_slot_0 {A} (r m : rssT) (f : rssT -> A * rssT) :
    with_slot rng [r; m] 0 f = let '(a, r') := f r in Ok (a, [r'; m]).
  Proof. reflexivity. Qed.
  Lemma with_slot_1 {A} (r m : rssT) (f : rssT -> A * rssT) :
    with_slot rng [r; m] 1 f = let '(a, m') := f m in Ok (a, [r; m']).
  Proof. reflexivity. Qed.

  Lemma min_loop_spec fuel : forall k reps maxrep nfloat st r m,
    maxrep - reps <= Z.of_nat fuel -> 0 <= reps ->
    exists reps' st',
      mloop fuel k reps maxrep nfloat st [r; m] 1
        = Ok (reps', st', [r; restart_draws nfloat (Z.to_nat (reps' - reps)) m])
      /\ reps <= reps' <= Z.max reps maxrep
      /\ min_loop_cond reps' maxrep (fst st') (snd st') = false.
  Proof.
    induction fuel as [|f IH]; intros k reps maxrep nfloat st r m Hf Hr;
      cbn [min_loop]; destruct (min_loop_cond reps maxrep (fst st) (snd st)) eqn:C.
    - exfalso. rewrite K_min_loop_cond in C. apply andb_true_iff in C.
      destruct C as [_ C]. apply Z.ltb_lt in C. lia.
    - exists reps, st. replace (reps - reps) with 0 by lia. cbn. repeat split; [lia|lia|exact C].
    - rewrite K_min_init_rss. destruct (K_init_size nfloat) as [Hs _]. rewrite Hs.
      rewrite with_slot_1.
      destruct (rdraw m (RUniform nfloat)) as [v m1] eqn:D.
      cbn [bind]. destruct K_min_reps as [_ Hinc]. rewrite Hinc.
      assert (C' := C). rewrite K_min_loop_cond in C'. apply andb_true_iff in C'.
      destruct C' as [_ C']. apply Z.ltb_lt in C'.
      destruct (IH (S k) (reps + 1) maxrep nfloat (impl (S k) (Some v)) r m1
                   ltac:(lia) ltac:(lia)) as [reps' [st' [E [Hle Hc]]]].
      exists reps', st'. rewrite E. split; [|split; [lia|exact Hc]].
      replace (Z.to_nat (reps' - reps)) with (S (Z.to_nat (reps' - (reps + 1)))) by lia.
      unfold restart_draws. rewrite iter_state_snoc, D. reflexivity.
    - exists reps, st. replace (reps - reps) with 0 by lia. cbn. repeat split; [lia|lia|exact C].
  Qed.

  (* minimize never runs out of fuel, leaves slot 0 alone, and advances the
     service in slot 1 by exactly `reps` requests *)
  Lemma minimize_spec r m maxrep nfloat :
    exists reps fit,
      minimize rng val draw impl [r; m] 1 maxrep nfloat
        = Ok (fit, [r; restart_draws nfloat (Z.to_nat reps) m])
      /\ 0 <= reps <= Z.max 0 maxrep
      /\ (fit = Ok reps \/ fit = Err ValueError).
  Proof.
    unfold minimize. destruct K_min_reps as [H0 _]. rewrite H0.
    destruct (min_loop_spec (Z.to_nat maxrep) 0%nat 0 maxrep nfloat (impl 0%nat None) r m
                ltac:(lia) ltac:(lia)) as [reps [st [E [Hle Hc]]]].
    rewrite E. cbn [bind]. rewrite Z.sub_0_r.
    exists reps. eexists. split; [reflexivity|]. split; [lia|].
    rewrite K_min_fail. destruct (fst st); [left|right]; reflexivity.
  Qed.
End MachineProofs.

(* ------------------------------------------------------------------ *)
(* one trial, n trials: the data stream is a function of the service handed
   in as `rss` only                                                      *)
Section TrialProofs.
  Variables rng val : Type.
  Variable seed_rng : Z -> rng.
  Variable draw : rng -> req -> val * rng.
  Variables bdata data : Type.
  Variable bkg : rss rng -> bdata * rss rng.
  Variable sig : bdata -> rss rng -> data * rss rng.

  (* generate_pseudo_data on the service r, as a state transformer *)
  Definition gen_on (r : rss rng) : data * rss rng :=
    let '(b, r1) := bkg r in sig b r1.
  (* the service the minimiser draws from *)
  Definition min_service (r : rss rng) (mr : option (rss rng)) : rss rng :=
    match mr with None => rss_new rng seed_rng (rs_seed r) | Some m => m end.

  Lemma do_trial_spec impl r mr maxrep nfloat :
    exists reps fit,
      do_trial rng val seed_rng draw impl bdata data bkg sig r mr maxrep nfloat
      = Ok (fst (gen_on r), rs_seed (snd (gen_on r)), fit, snd (gen_on r),
            restart_draws rng val draw nfloat (Z.to_nat reps) (min_service r mr))
      /\ 0 <= reps <= Z.max 0 maxrep /\ (fit = Ok reps \/ fit = Err ValueError).
  Proof.
    unfold do_trial. rewrite K_trial_min_none, K_trial_min_seed, K_trial_gen_rss.
    rewrite K_trial_fit_rss, K_fit_max_rss, K_max_min_rss.
    set (m := if match option_map (fun _ : rss rng => 1) mr with None => true | Some _ => false end
              then rss_new rng seed_rng (rs_seed r)
              else match mr with Some m => m | None => r end).
    assert (Hm : m = min_service r mr) by (unfold m, min_service; destruct mr; reflexivity).
    clearbody m. subst m.
    unfold gen_pseudo. destruct (K_pseudo_rss 0) as [Hb Hs]. rewrite Hb, Hs.
    rewrite with_slot_0. unfold gen_on.
    destruct (bkg r) as [b r1]. cbn [bind]. rewrite with_slot_0.
    destruct (sig b r1) as [d r2]. cbn [bind fst snd].
    destruct (minimize_spec rng val draw impl r2 (min_service r mr) maxrep nfloat)
      as [reps [fit [E [Hr Hf]]]].
    rewrite E. cbn [bind]. exists reps, fit.
    change (py_get [r2; restart_draws rng val draw nfloat (Z.to_nat reps) (min_service r mr)] 0)
      with (Ok r2).
    change (py_get [r2; restart_draws rng val draw nfloat (Z.to_nat reps) (min_service r mr)] 1)
      with (Ok (restart_draws rng val draw nfloat (Z.to_nat reps) (min_service r mr))).
    cbn [bind]. rewrite K_trial_rec_seed. split; [reflexivity|]. split; [exact Hr | exact Hf].
  Qed.

  Notation trials := (do_trials_seq rng val seed_rng draw bdata data bkg sig).

  Lemma do_trials_seq_spec impls : forall r mr maxrep nfloat,
    exists l r' mr',
      trials impls r mr maxrep nfloat = Ok (l, r', mr')
      /\ map (fun x => fst (fst x)) l = fst (data_stream _ _ gen_on (length impls) r)
      /\ r' = snd (data_stream _ _ gen_on (length impls) r)
      /\ length l = length impls.
  Proof.
    induction impls as [|impl rest IH]; intros r mr maxrep nfloat.
    - exists [], r, mr. repeat split.
    - cbn [do_trials_seq].
      destruct (do_trial_spec impl r mr maxrep nfloat) as [reps [fit [E _]]].
      rewrite E. cbn [bind].
      set (mr1 := match mr with Some _ => Some _ | None => None end).
      destruct (IH (snd (gen_on r)) mr1 maxrep nfloat) as [l [r' [mr' [E2 [Hd [Hr Hl]]]]]].
      rewrite E2. cbn [bind].
      eexists. exists r', mr'. split; [reflexivity|].
      cbn [length data_stream map fst snd].
      destruct (gen_on r) as [d r1] eqn:G. cbn [fst snd] in *.
      destruct (data_stream _ _ gen_on (length rest) r1) as [l2 r2]. cbn [fst snd] in *.
      repeat split; [rewrite Hd; reflexivity | exact Hr | rewrite Hl; reflexivity].
  Qed.

  (* non-interference: two runs that differ in everything the minimiser does
     (its oracle per trial, its repetition limit, the number of floating
     parameters, the service it was given) generate the same pseudo data and
     leave the data service in the same state *)
  Theorem trials_noninterference impls1 impls2 r mr1 mr2 mx1 mx2 nf1 nf2 :
    length impls1 = length impls2 ->
    exists l1 l2 r' m1 m2,
      trials impls1 r mr1 mx1 nf1 = Ok (l1, r', m1)
      /\ trials impls2 r mr2 mx2 nf2 = Ok (l2, r', m2)
      /\ map (fun x => fst (fst x)) l1 = map (fun x => fst (fst x)) l2.
  Proof.
    intros Hlen.
    destruct (do_trials_seq_spec impls1 r mr1 mx1 nf1) as [l1 [r1 [m1 [E1 [D1 [R1 _]]]]]].
    destruct (do_trials_seq_spec impls2 r mr2 mx2 nf2) as [l2 [r2 [m2 [E2 [D2 [R2 _]]]]]].
    rewrite <- Hlen in D2, R2. subst r1 r2.
    exists l1, l2. eexists. exists m1, m2. split; [exact E1|]. split; [exact E2|].
    rewrite D1, D2. reflexivity.
  Qed.
End TrialProofs.
