(* C15, interpolation part (exact arithmetic, RNum): the line / parabola
   parametrisation reproduces the manifold at grid points, is exact for
   polynomials of the interpolant's degree, and the reported gradient is the
   derivative of the reported value (Coquelicot is_derive). *)
From Coq Require Import Reals ZArith List Bool Lra Lia.
From Coquelicot Require Import Coquelicot.
From Sky Require Import Result PyList Num NumR G_grid M_Grid P_Grid.
Import ListNotations.
Open Scope R_scope.

Section InterpKernels.
  Context {T : Type} (N : Num T).
  Lemma K_lin_x0 x : lin_x0 N x = x. Proof. reflexivity. Qed.
  Lemma K_lin_x1 x : lin_x1 N x = x. Proof. reflexivity. Qed.
  Lemma K_lin_m M1 M0 x1 x0 : lin_m N M1 M0 x1 x0 = ndiv N (nsub N M1 M0) (nsub N x1 x0).
  Proof. reflexivity. Qed.
  Lemma K_lin_b M0 m x0 : lin_b N M0 m x0 = nsub N M0 (nmul N m x0). Proof. reflexivity. Qed.
  Lemma K_lin_value m x b : lin_value N m x b = nadd N (nmul N m x) b. Proof. reflexivity. Qed.
  Lemma K_lin_value_cached m x b : lin_value_cached N m x b = lin_value N m x b. Proof. reflexivity. Qed.
  Lemma K_lin_grad m : lin_grad N m = m /\ lin_grad_cached N m = m. Proof. split; reflexivity. Qed.
  Lemma K_par_x x : par_x1 N x = x /\ par_x0 N x = x /\ par_x2 N x = x /\ par_dx N x = x.
  Proof. repeat split. Qed.
  Lemma K_par_args x1 dx : par_x0_arg N x1 dx = nsub N x1 dx /\ par_x2_arg N x1 dx = nadd N x1 dx.
  Proof. split; reflexivity. Qed.
  Lemma K_par_xm x x1 : par_xm N x x1 = nsub N x x1. Proof. reflexivity. Qed.
  Lemma K_par_grad_ret x : par_grad_ret N x = x. Proof. reflexivity. Qed.
End InterpKernels.

Section InterpR.
  Variable erfR : R -> R.
  Notation RN := (RNum erfR).

  Lemma K_par_a_R M0 M1 M2 dx : par_a RN M0 M1 M2 dx = 1 / 2 * (M0 - 2 * M1 + M2) / (dx * dx).
  Proof. unfold par_a. num_R. reflexivity. Qed.
  Lemma K_par_b_R M2 M0 dx : par_b RN M2 M0 dx = 1 / 2 * (M2 - M0) / dx.
  Proof. unfold par_b. num_R. reflexivity. Qed.
  Lemma K_par_value_R a xm b M1 : par_value RN a xm b M1 = a * (xm * xm) + b * xm + M1.
  Proof. unfold par_value. num_R. reflexivity. Qed.
  Lemma K_par_grad_R a xm b : par_grad RN a xm b = 2 * a * xm + b.
  Proof. unfold par_grad. num_R. reflexivity. Qed.

  (* ---------------------------------------------------------------- line *)
  Lemma lin_value1_R g F x :
    lin_value1 RN g F x =
      let x0 := round_lower RN g x in let x1 := round_upper RN g x in
      (F x1 - F x0) / (x1 - x0) * x + (F x0 - (F x1 - F x0) / (x1 - x0) * x0).
  Proof. reflexivity. Qed.
  Lemma lin_grad1_R g F x :
    lin_grad1 RN g F x = (F (round_upper RN g x) - F (round_lower RN g x)) / (round_upper RN g x - round_lower RN g x).
  Proof. reflexivity. Qed.

  (* the two nodes used for x are one spacing apart and bracket x *)
  Lemma lin_nodes a b d x : (0 <= d)%Z -> (0 < b)%Z -> let g := dgrid a b d in g_lb g <= x ->
    round_upper RN g x - round_lower RN g x = g_delta g /\ 0 < g_delta g.
  Proof.
    intros Hd Hb g Hx. destruct (regular_bracket erfR a b d x Hd Hb Hx) as [n [_ [_ [_ [E _]]]]].
    split; [fold g in E; lra|].
    cbn. apply Rmult_lt_0_compat; [apply IZR_lt; exact Hb|apply Rinv_0_lt_compat, pow10_pos, Hd].
  Qed.

  (* T: the line reproduces the manifold at both of its nodes; in particular
     at every grid point x = G n *)
  Theorem linear_reproduces_grid_points a b d n F : (0 <= d)%Z -> (0 < b)%Z -> (0 <= n)%Z ->
    let g := dgrid a b d in
    let x := g_lb g + IZR n * g_delta g in
    lin_value1 RN g F x = F x.
  Proof.
    intros Hd Hb Hn g x.
    destruct (regular_fixed_points erfR a b d n Hd Hb) as [EL [_ EU]]. fold g in EL, EU. fold x in EL, EU.
    assert (Hx : g_lb g <= x).
    { unfold x. assert (0 < g_delta g) by (cbn; apply Rmult_lt_0_compat; [apply IZR_lt; exact Hb|apply Rinv_0_lt_compat, pow10_pos, Hd]).
      assert (0 <= IZR n) by (apply IZR_le; exact Hn). nra. }
    destruct (lin_nodes a b d x Hd Hb Hx) as [_ Hdel]. fold g in Hdel.
    rewrite lin_value1_R. cbv zeta. rewrite EL, EU. field. lra.
  Qed.

  (* T: exact for polynomials of degree <= 1, value and gradient, at every x *)
  Theorem linear_exact_degree_1 a b d p q x : (0 <= d)%Z -> (0 < b)%Z ->
    let g := dgrid a b d in g_lb g <= x ->
    let F := fun t => p * t + q in
    lin_value1 RN g F x = F x /\ lin_grad1 RN g F x = p.
  Proof.
    intros Hd Hb g Hx F. destruct (lin_nodes a b d x Hd Hb Hx) as [E Hdel]. fold g in E, Hdel.
    rewrite lin_value1_R, lin_grad1_R. cbv zeta. unfold F.
    set (x0 := round_lower RN g x) in *. set (x1 := round_upper RN g x) in *.
    split; field; lra.
  Qed.

  (* T: the gradient reported with a value is the derivative of that value:
     for the parametrisation (m, b) computed for x, d/dt (m t + b) at x is m *)
  Theorem linear_gradient_is_derivative g F x :
    let '(_, m, b) := lin_params RN g F x in
    lin_value1 RN g F x = lin_value RN m x b /\ lin_grad1 RN g F x = lin_grad RN m /\
    is_derive (fun t => lin_value RN m t b) x (lin_grad RN m).
  Proof.
    unfold lin_value1, lin_grad1. destruct (lin_params RN g F x) as [[x0 m] b0].
    split; [reflexivity|]. split; [reflexivity|].
    unfold lin_value, lin_grad. num_R. auto_derive; [exact I|ring].
  Qed.

  (* -------------------------------------------------------------- parabola *)
  Lemma par_value1_R g F x :
    par_value1 RN g F x =
      let x1 := round_nearest RN g x in let dx := g_delta g in
      let x0 := round_nearest RN g (x1 - dx) in let x2 := round_nearest RN g (x1 + dx) in
      1 / 2 * (F x0 - 2 * F x1 + F x2) / (dx * dx) * ((x - x1) * (x - x1))
      + 1 / 2 * (F x2 - F x0) / dx * (x - x1) + F x1.
  Proof.
    unfold par_value1, par_params. cbv zeta.
    rewrite K_par_value_R, K_par_a_R, K_par_b_R. reflexivity.
  Qed.
  Lemma par_grad1_R g F x :
    par_grad1 RN g F x =
      let x1 := round_nearest RN g x in let dx := g_delta g in
      let x0 := round_nearest RN g (x1 - dx) in let x2 := round_nearest RN g (x1 + dx) in
      2 * (1 / 2 * (F x0 - 2 * F x1 + F x2) / (dx * dx)) * (x - x1) + 1 / 2 * (F x2 - F x0) / dx.
  Proof.
    unfold par_grad1, par_params. cbv zeta.
    rewrite K_par_grad_ret, K_par_grad_R, K_par_a_R, K_par_b_R. reflexivity.
  Qed.

  (* the three nodes used for x: x1 = G m nearest to x, x0 = x1 - spacing, x2 = x1 + spacing *)
  Lemma par_nodes a b d x : (0 <= d)%Z -> (0 < b)%Z -> let g := dgrid a b d in g_lb g <= x ->
    let x1 := round_nearest RN g x in
    round_nearest RN g (x1 - g_delta g) = x1 - g_delta g /\
    round_nearest RN g (x1 + g_delta g) = x1 + g_delta g /\ 0 < g_delta g /\
    Rabs (x1 - x) <= g_delta g / 2 + 5 / 10000000000 * g_delta g.
  Proof.
    intros Hd Hb g Hx x1.
    destruct (regular_nearest erfR a b d x Hd Hb Hx) as [m [_ [Em Bm]]]. fold g in Em, Bm. fold x1 in Em, Bm.
    assert (Hdel : 0 < g_delta g) by (cbn; apply Rmult_lt_0_compat; [apply IZR_lt; exact Hb|apply Rinv_0_lt_compat, pow10_pos, Hd]).
    pose proof (regular_fixed_points erfR a b d (m - 1) Hd Hb) as [_ [E0 _]].
    pose proof (regular_fixed_points erfR a b d (m + 1) Hd Hb) as [_ [E2 _]].
    fold g in E0, E2. rewrite minus_IZR in E0. rewrite plus_IZR in E2.
    replace (g_lb g + (IZR m - 1) * g_delta g) with (x1 - g_delta g) in E0 by (rewrite Em; ring).
    replace (g_lb g + (IZR m + 1) * g_delta g) with (x1 + g_delta g) in E2 by (rewrite Em; ring).
    repeat split; assumption.
  Qed.

  (* T: the parabola reproduces the manifold at grid points *)
  Theorem parabola_reproduces_grid_points a b d n F : (0 <= d)%Z -> (0 < b)%Z -> (0 <= n)%Z ->
    let g := dgrid a b d in
    let x := g_lb g + IZR n * g_delta g in
    par_value1 RN g F x = F x.
  Proof.
    intros Hd Hb Hn g x.
    destruct (regular_fixed_points erfR a b d n Hd Hb) as [_ [EN _]]. fold g in EN. fold x in EN.
    assert (Hdel : 0 < g_delta g) by (cbn; apply Rmult_lt_0_compat; [apply IZR_lt; exact Hb|apply Rinv_0_lt_compat, pow10_pos, Hd]).
    rewrite par_value1_R. cbv zeta. rewrite EN. field. lra.
  Qed.

  (* T: exact for polynomials of degree <= 2, value and gradient, at every x *)
  Theorem parabola_exact_degree_2 a b d c2 c1 c0 x : (0 <= d)%Z -> (0 < b)%Z ->
    let g := dgrid a b d in g_lb g <= x ->
    let F := fun t => c2 * (t * t) + c1 * t + c0 in
    par_value1 RN g F x = F x /\ par_grad1 RN g F x = 2 * c2 * x + c1.
  Proof.
    intros Hd Hb g Hx F. destruct (par_nodes a b d x Hd Hb Hx) as [E0 [E2 [Hdel _]]]. fold g in E0, E2, Hdel.
    rewrite par_value1_R, par_grad1_R. cbv zeta. rewrite E0, E2. unfold F.
    set (x1 := round_nearest RN g x) in *. split; field; lra.
  Qed.

  (* T: the reported gradient is the derivative of the reported value *)
  Theorem parabola_gradient_is_derivative g F x :
    let '(x1, M1, a, b) := par_params RN g F x in
    par_value1 RN g F x = par_value RN a (par_xm RN x x1) b M1 /\
    par_grad1 RN g F x = par_grad_ret RN (par_grad RN a (par_xm RN x x1) b) /\
    is_derive (fun t => par_value RN a (par_xm RN t x1) b M1) x (par_grad_ret RN (par_grad RN a (par_xm RN x x1) b)).
  Proof.
    unfold par_value1, par_grad1. destruct (par_params RN g F x) as [[[x1 M1] a0] b0].
    split; [reflexivity|]. split; [reflexivity|].
    rewrite K_par_grad_ret, K_par_grad_R.
    apply (is_derive_ext (fun t => a0 * ((t - x1) * (t - x1)) + b0 * (t - x1) + M1)).
    - intros t. rewrite K_par_value_R. reflexivity.
    - rewrite K_par_xm. num_R. auto_derive; [exact I|ring].
  Qed.
End InterpR.
