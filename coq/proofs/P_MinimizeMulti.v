(* C11 round 4: the second derivative handed to the Newton-Raphson minimiser by a multi-dataset
   log-likelihood ratio (MultiDatasetTCLLHRatio.calculate_ns_grad2), and the statement-skeleton pins. *)
From Coq Require Import Reals ZArith Bool Lra.
From Coquelicot Require Import Coquelicot.
From Sky Require Import Num NumR G_minimize.
Open Scope R_scope.

Lemma K_shapes :
  shape_nr1d_minimize = true /\ shape_scan_minimize = true /\ shape_wrapper_minimize = true /\
  shape_multi_ns_grad2 = true.
Proof. repeat split. Qed.

Section Multi.
  Variable erfR : R -> R.
  Notation N := (RNum erfR).

  Lemma K_multi_ns_grad2_term g f : multi_ns_grad2_term N g f = g * (f * f).
  Proof. unfold multi_ns_grad2_term; num_R. reflexivity. Qed.
  Lemma K_multi_nsf ns f : multi_nsf N ns f = ns * f.
  Proof. unfold multi_nsf; num_R. reflexivity. Qed.

  (* one data set's contribution L(ns * f) to the composite log-likelihood ratio: with L' = g and g' = h its
     first derivative w.r.t. ns is f * g(ns f) and the term the code sums for the second derivative,
     h(ns f) * f^2, is the derivative of that *)
  Theorem multi_ns_grad2_is_second_derivative (L g h : R -> R) (f ns : R) :
    (forall x, is_derive L x (g x)) -> (forall x, is_derive g x (h x)) ->
    is_derive (fun n => L (multi_nsf N n f)) ns (f * g (multi_nsf N ns f)) /\
    is_derive (fun n => f * g (multi_nsf N n f)) ns (multi_ns_grad2_term N (h (multi_nsf N ns f)) f).
  Proof.
    intros HL Hg.
    assert (Hin : is_derive (fun n : R => multi_nsf N n f) ns f).
    { apply (is_derive_ext (fun n => n * f)); [intros t; reflexivity|].
      auto_derive; [exact I|ring]. }
    split.
    - pose proof (is_derive_comp L (fun n => multi_nsf N n f) ns (g (multi_nsf N ns f)) f (HL _) Hin) as H.
      unfold scal in H; simpl in H; unfold mult in H; simpl in H. exact H.
    - rewrite K_multi_ns_grad2_term.
      pose proof (is_derive_comp g (fun n => multi_nsf N n f) ns (h (multi_nsf N ns f)) f (Hg _) Hin) as H.
      unfold scal in H; simpl in H; unfold mult in H; simpl in H.
      apply (is_derive_ext (fun n => scal f (g (multi_nsf N n f)))); [intros t; reflexivity|].
      replace (h (multi_nsf N ns f) * (f * f)) with (scal f (f * h (multi_nsf N ns f)))
        by (unfold scal; simpl; unfold mult; simpl; ring).
      apply is_derive_scal_l || apply (is_derive_scal (fun n => g (multi_nsf N n f)) ns f). exact H.
  Qed.
End Multi.
