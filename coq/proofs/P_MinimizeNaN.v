(* C11, every number system (in particular IEEE-like ones with NaN): a function value that is not a number
   is never reported as converged by the Newton-Raphson minimisers; the NR + scan result is one scan step's
   result and is NaN only if every scan step is; has_converged readings of the oracle implementations;
   the generic LLHRatio.maximize. *)
From Coq Require Import ZArith List Bool Lia.
From Sky Require Import Result Num G_minimize M_Minimize P_MinimizeWrap P_MinimizeScan.
Import ListNotations.
Open Scope Z_scope.

Lemma K_flags_positive : 0 < nr_flag_fnan /\ 0 < nr_flag_maxed /\ 0 < nr_flag_nan.
Proof. repeat split. Qed.
Lemma K_nr_f_nan_gen {T} (N : Num T) f : nr_f_nan N f = nisnan N f. Proof. reflexivity. Qed.
Lemma K_scan_best_nan_gen {T} (N : Num T) f : scan_best_nan N f = nisnan N f. Proof. reflexivity. Qed.
Lemma K_oracle_converged b :
  scipy_converged b = b /\ iminuit_converged b = b /\ crs_converged b = b /\
  scipy_repeatable = false /\ iminuit_repeatable = true /\ crs_repeatable = true.
Proof. repeat split. Qed.
Lemma K_lbfgs_rep_flag w : lbfgs_rep_flag w = true <-> w = 2.
Proof. unfold lbfgs_rep_flag. apply Z.eqb_eq. Qed.
Lemma K_mx_ns_not_first i : mx_ns_not_first i = true <-> i <> 0.
Proof. unfold mx_ns_not_first. rewrite negb_true_iff. apply Z.eqb_neq. Qed.
Lemma K_mx_returns (a b : Z) :
  mx_gen_ret_ll a = a /\ mx_gen_ret_x b = b /\ mx_nr_ret_ll a = a /\ mx_nr_ret_x b = b.
Proof. repeat split. Qed.

Section NaNValue.
  Context {T : Type} (N : Num T).

  Lemma nr_finish_nan obj max_steps niter ns st flag ab fcur :
    let r := nr_finish N obj max_steps niter ns st flag ab fcur in
    nisnan N (r_f r) = true -> 0 < r_flag r.
  Proof.
    cbv zeta. unfold nr_finish. cbn [r_f r_flag]. intros Hn.
    rewrite K_nr_f_nan_gen, Hn.
    destruct (nr_maxed niter max_steps); [unfold nr_flag_maxed|unfold nr_flag_fnan]; lia.
  Qed.

  Lemma nr_loop_nan obj tol lo hi max_steps : forall fuel niter ns st fp r,
    nr_loop N obj tol lo hi fuel max_steps niter ns st fp = Ok r ->
    nisnan N (r_f r) = true -> 0 < r_flag r.
  Proof.
    induction fuel as [|k IH]; intros niter ns st fp r H Hn; cbn [nr_loop] in H.
    - destruct (nr_cond_num N tol st fp && nr_cond_iter niter max_steps); [discriminate|].
      injection H as <-. exact (nr_finish_nan obj max_steps niter ns st nr_flag0 false (nzero N) Hn).
    - destruct (nr_cond_num N tol st fp && nr_cond_iter niter max_steps).
      + destruct (obj ns) as [[fv f1v] f2v].
        destruct (nr_step_nan N (nr_step N f1v f2v)).
        * injection H as <-. cbn [tr_cons r_f r_flag] in *.
          exact (nr_finish_nan obj max_steps niter ns _ nr_flag_nan false fv Hn).
        * destruct (nr_at_bound N ns lo hi (nr_step N f1v f2v)).
          -- injection H as <-. cbn [tr_cons r_f r_flag] in *.
             exact (nr_finish_nan obj max_steps niter ns _ _ true fv Hn).
          -- destruct (nr_loop N obj tol lo hi k max_steps (nr_niter_inc niter)
                         (nr_clip N lo hi (nr_ns_next N ns (nr_step N f1v f2v))) (nr_step N f1v f2v) f1v)
               as [r'|e] eqn:Er; [|discriminate].
             cbn [bind] in H. injection H as <-. cbn [tr_cons r_f r_flag] in *.
             exact (IH _ _ _ _ _ Er Hn).
      + injection H as <-. exact (nr_finish_nan obj max_steps niter ns st nr_flag0 false (nzero N) Hn).
  Qed.

  (* NR1dNsMinimizerImpl: a NaN function value comes with a positive (non-converged) warnflag *)
  Theorem nr1d_vec_nan func tol max_steps bounds initials x r :
    nr1d_vec N func tol max_steps bounds initials = Ok (x, r) ->
    nisnan N (r_f r) = true -> 0 < r_flag r.
  Proof.
    intros H Hn. destruct bounds as [|[lo hi] bs]; [discriminate|]. destruct initials as [|i0 rest]; [discriminate|].
    cbn [nr1d_vec] in H.
    destruct (nr1d N (fun ns => func (ns :: rest)) tol lo hi max_steps i0) as [r0|e] eqn:E; [|discriminate].
    cbn [bind] in H. injection H as <- <-. unfold nr1d in E.
    destruct (nr_init_bad N lo i0); [discriminate|]. exact (nr_loop_nan _ _ _ _ _ _ _ _ _ _ _ E Hn).
  Qed.

  (* NRNsScan2dMinimizerImpl: the result is the result of one scan step (x, f, flag, step, trace of the
     same NR run), whatever the number system *)
  Section Scan.
    Variable func : list T -> T * T * T.
    Variables (tol : T) (max_steps : Z) (bounds : list (T * T)) (i0 : T) (rest : list T).
    Notation runT p2 := (nr1d_vec N func tol max_steps bounds (i0 :: p2 :: rest)).

    Definition scan_mem (done : list T) (best : option (list T * nrres T)) : Prop :=
      match best with
      | None => done = []
      | Some b => (exists p2, In p2 done /\ runT p2 = Ok b) /\
                  (nisnan N (r_f (snd b)) = true ->
                   forall q, In q done -> exists xr, runT q = Ok xr /\ nisnan N (r_f (snd xr)) = true)
      end.

    (* IEEE: NaN compares false *)
    Hypothesis nan_unordered : forall a b, nisnan N a = true -> nltb N a b = false.

    Lemma scan_loop_mem : forall p2s done best nt best' nt',
      scan_mem done best ->
      scan_loop N func tol max_steps bounds p2s i0 rest best nt = Ok (best', nt') ->
      scan_mem (done ++ p2s) best'.
    Proof.
      induction p2s as [|p2 more IH]; intros done best nt best' nt' Hinv H; cbn [scan_loop] in H.
      - injection H as <- <-. rewrite app_nil_r. exact Hinv.
      - destruct (runT p2) as [[x r]|e] eqn:Er; [|discriminate]. cbn [bind] in H.
        replace (done ++ p2 :: more) with ((done ++ [p2]) ++ more) by (rewrite <- app_assoc; reflexivity).
        eapply IH; [|exact H].
        destruct best as [[bx br]|]; cbn [scan_mem] in *.
        + destruct Hinv as [(p0 & Hp0 & Hr0) Hnan]. cbn [snd] in Hnan.
          destruct (scan_best_nan N (r_f br)) eqn:Ebn; cbn [orb].
          * (* a NaN best is replaced *)
            rewrite K_scan_best_nan_gen in Ebn. cbn [scan_mem snd]. split.
            -- exists p2. split; [apply in_or_app; right; left; reflexivity|exact Er].
            -- intros Hrn q Hq. apply in_app_or in Hq. destruct Hq as [Hq|[<-|[]]].
               ++ exact (Hnan Ebn q Hq).
               ++ exists (x, r). split; [exact Er|exact Hrn].
          * rewrite K_scan_best_nan_gen in Ebn.
            destruct (scan_better N (r_f r) (r_f br)) eqn:Eb; cbn [scan_mem snd].
            -- split.
               ++ exists p2. split; [apply in_or_app; right; left; reflexivity|exact Er].
               ++ intros Hrn. exfalso. unfold scan_better in Eb. rewrite (nan_unordered _ _ Hrn) in Eb. discriminate.
            -- split.
               ++ exists p0. split; [apply in_or_app; left; exact Hp0|exact Hr0].
               ++ intros Hbn. rewrite Hbn in Ebn. discriminate.
        + subst done. cbn [app scan_mem snd]. split.
          * exists p2. split; [left; reflexivity|exact Er].
          * intros Hrn q [<-|[]]. exists (x, r). split; [exact Er|exact Hrn].
    Qed.

    Theorem scan2d_any_number_system p2s i1 x r :
      scan2d N func tol max_steps bounds p2s (i0 :: i1 :: rest) = Ok (x, r) ->
      (exists p2 r0, In p2 p2s /\ runT p2 = Ok (x, r0) /\
         r_x r = r_x r0 /\ r_f r = r_f r0 /\ r_flag r = r_flag r0 /\ r_step r = r_step r0 /\
         r_trace r = r_trace r0) /\
      (nisnan N (r_f r) = true ->
         0 < r_flag r /\
         forall q, In q p2s -> exists xr, runT q = Ok xr /\ nisnan N (r_f (snd xr)) = true).
    Proof.
      unfold scan2d. intros H.
      destruct (scan_loop N func tol max_steps bounds p2s i0 rest None 0) as [[best nt]|e] eqn:El; [|discriminate].
      cbn [bind fst snd] in H.
      apply (scan_loop_mem p2s [] None) in El; [|reflexivity]. cbn [app] in El.
      destruct best as [[bx br]|]; [|discriminate].
      injection H as <- <-. cbn [scan_mem snd] in El. destruct El as [(p2 & Hin & Hr) Hnan].
      cbn [r_x r_f r_flag r_step r_trace]. split.
      - exists p2, br. repeat split; assumption.
      - intros Hn. split; [exact (nr1d_vec_nan _ _ _ _ _ _ _ Hr Hn)|exact (Hnan Hn)].
    Qed.
  End Scan.

  (* behind the wrapper: the reported minimum is never NaN (NR and NR + scan) *)
  Theorem minimize_nr_value_not_nan func tol max_steps max_reps bounds uniform initials x f st reps :
    minimize_nr N func tol max_steps max_reps bounds uniform initials = Ok (x, f, st, reps) ->
    nisnan N f = false.
  Proof.
    intros H. apply minimize_nr_status in H. destruct H as (Hfl & _ & -> & Hv).
    destruct (nisnan N (r_f st)) eqn:En; [|reflexivity].
    pose proof (nr1d_vec_nan _ _ _ _ _ _ _ Hv En). lia.
  Qed.
End NaNValue.

(* generic LLHRatio.maximize around any implementation oracle: converged, value negated back, and with the
   oracle contract (reported value = -llh at the reported point) the maximum is llh at the returned point *)
Theorem maximize_gen_spec {T} (N : Num T) {St} impl (conv rep : St -> bool) llh bounds uniform max_reps initials ll x st :
  maximize_gen N impl conv rep llh bounds uniform max_reps initials = Ok (ll, x, st) ->
  conv st = true /\
  exists fmin reps,
    minimize N impl conv rep (fun x => do f <- llh x; Ok (mx_neg_f_gen N f)) bounds uniform max_reps initials
      = Ok (x, fmin, st, reps) /\ ll = mx_llmax_gen N fmin.
Proof.
  unfold maximize_gen. intros H.
  destruct (minimize N impl conv rep (fun x0 => do f <- llh x0; Ok (mx_neg_f_gen N f)) bounds uniform max_reps initials)
    as [[[[x0 f0] st0] rp]|e] eqn:Em; [|discriminate].
  cbn [bind] in H. injection H as <- <- <-.
  split; [exact (proj1 (minimize_result N _ _ _ _ _ _ _ _ _ _ _ _ Em))|]. exists f0, rp. split; reflexivity.
Qed.

Lemma K_lbfgs_converged' w : lbfgs_converged w = true <-> w = 0.
Proof. unfold lbfgs_converged. apply Z.eqb_eq. Qed.

Lemma thm_oracle_status_reading : forall b w,
  (scipy_converged b = b /\ iminuit_converged b = b /\ crs_converged b = b /\
   scipy_repeatable = false /\ iminuit_repeatable = true /\ crs_repeatable = true) /\
  (lbfgs_converged w = true <-> w = 0) /\ (lbfgs_rep_flag w = true <-> w = 2).
Proof.
  intros b w. split; [exact (K_oracle_converged b)|]. split; [exact (K_lbfgs_converged' w)|exact (K_lbfgs_rep_flag w)].
Qed.
