(* C01: the value of the log-likelihood ratio (real-number reading). *)
From Coq Require Import Reals ZArith List Bool Lra Lia Permutation.
From Sky Require Import Num NumR G_llh M_Llh S_Llh P_LlhK.
Import ListNotations.
Open Scope R_scope.

Section V.
  Variable erfR : R -> R.
  Notation Nm := (RNum erfR).

  (* ---- sums *)
  Lemma fold_left_Rplus l a : fold_left Rplus l a = a + Rsum l.
  Proof.
    revert a. induction l as [|x l IH]; intros a; cbn [fold_left Rsum fold_right].
    - lra.
    - rewrite IH. unfold Rsum. lra.
  Qed.

  Lemma nsum_R l : nsum Nm l = Rsum l.
  Proof. unfold nsum. cbn [nadd nzero RNum]. rewrite fold_left_Rplus. lra. Qed.

  Lemma nlen_R {A} (l : list A) : nlen Nm l = INR (length l).
  Proof. unfold nlen. rewrite ofZ_R. symmetry. apply INR_IZR_INZ. Qed.

  Lemma Rsum_app a b : Rsum (a ++ b) = Rsum a + Rsum b.
  Proof. unfold Rsum. induction a as [|x a IH]; cbn; [lra|]. rewrite IH. lra. Qed.

  Lemma Rsum_perm a b : Permutation a b -> Rsum a = Rsum b.
  Proof.
    unfold Rsum. induction 1 as [|x a b _ IH|x y a|a b c _ IH1 _ IH2]; cbn [fold_right].
    - reflexivity.
    - rewrite IH. reflexivity.
    - lra.
    - rewrite IH1. exact IH2.
  Qed.

  (* ---- the per-event term is the manual's Lam *)
  Lemma ev_loglam_Lam opa ns x :
    ev_loglam Nm opa ns x = Lam (opa - 1) (ns * x).
  Proof.
    unfold ev_loglam, ev_stable, ev_tilde, ev_alpha_i, Lam, Taylor.
    rewrite KV_alpha, KV_alpha_i, KV_loglam_stable, KV_loglam_unstable, KV_tildealpha.
    destruct (KV_m_stable erfR (ns * x) (opa - 1)) as [Hgt Hlt].
    replace (1 + (opa - 1)) with opa by lra.
    destruct (Rlt_dec (opa - 1) (ns * x)) as [H|H].
    - rewrite (Hgt H). reflexivity.
    - destruct (Rlt_dec (ns * x) (opa - 1)) as [H2|H2].
      + rewrite (Hlt H2). lra.
      + (* exactly at the threshold both branches give log(1+alpha) *)
        assert (E : ns * x = opa - 1) by lra. rewrite E.
        replace (opa - 1 - (opa - 1)) with 0 by lra.
        replace (1 + (opa - 1)) with opa by lra.
        destruct (k_m_stable Nm (opa - 1) (opa - 1)); unfold Rdiv; lra.
  Qed.

  (* C01.1: the model value is the manual's formula *)
  Theorem value_is_manual opa N ns (Rs : list R) :
    evaluate_value Nm opa N ns Rs = logLambda_manual (opa - 1) N ns Rs.
  Proof.
    unfold evaluate_value, log_lambda, logLambda_manual, Xs.
    rewrite KV_log_lambda, nsum_R, nlen_R, !map_length, !map_map.
    f_equal.
    - f_equal. apply map_ext. intros r. rewrite ev_loglam_Lam, KV_Xi. reflexivity.
    - f_equal. f_equal. unfold Rdiv. lra.
  Qed.

  (* C01.3: exactly 0 at ns = 0 *)
  Theorem value_zero_at_ns0 opa N (Rs : list R) :
    0 < opa < 1 -> evaluate_value Nm opa N 0 Rs = 0.
  Proof.
    intros Hopa. rewrite value_is_manual. unfold logLambda_manual.
    assert (E : map (fun r => Lam (opa - 1) (0 * Xof N r)) Rs = map (fun _ => 0) Rs).
    { apply map_ext. intros r. unfold Lam. rewrite Rmult_0_l.
      destruct (Rlt_dec (opa - 1) 0); [|lra].
      replace (1 + 0) with 1 by lra. apply ln_1. }
    rewrite E.
    assert (Z : Rsum (map (fun _ : R => 0) Rs) = 0).
    { clear. unfold Rsum. induction Rs as [|r l IH]; cbn [map fold_right]; [reflexivity|].
      rewrite IH. lra. }
    rewrite Z. unfold Rdiv. rewrite Rmult_0_l, Rminus_0_r, ln_1. lra.
  Qed.

  (* C01.4: independent of the event order *)
  Theorem value_perm opa N ns (Rs Rs' : list R) :
    Permutation Rs Rs' -> evaluate_value Nm opa N ns Rs = evaluate_value Nm opa N ns Rs'.
  Proof.
    intros HP. rewrite !value_is_manual. unfold logLambda_manual.
    rewrite (Permutation_length HP).
    f_equal. apply Rsum_perm. apply Permutation_map. exact HP.
  Qed.

  (* C01.5: events with ratio 0 may be removed by a selection while N is kept *)
  Definition nonzero (r : R) : bool := negb (Reqb r 0).

  Theorem value_zero_ratio_removed opa N ns (Rs : list R) :
    0 < opa -> N <> 0 -> ns / N < 1 - opa ->
    evaluate_value Nm opa N ns Rs = evaluate_value Nm opa N ns (filter nonzero Rs).
  Proof.
    intros Hopa HN Hns. rewrite !value_is_manual. unfold logLambda_manual.
    induction Rs as [|r l IH]; [reflexivity|].
    cbn [filter]. destruct (nonzero r) eqn:E.
    - cbn [map length]. unfold Rsum in *. cbn [fold_right].
      rewrite !S_INR. lra.
    - unfold nonzero in E. apply negb_false_iff in E. apply Reqb_true in E. subst r.
      cbn [map length]. unfold Rsum in *. cbn [fold_right].
      rewrite S_INR.
      assert (HL : Lam (opa - 1) (ns * Xof N 0) = ln (1 - ns / N)).
      { unfold Lam, Xof. replace (ns * ((0 - 1) / N)) with (- (ns / N)) by (field; exact HN).
        destruct (Rlt_dec (opa - 1) (- (ns / N))); [f_equal; lra|lra]. }
      rewrite HL. lra.
  Qed.

  (* C01.2: the Taylor continuation joins the logarithm with equal value at
     the threshold (slopes: see P_LlhDeriv) *)
  Theorem taylor_value_at_threshold alpha : Taylor alpha alpha = ln (1 + alpha).
  Proof. unfold Taylor. replace (alpha - alpha) with 0 by lra. unfold Rdiv. lra. Qed.

  (* ---- compositions *)
  Theorem sob_ratio_spec z s b :
    sob_ratio Nm z s b = if Rlt_dec 0 b then s / b else z.
  Proof.
    unfold sob_ratio. rewrite KV_sob_mask, KV_sob_ratio. unfold Rltb.
    destruct (Rlt_dec 0 b); reflexivity.
  Qed.

  Theorem prod_ratio_spec r1 r2 : prod_ratio Nm r1 r2 = r1 * r2.
  Proof. unfold prod_ratio. apply KV_prod_ratio. Qed.
End V.
