(* C18, part 2: candidates, validity mask, redraw loop and events of
   MCMultiDatasetSignalGenerator. *)
From Coq Require Import ZArith List Bool Lia.
From Sky Require Import Result PyList G_inject M_Inject S_Inject.
Import ListNotations.
Open Scope Z_scope.

(* ------------------------------------------------ characterising lemmas (Z) *)
Lemma K_inv_mask m v lo hi : inv_mask m v lo hi = m || negb ((lo <=? v) && (v <=? hi)).
Proof.
  unfold inv_mask. rewrite Z.gtb_ltb. f_equal.
  destruct (v <? lo) eqn:E1, (hi <? v) eqn:E2, (lo <=? v) eqn:E3, (v <=? hi) eqn:E4; try reflexivity;
    rewrite ?Z.ltb_lt, ?Z.ltb_ge, ?Z.leb_le, ?Z.leb_gt in *; lia.
Qed.
Lemma K_inv_mask_idx m v : inv_mask_idx0 m v = 0 /\ inv_mask_idx1 m v = 1.
Proof. split; reflexivity. Qed.
Lemma K_redraw_while n ns : redraw_while n ns = (n <? ns).
Proof. reflexivity. Qed.
Lemma K_redraw_size ns n : redraw_size ns n = ns - n.
Proof. reflexivity. Qed.
Lemma K_redraw_keep ds shg a b : redraw_keep ds shg a b = (a =? ds) && (b =? shg).
Proof. reflexivity. Qed.
Lemma K_redraw_nonempty n : redraw_nonempty n = (0 <? n).
Proof. unfold redraw_nonempty. rewrite Z.gtb_ltb. reflexivity. Qed.
Lemma K_gen_mask ds shg a b :
  gen_ds_shg_mask (gen_ds_mask ds a) (gen_shg_mask shg b) = (a =? ds) && (b =? shg).
Proof. reflexivity. Qed.
Lemma K_gen_ds_mask ds a : gen_ds_mask ds a = (a =? ds).
Proof. reflexivity. Qed.
Lemma K_gen_need_redraw n : gen_need_redraw n = (0 <? n).
Proof. unfold gen_need_redraw. rewrite Z.gtb_ltb. reflexivity. Qed.
Lemma K_mu_src_mask shg k a b : mu_src_mask shg k a b = (a =? shg) && (b =? k).
Proof. reflexivity. Qed.
Lemma K_post_src_mask k a : post_src_mask k a = (a =? k).
Proof. reflexivity. Qed.

(* the order of the statements in the redraw loop and in generate_signal_events:
   the events are relocated first, the validity mask is taken on the relocated
   events (the model's redraw / gen_group apply invalid_mask to map post_c ...) *)
Lemma K_relocate_before_mask : redraw_relocate_before_mask = true /\ gen_relocate_before_mask = true.
Proof. split; reflexivity. Qed.

(* ------------------------------------------------------------ list plumbing *)
Lemma zlen_app {A} (a b : list A) : zlen (a ++ b) = zlen a + zlen b.
Proof. unfold zlen. rewrite app_length. lia. Qed.
Lemma zlen_nonneg {A} (a : list A) : 0 <= zlen a.
Proof. unfold zlen. lia. Qed.
Lemma zlen_cons {A} (x : A) l : zlen (x :: l) = 1 + zlen l.
Proof. unfold zlen. cbn [length]. lia. Qed.

Lemma mapM_ok {A B} (f : A -> res B) : forall l r,
  mapM f l = Ok r -> Forall2 (fun a b => f a = Ok b) l r.
Proof.
  induction l as [|a l IH]; intros r H; cbn [mapM] in H.
  - inversion H. constructor.
  - destruct (f a) as [b|] eqn:E; [|discriminate]. cbn [bind] in H.
    destruct (mapM f l) as [bs|] eqn:E2; [|discriminate]. cbn [bind] in H. inversion H; subst.
    constructor; [exact E|apply IH; reflexivity].
Qed.

Lemma Forall2_len {A B} (R : A -> B -> Prop) l m : Forall2 R l m -> length l = length m.
Proof. induction 1; cbn [length]; congruence. Qed.

Lemma enum_from_In {A} (l : list A) : forall s i a,
  In (i, a) (enum_from s l) -> s <= i /\ nth_error l (Z.to_nat (i - s)) = Some a.
Proof.
  induction l as [|x l IH]; intros s i a H; cbn [enum_from In] in H; [contradiction|].
  destruct H as [H|H].
  - inversion H; subst. rewrite Z.sub_diag. split; [lia|reflexivity].
  - apply IH in H. destruct H as [H1 H2]. split; [lia|].
    replace (Z.to_nat (i - s)) with (S (Z.to_nat (i - (s + 1)))) by lia. exact H2.
Qed.

Lemma enum_In {A} (l : list A) i a : In (i, a) (enum l) -> 0 <= i /\ nth_error l (Z.to_nat i) = Some a.
Proof. intros H. apply enum_from_In in H. rewrite Z.sub_0_r in H. exact H. Qed.

(* min / max by fold_left *)
Lemma zmin_l_spec : forall l a,
  zmin_l a l <= a /\ (forall x, In x l -> zmin_l a l <= x) /\ (zmin_l a l = a \/ In (zmin_l a l) l).
Proof.
  unfold zmin_l. induction l as [|y l IH]; intros a; cbn [fold_left].
  - repeat split; [lia|intros x []|left; reflexivity].
  - destruct (IH (Z.min a y)) as [H1 [H2 H3]]. repeat split.
    + lia.
    + intros x [<-|Hx]; [lia|apply H2; exact Hx].
    + destruct H3 as [H3|H3]; [|right; right; exact H3].
      destruct (Z.min_spec a y) as [[_ E]|[_ E]]; [left; congruence|right; left; congruence].
Qed.

Lemma zmax_l_spec : forall l a,
  a <= zmax_l a l /\ (forall x, In x l -> x <= zmax_l a l) /\ (zmax_l a l = a \/ In (zmax_l a l) l).
Proof.
  unfold zmax_l. induction l as [|y l IH]; intros a; cbn [fold_left].
  - repeat split; [lia|intros x []|left; reflexivity].
  - destruct (IH (Z.max a y)) as [H1 [H2 H3]]. repeat split.
    + lia.
    + intros x [<-|Hx]; [lia|apply H2; exact Hx].
    + destruct H3 as [H3|H3]; [|right; right; exact H3].
      destruct (Z.max_spec a y) as [[_ E]|[_ E]]; [right; left; congruence|left; congruence].
Qed.

(* ------------------------------------------------------------- fill_mask *)
Lemma fill_mask_spec {A} : forall (l : list A) (m : list bool) (b r : list A),
  fill_mask l m b = Ok r ->
  length r = length l /\ length l = length m /\ zlen b = count_true m
  /\ (forall i, nth_error m i = Some false -> nth_error r i = nth_error l i)
  /\ mask_select r m = b.
Proof.
  unfold count_true.
  induction l as [|a l IH]; intros m b r H.
  - destruct m as [|[|] m]; cbn [fill_mask] in H; try discriminate.
    destruct b; [|discriminate]. inversion H; subst. cbn. repeat split; try reflexivity.
  - destruct m as [|[|] m]; cbn [fill_mask] in H; try discriminate.
    + destruct b as [|x b]; [discriminate|].
      destruct (fill_mask l m b) as [r'|] eqn:E; [|discriminate]. cbn [bind] in H. inversion H; subst.
      destruct (IH m b r' E) as [H1 [H2 [H3 [H4 H5]]]].
      cbn [length filter mask_select]. rewrite !zlen_cons. repeat split; try congruence; try lia.
      intros [|i] Hi; cbn [nth_error] in *; [discriminate|apply H4; exact Hi].
    + destruct (fill_mask l m b) as [r'|] eqn:E; [|discriminate]. cbn [bind] in H. inversion H; subst.
      destruct (IH m b r' E) as [H1 [H2 [H3 [H4 H5]]]].
      cbn [length filter mask_select]. repeat split; try congruence; try lia.
      intros [|i] Hi; cbn [nth_error] in *; [reflexivity|apply H4; exact Hi].
Qed.

Lemma fill_mask_Forall {A} (P : A -> Prop) : forall (l : list A) (m : list bool) (b r : list A),
  fill_mask l m b = Ok r ->
  Forall P (mask_select l (map negb m)) -> Forall P b -> Forall P r.
Proof.
  induction l as [|a l IH]; intros m b r H Hl Hb.
  - destruct m as [|[|] m]; cbn [fill_mask] in H; try discriminate.
    destruct b; [|discriminate]. inversion H. constructor.
  - destruct m as [|[|] m]; cbn [fill_mask] in H; try discriminate.
    + destruct b as [|x b]; [discriminate|].
      destruct (fill_mask l m b) as [r'|] eqn:E; [|discriminate]. cbn [bind] in H. inversion H; subst.
      cbn [map negb mask_select] in Hl. inversion Hb; subst.
      constructor; [assumption|]. eapply IH; eassumption.
    + destruct (fill_mask l m b) as [r'|] eqn:E; [|discriminate]. cbn [bind] in H. inversion H; subst.
      cbn [map negb mask_select] in Hl. inversion Hl; subst.
      constructor; [assumption|]. eapply IH; eassumption.
Qed.

Lemma fill_mask_ok {A} : forall (l : list A) (m : list bool) (b : list A),
  length l = length m -> zlen b = count_true m -> exists r, fill_mask l m b = Ok r.
Proof.
  unfold count_true.
  induction l as [|a l IH]; intros m b Hl Hb; destruct m as [|[|] m]; cbn [length] in Hl; try discriminate.
  - cbn [filter] in Hb. destruct b; [|rewrite zlen_cons in Hb; pose proof (zlen_nonneg b); unfold zlen in *; cbn [length] in *; lia].
    exists []. reflexivity.
  - cbn [filter] in Hb. rewrite zlen_cons in Hb. destruct b as [|x b].
    + pose proof (zlen_nonneg (filter (fun b0 : bool => b0) m)). unfold zlen in *. cbn [length] in *. lia.
    + rewrite zlen_cons in Hb. destruct (IH m b) as [r E]; [lia|lia|].
      exists (x :: r). cbn [fill_mask]. rewrite E. reflexivity.
  - cbn [filter] in Hb. destruct (IH m b) as [r E]; [lia|exact Hb|].
    exists (a :: r). cbn [fill_mask]. rewrite E. reflexivity.
Qed.

(* --------------------------------------------------------- validity mask *)
Lemma invalid1_false rngs : forall m ev,
  invalid1 rngs m ev = Ok false -> m = false /\ in_ranges rngs ev.
Proof.
  induction rngs as [|[f [lo hi]] r IH]; intros m ev H; cbn [invalid1] in H.
  - inversion H. split; [reflexivity|]. intros f lo hi [].
  - destruct (nth_error ev f) as [v|] eqn:Ev; [|discriminate].
    apply IH in H. destruct H as [Hm Hr]. rewrite K_inv_mask in Hm.
    apply orb_false_iff in Hm. destruct Hm as [Hm Hb]. apply negb_false_iff in Hb.
    apply andb_true_iff in Hb. destruct Hb as [H1 H2]. apply Z.leb_le in H1. apply Z.leb_le in H2.
    split; [exact Hm|]. intros f' lo' hi' [E|Hin].
    + inversion E; subst. exists v. split; [exact Ev|lia].
    + apply (Hr f' lo' hi' Hin).
Qed.

Lemma mask_select_valid rngs (P : list Z -> Prop) : forall evs inv,
  invalid_mask rngs evs = Ok inv -> Forall P evs ->
  Forall (fun ev => P ev /\ in_ranges rngs ev) (mask_select evs (map negb inv)).
Proof.
  unfold invalid_mask. intros evs inv H. apply mapM_ok in H.
  induction H as [|ev b evs inv Hb H IH]; intros HP; cbn [map mask_select]; [constructor|].
  inversion HP; subst. destruct b; cbn [negb].
  - apply IH; assumption.
  - constructor; [|apply IH; assumption]. split; [assumption|]. apply (invalid1_false _ _ _ Hb).
Qed.

Lemma invalid_mask_len rngs evs inv : invalid_mask rngs evs = Ok inv -> length evs = length inv.
Proof. unfold invalid_mask. intros H. apply mapM_ok in H. apply (Forall2_len _ _ _ H). Qed.

Lemma mask_select_le {A} : forall (l : list A) m, zlen (mask_select l m) <= zlen l.
Proof.
  induction l as [|a l IH]; intros [|[|] m]; cbn [mask_select]; rewrite ?zlen_cons; try (unfold zlen; cbn [length]; lia);
    specialize (IH m); lia.
Qed.

Lemma mask_select_all {A} : forall (inv : list bool) (l : list A),
  length l = length inv -> count_true inv <= 0 -> mask_select l (map negb inv) = l.
Proof.
  unfold count_true.
  induction inv as [|b inv IH]; intros [|a l] Hl En; cbn [length] in Hl; try discriminate; [reflexivity|].
  destruct b; cbn [filter] in En.
  - rewrite zlen_cons in En. pose proof (zlen_nonneg (filter (fun b : bool => b) inv)). lia.
  - cbn [map negb mask_select]. f_equal. apply IH; [injection Hl; auto|exact En].
Qed.

Lemma filter_le {A} (f : A -> bool) l : zlen (filter f l) <= zlen l.
Proof. induction l as [|a l IH]; cbn [filter]; [lia|]. destruct (f a); rewrite ?zlen_cons; lia. Qed.

(* ------------------------------------------------------- candidate table *)
Lemma concatM_In {A} : forall (l : list (res (list A))) tbl c,
  concatM l = Ok tbl -> In c tbl -> exists t, In (Ok t) l /\ In c t.
Proof.
  induction l as [|r l IH]; intros tbl c H Hc; cbn [concatM] in H.
  - inversion H; subst. contradiction.
  - destruct r as [a|]; [|discriminate]. cbn [bind] in H.
    destruct (concatM l) as [b|] eqn:E; [|discriminate]. cbn [bind] in H. inversion H; subst.
    apply in_app_or in Hc. destruct Hc as [Hc|Hc].
    + exists a. split; [left; reflexivity|exact Hc].
    + destruct (IH b c eq_refl Hc) as [t [H1 H2]]. exists t. split; [right; exact H1|exact H2].
Qed.

Lemma cands_for_sound hi h di d t c :
  cands_for hi h di d = Ok t -> In c t ->
  c_shg c = hi /\ c_ds c = di
  /\ exists e x ow L U,
       nth_error (d_mc d) (Z.to_nat (c_ev c)) = Some e /\ 0 <= c_ev c
    /\ nth_error (h_src h) (Z.to_nat (c_src c)) = Some (x, ow) /\ 0 <= c_src c
    /\ (forall e', In e' (d_mc d) -> L <= e_sd e' <= U)
    /\ (exists e1 e2, In e1 (d_mc d) /\ In e2 (d_mc d) /\ e_sd e1 = L /\ e_sd e2 = U)
    /\ L < U
    /\ 0 < h_hw h /\ c_wd c = h_hw h
    /\ in_band x (h_hw h) L U (e_sd e) = true
    /\ in_energy (h_er h) (e_en e) = true
    /\ c_wn c = e_mw e * h_flux h (e_en e)
                * (match src_weights h with Some _ => match ow with Some w => w | None => 0 end | None => 1 end)
                * d_lt d.
Proof.
  unfold cands_for, cands_with. destruct (d_mc d) as [|e0 mc] eqn:Emc; [discriminate|].
  cbv zeta.
  remember (enum (e0 :: mc)) as emc eqn:Eemc. remember (enum (h_src h)) as esrc eqn:Eesrc.
  set (sds := map e_sd (e0 :: mc)). set (L := zmin_l (e_sd e0) sds). set (U := zmax_l (e_sd e0) sds).
  destruct ((U =? L) || (h_hw h =? 0)) eqn:Eg; [discriminate|].
  apply orb_false_iff in Eg. destruct Eg as [EUL Ehw]. apply Z.eqb_neq in EUL. apply Z.eqb_neq in Ehw.
  intros H Hc. inversion H; subst t. clear H.
  apply in_flat_map in Hc. destruct Hc as [[k [x ow]] [Hk Hc]].
  unfold src_cands in Hc. rewrite Emc in Hc. rewrite <- Eemc in Hc. cbv zeta in Hc.
  apply in_flat_map in Hc. destruct Hc as [[i e] [Hi Hc]]. cbn [fst snd] in Hc.
  destruct (in_band x (h_hw h) L U (e_sd e) && in_energy (h_er h) (e_en e)) eqn:Em; [|contradiction].
  destruct Hc as [Hc|[]]. subst c. cbn [c_shg c_ds c_ev c_src c_wn c_wd].
  apply andb_true_iff in Em. destruct Em as [Eb Ee].
  rewrite Eesrc in Hk. rewrite Eemc in Hi.
  apply enum_In in Hk. apply enum_In in Hi. destruct Hk as [Hk0 Hk]. destruct Hi as [Hi0 Hi].
  destruct (zmin_l_spec sds (e_sd e0)) as [Hm1 [Hm2 Hm3]].
  destruct (zmax_l_spec sds (e_sd e0)) as [HM1 [HM2 HM3]].
  fold L in Hm1, Hm2, Hm3. fold U in HM1, HM2, HM3.
  split; [reflexivity|]. split; [reflexivity|].
  exists e, x, ow, L, U. repeat split; try assumption.
  - apply Hm2. unfold sds. apply in_map. exact H.
  - apply HM2. unfold sds. apply in_map. exact H.
  - assert (A1 : exists e1, In e1 (e0 :: mc) /\ e_sd e1 = L).
    { destruct Hm3 as [E|E]; [exists e0; split; [left; reflexivity|symmetry; exact E]|].
      unfold sds in E. apply in_map_iff in E. destruct E as [e1 [E1 E2]]. exists e1. split; assumption. }
    assert (A2 : exists e2, In e2 (e0 :: mc) /\ e_sd e2 = U).
    { destruct HM3 as [E|E]; [exists e0; split; [left; reflexivity|symmetry; exact E]|].
      unfold sds in E. apply in_map_iff in E. destruct E as [e2 [E1 E2]]. exists e2. split; assumption. }
    destruct A1 as [e1 [A1 B1]]. destruct A2 as [e2 [A2 B2]]. exists e1, e2. repeat split; assumption.
  - lia.
  - (* a non-empty band has a positive half width *)
    assert (HLU : L < U) by lia.
    unfold in_band, band_lo_D, band_hi_D in Eb. apply andb_true_iff in Eb. destruct Eb as [B1 B2].
    apply Z.leb_le in B1. apply Z.leb_le in B2. nia.
Qed.

Theorem construct_sound shgs dss tbl c :
  construct shgs dss = Ok tbl -> In c tbl -> cand_sound shgs dss c.
Proof.
  unfold construct. intros H Hc.
  destruct (concatM _) as [t|] eqn:E; [|discriminate]. cbn [bind] in H.
  destruct t as [|c0 t0]; [discriminate|]. inversion H; subst tbl. clear H.
  destruct (concatM_In _ _ _ E Hc) as [t [Ht Hct]].
  apply in_flat_map in Ht. destruct Ht as [[hi h] [Hh Ht]].
  apply in_map_iff in Ht. destruct Ht as [[di d] [Ht Hd]]. cbn [fst snd] in Ht.
  apply enum_In in Hh. apply enum_In in Hd. destruct Hh as [Hh0 Hh]. destruct Hd as [Hd0 Hd].
  destruct (cands_for_sound _ _ _ _ _ _ Ht Hct) as [E1 [E2 [e [x [ow [L [U R]]]]]]].
  unfold cand_sound. exists h, d, e, x, ow, L, U. rewrite E1, E2.
  destruct R as [R1 [R2 [R3 [R4 [R5 [R6 [R7 [Rh [Rw [R8 [R9 R10]]]]]]]]]]].
  exact (conj Hh (conj Hh0 (conj Hd (conj Hd0 (conj R1 (conj R2 (conj R3 (conj R4 (conj R5 (conj R6 (conj R7 (conj Rh (conj Rw (conj R8 (conj R9 R10))))))))))))))).
Qed.

(* ------------------------------------------------------------ np.unique *)
Fixpoint ssorted (l : list Z) : Prop :=
  match l with
  | a :: ((b :: _) as r) => a < b /\ ssorted r
  | _ => True
  end.

Lemma ins_uniq_In x l y : In y (ins_uniq x l) <-> x = y \/ In y l.
Proof.
  induction l as [|a l IH]; cbn [ins_uniq In]; [tauto|].
  destruct (x <? a); [cbn [In]; tauto|].
  destruct (x =? a) eqn:E; [apply Z.eqb_eq in E; subst; cbn [In]; tauto|].
  cbn [In]. rewrite IH. tauto.
Qed.

Lemma ins_uniq_sorted x l : ssorted l -> ssorted (ins_uniq x l).
Proof.
  induction l as [|a l IH]; intros H; cbn [ins_uniq]; [exact I|].
  destruct (x <? a) eqn:E1; [apply Z.ltb_lt in E1; cbn [ssorted]; split; assumption|].
  destruct (x =? a) eqn:E2; [exact H|].
  apply Z.ltb_ge in E1. apply Z.eqb_neq in E2.
  destruct l as [|b l]; [cbn [ins_uniq ssorted]; split; [lia|exact I]|].
  destruct H as [Hab H]. specialize (IH H). cbn [ins_uniq] in *.
  destruct (x <? b) eqn:E3; [apply Z.ltb_lt in E3; cbn [ssorted] in *; repeat split; try lia; tauto|].
  destruct (x =? b) eqn:E4; [cbn [ssorted]; split; assumption|].
  cbn [ssorted]. split; [lia|exact IH].
Qed.

Lemma ssorted_lt a l : ssorted (a :: l) -> forall x, In x l -> a < x.
Proof.
  revert a; induction l as [|b l IH]; intros a H x Hx; [contradiction|].
  destruct H as [Hab H]. destruct Hx as [<-|Hx]; [exact Hab|].
  pose proof (IH b H x Hx). lia.
Qed.

Lemma ssorted_NoDup l : ssorted l -> NoDup l.
Proof.
  induction l as [|a l IH]; intros H; constructor.
  - intros Hin. pose proof (ssorted_lt a l H a Hin). lia.
  - apply IH. destruct l; [exact I|apply H].
Qed.

Lemma zuniq_In l y : In y (zuniq l) <-> In y l.
Proof.
  unfold zuniq. induction l as [|a l IH]; cbn [fold_right In]; [tauto|].
  rewrite ins_uniq_In, IH. tauto.
Qed.

Lemma zuniq_NoDup l : NoDup (zuniq l).
Proof.
  apply ssorted_NoDup. unfold zuniq. induction l as [|a l IH]; cbn [fold_right]; [exact I|].
  apply ins_uniq_sorted; exact IH.
Qed.

(* partition of a list by a key *)
Lemma count_key_one : forall (ks : list Z) a,
  NoDup ks -> In a ks -> zsum (map (fun k => if a =? k then 1 else 0) ks) = 1.
Proof.
  induction ks as [|k ks IH]; intros a Hn Hin; [contradiction|].
  inversion Hn as [|k' ks' Hk Hn']; subst. cbn [map zsum fold_right].
  destruct Hin as [->|Hin].
  - rewrite Z.eqb_refl.
    assert (Z0 : fold_right Z.add 0 (map (fun k => if a =? k then 1 else 0) ks) = 0).
    { clear IH Hn Hn'. induction ks as [|b ks IH]; [reflexivity|]. cbn [map fold_right].
      destruct (a =? b) eqn:E; [apply Z.eqb_eq in E; subst; exfalso; apply Hk; left; reflexivity|].
      rewrite IH; [reflexivity|]. intros H; apply Hk; right; exact H. }
    rewrite Z0. reflexivity.
  - destruct (a =? k) eqn:E; [apply Z.eqb_eq in E; subst; contradiction|].
    specialize (IH a Hn' Hin). unfold zsum in IH. rewrite IH. reflexivity.
Qed.

Lemma partition_step {A} (key : A -> Z) (x : A) (l : list A) : forall ks : list Z,
  zsum (map (fun k => zlen (filter (fun y => key y =? k) (x :: l))) ks)
  = zsum (map (fun k => if key x =? k then 1 else 0) ks)
    + zsum (map (fun k => zlen (filter (fun y => key y =? k) l)) ks).
Proof.
  unfold zsum. induction ks as [|k ks IH]; [reflexivity|].
  cbn [map fold_right]. rewrite IH. cbn [filter].
  destruct (key x =? k); rewrite ?zlen_cons; lia.
Qed.

Lemma partition_count {A} (key : A -> Z) : forall (l : list A) (ks : list Z),
  NoDup ks -> (forall x, In x l -> In (key x) ks) ->
  zsum (map (fun k => zlen (filter (fun x => key x =? k) l)) ks) = zlen l.
Proof.
  induction l as [|x l IH]; intros ks Hn Hin.
  - cbn [filter]. clear Hn Hin. unfold zsum. induction ks as [|k ks IHk]; [reflexivity|].
    cbn [map fold_right]. rewrite IHk. reflexivity.
  - rewrite partition_step, zlen_cons.
    rewrite (IH ks Hn) by (intros y Hy; apply Hin; right; exact Hy).
    rewrite (count_key_one ks (key x) Hn (Hin x (or_introl eq_refl))). reflexivity.
Qed.

Lemma filter_andb {A} (f g : A -> bool) l :
  filter (fun x => f x && g x) l = filter g (filter f l).
Proof.
  induction l as [|a l IH]; [reflexivity|]. cbn [filter].
  destruct (f a); cbn [andb filter]; [destruct (g a); rewrite IH; reflexivity|exact IH].
Qed.

(* -------------------------------------------------------------- generation *)
Section Gen.
  Variable rng : Type.
  Variable choice : rng -> list Z -> nat -> list nat * rng.
  Variable post : Z -> Z -> Z -> Z -> list Z.
  Hypothesis Hc : choice_contract choice.

  Notation redraw := (redraw rng choice post).
  Notation gen_group := (gen_group rng choice post).
  Notation gen_shgs := (gen_shgs rng choice post).
  Notation gen_dss := (gen_dss rng choice post).
  Notation generate_p := (generate_p rng choice post).
  Notation post_c := (post_c post).

  Variable tbl : list cand.
  (* the probabilities of the sampler: those of the current table *)
  Variable p : list Z.
  Definition sampler_ok : Prop := p = samp_w tbl.
  Hypothesis Hp : sampler_ok.

  (* a candidate that may legitimately be drawn *)
  Definition drawable (c : cand) : Prop :=
    In c tbl /\ ((Forall (fun c => 0 <= c_wn c) tbl /\ Exists (fun c => 0 < c_wn c) tbl
                  /\ Forall (fun c => 0 < c_wd c) tbl) -> 0 < c_wn c).

  Lemma lookup_spec idxs meta :
    lookup tbl idxs = Ok meta ->
    length meta = length idxs /\ Forall2 (fun i c => nth_error tbl i = Some c) idxs meta.
  Proof.
    unfold lookup. intros H. apply mapM_ok in H. split; [symmetry; apply (Forall2_len _ _ _ H)|].
    induction H as [|i c idxs meta Hi H IH]; constructor; [|exact IH].
    destruct (nth_error tbl i); [inversion Hi; reflexivity|discriminate].
  Qed.

  Lemma nth_samp : forall (t : list cand) (W : Z) i c,
    nth_error t i = Some c -> nth i (map (fun c => c_wn c * (W / c_wd c)) t) 0 = c_wn c * (W / c_wd c).
  Proof.
    induction t as [|a t IH]; intros W [|i] c H; cbn [nth_error map nth] in *; try discriminate.
    - inversion H; reflexivity.
    - apply IH; exact H.
  Qed.

  Lemma zlcm_l_spec : forall l, Forall (fun d => 0 < d) l ->
    0 < zlcm_l l /\ Forall (fun d => (d | zlcm_l l)) l.
  Proof.
    unfold zlcm_l. induction 1 as [|d l Hd H IH]; cbn [fold_right]; [split; [lia|constructor]|].
    destruct IH as [I1 I2]. split.
    - pose proof (Z.lcm_nonneg d (fold_right Z.lcm 1 l)) as Hn.
      assert (Hz : Z.lcm d (fold_right Z.lcm 1 l) <> 0) by (intros E; apply Z.lcm_eq_0 in E; lia).
      lia.
    - constructor; [apply Z.divide_lcm_l|].
      eapply Forall_impl; [|exact I2]. intros a Ha. cbv beta in *.
      eapply Z.divide_trans; [exact Ha|apply Z.divide_lcm_r].
  Qed.

  (* the factor W / c_wd of every candidate is positive *)
  Lemma samp_factor_pos c : Forall (fun c => 0 < c_wd c) tbl -> In c tbl -> 0 < zlcm_l (map c_wd tbl) / c_wd c.
  Proof.
    intros Hwd Hin. rewrite Forall_forall in Hwd. pose proof (Hwd c Hin) as Hd.
    assert (Hall : Forall (fun d => 0 < d) (map c_wd tbl)).
    { apply Forall_forall. intros d Hd'. apply in_map_iff in Hd'. destruct Hd' as [c' [<- Hc']]. apply Hwd; exact Hc'. }
    destruct (zlcm_l_spec _ Hall) as [HW Hdiv]. rewrite Forall_forall in Hdiv.
    destruct (Hdiv (c_wd c) (in_map c_wd _ _ Hin)) as [q Hq].
    rewrite Hq, Z.div_mul by lia. nia.
  Qed.

  Lemma lookup_drawable : forall idxs meta,
    (forall i, In i idxs ->
       (Forall (fun c => 0 <= c_wn c) tbl /\ Exists (fun c => 0 < c_wn c) tbl
        /\ Forall (fun c => 0 < c_wd c) tbl) -> 0 < nth i (samp_w tbl) 0) ->
    Forall2 (fun i c => nth_error tbl i = Some c) idxs meta -> Forall drawable meta.
  Proof.
    intros idxs meta Hin HF. induction HF as [|i c idxs meta Hi HF IH]; constructor.
    - split; [apply (nth_error_In _ _ Hi)|]. intros Hw.
      pose proof (Hin i (or_introl eq_refl) Hw) as Hpos. unfold samp_w in Hpos. cbv zeta in Hpos.
      rewrite (nth_samp _ _ _ _ Hi) in Hpos.
      destruct Hw as [Hnn [_ Hwd]].
      pose proof (samp_factor_pos c Hwd (nth_error_In _ _ Hi)) as Hf.
      rewrite Forall_forall in Hnn. pose proof (Hnn c (nth_error_In _ _ Hi)). nia.
    - apply IH. intros j Hj. apply Hin. right; exact Hj.
  Qed.

  Lemma drawn_drawable g k meta :
    lookup tbl (fst (choice g p k)) = Ok meta ->
    zlen meta = Z.of_nat k /\ Forall drawable meta.
  Proof.
    intros H. pose proof Hp as Hq. unfold sampler_ok in Hq. rewrite Hq in H. clear Hq. destruct (lookup_spec _ _ H) as [Hl HF]. destruct (Hc g (samp_w tbl) k) as [Hlen Hpos].
    split; [unfold zlen; rewrite Hl, Hlen; reflexivity|].
    apply (lookup_drawable _ _) with (2 := HF). intros i Hi [Hnn [Hex Hwd]].
    apply Hpos; [| |exact Hi].
    - apply Forall_forall. intros w Hw. unfold samp_w in Hw. cbv zeta in Hw.
      apply in_map_iff in Hw. destruct Hw as [c' [<- Hc']].
      rewrite Forall_forall in Hnn. pose proof (Hnn c' Hc'). pose proof (samp_factor_pos c' Hwd Hc'). nia.
    - apply Exists_exists in Hex. destruct Hex as [c' [Hc' Hpp]]. apply Exists_exists.
      exists (c_wn c' * (zlcm_l (map c_wd tbl) / c_wd c')). split.
      + unfold samp_w. cbv zeta. apply (in_map (fun c => c_wn c * (zlcm_l (map c_wd tbl) / c_wd c)) _ _ Hc').
      + pose proof (samp_factor_pos c' Hwd Hc'). nia.
  Qed.

  (* what every returned event of dataset ds (validity ranges rngs) satisfies *)
  Definition good (ds : Z) (rngs : list (nat * (Z * Z))) (ev : list Z) : Prop :=
    (exists c, drawable c /\ c_ds c = ds /\ ev = post_c c) /\ in_ranges rngs ev.

  Lemma kept_from ds shg meta :
    Forall drawable meta ->
    Forall (fun ev => exists c, drawable c /\ c_ds c = ds /\ ev = post_c c)
           (map post_c (filter (fun c => (c_ds c =? ds) && (c_shg c =? shg)) meta)).
  Proof.
    intros H. induction H as [|c meta Hd H IH]; cbn [filter map]; [constructor|].
    destruct ((c_ds c =? ds) && (c_shg c =? shg)) eqn:E; [|exact IH].
    apply andb_true_iff in E. destruct E as [E _]. apply Z.eqb_eq in E.
    cbn [map]. constructor; [|exact IH]. exists c. repeat split; [apply Hd|apply Hd|exact E].
  Qed.

  Lemma redraw_spec rngs n_signal ds shg : forall fuel g acc r g',
    zlen acc <= n_signal -> Forall (good ds rngs) acc ->
    redraw fuel g p tbl rngs n_signal ds shg acc = Ok (r, g') ->
    zlen r = n_signal /\ Forall (good ds rngs) r.
  Proof.
    induction fuel as [|fuel IH]; intros g acc r g' Hle Hg H; cbn [M_Inject.redraw] in H;
      rewrite K_redraw_while in H; destruct (zlen acc <? n_signal) eqn:E.
    - discriminate.
    - apply Z.ltb_ge in E. inversion H; subst. split; [lia|exact Hg].
    - apply Z.ltb_lt in E. cbv zeta in H. rewrite K_redraw_size in H.
      destruct (lookup tbl _) as [meta|] eqn:El; [|discriminate]. cbn [bind] in H.
      destruct (invalid_mask rngs _) as [inv|] eqn:Ei; [|discriminate]. cbn [bind] in H.
      destruct (drawn_drawable _ _ _ El) as [Hlen Hdr].
      apply IH in H; [exact H| |].
      + rewrite zlen_app.
        pose proof (mask_select_le (map post_c (filter (keep_c ds shg) meta)) (map negb inv)) as L1.
        assert (L2 : zlen (map post_c (filter (keep_c ds shg) meta)) <= zlen meta).
        { unfold zlen at 1. rewrite map_length. apply filter_le. }
        lia.
      + apply Forall_app. split; [exact Hg|].
        eapply mask_select_valid; [exact Ei|].
        assert (Ek : filter (keep_c ds shg) meta = filter (fun c => (c_ds c =? ds) && (c_shg c =? shg)) meta).
        { apply filter_ext. intros c. unfold keep_c. apply K_redraw_keep. }
        rewrite Ek. apply kept_from. exact Hdr.
    - apply Z.ltb_ge in E. inversion H; subst. split; [lia|exact Hg].
  Qed.

  Lemma gen_group_spec fuel g rngs ds shg meta evs g' :
    Forall drawable meta ->
    gen_group fuel g p tbl rngs ds shg meta = Ok (evs, g') ->
    zlen evs = zlen (filter (fun c => c_shg c =? shg) (filter (fun c => c_ds c =? ds) meta))
    /\ Forall (good ds rngs) evs.
  Proof.
    intros Hdr H. unfold M_Inject.gen_group in H. cbv zeta in H.
    assert (Ek : filter (fun c => gen_ds_shg_mask (gen_ds_mask ds (c_ds c)) (gen_shg_mask shg (c_shg c))) meta
                 = filter (fun c => (c_ds c =? ds) && (c_shg c =? shg)) meta).
    { apply filter_ext. intros c. apply K_gen_mask. }
    rewrite Ek in H. clear Ek.
    set (sel := filter (fun c => (c_ds c =? ds) && (c_shg c =? shg)) meta) in *.
    assert (Hsel : zlen (map post_c sel)
                   = zlen (filter (fun c => c_shg c =? shg) (filter (fun c => c_ds c =? ds) meta))).
    { unfold zlen. rewrite map_length. unfold sel. rewrite filter_andb. reflexivity. }
    destruct (invalid_mask rngs (map post_c sel)) as [inv|] eqn:Ei; [|discriminate]. cbn [bind] in H.
    pose proof (kept_from ds shg meta Hdr) as Hfrom. fold sel in Hfrom.
    pose proof (mask_select_valid rngs _ _ _ Ei Hfrom) as Hvalid.
    rewrite K_gen_need_redraw in H. destruct (0 <? count_true inv) eqn:En.
    - destruct (M_Inject.redraw rng choice post fuel g p tbl rngs (count_true inv) ds shg []) as [[rd g1]|] eqn:Er; [|discriminate].
      cbn [bind fst snd] in H.
      destruct (fill_mask (map post_c sel) inv rd) as [ev|] eqn:Ef; [|discriminate]. cbn [bind] in H.
      inversion H; subst. clear H.
      apply redraw_spec in Er; [|apply Z.ltb_lt in En; cbn; lia|constructor].
      destruct Er as [_ Hrd]. destruct (fill_mask_spec _ _ _ _ Ef) as [Hl _].
      split; [unfold zlen in *; rewrite Hl; exact Hsel|].
      eapply fill_mask_Forall; [exact Ef| |exact Hrd].
      eapply Forall_impl; [|exact Hvalid]. intros ev0 [Ha Hb]. split; assumption.
    - inversion H; subst. clear H. split; [exact Hsel|].
      (* no invalid event: the mask selects everything *)
      assert (Hall : mask_select (map post_c sel) (map negb inv) = map post_c sel).
      { apply Z.ltb_ge in En. apply mask_select_all; [apply (invalid_mask_len _ _ _ Ei)|exact En]. }
      rewrite Hall in Hvalid. eapply Forall_impl; [|exact Hvalid]. intros ev0 [Ha Hb]. split; assumption.
  Qed.

  Lemma gen_shgs_spec fuel rngs ds meta : forall shgs g evs g',
    Forall drawable meta ->
    gen_shgs fuel g p tbl rngs ds meta shgs = Ok (evs, g') ->
    zlen evs = zsum (map (fun k => zlen (filter (fun c => c_shg c =? k) (filter (fun c => c_ds c =? ds) meta))) shgs)
    /\ Forall (good ds rngs) evs.
  Proof.
    induction shgs as [|shg shgs IH]; intros g evs g' Hdr H; cbn [M_Inject.gen_shgs] in H.
    - inversion H; subst. split; [reflexivity|constructor].
    - destruct (M_Inject.gen_group rng choice post fuel g p tbl rngs ds shg meta) as [[e1 g1]|] eqn:E1; [|discriminate].
      cbn [bind fst snd] in H.
      destruct (M_Inject.gen_shgs rng choice post fuel g1 p tbl rngs ds meta shgs) as [[e2 g2]|] eqn:E2; [|discriminate].
      cbn [bind fst snd] in H. inversion H; subst. clear H.
      destruct (gen_group_spec _ _ _ _ _ _ _ _ Hdr E1) as [L1 F1].
      destruct (IH _ _ _ Hdr E2) as [L2 F2].
      split; [rewrite zlen_app, L1, L2; cbn [map zsum fold_right]; reflexivity|apply Forall_app; split; assumption].
  Qed.

  Lemma gen_dss_spec fuel dss meta : forall dsis g out g',
    Forall drawable meta ->
    gen_dss fuel g p tbl dss meta dsis = Ok (out, g') ->
    map fst out = dsis
    /\ zsum (map (fun kv => zlen (snd kv)) out)
       = zsum (map (fun k => zlen (filter (fun c => c_ds c =? k) meta)) dsis)
    /\ (forall ds evs, In (ds, evs) out ->
          exists d, py_get dss ds = Ok d /\ Forall (good ds (d_rng d)) evs
                    /\ zlen evs = zlen (filter (fun c => c_ds c =? ds) meta)).
  Proof.
    induction dsis as [|ds dsis IH]; intros g out g' Hdr H; cbn [M_Inject.gen_dss] in H.
    - inversion H; subst. repeat split; try reflexivity. intros ds evs [].
    - destruct (py_get dss ds) as [d|] eqn:Ed; [|discriminate]. cbn [bind] in H. cbv zeta in H.
      destruct (M_Inject.gen_shgs rng choice post fuel g p tbl (d_rng d) ds meta _) as [[e1 g1]|] eqn:E1; [|discriminate].
      cbn [bind fst snd] in H.
      destruct (M_Inject.gen_dss rng choice post fuel g1 p tbl dss meta dsis) as [[o2 g2]|] eqn:E2; [|discriminate].
      cbn [bind fst snd] in H. inversion H; subst. clear H.
      destruct (gen_shgs_spec _ _ _ _ _ _ _ _ Hdr E1) as [L1 F1].
      destruct (IH _ _ _ Hdr E2) as [K2 [L2 F2]].
      assert (Ef : filter (fun c => gen_ds_mask ds (c_ds c)) meta = filter (fun c => c_ds c =? ds) meta).
      { apply filter_ext. intros c. apply K_gen_ds_mask. }
      rewrite Ef in L1.
      assert (Lds : zlen e1 = zlen (filter (fun c => c_ds c =? ds) meta)).
      { rewrite L1.
        apply (partition_count c_shg (filter (fun c => c_ds c =? ds) meta)); [apply zuniq_NoDup|].
        intros x Hx. apply zuniq_In. apply in_map. exact Hx. }
      repeat split.
      + cbn [map fst]. rewrite K2. reflexivity.
      + cbn [map zsum fold_right snd]. unfold zsum in L2. rewrite L2. f_equal. exact Lds.
      + intros ds' evs [E|Hin].
        * inversion E; subst. exists d. repeat split; assumption.
        * apply (F2 ds' evs Hin).
  Qed.

  Theorem generate_count fuel g dss n_signal n out g' :
    0 <= n_signal ->
    generate_p fuel g p tbl dss n_signal = Ok (n, out, g') ->
    n = n_signal
    /\ zsum (map (fun kv => zlen (snd kv)) out) = n
    /\ NoDup (map fst out).
  Proof.
    intros Hn H. unfold M_Inject.generate_p in H. cbv zeta in H.
    destruct (lookup tbl _) as [meta|] eqn:El; [|discriminate]. cbn [bind] in H.
    destruct (M_Inject.gen_dss rng choice post fuel _ p tbl dss meta _) as [[o g1]|] eqn:E; [|discriminate].
    cbn [bind fst snd] in H. inversion H; subst. clear H.
    destruct (drawn_drawable _ _ _ El) as [Hlen Hdr].
    destruct (gen_dss_spec _ _ _ _ _ _ _ Hdr E) as [K [L _]].
    split; [reflexivity|]. split.
    - rewrite L. rewrite (partition_count c_ds meta); [lia|apply zuniq_NoDup|].
      intros x Hx. apply zuniq_In. apply in_map. exact Hx.
    - rewrite K. apply zuniq_NoDup.
  Qed.

  Theorem generate_valid_aux fuel g dss n_signal n out g' :
    generate_p fuel g p tbl dss n_signal = Ok (n, out, g') ->
    forall ds evs, In (ds, evs) out ->
      exists d, py_get dss ds = Ok d /\ Forall (good ds (d_rng d)) evs.
  Proof.
    intros H ds evs Hin. revert H. intros H. unfold M_Inject.generate_p in H. cbv zeta in H.
    destruct (lookup tbl _) as [meta|] eqn:El; [|discriminate]. cbn [bind] in H.
    destruct (M_Inject.gen_dss rng choice post fuel _ p tbl dss meta _) as [[o g1]|] eqn:E; [|discriminate].
    cbn [bind fst snd] in H. inversion H; subst. clear H.
    destruct (drawn_drawable _ _ _ El) as [_ Hdr].
    destruct (gen_dss_spec _ _ _ _ _ _ _ Hdr E) as [_ [_ F]].
    destruct (F ds evs Hin) as [d [F1 [F2 _]]]. exists d. split; assumption.
  Qed.

  (* per-dataset counts: the keys are the datasets of the first draw, each dataset returns as many events as
     the first draw assigned to it (the redraw keeps dataset and group) *)
  Theorem generate_per_dataset fuel g dss n_signal n out g' :
    generate_p fuel g p tbl dss n_signal = Ok (n, out, g') ->
    exists meta,
      lookup tbl (fst (choice g p (Z.to_nat n_signal))) = Ok meta
      /\ map fst out = zuniq (map c_ds meta)
      /\ (forall ds evs, In (ds, evs) out -> zlen evs = zlen (filter (fun c => c_ds c =? ds) meta)).
  Proof.
    intros H. unfold M_Inject.generate_p in H. cbv zeta in H.
    destruct (lookup tbl _) as [meta|] eqn:El; [|discriminate]. cbn [bind] in H.
    destruct (M_Inject.gen_dss rng choice post fuel _ p tbl dss meta _) as [[o g1]|] eqn:E; [|discriminate].
    cbn [bind fst snd] in H. inversion H; subst. clear H.
    destruct (drawn_drawable _ _ _ El) as [_ Hdr].
    destruct (gen_dss_spec _ _ _ _ _ _ _ Hdr E) as [K [_ F]].
    exists meta. split; [reflexivity|]. split; [exact K|].
    intros ds evs Hin. destruct (F ds evs Hin) as [d [_ [_ L]]]. exact L.
  Qed.
End Gen.

Theorem generate_valid (rng : Type) (choice : rng -> list Z -> nat -> list nat * rng)
  (post : Z -> Z -> Z -> Z -> list Z) :
  choice_contract choice ->
  forall fuel g tbl dss n_signal n out g',
  Forall (fun c => 0 <= c_wn c) tbl -> Exists (fun c => 0 < c_wn c) tbl -> Forall (fun c => 0 < c_wd c) tbl ->
  generate rng choice post fuel g tbl dss n_signal = Ok (n, out, g') ->
  forall ds evs ev, In (ds, evs) out -> In ev evs ->
  exists d c, py_get dss ds = Ok d /\ In c tbl /\ c_ds c = ds /\ 0 < c_wn c
    /\ ev = post (c_ds c) (c_shg c) (c_src c) (c_ev c)
    /\ in_ranges (d_rng d) ev.
Proof.
  intros Hc fuel g tbl dss n_signal n out g' Hnn Hex Hwd H ds evs ev Hin Hev.
  unfold generate in H.
  destruct (generate_valid_aux rng choice post Hc tbl (samp_w tbl) eq_refl _ _ _ _ _ _ _ H ds evs Hin) as [d [Hd HF]].
  rewrite Forall_forall in HF. destruct (HF ev Hev) as [[c [[Hc1 Hc2] [Hc3 Hc4]]] Hr].
  exists d, c. repeat split; try assumption. apply Hc2. repeat split; assumption.
Qed.

Theorem generate_count_thm (rng : Type) (choice : rng -> list Z -> nat -> list nat * rng)
  (post : Z -> Z -> Z -> Z -> list Z) :
  choice_contract choice ->
  forall fuel g tbl dss n_signal n out g',
  0 <= n_signal ->
  generate rng choice post fuel g tbl dss n_signal = Ok (n, out, g') ->
  n = n_signal
  /\ zsum (map (fun kv => zlen (snd kv)) out) = n
  /\ NoDup (map fst out).
Proof.
  intros Hc fuel g tbl dss n_signal n out g' Hn H.
  exact (generate_count rng choice post Hc tbl (samp_w tbl) eq_refl fuel g dss n_signal n out g' Hn H).
Qed.

Theorem generate_per_dataset_thm (rng : Type) (choice : rng -> list Z -> nat -> list nat * rng)
  (post : Z -> Z -> Z -> Z -> list Z) :
  choice_contract choice ->
  forall fuel g tbl dss n_signal n out g',
  generate rng choice post fuel g tbl dss n_signal = Ok (n, out, g') ->
  exists meta,
    lookup tbl (fst (choice g (samp_w tbl) (Z.to_nat n_signal))) = Ok meta
    /\ map fst out = zuniq (map c_ds meta)
    /\ (forall ds evs, In (ds, evs) out -> zlen evs = zlen (filter (fun c => c_ds c =? ds) meta)).
Proof.
  intros Hc fuel g tbl dss n_signal n out g' H.
  exact (generate_per_dataset rng choice post Hc tbl (samp_w tbl) eq_refl fuel g dss n_signal n out g' H).
Qed.
