(* C16 — simulation of the per-field loops: sort_by_field, convert_dtypes, append, tidy_up. *)
From Coq Require Import ZArith List Bool Lia Arith.
From Sky Require Import Result PyList G_table M_Table S_Table S_TableInterp P_TableBase P_TableOps P_TableOps2 P_TableOps3 P_TableSim.
Import ListNotations.
Open Scope Z_scope.

(* ---- numpy contract: whether an index operation raises depends on lengths only *)
Lemma gather_none_len : forall d d' ps, length d = length d' -> gather d ps = None -> gather d' ps = None.
Proof.
  induction ps as [|p r IH]; intros L H; cbn in *; [discriminate|].
  destruct (nth_error d p) eqn:N.
  - destruct (gather d r) eqn:G; [discriminate|]. rewrite (IH L eq_refl).
    destruct (nth_error d' p); reflexivity.
  - apply nth_error_None in N. assert (N' : nth_error d' p = None) by (apply nth_error_None; lia).
    rewrite N'; reflexivity.
Qed.

Lemma np_take_err_len : forall d d' sl e, length d = length d' -> np_take d sl = Err e -> np_take d' sl = Err e.
Proof.
  intros d d' sl e L H; unfold np_take in *. replace (zlen d') with (zlen d) by (unfold zlen; rewrite L; reflexivity).
  destruct (sel_pos (zlen d) sl) as [ps|e0]; cbn in *; [|assumption].
  destruct (gather d ps) eqn:G; [discriminate|]. rewrite (gather_none_len _ _ _ L G). assumption.
Qed.

Lemma broadcast_none_iff : forall v k, broadcast v k = None <-> (length v <> k /\ length v <> 1%nat).
Proof.
  intros v k; unfold broadcast. destruct (Nat.eqb (length v) k) eqn:Q.
  - apply Nat.eqb_eq in Q; split; [discriminate | intros [A _]; contradiction].
  - apply Nat.eqb_neq in Q. destruct v as [|a [|? ?]]; cbn in *; split; try discriminate; try (intros; split; lia); try reflexivity.
    intros [_ A]; contradiction.
Qed.

Lemma np_put_err_len : forall d d' sl v v' e, length d = length d' -> length v = length v' ->
  np_put d sl v = Err e -> np_put d' sl v' = Err e.
Proof.
  intros d d' sl v v' e L Lv H; unfold np_put in *.
  replace (zlen d') with (zlen d) by (unfold zlen; rewrite L; reflexivity).
  assert (B : forall k, broadcast v k = None <-> broadcast v' k = None).
  { intros k; rewrite !broadcast_none_iff, Lv; tauto. }
  destruct sl.
  - destruct (broadcast v (length idx)) eqn:Q.
    + destruct (broadcast v' (length idx)) eqn:Q'; [|apply B in Q'; congruence].
      destruct (sel_pos (zlen d) (SIdx idx)); cbn in *; [discriminate | assumption].
    + apply B in Q; rewrite Q; assumption.
  - destruct (sel_pos (zlen d) (SMask m)) as [ps|]; cbn in *; [|assumption].
    destruct (broadcast v (length ps)) eqn:Q; [discriminate|]. apply B in Q; rewrite Q; assumption.
Qed.

(* ---- map_cols against the column store *)
Lemma map_cols_ok : forall (g : name -> buf -> res buf) E F ks,
  (forall k, In k ks -> g k (E k) = Ok (F k)) -> map_cols g (cols_of E ks) = Ok (cols_of F ks).
Proof.
  induction ks as [|k r IH]; intros H; [reflexivity|]. cbn [cols_of map map_cols].
  rewrite (H k (or_introl eq_refl)); cbn [bind]. fold (cols_of E r). rewrite IH by (intros; apply H; right; assumption).
  reflexivity.
Qed.

Lemma map_cols_err_all : forall (g : name -> buf -> res buf) E e k0 r,
  g k0 (E k0) = Err e -> map_cols g (cols_of E (k0 :: r)) = Err e.
Proof. intros; cbn [cols_of map map_cols]; rewrite H; reflexivity. Qed.

Lemma Emix_nil_cols : forall g l0 E ks, (forall k, In k ks -> In k l0) ->
  cols_of (Emix g l0 E []) ks = cols_of (fun k => G g k (E k)) ks.
Proof.
  intros; apply cols_of_ext; intros k Hk; unfold Emix.
  replace (mem k l0) with true by (symmetry; apply mem_In; auto). reflexivity.
Qed.

Lemma Emix_all_cols : forall g l0 E ks todo, (forall k, In k ks -> In k todo) ->
  cols_of (Emix g l0 E todo) ks = cols_of E ks.
Proof.
  intros; apply cols_of_ext; intros k Hk; unfold Emix.
  replace (mem k todo) with true by (symmetry; apply mem_In; auto). rewrite andb_false_r; reflexivity.
Qed.

Lemma abs_of_shape : forall E E' o o', same_shape o o' ->
  cols_of E' (keys (fields o)) = cols_of E (keys (fields o)) -> abs_of E' o' = abs_of E o.
Proof. intros E E' o o' (S1 & S2 & S3 & S4) H; unfold abs_of; rewrite S1, S3, S4, H; reflexivity. Qed.

(* ------------------------------------------------------------ sort_by_field *)
Lemma sim_sort : forall s E o n perm, repr s E o -> eqlen E o ->
  match s_sort (abs_of E o) n perm with
  | Some r => sim1 (sort_by_field s o n perm) (abs_of E o) r
  | None => snd (sort_by_field s o n perm) = Stuck
            /\ abs_obj (fst (fst (sort_by_field s o n perm))) (snd (fst (sort_by_field s o n perm))) = abs_of E o
  end.
Proof.
  intros s E o n perm R [L0 L1]. pose proof (sort_spec s E o n perm R) as S.
  unfold s_sort; cbn [acols abs_of].
  destruct (sort_by_field s o n perm) as [[s' o'] x] eqn:SB.
  destruct S as (ext & todo & S1 & S2 & S3 & S4 & S5 & S6 & S7 & S8 & S9).
  assert (AB : abs_obj s' o' = abs_of (Emix (g_sort perm) (fnl o) E todo) o') by (apply abs_obj_repr; assumption).
  assert (Unch : todo = fnl o -> abs_obj s' o' = abs_of E o).
  { intros ->. rewrite AB. apply abs_of_shape; [assumption|]. apply Emix_all_cols.
    intros k Hk; rewrite (r_fnl _ _ _ R); assumption. }
  destruct (assoc n (fields o)) as [l|] eqn:A.
  - pose proof (assoc_keys _ _ _ A) as Hin. rewrite (assoc_cols_of E _ _ Hin).
    unfold sort_by_field in SB. rewrite A, (r_cols _ _ _ R _ _ (assoc_In _ _ _ A)) in SB.
    destruct (argsort_ok (bdata (E n)) perm) eqn:AO.
    + (* the loop ran *)
      destruct S9 as [-> | [(k & e & K1 & K2 & ->) | (T1 & T2 & T3 & [T4|T4])]].
      * destruct (S5 eq_refl) as (-> & _ & _). specialize (S7 eq_refl).
        assert (OK : map_cols (s_take (SIdx perm)) (cols_of E (keys (fields o)))
                     = Ok (cols_of (fun k => G (g_sort perm) k (E k)) (keys (fields o)))).
        { apply map_cols_ok. intros k Hk. rewrite <- (r_fnl _ _ _ R) in Hk. destruct (S7 k Hk) as [r Hr].
          unfold G, s_take, g_sort in *. destruct (np_take (bdata (E k)) (SIdx perm)); [reflexivity | discriminate]. }
        rewrite OK. cbn. split; [reflexivity|]. rewrite AB. destruct S4 as (Q1 & Q2 & Q3 & Q4).
        unfold abs_of. rewrite Q1, Q3, Q4. f_equal. apply Emix_nil_cols.
        intros k Hk; rewrite (r_fnl _ _ _ R); assumption.
      * (* one column raises: all do (equal lengths), so the first one did and nothing was replaced *)
        assert (AllErr : forall k', In k' (keys (fields o)) -> g_sort perm k' (E k') = Err e).
        { intros k' Hk'. rewrite (r_fnl _ _ _ R) in K1. unfold g_sort in *.
          destruct (np_take (bdata (E k)) (SIdx perm)) eqn:T; [discriminate|]. inversion K2; subst e0.
          erewrite (np_take_err_len (bdata (E k)) (bdata (E k'))); [reflexivity | | exact T].
          pose proof (L1 k K1) as Q1; pose proof (L1 k' Hk') as Q2. unfold blen, zlen in *. lia. }
        assert (Td : forall k', In k' (fnl o) -> In k' todo).
        { intros k' Hk'. destruct (in_dec Z.eq_dec k' todo) as [Q|Q]; [assumption|]. exfalso.
          destruct (S8 k' Hk' Q) as [r Hr]. rewrite (r_fnl _ _ _ R) in Hk'. rewrite (AllErr k' Hk') in Hr. discriminate. }
        destruct (keys (fields o)) as [|k0 rest] eqn:KS; [contradiction|].
        rewrite map_cols_err_all with (e := e).
        2:{ pose proof (AllErr k0 (or_introl eq_refl)) as Q. unfold g_sort, s_take in *.
            destruct (np_take (bdata (E k0)) (SIdx perm)); [discriminate | inversion Q; reflexivity]. }
        cbn. split; [reflexivity|]. rewrite AB. rewrite <- KS in *. apply abs_of_shape; [assumption|].
        apply Emix_all_cols. intros k' Hk'. apply Td. rewrite (r_fnl _ _ _ R); assumption.
      * congruence.
      * congruence.
    + cbn. split; [inversion SB; reflexivity|]. apply Unch. destruct S6 as [T|[_ T]]; [assumption | discriminate].
  - assert (Hn : ~ In n (keys (fields o))) by (apply assoc_None; assumption).
    rewrite (assoc_cols_of_none E _ _ Hn). unfold sort_by_field in SB. rewrite A in SB.
    cbn. split; [inversion SB; reflexivity|]. apply Unch. destruct S6 as [T|[T _]]; [assumption | contradiction].
Qed.

(* ------------------------------------------------------------ convert_dtypes *)
Lemma sim_convert : forall s E o conv exc, repr s E o ->
  sim1 (convert_dtypes s o conv exc) (abs_of E o) (s_convert (abs_of E o) conv exc).
Proof.
  intros s E o conv exc R. pose proof (convert_spec s E o conv exc R) as S.
  unfold s_convert; cbn [acols alen acache abs_of].
  destruct (convert_dtypes s o conv exc) as [[s' o'] x] eqn:CV.
  destruct S as (ext & todo & S1 & S2 & S3 & S4 & S5).
  assert (OK : map_cols (s_conv1 conv exc) (cols_of E (keys (fields o)))
               = Ok (cols_of (fun k => G (g_conv conv exc) k (E k)) (keys (fields o)))).
  { apply map_cols_ok. intros k Hk. unfold s_conv1, G, g_conv. destruct (mem k exc); [reflexivity|].
    destruct (assoc (bdt (E k)) conv); reflexivity. }
  rewrite OK. cbn [bind].
  (* the loop body never raises *)
  assert (X : x = Done).
  { unfold convert_dtypes in CV.
    pose proof (map_loop (g_conv conv exc) (convert_one conv exc) s (fnl o)) as ML.
    assert (Feq : forall fname ext o1 l1 b, In fname (fnl o) -> assoc fname (fields o1) = Some l1 ->
       rd (s ++ ext) l1 = Some b -> convert_one conv exc fname ((s ++ ext, o1) : mstate) =
         match g_conv conv exc fname b with
         | Err e => ((s ++ ext, o1), Raised e)
         | Ok None => ((s ++ ext, o1), Done)
         | Ok (Some b') => (((s ++ ext) ++ [b'], with_fields o1 (dset (fields o1) fname (length (s ++ ext)))), Done)
         end).
    { intros fname ext0 o1 l1 b _ H1 H2; unfold convert_one, g_conv.
      destruct (mem fname exc); [reflexivity|]. rewrite H1, H2. destruct (assoc (bdt b) conv); reflexivity. }
    assert (NDf : NoDup (fnl o)) by (rewrite (r_fnl _ _ _ R); apply R).
    assert (Subf : forall k, In k (fnl o) -> In k (keys (fields o))) by (intros k; rewrite (r_fnl _ _ _ R); auto).
    specialize (ML Feq E o R NDf Subf). unfold mstate, store in *. rewrite CV in ML.
    destruct ML as (_ & _ & _ & _ & _ & _ & _ & _ & M7 & _).
    destruct M7 as [M7|(k & e & _ & M7 & _)]; [assumption|].
    unfold g_conv in M7. destruct (mem k exc); [discriminate|]. destruct (assoc (bdt (E k)) conv); discriminate. }
  subst x. specialize (S5 eq_refl); subst todo. cbn. split; [reflexivity|].
  rewrite (abs_obj_repr _ _ _ S2). destruct S4 as (Q1 & Q2 & Q3 & Q4). unfold abs_of. rewrite Q1, Q3, Q4. f_equal.
  apply Emix_nil_cols. intros k Hk; rewrite (r_fnl _ _ _ R); assumption.
Qed.

(* ------------------------------------------------------------ append *)
Lemma forallb_ext_in : forall A (p q : A -> bool) l, (forall x, In x l -> p x = q x) -> forallb p l = forallb q l.
Proof.
  induction l as [|a r IH]; intros H; [reflexivity|]. cbn. rewrite (H a (or_introl eq_refl)).
  rewrite IH; [reflexivity|]. intros; apply H; right; assumption.
Qed.

Lemma lookup_cols_of : forall E ks k, In k ks -> lookup k (cols_of E ks) = E k.
Proof. intros; unfold lookup; rewrite assoc_cols_of by assumption; reflexivity. Qed.

Lemma sim_append : forall s E o Ea a, repr s E o -> repr s Ea a ->
  sim1 (append s o a) (abs_of E o) (s_append (abs_of E o) (abs_of Ea a)).
Proof.
  intros s E o Ea a R Ra. pose proof (append_spec s E o Ea a R Ra) as S.
  unfold s_append. unfold anames; cbn [acols alen acache abs_of]. rewrite !keys_cols_of.
  assert (PC : forallb (fun k => mem k (keys (fields a))) (keys (fields o)) = forallb (has a) (fnl o)).
  { rewrite (r_fnl _ _ _ R). apply forallb_ext_in; intros; reflexivity. }
  rewrite PC. unfold append in *.
  destruct (forallb (has a) (fnl o)) eqn:FA.
  - destruct (loop (append_one a) (fnl o) (s, o)) as [[s1 o1] x1]. destruct x1.
    + destruct S as (ext & S1 & S2 & S3 & S4 & S5 & S6 & S7). cbn. split; [reflexivity|].
      rewrite (abs_obj_repr _ _ _ S3). unfold abs_of. rewrite S4, S5, S6. f_equal.
      unfold cols_of; rewrite map_map. apply map_ext_in; intros k Hk; cbn [fst snd].
      fold (cols_of Ea (keys (fields a))). rewrite lookup_cols_of by (apply S7; assumption). reflexivity.
    + destruct S as (_ & _ & Q); discriminate.
    + destruct S as (_ & _ & Q); discriminate.
  - cbn. split; [reflexivity | apply abs_obj_repr; assumption].
Qed.
