(* Good-run list -> Livetime: clip_grl_start_times, I3Livetime.from_grl_data and the chain of the two, as used by
   time_dependent_ps.create_analysis.  Proofs for the theorems C14_grl_* of Prop_C14.v. *)
From Coq Require Import ZArith List Bool Lia.
From Sky Require Import Result PyList G_livetime M_Livetime S_Livetime P_Livetime.
Import ListNotations.
Open Scope Z_scope.

(* ---- kernels *)
(* only the value is pinned: `<` and `<=` in the mask give the same start times *)
Lemma K_grl_clip s p : grl_clip_new (grl_clip_m s p) p s = Z.max s p.
Proof.
  unfold grl_clip_new, grl_clip_m.
  match goal with |- (if ?b then _ else _) = _ => destruct b eqn:E end; lia.
Qed.
Lemma K_sh_grl : sh_grl_clip = true /\ sh_from_grl_data = true /\ sh_from_grl_files = true
  /\ sh_integrated_livetime = true /\ sh_i3livetime_init = true /\ sh_timegen_generate = true.
Proof. repeat split. Qed.

Definition ordered (iv : Z * Z) : Prop := fst iv <= snd iv.

Lemma clip_from_cons p s e r :
  clip_from p ((s, e) :: r) = (Z.max s p, e) :: clip_from e r.
Proof. cbn [clip_from]. rewrite K_grl_clip. reflexivity. Qed.

(* ---- when is the clipped list accepted by the constructor *)
Lemma clip_from_chain p r :
  chain p (clip_from p r) <-> (Forall ordered r /\ nondecreasing (p :: map snd r) = true).
Proof.
  revert p. induction r as [|[s e] r IH]; intros p.
  - cbn. split; [intros _; split; [constructor|reflexivity]|trivial].
  - rewrite clip_from_cons. cbn [chain map snd nondecreasing]. rewrite IH.
    rewrite andb_true_iff, Z.leb_le. unfold ordered at 1. split.
    + intros (H1 & H2 & H3 & H4). split; [constructor; [unfold ordered; cbn; lia|exact H3]|].
      split; [lia|exact H4].
    + intros (H1 & H2 & H3). inversion H1 as [|x y Hx Hy]; subst. unfold ordered in Hx. cbn in Hx.
      repeat split; try lia; assumption.
Qed.

Theorem clip_grl_wf_iff runs :
  wf (clip_grl runs) <-> (Forall ordered runs /\ nondecreasing (map snd runs) = true).
Proof.
  destruct runs as [|[s e] r].
  - cbn. split; [intros _; split; [constructor|reflexivity]|trivial].
  - cbn [clip_grl wf chain map snd]. rewrite clip_from_chain. split.
    + intros (_ & H1 & H2 & H3). split; [constructor; [exact H1|exact H2]|exact H3].
    + intros (H1 & H2). inversion H1 as [|x y Hx Hy]; subst. unfold ordered in Hx; cbn in Hx.
      repeat split; try lia; assumption.
Qed.

(* ---- the on-time of the clipped list is the union of the runs (for runs sorted by start time) *)
Lemma clip_from_on lo p r :
  nondecreasing (lo :: map fst r) = true ->
  forall t, (lo <= t < p \/ In_on (clip_from p r) t) <-> (lo <= t < p \/ In_on r t).
Proof.
  revert lo p. induction r as [|[s e] r IH]; intros lo p Hs t.
  - cbn. tauto.
  - rewrite clip_from_cons. cbn [map fst nondecreasing] in Hs.
    apply andb_true_iff in Hs as [Hlo Hs]. apply Z.leb_le in Hlo.
    specialize (IH s e Hs t). rewrite !In_on_cons.
    split.
    + intros [H|[H|H]].
      * left; exact H.
      * right; left; lia.
      * destruct (proj1 IH (or_intror H)) as [H'|H']; [right; left; exact H'|right; right; exact H'].
    + intros [H|[H|H]].
      * left; exact H.
      * destruct (Z_lt_le_dec t p) as [Hp|Hp]; [left; lia|right; left; lia].
      * destruct (proj2 IH (or_intror H)) as [H'|H'].
        -- destruct (Z_lt_le_dec t p) as [Hp|Hp]; [left; lia|right; left; lia].
        -- right; right; exact H'.
Qed.

Theorem clip_grl_same_on runs :
  nondecreasing (map fst runs) = true ->
  forall t, In_on (clip_grl runs) t <-> In_on runs t.
Proof.
  destruct runs as [|[s e] r]; intros Hs t; [tauto|].
  cbn [clip_grl]. rewrite !In_on_cons. cbn [map fst] in Hs.
  exact (clip_from_on s e r Hs t).
Qed.

(* ---- clipping changes nothing on a list that is already sorted and non-overlapping *)
Lemma clip_from_id p r : chain p r -> clip_from p r = r.
Proof.
  revert p. induction r as [|[s e] r IH]; intros p H; [reflexivity|].
  cbn [chain] in H. destruct H as (H1 & H2 & H3).
  rewrite clip_from_cons, (IH e H3). f_equal. f_equal. lia.
Qed.

Theorem clip_grl_id runs : wf runs -> clip_grl runs = runs.
Proof.
  destruct runs as [|[s e] r]; [reflexivity|]. cbn [wf chain clip_grl].
  intros (_ & _ & H). now rewrite (clip_from_id e r H).
Qed.

(* ---- the stop column is never written; the number of runs is kept *)
Lemma clip_from_snd p r : map snd (clip_from p r) = map snd r.
Proof. revert p. induction r as [|[s e] r IH]; intros p; [reflexivity|]. cbn [clip_from map snd]. now rewrite IH. Qed.
Theorem clip_grl_stops runs : map snd (clip_grl runs) = map snd runs.
Proof. destruct runs as [|[s e] r]; [reflexivity|]. cbn [clip_grl map snd]. now rewrite clip_from_snd. Qed.

(* starts only move up, and never past ... the previous stop or their own value *)
Lemma clip_from_fst_ge p r : Forall2 (fun a b => fst b <= fst a) (clip_from p r) r.
Proof.
  revert p. induction r as [|[s e] r IH]; intros p; [constructor|].
  rewrite clip_from_cons. constructor; [cbn; lia|apply IH].
Qed.

(* ---- the constructor *)
Lemma mk_livetime_ok ivs : wf ivs -> mk_livetime ivs = Ok ivs.
Proof. intros H. unfold mk_livetime. now rewrite (wf_integrity ivs H). Qed.
Lemma mk_livetime_err ivs : ~ wf ivs -> mk_livetime ivs = Err ValueError.
Proof.
  intros H. unfold mk_livetime. destruct (integrity ivs) eqn:E; [|reflexivity].
  exfalso. apply H. now apply integrity_wf.
Qed.

Theorem from_grl_spec runs :
  (wf runs -> from_grl runs = Ok runs) /\ (~ wf runs -> from_grl runs = Err ValueError).
Proof. split; [apply mk_livetime_ok|apply mk_livetime_err]. Qed.

(* ---- the chain clip -> from_grl_data -> is_on *)
Theorem grl_livetime_spec runs :
  Forall ordered runs ->
  nondecreasing (map fst runs) = true ->
  nondecreasing (map snd runs) = true ->
  exists ivs, grl_livetime runs = Ok ivs
    /\ wf ivs
    /\ (forall t, is_on ivs t = true <-> In_on runs t)
    /\ map snd ivs = map snd runs
    /\ length ivs = length runs.
Proof.
  intros Ho Hs He. exists (clip_grl runs).
  assert (Hwf : wf (clip_grl runs)) by (apply clip_grl_wf_iff; split; assumption).
  split; [unfold grl_livetime, from_grl; now apply mk_livetime_ok|].
  split; [exact Hwf|]. split.
  - intros t. rewrite (is_on_spec (clip_grl runs) t Hwf).
    change (In_on (clip_grl runs) t <-> In_on runs t). now apply clip_grl_same_on.
  - split; [apply clip_grl_stops|].
    rewrite <- (map_length snd (clip_grl runs)), clip_grl_stops. apply map_length.
Qed.

(* a run that ends before its predecessor ends (or a run with stop < start) makes the chain raise *)
Theorem grl_livetime_rejects runs :
  ~ (Forall ordered runs /\ nondecreasing (map snd runs) = true) ->
  grl_livetime runs = Err ValueError.
Proof.
  intros H. unfold grl_livetime, from_grl. apply mk_livetime_err.
  intros Hwf. apply H. now apply clip_grl_wf_iff.
Qed.

Theorem integrated_livetime_spec :
  (forall v, integrated_livetime (inl v) = v) /\ (forall ivs, integrated_livetime (inr ivs) = measure ivs).
Proof.
  split; [reflexivity|]. intros ivs. unfold integrated_livetime, livetime, widths, measure, zsum.
  induction ivs as [|iv r IH]; [reflexivity|]. cbn [map]. reflexivity.
Qed.
