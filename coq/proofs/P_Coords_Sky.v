(* C19 proofs, part 3: rotate_signal_events_on_sphere.  The astropy operations
   are oracles; their documented spherical-trigonometry contracts are Section
   hypotheses, so every theorem is closed over them as premises. *)
From Coq Require Import Reals ZArith List Bool Lra Lia Psatz.
From Sky Require Import Num NumR G_coords M_Coords S_Coords P_Coords_Real P_Coords_K P_Coords.
Open Scope R_scope.

(* ---------------------------------------------------------------- the local frame is orthonormal *)
Lemma sc1' x : sin x * sin x + cos x * cos x = 1.
Proof. generalize (sin2_cos2 x). unfold Rsqr. intro H; exact H. Qed.

Lemma frame_un lon lat : vdot (dirv lon lat) (north lon lat) = 0.
Proof.
  unfold vdot, dirv, north, c1, c2, c3. cbn [fst snd].
  transitivity (sin lat * cos lat * (1 - (sin lon * sin lon + cos lon * cos lon))); [ring|].
  rewrite sc1'. ring.
Qed.
Lemma frame_ue lon lat : vdot (dirv lon lat) (east lon lat) = 0.
Proof. unfold vdot, dirv, east, c1, c2, c3. cbn [fst snd]. ring. Qed.
Lemma frame_ne lon lat : vdot (north lon lat) (east lon lat) = 0.
Proof. unfold vdot, north, east, c1, c2, c3. cbn [fst snd]. ring. Qed.
Lemma frame_nn lon lat : vdot (north lon lat) (north lon lat) = 1.
Proof.
  unfold vdot, north, c1, c2, c3. cbn [fst snd].
  transitivity (sin lat * sin lat * (sin lon * sin lon + cos lon * cos lon) + cos lat * cos lat); [ring|].
  rewrite sc1', Rmult_1_r. apply sc1'.
Qed.
Lemma frame_ee lon lat : vdot (east lon lat) (east lon lat) = 1.
Proof. unfold vdot, east, c1, c2, c3. cbn [fst snd]. generalize (sc1' lon). lra. Qed.

Lemma vdot_vlin a u b v c w x :
  vdot (vlin a u b v c w) x = a * vdot u x + b * vdot v x + c * vdot w x.
Proof. unfold vdot, vlin, c1, c2, c3. cbn [fst snd]. ring. Qed.

Lemma offset_dot_u lon lat pa d : vdot (offset_point lon lat pa d) (dirv lon lat) = cos d.
Proof.
  unfold offset_point. rewrite vdot_vlin, dirv_unit.
  rewrite (vdot_comm (north lon lat)), (vdot_comm (east lon lat)), frame_un, frame_ue. ring.
Qed.
Lemma offset_dot_n lon lat pa d : vdot (offset_point lon lat pa d) (north lon lat) = sin d * cos pa.
Proof. unfold offset_point. rewrite vdot_vlin, frame_un, frame_nn, (vdot_comm (east lon lat)), frame_ne. ring. Qed.
Lemma offset_dot_e lon lat pa d : vdot (offset_point lon lat pa d) (east lon lat) = sin d * sin pa.
Proof. unfold offset_point. rewrite vdot_vlin, frame_ue, frame_ne, frame_ee. ring. Qed.

Section Sky.
  Variable e : R -> R.
  Notation N := (RNum e).
  Variable O : sky_oracle (T := R).

  (* K: the kernels of the function are identities that pin the call structure *)
  Lemma K_rses_v_source x : rses_v_source N x = x. Proof. reflexivity. Qed.
  Lemma K_rses_v_evt_true x : rses_v_evt_true N x = x. Proof. reflexivity. Qed.
  Lemma K_rses_v_evt_reco x : rses_v_evt_reco N x = x. Proof. reflexivity. Qed.
  Lemma K_rses_pa x : rses_pa N x = x. Proof. reflexivity. Qed.
  Lemma K_rses_sep x : rses_sep N x = x. Proof. reflexivity. Qed.
  Lemma K_rses_v_rotated x : rses_v_rotated N x = x. Proof. reflexivity. Qed.
  Lemma K_rses_rot_ra x : rses_rot_ra N x = x. Proof. reflexivity. Qed.
  Lemma K_rses_rot_dec x : rses_rot_dec N x = x. Proof. reflexivity. Qed.
  Lemma K_rses_ret_ra x : rses_ret_ra N x = x. Proof. reflexivity. Qed.
  Lemma K_rses_ret_dec x : rses_ret_dec N x = x. Proof. reflexivity. Qed.
  (* no conditional, one return: the rotation is performed unconditionally *)
  Lemma K_rses_nif : rses_nif = 0%Z. Proof. reflexivity. Qed.
  Lemma K_rses_nreturn : rses_nreturn = 1%Z. Proof. reflexivity. Qed.

  Lemma rses_R sra sdec tra tdec rra rdec :
    rses N O sra sdec tra tdec rra rdec
    = o_offset_by O sra sdec (o_position_angle O tra tdec rra rdec) (o_separation O tra tdec rra rdec).
  Proof.
    unfold rses. cbv zeta. cbn [fst snd].
    rewrite (K_rses_v_source sra), (K_rses_v_source sdec), (K_rses_v_evt_true tra), (K_rses_v_evt_true tdec),
      (K_rses_v_evt_reco rra), (K_rses_v_evt_reco rdec).
    rewrite (K_rses_pa (o_position_angle O tra tdec rra rdec)), (K_rses_sep (o_separation O tra tdec rra rdec)).
    set (v := o_offset_by O sra sdec _ _).
    rewrite (K_rses_v_rotated (fst v)), (K_rses_v_rotated (snd v)), (K_rses_rot_ra (fst v)), (K_rses_rot_dec (snd v)),
      (K_rses_ret_ra (fst v)), (K_rses_ret_dec (snd v)).
    symmetry. apply surjective_pairing.
  Qed.

  (* contracts; okLat is the set of latitudes for which the offset oracle is exact (all of [-pi/2, pi/2] for an
     ideal oracle; regular branch + exact poles for astropy's formulas, see P_Coords_Astropy.v) *)
  Variable okLat : R -> Prop.
  Hypothesis Hsep : forall l1 b1 l2 b2,
    o_separation O l1 b1 l2 b2 = acos (vdot (dirv l1 b1) (dirv l2 b2)).
  Hypothesis Hoff : forall lon lat pa d,
    okLat lat -> 0 <= d <= PI ->
    dirv (fst (o_offset_by O lon lat pa d)) (snd (o_offset_by O lon lat pa d)) = offset_point lon lat pa d
    /\ 0 <= fst (o_offset_by O lon lat pa d) < 2 * PI
    /\ - (PI / 2) <= snd (o_offset_by O lon lat pa d) <= PI / 2.

  Lemma rses_dirv sra sdec tra tdec rra rdec :
    okLat sdec ->
    dirv (fst (rses N O sra sdec tra tdec rra rdec)) (snd (rses N O sra sdec tra tdec rra rdec))
    = offset_point sra sdec (o_position_angle O tra tdec rra rdec) (acos (vdot (dirv tra tdec) (dirv rra rdec))).
  Proof.
    intros Hs. rewrite rses_R, Hsep. apply Hoff; [exact Hs | apply acos_bound].
  Qed.

  Theorem rses_preserves_sep sra sdec tra tdec rra rdec :
    okLat sdec ->
    angsep N (fst (rses N O sra sdec tra tdec rra rdec)) (snd (rses N O sra sdec tra tdec rra rdec)) sra sdec None
    = angsep N rra rdec tra tdec None.
  Proof.
    intros Hs. rewrite !angsep_angle. unfold angle.
    rewrite (rses_dirv sra sdec tra tdec rra rdec Hs), offset_dot_u.
    rewrite acos_cos by apply acos_bound. rewrite vdot_comm. reflexivity.
  Qed.

  Theorem rses_range sra sdec tra tdec rra rdec :
    okLat sdec ->
    0 <= fst (rses N O sra sdec tra tdec rra rdec) < 2 * PI
    /\ - (PI / 2) <= snd (rses N O sra sdec tra tdec rra rdec) <= PI / 2.
  Proof.
    intros Hs. rewrite rses_R, Hsep. apply Hoff; [exact Hs | apply acos_bound].
  Qed.

  (* with the position-angle contract: the rotated reconstruction has, in the
     source's local (radial, north, east) frame, the coordinates the
     reconstruction has in the true direction's frame: separation AND position
     angle are carried over *)
  Hypothesis Hpa : forall l1 b1 l2 b2,
    sin (acos (vdot (dirv l1 b1) (dirv l2 b2))) * cos (o_position_angle O l1 b1 l2 b2)
      = vdot (dirv l2 b2) (north l1 b1)
    /\ sin (acos (vdot (dirv l1 b1) (dirv l2 b2))) * sin (o_position_angle O l1 b1 l2 b2)
      = vdot (dirv l2 b2) (east l1 b1).

  Theorem rses_frame sra sdec tra tdec rra rdec :
    okLat sdec ->
    let out := rses N O sra sdec tra tdec rra rdec in
    vdot (dirv (fst out) (snd out)) (dirv sra sdec) = vdot (dirv rra rdec) (dirv tra tdec)
    /\ vdot (dirv (fst out) (snd out)) (north sra sdec) = vdot (dirv rra rdec) (north tra tdec)
    /\ vdot (dirv (fst out) (snd out)) (east sra sdec) = vdot (dirv rra rdec) (east tra tdec).
  Proof.
    intros Hs out. unfold out. rewrite (rses_dirv sra sdec tra tdec rra rdec Hs).
    rewrite offset_dot_u, offset_dot_n, offset_dot_e.
    destruct (Hpa tra tdec rra rdec) as [H1 H2].
    split; [|split; assumption].
    rewrite cos_acos by apply dirv_dot_bound. apply vdot_comm.
  Qed.
End Sky.
