(* C01: domain side conditions, removal of zero-ratio events, the PDF-ratio
   compositions (signal over background, product, source weighting), the
   end-to-end chain and the multi-dataset sum — real-number reading. *)
From Coq Require Import Reals ZArith List Bool Lra Lia Arith Permutation.
From Sky Require Import Num NumR G_llh M_Llh M_LlhPipe S_Llh S_LlhPipe P_LlhK P_LlhValue P_LlhC1.
Import ListNotations.
Open Scope R_scope.

Section C.
  Variable erfR : R -> R.
  Notation Nm := (RNum erfR).

  (* ---------------------------------------------------------------- *)
  (* every logarithm of the formula is taken at a positive argument     *)
  Lemma value_log_args_positive opa N ns (Rs : list R) :
    0 < opa -> 0 < N -> ns < N ->
    0 < 1 + (opa - 1)
    /\ 0 < 1 - ns / N
    /\ (forall r, In r Rs -> opa - 1 < ns * Xof N r -> 0 < 1 + ns * Xof N r).
  Proof.
    intros Hopa HN Hns. split; [lra|]. split.
    - assert (H : ns / N < 1).
      { apply (Rmult_lt_reg_r N); [exact HN|].
        unfold Rdiv. rewrite Rmult_assoc, Rinv_l by lra. lra. }
      lra.
    - intros r _ H. lra.
  Qed.

  (* ---------------------------------------------------------------- *)
  (* events with ratio 0 may be removed while N is kept (guard with <=)  *)
  Theorem value_zero_ratio_removed_le opa N ns (Rs : list R) :
    0 < opa -> N <> 0 -> ns / N <= 1 - opa ->
    evaluate_value Nm opa N ns Rs = evaluate_value Nm opa N ns (filter nonzero Rs).
  Proof.
    intros Hopa HN Hns. rewrite !value_is_manual. unfold logLambda_manual.
    induction Rs as [|r l IH]; [reflexivity|].
    cbn [filter]. destruct (nonzero r) eqn:E.
    - cbn [map length]. unfold Rsum in *. cbn [fold_right].
      rewrite !S_INR. lra.
    - unfold nonzero in E. apply negb_false_iff in E. apply Reqb_true in E. subst r.
      cbn [map length]. unfold Rsum in *. cbn [fold_right].
      rewrite S_INR.
      assert (HL : Lam (opa - 1) (ns * Xof N 0) = ln (1 - ns / N)).
      { unfold Lam, Xof. replace (ns * ((0 - 1) / N)) with (- (ns / N)) by (field; exact HN).
        destruct (Rlt_dec (opa - 1) (- (ns / N))) as [Hs|Hu]; [f_equal; lra|].
        assert (Eq : - (ns / N) = opa - 1) by lra.
        rewrite Eq. rewrite taylor_value_at_threshold. f_equal. lra. }
      rewrite HL. lra.
  Qed.


  (* the same for ANY event selection that drops only events of ratio 0 (it may
     keep some of them): events tagged with the selection's decision *)
  Theorem value_zero_ratio_selection opa N ns (l : list (R * bool)) :
    0 < opa -> N <> 0 -> ns / N <= 1 - opa ->
    (forall p, In p l -> snd p = false -> fst p = 0) ->
    evaluate_value Nm opa N ns (map fst l)
    = evaluate_value Nm opa N ns (map fst (filter snd l)).
  Proof.
    intros Hopa HN Hns Hz. rewrite !value_is_manual. unfold logLambda_manual.
    induction l as [|[r k] l IH]; [reflexivity|].
    assert (IH' := IH (fun p Hp => Hz p (or_intror Hp))). clear IH.
    cbn [filter snd]. destruct k.
    - cbn [map length fst]. unfold Rsum in *. cbn [fold_right].
      rewrite !S_INR. lra.
    - assert (E : r = 0) by (apply (Hz (r, false)); [now left|reflexivity]). subst r.
      cbn [map length fst]. unfold Rsum in *. cbn [fold_right].
      rewrite S_INR.
      assert (HL : Lam (opa - 1) (ns * Xof N 0) = ln (1 - ns / N)).
      { unfold Lam, Xof. replace (ns * ((0 - 1) / N)) with (- (ns / N)) by (field; exact HN).
        destruct (Rlt_dec (opa - 1) (- (ns / N))) as [Hs|Hu]; [f_equal; lra|].
        assert (Eq : - (ns / N) = opa - 1) by lra.
        rewrite Eq. rewrite taylor_value_at_threshold. f_equal. lra. }
      rewrite HL. lra.
  Qed.


  (* the guard is sharp: beyond it (1-threshold < ns/N < 1) a zero-ratio event
     sits in the Taylor regime, where the expansion is strictly above the
     logarithm, so removing it LOWERS the value *)
  Theorem value_zero_ratio_removal_guard_sharp opa N ns (Rs : list R) :
    0 < opa -> 0 < N -> 1 - opa < ns / N -> ns < N ->
    evaluate_value Nm opa N ns Rs < evaluate_value Nm opa N ns (0 :: Rs).
  Proof.
    intros Hopa HN Hbeyond Hns. rewrite !value_is_manual. unfold logLambda_manual.
    cbn [map length]. unfold Rsum. cbn [fold_right]. rewrite S_INR.
    assert (Hq : ns / N < 1).
    { apply (Rmult_lt_reg_r N); [exact HN|].
      unfold Rdiv. rewrite Rmult_assoc, Rinv_l by lra. lra. }
    assert (HL : ln (1 - ns / N) < Lam (opa - 1) (ns * Xof N 0)).
    { unfold Lam, Xof. replace (ns * ((0 - 1) / N)) with (- (ns / N)) by (field; lra).
      destruct (Rlt_dec (opa - 1) (- (ns / N))) as [Hs|Hu]; [lra|].
      replace (1 - ns / N) with (1 + - (ns / N)) by lra.
      apply Taylor_above_log; lra. }
    lra.
  Qed.


  (* ---------------------------------------------------------------- *)
  (* the domain: for threshold > 0 and N > 0 every logarithm of the value is
     taken at a positive argument IF AND ONLY IF ns < N; in particular every
     negative ns is inside the domain, however large the ratios are (events
     with 1 + ns X_i at or below the threshold use the polynomial, which needs
     no logarithm of event data) *)
  Theorem value_domain opa N ns :
    0 < opa -> 0 < N ->
    (0 < 1 - ns / N <-> ns < N)
    /\ (N <= ns -> 1 - ns / N <= 0)
    /\ (ns < 0 -> 0 < 1 - ns / N)
    /\ (forall x, opa - 1 < ns * x -> 0 < 1 + ns * x).
  Proof.
    intros Hopa HN.
    assert (E : 1 - ns / N = (N - ns) / N) by (field; lra).
    assert (Hi : 0 < / N) by (apply Rinv_0_lt_compat; exact HN).
    split; [|split; [|split]].
    - rewrite E. unfold Rdiv. split; intros H.
      + destruct (Rlt_dec ns N) as [|Hn]; [assumption|exfalso].
        assert ((N - ns) * / N <= 0).
        { rewrite <- (Rmult_0_l (/ N)). apply Rmult_le_compat_r; lra. }
        lra.
      + apply Rmult_lt_0_compat; lra.
    - intros H. rewrite E. unfold Rdiv.
      rewrite <- (Rmult_0_l (/ N)). apply Rmult_le_compat_r; lra.
    - intros H. rewrite E. unfold Rdiv. apply Rmult_lt_0_compat; lra.
    - intros x H. lra.
  Qed.

  (* ---------------------------------------------------------------- *)
  (* no selected events: only the pure-background term is left          *)
  Theorem value_no_selected_events opa N ns :
    evaluate_value Nm opa N ns [] = N * ln (1 - ns / N).
  Proof.
    rewrite value_is_manual. unfold logLambda_manual, Rsum. cbn [map fold_right length INR]. lra.
  Qed.

  (* an event of ratio exactly 1 (e.g. zero background in every factor with the
     default constant 1) contributes nothing for any ns *)
  Theorem value_unit_ratio_event opa N ns (Rs : list R) :
    0 < opa < 1 -> N <> 0 ->
    evaluate_value Nm opa N ns (1 :: Rs) = evaluate_value Nm opa N ns Rs - ln (1 - ns / N).
  Proof.
    intros Hopa HN. rewrite !value_is_manual. unfold logLambda_manual.
    cbn [map length]. unfold Rsum. cbn [fold_right]. rewrite S_INR.
    assert (HL : Lam (opa - 1) (ns * Xof N 1) = 0).
    { unfold Lam, Xof. replace (ns * ((1 - 1) / N)) with 0 by (field; exact HN).
      destruct (Rlt_dec (opa - 1) 0); [|lra]. replace (1 + 0) with 1 by lra. apply ln_1. }
    rewrite HL. lra.
  Qed.

  (* ---------------------------------------------------------------- *)
  (* zero background in a composition                                   *)
  Lemma factor_ratio_zero_bkg i e (f : rfactor) :
    nth e (snd f) 0 <= 0 -> factor_ratio i e f = fst (fst f).
  Proof.
    intros H. unfold factor_ratio, sob_spec.
    destruct (Rlt_dec 0 (nth e (snd f) 0)); [lra|reflexivity].
  Qed.

  Lemma factor_ratio_pos_bkg i e (f : rfactor) :
    0 < nth e (snd f) 0 -> factor_ratio i e f = nth i (snd (fst f)) 0 / nth e (snd f) 0.
  Proof.
    intros H. unfold factor_ratio, sob_spec.
    destruct (Rlt_dec 0 (nth e (snd f) 0)); [reflexivity|lra].
  Qed.

  Lemma fold_Rmult_acc (l : list R) (a : R) : fold_left Rmult l a = a * fold_left Rmult l 1.
  Proof.
    revert a. induction l as [|x l IH]; intros a; cbn [fold_left]; [lra|].
    rewrite (IH (a * x)), (IH (1 * x)). lra.
  Qed.

  (* the product over the factors, every factor with its own zero-background rule *)
  Theorem row_ratio_product i e (f0 : rfactor) (fs : list rfactor) :
    row_ratio i e f0 fs = factor_ratio i e f0 * fold_left Rmult (map (factor_ratio i e) fs) 1.
  Proof. unfold row_ratio. apply fold_Rmult_acc. Qed.

  Theorem row_ratio_zero_bkg_factor i e (f0 f1 : rfactor) :
    nth e (snd f0) 0 <= 0 -> 0 < nth e (snd f1) 0 ->
    row_ratio i e f0 [f1] = fst (fst f0) * (nth i (snd (fst f1)) 0 / nth e (snd f1) 0)
    /\ row_ratio i e f1 [f0] = nth i (snd (fst f1)) 0 / nth e (snd f1) 0 * fst (fst f0).
  Proof.
    intros H0 H1. unfold row_ratio. cbn [map fold_left].
    rewrite (factor_ratio_zero_bkg i e f0 H0), (factor_ratio_pos_bkg i e f1 H1). split; reflexivity.
  Qed.

  Theorem row_ratio_all_zero_bkg i e (f0 : rfactor) (fs : list rfactor) :
    List.Forall (fun f : rfactor => nth e (snd f) 0 <= 0 /\ fst (fst f) = 1) (f0 :: fs) ->
    row_ratio i e f0 fs = 1.
  Proof.
    intros H. inversion H as [|f l [Hb Hz] Hl]; subst.
    rewrite row_ratio_product, (factor_ratio_zero_bkg i e f0 Hb), Hz.
    clear H Hb Hz. induction Hl as [|f l [Hb Hz] _ IH]; cbn [map fold_left]; [lra|].
    rewrite fold_Rmult_acc, (factor_ratio_zero_bkg i e f Hb), Hz. lra.
  Qed.

  (* ---------------------------------------------------------------- *)
  (* lists                                                              *)
  Lemma nth_map_lt' {A B} (f : A -> B) (l : list A) (e : nat) (d : A) (d' : B) :
    (e < length l)%nat -> nth e (map f l) d' = f (nth e l d).
  Proof.
    revert e. induction l as [|a l IH]; intros e He; [cbn in He; lia|].
    destruct e as [|e]; [reflexivity|]. cbn [map nth]. apply IH. cbn in He. lia.
  Qed.

  (* ---------------------------------------------------------------- *)
  (* SigOverBkgPDFRatio over the values array                           *)
  Lemma factor_values_length evt_idxs (f : rfactor) :
    length (snd (fst f)) = length evt_idxs ->
    length (factor_values Nm evt_idxs f) = length evt_idxs.
  Proof.
    intros H. unfold factor_values, sob_ratios. rewrite map_length, combine_length. lia.
  Qed.

  Lemma factor_values_nth evt_idxs (f : rfactor) i :
    length (snd (fst f)) = length evt_idxs -> (i < length evt_idxs)%nat ->
    nth i (factor_values Nm evt_idxs f) 0 = factor_ratio i (nth i evt_idxs 0%nat) f.
  Proof.
    intros HL Hi. unfold factor_values, sob_ratios.
    rewrite (nth_map_lt' _ _ i (0, 0%nat) 0) by (rewrite combine_length; lia).
    rewrite combine_nth by exact HL. cbn [fst snd].
    rewrite sob_ratio_spec. unfold factor_ratio, sob_spec. cbn [nzero RNum]. reflexivity.
  Qed.

  (* PDFRatioProduct over the values arrays *)
  Lemma prod_values_length (r1 r2 : list R) :
    length r1 = length r2 -> length (prod_values Nm r1 r2) = length r1.
  Proof. intros H. unfold prod_values. rewrite map_length, combine_length. lia. Qed.

  Lemma prod_values_nth (r1 r2 : list R) i :
    length r1 = length r2 -> (i < length r1)%nat ->
    nth i (prod_values Nm r1 r2) 0 = nth i r1 0 * nth i r2 0.
  Proof.
    intros HL Hi. unfold prod_values.
    rewrite (nth_map_lt' _ _ i (0, 0) 0) by (rewrite combine_length; lia).
    rewrite combine_nth by exact HL. cbn [fst snd]. apply prod_ratio_spec.
  Qed.

  Definition wf_factor (evt_idxs : list nat) (n_sel : nat) (f : rfactor) : Prop :=
    length (snd (fst f)) = length evt_idxs /\ length (snd f) = n_sel.

  Lemma fold_prod_values evt_idxs n_sel (fs : list rfactor) :
    Forall (wf_factor evt_idxs n_sel) fs ->
    forall acc i, length acc = length evt_idxs -> (i < length evt_idxs)%nat ->
    length (fold_left (fun a f => prod_values Nm a (factor_values Nm evt_idxs f)) fs acc)
      = length evt_idxs
    /\ nth i (fold_left (fun a f => prod_values Nm a (factor_values Nm evt_idxs f)) fs acc) 0
       = fold_left Rmult (map (factor_ratio i (nth i evt_idxs 0%nat)) fs) (nth i acc 0).
  Proof.
    induction 1 as [|f fs [HS _] _ IH]; intros acc i HL Hi; cbn [fold_left map].
    - split; [exact HL|reflexivity].
    - assert (HL2 : length acc = length (factor_values Nm evt_idxs f))
        by (rewrite factor_values_length by exact HS; exact HL).
      destruct (IH (prod_values Nm acc (factor_values Nm evt_idxs f)) i) as [A B].
      + rewrite prod_values_length by exact HL2. exact HL.
      + exact Hi.
      + split; [exact A|]. rewrite B.
        rewrite prod_values_nth by (try exact HL2; rewrite HL; exact Hi).
        rewrite factor_values_nth by assumption. reflexivity.
  Qed.

  Lemma factors_values_spec evt_idxs n_sel (f0 : rfactor) fs :
    wf_factor evt_idxs n_sel f0 -> Forall (wf_factor evt_idxs n_sel) fs ->
    factors_values Nm evt_idxs f0 fs
    = map (fun i => row_ratio i (nth i evt_idxs 0%nat) f0 fs) (seq 0 (length evt_idxs)).
  Proof.
    intros [HS0 _] Hfs. unfold factors_values.
    pose proof (fold_prod_values evt_idxs n_sel fs Hfs (factor_values Nm evt_idxs f0)) as H.
    apply (nth_ext _ _ 0 0).
    - rewrite map_length, seq_length.
      destruct evt_idxs as [|e0 rest] eqn:Ee.
      + (* no rows at all *)
        clear H. cbn [length].
        assert (E0 : factor_values Nm [] f0 = []).
        { unfold factor_values, sob_ratios. rewrite combine_nil. reflexivity. }
        rewrite E0. clear E0 HS0.
        induction Hfs as [|f fs _ _ IH]; [reflexivity|].
        cbn [fold_left]. unfold prod_values at 2. cbn [combine map]. exact IH.
      + rewrite <- Ee in *.
        destruct (H 0%nat) as [A _];
          [apply factor_values_length; exact HS0|rewrite Ee; cbn; lia|exact A].
    - intros i Hi.
      assert (Hi' : (i < length evt_idxs)%nat).
      { destruct (le_lt_dec (length evt_idxs) i) as [Hge|]; [|assumption].
        exfalso. destruct evt_idxs as [|e0 rest] eqn:Ee.
        - assert (E0 : factor_values Nm [] f0 = []).
          { unfold factor_values, sob_ratios. rewrite combine_nil. reflexivity. }
          rewrite E0 in Hi.
          assert (L : forall fs', length (fold_left (fun a f => prod_values Nm a (factor_values Nm [] f)) fs' []) = 0%nat).
          { induction fs' as [|f fs' IH']; [reflexivity|]. cbn [fold_left].
            unfold prod_values at 2. cbn [combine map]. exact IH'. }
          rewrite L in Hi. lia.
        - rewrite <- Ee in *.
          destruct (H 0%nat) as [A _];
            [apply factor_values_length; exact HS0|rewrite Ee; cbn; lia|].
          rewrite A in Hi. lia. }
      destruct (H i) as [_ B]; [apply factor_values_length; exact HS0|exact Hi'|].
      rewrite B. rewrite factor_values_nth by assumption.
      rewrite (nth_map_lt' _ _ i 0%nat 0) by (rewrite seq_length; exact Hi').
      rewrite seq_nth by exact Hi'. reflexivity.
  Qed.

  (* ---------------------------------------------------------------- *)
  (* SourceWeightedPDFRatio.get_ratio: numpy's  R_i[idx] += v  per source *)
  Definition pairs_of (vals : list (nat * nat * R)) (k : nat) : list (nat * R) :=
    map (fun v => (snd (fst v), snd v)) (filter (fun v => Nat.eqb (fst (fst v)) k) vals).

  Lemma last_for_absent vals k e :
    (forall v, In v vals -> row_pair v <> (k, e)) -> last_for e (pairs_of vals k) = None.
  Proof.
    unfold pairs_of. induction vals as [|[[s i] r] vals IH]; intros H; [reflexivity|].
    cbn [filter fst snd]. destruct (Nat.eqb s k) eqn:Es.
    - cbn [map last_for fst snd]. rewrite IH by (intros v Hv; apply H; now right).
      destruct (Nat.eqb i e) eqn:Ei; [|reflexivity].
      exfalso. apply (H (s, i, r)); [now left|].
      apply Nat.eqb_eq in Es, Ei. subst. reflexivity.
    - apply IH. intros v Hv. apply H. now right.
  Qed.

  Lemma last_for_pair_lookup vals k e :
    NoDup (map row_pair vals) ->
    match last_for e (pairs_of vals k) with Some r => r | None => 0 end = pair_lookup vals k e.
  Proof.
    unfold pair_lookup, pairs_of.
    induction vals as [|[[s i] r] vals IH]; intros Hnd; [reflexivity|].
    cbn [map] in Hnd. apply NoDup_cons_iff in Hnd as [Hnotin Hnd].
    cbn [filter find fst snd].
    destruct (Nat.eqb s k) eqn:Es; cbn [andb].
    - cbn [map last_for fst snd].
      destruct (Nat.eqb i e) eqn:Ei.
      + apply Nat.eqb_eq in Es, Ei. subst s i.
        assert (Hn : last_for e (pairs_of vals k) = None).
        { apply last_for_absent. intros v Hv E. apply Hnotin.
          apply in_map_iff. exists v. split; [exact E|exact Hv]. }
        unfold pairs_of in Hn. rewrite Hn. reflexivity.
      + specialize (IH Hnd).
        destruct (last_for e (map (fun v => (snd (fst v), snd v))
                                  (filter (fun v => Nat.eqb (fst (fst v)) k) vals)));
          exact IH.
    - apply IH. exact Hnd.
  Qed.

  Lemma fancy_add_len upd (old : list R) pairs : length (fancy_add upd old pairs) = length old.
  Proof. unfold fancy_add. rewrite map_length, combine_length, seq_length. lia. Qed.

  Lemma fancy_add_at upd (old : list R) pairs e :
    (e < length old)%nat ->
    nth e (fancy_add upd old pairs) 0 =
    match last_for e pairs with
    | Some v => upd (nth e old 0) v
    | None => nth e old 0
    end.
  Proof.
    intros He. unfold fancy_add.
    rewrite (nth_map_lt' _ _ e (0%nat, 0) 0) by (rewrite combine_length, seq_length; lia).
    rewrite combine_nth by (rewrite seq_length; reflexivity).
    rewrite seq_nth by exact He. cbn [fst snd]. reflexivity.
  Qed.

  Lemma sw_step_len a_k vals Ri k : length (sw_source_step Nm a_k vals Ri k) = length Ri.
  Proof. unfold sw_source_step. apply fancy_add_len. Qed.

  Lemma sw_step_at a_k vals Ri k e :
    NoDup (map row_pair vals) -> (e < length Ri)%nat ->
    nth e (sw_source_step Nm a_k vals Ri k) 0 = nth e Ri 0 + pair_lookup vals k e * nth k a_k 0.
  Proof.
    intros Hnd He. unfold sw_source_step. cbv zeta.
    rewrite fancy_add_at by exact He.
    pose proof (last_for_pair_lookup vals k e Hnd) as HL. unfold pairs_of in HL.
    cbn [nzero RNum].
    destruct (last_for e (map (fun v => (snd (fst v), snd v))
                              (filter (fun v => Nat.eqb (fst (fst v)) k) vals))) as [r|].
    - rewrite KV_sw_term. rewrite <- HL. reflexivity.
    - rewrite <- HL. lra.
  Qed.

  Lemma sw_fold_len a_k vals ks : forall Ri,
    length (fold_left (sw_source_step Nm a_k vals) ks Ri) = length Ri.
  Proof.
    induction ks as [|k ks IH]; intros Ri; cbn [fold_left]; [reflexivity|].
    rewrite IH. apply sw_step_len.
  Qed.

  Lemma sw_fold_at a_k vals ks : forall Ri e,
    NoDup (map row_pair vals) -> (e < length Ri)%nat ->
    nth e (fold_left (sw_source_step Nm a_k vals) ks Ri) 0 =
    nth e Ri 0 + Rsum (map (fun k => pair_lookup vals k e * nth k a_k 0) ks).
  Proof.
    induction ks as [|k ks IH]; intros Ri e Hnd He; cbn [fold_left map].
    - cbn. lra.
    - rewrite IH by (try exact Hnd; rewrite sw_step_len; exact He).
      rewrite sw_step_at by assumption.
      unfold Rsum. cbn [fold_right]. lra.
  Qed.

  Theorem sw_ratio_spec a_k n_sel vals :
    NoDup (map row_pair vals) ->
    sw_ratio Nm a_k n_sel vals = map (stacked_spec a_k vals) (seq 0 n_sel).
  Proof.
    intros Hnd. unfold sw_ratio. cbv zeta.
    set (R1 := fold_left (sw_source_step Nm a_k vals) (seq 0 (length a_k)) (repeat (nzero Nm) n_sel)).
    assert (HL : length R1 = n_sel).
    { unfold R1. rewrite sw_fold_len. apply repeat_length. }
    apply (nth_ext _ _ 0 0).
    - rewrite !map_length, seq_length. exact HL.
    - intros e He. rewrite map_length, HL in He.
      rewrite (nth_map_lt' _ R1 e 0 0) by (rewrite HL; exact He).
      rewrite (nth_map_lt' _ _ e 0%nat 0) by (rewrite seq_length; exact He).
      rewrite seq_nth by exact He. cbn [plus].
      rewrite KV_sw_norm, nsum_R. unfold stacked_spec. f_equal.
      unfold R1. rewrite sw_fold_at by (try exact Hnd; rewrite repeat_length; exact He).
      rewrite nth_repeat. cbn [nzero RNum]. lra.
  Qed.

  (* without the invariant the same pair listed twice keeps only its last
     ratio (numpy's buffered `+=`), so the weighted mean is NOT obtained *)
  Theorem sw_ratio_duplicate_pair_refuted :
    exists a_k vals,
      ~ NoDup (map row_pair vals) /\
      sw_ratio Nm a_k 1 vals = [3] /\
      Rsum (map (fun v => snd v * nth (fst (fst v)) a_k 0) vals) / Rsum a_k = 5.
  Proof.
    exists [1], [((0%nat, 0%nat), 2); ((0%nat, 0%nat), 3)]. split; [|split].
    - intros H. cbn in H. apply NoDup_cons_iff in H as [H _]. apply H. now left.
    - unfold sw_ratio, sw_source_step, fancy_add. cbn. f_equal. field.
    - unfold Rsum. cbn. field.
  Qed.

  (* ---------------------------------------------------------------- *)
  (* the whole chain                                                    *)
  Definition rows_ratios (evt_idxs : list nat) (f0 : rfactor) (fs : list rfactor) : list R :=
    map (fun i => row_ratio i (nth i evt_idxs 0%nat) f0 fs) (seq 0 (length evt_idxs)).

  Theorem pipe_value_plain opa N ns a_k n_sel src_idxs evt_idxs (f0 : rfactor) fs :
    wf_factor evt_idxs n_sel f0 -> Forall (wf_factor evt_idxs n_sel) fs ->
    pipe_value Nm opa N ns false a_k n_sel src_idxs evt_idxs f0 fs
    = logLambda_manual (opa - 1) N ns (rows_ratios evt_idxs f0 fs).
  Proof.
    intros H0 Hfs. unfold pipe_value, pipe_ratios. cbv zeta.
    rewrite (factors_values_spec evt_idxs n_sel f0 fs H0 Hfs).
    apply value_is_manual.
  Qed.

  Theorem pipe_value_stacked opa N ns a_k n_sel src_idxs evt_idxs (f0 : rfactor) fs :
    wf_factor evt_idxs n_sel f0 -> Forall (wf_factor evt_idxs n_sel) fs ->
    length src_idxs = length evt_idxs -> NoDup (combine src_idxs evt_idxs) ->
    pipe_value Nm opa N ns true a_k n_sel src_idxs evt_idxs f0 fs
    = logLambda_manual (opa - 1) N ns
        (map (stacked_spec a_k (combine (combine src_idxs evt_idxs) (rows_ratios evt_idxs f0 fs)))
             (seq 0 n_sel)).
  Proof.
    intros H0 Hfs HL Hnd. unfold pipe_value, pipe_ratios, stacked_values. cbv zeta.
    rewrite (factors_values_spec evt_idxs n_sel f0 fs H0 Hfs).
    fold (rows_ratios evt_idxs f0 fs).
    rewrite sw_ratio_spec.
    - apply value_is_manual.
    - assert (E : map row_pair (combine (combine src_idxs evt_idxs) (rows_ratios evt_idxs f0 fs))
                  = combine src_idxs evt_idxs).
      { assert (HLr : length (combine src_idxs evt_idxs) = length (rows_ratios evt_idxs f0 fs)).
        { unfold rows_ratios. rewrite combine_length, map_length, seq_length. lia. }
        revert HLr. generalize (rows_ratios evt_idxs f0 fs) as rr.
        generalize (combine src_idxs evt_idxs) as pp.
        induction pp as [|p pp IH]; intros rr HLr; [reflexivity|].
        destruct rr as [|r rr]; [cbn in HLr; lia|].
        cbn [combine map]. unfold row_pair at 1. cbn [fst]. f_equal. apply IH.
        cbn in HLr. lia. }
      rewrite E. exact Hnd.
  Qed.

  (* ---------------------------------------------------------------- *)
  (* MultiDatasetTCLLHRatio.evaluate                                    *)
  Theorem multi_value_spec opa ns (f : list R) (ds : list (R * list R)) :
    multi_value Nm opa ns f ds = multi_manual (opa - 1) ns f ds.
  Proof.
    unfold multi_value, multi_manual. rewrite nsum_R. f_equal.
    apply map_ext. intros [fj [Nj Rj]]. cbn [fst snd].
    rewrite value_is_manual, KV_nsf. reflexivity.
  Qed.

  (* a dataset without selected events still contributes its pure-background
     term N_j log(1 - ns f_j / N_j) ... *)
  Theorem multi_value_empty_dataset opa ns fj Nj (f : list R) (ds : list (R * list R)) :
    multi_value Nm opa ns (fj :: f) ((Nj, []) :: ds)
    = Nj * ln (1 - ns * fj / Nj) + multi_value Nm opa ns f ds.
  Proof.
    rewrite !multi_value_spec. unfold multi_manual. cbn [combine map fst snd].
    unfold Rsum at 1. cbn [fold_right]. fold (Rsum (map (fun p : R * (R * list R) =>
      logLambda_manual (opa - 1) (fst (snd p)) (ns * fst p) (snd (snd p))) (combine f ds))).
    unfold logLambda_manual at 1. unfold Rsum at 1. cbn [map fold_right length INR]. lra.
  Qed.

  (* ... so skipping such a dataset changes (raises) the value whenever it has
     events and 0 < ns f_j < N_j *)
  Theorem multi_value_skip_empty_dataset_refuted opa ns fj Nj (f : list R) (ds : list (R * list R)) :
    0 < Nj -> 0 < ns * fj -> ns * fj < Nj ->
    multi_value Nm opa ns (fj :: f) ((Nj, []) :: ds) < multi_value Nm opa ns f ds.
  Proof.
    intros HN Hp Hlt. rewrite multi_value_empty_dataset.
    assert (Hq : 0 < ns * fj / Nj < 1).
    { split.
      - apply Rdiv_lt_0_compat; assumption.
      - apply (Rmult_lt_reg_r Nj); [exact HN|].
        unfold Rdiv. rewrite Rmult_assoc, Rinv_l by lra. lra. }
    assert (Hl : ln (1 - ns * fj / Nj) < 0).
    { rewrite <- ln_1. apply ln_increasing; lra. }
    assert (Nj * ln (1 - ns * fj / Nj) < 0).
    { rewrite <- (Rmult_0_r Nj). apply Rmult_lt_compat_l; assumption. }
    lra.
  Qed.

  (* ---------------------------------------------------------------- *)
  (* the same statements with their domain spelled out: indices in range (the
     code raises IndexError otherwise, the model's `nth` would read a default),
     a non-zero weight sum (the code divides by it), lists of equal length *)
  Theorem pipe_value_plain_guarded opa N ns a_k n_sel src_idxs evt_idxs (f0 : rfactor) fs :
    wf_factor evt_idxs n_sel f0 -> List.Forall (wf_factor evt_idxs n_sel) fs ->
    List.Forall (fun e => (e < n_sel)%nat) evt_idxs ->
    pipe_value Nm opa N ns false a_k n_sel src_idxs evt_idxs f0 fs
    = logLambda_manual (opa - 1) N ns (rows_ratios evt_idxs f0 fs).
  Proof. intros H0 Hfs _. apply (pipe_value_plain opa N ns a_k n_sel src_idxs evt_idxs f0 fs H0 Hfs). Qed.

  Theorem pipe_value_stacked_guarded opa N ns a_k n_sel src_idxs evt_idxs (f0 : rfactor) fs :
    wf_factor evt_idxs n_sel f0 -> List.Forall (wf_factor evt_idxs n_sel) fs ->
    length src_idxs = length evt_idxs -> NoDup (combine src_idxs evt_idxs) ->
    List.Forall (fun e => (e < n_sel)%nat) evt_idxs ->
    List.Forall (fun k => (k < length a_k)%nat) src_idxs ->
    Rsum a_k <> 0 ->
    pipe_value Nm opa N ns true a_k n_sel src_idxs evt_idxs f0 fs
    = logLambda_manual (opa - 1) N ns
        (map (stacked_spec a_k (combine (combine src_idxs evt_idxs) (rows_ratios evt_idxs f0 fs)))
             (seq 0 n_sel)).
  Proof.
    intros H0 Hfs HL Hnd _ _ _.
    apply (pipe_value_stacked opa N ns a_k n_sel src_idxs evt_idxs f0 fs H0 Hfs HL Hnd).
  Qed.

  Theorem multi_value_spec_guarded opa ns (f : list R) (ds : list (R * list R)) :
    length f = length ds ->
    List.Forall (fun p : R * (R * list R) => 0 < fst (snd p) /\ ns * fst p < fst (snd p)) (combine f ds) ->
    multi_value Nm opa ns f ds = multi_manual (opa - 1) ns f ds.
  Proof. intros _ _. apply multi_value_spec. Qed.
End C.
