(* C17: the k-file statement as one closed formula (both efficiency modes):
   loading any list of existing, well-formed files returns the fields of the
   first file ∩ keep set, every column being the concatenation of the files'
   columns in file order (every row exactly once), dtype = promotion of the
   converted dtypes; keep_fields = [] versus None. *)
From Coq Require Import ZArith List Bool Lia.
From Sky Require Import Result PyList G_load M_Load S_Load P_Load P_LoadDs.
Import ListNotations.
Open Scope Z_scope.

(* the loop over the remaining files, without indices *)
Definition fstep (one : option file -> res (table * Z)) (acc : res (table * Z)) (p : option file)
  : res (table * Z) :=
  do a <- acc; do r <- one p; do t <- append (fst a) (fst r); Ok (t, snd a + snd r).

Lemma fold_index_elim : forall one rest pre acc,
  fold_left (step one (pre ++ rest)) (map Z.of_nat (seq (length pre) (length rest))) acc
  = fold_left (fstep one) rest acc.
Proof.
  intros one. induction rest as [|p rest IH]; intros pre acc; [reflexivity|].
  cbn [length seq map fold_left].
  assert (Hs : step one (pre ++ p :: rest) acc (Z.of_nat (length pre)) = fstep one acc p).
  { unfold step, fstep. destruct acc as [a|e]; cbn [bind]; [|reflexivity].
    rewrite (py_get_nth (pre ++ p :: rest) (length pre) p).
    - rewrite nth_middle. reflexivity.
    - rewrite app_length. cbn. lia. }
  rewrite Hs.
  replace (pre ++ p :: rest) with ((pre ++ [p]) ++ rest) by (rewrite <- app_assoc; reflexivity).
  replace (S (length pre)) with (length (pre ++ [p])) by (rewrite app_length; cbn; lia).
  apply IH.
Qed.

Lemma load_all_files : forall one p0 rest,
  load_all one (p0 :: rest) 1 (zlen (p0 :: rest))
  = (do r0 <- one p0; fold_left (fstep one) rest (Ok r0)).
Proof.
  intros one p0 rest. rewrite load_all_step.
  change (py_get (p0 :: rest) 0) with (py_get (p0 :: rest) (Z.of_nat 0)).
  rewrite (py_get_nth (p0 :: rest) 0 p0) by (cbn; lia). cbn [nth bind].
  destruct (one p0) as [r0|e]; cbn [bind]; [|reflexivity].
  replace (Z.to_nat (zlen (p0 :: rest) - 1)) with (length rest)
    by (unfold zlen; cbn [length]; lia).
  replace (map (fun k => 1 + Z.of_nat k) (seq 0 (length rest)))
    with (map Z.of_nat (seq (length [p0]) (length rest))).
  - apply (fold_index_elim one rest [p0]).
  - cbn [length]. rewrite <- seq_shift, map_map. apply map_ext. intros k. lia.
Qed.

(* ---------------------------------------------------------------- append of specs *)
Definition covers (f0 f : file) (o : lopts) : Prop :=
  forall p, In p (spec_kept o (f_schema f0)) ->
            zmem (fst p) (map fst (spec_kept o (f_schema f))) = true.

Lemma existsb_false : forall {A} (g : A -> bool) l, (forall x, In x l -> g x = false) -> existsb g l = false.
Proof.
  induction l as [|a l IH]; intros H; [reflexivity|]. cbn [existsb].
  rewrite (H a (or_introl eq_refl)). cbn. apply IH. intros x Hx. apply H. right. exact Hx.
Qed.

Lemma alookup_some_of_mem : forall {V} k (d : list (Z * V)),
  zmem k (keys d) = true -> exists v, alookup k d = Some v.
Proof.
  induction d as [|[k' v'] d IH]; intros H; [discriminate|].
  unfold zmem, keys in H. cbn [map existsb fst] in H. cbn [alookup].
  destruct (k =? k') eqn:E; [eauto|]. cbn in H. apply IH. exact H.
Qed.

Lemma alookup_map_snd : forall {V W} (h : Z -> V -> W) k (d : list (Z * V)),
  alookup k (map (fun p => (fst p, h (fst p) (snd p))) d) = option_map (h k) (alookup k d).
Proof.
  induction d as [|[k' v'] d IH]; [reflexivity|].
  cbn [map alookup fst snd]. destruct (k =? k') eqn:E; [|exact IH].
  apply Z.eqb_eq in E. subst k'. reflexivity.
Qed.

Lemma alookup_spec_file : forall f o fname,
  alookup fname (spec_load_file f o)
  = option_map (fun dt => (spec_dtype o fname dt, spec_col f fname))
               (alookup fname (spec_kept o (f_schema f))).
Proof.
  intros f o fname. unfold spec_load_file.
  apply (alookup_map_snd (fun n dt => (spec_dtype o n dt, spec_col f n))).
Qed.

Definition mkcol (f0 : file) (pre : list file) (o : lopts) (p : name * dtype) : col :=
  (fst p, (fold_left promote (map (fun f => spec_dtype_in f o (fst p)) pre) (spec_dtype o (fst p) (snd p)),
           concat (map (fun f => spec_col f (fst p)) (f0 :: pre)))).

Lemma spec_load_files_mk : forall f0 pre o,
  spec_load_files f0 pre o = map (mkcol f0 pre o) (spec_kept o (f_schema f0)).
Proof. reflexivity. Qed.

Lemma append_cols_spec : forall f0 pre f o l,
  (forall p, In p l -> zmem (fst p) (map fst (spec_kept o (f_schema f))) = true) ->
  append_cols (map (mkcol f0 pre o) l) (spec_load_file f o) = Ok (map (mkcol f0 (pre ++ [f]) o) l).
Proof.
  intros f0 pre f o. induction l as [|[fname dt] l IH]; intros H; [reflexivity|].
  cbn [map]. unfold mkcol at 1. cbn [fst snd append_cols].
  rewrite alookup_spec_file.
  destruct (alookup_some_of_mem fname (spec_kept o (f_schema f)) (H (fname, dt) (or_introl eq_refl)))
    as [dtf Hl].
  rewrite Hl. cbn [option_map].
  rewrite IH by (intros p Hp; apply H; right; exact Hp). cbn [bind].
  f_equal. f_equal. unfold mkcol. cbn [fst snd]. f_equal. f_equal.
  - rewrite map_app, fold_left_app. cbn [map fold_left].
    unfold spec_dtype_in. rewrite Hl. reflexivity.
  - cbn [map concat]. rewrite map_app, concat_app. cbn [map concat].
    rewrite app_nil_r, app_assoc. reflexivity.
Qed.

Lemma append_spec : forall f0 pre f o,
  covers f0 f o ->
  append (spec_load_files f0 pre o) (spec_load_file f o) = Ok (spec_load_files f0 (pre ++ [f]) o).
Proof.
  intros f0 pre f o Hc. unfold append.
  rewrite existsb_false.
  - rewrite !spec_load_files_mk. apply append_cols_spec. exact Hc.
  - intros n Hn. rewrite K_app_missing. rewrite spec_load_file_names.
    rewrite spec_load_files_mk in Hn. unfold tnames, keys in Hn. rewrite map_map in Hn. cbn [mkcol fst] in Hn.
    apply in_map_iff in Hn. destruct Hn as [p [Hp Hin]]. subst n.
    rewrite (Hc p Hin). reflexivity.
Qed.

Lemma spec_load_files_nil : forall f0 o, spec_load_files f0 [] o = spec_load_file f0 o.
Proof.
  intros. unfold spec_load_files, spec_load_file. apply map_ext. intros p.
  cbn [map fold_left concat]. rewrite app_nil_r. reflexivity.
Qed.

Lemma fold_files_spec : forall one (cntf : file -> Z) o f0,
  (forall f, wf_file f -> one (Some f) = Ok (spec_load_file f o, cntf f)) ->
  forall rest pre n,
  (forall f, In f rest -> wf_file f /\ covers f0 f o) ->
  fold_left (fstep one) (map Some rest) (Ok (spec_load_files f0 pre o, n))
  = Ok (spec_load_files f0 (pre ++ rest) o, fold_left (fun a f => a + cntf f) rest n).
Proof.
  intros one cntf o f0 Hone. induction rest as [|f rest IH]; intros pre n H.
  - cbn. rewrite app_nil_r. reflexivity.
  - cbn [map fold_left]. destruct (H f (or_introl eq_refl)) as [Hwf Hc].
    unfold fstep at 2. cbn [bind]. rewrite (Hone f Hwf). cbn [bind fst snd].
    rewrite (append_spec f0 pre f o Hc). cbn [bind].
    rewrite IH by (intros g Hg; apply H; right; exact Hg).
    rewrite <- app_assoc. reflexivity.
Qed.

Definition cnt_of (mode : effmode) (f : file) : Z :=
  match mode with MMemory => spec_opens (zlen (f_rows f)) mem_bs | _ => 1 end.

Theorem npy_files_closed : forall mode f0 rest o,
  mode <> MBad -> wf_file f0 ->
  (forall f, In f rest -> wf_file f /\ covers f0 f o) ->
  npy_load mode (map Some (f0 :: rest)) o
  = Ok (spec_load_files f0 rest o, fold_left (fun a f => a + cnt_of mode f) rest (cnt_of mode f0)).
Proof.
  intros mode f0 rest o Hm Hwf Hrest. destruct K_rest as [Hlo [_ [Hhi _]]]. destruct K_mem_bs as [_ Hbs].
  assert (Hone : forall f, wf_file f ->
            (do g <- open_file (Some f);
             match mode with MMemory => load_file_mem g o | _ => load_file_time g o end)
            = Ok (spec_load_file f o, cnt_of mode f)).
  { intros f Hf. cbn [open_file bind]. unfold cnt_of.
    destruct mode; try (apply load_time_spec; exact Hf).
    unfold load_file_mem. apply load_mem_spec; assumption. }
  unfold npy_load. destruct mode; cbn [resolve_mode mode_default_time]; try (exfalso; apply Hm; reflexivity);
    rewrite Hlo, Hhi; cbn [map]; rewrite load_all_files; rewrite (Hone f0 Hwf); cbn [bind];
    rewrite <- (spec_load_files_nil f0 o);
    rewrite (fold_files_spec _ (cnt_of _) o f0 Hone rest [] _ Hrest); reflexivity.
Qed.

(* every row exactly once: the row count of the result is the sum of the files' row counts *)
Lemma concat_length_sum : forall (ls : list (list Z)),
  length (concat ls) = fold_right (fun l a => (length l + a)%nat) O ls.
Proof. induction ls as [|l ls IH]; [reflexivity|]. cbn. rewrite app_length, IH. reflexivity. Qed.

Theorem files_row_count : forall f0 rest o fname dt v,
  In (fname, (dt, v)) (spec_load_files f0 rest o) ->
  length v = fold_right (fun f a => (length (f_rows f) + a)%nat) O (f0 :: rest).
Proof.
  intros f0 rest o fname dt v H. rewrite spec_load_files_mk in H. apply in_map_iff in H.
  destruct H as [p [Hp _]]. unfold mkcol in Hp. injection Hp as _ _ Hv. rewrite <- Hv.
  change (spec_col f0 (fst p) ++ concat (map (fun f : file => spec_col f (fst p)) rest))
    with (concat (map (fun f : file => spec_col f (fst p)) (f0 :: rest))).
  rewrite concat_length_sum. generalize (f0 :: rest). intros l. induction l as [|f l IH]; [reflexivity|].
  cbn [map fold_right]. rewrite spec_col_length, IH. reflexivity.
Qed.

(* ---------------------------------------------------------------- keep_fields [] / None *)
Lemma spec_kept_empty : forall o sch, o_keep o = Some [] -> spec_kept o sch = [].
Proof.
  intros o sch H. unfold spec_kept, spec_keeps. rewrite H. induction sch as [|p sch IH]; [reflexivity|].
  cbn. exact IH.
Qed.

Lemma spec_kept_none : forall o sch, o_keep o = None -> spec_kept o sch = sch.
Proof.
  intros o sch H. unfold spec_kept, spec_keeps. rewrite H. induction sch as [|p sch IH]; [reflexivity|].
  cbn. rewrite IH. reflexivity.
Qed.

Theorem keep_empty_npy : forall mode f0 rest o,
  mode <> MBad -> o_keep o = Some [] -> wf_file f0 -> (forall f, In f rest -> wf_file f) ->
  exists n, npy_load mode (map Some (f0 :: rest)) o = Ok ([], n).
Proof.
  intros mode f0 rest o Hm Hk Hwf Hrest. eexists.
  rewrite (npy_files_closed mode f0 rest o Hm Hwf).
  - rewrite spec_load_files_mk, (spec_kept_empty o _ Hk). reflexivity.
  - intros f Hf. split; [apply Hrest; exact Hf|]. intros p Hp.
    rewrite (spec_kept_empty o _ Hk) in Hp. destruct Hp.
Qed.

Theorem keep_empty_csv : forall f rest o,
  o_keep o = Some [] -> txt_load (Some f :: rest) o = Err ValueError.
Proof.
  intros f rest o Hk. unfold txt_load. destruct K_rest as [_ [Hlo [_ Hhi]]]. rewrite Hlo, Hhi.
  rewrite load_all_files. unfold txt_load_file at 1. cbn [open_file bind].
  unfold keep_given, keep_list. rewrite Hk.
  match goal with |- context [filter ?g (enum_from 0 (f_schema f))] =>
    assert (Hf : forall l i, filter g (enum_from i l) = []) end.
  { induction l as [|p l IH]; intros i; [reflexivity|]. cbn. apply IH. }
  rewrite Hf. reflexivity.
Qed.

Theorem keep_none_npy : forall mode f0 rest o t n,
  o_keep o = None -> wf_file f0 ->
  npy_load mode (Some f0 :: rest) o = Ok (t, n) -> tnames t = map fst (f_schema f0).
Proof.
  intros mode f0 rest o t n Hk Hwf H. rewrite (fields_spec mode f0 rest o t n Hwf H).
  rewrite (spec_kept_none o _ Hk). reflexivity.
Qed.

Theorem npy_files_closed_ex : forall mode f0 rest o,
  mode <> MBad -> wf_file f0 ->
  (forall f, In f rest -> wf_file f /\ covers f0 f o) ->
  exists n, npy_load mode (map Some (f0 :: rest)) o = Ok (spec_load_files f0 rest o, n).
Proof. intros. eexists. apply npy_files_closed; assumption. Qed.

Theorem keep_empty_vs_none : forall mode f0 rest o,
  mode <> MBad -> wf_file f0 -> (forall f, In f rest -> wf_file f) ->
  (o_keep o = Some [] ->
     (exists n, npy_load mode (map Some (f0 :: rest)) o = Ok ([], n)) /\
     txt_load (map Some (f0 :: rest)) o = Err ValueError) /\
  (o_keep o = None -> forall t n,
     npy_load mode (map Some (f0 :: rest)) o = Ok (t, n) -> tnames t = map fst (f_schema f0)).
Proof.
  intros mode f0 rest o Hm Hwf Hrest. split.
  - intros Hk. split; [apply keep_empty_npy; assumption|]. cbn [map]. apply keep_empty_csv. exact Hk.
  - intros Hk t n H. cbn [map] in H. eapply keep_none_npy; eassumption.
Qed.
