(* C01: where the value is finite, -inf or NaN — the Num-polymorphic model read
   in the number system with IEEE special values (model/M_LlhX.v). *)
From Coq Require Import Reals ZArith List Bool Lra Lia.
From Sky Require Import Num NumR G_llh M_Llh M_LlhX S_Llh P_LlhK P_LlhValue.
Import ListNotations.
Open Scope R_scope.

Ltac x_proj :=
  cbn [nzero none nadd nsub nmul ndiv nopp nltb nleb neqb nln nlog1p XNum] in *.

Lemma ofPos_X p : ofPos XNum p = XF (IZR (Zpos p)).
Proof.
  induction p as [q IH|q IH|]; cbn [ofPos]; cbv zeta.
  - rewrite IH. x_proj. cbn [xadd]. f_equal.
    rewrite (Pos2Z.inj_xI q), plus_IZR, mult_IZR. lra.
  - rewrite IH. x_proj. cbn [xadd]. f_equal. rewrite (Pos2Z.inj_xO q), mult_IZR. lra.
  - reflexivity.
Qed.

Lemma ofZ_X z : ofZ XNum z = XF (IZR z).
Proof.
  destruct z as [|p|p]; cbn [ofZ].
  - reflexivity.
  - apply ofPos_X.
  - rewrite ofPos_X. x_proj. cbn [xopp]. first [reflexivity | (f_equal; rewrite <- opp_IZR; reflexivity)].
Qed.

(* case-split every decision left after unfolding, close the finite branches *)
Ltac x_cases :=
  repeat (match goal with
          | |- context [Req_EM_T ?a ?b] => destruct (Req_EM_T a b)
          | |- context [Rlt_dec ?a ?b] => destruct (Rlt_dec a b)
          | |- context [Rle_dec ?a ?b] => destruct (Rle_dec a b)
          end);
  try (exfalso; lra).

Ltac x_red := cbn [xadd xsub xmul xdiv xopp xltb xleb xlog1p xln xscale_inf].

Ltac x_step :=
  x_red;
  match goal with
  | |- context [Req_EM_T ?a ?b] => destruct (Req_EM_T a b)
  | |- context [Rlt_dec ?a ?b] => destruct (Rlt_dec a b)
  | |- context [Rle_dec ?a ?b] => destruct (Rle_dec a b)
  end;
  try (exfalso; lra).

Ltac x_fin :=
  x_proj; rewrite ?ofZ_X; unfold Rltb, Rleb;
  repeat x_step; x_red;
  first [ reflexivity
        | (f_equal; first [lra | (unfold Rdiv; ring) | (field; lra)
                           | (kv_ln_norm; first [reflexivity | lra | (unfold Rdiv; ring) | (field; lra)])
                           | (repeat f_equal; first [lra | (unfold Rdiv; ring) | (field; lra)])]) ].

(* the value kernels on finite numbers *)
Lemma KX_alpha opa : k_alpha XNum (XF opa) = XF (opa - 1).
Proof. unfold k_alpha. x_fin. Qed.
Lemma KX_alpha_i ns x : k_alpha_i XNum (XF ns) (XF x) = XF (ns * x).
Proof. unfold k_alpha_i. x_fin. Qed.
Lemma KX_m_stable ai a :
  (a < ai -> k_m_stable XNum (XF ai) (XF a) = true)
  /\ (ai < a -> k_m_stable XNum (XF ai) (XF a) = false).
Proof.
  unfold k_m_stable. x_proj. cbn [xltb xleb negb]. unfold Rltb, Rleb.
  split; intros H; x_cases; cbn [negb]; first [reflexivity | (exfalso; lra)].
Qed.
Lemma KX_loglam_stable ai : -1 < ai -> k_loglam_stable XNum (XF ai) = XF (ln (1 + ai)).
Proof. intros H. unfold k_loglam_stable. x_fin. Qed.
Lemma KX_tildealpha ai a opa :
  opa <> 0 -> k_tildealpha XNum (XF ai) (XF a) (XF opa) = XF ((ai - a) / opa).
Proof. intros H. unfold k_tildealpha. x_proj. cbn [xadd xsub xopp xdiv]. x_cases; try contradiction. first [reflexivity | (f_equal; lra) | (f_equal; unfold Rdiv; ring)]. Qed.
Lemma KX_loglam_unstable a ta :
  -1 < a -> k_loglam_unstable XNum (XF a) (XF ta) = XF (ln (1 + a) + ta - / 2 * ta * ta).
Proof. intros H. unfold k_loglam_unstable. x_fin. Qed.
Lemma KX_Xi r N : N <> 0 -> k_Xi XNum (XF r) (XF N) = XF ((r - 1) / N).
Proof.
  intros H. unfold k_Xi. x_proj. rewrite ?ofZ_X. cbn [xadd xsub xopp xdiv].
  x_cases; try contradiction. first [reflexivity | (f_equal; lra) | (f_equal; unfold Rdiv; ring)].
Qed.
Lemma KX_log_lambda N N' ns s :
  N <> 0 ->
  k_log_lambda XNum (XF N) (XF N') (XF ns) (XF s)
  = xadd (XF s) (xmul (XF (N - N')) (xlog1p (XF (- ns / N)))).
Proof.
  intros H. unfold k_log_lambda.
  first
    [ (x_proj; cbn [xsub xopp xadd xdiv];
       destruct (Req_EM_T N 0); [contradiction|];
       replace (N + - N') with (N - N') by lra; reflexivity)
    | (* an equivalent rewrite of the source line: split every decision on both sides *)
      (x_proj; rewrite ?ofZ_X; unfold Rltb, Rleb;
       repeat (x_red; unfold xscale_inf;
               match goal with
               | |- context [Req_EM_T ?a ?b] => destruct (Req_EM_T a b)
               | |- context [Rlt_dec ?a ?b] => destruct (Rlt_dec a b)
               end;
               try contradiction; try (exfalso; unfold Rdiv in *; lra));
       x_red; unfold xscale_inf;
       first [ reflexivity
             | (f_equal; kv_ln_norm; first [reflexivity | lra | (unfold Rdiv; ring) | (field; lra)])
             | (exfalso; unfold Rdiv in *; nra) ]) ].
Qed.

(* one event *)
Lemma ev_loglam_X opa ns x :
  0 < opa -> ev_loglam XNum (XF opa) (XF ns) (XF x) = XF (Lam (opa - 1) (ns * x)).
Proof.
  intros Hopa. unfold ev_loglam, ev_stable, ev_tilde, ev_alpha_i, Lam, Taylor.
  rewrite KX_alpha, KX_alpha_i.
  destruct (KX_m_stable (ns * x) (opa - 1)) as [Hgt Hlt].
  replace (1 + (opa - 1)) with opa by lra.
  destruct (Rlt_dec (opa - 1) (ns * x)) as [H|H].
  - rewrite (Hgt H). apply KX_loglam_stable. lra.
  - rewrite KX_tildealpha by lra.
    assert (EU : k_loglam_unstable XNum (XF (opa - 1)) (XF ((ns * x - (opa - 1)) / opa))
                 = XF (ln opa + (ns * x - (opa - 1)) / opa
                       - / 2 * ((ns * x - (opa - 1)) / opa) * ((ns * x - (opa - 1)) / opa))).
    { rewrite KX_loglam_unstable by lra. f_equal. replace (1 + (opa - 1)) with opa by lra. reflexivity. }
    destruct (Rlt_dec (ns * x) (opa - 1)) as [H2|H2].
    + rewrite (Hlt H2). exact EU.
    + assert (E : ns * x = opa - 1) by lra.
      destruct (k_m_stable XNum (XF (ns * x)) (XF (opa - 1))).
      * rewrite KX_loglam_stable by lra. f_equal. rewrite E.
        replace (opa - 1 - (opa - 1)) with 0 by lra.
        replace (1 + (opa - 1)) with opa by lra. unfold Rdiv. lra.
      * exact EU.
Qed.

Lemma nsum_X (l : list R) : nsum XNum (map XF l) = XF (Rsum l).
Proof.
  unfold nsum. x_proj.
  assert (G : forall a, fold_left xadd (map XF l) (XF a) = XF (a + Rsum l)).
  { induction l as [|x l IH]; intros a; cbn [map fold_left].
    - unfold Rsum. cbn. f_equal. lra.
    - cbn [xadd]. rewrite IH. f_equal. unfold Rsum. cbn [fold_right]. lra. }
  rewrite G. f_equal. lra.
Qed.

(* the value on finite inputs, in closed form *)
Theorem value_X opa N ns (Rs : list R) :
  0 < opa -> N <> 0 ->
  evaluate_value XNum (XF opa) (XF N) (XF ns) (map XF Rs)
  = xadd (XF (Rsum (map (fun r => Lam (opa - 1) (ns * Xof N r)) Rs)))
         (xmul (XF (N - INR (length Rs))) (xlog1p (XF (- ns / N)))).
Proof.
  intros Hopa HN. unfold evaluate_value, log_lambda, Xs.
  rewrite !map_map.
  assert (E1 : map (fun r => ev_loglam XNum (XF opa) (XF ns) (k_Xi XNum (XF r) (XF N))) Rs
               = map XF (map (fun r => Lam (opa - 1) (ns * Xof N r)) Rs)).
  { rewrite map_map. apply map_ext. intros r. rewrite KX_Xi by exact HN.
    rewrite ev_loglam_X by exact Hopa. reflexivity. }
  rewrite E1, nsum_X.
  unfold nlen. rewrite map_length, ofZ_X, <- INR_IZR_INZ.
  apply KX_log_lambda. exact HN.
Qed.

(* finite exactly for ns < N, where it is the real-number value *)
Theorem value_X_finite opa N ns (Rs : list R) :
  0 < opa -> 0 < N -> ns < N ->
  evaluate_value XNum (XF opa) (XF N) (XF ns) (map XF Rs)
  = XF (logLambda_manual (opa - 1) N ns Rs).
Proof.
  intros Hopa HN Hns. rewrite value_X by lra. unfold logLambda_manual, xlog1p.
  assert (Hq : -1 < - ns / N).
  { assert (ns / N < 1).
    { apply (Rmult_lt_reg_r N); [exact HN|]. unfold Rdiv. rewrite Rmult_assoc, Rinv_l by lra. lra. }
    unfold Rdiv in *. lra. }
  destruct (Rlt_dec (-1) (- ns / N)); [|lra].
  cbn [xmul xadd]. f_equal. f_equal. f_equal. f_equal. unfold Rdiv. lra.
Qed.

(* ns = N: -inf if there are unselected events, NaN (0 * -inf) if there are none *)
Theorem value_X_at_N opa N (Rs : list R) :
  0 < opa -> 0 < N ->
  (INR (length Rs) < N ->
     evaluate_value XNum (XF opa) (XF N) (XF N) (map XF Rs) = XNInf)
  /\ (INR (length Rs) = N ->
     evaluate_value XNum (XF opa) (XF N) (XF N) (map XF Rs) = XNaN).
Proof.
  intros Hopa HN. rewrite value_X by lra. unfold xlog1p.
  assert (E : - N / N = -1) by (field; lra). rewrite E.
  destruct (Rlt_dec (-1) (-1)); [lra|]. destruct (Req_EM_T (-1) (-1)); [|lra].
  split; intros H; cbn [xmul]; unfold xscale_inf.
  - destruct (Rlt_dec 0 (N - INR (length Rs))); [reflexivity|lra].
  - destruct (Rlt_dec 0 (N - INR (length Rs))); [lra|].
    destruct (Rlt_dec (N - INR (length Rs)) 0); [lra|]. reflexivity.
Qed.

(* ns > N: NaN, whatever the events are *)
Theorem value_X_beyond_N opa N ns (Rs : list R) :
  0 < opa -> 0 < N -> N < ns ->
  evaluate_value XNum (XF opa) (XF N) (XF ns) (map XF Rs) = XNaN.
Proof.
  intros Hopa HN Hns. rewrite value_X by lra. unfold xlog1p.
  assert (Hq : - ns / N < -1).
  { assert (1 < ns / N).
    { apply (Rmult_lt_reg_r N); [exact HN|]. unfold Rdiv. rewrite Rmult_assoc, Rinv_l by lra. lra. }
    unfold Rdiv in *. lra. }
  destruct (Rlt_dec (-1) (- ns / N)); [lra|]. destruct (Req_EM_T (- ns / N) (-1)); [lra|].
  reflexivity.
Qed.
