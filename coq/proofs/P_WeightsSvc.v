(* C03: the weights service as a long-lived object — which record array every
   (dataset, group) cell uses, history independence after change_shg_mgr, and the
   end-to-end statement for MultiDatasetTCLLHRatio.evaluate on long-lived objects. *)
From Coq Require Import Reals ZArith List Bool Lra Lia Permutation Arith.
From Sky Require Import Result PyList Num NumR G_weights M_Weights S_Llh S_Weights
     P_WeightsBase P_Weights P_Stacked P_WeightsComp.
Import ListNotations.

Open Scope Z_scope.
Lemma K_rec_arr_ds_idx0 x : k_rec_arr_ds_idx0 x = x.
Proof. reflexivity. Qed.
Lemma K_rec_arr_shg_idx0 x : k_rec_arr_shg_idx0 x = x.
Proof. reflexivity. Qed.
Lemma K_rec_shg_idx0 x : k_rec_shg_idx0 x = x.
Proof. reflexivity. Qed.
Lemma K_rec_sources x : k_rec_sources x = x.
Proof. reflexivity. Qed.
Lemma K_calc_rec_ds_idx0 x : k_calc_rec_ds_idx0 x = x.
Proof. reflexivity. Qed.
Lemma K_calc_rec_shg_idx0 x : k_calc_rec_shg_idx0 x = x.
Proof. reflexivity. Qed.
Lemma K_calc_dsy x : k_calc_dsy x = x.
Proof. reflexivity. Qed.
Lemma K_calc_yield x : k_calc_yield x = x.
Proof. reflexivity. Qed.
Lemma K_rec_arr_ds d x : k_rec_arr_ds d x = x.
Proof. reflexivity. Qed.
Lemma K_rec_arr_shg d x : k_rec_arr_shg d x = x.
Proof. reflexivity. Qed.
Lemma K_rec_shg d x : k_rec_shg d x = x.
Proof. reflexivity. Qed.
Lemma K_calc_rec_ds d x : k_calc_rec_ds d x = x.
Proof. reflexivity. Qed.
Lemma K_calc_rec_shg d x : k_calc_rec_shg d x = x.
Proof. reflexivity. Qed.

Lemma py_get_of_nth {A} (l : list A) k x : nth_error l k = Some x -> py_get l (Z.of_nat k) = Ok x.
Proof.
  intros H. assert (L : (k < length l)%nat) by (apply nth_error_Some; congruence).
  assert (E : (Z.of_nat k <? 0) = false) by (apply Z.ltb_ge; lia).
  assert (F : (Z.of_nat (length l) <=? Z.of_nat k) = false) by (apply Z.leb_gt; lia).
  unfold py_get, zlen. cbv zeta. rewrite E. cbv iota. rewrite E, F. cbn [orb].
  rewrite Nat2Z.id, H. reflexivity.
Qed.

Lemma nth_error_map_seq {B} (f : nat -> B) n k :
  (k < n)%nat -> nth_error (map f (seq 0 n)) k = Some (f k).
Proof.
  intros H. rewrite nth_error_map.
  assert (E : nth_error (seq 0 n) k = Some k).
  { rewrite (nth_error_nth' _ 0%nat) by (rewrite seq_length; exact H). now rewrite seq_nth. }
  rewrite E. reflexivity.
Qed.

Lemma mapM_ok_ext {A B} (f : A -> res B) (h : A -> B) l :
  (forall x, In x l -> f x = Ok (h x)) -> mapM f l = Ok (map h l).
Proof.
  induction l as [|a l IH]; intros H; [reflexivity|].
  cbn [mapM map]. rewrite (H a (or_introl eq_refl)). cbn [bind].
  rewrite IH by (intros x Hx; apply H; now right). reflexivity.
Qed.

Section Svc.
  Context {T : Type} (N : Num T) {Rec : Type}.

  (* every (dataset, group) cell holds the record array that the DetSigYield of that
     dataset and group built from the sources of that group *)
  Theorem create_recarrays_cell (to_rec : Z -> Z -> Z -> Rec) J G j g :
    (j < J)%nat -> (g < G)%nat ->
    exists row, nth_error (create_recarrays to_rec J G) j = Some row
                /\ nth_error row g = Some (to_rec (Z.of_nat j) (Z.of_nat g) (Z.of_nat g)).
  Proof.
    intros Hj Hg. unfold create_recarrays.
    rewrite (nth_error_map_seq _ J j Hj). eexists. split; [reflexivity|].
    rewrite (nth_error_map_seq _ G g Hg).
    pose proof (K_rec_arr_ds_idx0 (Z.of_nat j)) as E1.
    pose proof (K_rec_arr_shg_idx0 (Z.of_nat g)) as E2.
    pose proof (K_rec_shg_idx0 (Z.of_nat g)) as E3. congruence.
  Qed.

  Lemma ycol_of_create (to_rec : Z -> Z -> Z -> Rec) (yc : Z -> Z -> Rec -> list T) J G g :
    (g < G)%nat ->
    ycol_of yc (create_recarrays to_rec J G) J g
    = Ok (map (fun j => yc (Z.of_nat j) (Z.of_nat g) (to_rec (Z.of_nat j) (Z.of_nat g) (Z.of_nat g)))
              (seq 0 J)).
  Proof.
    intros Hg. unfold ycol_of. apply mapM_ok_ext. intros j Hj. apply in_seq in Hj.
    destruct (create_recarrays_cell to_rec J G j g) as (row & H1 & H2); [lia|exact Hg|].
    pose proof (K_calc_rec_ds_idx0 (Z.of_nat j)) as E1.
    pose proof (K_calc_rec_shg_idx0 (Z.of_nat g)) as E2.
    replace (k_calc_rec_ds_idx0 (Z.of_nat j)) with (Z.of_nat j) by congruence.
    replace (k_calc_rec_shg_idx0 (Z.of_nat g)) with (Z.of_nat g) by congruence.
    rewrite (py_get_of_nth _ j row H1). cbn [bind].
    rewrite (py_get_of_nth _ g _ H2). reflexivity.
  Qed.

  Lemma svc_after_last J G (cfg0 : svc_cfg (T:=T) (Rec:=Rec)) changes cfg :
    svc_after J G cfg0 (changes ++ [cfg]) = svc_make J G cfg.
  Proof. unfold svc_after. rewrite fold_left_app. reflexivity. Qed.

  Lemma svc_calculate_make J (cfg : svc_cfg (T:=T) (Rec:=Rec)) (yc : Z -> Z -> Rec -> list T) :
    svc_calculate N J (svc_make J (length (fst cfg)) cfg) yc = a_jk_calc N J (svc_groups J cfg yc).
  Proof.
    unfold svc_calculate, svc_make, svc_groups. cbn [fst snd].
    rewrite (mapM_ok_ext _
      (fun g => map (fun j => yc (Z.of_nat j) (Z.of_nat g) (snd cfg (Z.of_nat j) (Z.of_nat g) (Z.of_nat g)))
                    (seq 0 J))).
    - reflexivity.
    - intros g Hg. apply in_seq in Hg. apply ycol_of_create. lia.
  Qed.

  (* after change_shg_mgr to cfg — whatever the service was built for and changed to
     before — calculate gives the table of a fresh service for cfg, every cell from its
     own dataset's and group's record array *)
  Theorem svc_history_independent J (cfg0 : svc_cfg (T:=T) (Rec:=Rec)) changes cfg
      (yc : Z -> Z -> Rec -> list T) :
    svc_calculate N J (svc_after J (length (fst cfg)) cfg0 (changes ++ [cfg])) yc
    = a_jk_calc N J (svc_groups J cfg yc).
  Proof. rewrite svc_after_last. apply svc_calculate_make. Qed.

  Theorem multi_eval_svc_fresh opa ns J (cfg0 : svc_cfg (T:=T) (Rec:=Rec)) changes cfg
      (yc : Z -> Z -> Rec -> list T) ds :
    multi_eval_svc N opa ns J (svc_after J (length (fst cfg)) cfg0 (changes ++ [cfg])) yc ds
    = multi_eval N opa ns J (svc_groups J cfg yc) ds.
  Proof.
    unfold multi_eval_svc, multi_eval. rewrite svc_history_independent. reflexivity.
  Qed.
End Svc.

(* end to end, real-number reading: the value returned by the long-lived objects after any
   history of change_shg_mgr calls is the manual's formula on the current configuration *)
Section SvcR.
  Variable erfR : R -> R.
  Notation Nm := (RNum erfR).
  Local Open Scope R_scope.

  Theorem multi_eval_svc_manual {Rec : Type} opa ns J
      (cfg0 : svc_cfg (T:=R) (Rec:=Rec)) changes cfg (yc : Z -> Z -> Rec -> list R) ds v :
    multi_eval_svc Nm opa ns J (svc_after J (length (fst cfg)) cfg0 (changes ++ [cfg])) yc ds = Ok v ->
    exists a Rs,
      a_jk_calc Nm J (svc_groups J cfg yc) = Ok a /\ length ds = J
      /\ (length ds <= length (f_j Nm a))%nat
      /\ Forall2 (ratio_of erfR a) ds Rs
      /\ v = Rsum (map (term opa ns) (combine (f_j Nm a) (combine ds Rs))).
  Proof. rewrite multi_eval_svc_fresh. apply multi_eval_additive. Qed.
End SvcR.
