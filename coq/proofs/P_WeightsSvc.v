(* C03: the weights service as a long-lived object — which record array every
   (dataset, group) cell uses, history independence after change_shg_mgr, and the
   end-to-end statement for MultiDatasetTCLLHRatio.evaluate on long-lived objects. *)
From Coq Require Import Reals ZArith List Bool Lra Lia Permutation Arith.
From Sky Require Import Result PyList Num NumR G_weights M_Weights S_Llh S_Weights
     P_WeightsBase P_Weights P_Stacked P_WeightsComp.
Import ListNotations.

Open Scope Z_scope.
Lemma K_rec_arr_ds_idx0 x : k_rec_arr_ds_idx0 x = x.
Proof. reflexivity. Qed.
Lemma K_rec_arr_shg_idx0 x : k_rec_arr_shg_idx0 x = x.
Proof. reflexivity. Qed.
Lemma K_rec_shg_idx0 x : k_rec_shg_idx0 x = x.
Proof. reflexivity. Qed.
Lemma K_rec_sources x : k_rec_sources x = x.
Proof. reflexivity. Qed.
Lemma K_calc_rec_ds_idx0 x : k_calc_rec_ds_idx0 x = x.
Proof. reflexivity. Qed.
Lemma K_calc_rec_shg_idx0 x : k_calc_rec_shg_idx0 x = x.
Proof. reflexivity. Qed.
Lemma K_calc_dsy x : k_calc_dsy x = x.
Proof. reflexivity. Qed.
Lemma K_calc_yield x : k_calc_yield x = x.
Proof. reflexivity. Qed.
Lemma K_rec_arr_ds d x : k_rec_arr_ds d x = x.
Proof. reflexivity. Qed.
Lemma K_rec_arr_shg d x : k_rec_arr_shg d x = x.
Proof. reflexivity. Qed.
Lemma K_rec_shg d x : k_rec_shg d x = x.
Proof. reflexivity. Qed.
Lemma K_calc_rec_ds d x : k_calc_rec_ds d x = x.
Proof. reflexivity. Qed.
Lemma K_calc_rec_shg d x : k_calc_rec_shg d x = x.
Proof. reflexivity. Qed.

Lemma K_calc_params_idx0 x : k_calc_params_idx0 x = x.
Proof. reflexivity. Qed.
Lemma K_calc_params d x : k_calc_params d x = x.
Proof. reflexivity. Qed.
Lemma K_multi_chg_fwd x : k_multi_chg_fwd x = x.
Proof. reflexivity. Qed.
Lemma K_multi_chg_loops : k_multi_chg_loops = 1.
Proof. reflexivity. Qed.
Lemma K_eval_ns_idx0 x : k_eval_ns_idx0 x = x.
Proof. reflexivity. Qed.
Lemma K_eval_ns d x : k_eval_ns d x = x.
Proof. reflexivity. Qed.
(* evaluate: the four `if`s are the None default, two tracing blocks and `len(grads) > 1`;
   none guards the two calculate calls, which occur once each, weights first *)
Lemma K_eval_ifs : k_eval_ifs = 4.
Proof. reflexivity. Qed.
Lemma K_eval_ncalc : k_eval_ncalc_a = 1 /\ k_eval_ncalc_f = 1 /\ k_eval_calc_order = true.
Proof. repeat split. Qed.
(* no conditional inside get_ratio / the two calculate methods (no threshold, no memo) *)
Lemma K_no_ifs : k_ratio_ifs = 0 /\ k_calc_ifs = 0 /\ k_fcalc_ifs = 0.
Proof. repeat split. Qed.

(* round 4: the weight setter stores its argument as given (only None is replaced, by one `if`);
   the surplus branch of the signal generator builds a fresh probability array from the fractions *)
Lemma K_weight_store w : k_weight_store w = w.
Proof. reflexivity. Qed.
Lemma K_weight_ifs : k_weight_ifs = 1.
Proof. reflexivity. Qed.
Lemma K_sg_surplus_p n w : k_sg_surplus_p n w = if n >? 0 then w else 0.
Proof. reflexivity. Qed.

Lemma py_get_of_nth {A} (l : list A) k x : nth_error l k = Some x -> py_get l (Z.of_nat k) = Ok x.
Proof.
  intros H. assert (L : (k < length l)%nat) by (apply nth_error_Some; congruence).
  assert (E : (Z.of_nat k <? 0) = false) by (apply Z.ltb_ge; lia).
  assert (F : (Z.of_nat (length l) <=? Z.of_nat k) = false) by (apply Z.leb_gt; lia).
  unfold py_get, zlen. cbv zeta. rewrite E. cbv iota. rewrite E, F. cbn [orb].
  rewrite Nat2Z.id, H. reflexivity.
Qed.

Lemma nth_error_map_seq {B} (f : nat -> B) n k :
  (k < n)%nat -> nth_error (map f (seq 0 n)) k = Some (f k).
Proof.
  intros H. rewrite nth_error_map.
  assert (E : nth_error (seq 0 n) k = Some k).
  { rewrite (nth_error_nth' _ 0%nat) by (rewrite seq_length; exact H). now rewrite seq_nth. }
  rewrite E. reflexivity.
Qed.

Lemma mapM_ok_ext {A B} (f : A -> res B) (h : A -> B) l :
  (forall x, In x l -> f x = Ok (h x)) -> mapM f l = Ok (map h l).
Proof.
  induction l as [|a l IH]; intros H; [reflexivity|].
  cbn [mapM map]. rewrite (H a (or_introl eq_refl)). cbn [bind].
  rewrite IH by (intros x Hx; apply H; now right). reflexivity.
Qed.

Section Svc.
  Context {T : Type} (N : Num T) {Rec : Type}.

  (* every (dataset, group) cell holds the record array that the DetSigYield of that
     dataset and group built from the sources of that group *)
  Theorem create_recarrays_cell (to_rec : Z -> Z -> Z -> Rec) J G j g :
    (j < J)%nat -> (g < G)%nat ->
    exists row, nth_error (create_recarrays to_rec J G) j = Some row
                /\ nth_error row g = Some (to_rec (Z.of_nat j) (Z.of_nat g) (Z.of_nat g)).
  Proof.
    intros Hj Hg. unfold create_recarrays.
    rewrite (nth_error_map_seq _ J j Hj). eexists. split; [reflexivity|].
    rewrite (nth_error_map_seq _ G g Hg).
    pose proof (K_rec_arr_ds_idx0 (Z.of_nat j)) as E1.
    pose proof (K_rec_arr_shg_idx0 (Z.of_nat g)) as E2.
    pose proof (K_rec_shg_idx0 (Z.of_nat g)) as E3. congruence.
  Qed.

  Lemma ycol_of_create (to_rec : Z -> Z -> Z -> Rec) (yc : Z -> Z -> Rec -> Z * Z -> list T) J G g sl :
    (g < G)%nat ->
    ycol_of yc (create_recarrays to_rec J G) J g sl
    = Ok (map (fun j => yc (Z.of_nat j) (Z.of_nat g) (to_rec (Z.of_nat j) (Z.of_nat g) (Z.of_nat g)) sl)
              (seq 0 J)).
  Proof.
    intros Hg. unfold ycol_of. apply mapM_ok_ext. intros j Hj. apply in_seq in Hj.
    destruct (create_recarrays_cell to_rec J G j g) as (row & H1 & H2); [lia|exact Hg|].
    pose proof (K_calc_rec_ds_idx0 (Z.of_nat j)) as E1.
    pose proof (K_calc_rec_shg_idx0 (Z.of_nat g)) as E2.
    replace (k_calc_rec_ds_idx0 (Z.of_nat j)) with (Z.of_nat j) by congruence.
    replace (k_calc_rec_shg_idx0 (Z.of_nat g)) with (Z.of_nat g) by congruence.
    rewrite (py_get_of_nth _ j row H1). cbn [bind].
    rewrite (py_get_of_nth _ g _ H2). reflexivity.
  Qed.

  (* ---- the state after change_shg_mgr: which fields are new, which are old *)
  Lemma svc_change_W J G (old : svc_state (T:=T) (Rec:=Rec)) cfg :
    st_W (svc_change_to J G old cfg) = fst cfg.
  Proof. reflexivity. Qed.
  Lemma svc_change_recs J G (old : svc_state (T:=T) (Rec:=Rec)) cfg :
    st_recs (svc_change_to J G old cfg) = create_recarrays (snd cfg) J G.
  Proof. reflexivity. Qed.
  (* the stored table is NOT touched: get_weights after change_shg_mgr and before the next
     calculate still returns the table of the old configuration *)
  Theorem svc_change_keeps_table J G (old : svc_state (T:=T) (Rec:=Rec)) cfg :
    svc_get_weights (svc_change_to J G old cfg) = svc_get_weights old.
  Proof. reflexivity. Qed.

  Lemma svc_after_last J G (cfg0 : svc_cfg (T:=T) (Rec:=Rec)) changes cfg :
    svc_after J G cfg0 (changes ++ [cfg]) = svc_change_to J G (svc_after J G cfg0 changes) cfg.
  Proof. unfold svc_after. rewrite fold_left_app. reflexivity. Qed.

  (* calculate reads only the two re-created fields *)
  Lemma svc_calculate_fields J (st : svc_state (T:=T) (Rec:=Rec)) (cfg : svc_cfg (T:=T) (Rec:=Rec))
        (yc : Z -> Z -> Rec -> Z * Z -> list T) :
    st_W st = fst cfg -> st_recs st = create_recarrays (snd cfg) J (length (fst cfg)) ->
    svc_calculate N J st yc = a_jk_calc N J (svc_groups J cfg yc).
  Proof.
    intros HW HR. unfold svc_calculate, svc_groups. rewrite HW, HR.
    rewrite (mapM_ok_ext _
      (fun gs => map (fun j => yc (Z.of_nat j) (Z.of_nat (fst gs))
                                  (snd cfg (Z.of_nat j) (Z.of_nat (fst gs)) (Z.of_nat (fst gs))) (snd gs))
                     (seq 0 J))).
    - reflexivity.
    - intros [g sl] Hg. apply in_combine_l in Hg. apply in_seq in Hg. cbn [fst snd].
      apply ycol_of_create. lia.
  Qed.

  (* after change_shg_mgr to cfg — whatever the service was built for, changed to and had
     calculated before — calculate gives the table of a fresh service for cfg, every cell
     from its own dataset's and group's record array and its own slice of the parameters *)
  Theorem svc_history_independent J (cfg0 : svc_cfg (T:=T) (Rec:=Rec)) changes cfg
      (yc : Z -> Z -> Rec -> Z * Z -> list T) :
    svc_calculate N J (svc_after J (length (fst cfg)) cfg0 (changes ++ [cfg])) yc
    = a_jk_calc N J (svc_groups J cfg yc).
  Proof.
    rewrite svc_after_last. apply svc_calculate_fields; [apply svc_change_W|apply svc_change_recs].
  Qed.

  Theorem svc_fresh J (cfg : svc_cfg (T:=T) (Rec:=Rec)) (yc : Z -> Z -> Rec -> Z * Z -> list T) :
    svc_calculate N J (svc_init J (length (fst cfg)) cfg) yc = a_jk_calc N J (svc_groups J cfg yc).
  Proof. apply svc_calculate_fields; reflexivity. Qed.

  Theorem multi_eval_svc_fresh opa ns J (cfg0 : svc_cfg (T:=T) (Rec:=Rec)) changes cfg
      (yc : Z -> Z -> Rec -> Z * Z -> list T) ds :
    multi_eval_svc N opa ns J (svc_after J (length (fst cfg)) cfg0 (changes ++ [cfg])) yc ds
    = multi_eval N opa ns J (svc_groups J cfg yc) ds.
  Proof.
    unfold multi_eval_svc, multi_eval. rewrite svc_history_independent. reflexivity.
  Qed.
End Svc.

(* end to end, real-number reading *)
Section SvcR.
  Variable erfR : R -> R.
  Notation Nm := (RNum erfR).
  Local Open Scope R_scope.

  Theorem multi_eval_svc_manual {Rec : Type} opa ns J
      (cfg0 : svc_cfg (T:=R) (Rec:=Rec)) changes cfg (yc : Z -> Z -> Rec -> Z * Z -> list R) ds v :
    multi_eval_svc Nm opa ns J (svc_after J (length (fst cfg)) cfg0 (changes ++ [cfg])) yc ds = Ok v ->
    exists a Rs,
      a_jk_calc Nm J (svc_groups J cfg yc) = Ok a /\ length ds = J
      /\ (length ds <= length (f_j Nm a))%nat
      /\ Forall2 (ratio_of erfR a) ds Rs
      /\ v = Rsum (map (term opa ns) (combine (f_j Nm a) (combine ds Rs))).
  Proof. rewrite multi_eval_svc_fresh. apply multi_eval_additive. Qed.

  (* the re-creation of the weight array in change_shg_mgr is NEEDED for the theorem above:
     a change that re-creates only the record arrays (seeded defect C03-1) keeps computing
     with the weights captured at construction *)
  Definition svc_change_recs_only {Rec : Type} (J G : nat) (old : svc_state (T:=R) (Rec:=Rec))
             (cfg : svc_cfg (T:=R) (Rec:=Rec)) : svc_state :=
    set_recs old (create_recarrays (snd cfg) J G).

  Theorem stale_weights_refuted :
    exists (cfg0 cfg : svc_cfg (T:=R) (Rec:=unit)) (yc : Z -> Z -> unit -> Z * Z -> list R),
      svc_calculate Nm 1 (svc_change_recs_only 1 1 (svc_init 1 1 cfg0) cfg) yc
      <> a_jk_calc Nm 1 (svc_groups 1 cfg yc).
  Proof.
    exists ([[1]], fun _ _ _ => tt), ([[2]], fun _ _ _ => tt), (fun _ _ _ _ => [1]).
    rewrite (svc_calculate_fields Nm 1 _ ([[1]], fun _ _ _ => tt)); [|reflexivity|reflexivity].
    assert (G1 : svc_groups 1 (([[1]], fun _ _ _ => tt) : svc_cfg (T:=R) (Rec:=unit)) (fun _ _ _ _ => [1])
                 = [([1], [[1]])]) by reflexivity.
    assert (G2 : svc_groups 1 (([[2]], fun _ _ _ => tt) : svc_cfg (T:=R) (Rec:=unit)) (fun _ _ _ _ => [1])
                 = [([2], [[1]])]) by reflexivity.
    rewrite G1, G2.
    rewrite (a_jk_calc_spec erfR 1 [([1], [[1]])]) by (repeat constructor).
    rewrite (a_jk_calc_spec erfR 1 [([2], [[1]])]) by (repeat constructor).
    unfold a_spec. cbn. intros H. inversion H. lra.
  Qed.
End SvcR.
