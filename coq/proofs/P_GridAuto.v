(* C15, ParameterGrid(grid) with delta=None in exact arithmetic: the mean of the
   differences of origin + i*spacing is the spacing, so the grid is stored
   unchanged with the right descriptors. *)
From Coq Require Import Reals ZArith List Bool Lra Lia.
From Sky Require Import Result PyList Num NumR G_grid M_Grid P_Grid.
Import ListNotations.
Open Scope R_scope.

Section AutoDelta.
  Variable erfR : R -> R.
  Notation RN := (RNum erfR).

  Lemma K_pg_delta_auto x : pg_delta_auto RN x = x.
  Proof. reflexivity. Qed.

  Lemma fold_left_Rplus_acc l acc : fold_left Rplus l acc = acc + fold_left Rplus l 0.
  Proof.
    revert acc. induction l as [|x l IH]; intros acc; cbn [fold_left]; [lra|].
    rewrite (IH (acc + x)), (IH (0 + x)). lra.
  Qed.

  Lemma last_cons (l : list R) x y : last (x :: l) y = last l x.
  Proof.
    revert x y. induction l as [|z l IH]; intros x y; [reflexivity|].
    change (last (x :: z :: l) y) with (last (z :: l) y). rewrite (IH z y), (IH z x). reflexivity.
  Qed.

  (* telescoping sum of the differences, and their number *)
  Lemma sum_diffs x0 l : nsum RN (diffs RN (x0 :: l)) = last l x0 - x0.
  Proof.
    unfold nsum. num_R. revert x0. induction l as [|x1 l IH]; intros x0; [cbn; lra|].
    change (diffs RN (x0 :: x1 :: l)) with (nsub RN x1 x0 :: diffs RN (x1 :: l)). num_R.
    cbn [fold_left]. rewrite fold_left_Rplus_acc, IH.
    rewrite (last_cons l x1 x0). lra.
  Qed.
  Lemma len_diffs (x0 : R) l : length (diffs RN (x0 :: l)) = length l.
  Proof.
    revert x0. induction l as [|x1 l IH]; intros x0; [reflexivity|].
    change (diffs RN (x0 :: x1 :: l)) with (nsub RN x1 x0 :: diffs RN (x1 :: l)). cbn [length]. rewrite IH. reflexivity.
  Qed.

  Lemma points_cons a b d n :
    points a b d 0 (S n) = (IZR a / IZR (10 ^ d)) :: map (fun i => IZR a / IZR (10 ^ d) + IZR (0 + Z.of_nat i) * (IZR b / IZR (10 ^ d))) (seq 1 n).
  Proof. unfold points. cbn [seq map]. f_equal. cbn [Z.of_nat Z.add]. lra. Qed.

  Theorem mean_diff_of_regular_points a b d n : (0 <= d)%Z ->
    mean_diff RN (points a b d 0 (S (S n))) = IZR b / IZR (10 ^ d).
  Proof.
    intros Hd. pose proof (pow10_pos d Hd) as P.
    unfold mean_diff. rewrite K_pg_delta_auto, points_cons. unfold zlen. rewrite sum_diffs, len_diffs.
    rewrite map_length, seq_length. num_R.
    rewrite (seq_S n 1), map_app. cbn [map]. rewrite last_last.
    replace (0 + Z.of_nat (1 + n))%Z with (Z.of_nat (S n)) by lia.
    assert (0 < IZR (Z.of_nat (S n))) by (apply IZR_lt; lia). field. split; lra.
  Qed.

  Theorem make_grid_auto_exact a b d n : (0 <= d <= 16)%Z -> (0 < b)%Z ->
    pg_make_auto RN d (points a b d 0 (S (S n)))
    = Ok {| pg_desc := dgrid a b d; pg_grid := points a b d 0 (S (S n)) |}.
  Proof.
    intros Hd Hb. unfold pg_make_auto. rewrite mean_diff_of_regular_points by lia.
    apply make_grid_exact; assumption.
  Qed.
End AutoDelta.
