(* The gather loop of parallelize (after the fix) is loud and complete:
   - once every child process has ended, the master reaches an outcome within
     poll_bound of its own steps, whatever else is scheduled (variant mu);
   - when no child dies and no task raises, the outcome is never an error;
   - the loop before the fix could spin / block forever (two schedules). *)
From Coq Require Import ZArith List Bool Arith Lia.
From Sky Require Import Result G_parallel M_Parallel P_Parallel.
Import ListNotations.
Local Open Scope nat_scope.

Lemma sum_pop (f g : nat -> nat) l p :
  NoDup l -> In p l -> (forall q, q <> p -> g q = f q) -> S (g p) = f p ->
  S (list_sum (map g l)) = list_sum (map f l).
Proof.
  intros ND Hin Hoth Hp. induction l as [|a l IH]; [contradiction|].
  inversion ND as [|x xs Hnot ND']; subst.
  cbn [map list_sum fold_right].
  change (fold_right plus 0 (map g l)) with (list_sum (map g l)).
  change (fold_right plus 0 (map f l)) with (list_sum (map f l)).
  destruct Hin as [->|Hin].
  - assert (E : map g l = map f l).
    { apply map_ext_in. intros q Hq. apply Hoth. intro; subst. contradiction. }
    rewrite E. lia.
  - assert (a <> p) by (intro; subst; contradiction).
    rewrite (Hoth a H). specialize (IH ND' Hin). lia.
Qed.

Section Loud.
Context {R : Type}.
Variable np : nat.
Variable wres : nat -> res (list R).
Variable r0 : list R.

Notation wstep := (wstep np wres).
Notation mstep := (@mstep R np).
Notation step := (step np wres).
Notation exec := (exec np wres).
Notation all_ended := (@all_ended R np).
Notation any_died := (@any_died R np).
Notation quiescent := (@quiescent R np).
Notation log_backlog := (@log_backlog R np).
Notation poll_bound := (@poll_bound R np).
Notation no_partial := (@no_partial R np).
Notation Inv := (Inv np wres r0).
Notation good_pid := (good_pid np).

(* ------------------------------------------------------------------------- *)
(* termination                                                                *)

Definition rank (p : mphase) : nat :=
  match p with
  | PollB false => 6
  | PollC false => 5
  | PollA => 4
  | PollB true => 3
  | PollC true => 1
  | DrainB _ false => 2
  | DrainA _ => 1
  | DrainB _ true => 0
  | Join => 0
  end.

Definition mu (w : @world R) (m : @mst R) : nat :=
  8 * (length (rq w) + log_backlog w) + rank (ph m).

Lemma mu_bound w m : mu w m < poll_bound w.
Proof.
  unfold mu, M_Parallel.poll_bound.
  assert (rank (ph m) <= 6) by (destruct (ph m) as [|[]|[]|?|? []|]; cbn; lia). lia.
Qed.

Lemma wstep_quiescent w pid a : quiescent w -> wstep pid a w = w.
Proof.
  intro Hq. rewrite wstep_eq.
  destruct ((1 <=? pid) && (pid <=? np)) eqn:Hg; [|reflexivity].
  apply andb_prop in Hg as [Hg1 Hg2]. apply Nat.leb_le in Hg1, Hg2.
  destruct (exitc (wks w pid)) eqn:He; [reflexivity|].
  exfalso. apply (Hq pid); [lia|exact He].
Qed.

Definition popped (w : @world R) (pid : nat) (rest : list (option Z)) : @world R :=
  mkworld (rq w) (upd (wks w) pid (mkwk (pc (wks w pid)) (exitc (wks w pid)) rest)).

Lemma popped_pc w pid rest p : pc (wks (popped w pid rest) p) = pc (wks w p).
Proof. unfold popped; cbn [wks]. destruct (Nat.eq_dec p pid) as [->|H];
  [now rewrite upd_eq|now rewrite upd_neq]. Qed.

Lemma popped_exitc w pid rest p : exitc (wks (popped w pid rest) p) = exitc (wks w p).
Proof. unfold popped; cbn [wks]. destruct (Nat.eq_dec p pid) as [->|H];
  [now rewrite upd_eq|now rewrite upd_neq]. Qed.

Lemma popped_lq_same w pid rest : lq (wks (popped w pid rest) pid) = rest.
Proof. unfold popped; cbn [wks]. now rewrite upd_eq. Qed.

Lemma popped_lq_other w pid rest p : p <> pid -> lq (wks (popped w pid rest) p) = lq (wks w p).
Proof. intro H. unfold popped; cbn [wks]. now rewrite upd_neq. Qed.

Lemma popped_backlog w pid item rest :
  good_pid pid -> lq (wks w pid) = item :: rest ->
  S (log_backlog (popped w pid rest)) = log_backlog w.
Proof.
  intros Hg Hlq. unfold M_Parallel.log_backlog, pids.
  apply (sum_pop _ _ (seq 1 np) pid).
  - apply seq_NoDup.
  - apply in_seq. unfold P_Parallel.good_pid in Hg. lia.
  - intros q Hq. now rewrite popped_lq_other.
  - rewrite popped_lq_same, Hlq. reflexivity.
Qed.

Lemma popped_quiescent w pid rest : quiescent w -> quiescent (popped w pid rest).
Proof. intros H p Hp. rewrite popped_exitc. now apply H. Qed.

Lemma popped_no_partial w pid rest : no_partial w -> no_partial (popped w pid rest).
Proof. intros H p Hp. rewrite popped_pc. now apply H. Qed.

Lemma master_progress w m :
  quiescent w -> no_partial w -> Inv w m ->
  (exists o, mstep w m = Fin o) \/
  (exists w' m', mstep w m = Run w' m' /\ quiescent w' /\ no_partial w' /\ mu w' m' < mu w m).
Proof.
  intros Hq Hnp HI. rewrite mstep_eq. unfold mu.
  pose proof (inv_drain _ _ _ _ _ HI) as Hdr. unfold draining in Hdr.
  assert (Hall : all_ended w = true) by (apply all_ended_true; exact Hq).
  assert (Hput : putting np w = false) by (apply putting_false; exact Hnp).
  destruct (ph m) as [|ae|ae|pid|pid e|] eqn:Hph.
  - (* PollA *)
    right. destruct (it m <? np); do 2 eexists;
      (split; [reflexivity|split; [exact Hq|split; [exact Hnp|]]]);
      cbn [rq ph]; [rewrite Hall|]; cbn [rank]; lia.
  - (* PollB *)
    right. rewrite Hput. destruct (rq w) as [|[pid r] rest] eqn:Hrq; do 2 eexists;
      (split; [reflexivity|split; [exact Hq|split; [exact Hnp|]]]).
    + cbn [ph]. rewrite ?Hrq. destruct ae; cbn [rank]; lia.
    + cbn [rq ph length rank]. unfold M_Parallel.log_backlog. cbn [wks].
      destruct ae; cbn [rank]; lia.
  - (* PollC *)
    destruct (any_died w); [left; eexists; reflexivity|].
    destruct ae; [left; eexists; reflexivity|].
    right. do 2 eexists. split; [reflexivity|split; [exact Hq|split; [exact Hnp|]]]. cbn [ph rank]. lia.
  - (* DrainA *)
    destruct (Hdr pid eq_refl) as [Hg _].
    destruct ((1 <=? pid) && (pid <=? np)); [|left; eexists; reflexivity].
    right. do 2 eexists. split; [reflexivity|split; [exact Hq|split; [exact Hnp|]]]. cbn [ph].
    destruct (exitc (wks w pid)) eqn:He; [cbn [ended rank]; lia|].
    exfalso. apply (Hq pid); [exact Hg|exact He].
  - (* DrainB *)
    destruct (Hdr pid eq_refl) as [Hg _].
    destruct (lq (wks w pid)) as [|[id|] rest] eqn:Hlq.
    + destruct e; [left; eexists; reflexivity|].
      right. do 2 eexists. split; [reflexivity|split; [exact Hq|split; [exact Hnp|]]]. cbn [ph rank]. lia.
    + right. do 2 eexists. split; [reflexivity|]. fold (popped w pid rest).
      split; [now apply popped_quiescent|]. split; [now apply popped_no_partial|].
      pose proof (popped_backlog w pid (Some id) rest Hg Hlq) as Hb.
      cbn [ph rank]. replace (rq (popped w pid rest)) with (rq w) by reflexivity.
      destruct e; cbn [rank]; lia.
    + right. do 2 eexists. split; [reflexivity|]. fold (popped w pid rest).
      split; [now apply popped_quiescent|]. split; [now apply popped_no_partial|].
      pose proof (popped_backlog w pid None rest Hg Hlq) as Hb.
      cbn [ph rank]. replace (rq (popped w pid rest)) with (rq w) by reflexivity.
      destruct e; cbn [rank]; lia.
  - (* Join *)
    left. rewrite Hall. eexists; reflexivity.
Qed.

Lemma n_master_cons_master s : n_master (Master :: s) = S (n_master s).
Proof. reflexivity. Qed.

Lemma n_master_cons_worker p a s : n_master (Worker p a :: s) = n_master s.
Proof. reflexivity. Qed.

Lemma terminates sched : forall w m n,
  quiescent w -> no_partial w -> Inv w m -> mu w m < n -> n <= n_master sched ->
  exists o, exec sched (Run w m) = Fin o.
Proof.
  induction sched as [|a s IH]; intros w m n Hq Hnp HI Hmu Hn.
  - cbn in Hn. lia.
  - rewrite exec_cons. destruct a as [|pid wa].
    + rewrite n_master_cons_master in Hn. cbn [M_Parallel.step].
      destruct (master_progress w m Hq Hnp HI) as [[o Ho]|[w' [m' [Hs [Hq' [Hnp' Hlt]]]]]].
      * rewrite Ho. exists o. apply exec_Fin.
      * rewrite Hs. apply (IH w' m' (n - 1)); try lia; try assumption.
        eapply Inv_master; eassumption.
    + rewrite n_master_cons_worker in Hn. cbn [M_Parallel.step].
      rewrite wstep_quiescent by exact Hq. now apply (IH w m n).
Qed.

(* loudness of the gather loop: from ANY state reached under ANY schedule in
   which all children have ended, poll_bound further master steps finish the
   call - with the complete list or with an error *)
Lemma gather_loud s1 s2 w m :
  exec s1 (init r0) = Run w m -> quiescent w -> no_partial w -> poll_bound w <= n_master s2 ->
  exists o, exec (s1 ++ s2) (init r0) = Fin o /\
            (forall r, o = Done r -> complete np wres r0 r).
Proof.
  intros H1 Hq Hnp Hn. rewrite exec_app, H1.
  destruct (terminates s2 w m (poll_bound w) Hq Hnp (gather_inv np wres r0 s1 w m H1)
              (mu_bound w m) Hn) as [o Ho].
  exists o. split; [exact Ho|]. intros r ->.
  apply (gather_safe np wres r0 (s1 ++ s2)). now rewrite exec_app, H1.
Qed.

(* ------------------------------------------------------------------------- *)
(* completeness: without faults the outcome is never an error                 *)

Notation draining := (@draining R).

Record NF (w : @world R) (m : @mst R) : Prop := mkNF {
  nf_exit : forall p, good_pid p ->
      exitc (wks w p) = None \/ (exitc (wks w p) = Some 0%Z /\ pc (wks w p) = WDone);
  nf_kept : forall p, good_pid p -> delivered (pc (wks w p)) ->
      In p (map fst (rq w)) \/ In p (map fst (pmap m));
  nf_mark : forall p, good_pid p -> pc (wks w p) = WDone ->
      (In p (map fst (pmap m)) /\ draining m <> Some p) \/ In None (lq (wks w p));
  nf_phase : match ph m with
             | PollB true => forall p, good_pid p -> exitc (wks w p) <> None
             | PollC true => False
             | DrainB p true => exitc (wks w p) <> None
             | _ => True
             end
}.

Lemma NF_init : NF (mkworld [] (fun _ => fresh)) (mkmst 0 PollA [(0, r0)]).
Proof.
  constructor; cbn.
  - intros p _. now left.
  - intros p _ [H|H]; discriminate.
  - intros p _ H. discriminate.
  - exact I.
Qed.

(* a worker step that replaces the record of pid by k' and appends `extra`
   to the result queue *)
Lemma NF_worker_upd w m pid k' extra :
  NF w m ->
  exitc (wks w pid) = None ->
  (exitc k' = None \/ (exitc k' = Some 0%Z /\ pc k' = WDone)) ->
  (delivered (pc k') -> delivered (pc (wks w pid)) \/ In pid (map fst extra)) ->
  (pc k' = WDone -> (pc (wks w pid) = WDone /\ lq k' = lq (wks w pid)) \/ In None (lq k')) ->
  NF (mkworld (rq w ++ extra) (upd (wks w) pid k')) m.
Proof.
  intros [N1 N2 N3 N4] He Ha Hc Hd. constructor; cbn [rq wks].
  - intros p Hp. destruct (Nat.eq_dec p pid) as [->|Hne]; [now rewrite upd_eq|rewrite upd_neq by exact Hne; now apply N1].
  - intros p Hp. rewrite map_app. destruct (Nat.eq_dec p pid) as [->|Hne].
    + rewrite upd_eq. intro Hk. destruct (Hc Hk) as [Hold|Hin].
      * destruct (N2 pid Hp Hold) as [H|H]; [left; apply in_or_app; now left|now right].
      * left. apply in_or_app. now right.
    + rewrite upd_neq by exact Hne. intro Hk.
      destruct (N2 p Hp Hk) as [H|H]; [left; apply in_or_app; now left|now right].
  - intros p Hp. destruct (Nat.eq_dec p pid) as [->|Hne].
    + rewrite upd_eq. intro Hk. destruct (Hd Hk) as [[Hold Hlq]|Hin]; [|now right].
      rewrite Hlq. now apply N3.
    + rewrite upd_neq by exact Hne. now apply N3.
  - destruct (ph m) as [|[]|[]|?|q []|]; try exact I; try exact N4.
    + intros p Hp. destruct (Nat.eq_dec p pid) as [->|Hne].
      * exfalso. apply (N4 pid Hp). exact He.
      * rewrite upd_neq by exact Hne. now apply N4.
    + destruct (Nat.eq_dec q pid) as [->|Hne].
      * exfalso. apply N4. exact He.
      * now rewrite upd_neq by exact Hne.
Qed.

Lemma NF_worker w m pid a :
  is_die (Worker pid a) = false -> NF w m -> NF (wstep pid a w) m.
Proof.
  intros Hnd HN. rewrite wstep_eq.
  destruct ((1 <=? pid) && (pid <=? np)) eqn:Hg; [|exact HN].
  apply andb_prop in Hg as [Hg1 Hg2]. apply Nat.leb_le in Hg1, Hg2.
  destruct (exitc (wks w pid)) eqn:He; [exact HN|].
  assert (Hnil : forall k', NF (mkworld (rq w ++ []) (upd (wks w) pid k')) m ->
                            NF (mkworld (rq w) (upd (wks w) pid k')) m)
    by (intro k'; now rewrite app_nil_r).
  destruct a as [id| | | | | |c]; try discriminate;
    destruct (pc (wks w pid)) eqn:Hpc; try exact HN.
  - (* APutLog *)
    apply Hnil. apply NF_worker_upd; cbn [pc exitc lq map fst];
      [exact HN|exact He|now left|intros [H|H]; discriminate|discriminate].
  - (* APutBegin *)
    destruct (wres pid) as [r|e] eqn:Hw; [|exact HN].
    apply Hnil. apply NF_worker_upd; cbn [pc exitc lq map fst];
      [exact HN|exact He|now left|intros [H|H]; discriminate|discriminate].
  - (* APutResult at WRun *)
    destruct (wres pid) as [r|e] eqn:Hw; [|exact HN].
    apply NF_worker_upd; cbn [pc exitc lq map fst];
      [exact HN|exact He|now left|intros _; right; now left|discriminate].
  - (* APutResult at WPutting *)
    destruct (wres pid) as [r|e] eqn:Hw; [|exact HN].
    apply NF_worker_upd; cbn [pc exitc lq map fst];
      [exact HN|exact He|now left|intros _; right; now left|discriminate].
  - (* APutEnd *)
    apply Hnil. apply NF_worker_upd; cbn [pc exitc lq map fst];
      [exact HN|exact He|now left|intros _; left; rewrite Hpc; now left|].
    intros _. right. apply in_or_app. right. now left.
  - (* AExit0 *)
    apply Hnil. apply NF_worker_upd; cbn [pc exitc lq map fst];
      [exact HN|exact He|right; split; reflexivity|intros _; left; rewrite Hpc; now right|].
    intros _. left. split; [exact Hpc|reflexivity].
Qed.

Lemma keys_full w m :
  Inv w m -> NF w m -> rq w = [] ->
  (forall p, good_pid p -> exitc (wks w p) <> None) ->
  S np <= length (pmap m).
Proof.
  intros HI [N1 N2 N3 N4] Hrq Hall.
  rewrite <- (map_length fst (pmap m)), <- (seq_length (S np) 0).
  apply NoDup_incl_length; [apply seq_NoDup|].
  intros p Hp. apply in_seq in Hp.
  destruct (Nat.eq_dec p 0) as [->|Hne]; [exact (inv_zero _ _ _ _ _ HI)|].
  assert (Hg : good_pid p) by (unfold P_Parallel.good_pid; lia).
  destruct (N1 p Hg) as [Hn|[_ Hpc]]; [exfalso; now apply (Hall p Hg)|].
  destruct (N2 p Hg) as [H|H]; [rewrite Hpc; now right| |exact H].
  rewrite Hrq in H. contradiction.
Qed.

Ltac mark_none N3 :=
  let p := fresh "p" in let Hp := fresh "Hp" in let Hk := fresh "Hk" in
  let Ha := fresh "Ha" in let Hb := fresh "Hb" in
  unfold P_Parallel.draining; cbn [ph]; intros p Hp Hk;
  destruct (N3 p Hp Hk) as [[Ha _]|Hb]; [left; split; [exact Ha|discriminate]|now right].

Lemma NF_master w m :
  Inv w m -> NF w m ->
  match mstep w m with
  | Run w' m' => NF w' m'
  | Fin (Done _) => True
  | Fin (Fail _) => False
  end.
Proof.
  intros HI HN. rewrite mstep_eq.
  pose proof (inv_drain _ _ _ _ _ HI) as Hdr.
  pose proof (inv_it _ _ _ _ _ HI) as Hit.
  pose proof (inv_len _ _ _ _ _ HI) as Hlen.
  pose proof (inv_nodup _ _ _ _ _ HI) as Hnd.
  pose proof HN as [N1 N2 N3 N4].
  unfold consumed in Hlen.
  destruct (ph m) as [|ae|ae|pid|pid e|] eqn:Hph.
  - (* PollA *)
    destruct (it m <? np).
    + constructor; cbn [rq wks ph it pmap]; [exact N1|exact N2|mark_none N3|].
      destruct (all_ended w) eqn:Hall; [|exact I].
      intros p Hp. apply (proj1 (all_ended_true np w) Hall). exact Hp.
    + constructor; cbn [rq wks ph it pmap]; [exact N1|exact N2|mark_none N3|exact I].
  - (* PollB *)
    destruct (rq w) as [|[pid r] rest] eqn:Hrq.
    + destruct (putting np w); [exact HN|]. destruct ae.
      * exfalso.
        pose proof (keys_full w m HI HN Hrq N4) as Hk. lia.
      * constructor; cbn [rq wks ph it pmap]; [exact N1|rewrite Hrq; exact N2|mark_none N3|exact I].
    + try rewrite Hrq in Hnd; try rewrite Hrq in N2.
      cbn [map fst app] in Hnd. inversion Hnd as [|x xs Hnot ND]; subst.
      assert (Hfresh : ~ In pid (map fst (pmap m)))
        by (intro Hc; apply Hnot; apply in_or_app; now right).
      rewrite (dset_fresh pid r (pmap m) Hfresh).
      constructor; cbn [rq wks ph it pmap]; [exact N1| | |exact I].
      * intros p Hp Hk. rewrite map_app. cbn [map fst].
        destruct (N2 p Hp Hk) as [H|H]; [cbn [map fst In] in H; destruct H as [<-|H]|].
        -- right. apply in_or_app. right. now left.
        -- now left.
        -- right. apply in_or_app. now left.
      * unfold P_Parallel.draining; cbn [ph]. intros p Hp Hk. rewrite map_app.
        unfold P_Parallel.draining in N3. rewrite Hph in N3.
        destruct (N3 p Hp Hk) as [[Ha _]|Hb]; [left|now right].
        split; [apply in_or_app; now left|]. intro E; inversion E; subst. contradiction.
  - (* PollC *)
    destruct (any_died w) eqn:Hd.
    + apply any_died_true in Hd as [p [c [Hp [Hc Hne]]]].
      destruct (N1 p Hp) as [Hn|[Hz _]]; rewrite Hc in *; [discriminate|].
      inversion Hz; subst. contradiction.
    + destruct ae; [exact N4|].
      constructor; cbn [rq wks ph it pmap]; [exact N1|exact N2|mark_none N3|exact I].
  - (* DrainA *)
    destruct (Hdr pid) as [[Hg1 Hg2] Hin]; [unfold P_Parallel.draining; now rewrite Hph|].
    destruct (Nat.leb_spec 1 pid); [|lia]. destruct (Nat.leb_spec pid np); [|lia]. cbn [andb].
    unfold P_Parallel.draining in N3. rewrite Hph in N3.
    constructor; cbn [rq wks ph it pmap]; [exact N1|exact N2|exact N3|].
    destruct (exitc (wks w pid)) eqn:He; cbn [ended]; [discriminate|exact I].
  - (* DrainB *)
    destruct (Hdr pid) as [Hg Hin]; [unfold P_Parallel.draining; now rewrite Hph|].
    unfold P_Parallel.draining in N3. rewrite Hph in N3.
    destruct (lq (wks w pid)) as [|[id|] rest] eqn:Hlq.
    + destruct e.
      * destruct (N1 pid Hg) as [Hn|[_ Hpc]]; [now apply N4|].
        destruct (N3 pid Hg Hpc) as [[_ Hbad]|Hnone]; [now apply Hbad|].
        rewrite Hlq in Hnone. contradiction.
      * constructor; cbn [rq wks ph it pmap]; [exact N1|exact N2|exact N3|exact I].
    + fold (popped w pid rest). constructor; cbn [ph it pmap].
      * intros p Hp. rewrite popped_exitc, popped_pc. now apply N1.
      * intros p Hp. rewrite popped_pc. now apply N2.
      * unfold P_Parallel.draining; cbn [ph]. intros p Hp. rewrite popped_pc. intro Hk.
        destruct (Nat.eq_dec p pid) as [->|Hne].
        -- rewrite popped_lq_same.
           destruct (N3 pid Hp Hk) as [[_ Hbad]|Hnone]; [exfalso; now apply Hbad|].
           rewrite Hlq in Hnone. destruct Hnone as [Hx|Hx]; [discriminate|now right].
        -- rewrite popped_lq_other by exact Hne. now apply N3.
      * exact I.
    + fold (popped w pid rest). constructor; cbn [ph it pmap].
      * intros p Hp. rewrite popped_exitc, popped_pc. now apply N1.
      * intros p Hp. rewrite popped_pc. now apply N2.
      * unfold P_Parallel.draining; cbn [ph]. intros p Hp. rewrite popped_pc. intro Hk.
        destruct (Nat.eq_dec p pid) as [->|Hne].
        -- left. split; [exact Hin|discriminate].
        -- rewrite popped_lq_other by exact Hne.
           destruct (N3 p Hp Hk) as [[Ha _]|Hb]; [left; split; [exact Ha|discriminate]|now right].
      * exact I.
  - (* Join *)
    destruct (all_ended w).
    + destruct (join_assemble np wres r0 w m HI Hph) as [r [Ha _]]. now rewrite Ha.
    + exact HN.
Qed.

Definition NFS (s : @sys R) : Prop :=
  match s with
  | Run w m => Inv w m /\ NF w m
  | Fin (Done _) => True
  | Fin (Fail _) => False
  end.

Lemma NFS_step a s : is_die a = false -> NFS s -> NFS (step a s).
Proof.
  intros Hnd. destruct s as [w m|o]; [|exact (fun H => H)].
  intros [HI HN]. destruct a as [|pid wa]; cbn [M_Parallel.step].
  - pose proof (NF_master w m HI HN) as H.
    destruct (mstep w m) as [w' m'|[r|e]] eqn:E; cbn [NFS]; try exact H.
    split; [eapply Inv_master; eassumption|exact H].
  - cbn [NFS]. split; [now apply Inv_worker|now apply NF_worker].
Qed.

Lemma NFS_exec sched s : fault_free sched -> NFS s -> NFS (exec sched s).
Proof.
  revert s; induction sched as [|a t IH]; intros s Hff H; [exact H|].
  unfold fault_free in Hff. cbn [forallb] in Hff. apply andb_prop in Hff as [Ha Ht].
  rewrite exec_cons. apply IH; [exact Ht|]. apply NFS_step; [|exact H].
  now apply negb_true_iff.
Qed.

(* no worker dies, no task of a worker raises: the gather loop cannot end with
   an error, whatever the order of deliveries and of the master's polls *)
Lemma gather_complete sched o :
  fault_free sched -> exec sched (init r0) = Fin o ->
  exists r, o = Done r /\ complete np wres r0 r.
Proof.
  intros Hff H.
  pose proof (NFS_exec sched (init r0) Hff (conj (Inv_init np wres r0) NF_init)) as HS.
  rewrite H in HS. destruct o as [r|e]; [|contradiction].
  exists r. split; [reflexivity|]. now apply (gather_safe np wres r0 sched).
Qed.

End Loud.
