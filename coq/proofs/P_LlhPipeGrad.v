(* C02: the gradient pipeline composed.  From differentiable weights a_jk(t) and table ratios
   R_ik(t) (t = one floating parameter) through the model's own functions
     a table -> f_j / f_j_grad (quotient rule),
     sw_ratio / sw_grad (stacking, numpy plumbing included),
     evaluate_value / evaluate_grad_ns / evaluate_grad_p per dataset,
     multi_value / multi_grad_p,
   the gradient entry the code assembles is the derivative of the value it returns. *)
From Coq Require Import Reals ZArith List Bool Lra Lia Arith.
From Coquelicot Require Import Coquelicot.
From Sky Require Import Num NumR G_llh M_Llh M_LlhPipe M_LlhGrad S_Llh S_LlhPipe S_LlhGrad
  P_Llh P_LlhK P_LlhValue P_LlhC1 P_LlhCompose P_LlhDeriv P_WeightsDeriv P_LlhGrad P_LlhStack.
Import ListNotations.
Open Scope R_scope.

Section PG.
  Variable erfR : R -> R.
  Notation Nm := (RNum erfR).

  Definition tab_at (DS : list pds) (t : R) : list (list R) := map (fun d => a_at (p_aks d) t) DS.
  Definition dtab (DS : list pds) : list (list R) := map (fun d => d_of (p_aks d)) DS.

  (* the stacked ratios / their gradient of one dataset, computed by the model of the code *)
  Definition Ri_at (d : pds) (t : R) : list R := sw_ratio Nm (a_at (p_aks d) t) (p_nsel d) (rows_at (p_rows d) t).
  Definition dRi (d : pds) (t0 : R) : list R :=
    sw_grad Nm (a_at (p_aks d) t0) (Some (d_of (p_aks d))) (p_nsel d) (rows_at (p_rows d) t0)
            (Some (drows_of (p_rows d))) (Ri_at d t0).

  Lemma a_tot_at DS t : a_tot Nm (tab_at DS t) = Rsum (a_at (concat (map p_aks DS)) t).
  Proof.
    unfold a_tot, tab_at, a_at. rewrite nsum_R. f_equal.
    induction DS as [|d l IH]; [reflexivity|]. cbn [map concat]. rewrite map_app, IH. reflexivity.
  Qed.
  Lemma a_tot_d DS : a_tot Nm (dtab DS) = Rsum (d_of (concat (map p_aks DS))).
  Proof.
    unfold a_tot, dtab, d_of. rewrite nsum_R. f_equal.
    induction DS as [|d l IH]; [reflexivity|]. cbn [map concat]. rewrite map_app, IH. reflexivity.
  Qed.

  Lemma Rsum_at_derive (aks : list wfun) t0 :
    List.Forall (fun a => is_derive (fst a) t0 (snd a)) aks ->
    is_derive (fun t => Rsum (a_at aks t)) t0 (Rsum (d_of aks)).
  Proof.
    intros H. apply (is_derive_ext (fun t => Rsum (map (fun g => g t) (map fst aks)))).
    { intros t. unfold a_at. rewrite map_map. reflexivity. }
    apply Rsum_derive. unfold d_of. induction H as [|a l Hd _ IH]; cbn [map]; constructor; assumption.
  Qed.

  (* side conditions at the point t0 *)
  Definition pds_ok (opa ns t0 : R) (DS : list pds) (d : pds) : Prop :=
    List.Forall (fun a => is_derive (fst a) t0 (snd a)) (p_aks d)
    /\ List.Forall (fun v => is_derive (fst (snd v)) t0 (snd (snd v))) (p_rows d)
    /\ NoDup (map fst (p_rows d))
    /\ Rsum (a_at (p_aks d) t0) <> 0
    /\ p_N d <> 0
    /\ 0 < 1 - ns * (Rsum (a_at (p_aks d) t0) / a_tot Nm (tab_at DS t0)) / p_N d
    /\ List.Forall (fun r => ns * (Rsum (a_at (p_aks d) t0) / a_tot Nm (tab_at DS t0)) * Xof (p_N d) r <> opa - 1)
                   (Ri_at d t0).

  Definition to_dsfun (DS : list pds) (t0 : R) (d : pds) : dsfun :=
    mkDsfun (p_N d)
            (fun t => k_f_j Nm (nsum Nm (a_at (p_aks d) t)) (a_tot Nm (tab_at DS t)))
            (k_f_j_grad Nm (nsum Nm (d_of (p_aks d))) (a_tot Nm (tab_at DS t0))
                        (nsum Nm (a_at (p_aks d) t0)) (a_tot Nm (dtab DS)))
            (map (fun e => fun t => nth e (Ri_at d t) 0) (seq 0 (p_nsel d)))
            (map (fun e => nth e (dRi d t0) 0) (seq 0 (p_nsel d))).

  Lemma rows_nodup (rows : list (nat * nat * wfun)) t :
    NoDup (map fst rows) -> NoDup (map row_pair (rows_at rows t)).
  Proof. intros H. unfold rows_at. rewrite map_map. exact H. Qed.
  Lemma drows_nodup (rows : list (nat * nat * wfun)) :
    NoDup (map fst rows) -> NoDup (map row_pair (drows_of rows)).
  Proof. intros H. unfold drows_of. rewrite map_map. exact H. Qed.

  Lemma Ri_at_spec d t : NoDup (map fst (p_rows d)) ->
    Ri_at d t = map (stacked_spec (a_at (p_aks d) t) (rows_at (p_rows d) t)) (seq 0 (p_nsel d)).
  Proof. intros H. unfold Ri_at. apply sw_ratio_spec. apply rows_nodup. exact H. Qed.

  Lemma map_nth_seq_id (l : list R) n : length l = n -> map (fun e => nth e l 0) (seq 0 n) = l.
  Proof.
    intros <-. apply (nth_ext _ _ 0 0); [rewrite map_length, seq_length; reflexivity|].
    intros e He. rewrite map_length, seq_length in He.
    rewrite (nth_map_lt' _ _ e 0%nat 0) by (rewrite seq_length; exact He). rewrite seq_nth by exact He. reflexivity.
  Qed.

  Lemma at_t_R DS t0 d t : NoDup (map fst (p_rows d)) -> at_t (dq_R (to_dsfun DS t0 d)) t = Ri_at d t.
  Proof.
    intros H. unfold at_t. cbn [to_dsfun dq_R]. rewrite map_map. apply map_nth_seq_id.
    rewrite (Ri_at_spec d t H), map_length, seq_length. reflexivity.
  Qed.

  Lemma dRi_length d t0 : length (dRi d t0) = length (Ri_at d t0) -> True.
  Proof. trivial. Qed.

  Lemma to_dsfun_ok opa ns t0 DS d :
    0 < opa -> a_tot Nm (tab_at DS t0) <> 0 ->
    List.Forall (fun a => is_derive (fst a) t0 (snd a)) (concat (map p_aks DS)) ->
    pds_ok opa ns t0 DS d -> ds_ok opa ns t0 (to_dsfun DS t0 d).
  Proof.
    intros Hopa Htot Hall (Ha & Hr & Hnd & HA & HN & Hpos & Hthr).
    unfold ds_ok. cbn [to_dsfun dq_N dq_f dq_df dq_R dq_dR].
    rewrite !nsum_R, K_f_j. split; [|split; [|split; [|split]]].
    - exact HN.
    - exact Hpos.
    - apply (is_derive_ext (fun t => k_f_j Nm ((fun t => Rsum (a_at (p_aks d) t)) t) ((fun t => a_tot Nm (tab_at DS t)) t)));
        [intros t; cbv beta; rewrite nsum_R; reflexivity|].
      apply (f_j_quotient_rule erfR (fun t => Rsum (a_at (p_aks d) t)) (fun t => a_tot Nm (tab_at DS t)) t0
                               (Rsum (d_of (p_aks d))) (a_tot Nm (dtab DS))).
      + apply Rsum_at_derive. exact Ha.
      + rewrite a_tot_d. apply (is_derive_ext (fun t => Rsum (a_at (concat (map p_aks DS)) t))).
        { intros t. symmetry. apply a_tot_at. }
        apply Rsum_at_derive. exact Hall.
      + exact Htot.
    - (* every stacked ratio is differentiable with the code's gradient entry *)
      assert (HL : length (Ri_at d t0) = p_nsel d)
        by (rewrite (Ri_at_spec d t0 Hnd), map_length, seq_length; reflexivity).
      assert (Hall' : forall e, In e (seq 0 (p_nsel d)) ->
                 is_derive (fun t => nth e (Ri_at d t) 0) t0 (nth e (dRi d t0) 0)).
      { intros e He. apply in_seq in He. destruct He as (_ & He). cbn in He.
        apply (is_derive_ext (fun t => stacked_spec (a_at (p_aks d) t) (rows_at (p_rows d) t) e)).
        { intros t. rewrite (Ri_at_spec d t Hnd).
          rewrite (nth_map_lt' _ _ e 0%nat 0) by (rewrite seq_length; exact He). rewrite seq_nth by exact He. reflexivity. }
        unfold dRi. rewrite (sw_grad_spec erfR) ;
          [|apply rows_nodup; exact Hnd|intros d0 E; inversion E; subst; apply drows_nodup; exact Hnd
           |exact HL|exact He|left; discriminate].
        rewrite (Ri_at_spec d t0 Hnd) at 1.
        rewrite (nth_map_lt' _ _ e 0%nat 0) by (rewrite seq_length; exact He). rewrite seq_nth by exact He.
        apply stacking_rule; assumption. }
      clear - Hall'. induction (seq 0 (p_nsel d)) as [|e l IH]; cbn [map]; constructor.
      + apply Hall'. left. reflexivity.
      + apply IH. intros e' He'. apply Hall'. right. exact He'.
    - rewrite <- (at_t_R DS t0 d t0 Hnd) in Hthr. unfold at_t in Hthr. cbn [to_dsfun dq_R] in Hthr.
      rewrite map_map in Hthr. rewrite List.Forall_forall in *. intros g Hg.
      apply in_map_iff in Hg. destruct Hg as (e & <- & He). apply Hthr.
      apply in_map_iff. exists e. split; [reflexivity|exact He].
  Qed.

  (* the composed statement, in the code's own functions *)
  Theorem pipeline_p_derive opa ns t0 (DS : list pds) :
    0 < opa -> a_tot Nm (tab_at DS t0) <> 0 ->
    List.Forall (pds_ok opa ns t0 DS) DS ->
    is_derive
      (fun t => multi_value Nm opa ns (f_j Nm (tab_at DS t)) (map (fun d => (p_N d, Ri_at d t)) DS)) t0
      (multi_grad_p Nm opa ns (f_j Nm (tab_at DS t0)) (f_j_grad Nm (tab_at DS t0) (dtab DS))
                    (map (fun d => (p_N d, Ri_at d t0, dRi d t0)) DS)).
  Proof.
    intros Hopa Htot Hok.
    assert (Hall : List.Forall (fun a => is_derive (fst a) t0 (snd a)) (concat (map p_aks DS))).
    { apply List.Forall_forall. intros a Hin. apply in_concat in Hin. destruct Hin as (l & Hl & Ha).
      apply in_map_iff in Hl. destruct Hl as (d & <- & Hd). rewrite List.Forall_forall in Hok.
      destruct (Hok d Hd) as (H1 & _). rewrite List.Forall_forall in H1. apply H1. exact Ha. }
    assert (Hnd : forall d, In d DS -> NoDup (map fst (p_rows d))).
    { intros d Hd. rewrite List.Forall_forall in Hok. destruct (Hok d Hd) as (_ & _ & H & _). exact H. }
    pose proof (multi_value_p_derive erfR opa ns t0 (map (to_dsfun DS t0) DS) Hopa) as HM.
    assert (Hds : List.Forall (ds_ok opa ns t0) (map (to_dsfun DS t0) DS)).
    { apply List.Forall_forall. intros q Hq. apply in_map_iff in Hq. destruct Hq as (d & <- & Hd).
      apply to_dsfun_ok; try assumption. rewrite List.Forall_forall in Hok. apply Hok. exact Hd. }
    specialize (HM Hds). rewrite !map_map in HM. cbn [to_dsfun dq_N dq_f dq_df dq_dR] in HM.
    eapply is_derive_eq.
    - eapply is_derive_ext; [|exact HM].
      intros t. cbv beta. rewrite !map_map. cbn [to_dsfun dq_N dq_f]. f_equal.
      + unfold f_j, a_j, tab_at. rewrite !map_map. reflexivity.
      + apply map_ext_in. intros d Hd. rewrite (at_t_R DS t0 d t (Hnd d Hd)). reflexivity.
    - f_equal.
      + unfold f_j, a_j, tab_at. rewrite !map_map. reflexivity.
      + unfold f_j_grad, a_j, tab_at, dtab. rewrite !map_map, combine_map2, map_map. reflexivity.
      + apply map_ext_in. intros d Hd. rewrite (at_t_R DS t0 d t0 (Hnd d Hd)).
        f_equal. apply map_nth_seq_id.
        unfold dRi. unfold sw_grad. rewrite map_length, combine_length, map_length, sw_grad_fold_len, repeat_length.
        rewrite (Ri_at_spec d t0 (Hnd d Hd)), map_length, seq_length. lia.
  Qed.
End PG.
