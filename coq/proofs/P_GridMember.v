(* C15, membership in exact arithmetic: for a stored grid origin + i*spacing,
   i = 0..m, and any value in its range, the rounded values are elements of the
   stored grid. *)
From Coq Require Import Reals ZArith List Bool Lra Lia.
From Sky Require Import Result PyList Num NumR G_grid M_Grid P_Grid.
Import ListNotations.
Open Scope R_scope.

Section Member.
  Variable erfR : R -> R.
  Notation RN := (RNum erfR).

  Lemma In_points a b d (k : Z) (m : nat) : (0 <= k <= Z.of_nat m)%Z ->
    In (g_lb (dgrid a b d) + IZR k * g_delta (dgrid a b d)) (points a b d 0 (S m)).
  Proof.
    intros Hk. unfold points. apply in_map_iff. exists (Z.to_nat k). split.
    - cbn [g_lb g_delta dgrid]. rewrite Z.add_0_l, Z2Nat.id by lia. reflexivity.
    - apply in_seq. lia.
  Qed.

  Lemma IZR_le_eps (n m : Z) : IZR n <= IZR m + 6 / 10 -> (n <= m)%Z.
  Proof.
    intros H. assert (IZR n < IZR (m + 1)) by (rewrite plus_IZR; lra). apply lt_IZR in H0. lia.
  Qed.

  Theorem regular_rounded_values_are_members a b d (m : nat) v : (0 <= d)%Z -> (0 < b)%Z ->
    let g := dgrid a b d in
    let last := g_lb g + IZR (Z.of_nat m) * g_delta g in
    g_lb g <= v -> v <= last ->
    In (round_lower RN g v) (points a b d 0 (S m)) /\
    In (round_nearest RN g v) (points a b d 0 (S m)) /\
    (v < last - 5 / 10000000000 * g_delta g -> In (round_upper RN g v) (points a b d 0 (S m))).
  Proof.
    intros Hd Hb g last Hv Hl.
    assert (Hdel : 0 < g_delta g).
    { cbn. apply Rmult_lt_0_compat; [apply IZR_lt; exact Hb|apply Rinv_0_lt_compat, pow10_pos, Hd]. }
    destruct (regular_bracket erfR a b d v Hd Hb Hv) as [n [Hn [EL [EU [_ [B1 [B2 _]]]]]]].
    destruct (regular_nearest erfR a b d v Hd Hb Hv) as [k [Hk [EN BN]]].
    fold g in EL, EU, B1, B2, EN, BN. unfold last in *.
    set (M := Z.of_nat m) in *. set (D := g_delta g) in *. set (L := g_lb g) in *.
    assert (Hnm : (n <= M)%Z).
    { apply IZR_le_eps. rewrite EL in B1.
      assert ((IZR n - 5 / 10000000000) * D <= IZR M * D) by lra.
      apply Rmult_le_reg_r in H; [lra|exact Hdel]. }
    assert (Hkm : (k <= M)%Z).
    { apply IZR_le_eps. rewrite EN in BN. apply Rabs_le_inv in BN.
      assert ((IZR k - (1 / 2 + 5 / 10000000000)) * D <= IZR M * D) by lra.
      apply Rmult_le_reg_r in H; [lra|exact Hdel]. }
    split; [|split].
    - rewrite EL. apply In_points. lia.
    - rewrite EN. apply In_points. lia.
    - intros Hlt. rewrite EU. apply In_points. split; [lia|].
      assert (IZR n < IZR M).
      { rewrite EL in B1. assert ((IZR n) * D < IZR M * D) by lra.
        apply Rmult_lt_reg_r in H; [exact H|exact Hdel]. }
      apply lt_IZR in H. lia.
  Qed.
End Member.
