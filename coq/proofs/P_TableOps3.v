(* C16 — append (invariant), set_selection, rename_fields. *)
From Coq Require Import ZArith List Bool Lia Arith.
From Sky Require Import Result PyList G_table M_Table P_TableBase P_TableOps P_TableOps2.
Import ListNotations.
Open Scope Z_scope.

Lemma append_inv : forall s o a, obj_inv s o -> obj_inv s a ->
  match append s o a with
  | ((s', o'), _) => frame_rel s o s' o' /\ obj_inv s' o'
  end.
Proof.
  intros s o a (E & R & L) (Ea & Ra & La). pose proof (append_spec s E o Ea a R Ra) as S.
  destruct (append s o a) as [[s' o'] x]; destruct x.
  - destruct S as (ext & S1 & S2 & S3 & S4 & S5 & S6 & S7). split; [assumption|].
    eexists; split; [exact S3|]. destruct L as [L0 L1]; destruct La as [A0 A1]. split; [lia|].
    intros n Hn; rewrite S4 in Hn. rewrite blen_np_append, S5, (L1 n Hn), (A1 n (S7 n Hn)); reflexivity.
  - destruct S as [-> [-> _]]; split; [apply frame_refl | exists E; split; assumption].
  - destruct S as [-> [-> _]]; split; [apply frame_refl | exists E; split; assumption].
Qed.

(* ------------------------------------------------------------ set_selection *)
Definition putbuf (sl : sel) (b1 b2 : buf) : buf :=
  match np_put (bdata b1) sl (bdata b2) with
  | Ok d => mkbuf (bdt b1) d
  | Err _ => b1
  end.

Definition EmixW (sl : sel) (l0 : list name) (E Ea : name -> buf) (todo : list name) : name -> buf :=
  fun n => if mem n l0 && negb (mem n todo) then putbuf sl (E n) (Ea n) else E n.

Lemma blen_putbuf : forall sl b1 b2, blen (putbuf sl b1 b2) = blen b1.
Proof.
  intros; unfold putbuf. destruct (np_put (bdata b1) sl (bdata b2)) eqn:P; [|reflexivity].
  apply np_put_length in P; unfold blen, zlen; cbn; lia.
Qed.

(* columns of different names never alias between the target and the source table *)
Definition compat (o a : obj) : Prop :=
  forall n l2 m l1, assoc n (fields a) = Some l2 -> assoc m (fields o) = Some l1 -> n <> m -> l1 <> l2.

Lemma set_selection_spec : forall s E o Ea a sl, repr s E o -> repr s Ea a -> compat o a ->
  match set_selection s o a sl with
  | ((s', o'), x) =>
      exists todo, o' = o /\ repr s' (EmixW sl (fnl o) E Ea todo) o /\ frame_rel s o s' o
        /\ (x = Done -> todo = [] /\ forall n, In n (keys (fields o)) -> In n (keys (fields a)))
  end.
Proof.
  intros s E o Ea a sl R Ra Hc; unfold set_selection.
  assert (R0 : repr s (EmixW sl (fnl o) E Ea (fnl o)) o).
  { eapply repr_ext; [exact R|]. intros n Hn; unfold EmixW; destruct (mem n (fnl o)); reflexivity. }
  destruct (forallb (has a) (fnl o)) eqn:FA.
  2:{ exists (fnl o); splits; auto; try apply frame_refl. intros; congruence. }
  assert (Hsub : forall n, In n (keys (fields o)) -> In n (keys (fields a))).
  { intros n Hn; apply (repr_has _ _ _ _ Ra). eapply forallb_In; [exact FA|]. rewrite (r_fnl _ _ _ R); assumption. }
  pose (J := fun (todo : list name) (st : mstate) =>
    snd st = o /\ repr (fst st) (EmixW sl (fnl o) E Ea todo) o /\ frame_rel s o (fst st) o
    /\ (forall n l2, In n todo -> assoc n (fields a) = Some l2 -> rd (fst st) l2 = Some (Ea n))
    /\ NoDup todo /\ (forall n, In n todo -> In n (fnl o))).
  pose (F := fun (st : mstate) (x : outcome) =>
    exists todo, snd st = o /\ repr (fst st) (EmixW sl (fnl o) E Ea todo) o /\ frame_rel s o (fst st) o /\ x <> Done).
  pose proof (loop_ind _ (setsel_one sl a) J F (fnl o) (s, o)) as L.
  assert (J0 : J (fnl o) (s, o)).
  { unfold J; cbn [fst snd]; splits; auto; try apply frame_refl.
    - intros n l2 _ A. apply (r_cols _ _ _ Ra); apply assoc_In; assumption.
    - rewrite (r_fnl _ _ _ R); apply R. }
  specialize (L J0).
  assert (Hs : forall fn r st0, J (fn :: r) st0 ->
     match setsel_one sl a fn st0 with (st', Done) => J r st' | (st', x) => F st' x end).
  { intros fn r [s1 o1] (A1 & A2 & A3 & A4 & A5 & A6); cbn [fst snd] in *; subst o1.
    assert (Hfn : In fn (keys (fields o))) by (rewrite <- (r_fnl _ _ _ R); apply A6; left; reflexivity).
    destruct (repr_assoc _ _ _ _ A2 Hfn) as [l1 [B1 B2]].
    destruct (In_keys_assoc _ _ (Hsub fn Hfn)) as [l2 B3].
    pose proof (A4 fn l2 (or_introl eq_refl) B3) as B4.
    inversion A5 as [|? ? Hnr NDr]; subst.
    assert (Mfn : mem fn (fnl o) = true) by (apply mem_In; apply A6; left; reflexivity).
    assert (EW : EmixW sl (fnl o) E Ea (fn :: r) fn = E fn).
    { unfold EmixW. replace (mem fn (fn :: r)) with true; [rewrite andb_false_r; reflexivity|].
      symmetry; apply mem_In; left; reflexivity. }
    unfold setsel_one. rewrite B1, B3, B2, B4, EW.
    destruct (np_put (bdata (E fn)) sl (bdata (Ea fn))) as [d|e] eqn:P.
    - destruct (write_col s1 _ o fn l1 (mkbuf (bdt (E fn)) d) A2 B1) as [W1 W2].
      unfold J; cbn [fst snd]; splits; auto.
      + eapply repr_ext; [exact W1|]. intros n Hn; unfold upd, EmixW.
        destruct (n =? fn) eqn:Q.
        * apply Z.eqb_eq in Q; subst n. apply mem_false in Hnr. rewrite Hnr, Mfn; cbn.
          unfold putbuf; rewrite P; reflexivity.
        * cbn [mem existsb]; rewrite Q; reflexivity.
      + eapply frame_trans; eassumption.
      + intros n l2' Hn A. rewrite rd_wr_neq; [apply A4; [right; assumption | assumption]|].
        eapply Hc; [exact A | exact B1 |]. intros ->; contradiction.
      + intros n Hn; apply A6; right; assumption.
    - exists (fn :: r); cbn [fst snd]; splits; auto; discriminate. }
  specialize (L Hs).
  destruct (loop (setsel_one sl a) (fnl o) (s, o)) as [[s' o'] x]; destruct x.
  - destruct L as (A1 & A2 & A3 & A4 & A5 & A6); cbn [fst snd] in *. exists []; splits; auto.
  - destruct L as (todo & A1 & A2 & A3 & A4); cbn [fst snd] in *. exists todo; splits; auto; intros; congruence.
  - destruct L as (todo & A1 & A2 & A3 & A4); cbn [fst snd] in *. exists todo; splits; auto; intros; congruence.
Qed.

Lemma set_selection_inv : forall s o a sl, obj_inv s o -> obj_inv s a -> compat o a ->
  match set_selection s o a sl with
  | ((s', o'), _) => frame_rel s o s' o' /\ obj_inv s' o'
  end.
Proof.
  intros s o a sl (E & R & L) (Ea & Ra & La) Hc.
  pose proof (set_selection_spec s E o Ea a sl R Ra Hc) as S.
  destruct (set_selection s o a sl) as [[s' o'] x].
  destruct S as (todo & -> & S2 & S3 & S4). split; [assumption|].
  eexists; split; [exact S2|]. destruct L as [L0 L1]; split; [assumption|].
  intros n Hn; unfold EmixW. destruct (mem n (fnl o) && negb (mem n todo)); [rewrite blen_putbuf|]; apply L1; assumption.
Qed.

(* ------------------------------------------------------------ rename_fields *)
Lemma rename_pop_spec : forall fl conv d d' ins x,
  rename_pop fl conv d = (d', ins, x) -> NoDup (keys d) -> NoDup (vals d) ->
  (forall k l, In (k, l) d' -> In (k, l) d) /\ NoDup (keys d') /\ NoDup (map snd ins ++ vals d')
  /\ (forall l, In l (map snd ins) -> In l (vals d))
  /\ (NoDup (map fst conv) -> (forall k, In k (map fst conv) -> In k fl -> In k (keys d)) -> x = Done).
Proof.
  induction conv as [|[old new] r IH]; intros d d' ins x H NK NV; cbn in H.
  - inversion H; subst; cbn; splits; auto. intros l [].
  - destruct (mem old fl) eqn:M.
    + destruct (assoc old d) as [l|] eqn:A.
      * destruct (rename_pop fl r (ddel d old)) as [[d1 ins1] x1] eqn:RP. inversion H; subst; clear H.
        assert (NK1 : NoDup (keys (ddel d old))) by (rewrite keys_ddel; apply NoDup_lremove; assumption).
        pose proof (NoDup_vals_ddel d old NV) as NV1.
        destruct (IH _ _ _ _ RP NK1 NV1) as (I1 & I2 & I3 & I4 & I5).
        pose proof (vals_ddel_notin d old l NV NK A) as Hl.
        splits; auto.
        -- intros k l0 Hi; eapply ddel_In; apply I1; eassumption.
        -- cbn. constructor; [|assumption]. intros Q; apply in_app_or in Q; destruct Q as [Q|Q].
           ++ apply Hl; apply I4; assumption.
           ++ apply Hl. unfold vals in Q; apply in_map_iff in Q; destruct Q as [[k0 l0] [<- Q]].
              apply I1 in Q; apply (in_map snd) in Q; exact Q.
        -- intros l0 [<-|Q]; [apply assoc_In in A; apply (in_map snd) in A; exact A | eapply vals_ddel; apply I4; assumption].
        -- intros ND Hk; cbn in ND; inversion ND as [|? ? Hn ND']; subst. apply I5; [assumption|].
           intros k Hk1 Hk2. rewrite keys_ddel. apply lremove_In_other; [intros ->; contradiction|].
           apply Hk; [right; assumption | assumption].
      * inversion H; subst; cbn; splits; auto; [intros l [] |].
        intros ND Hk. exfalso. apply assoc_None in A; apply A. apply Hk; [left; reflexivity | apply mem_In; assumption].
    + destruct (IH _ _ _ _ H NK NV) as (I1 & I2 & I3 & I4 & I5). splits; auto.
      intros ND Hk; cbn in ND; inversion ND; subst. apply I5; [assumption|]. intros k Hk1 Hk2; apply Hk; [right; assumption | assumption].
Qed.

Lemma rename_ins_spec : forall ins d, NoDup (keys d) -> NoDup (map snd ins ++ vals d) ->
  NoDup (keys (rename_ins ins d)) /\ NoDup (vals (rename_ins ins d))
  /\ forall l, In l (vals (rename_ins ins d)) -> In l (map snd ins) \/ In l (vals d).
Proof.
  induction ins as [|[n l] r IH]; intros d NK ND; cbn in *.
  - splits; auto.
  - inversion ND as [|? ? Hl ND']; subst.
    assert (NK1 : NoDup (keys (dset d n l))) by (apply NoDup_keys_dset; assumption).
    assert (ND1 : NoDup (map snd r ++ vals (dset d n l))).
    { apply NoDup_app_intro.
      - eapply NoDup_app_l; eassumption.
      - apply NoDup_vals_dset; [eapply NoDup_app_r; eassumption|]. intros Q; apply Hl; apply in_or_app; right; assumption.
      - intros x Hx Q; apply vals_dset in Q; destruct Q as [->|Q].
        + apply Hl; apply in_or_app; left; assumption.
        + eapply NoDup_app_disj; eassumption. }
    destruct (IH _ NK1 ND1) as (A & B & C). splits; auto.
    intros l0 Hl0; destruct (C l0 Hl0) as [Q|Q]; [left; right; assumption|].
    apply vals_dset in Q; destruct Q as [->|Q]; [left; left; reflexivity | right; assumption].
Qed.

Definition dummy : buf := mkbuf 0 [].
Definition Ecanon (s : store) (d : list (name * loc)) : name -> buf :=
  fun n => match assoc n d with
           | Some l => match rd s l with Some b => b | None => dummy end
           | None => dummy
           end.

Lemma rename_fields_inv : forall s o conv must, obj_inv s o -> NoDup (map fst conv) ->
  match rename_fields s o conv must with
  | ((s', o'), x) => s' = s /\ frame_rel s o s' o' /\ obj_inv s' o' /\ olen o' = olen o
  end.
Proof.
  intros s o conv must (E & R & L) NDc; unfold rename_fields.
  assert (Same : s = s /\ frame_rel s o s o /\ obj_inv s o /\ olen o = olen o).
  { splits; auto; [apply frame_refl | exists E; split; assumption]. }
  destruct (must && negb (forallb (fun c => mem (fst c) (fnl o)) conv)); [exact Same|].
  pose proof (r_locs _ _ _ R) as NDl; unfold obj_locs in NDl.
  destruct (rename_pop (fnl o) conv (fields o)) as [[d ins] x] eqn:RP.
  destruct (rename_pop_spec _ _ _ _ _ _ RP (r_nodup _ _ _ R) (NoDup_app_l _ _ _ NDl)) as (I1 & I2 & I3 & I4 & I5).
  assert (X : x = Done).
  { apply I5; [assumption|]. intros k _ Hk; rewrite <- (r_fnl _ _ _ R); assumption. }
  subst x. destruct (rename_ins_spec ins d I2 I3) as (A & B & C).
  set (d' := rename_ins ins d) in *.
  assert (Hloc : forall l, In l (vals d') -> In l (vals (fields o))).
  { intros l Hl; destruct (C l Hl) as [Q|Q]; [apply I4; assumption|].
    unfold vals in Q; apply in_map_iff in Q; destruct Q as [[k0 l0] [<- Q]]. apply I1 in Q; apply (in_map snd) in Q; exact Q. }
  assert (Hcol : forall l, In l (vals (fields o)) -> exists k, In k (keys (fields o)) /\ rd s l = Some (E k)).
  { intros l Hl; unfold vals in Hl; apply in_map_iff in Hl; destruct Hl as [[k0 l0] [<- Q]].
    exists k0; split; [apply (in_map fst) in Q; exact Q | apply (r_cols _ _ _ R); assumption]. }
  splits; auto.
  - split; [lia | split; [|auto]]. intros l Hl; left; unfold obj_locs in *; cbn [fields oidx] in Hl.
    apply in_app_or in Hl; apply in_or_app; destruct Hl as [Hl|Hl]; [left; apply Hloc; assumption | right; assumption].
  - exists (Ecanon s d'); split.
    + constructor; cbn [fields fnl olen oidx]; auto.
      * intros n l Hi. unfold Ecanon. rewrite (In_assoc _ _ _ A Hi).
        destruct (Hcol l (Hloc l (in_map snd _ _ Hi))) as [k [_ Q]]. rewrite Q; reflexivity.
      * unfold obj_locs; cbn [fields oidx]. apply NoDup_app_intro; [assumption | eapply NoDup_app_r; eassumption|].
        intros x Hx; eapply NoDup_app_disj; [exact NDl | apply Hloc; assumption].
      * exact (r_idx _ _ _ R).
    + destruct L as [L0 L1]; split; [assumption|]. cbn [fields olen].
      intros n Hn. destruct (In_keys_assoc _ _ Hn) as [l Hl]. unfold Ecanon; rewrite Hl.
      destruct (Hcol l (Hloc l (in_map snd _ _ (assoc_In _ _ _ Hl)))) as [k [Hk Q]]. rewrite Q; apply L1; assumption.
Qed.
