(* C13 — characterising lemmas of the regenerated flux kernels named K_... and the
   real-analysis theorems about the closed-form integrals.  Everything at the
   real-number instance RNum; erf is a Section variable. *)
From Coq Require Import Reals ZArith List Bool Lra Lia.
From Coquelicot Require Import Coquelicot.
From Sky Require Import Result Num NumX NumR G_flux M_Flux.
Import ListNotations.
Open Scope R_scope.

(* ------------------------------------------------------------ unit-conversion tests *)
Definition conv_test_spec (test : option Z -> Z -> bool) : Prop :=
  forall unit su, test unit su = match unit with Some u => negb (u =? su)%Z | None => false end.

Lemma K_pl_call_conv : conv_test_spec pl_call_conv. Proof. intros [u|] su; reflexivity. Qed.
Lemma K_pl_int_conv : conv_test_spec pl_int_conv. Proof. intros [u|] su; reflexivity. Qed.
Lemma K_co_call_conv : conv_test_spec co_call_conv. Proof. intros [u|] su; reflexivity. Qed.
Lemma K_lp_call_conv : conv_test_spec lp_call_conv. Proof. intros [u|] su; reflexivity. Qed.
Lemma K_fn_call_conv : conv_test_spec fn_call_conv. Proof. intros [u|] su; reflexivity. Qed.
Lemma K_ue_int_conv : conv_test_spec ue_int_conv. Proof. intros [u|] su; reflexivity. Qed.
Lemma K_ut_int_conv : conv_test_spec ut_int_conv. Proof. intros [u|] su; reflexivity. Qed.
Lemma K_box_call_conv : conv_test_spec box_call_conv. Proof. intros [u|] su; reflexivity. Qed.
Lemma K_box_cdf_conv : conv_test_spec box_cdf_conv. Proof. intros [u|] su; reflexivity. Qed.
Lemma K_box_move_conv : conv_test_spec box_move_conv. Proof. intros [u|] su; reflexivity. Qed.
Lemma K_box_int_conv : conv_test_spec box_int_conv. Proof. intros [u|] su; reflexivity. Qed.
Lemma K_ga_call_conv : conv_test_spec ga_call_conv. Proof. intros [u|] su; reflexivity. Qed.
Lemma K_ga_move_conv : conv_test_spec ga_move_conv. Proof. intros [u|] su; reflexivity. Qed.
Lemma K_ga_int_conv : conv_test_spec ga_int_conv. Proof. intros [u|] su; reflexivity. Qed.

Section WithErf.
  Variable erfR : R -> R.
  Notation RN := (RNum erfR).

  Lemma half_R : ndiv RN (ofZ RN 1) (ofZ RN 2) = 1 / 2.
  Proof. num_R. reflexivity. Qed.

  (* ---------------------------------------------------------- scalings *)
  Lemma K_pl_call_scale x c : pl_call_scale RN x c = x * c. Proof. reflexivity. Qed.
  Lemma K_pl_int_scale1 x c : pl_int_scale1 RN x c = x * c. Proof. reflexivity. Qed.
  Lemma K_pl_int_scale2 x c : pl_int_scale2 RN x c = x * c. Proof. reflexivity. Qed.
  Lemma K_box_move_scale x c : box_move_scale RN x c = x * c. Proof. reflexivity. Qed.
  Lemma K_ga_move_scale x c : ga_move_scale RN x c = x * c. Proof. reflexivity. Qed.

  (* ---------------------------------------------------------- power law *)
  Lemma K_pl_call E E0 g : pl_call RN E E0 g = Rpower (E / E0) (- g).
  Proof. reflexivity. Qed.
  Lemma K_pl_is_g1 g : pl_is_g1 RN g = true <-> g = 1.
  Proof. unfold pl_is_g1. num_R. apply Reqb_true. Qed.
  Lemma K_pl_int_g1 E0 E1 E2 : pl_int_g1 RN E0 E1 E2 = E0 * ln (E2 / E1).
  Proof. reflexivity. Qed.
  (* Kahan's expm1 is exp x - 1 over the reals *)
  Lemma nexpm1_R x : nexpm1 RN x = exp x - 1.
  Proof.
    unfold nexpm1. cbv zeta. num_R. destruct (Reqb (exp x) 1) eqn:H.
    - apply Reqb_true in H. rewrite <- exp_0 in H. apply exp_inv in H. subst x. rewrite exp_0. lra.
    - apply Reqb_false in H. rewrite ln_exp.
      assert (x <> 0) by (intros ->; apply H; apply exp_0). field. assumption.
  Qed.
  (* since fix 9e8285f the code computes E0^g E1^(1-g) expm1((1-g) ln(E2/E1)) / (1-g) *)
  Lemma K_pl_int_gen E0 g E1 E2 : 0 < E1 -> 0 < E2 -> g <> 1 ->
    pl_int_gen RN E0 g E1 E2 = Rpower E0 g / (1 - g) * (Rpower E2 (1 - g) - Rpower E1 (1 - g)).
  Proof.
    intros H1 H2 Hg. unfold pl_int_gen. rewrite nexpm1_R. num_R.
    change (Rpower E0 g * Rpower E1 (1 - g) * (exp ((1 - g) * ln (E2 / E1)) - 1) / (1 - g)
            = Rpower E0 g / (1 - g) * (Rpower E2 (1 - g) - Rpower E1 (1 - g))).
    unfold Rpower. rewrite ln_div by assumption.
    replace (exp ((1 - g) * ln E2)) with (exp ((1 - g) * ln E1) * exp ((1 - g) * (ln E2 - ln E1)))
      by (rewrite <- exp_plus; f_equal; ring).
    field. lra.
  Qed.
  Lemma K_co_factor v E Ec : co_factor RN v E Ec = v * exp (- E / Ec).
  Proof. reflexivity. Qed.
  Lemma K_lp_call E E0 a b :
    lp_call RN E E0 a b = Rpower (E / E0) (- a - b * ln (E / E0)).
  Proof. reflexivity. Qed.
  Lemma K_ue_int a b : ue_int RN a b = b - a. Proof. reflexivity. Qed.
  Lemma K_ut_int a b : ut_int RN a b = b - a. Proof. reflexivity. Qed.

  (* ---------------------------------------------------------- box *)
  Lemma K_box_ctor_start t0 tw : box_ctor_start RN t0 tw = t0 - tw / 2.
  Proof. unfold box_ctor_start. num_R. reflexivity. Qed.
  Lemma K_box_ctor_stop t0 tw : box_ctor_stop RN t0 tw = t0 + tw / 2.
  Proof. unfold box_ctor_stop. num_R. reflexivity. Qed.
  Lemma K_box_from_t0 a b : box_from_t0 RN a b = (a + b) / 2.
  Proof. unfold box_from_t0. num_R. lra. Qed.
  Lemma K_box_from_tw a b : box_from_tw RN a b = b - a. Proof. reflexivity. Qed.
  Lemma K_box_get_t0 ts te : box_get_t0 RN ts te = (ts + te) / 2.
  Proof. unfold box_get_t0. num_R. lra. Qed.
  Lemma K_box_get_tw ts te : box_get_tw RN ts te = te - ts. Proof. reflexivity. Qed.
  Lemma K_box_set_t0_dt t old : box_set_t0_dt RN t old = t - old. Proof. reflexivity. Qed.
  Lemma K_box_set_tw_start t0 w : box_set_tw_start RN t0 w = t0 - w / 2.
  Proof. unfold box_set_tw_start. num_R. lra. Qed.
  Lemma K_box_set_tw_stop t0 w : box_set_tw_stop RN t0 w = t0 + w / 2.
  Proof. unfold box_set_tw_stop. num_R. lra. Qed.
  Lemma K_box_call_m t ts te : box_call_m RN t ts te = true <-> ts <= t <= te.
  Proof.
    unfold box_call_m. num_R. rewrite andb_true_iff, !Rleb_true. tauto.
  Qed.
  Lemma K_box_cdf_m0 t ts te : box_cdf_m0 RN t ts te = true <-> ts <= t <= te.
  Proof. unfold box_cdf_m0. num_R. rewrite andb_true_iff, !Rleb_true. tauto. Qed.
  Lemma K_box_cdf_m1 t te : box_cdf_m1 RN t te = true <-> te < t.
  Proof. unfold box_cdf_m1. num_R. apply Rltb_true. Qed.
  Lemma K_box_cdf_val t ts te : box_cdf_val RN t ts te = (t - ts) / (te - ts).
  Proof. reflexivity. Qed.
  Lemma K_box_move_start ts d : box_move_start RN ts d = ts + d. Proof. reflexivity. Qed.
  Lemma K_box_move_stop te d : box_move_stop RN te d = te + d. Proof. reflexivity. Qed.
  Lemma K_box_int_m t1 t2 ts te : box_int_m RN t1 t2 ts te = true <-> ts <= t2 /\ t1 <= te.
  Proof. unfold box_int_m. num_R. rewrite andb_true_iff, !Rleb_true. tauto. Qed.
  Lemma K_box_int_lo t1 ts : box_int_lo RN t1 ts = Rmax t1 ts. Proof. reflexivity. Qed.
  Lemma K_box_int_hi t2 te : box_int_hi RN t2 te = Rmin t2 te. Proof. reflexivity. Qed.
  Lemma K_box_int_val a b : box_int_val RN a b = b - a. Proof. reflexivity. Qed.

  (* ---------------------------------------------------------- gaussian *)
  Lemma K_ga_ctor_dt sg tol : ga_ctor_dt RN sg tol = sqrt (- 2 * (sg * sg) * ln tol).
  Proof. unfold ga_ctor_dt. num_R. f_equal. Qed.
  Lemma K_ga_set_sigma_dt sg tol : ga_set_sigma_dt RN sg tol = sqrt (- 2 * (sg * sg) * ln tol).
  Proof. unfold ga_set_sigma_dt. num_R. f_equal. Qed.
  Lemma K_ga_ctor_start t0 d : ga_ctor_start RN t0 d = t0 - d. Proof. reflexivity. Qed.
  Lemma K_ga_ctor_stop t0 d : ga_ctor_stop RN t0 d = t0 + d. Proof. reflexivity. Qed.
  Lemma K_ga_set_sigma_start t0 d : ga_set_sigma_start RN t0 d = t0 - d. Proof. reflexivity. Qed.
  Lemma K_ga_set_sigma_stop t0 d : ga_set_sigma_stop RN t0 d = t0 + d. Proof. reflexivity. Qed.
  Lemma K_ga_get_t0 ts te : ga_get_t0 RN ts te = (ts + te) / 2.
  Proof. unfold ga_get_t0. num_R. lra. Qed.
  Lemma K_ga_set_t0_dt t old : ga_set_t0_dt RN t old = t - old. Proof. reflexivity. Qed.
  Lemma K_ga_call_m t ts te : ga_call_m RN t ts te = true <-> ts <= t < te.
  Proof. unfold ga_call_m. num_R. rewrite andb_true_iff, Rleb_true, Rltb_true. tauto. Qed.
  Lemma K_ga_call_twossq s : ga_call_twossq RN s = 2 * s * s.
  Proof. unfold ga_call_twossq. num_R. reflexivity. Qed.
  Lemma K_ga_call_t0 ts te : ga_call_t0 RN ts te = (ts + te) / 2.
  Proof. unfold ga_call_t0. num_R. lra. Qed.
  Lemma K_ga_call_dt t t0 : ga_call_dt RN t t0 = t - t0. Proof. reflexivity. Qed.
  Lemma K_ga_call_val d q : ga_call_val RN d q = exp (- d * d / q). Proof. reflexivity. Qed.
  Lemma K_ga_move_start ts d : ga_move_start RN ts d = ts + d. Proof. reflexivity. Qed.
  Lemma K_ga_move_stop te d : ga_move_stop RN te d = te + d. Proof. reflexivity. Qed.
  Lemma K_ga_int_clip1 t ts te : ga_int_clip1 RN t ts te = Rmin (Rmax t ts) te. Proof. reflexivity. Qed.
  Lemma K_ga_int_clip2 t ts te : ga_int_clip2 RN t ts te = Rmin (Rmax t ts) te. Proof. reflexivity. Qed.
  Lemma K_ga_int_t0 ts te : ga_int_t0 RN ts te = (ts + te) / 2.
  Proof. unfold ga_int_t0. num_R. lra. Qed.
  Lemma K_ga_int_c1 sg : ga_int_c1 RN sg = sqrt (PI / 2) * sg.
  Proof. unfold ga_int_c1. num_R. reflexivity. Qed.
  Lemma K_ga_int_c2 sg : ga_int_c2 RN sg = sqrt 2 * sg.
  Proof. unfold ga_int_c2. num_R. reflexivity. Qed.
  Lemma K_ga_int_i1 c1 c2 t t0 : ga_int_i1 RN c1 c2 t t0 = c1 * erfR ((t - t0) / c2).
  Proof. reflexivity. Qed.
  Lemma K_ga_int_i2 c1 c2 t t0 : ga_int_i2 RN c1 c2 t t0 = c1 * erfR ((t - t0) / c2).
  Proof. reflexivity. Qed.
  Lemma K_ga_int_val a b : ga_int_val RN a b = b - a. Proof. reflexivity. Qed.

  Lemma K_tp_total x : tp_total RN x = x. Proof. reflexivity. Qed.
  Lemma K_tp_total_ret x : tp_total_ret RN x = x. Proof. reflexivity. Qed.

  (* ---------------------------------------------------------- model, set_params *)
  Lemma K_ffm_flux p s e t : ffm_flux RN p s e t = p * s * e * t. Proof. reflexivity. Qed.
  Lemma K_mf_changed v c : mf_changed RN v c = true <-> v <> c.
  Proof. unfold mf_changed. num_R. rewrite negb_true_iff. apply Reqb_false. Qed.
  Lemma K_mf_unchanged v c : mf_changed RN v c = false <-> v = c.
  Proof. unfold mf_changed. num_R. rewrite negb_false_iff. apply Reqb_true. Qed.

  (* ========================================================== closed forms *)
  Lemma pl_integral_g1 E0 E1 E2 : pl_integral RN E0 1 E1 E2 = E0 * ln (E2 / E1).
  Proof.
    unfold pl_integral. destruct (pl_is_g1 RN 1) eqn:H.
    - apply K_pl_int_g1.
    - assert (pl_is_g1 RN 1 = true) by (apply K_pl_is_g1; reflexivity). congruence.
  Qed.
  Lemma pl_integral_gen E0 g E1 E2 : 0 < E1 -> 0 < E2 -> g <> 1 ->
    pl_integral RN E0 g E1 E2 = Rpower E0 g / (1 - g) * (Rpower E2 (1 - g) - Rpower E1 (1 - g)).
  Proof.
    intros H1 H2 Hg. unfold pl_integral. destruct (pl_is_g1 RN g) eqn:H.
    - apply K_pl_is_g1 in H. contradiction.
    - apply K_pl_int_gen; assumption.
  Qed.

  Lemma box_integral_spec ts te t1 t2 :
    box_integral RN ts te t1 t2 =
      if Rle_dec ts t2 then if Rle_dec t1 te then Rmin t2 te - Rmax t1 ts else 0 else 0.
  Proof.
    unfold box_integral. destruct (box_int_m RN t1 t2 ts te) eqn:H.
    - apply K_box_int_m in H. destruct H.
      rewrite K_box_int_val, K_box_int_lo, K_box_int_hi.
      destruct (Rle_dec ts t2); [|contradiction]. destruct (Rle_dec t1 te); [|contradiction]. reflexivity.
    - destruct (Rle_dec ts t2); [|reflexivity]. destruct (Rle_dec t1 te); [|reflexivity].
      assert (box_int_m RN t1 t2 ts te = true) by (apply K_box_int_m; split; assumption). congruence.
  Qed.

  Lemma gauss_integral_spec ts te sg t1 t2 :
    gauss_integral RN ts te sg t1 t2 =
      sqrt (PI / 2) * sg * erfR ((Rmin (Rmax t2 ts) te - (ts + te) / 2) / (sqrt 2 * sg))
      - sqrt (PI / 2) * sg * erfR ((Rmin (Rmax t1 ts) te - (ts + te) / 2) / (sqrt 2 * sg)).
  Proof.
    unfold gauss_integral. cbv zeta.
    rewrite K_ga_int_val, K_ga_int_i1, K_ga_int_i2, K_ga_int_c1, K_ga_int_c2, K_ga_int_t0,
      K_ga_int_clip1, K_ga_int_clip2. reflexivity.
  Qed.

  (* get_total_integral is a function of the current support window only (no memo) *)
  Lemma t_total_spec p :
    t_total RN p = match p with UnityT _ ts te | Box _ ts te | Gauss _ ts te _ _ => t_int RN p None ts te end.
  Proof. destruct p; cbn [t_total]; rewrite K_tp_total_ret, K_tp_total; reflexivity. Qed.

  (* ========================================================== power-law integral *)
  Lemma Rpower_div_split x E0 g : 0 < x -> 0 < E0 ->
    Rpower (x / E0) (- g) = Rpower E0 g * exp (- g * ln x).
  Proof.
    intros Hx H0. unfold Rpower. rewrite ln_div by assumption. rewrite <- exp_plus. f_equal. ring.
  Qed.

  Lemma pl_is_RInt_g1 E0 g E1 E2 : g = 1 -> 0 < E0 -> 0 < E1 <= E2 ->
    is_RInt (fun E => Rpower (E / E0) (- g)) E1 E2 (E0 * ln (E2 / E1)).
  Proof.
    intros Hg H0 [H1 H12].
    apply (is_RInt_ext (fun E => E0 / E)).
    { intros x Hx. rewrite Rmin_left, Rmax_right in Hx by lra.
      rewrite Rpower_Ropp. subst g. rewrite Rpower_1 by (apply Rdiv_lt_0_compat; lra). 
      assert (HH : forall a b : R, 0 < a -> 0 < b -> b / a = / (a / b)) by (intros; field; lra).
      apply HH; lra. }
    replace (E0 * ln (E2 / E1)) with (minus (E0 * ln E2) (E0 * ln E1)).
    2:{ unfold minus, plus, opp; simpl. rewrite ln_div by lra. ring. }
    apply (is_RInt_derive (fun E => E0 * ln E) (fun E => E0 / E)).
    - intros x Hx. rewrite Rmin_left, Rmax_right in Hx by lra.
      auto_derive; [lra | field; lra].
    - intros x Hx. rewrite Rmin_left, Rmax_right in Hx by lra.
      apply (ex_derive_continuous (fun E => E0 / E)). auto_derive. lra.
  Qed.

  Lemma pl_is_RInt_gen E0 g E1 E2 : 0 < E0 -> 0 < E1 <= E2 -> g <> 1 ->
    is_RInt (fun E => Rpower (E / E0) (- g)) E1 E2
            (Rpower E0 g / (1 - g) * (Rpower E2 (1 - g) - Rpower E1 (1 - g))).
  Proof.
    intros H0 [H1 H12] Hg.
    apply (is_RInt_ext (fun E => Rpower E0 g * exp (- g * ln E))).
    { intros x Hx. rewrite Rmin_left, Rmax_right in Hx by lra.
      symmetry. apply Rpower_div_split; lra. }
    set (C := Rpower E0 g).
    replace (C / (1 - g) * (Rpower E2 (1 - g) - Rpower E1 (1 - g)))
      with (minus (C / (1 - g) * exp ((1 - g) * ln E2)) (C / (1 - g) * exp ((1 - g) * ln E1))).
    2:{ unfold minus, plus, opp, Rpower; simpl. ring. }
    apply (is_RInt_derive (fun E => C / (1 - g) * exp ((1 - g) * ln E))
                          (fun E => C * exp (- g * ln E))).
    - intros x Hx. rewrite Rmin_left, Rmax_right in Hx by lra.
      auto_derive; [lra |].
      replace ((1 - g) * ln x) with (ln x + - g * ln x) by ring.
      rewrite exp_plus, exp_ln by lra. field. split; lra.
    - intros x Hx. rewrite Rmin_left, Rmax_right in Hx by lra.
      apply (ex_derive_continuous (fun E => C * exp (- g * ln E))). auto_derive. lra.
  Qed.

  Theorem pl_is_RInt E0 g E1 E2 : 0 < E0 -> 0 < E1 <= E2 ->
    is_RInt (fun E => pl_call RN E E0 g) E1 E2 (pl_integral RN E0 g E1 E2).
  Proof.
    intros H0 H12.
    apply (is_RInt_ext (fun E => Rpower (E / E0) (- g))); [intros; symmetry; apply K_pl_call|].
    destruct (Req_dec g 1) as [Hg|Hg].
    - replace (pl_integral RN E0 g E1 E2) with (E0 * ln (E2 / E1)) by (rewrite Hg, pl_integral_g1; reflexivity).
      apply pl_is_RInt_g1; assumption.
    - rewrite pl_integral_gen by lra. apply pl_is_RInt_gen; assumption.
  Qed.

  (* additivity of every closed form over adjacent intervals *)
  Lemma pl_additive E0 g a b c : 0 < a -> 0 < b -> 0 < c ->
    pl_integral RN E0 g a b + pl_integral RN E0 g b c = pl_integral RN E0 g a c.
  Proof.
    intros Ha Hb Hc. destruct (Req_dec g 1) as [->|Hg].
    - rewrite !pl_integral_g1, !ln_div by lra. ring.
    - rewrite !pl_integral_gen by assumption. field. lra.
  Qed.
  Lemma unity_additive a b c : ue_int RN a b + ue_int RN b c = ue_int RN a c.
  Proof. rewrite !K_ue_int. ring. Qed.
  Lemma unity_t_additive a b c : ut_int RN a b + ut_int RN b c = ut_int RN a c.
  Proof. rewrite !K_ut_int. ring. Qed.
  Lemma gauss_additive ts te sg a b c :
    gauss_integral RN ts te sg a b + gauss_integral RN ts te sg b c = gauss_integral RN ts te sg a c.
  Proof. rewrite !gauss_integral_spec. ring. Qed.
  Lemma box_additive ts te a b c : ts <= te -> a <= b <= c ->
    box_integral RN ts te a b + box_integral RN ts te b c = box_integral RN ts te a c.
  Proof.
    intros Hw [Hab Hbc]. rewrite !box_integral_spec.
    unfold Rmin, Rmax.
    repeat (match goal with |- context [Rle_dec ?x ?y] => destruct (Rle_dec x y) end); lra.
  Qed.
End WithErf.
