(* C05 — the criteria of the spatial event selection methods at the real-number
   reading: characterising lemmas of the regenerated formulas and the geometry
   facts the property relies on. *)
From Coq Require Import Reals ZArith List Bool Lra Lia.
From Sky Require Import Num NumR G_select M_SelectNum.
Import ListNotations.
Open Scope R_scope.

(* np.where(d >= pi, 2 pi - d, d) *)
Definition wrapd (x : R) : R := if Rleb PI x then 2 * PI - x else x.

Section R.
  Variable erf : R -> R.
  Let N := RNum erf.

  (* ---------------------------------------------------------------- *)
  (* characterising lemmas: one per kernel                             *)

  Lemma K_db_mask_dec e s d : db_mask_dec N e s d = Rltb (s - d) e && Rltb e (s + d).
  Proof. reflexivity. Qed.
  Lemma K_rb_dec_minus s d : rb_dec_minus N s d = Rmax (- PI / 2) (s - d).
  Proof. unfold rb_dec_minus, N. num_R. reflexivity. Qed.
  Lemma K_rb_dec_plus s d : rb_dec_plus N s d = Rmin (s + d) (PI / 2).
  Proof. unfold rb_dec_plus, N. num_R. reflexivity. Qed.
  Lemma K_rb_cosfact lo hi : rb_cosfact N lo hi = Rmin (cos lo) (cos hi).
  Proof. reflexivity. Qed.
  Lemma K_rb_dRA_half d c : rb_dRA_half N d c = Rmin (2 * PI) (Rabs (d / c)).
  Proof. unfold rb_dRA_half, N. num_R. reflexivity. Qed.
  Lemma K_rb_ra_dist e s : rb_ra_dist N e s = Rabs (Rfmod (e - s + PI) (2 * PI) - PI).
  Proof. unfold rb_ra_dist, N. num_R. reflexivity. Qed.
  Lemma K_rb_mask_ra d h : rb_mask_ra N d h = Rltb d h.
  Proof. reflexivity. Qed.
  Lemma K_sb_dec_minus s d : sb_dec_minus N s d = Rmax (- PI / 2) (s - d).
  Proof. unfold sb_dec_minus, N. num_R. reflexivity. Qed.
  Lemma K_sb_dec_plus s d : sb_dec_plus N s d = Rmin (s + d) (PI / 2).
  Proof. unfold sb_dec_plus, N. num_R. reflexivity. Qed.
  Lemma K_sb_cosfact lo hi : sb_cosfact N lo hi = Rmin (cos lo) (cos hi).
  Proof. reflexivity. Qed.
  Lemma K_sb_dRA_half d c : sb_dRA_half N d c = Rmin (2 * PI) (Rabs (d / c)).
  Proof. unfold sb_dRA_half, N. num_R. reflexivity. Qed.
  Lemma K_sb_ra_diff e s : sb_ra_diff N e s = Rfmod (Rabs (e - s)) (2 * PI).
  Proof. unfold sb_ra_diff, N. num_R. reflexivity. Qed.
  Lemma K_sb_b_ra_diff e s : sb_b_ra_diff N e s = Rfmod (Rabs (e - s)) (2 * PI).
  Proof. unfold sb_b_ra_diff, N. num_R. reflexivity. Qed.
  Lemma K_sb_ra_mod x : sb_ra_mod N x = wrapd x.
  Proof. unfold sb_ra_mod, wrapd, N. num_R. reflexivity. Qed.
  Lemma K_sb_b_ra_mod x : sb_b_ra_mod N x = wrapd x.
  Proof. unfold sb_b_ra_mod, wrapd, N. num_R. reflexivity. Qed.
  Lemma K_sb_mask_ra x h : sb_mask_ra N x h = Rltb x h.
  Proof. reflexivity. Qed.
  Lemma K_sb_b_mask_ra x h : sb_b_mask_ra N x h = Rltb x h.
  Proof. reflexivity. Qed.
  Lemma K_sb_mask_dec e s d : sb_mask_dec N e s d = Rltb (s - d) e && Rltb e (s + d).
  Proof. reflexivity. Qed.
  Lemma K_pf_mask psi f : pf_mask N psi f = Rltb psi f.
  Proof. reflexivity. Qed.
  Lemma K_ae_mask_psi err psi fl f : ae_mask_psi N err psi fl f = Rleb f err || Rltb psi fl.
  Proof. reflexivity. Qed.
  Lemma K_as_delta a b : as_delta_ra N a b = Rabs (a - b) /\ as_delta_dec N a b = Rabs (a - b).
  Proof. split; reflexivity. Qed.
  Lemma K_as_x dd d1 d2 dr :
    as_x N dd d1 d2 dr = sin (dd / 2) * sin (dd / 2) + cos d1 * cos d2 * (sin (dr / 2) * sin (dr / 2)).
  Proof. unfold as_x, N. num_R. reflexivity. Qed.
  Lemma K_as_clip x :
    as_lo_mask N x = Rltb x 0 /\ as_lo_val N = 0 /\ as_hi_mask N x = Rltb 1 x /\ as_hi_val N = 1.
  Proof. unfold as_lo_mask, as_lo_val, as_hi_mask, as_hi_val, N. num_R. repeat split; reflexivity. Qed.
  Lemma K_as_psi x : as_psi N x = 2 * asin (sqrt x).
  Proof. unfold as_psi, N. num_R. reflexivity. Qed.

  (* ---------------------------------------------------------------- *)
  (* the criteria in closed form                                       *)

  Lemma dec_crit_R d s e : dec_crit N d s e = true <-> s - d < e < s + d.
  Proof. unfold dec_crit. rewrite K_db_mask_dec, andb_true_iff, !Rltb_true. tauto. Qed.

  (* the documented criterion: declination within delta of the source's *)
  Lemma dec_crit_abs d s e : dec_crit N d s e = true <-> Rabs (e - s) < d.
  Proof.
    rewrite dec_crit_R. split.
    - intros (H1 & H2). apply Rabs_def1; lra.
    - intros H. apply Rabs_def2 in H. lra.
  Qed.

  (* DecBand and SpatialBox use the same declination criterion *)
  Lemma box_dec_crit_R d s e : box_dec_crit N d s e = dec_crit N d s e.
  Proof. unfold box_dec_crit, dec_crit. now rewrite K_sb_mask_dec, K_db_mask_dec. Qed.

  (* the band used for the RA half width never leaves [-pi/2, pi/2] *)
  Lemma band_in_range s d :
    (- PI / 2 <= rb_dec_minus N s d /\ rb_dec_plus N s d <= PI / 2)
    /\ (- PI / 2 <= sb_dec_minus N s d /\ sb_dec_plus N s d <= PI / 2).
  Proof.
    rewrite K_rb_dec_minus, K_rb_dec_plus, K_sb_dec_minus, K_sb_dec_plus.
    repeat split; try apply Rmax_l; apply Rmin_r.
  Qed.

  (* the two textual copies of the RA mask in SpatialBox (batched / unbatched) agree *)
  Lemma box_ra_copies d sra sdec era : box_ra_crit_b N d sra sdec era = box_ra_crit N d sra sdec era.
  Proof.
    unfold box_ra_crit_b, box_ra_crit.
    pose proof (K_sb_b_mask_ra (sb_b_ra_mod N (sb_b_ra_diff N era sra)) (sb_half N d sdec)) as A.
    pose proof (K_sb_mask_ra (sb_ra_mod N (sb_ra_diff N era sra)) (sb_half N d sdec)) as B.
    pose proof (K_sb_b_ra_mod (sb_b_ra_diff N era sra)) as C.
    pose proof (K_sb_ra_mod (sb_ra_diff N era sra)) as D.
    pose proof (K_sb_b_ra_diff era sra) as E1. pose proof (K_sb_ra_diff era sra) as E2.
    congruence.
  Qed.

  (* RABand and SpatialBox use the same half width *)
  Lemma half_same d s : sb_half N d s = rb_half N d s.
  Proof.
    unfold sb_half, rb_half.
    now rewrite K_sb_dRA_half, K_rb_dRA_half, K_sb_cosfact, K_rb_cosfact,
                K_sb_dec_minus, K_sb_dec_plus, K_rb_dec_minus, K_rb_dec_plus.
  Qed.

  Lemma half_range d s : 0 <= rb_half N d s <= 2 * PI.
  Proof.
    unfold rb_half. rewrite K_rb_dRA_half. split; [|apply Rmin_l].
    apply Rmin_glb; [pose proof PI_RGT_0; lra|apply Rabs_pos].
  Qed.

  (* ---------------------------------------------------------------- *)
  (* np.mod with a positive divisor                                    *)

  Lemma Int_part_unique r z : IZR z <= r < IZR z + 1 -> Int_part r = z.
  Proof.
    intros (H1 & H2). destruct (base_Int_part r) as (B1 & B2).
    assert (IZR z < IZR (Int_part r) + 1) by lra.
    assert (IZR (Int_part r) < IZR z + 1) by lra.
    rewrite <- plus_IZR in *. apply lt_IZR in H, H0. lia.
  Qed.

  Lemma Rfmod_shift x y (k : Z) : 0 < y -> IZR k * y <= x < (IZR k + 1) * y -> Rfmod x y = x - IZR k * y.
  Proof.
    intros Hy (H1 & H2). unfold Rfmod, Rfloor.
    rewrite (Int_part_unique (x / y) k); [lra|].
    split.
    - apply Rmult_le_reg_r with y; [assumption|]. unfold Rdiv. rewrite Rmult_assoc, Rinv_l by lra. lra.
    - apply Rmult_lt_reg_r with y; [assumption|]. unfold Rdiv. rewrite Rmult_assoc, Rinv_l by lra. lra.
  Qed.

  Lemma Rfmod_range x y : 0 < y -> 0 <= Rfmod x y < y.
  Proof.
    intros Hy. unfold Rfmod, Rfloor. destruct (base_Int_part (x / y)) as (B1 & B2).
    assert (E : x = y * (x / y)) by (field; lra).
    split.
    - assert (y * IZR (Int_part (x / y)) <= y * (x / y)) by (apply Rmult_le_compat_l; lra). lra.
    - assert (y * (x / y - 1) < y * IZR (Int_part (x / y))) by (apply Rmult_lt_compat_l; lra). lra.
  Qed.

  (* the wrapped RA distance of RABand is a distance on the circle: in [0, pi] for all inputs *)
  Lemma ra_dist_range e s : 0 <= rb_ra_dist N e s <= PI.
  Proof.
    rewrite K_rb_ra_dist. pose proof PI_RGT_0 as P.
    destruct (Rfmod_range (e - s + PI) (2 * PI)) as (H1 & H2); [lra|].
    split; [apply Rabs_pos|]. apply Rabs_le. lra.
  Qed.

  (* both codings of the RA distance (np.mod(d + pi) - pi in RABand; np.mod(|d|, 2 pi) folded by
     np.where in SpatialBox) agree for ALL right ascensions, normalised or not *)
  Lemma Rfmod_at x y (k : Z) T : 0 < y -> T = IZR k * y -> T <= x < T + y -> Rfmod x y = x - T.
  Proof. intros Hy -> H. apply Rfmod_shift; [assumption|]. lra. Qed.

  Lemma wrap_fold d : Rabs (Rfmod (d + PI) (2 * PI) - PI) = wrapd (Rfmod (Rabs d) (2 * PI)).
  Proof.
    pose proof PI_RGT_0 as P. assert (Hy : 0 < 2 * PI) by lra.
    set (k := Int_part ((d + PI) / (2 * PI))). set (T := IZR k * (2 * PI)).
    assert (HT : T <= d + PI < T + 2 * PI).
    { pose proof (Rfmod_range (d + PI) (2 * PI) Hy) as H. unfold Rfmod, Rfloor in H. fold k in H. unfold T. lra. }
    rewrite (Rfmod_at (d + PI) (2 * PI) k T Hy eq_refl HT).
    set (u := d - T). replace (d + PI - T - PI) with u by (unfold u; ring).
    assert (Hu : - PI <= u < PI) by (unfold u; lra).
    assert (W : forall m, 0 <= m < 2 * PI -> wrapd m = if Rle_dec PI m then 2 * PI - m else m).
    { intros m _. unfold wrapd, Rleb. destruct (Rle_dec PI m); reflexivity. }
    destruct (Z_le_gt_dec k (-1)) as [Kn|Kp].
    - (* k <= -1 : d < 0 *)
      apply IZR_le in Kn. assert (HTn : T <= - (2 * PI)) by (unfold T; nra).
      rewrite (Rabs_left d) by (unfold u in Hu; lra).
      destruct (Rle_dec u 0) as [U|U].
      + rewrite (Rfmod_at (- d) (2 * PI) (- k) (- T) Hy) by (try (rewrite opp_IZR; unfold T; ring); unfold u in *; lra).
        replace (- d - - T) with (- u) by (unfold u; ring). rewrite W by lra.
        rewrite (Rabs_left1 u) by assumption. destruct (Rle_dec PI (- u)); lra.
      + rewrite (Rfmod_at (- d) (2 * PI) (- k - 1) (- T - 2 * PI) Hy)
          by (try (rewrite minus_IZR, opp_IZR; unfold T; ring); unfold u in *; lra).
        replace (- d - (- T - 2 * PI)) with (2 * PI - u) by (unfold u; ring). rewrite W by lra.
        rewrite (Rabs_right u) by lra. destruct (Rle_dec PI (2 * PI - u)); lra.
    - destruct (Z.eq_dec k 0) as [K0|K0].
      + (* k = 0 *)
        assert (HT0 : T = 0) by (unfold T; rewrite K0; ring). assert (Hud : u = d) by (unfold u; lra).
        rewrite Hud in *. destruct (Rle_dec 0 d) as [D|D].
        * rewrite (Rabs_right d) by lra.
          rewrite (Rfmod_at d (2 * PI) 0 0 Hy) by (try ring; lra). rewrite Rminus_0_r, W by lra.
          destruct (Rle_dec PI d); lra.
        * rewrite (Rabs_left d) by lra.
          rewrite (Rfmod_at (- d) (2 * PI) 0 0 Hy) by (try ring; lra). rewrite Rminus_0_r, W by lra.
          destruct (Rle_dec PI (- d)); lra.
      + (* k >= 1 : d > 0 *)
        assert (K1 : (1 <= k)%Z) by lia. apply IZR_le in K1. assert (HTp : 2 * PI <= T) by (unfold T; nra).
        rewrite (Rabs_right d) by (unfold u in Hu; lra).
        destruct (Rle_dec 0 u) as [U|U].
        * rewrite (Rfmod_at d (2 * PI) k T Hy eq_refl) by (unfold u in *; lra). fold u. rewrite W by lra.
          rewrite (Rabs_right u) by lra. destruct (Rle_dec PI u); lra.
        * rewrite (Rfmod_at d (2 * PI) (k - 1) (T - 2 * PI) Hy)
            by (try (rewrite minus_IZR; unfold T; ring); unfold u in *; lra).
          replace (d - (T - 2 * PI)) with (u + 2 * PI) by (unfold u; ring). rewrite W by lra.
          rewrite (Rabs_left u) by lra. destruct (Rle_dec PI (u + 2 * PI)); lra.
  Qed.

  Lemma ra_codings_agree e s : rb_ra_dist N e s = sb_ra_mod N (sb_ra_diff N e s).
  Proof. rewrite K_rb_ra_dist, K_sb_ra_mod, K_sb_ra_diff. apply wrap_fold. Qed.

  (* so RABand and the RA part of SpatialBox select the same pairs, for all inputs *)
  Lemma raband_box_same d sra sdec era :
    raband_crit N d sra sdec era = box_ra_crit N d sra sdec era.
  Proof.
    unfold raband_crit, box_ra_crit.
    pose proof (K_rb_mask_ra (rb_ra_dist N era sra) (rb_half N d sdec)) as A.
    pose proof (K_sb_mask_ra (sb_ra_mod N (sb_ra_diff N era sra)) (sb_half N d sdec)) as B.
    pose proof (half_same d sdec) as H. pose proof (ra_codings_agree era sra) as C. congruence.
  Qed.

  (* closed form of the RA criterion of both methods: the distance on the circle, i.e. the
     distance of the RA difference to the nearest multiple of 2 pi, is below the half width *)
  Lemma ra_dist_circle e s (k : Z) :
    Rabs (e - s - IZR k * (2 * PI)) <= PI -> rb_ra_dist N e s = Rabs (e - s - IZR k * (2 * PI)).
  Proof.
    intros H0. pose proof PI_RGT_0 as P. rewrite K_rb_ra_dist.
    assert (H : - PI <= e - s - IZR k * (2 * PI) <= PI)
      by (unfold Rabs in H0; destruct (Rcase_abs (e - s - IZR k * (2 * PI))); lra).
    destruct (Req_dec (e - s - IZR k * (2 * PI)) PI) as [Hp|Hp].
    - rewrite (Rfmod_at (e - s + PI) (2 * PI) (k + 1) (IZR k * (2 * PI) + 2 * PI))
        by (try (rewrite plus_IZR; ring); lra).
      rewrite Hp. replace (e - s + PI - (IZR k * (2 * PI) + 2 * PI) - PI) with (- PI) by lra.
      rewrite Rabs_Ropp. reflexivity.
    - rewrite (Rfmod_at (e - s + PI) (2 * PI) k (IZR k * (2 * PI))) by (try reflexivity; lra).
      f_equal. ring.
  Qed.

  (* angular_separation returns an angle in [0, pi] for all inputs *)
  Lemma angsep_range ra1 dec1 ra2 dec2 : 0 <= angsep N ra1 dec1 ra2 dec2 <= PI.
  Proof.
    unfold angsep. cbv zeta.
    set (x0 := as_x N _ _ _ _).
    destruct (K_as_clip x0) as (L1 & L2 & _). rewrite L1, L2.
    set (x1 := if Rltb x0 0 then 0 else x0).
    destruct (K_as_clip x1) as (_ & _ & H1 & H2). rewrite H1, H2.
    set (x2 := if Rltb 1 x1 then 1 else x1).
    assert (Hx : 0 <= x2 <= 1).
    { unfold x2, x1. destruct (Rltb x0 0) eqn:E0.
      - destruct (Rltb 1 0) eqn:E1; [apply Rltb_true in E1; lra|lra].
      - apply Rltb_false in E0. destruct (Rltb 1 x0) eqn:E1; [lra|apply Rltb_false in E1; lra]. }
    rewrite K_as_psi.
    assert (Hs : 0 <= sqrt x2 <= 1).
    { split; [apply sqrt_pos|]. rewrite <- sqrt_1. apply sqrt_le_1_alt. lra. }
    pose proof (asin_bound (sqrt x2)) as (B1 & B2).
    assert (0 <= asin (sqrt x2)).
    { destruct (Rle_dec 0 (asin (sqrt x2))) as [Q|Q]; [assumption|]. exfalso.
      assert (sin (asin (sqrt x2)) < 0) by (apply sin_lt_0_var; pose proof PI_RGT_0; lra).
      rewrite sin_asin in H by lra. lra. }
    lra.
  Qed.

  (* ---------------------------------------------------------------- *)
  (* angular_separation is the great-circle distance, for ALL right ascensions and
     declinations (no range assumption: the haversine term is even and 2 pi periodic
     in the RA difference, so the RA seam needs no special case)                     *)

  Definition gc_dot (ra1 dec1 ra2 dec2 : R) : R :=
    sin dec1 * sin dec2 + cos dec1 * cos dec2 * cos (ra1 - ra2).

  Lemma sin2_half a : sin (a / 2) * sin (a / 2) = (1 - cos a) / 2.
  Proof.
    pose proof (cos_2a_sin (a / 2)) as H. replace (2 * (a / 2)) with a in H by field. lra.
  Qed.

  Lemma cos_Rabs a : cos (Rabs a) = cos a.
  Proof. unfold Rabs. destruct (Rcase_abs a); [apply cos_neg|reflexivity]. Qed.

  Lemma haversine_dot ra1 dec1 ra2 dec2 :
    as_x N (as_delta_dec N dec1 dec2) dec1 dec2 (as_delta_ra N ra1 ra2)
    = (1 - gc_dot ra1 dec1 ra2 dec2) / 2.
  Proof.
    rewrite K_as_x. destruct (K_as_delta dec1 dec2) as (_ & ->). destruct (K_as_delta ra1 ra2) as (-> & _).
    rewrite !sin2_half, !cos_Rabs, cos_minus. unfold gc_dot. field.
  Qed.

  Lemma gc_dot_bound ra1 dec1 ra2 dec2 : -1 <= gc_dot ra1 dec1 ra2 dec2 <= 1.
  Proof.
    unfold gc_dot. set (c := cos (ra1 - ra2)).
    pose proof (COS_bound (ra1 - ra2)) as Hc. fold c in Hc.
    pose proof (sin2_cos2 dec1) as H1. pose proof (sin2_cos2 dec2) as H2. unfold Rsqr in H1, H2.
    set (s1 := sin dec1) in *. set (s2 := sin dec2) in *. set (c1 := cos dec1) in *. set (c2 := cos dec2) in *.
    assert (A : 0 <= (1 + c) * ((c1 - c2) * (c1 - c2))) by (apply Rmult_le_pos; [lra|apply Rle_0_sqr]).
    assert (B : 0 <= (1 - c) * ((c1 + c2) * (c1 + c2))) by (apply Rmult_le_pos; [lra|apply Rle_0_sqr]).
    assert (A' : 0 <= (1 + c) * ((c1 + c2) * (c1 + c2))) by (apply Rmult_le_pos; [lra|apply Rle_0_sqr]).
    assert (B' : 0 <= (1 - c) * ((c1 - c2) * (c1 - c2))) by (apply Rmult_le_pos; [lra|apply Rle_0_sqr]).
    pose proof (Rle_0_sqr (s1 - s2)) as Q1. pose proof (Rle_0_sqr (s1 + s2)) as Q2. unfold Rsqr in Q1, Q2.
    split; nra.
  Qed.

  Theorem angsep_great_circle ra1 dec1 ra2 dec2 :
    angsep N ra1 dec1 ra2 dec2 = acos (gc_dot ra1 dec1 ra2 dec2).
  Proof.
    unfold angsep. cbv zeta. rewrite haversine_dot.
    set (g := gc_dot ra1 dec1 ra2 dec2). pose proof (gc_dot_bound ra1 dec1 ra2 dec2) as Hg. fold g in Hg.
    set (x0 := (1 - g) / 2). assert (Hx : 0 <= x0 <= 1) by (unfold x0; lra).
    destruct (K_as_clip x0) as (L1 & L2 & _). rewrite L1, L2.
    destruct (Rltb x0 0) eqn:E0; [apply Rltb_true in E0; lra|].
    destruct (K_as_clip x0) as (_ & _ & H1 & H2). rewrite H1, H2.
    destruct (Rltb 1 x0) eqn:E1; [apply Rltb_true in E1; lra|].
    rewrite K_as_psi.
    pose proof (acos_bound g) as (T1 & T2). set (t := acos g) in *.
    assert (Hc : cos t = g) by (apply cos_acos; lra).
    assert (Hx0 : x0 = sin (t / 2) * sin (t / 2)) by (rewrite sin2_half, Hc; reflexivity).
    assert (Hs : 0 <= sin (t / 2)) by (apply sin_ge_0; lra).
    rewrite Hx0, sqrt_square by assumption. rewrite asin_sin by lra. field.
  Qed.

  (* consequences: symmetric, invariant under whole turns of either right ascension *)
  Lemma angsep_turn ra1 dec1 ra2 dec2 (k : nat) :
    angsep N (ra1 + 2 * INR k * PI) dec1 ra2 dec2 = angsep N ra1 dec1 ra2 dec2.
  Proof.
    rewrite !angsep_great_circle. unfold gc_dot.
    replace (ra1 + 2 * INR k * PI - ra2) with (ra1 - ra2 + 2 * INR k * PI) by ring.
    now rewrite cos_period.
  Qed.

  Lemma angsep_sym ra1 dec1 ra2 dec2 : angsep N ra1 dec1 ra2 dec2 = angsep N ra2 dec2 ra1 dec1.
  Proof.
    rewrite !angsep_great_circle. unfold gc_dot. f_equal.
    replace (ra2 - ra1) with (- (ra1 - ra2)) by ring. rewrite cos_neg. ring.
  Qed.

  (* the AngErrOfPsi criterion (func(psi) = a psi + b) in closed form *)
  Lemma angerr_crit_R a b fl sra sdec era edec err :
    let psi := acos (gc_dot sra sdec era edec) in
    angerr_crit N a b fl sra sdec era edec err = true <-> (a * psi + b <= err \/ psi < fl).
  Proof.
    cbv zeta. unfold angerr_crit. cbv zeta. rewrite K_ae_mask_psi, angsep_great_circle.
    rewrite orb_true_iff, Rleb_true, Rltb_true. unfold N. num_R. tauto.
  Qed.
End R.

(* ------------------------------------------------------------------ *)
(* extension: angular_separation with psi_floor                         *)
Section RFloor.
  Variable erf : R -> R.
  Notation N := (RNum erf).

  Lemma K_as_has_floor o : as_has_floor o = match o with None => false | Some _ => true end.
  Proof. destruct o; reflexivity. Qed.
  Lemma K_as_floor psi f : as_floor N psi f = Rmax f psi.
  Proof.
    unfold as_floor. cbn [nltb RNum]. unfold Rmax.
    destruct (Rltb psi f) eqn:E; [apply Rltb_true in E|apply Rltb_false in E]; destruct (Rle_dec f psi); lra.
  Qed.

  Theorem angsep_floor_none ra1 dec1 ra2 dec2 :
    angsep_floor N ra1 dec1 ra2 dec2 None = acos (gc_dot ra1 dec1 ra2 dec2).
  Proof. unfold angsep_floor. cbv zeta. rewrite K_as_has_floor. apply angsep_great_circle. Qed.

  Theorem angsep_floor_some ra1 dec1 ra2 dec2 f :
    angsep_floor N ra1 dec1 ra2 dec2 (Some f) = Rmax f (acos (gc_dot ra1 dec1 ra2 dec2)).
  Proof. unfold angsep_floor. cbv zeta. rewrite K_as_has_floor, K_as_floor. now rewrite angsep_great_circle. Qed.

  Theorem angsep_floor_props ra1 dec1 ra2 dec2 f :
    let v := angsep_floor N ra1 dec1 ra2 dec2 (Some f) in
    let psi := angsep_floor N ra1 dec1 ra2 dec2 None in
    f <= v /\ psi <= v /\ (v = f \/ v = psi) /\ (f <= psi -> v = psi) /\ (psi < f -> v = f)
    /\ (f <= PI -> 0 <= f -> 0 <= v <= PI).
  Proof.
    cbv zeta. rewrite angsep_floor_some, angsep_floor_none.
    pose proof (acos_bound (gc_dot ra1 dec1 ra2 dec2)) as (B1 & B2).
    set (p := acos _) in *. unfold Rmax. destruct (Rle_dec f p); repeat split; try lra; auto; try (intros; lra).
  Qed.

  Lemma angsep_floor_list_spec rows o :
    angsep_floor_list N rows o
    = map (fun r => angsep_floor N (fst (fst (fst r))) (snd (fst (fst r))) (snd (fst r)) (snd r) o) rows.
  Proof. reflexivity. Qed.

  Example angsep_floor_example :
    angsep_floor N 0 0 0 0 (Some 1) = 1 /\ angsep_floor N 0 0 0 0 None = 0
    /\ angsep_floor N 0 0 0 0 (Some (-1)) = 0.
  Proof.
    rewrite !angsep_floor_some, !angsep_floor_none. unfold gc_dot.
    replace (0 - 0) with 0 by ring. rewrite sin_0, cos_0.
    replace (0 * 0 + 1 * 1 * 1) with 1 by ring. rewrite acos_1.
    unfold Rmax. repeat split.
    - destruct (Rle_dec 1 0); lra.
    - destruct (Rle_dec (-1) 0); lra.
  Qed.
End RFloor.
