(* C02 (and the slope clause of C01): the returned gradients are derivatives
   of the returned value — Coquelicot is_derive, real-number reading. *)
From Coq Require Import Reals ZArith List Bool Lra Lia.
From Coquelicot Require Import Coquelicot.
From Sky Require Import Num NumR G_llh M_Llh S_Llh P_Llh P_LlhValue.
Import ListNotations.
Open Scope R_scope.

(* ---- open conditions are locally stable *)
Lemma loc_lt_mul (a x t0 : R) : a < t0 * x -> locally t0 (fun t => a < t * x).
Proof.
  intros H.
  assert (Hd : 0 < (t0 * x - a) / (Rabs x + 1)).
  { apply Rdiv_lt_0_compat; [lra|]. pose proof (Rabs_pos x). lra. }
  exists (mkposreal _ Hd). intros t Ht.
  unfold ball in Ht. cbn in Ht. unfold AbsRing_ball, abs, minus, plus, opp in Ht. cbn in Ht.
  assert (Hx : Rabs ((t + - t0) * x) < t0 * x - a).
  { rewrite Rabs_mult.
    pose proof (Rabs_pos x) as Hp. pose proof (Rabs_pos (t + - t0)) as Hq.
    assert (Rabs (t + - t0) * (Rabs x + 1) < t0 * x - a).
    { apply (Rmult_lt_compat_r (Rabs x + 1)) in Ht; [|lra].
      unfold Rdiv in Ht. rewrite Rmult_assoc, Rinv_l in Ht by lra. lra. }
    nra. }
  apply Rabs_def2 in Hx. lra.
Qed.

Lemma loc_gt_mul (a x t0 : R) : t0 * x < a -> locally t0 (fun t => t * x < a).
Proof.
  intros H.
  assert (H' : - a < t0 * (- x)) by lra.
  destruct (loc_lt_mul (- a) (- x) t0 H') as (eps & He).
  exists eps. intros t Ht. specialize (He t Ht). lra.
Qed.

Section D.
  Variable erfR : R -> R.
  Notation Nm := (RNum erfR).

  (* ---- one event, as a function of ns *)
  Lemma ev_nsgrad_stable opa ns x :
    opa - 1 < ns * x -> ev_nsgrad Nm opa ns x = x / (1 + ns * x).
  Proof.
    intros H. unfold ev_nsgrad, ev_stable, ev_alpha_i.
    rewrite K_m_stable, K_alpha, K_alpha_i, K_nsgrad_stable, K_inv_opai.
    unfold Rltb. destruct (Rlt_dec (opa - 1) (ns * x)); [|lra]. unfold Rdiv. lra.
  Qed.

  Lemma ev_nsgrad_unstable opa ns x :
    ~ opa - 1 < ns * x ->
    ev_nsgrad Nm opa ns x = (1 - (ns * x - (opa - 1)) / opa) * x / opa.
  Proof.
    intros H. unfold ev_nsgrad, ev_stable, ev_tilde, ev_alpha_i.
    rewrite K_m_stable, K_alpha, K_alpha_i, K_nsgrad_unstable, K_tildealpha.
    unfold Rltb. destruct (Rlt_dec (opa - 1) (ns * x)); [lra|]. reflexivity.
  Qed.

  Lemma Lam_ns_derive opa ns x :
    0 < opa -> ns * x <> opa - 1 ->
    is_derive (fun t => Lam (opa - 1) (t * x)) ns (ev_nsgrad Nm opa ns x).
  Proof.
    intros Hopa Hne.
    destruct (Rlt_dec (opa - 1) (ns * x)) as [Hs|Hu].
    - (* stable: locally ln (1 + t x) *)
      rewrite ev_nsgrad_stable by exact Hs.
      apply (is_derive_ext_loc (fun t => ln (1 + t * x))).
      + destruct (loc_lt_mul _ _ _ Hs) as (eps & He). exists eps. intros t Ht.
        unfold Lam. destruct (Rlt_dec (opa - 1) (t * x)); [reflexivity|].
        exfalso. apply n. apply He. exact Ht.
      + auto_derive; [lra|]. field. lra.
    - (* Taylor branch *)
      rewrite ev_nsgrad_unstable by exact Hu.
      assert (Hlt : ns * x < opa - 1) by lra.
      apply (is_derive_ext_loc (fun t => Taylor (opa - 1) (t * x))).
      + destruct (loc_gt_mul _ _ _ Hlt) as (eps & He). exists eps. intros t Ht.
        unfold Lam. destruct (Rlt_dec (opa - 1) (t * x)) as [Hc|]; [|reflexivity].
        exfalso. specialize (He t Ht). lra.
      + unfold Taylor. auto_derive; [trivial|]. field. lra.
  Qed.

  (* ---- sums of differentiable functions *)
  Lemma Rsum_derive (fs : list (R -> R)) (ds : list R) (t0 : R) :
    List.Forall2 (fun f d => is_derive f t0 d) fs ds ->
    is_derive (fun t => Rsum (map (fun f => f t) fs)) t0 (Rsum ds).
  Proof.
    induction 1 as [|f d fs ds Hf _ IH].
    - cbn. apply (is_derive_const 0).
    - cbn [map Rsum fold_right].
      apply (is_derive_plus (fun t => f t) (fun t => Rsum (map (fun f0 => f0 t) fs))); assumption.
  Qed.

  (* ---- the pure-background term *)
  Lemma bkg_term_derive Nt Np ns :
    Nt <> 0 -> 0 < 1 - ns / Nt ->
    is_derive (fun t => (Nt - Np) * ln (1 - t / Nt)) ns (- ((Nt - Np) / (Nt - ns))).
  Proof.
    intros HN Hpos. auto_derive; [exact Hpos|].
    assert (Nt - ns <> 0).
    { intros E. replace ns with Nt in Hpos by lra. unfold Rdiv in Hpos.
      rewrite Rinv_r in Hpos by exact HN. lra. }
    field. split; [|exact HN].
    intros E. apply H. replace (Nt - ns) with (Nt * (1 - ns / Nt)) by (field; exact HN).
    unfold Rminus at 1, Rdiv. lra.
  Qed.

  (* C02.1: d/dns of the value is the returned ns-gradient *)
  Theorem value_ns_derive opa N ns (Rs : list R) :
    0 < opa -> N <> 0 -> 0 < 1 - ns / N ->
    List.Forall (fun r => ns * Xof N r <> opa - 1) Rs ->
    is_derive (fun t => evaluate_value Nm opa N t Rs) ns (evaluate_grad_ns Nm opa N ns Rs).
  Proof.
    intros Hopa HN Hpos Hthr.
    apply (is_derive_ext (fun t => logLambda_manual (opa - 1) N t Rs)).
    { intros t. symmetry. apply value_is_manual. }
    unfold evaluate_grad_ns, grad_ns, logLambda_manual, Xs.
    rewrite K_grad_ns, nsum_R, nlen_R, !map_length, !map_map.
    apply (is_derive_plus
             (fun t => Rsum (map (fun r => Lam (opa - 1) (t * Xof N r)) Rs))
             (fun t => (N - INR (length Rs)) * ln (1 - t / N))).
    - replace (map (fun r => Lam (opa - 1) (ns * Xof N r)) Rs) with
        (map (fun r => Lam (opa - 1) (ns * Xof N r)) Rs) by reflexivity.
      pose (fs := map (fun r => fun t => Lam (opa - 1) (t * Xof N r)) Rs).
      apply (is_derive_ext (fun t => Rsum (map (fun f => f t) fs))).
      { intros t. unfold fs. rewrite map_map. reflexivity. }
      apply Rsum_derive. unfold fs.
      induction Hthr as [|r l Hr _ IH]; cbn [map]; constructor; [|exact IH].
      rewrite K_Xi. apply Lam_ns_derive; assumption.
    - replace (- ((N - INR (length Rs)) / (N - ns))) with (- ((N - INR (length Rs)) / (N - ns))) by reflexivity.
      apply bkg_term_derive; assumption.
  Qed.

  (* ---- C01.2: value, slope and curvature of the Taylor continuation agree
     with the logarithm at the threshold *)
  Theorem taylor_slopes alpha :
    0 < 1 + alpha ->
    is_derive (fun a => ln (1 + a)) alpha (/ (1 + alpha))
    /\ is_derive (Taylor alpha) alpha (/ (1 + alpha))
    /\ is_derive (fun a => / (1 + a)) alpha (- / ((1 + alpha) * (1 + alpha)))
    /\ is_derive (fun a => / (1 + alpha) - (a - alpha) / (1 + alpha) / (1 + alpha)) alpha
                 (- / ((1 + alpha) * (1 + alpha)))
    /\ (forall a, is_derive (Taylor alpha) a
                    (/ (1 + alpha) - (a - alpha) / (1 + alpha) / (1 + alpha))).
  Proof.
    intros H. split; [|split; [|split; [|split]]].
    - auto_derive; [lra|]. field. lra.
    - unfold Taylor. auto_derive; [trivial|]. field. lra.
    - auto_derive; [lra|]. field. lra.
    - auto_derive; [trivial|]. field. lra.
    - intros a. unfold Taylor. auto_derive; [trivial|]. field. lra.
  Qed.

  (* ---- C02.3: in the all-stable regime calculate_ns_grad2 is the derivative
     of the ns-gradient *)
  Lemma nsgrad_stable_derive ns x :
    0 < 1 + ns * x ->
    is_derive (fun t => x / (1 + t * x)) ns (- (x / (1 + ns * x) * (x / (1 + ns * x)))).
  Proof. intros H. auto_derive; [lra|]. field. lra. Qed.

  Lemma bkg_grad_derive Nt Np ns :
    Nt - ns <> 0 ->
    is_derive (fun t => - ((Nt - Np) / (Nt - t))) ns (- ((Nt - Np) / ((Nt - ns) * (Nt - ns)))).
  Proof. intros H. auto_derive; [exact H|]. field. exact H. Qed.

  Theorem ns_grad2_is_derivative opa N ns (Rs : list R) (nb : R) :
    0 < opa -> N - ns <> 0 ->
    N = INR (length Rs) + nb ->
    List.Forall (fun r => opa - 1 < ns * Xof N r) Rs ->
    is_derive (fun t => evaluate_grad_ns Nm opa N t Rs) ns
              (evaluate_ns_grad2 Nm opa N ns Rs nb).
  Proof.
    intros Hopa HNns HN Hst.
    unfold evaluate_ns_grad2, ns_grad2, Xs.
    rewrite K_nsgrad2, K_N_total, nsum_R, nlen_R, !map_length, !map_map, <- HN.
    (* near ns every event stays stable *)
    assert (Hloc : locally ns (fun t => List.Forall (fun r => opa - 1 < t * Xof N r) Rs)).
    { clear - Hst. induction Hst as [|r l Hr _ IH].
      - exists (mkposreal 1 Rlt_0_1). intros t _. constructor.
      - destruct IH as (e1 & H1). destruct (loc_lt_mul _ _ _ Hr) as (e2 & H2).
        assert (He : 0 < Rmin e1 e2) by (apply Rmin_pos; [apply e1|apply e2]).
        exists (mkposreal _ He). intros t Ht. constructor.
        + apply H2. eapply ball_le; [|exact Ht]. cbn. apply Rmin_r.
        + apply H1. eapply ball_le; [|exact Ht]. cbn. apply Rmin_l. }
    apply (is_derive_ext_loc
             (fun t => Rsum (map (fun r => Xof N r / (1 + t * Xof N r)) Rs)
                       + - ((N - INR (length Rs)) / (N - t)))).
    { destruct Hloc as (eps & He). exists eps. intros t Ht. specialize (He t Ht).
      unfold evaluate_grad_ns, grad_ns, Xs.
      rewrite K_grad_ns, nsum_R, nlen_R, !map_length, !map_map.
      unfold Rminus at 3. f_equal. f_equal.
      apply map_ext_in. intros r Hin. rewrite List.Forall_forall in He.
      rewrite K_Xi. symmetry. apply ev_nsgrad_stable. apply He. exact Hin. }
    unfold Rminus at 1.
    apply (is_derive_plus
             (fun t => Rsum (map (fun r => Xof N r / (1 + t * Xof N r)) Rs))
             (fun t => - ((N - INR (length Rs)) / (N - t)))).
    - pose (fs := map (fun r => fun t => Xof N r / (1 + t * Xof N r)) Rs).
      apply (is_derive_ext (fun t => Rsum (map (fun f => f t) fs))).
      { intros t. unfold fs. rewrite map_map. reflexivity. }
      replace (- Rsum (map (fun x => k_nsgrad2_term Nm (ev_nsgrad Nm opa ns (k_Xi Nm x N))) Rs))
        with (Rsum (map (fun r => - (Xof N r / (1 + ns * Xof N r) * (Xof N r / (1 + ns * Xof N r)))) Rs)).
      2:{ clear - Hst Hopa. induction Hst as [|r l Hr _ IH]; [cbn; lra|].
          cbn [map Rsum fold_right] in *. rewrite K_nsgrad2_term, K_Xi.
          unfold Xof in *.
          rewrite (ev_nsgrad_stable opa ns ((r - 1) / N) Hr). unfold Rsum in IH. lra. }
      apply Rsum_derive. unfold fs. clear - Hst Hopa.
      induction Hst as [|r l Hr _ IH]; cbn [map]; constructor; [|exact IH].
      apply nsgrad_stable_derive. lra.
    - apply bkg_grad_derive. exact HNns.
  Qed.

  (* ---- C02.2: derivative with respect to any other parameter p.  The event
     quantities X_i are arbitrary differentiable functions of p. *)
  Lemma ev_pgrad_stable opa ns x dx :
    opa - 1 < ns * x -> ev_pgrad Nm opa ns x dx = ns * dx / (1 + ns * x).
  Proof.
    intros H. unfold ev_pgrad, ev_stable, ev_alpha_i.
    rewrite K_m_stable, K_alpha, K_alpha_i, K_gradp_stable, K_inv_opai.
    unfold Rltb. destruct (Rlt_dec (opa - 1) (ns * x)); [|lra]. unfold Rdiv. lra.
  Qed.

  Lemma ev_pgrad_unstable opa ns x dx :
    ~ opa - 1 < ns * x ->
    ev_pgrad Nm opa ns x dx = ns * (1 - (ns * x - (opa - 1)) / opa) * dx / opa.
  Proof.
    intros H. unfold ev_pgrad, ev_stable, ev_tilde, ev_alpha_i.
    rewrite K_m_stable, K_alpha, K_alpha_i, K_gradp_unstable, K_tildealpha.
    unfold Rltb. destruct (Rlt_dec (opa - 1) (ns * x)); [lra|]. reflexivity.
  Qed.

  (* open conditions pulled back along a function continuous at p0 *)
  Lemma loc_lt_comp (f : R -> R) (a c p0 : R) :
    continuous f p0 -> a < c * f p0 -> locally p0 (fun p => a < c * f p).
  Proof.
    intros Hc H.
    assert (H' : a < f p0 * c) by lra.
    pose proof (loc_lt_mul a c (f p0) H') as Hl.
    specialize (Hc (fun y => a < y * c) Hl).
    destruct Hc as (eps & He). exists eps. intros p Hp. specialize (He p Hp). cbn in He. lra.
  Qed.

  Lemma loc_gt_comp (f : R -> R) (a c p0 : R) :
    continuous f p0 -> c * f p0 < a -> locally p0 (fun p => c * f p < a).
  Proof.
    intros Hc H.
    assert (H' : f p0 * c < a) by lra.
    pose proof (loc_gt_mul a c (f p0) H') as Hl.
    specialize (Hc (fun y => y * c < a) Hl).
    destruct Hc as (eps & He). exists eps. intros p Hp. specialize (He p Hp). cbn in He. lra.
  Qed.

  Lemma Lam_p_derive opa ns (f : R -> R) (p0 df : R) :
    0 < opa -> is_derive f p0 df -> ns * f p0 <> opa - 1 ->
    is_derive (fun p => Lam (opa - 1) (ns * f p)) p0 (ev_pgrad Nm opa ns (f p0) df).
  Proof.
    intros Hopa Hf Hne.
    assert (Hc : continuous f p0).
    { apply (ex_derive_continuous f p0). exists df. exact Hf. }
    destruct (Rlt_dec (opa - 1) (ns * f p0)) as [Hs|Hu].
    - rewrite ev_pgrad_stable by exact Hs.
      apply (is_derive_ext_loc (fun p => ln (1 + ns * f p))).
      + destruct (loc_lt_comp f _ _ _ Hc Hs) as (eps & He). exists eps. intros p Hp.
        unfold Lam. destruct (Rlt_dec (opa - 1) (ns * f p)); [reflexivity|].
        exfalso. apply n. apply He. exact Hp.
      + auto_derive; [split; [exists df; exact Hf|lra]|].
        replace (Derive (fun x : R => f x) p0) with df
          by (symmetry; apply is_derive_unique; exact Hf).
        field. lra.
    - rewrite ev_pgrad_unstable by exact Hu.
      assert (Hlt : ns * f p0 < opa - 1) by lra.
      apply (is_derive_ext_loc (fun p => Taylor (opa - 1) (ns * f p))).
      + destruct (loc_gt_comp f _ _ _ Hc Hlt) as (eps & He). exists eps. intros p Hp.
        unfold Lam. destruct (Rlt_dec (opa - 1) (ns * f p)) as [Hcx|]; [|reflexivity].
        exfalso. specialize (He p Hp). lra.
      + unfold Taylor. auto_derive; [repeat split; exists df; exact Hf|].
        replace (Derive (fun x : R => f x) p0) with df
          by (symmetry; apply is_derive_unique; exact Hf).
        field. lra.
  Qed.

  (* the two masked sums of grads[p] add up to the sum over all events *)
  Lemma Rsum_filter_partition {A} (g : A -> R) (c : A -> bool) (l : list A) :
    Rsum (map g (filter c l)) + Rsum (map g (filter (fun a => negb (c a)) l)) = Rsum (map g l).
  Proof.
    unfold Rsum. induction l as [|a l IH]; cbn [filter map fold_right]; [lra|].
    destruct (c a); cbn [negb map fold_right]; lra.
  Qed.

  Lemma grad_p_sum opa ns (XdX : list (R * R)) :
    grad_p Nm opa ns XdX = Rsum (map (fun p => ev_pgrad Nm opa ns (fst p) (snd p)) XdX).
  Proof.
    unfold grad_p. cbv zeta.
    rewrite <- (Rsum_filter_partition (fun p => ev_pgrad Nm opa ns (fst p) (snd p))
                  (fun p => ev_stable Nm opa ns (fst p)) XdX).
    rewrite !nsum_R.
    destruct (filter (fun p => negb (ev_stable Nm opa ns (fst p))) XdX) eqn:E.
    - cbn [map Rsum fold_right]. lra.
    - reflexivity.
  Qed.

  Theorem value_p_derive opa N ns (fs : list (R -> R)) (dfs : list R) (p0 : R) :
    0 < opa ->
    List.Forall2 (fun f d => is_derive f p0 d) fs dfs ->
    List.Forall (fun f => ns * f p0 <> opa - 1) fs ->
    is_derive (fun p => log_lambda Nm opa N ns (map (fun f => f p) fs)) p0
              (grad_p Nm opa ns (combine (map (fun f => f p0) fs) dfs)).
  Proof.
    intros Hopa Hd Hthr. rewrite grad_p_sum.
    unfold log_lambda.
    apply (is_derive_ext
             (fun p => Rsum (map (fun g => g p) (map (fun f => fun q => Lam (opa - 1) (ns * f q)) fs))
                       + (N - INR (length fs)) * ln (1 + - ns / N))).
    { intros p. rewrite K_log_lambda, nsum_R, nlen_R, !map_length, !map_map.
      f_equal. f_equal. apply map_ext. intros f. symmetry. apply ev_loglam_Lam. }
    replace (Rsum (map (fun p => ev_pgrad Nm opa ns (fst p) (snd p)) (combine (map (fun f => f p0) fs) dfs)))
      with (Rsum (map (fun p => ev_pgrad Nm opa ns (fst p) (snd p)) (combine (map (fun f => f p0) fs) dfs)) + 0) by lra.
    apply (is_derive_plus
             (fun p => Rsum (map (fun g => g p) (map (fun f => fun q => Lam (opa - 1) (ns * f q)) fs)))
             (fun _ => (N - INR (length fs)) * ln (1 + - ns / N))).
    - apply Rsum_derive.
      induction Hd as [|f d fs' ds' Hf _ IH]; cbn [map combine]; constructor.
      + cbn [fst snd]. apply Lam_p_derive; [exact Hopa|exact Hf|]. inversion Hthr; assumption.
      + apply IH. inversion Hthr; assumption.
    - apply (is_derive_const ((N - INR (length fs)) * ln (1 + - ns / N))).
  Qed.
End D.
