(* Fair schedules (every child runs its program to the end or dies / is killed)
   lead to a state in which all children have ended, hence to an outcome;
   a worker whose task raised never has a result record; the order facts of
   the code are needed (witnesses); derivation of the child seeds. *)
From Coq Require Import ZArith List Bool Arith Lia.
From Sky Require Import Result G_parallel M_Parallel P_Parallel P_ParallelLoud P_ParallelTop.
Import ListNotations.
Local Open Scope nat_scope.

Section Fair.
Context {R : Type}.
Variable np : nat.
Variable wres : nat -> res (list R).
Variable r0 : list R.

Notation wstep := (wstep np wres).
Notation mstep := (@mstep R np).
Notation step := (step np wres).
Notation exec := (exec np wres).
Notation quiescent := (@quiescent R np).
Notation poll_bound := (@poll_bound R np).
Notation fair := (fair np wres).
Notation no_partial := (@no_partial R np).

(* how far a child process has got *)
Definition stage (k : wk) : nat :=
  match exitc k with
  | Some _ => 3
  | None => match pc k with WRun | WPutting => 0 | WPut => 1 | WDone => 2 end
  end.

Lemma stage_ended k : 3 <= stage k -> exitc k <> None.
Proof. unfold stage. destruct (exitc k); [discriminate|]. destruct (pc k); lia. Qed.

Lemma stage_le3 k : stage k <= 3.
Proof. unfold stage. destruct (exitc k); [lia|]. destruct (pc k); lia. Qed.

Lemma wstep_stage pid a (w : @world R) p : stage (wks w p) <= stage (wks (wstep pid a w) p).
Proof.
  rewrite wstep_eq.
  destruct ((1 <=? pid) && (pid <=? np)); [|lia].
  destruct (exitc (wks w pid)) eqn:He; [lia|].
  destruct (Nat.eq_dec p pid) as [->|Hne].
  - unfold stage at 1. rewrite He.
    destruct a as [id| | | | | |c]; destruct (pc (wks w pid)) eqn:Hpc; try destruct (wres pid);
      cbn [wks]; rewrite ?upd_eq; unfold stage; cbn [exitc pc]; rewrite ?He, ?Hpc; lia.
  - destruct a as [id| | | | | |c]; destruct (pc (wks w pid)); try destruct (wres pid);
      cbn [wks]; rewrite ?upd_neq by exact Hne; lia.
Qed.

Lemma mstep_stage (w : @world R) m w' m' p :
  mstep w m = Run w' m' -> stage (wks w' p) = stage (wks w p).
Proof.
  rewrite mstep_eq.
  destruct (ph m) as [|ae|ae|pid|pid e|].
  - destruct (it m <? np); intro E; inversion E; reflexivity.
  - destruct (rq w) as [|[q r] rest]; [destruct (putting np w)|]; intro E; inversion E; reflexivity.
  - destruct (any_died np w); [discriminate|]. destruct ae; [discriminate|]. intro E; inversion E; reflexivity.
  - destruct ((1 <=? pid) && (pid <=? np)); [|discriminate]. intro E; inversion E; reflexivity.
  - destruct (lq (wks w pid)) as [|[id|] rest].
    + destruct e; [discriminate|]. intro E; inversion E; reflexivity.
    + intro E; inversion E; subst. fold (popped w pid rest). unfold stage.
      now rewrite popped_exitc, popped_pc.
    + intro E; inversion E; subst. fold (popped w pid rest). unfold stage.
      now rewrite popped_exitc, popped_pc.
  - destruct (all_ended np w); [discriminate|]. intro E; inversion E; reflexivity.
Qed.

Lemma step_stage a (w : @world R) m w' m' p :
  step a (Run w m) = Run w' m' -> stage (wks w p) <= stage (wks w' p).
Proof.
  destruct a as [|pid wa]; cbn [M_Parallel.step]; intro E.
  - rewrite (mstep_stage _ _ _ _ p E). lia.
  - inversion E; subst. apply wstep_stage.
Qed.

Lemma exec_stage sched : forall (w : @world R) m w' m' p,
  exec sched (Run w m) = Run w' m' -> stage (wks w p) <= stage (wks w' p).
Proof.
  induction sched as [|a s IH]; intros w m w' m' p E.
  - inversion E; subst. lia.
  - rewrite exec_cons in E. destruct (step a (Run w m)) as [w1 m1|o] eqn:Es.
    + pose proof (step_stage _ _ _ _ _ p Es). pose proof (IH _ _ _ _ p E). lia.
    + rewrite exec_Fin in E. discriminate.
Qed.

(* the i-th action of the program takes a worker that has reached stage i to stage i+1 *)
Lemma program_action i a (w : @world R) p r :
  1 <= p <= np -> wres p = Ok r ->
  nth_error (worker_program p) i = Some a ->
  i <= stage (wks w p) ->
  match a with Worker q wa => S i <= stage (wks (wstep q wa w) p) | Master => False end.
Proof.
  intros Hp Hw Hn Hi.
  assert (Hg : (1 <=? p) && (p <=? np) = true).
  { apply andb_true_intro. split; apply Nat.leb_le; lia. }
  destruct i as [|[|[|i]]]; cbn in Hn; inversion Hn; subst; clear Hn;
    try (destruct i; discriminate).
  - (* APutResult *)
    pose proof (wstep_stage p APutResult w p) as Hm.
    destruct (Nat.eq_dec (stage (wks w p)) 0) as [H0|]; [|lia].
    rewrite wstep_eq, Hg. unfold stage in H0 |- *.
    destruct (exitc (wks w p)); [discriminate|].
    destruct (pc (wks w p)); try discriminate; rewrite Hw; cbn [wks]; rewrite upd_eq; cbn; lia.
  - (* APutEnd *)
    pose proof (wstep_stage p APutEnd w p) as Hm.
    destruct (Nat.eq_dec (stage (wks w p)) 1) as [H1|]; [|lia].
    rewrite wstep_eq, Hg. unfold stage in H1 |- *.
    destruct (exitc (wks w p)); [discriminate|]. destruct (pc (wks w p)); try discriminate.
    cbn [wks]. rewrite upd_eq. cbn. lia.
  - (* AExit0 *)
    pose proof (wstep_stage p AExit0 w p) as Hm.
    destruct (Nat.eq_dec (stage (wks w p)) 2) as [H2|]; [|lia].
    rewrite wstep_eq, Hg. unfold stage in H2 |- *.
    destruct (exitc (wks w p)); [discriminate|]. destruct (pc (wks w p)); try discriminate.
    cbn [wks]. rewrite upd_eq. cbn. lia.
Qed.

Lemma program_runs prog sched :
  subseq prog sched ->
  forall i p r (w : @world R) m w' m',
    1 <= p <= np -> wres p = Ok r ->
    prog = skipn i (worker_program p) -> i <= stage (wks w p) ->
    exec sched (Run w m) = Run w' m' ->
    3 <= stage (wks w' p).
Proof.
  induction 1 as [l|a prog l Hs IH|a prog l Hs IH]; intros i p r w m w' m' Hp Hw Hprog Hi E.
  - assert (3 <= i).
    { destruct i as [|[|[|i]]]; cbn in Hprog; try discriminate. lia. }
    pose proof (exec_stage _ _ _ _ _ p E). lia.
  - rewrite exec_cons in E. destruct (step a (Run w m)) as [w1 m1|o] eqn:Es.
    + pose proof (step_stage _ _ _ _ _ p Es).
      apply (IH i p r w1 m1 w' m'); auto. lia.
    + rewrite exec_Fin in E. discriminate.
  - assert (Hn : nth_error (worker_program p) i = Some a /\ prog = skipn (S i) (worker_program p)).
    { destruct i as [|[|[|i]]]; cbn in Hprog; inversion Hprog; subst; cbn; auto.
      destruct i; discriminate. }
    destruct Hn as [Hn Hprog'].
    pose proof (program_action i a w p r Hp Hw Hn Hi) as Ha.
    rewrite exec_cons in E. destruct a as [|q wa]; [contradiction|].
    cbn [M_Parallel.step] in E.
    apply (IH (S i) p r (wstep q wa w) m w' m'); auto.
Qed.

Lemma killed_ends sched p c : forall (w : @world R) m w' m',
  1 <= p <= np -> In (Worker p (ADie c)) sched ->
  exec sched (Run w m) = Run w' m' -> 3 <= stage (wks w' p).
Proof.
  induction sched as [|a s IH]; intros w m w' m' Hp Hin E; [contradiction|].
  rewrite exec_cons in E. destruct Hin as [->|Hin].
  - cbn [M_Parallel.step] in E.
    assert (Hs : 3 <= stage (wks (wstep p (ADie c) w) p)).
    { rewrite wstep_eq.
      replace ((1 <=? p) && (p <=? np)) with true
        by (symmetry; apply andb_true_intro; split; apply Nat.leb_le; lia).
      unfold stage. destruct (exitc (wks w p)) eqn:He; [rewrite He; lia|].
      cbn [wks]. rewrite upd_eq. cbn. lia. }
    pose proof (exec_stage _ _ _ _ _ p E). lia.
  - destruct (step a (Run w m)) as [w1 m1|o] eqn:Es.
    + now apply (IH w1 m1 w' m').
    + rewrite exec_Fin in E. discriminate.
Qed.

(* a worker whose task raises stays in its task loop until it raises or is killed *)
Lemma raising_stays_running sched : forall p e (w : @world R) m w' m',
  wres p = Err e -> pc (wks w p) = WRun ->
  exec sched (Run w m) = Run w' m' -> pc (wks w' p) = WRun.
Proof.
  induction sched as [|a s IH]; intros p e w m w' m' Hw Hpc E.
  - inversion E; subst. exact Hpc.
  - rewrite exec_cons in E. destruct a as [|q wa]; cbn [M_Parallel.step] in E.
    + destruct (mstep w m) as [w1 m1|o] eqn:Es; [|rewrite exec_Fin in E; discriminate].
      apply (IH p e w1 m1 w' m' Hw); [|exact E].
      revert Es. rewrite mstep_eq.
      destruct (ph m) as [|ae|ae|pid|pid x|].
      * destruct (it m <? np); intro E'; inversion E'; subst; exact Hpc.
      * destruct (rq w) as [|[? ?] ?]; [destruct (putting np w)|]; intro E'; inversion E'; subst; exact Hpc.
      * destruct (any_died np w); [discriminate|]. destruct ae; [discriminate|]. intro E'; inversion E'; subst; exact Hpc.
      * destruct ((1 <=? pid) && (pid <=? np)); [|discriminate]. intro E'; inversion E'; subst; exact Hpc.
      * destruct (lq (wks w pid)) as [|[id|] rest].
        -- destruct x; [discriminate|]. intro E'; inversion E'; subst; exact Hpc.
        -- intro E'; inversion E'; subst. fold (popped w pid rest). now rewrite popped_pc.
        -- intro E'; inversion E'; subst. fold (popped w pid rest). now rewrite popped_pc.
      * destruct (all_ended np w); [discriminate|]. intro E'; inversion E'; subst; exact Hpc.
    + apply (IH p e (wstep q wa w) m w' m' Hw); [|exact E].
      rewrite wstep_eq. destruct ((1 <=? q) && (q <=? np)); [|exact Hpc].
      destruct (exitc (wks w q)) eqn:He; [exact Hpc|].
      destruct (Nat.eq_dec p q) as [->|Hne].
      * rewrite Hpc. destruct wa; try rewrite Hw; cbn [wks]; rewrite ?upd_eq; cbn [pc]; auto.
      * destruct wa; destruct (pc (wks w q)); try destruct (wres q); cbn [wks]; rewrite ?upd_neq by exact Hne; exact Hpc.
Qed.

Lemma raised_ends sched p e : forall (w : @world R) m w' m',
  1 <= p <= np -> wres p = Err e -> In (Worker p ARaise) sched ->
  pc (wks w p) = WRun ->
  exec sched (Run w m) = Run w' m' -> 3 <= stage (wks w' p).
Proof.
  induction sched as [|a s IH]; intros w m w' m' Hp Hw Hin Hpc E; [contradiction|].
  rewrite exec_cons in E. destruct Hin as [->|Hin].
  - cbn [M_Parallel.step] in E.
    assert (Hs : 3 <= stage (wks (wstep p ARaise w) p)).
    { rewrite wstep_eq.
      replace ((1 <=? p) && (p <=? np)) with true
        by (symmetry; apply andb_true_intro; split; apply Nat.leb_le; lia).
      unfold stage. destruct (exitc (wks w p)) eqn:He; [rewrite He; lia|].
      rewrite Hpc, Hw. cbn [wks]. rewrite upd_eq. cbn. lia. }
    pose proof (exec_stage _ _ _ _ _ p E). lia.
  - destruct (step a (Run w m)) as [w1 m1|o] eqn:Es.
    + apply (IH w1 m1 w' m'); auto.
      apply (raising_stays_running [a] p e w m w1 m1 Hw Hpc). exact Es.
    + rewrite exec_Fin in E. discriminate.
Qed.

Lemma fair_quiescent sched (w : @world R) m :
  fair sched -> exec sched (init r0) = Run w m -> quiescent w.
Proof.
  intros Hf E p Hp. apply stage_ended.
  destruct (Hf p Hp) as [[[r Hw] Hs]|[[[e Hw] Hin]|[c Hin]]].
  - apply (program_runs _ _ Hs 0 p r _ _ w m Hp Hw eq_refl (Nat.le_0_l _) E).
  - exact (raised_ends sched p e (mkworld [] (fun _ => fresh)) (mkmst 0 PollA [(0, r0)]) w m Hp Hw Hin eq_refl E).
  - apply (killed_ends sched p c _ _ w m Hp Hin E).
Qed.

(* every fair schedule followed by poll_bound master steps ends the call *)
Lemma fair_loud s1 s2 (w : @world R) m :
  fair s1 -> exec s1 (init r0) = Run w m -> no_partial w -> poll_bound w <= n_master s2 ->
  exists o, exec (s1 ++ s2) (init r0) = Fin o /\
            (forall r, o = Done r -> complete np wres r0 r).
Proof.
  intros Hf E Hnp Hb. apply (gather_loud np wres r0 s1 s2 w m E); [|exact Hnp|exact Hb].
  now apply (fair_quiescent s1 w m).
Qed.

(* a worker whose task raised has no result record anywhere, in no reachable state *)
Lemma raising_worker_no_result sched (w : @world R) m p e :
  exec sched (init r0) = Run w m -> 1 <= p -> wres p = Err e ->
  ~ In p (map fst (rq w)) /\ ~ In p (map fst (pmap m)).
Proof.
  intros E Hp He. pose proof (gather_inv np wres r0 sched w m E) as HI.
  split; intro Hin; apply in_map_iff in Hin as [[q r] [Hq Hin]]; cbn in Hq; subst q.
  - destruct (inv_rq _ _ _ _ _ HI p r Hin) as [_ [Hw _]]. congruence.
  - destruct (inv_pm _ _ _ _ _ HI p r Hin) as [[Hz _]|[_ [Hw _]]]; [lia|congruence].
Qed.

End Fair.

(* ------------------------------------------------------------------------- *)
(* parallelize level *)

Lemma parallelize_fair_loud {A R} (f : A -> res R) args ncpu s1 s2 r0 w m :
  args <> [] -> (1 < ncpu)%Z ->
  mapM f (chunk args (Z.to_nat ncpu) 0) = Ok r0 ->
  exec (Z.to_nat ncpu - 1) (fun pid => mapM f (chunk args (Z.to_nat ncpu) pid)) s1 (init r0)
    = Run w m ->
  fair (Z.to_nat ncpu - 1) (fun pid => mapM f (chunk args (Z.to_nat ncpu) pid)) s1 ->
  no_partial (Z.to_nat ncpu - 1) w ->
  poll_bound (Z.to_nat ncpu - 1) w <= n_master s2 ->
  exists o, parallelize f args ncpu (s1 ++ s2) = Some o /\
            (forall r, o = Done r -> mapM f args = Ok r).
Proof.
  intros Hne Hn H0 H1 Hf Hnp Hb.
  apply (parallelize_loud f args ncpu s1 s2 r0 w m Hne Hn H0 H1); [|exact Hnp|exact Hb].
  exact (fair_quiescent _ _ r0 s1 w m Hf H1).
Qed.

(* ------------------------------------------------------------------------- *)
(* the order facts are needed *)

(* all_procs_ended read after the failed get: a fault-free run raises *)
Lemma late_flag_refuted :
  fault_free sched_late_flag /\
  exec_gen 1 wres2 false true true true true true sched_late_flag (init [0]) = Fin (Fail MissingResult) /\
  exists r, exec 1 wres2 (sched_late_flag ++ repeat Master 8) (init [0]) = Fin (Done r).
Proof. split; [reflexivity|]. split; [vm_compute; reflexivity|]. eexists. vm_compute. reflexivity. Qed.

(* pid_proc_ended read after the failed log get: a fault-free run raises *)
Lemma late_log_flag_refuted :
  fault_free sched_late_log_flag /\
  exec_gen 1 wres2 true true false true true true sched_late_log_flag (init [0]) = Fin (Fail LogIncomplete) /\
  exists r, exec 1 wres2 (sched_late_log_flag ++ repeat Master 8) (init [0]) = Fin (Done r).
Proof. split; [reflexivity|]. split; [vm_compute; reflexivity|]. eexists. vm_compute. reflexivity. Qed.

(* result put in a `finally` block: the call returns a partial list although a task raised *)
Lemma finally_refuted :
  exec_gen 1 wres_raise true true true false true true sched_finally (init [0]) = Fin (Done [0]) /\
  exec 1 wres_raise sched_finally (init [0]) = Fin (Fail ChildDied).
Proof. split; vm_compute; reflexivity. Qed.

(* the worker waits for its status queue at its end: the master never gets past proc.join() *)
Lemma status_block_refuted n :
  exists w m,
    exec_gen 1 wres2 true true true true false true (sched_status_block ++ repeat Master n) (init [0]) = Run w m /\
    ph m = Join /\ exitc (wks w 1) = None.
Proof.
  unfold exec_gen. rewrite fold_left_app.
  set (s0 := fold_left _ sched_status_block (init [0])).
  assert (Hs : step_gen 1 wres2 true true true true false true Master s0 = s0) by (vm_compute; reflexivity).
  assert (Hr : fold_left (fun s a => step_gen 1 wres2 true true true true false true a s) (repeat Master n) s0 = s0).
  { induction n as [|n IH]; [reflexivity|]. cbn [repeat fold_left]. rewrite Hs. exact IH. }
  rewrite Hr. eexists; eexists. split; [vm_compute; reflexivity|]. split; vm_compute; reflexivity.
Qed.

Lemma status_fixed :
  exec 1 wres2 sched_status_block (init [0]) = Fin (Done [0; 1]).
Proof. vm_compute. reflexivity. Qed.

Lemma masters_inv {S : Type} (st : S -> action -> S) (P : S -> Prop) :
  (forall s, P s -> P (st s Master)) ->
  forall n s, P s -> P (fold_left st (repeat Master n) s).
Proof.
  intros Hc n. induction n as [|n IH]; intros s Hs; [exact Hs|].
  cbn [repeat fold_left]. apply IH. now apply Hc.
Qed.

(* a task raises after the worker emitted a log record; the worker waits for its log records queue at its
   end (code before fix cdc2ef8): it never ends and the master polls for ever; with the fix the call raises *)
Lemma raise_logs_refuted n :
  exists w m,
    exec_gen 1 wres_raise true true true true true false (sched_raise_logs ++ repeat Master n) (init [0]) = Run w m /\
    exitc (wks w 1) = None.
Proof.
  unfold exec_gen. rewrite fold_left_app.
  set (st := fun s a => step_gen 1 wres_raise true true true true true false a s).
  set (s0 := fold_left st sched_raise_logs (init [0])).
  set (s1 := st s0 Master). set (s2 := st s1 Master).
  assert (Hcyc : st s2 Master = s0) by (vm_compute; reflexivity).
  pose (P := fun s : @sys nat => s = s0 \/ s = s1 \/ s = s2).
  assert (HP : P (fold_left st (repeat Master n) s0)).
  { apply (masters_inv st P); [|now left].
    intros s [->|[->| ->]]; unfold P; [right; left; reflexivity|right; right; reflexivity|left; exact Hcyc]. }
  destruct HP as [->|[->| ->]]; eexists; eexists; (split; [vm_compute; reflexivity|vm_compute; reflexivity]).
Qed.

Lemma raise_logs_fixed :
  exec 1 wres_raise (sched_raise_logs ++ repeat Master 3) (init [0]) = Fin (Fail ChildDied).
Proof. vm_compute. reflexivity. Qed.

(* OPEN FINDING (not repaired): the worker is killed while its result record is only partly in the pipe; every
   child has ended, yet the master stays blocked in rqueue.get(block=False) for ever *)
Lemma midput_refuted n :
  exists w m,
    exec 1 wres2 (sched_midput ++ repeat Master n) (init [0]) = Run w m /\
    exitc (wks w 1) = Some (-9)%Z /\ pc (wks w 1) = WPutting.
Proof.
  rewrite exec_app. unfold M_Parallel.exec at 1.
  set (st := fun s a => step 1 wres2 a s).
  set (s0 := M_Parallel.exec 1 wres2 sched_midput (init [0])).
  set (s1 := st s0 Master).
  assert (Hfix : st s1 Master = s1) by (vm_compute; reflexivity).
  pose (P := fun s : @sys nat => s = s0 \/ s = s1).
  assert (HP : P (fold_left st (repeat Master n) s0)).
  { apply (masters_inv st P); [|now left].
    intros s [->| ->]; unfold P; [right; reflexivity|right; exact Hfix]. }
  destruct HP as [->| ->]; eexists; eexists; (split; [vm_compute; reflexivity|split; vm_compute; reflexivity]).
Qed.

(* ------------------------------------------------------------------------- *)
(* seeds of the child RandomStateService instances *)

Lemma rss_of_master {St} (draw : St -> Z * St) (mk : Z -> St) s0 ncpu :
  rss_of St draw mk s0 ncpu 0 = snd (draws St draw (Z.to_nat (ncpu - 1)) s0).
Proof.
  unfold rss_of. rewrite K_par_seed. destruct (draws St draw _ s0). reflexivity.
Qed.

Lemma draws_length {St} (draw : St -> Z * St) n s : length (fst (draws St draw n s)) = n.
Proof.
  revert s; induction n as [|n IH]; intro s; [reflexivity|].
  cbn [draws]. destruct (draw s) as [d s1]. specialize (IH s1).
  destruct (draws St draw n s1). cbn in *. now rewrite IH.
Qed.

Lemma rss_of_child {St} (draw : St -> Z * St) (mk : Z -> St) s0 ncpu p :
  (Z.of_nat (S p) < ncpu)%Z ->
  exists d, nth_error (fst (draws St draw (Z.to_nat (ncpu - 1)) s0)) p = Some d /\
            rss_of St draw mk s0 ncpu (S p) = mk d.
Proof.
  intro Hp. unfold rss_of. rewrite K_par_seed.
  pose proof (draws_length draw (Z.to_nat (ncpu - 1)) s0) as Hl.
  destruct (draws St draw (Z.to_nat (ncpu - 1)) s0) as [ds s1]. cbn [fst] in *.
  destruct (nth_error ds p) as [d|] eqn:E.
  - exists d. split; [reflexivity|]. now rewrite K_par_child_seed.
  - apply nth_error_None in E. lia.
Qed.

Lemma rng_requests : par_n_global_rng_calls = 0%Z /\ par_n_rss_requests = 1%Z.
Proof. split; [exact K_par_n_global_rng_calls|exact K_par_n_rss_requests]. Qed.
