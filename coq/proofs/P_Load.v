(* C17: characterising lemmas of the regenerated kernels named K_xxx, and the
   single-file theorems: both efficiency modes of the NPY loader return the
   specified table (file fields ∩ keep set, dtype map with exceptions, every
   row once in row order), for every table and every block size. *)
From Coq Require Import ZArith List Bool Lia.
From Sky Require Import Result PyList G_load M_Load S_Load.
Import ListNotations.
Open Scope Z_scope.

(* ------------------------------------------------------------ kernels *)
Lemma K_mem_skip : forall g f k, mem_skip g f k = g && negb (zmem f k).
Proof. reflexivity. Qed.
Lemma K_dfra_skip : forall g f k, dfra_skip g f k = g && negb (zmem f k).
Proof. reflexivity. Qed.
Lemma K_mem_conv : forall f exc dt ks, mem_conv f exc dt ks = negb (zmem f exc) && zmem dt ks.
Proof. reflexivity. Qed.
Lemma K_dfra_conv : forall f exc dt ks, dfra_conv f exc dt ks = negb (zmem f exc) && zmem dt ks.
Proof. reflexivity. Qed.
Lemma K_mem_bs : mem_bs = 4096 /\ mem_bs <> 0.
Proof. split; [reflexivity | discriminate]. Qed.
Lemma K_mem_range : mem_range_lo = 0 /\ forall n, mem_range_hi n = n.
Proof. split; reflexivity. Qed.
Lemma K_mem_row : forall r v, mem_row r v = v /\ mem_row_idx0 r = r.
Proof. split; reflexivity. Qed.
Lemma K_mem_fidx : forall f v, mem_fidx f v = v /\ mem_fidx_idx0 f = f.
Proof. split; reflexivity. Qed.
Lemma K_mem_store : forall r fi v, mem_store_at r = r /\ mem_store_val fi v = v /\ mem_store_val_idx0 fi = fi.
Proof. repeat split; reflexivity. Qed.
Lemma K_mem_reopen : forall r bs, mem_reopen r bs = (r mod bs =? 0).
Proof. reflexivity. Qed.
Lemma K_rest : npy_rest_lo = 1 /\ txt_rest_lo = 1 /\ (forall n, npy_rest_hi n = n) /\ (forall n, txt_rest_hi n = n).
Proof. repeat split; reflexivity. Qed.
Lemma K_app_missing : forall f a, app_missing f a = negb (zmem f a).
Proof. reflexivity. Qed.
Lemma K_tidy_remove : forall f k, tidy_remove f k = negb (zmem f k).
Proof. reflexivity. Qed.
Lemma K_ren_present : forall f l, ren_present f l = zmem f l.
Proof. reflexivity. Qed.
Lemma K_txt : forall n k, txt_use n k = zmem n k /\ txt_none n = (n =? 0) /\ pq_use n k = zmem n k.
Proof. repeat split; reflexivity. Qed.
Lemma K_stage_bits : st_prep_exp = 1 /\ st_prep_mc = 2 /\ st_ana_exp = 4 /\ st_ana_mc = 8.
Proof. repeat split; reflexivity. Qed.
Lemma K_or_check : forall s t, st_or_check s t = negb (Z.land s t =? 0).
Proof. reflexivity. Qed.
Lemma K_joint_sel : forall b, joint_sel b = b.
Proof. reflexivity. Qed.
Lemma K_ld_stages : forall a b c d,
  ld_exp_stages a b = Z.lor a b /\ ld_mc_stages_e a b = Z.lor a b /\
  ld_mc_stages_m a b c d = Z.lor (Z.lor (Z.lor a b) c) d.
Proof. repeat split; reflexivity. Qed.
Lemma K_tidy_stages : forall a b,
  tidy_exp_stages a = a /\ tidy_mc_stages a b = Z.lor a b /\
  fmt_exp_stages a = a /\ fmt_mc_stages a b = Z.lor a b.
Proof. repeat split; reflexivity. Qed.
(* every step reads the local, merged stage table `datafields` *)
Lemma K_tables : forall x,
  ld_exp_table x = x /\ ld_mc_table_e x = x /\ ld_mc_table_m x = x /\
  tidy_exp_table x = x /\ tidy_mc_table x = x /\ fmt_exp_table x = x /\ fmt_mc_table x = x.
Proof. repeat split; reflexivity. Qed.
(* merge order of the stage tables at all three sites: configuration first, the
   dataset's table overrides it *)
Lemma K_merge_order : forall c d,
  ld_merge c d = [c; d] /\ lap_merge c d = [c; d] /\ fmt_merge c d = [c; d].
Proof. repeat split; reflexivity. Qed.
Lemma K_mode_default : mode_default_time = true.
Proof. reflexivity. Qed.

Lemma K_fmt : forall k ks n, fmt_missing k ks = negb (zmem k ks) /\
  fmt_exp_bad n = negb (n =? 0) /\ fmt_mc_bad n = negb (n =? 0).
Proof. repeat split; reflexivity. Qed.

(* ------------------------------------------------------------ list facts *)
Lemma zmem_In : forall x l, zmem x l = true <-> In x l.
Proof.
  intros x l. unfold zmem. rewrite existsb_exists. split.
  - intros [y [Hy E]]. apply Z.eqb_eq in E. subst. exact Hy.
  - intros H. exists x. split; [exact H | apply Z.eqb_refl].
Qed.

Lemma zmem_false : forall x l, zmem x l = false <-> ~ In x l.
Proof.
  intros x l. rewrite <- zmem_In. destruct (zmem x l); split; intros; congruence.
Qed.

Lemma py_get_nth : forall {A} (l : list A) (i : nat) d,
  (i < length l)%nat -> py_get l (Z.of_nat i) = Ok (nth i l d).
Proof.
  intros A l i d H. unfold py_get, zlen.
  destruct (Z.of_nat i <? 0) eqn:E1; [apply Z.ltb_lt in E1; lia|].
  destruct ((Z.of_nat i <? 0) || (Z.of_nat (length l) <=? Z.of_nat i)) eqn:E2.
  - apply orb_true_iff in E2. destruct E2 as [E2|E2];
      [apply Z.ltb_lt in E2 | apply Z.leb_le in E2]; lia.
  - rewrite Nat2Z.id. rewrite (nth_error_nth' l d H). reflexivity.
Qed.

Lemma py_set_nth : forall {A} (l : list A) (i : nat) v,
  (i < length l)%nat -> py_set l (Z.of_nat i) v = Ok (set_nth l i v).
Proof.
  intros A l i v H. unfold py_set, zlen.
  destruct (Z.of_nat i <? 0) eqn:E1; [apply Z.ltb_lt in E1; lia|].
  destruct ((Z.of_nat i <? 0) || (Z.of_nat (length l) <=? Z.of_nat i)) eqn:E2.
  - apply orb_true_iff in E2. destruct E2 as [E2|E2];
      [apply Z.ltb_lt in E2 | apply Z.leb_le in E2]; lia.
  - rewrite Nat2Z.id. reflexivity.
Qed.

Lemma column_ok : forall rows (i : nat),
  Forall (fun r => (i < length r)%nat) rows ->
  column rows (Z.of_nat i) = Ok (map (fun r => nth i r 0) rows).
Proof.
  unfold column. induction rows as [|r rows IH]; intros i H; [reflexivity|].
  inversion H as [|? ? Hr Hrest]; subst.
  cbn [mapM map]. rewrite (py_get_nth r i 0 Hr). cbn [bind].
  rewrite (IH i Hrest). reflexivity.
Qed.

Lemma alookup_none : forall {V} k (d : list (Z * V)), zmem k (keys d) = false -> alookup k d = None.
Proof.
  induction d as [|[k' v] d IH]; intros H; [reflexivity|].
  unfold zmem, keys in H. cbn [map existsb fst] in H. apply orb_false_iff in H. destruct H as [H1 H2].
  cbn [alookup]. rewrite H1. apply IH. exact H2.
Qed.

(* ------------------------------------------------------------ filters, dtypes *)
Lemma skip_spec : forall o f, dfra_skip (keep_given o) f (keep_list o) = negb (spec_keeps o f).
Proof.
  intros o f. unfold dfra_skip, keep_given, keep_list, spec_keeps.
  destruct (o_keep o); reflexivity.
Qed.

Lemma mskip_spec : forall o f, mem_skip (keep_given o) f (keep_list o) = negb (spec_keeps o f).
Proof.
  intros o f. unfold mem_skip, keep_given, keep_list, spec_keeps.
  destruct (o_keep o); reflexivity.
Qed.

Lemma conv_spec_gen : forall (c : name -> list name -> dtype -> list dtype -> bool) o f dt,
  (forall f exc dt ks, c f exc dt ks = negb (zmem f exc) && zmem dt ks) ->
  conv_dtype c o f dt = spec_dtype o f dt.
Proof.
  intros c o f dt Hc. unfold conv_dtype, spec_dtype. rewrite Hc.
  destruct (zmem f (o_exc o)); cbn [negb andb]; [reflexivity|].
  destruct (zmem dt (keys (o_conv o))) eqn:E; [reflexivity|].
  rewrite (alookup_none _ _ E). reflexivity.
Qed.

Lemma conv_spec : forall o f dt, conv_dtype dfra_conv o f dt = spec_dtype o f dt.
Proof. intros. apply conv_spec_gen. exact K_dfra_conv. Qed.
Lemma mconv_spec : forall o f dt, conv_dtype mem_conv o f dt = spec_dtype o f dt.
Proof. intros. apply conv_spec_gen. exact K_mem_conv. Qed.

(* ------------------------------------------------------------ idx_of *)
Lemma idx_of_app : forall fname dt pre rest,
  ~ In fname (map fst pre) -> idx_of fname (pre ++ (fname, dt) :: rest) = length pre.
Proof.
  induction pre as [|[n d] pre IH]; intros rest H; cbn [app idx_of length].
  - rewrite Z.eqb_refl. reflexivity.
  - cbn in H. destruct (fname =? n) eqn:E.
    + apply Z.eqb_eq in E. exfalso. apply H. left. symmetry. exact E.
    + f_equal. apply IH. intros HI. apply H. right. exact HI.
Qed.

Lemma idx_of_lt : forall fname sch, In fname (map fst sch) -> (idx_of fname sch < length sch)%nat.
Proof.
  induction sch as [|[n d] sch IH]; intros H; [destruct H|].
  cbn [idx_of length]. destruct (fname =? n) eqn:E; [lia|].
  cbn in H. destruct H as [H|H]; [subst; rewrite Z.eqb_refl in E; discriminate|].
  specialize (IH H). lia.
Qed.

(* ------------------------------------------------------------ time-efficient *)
Lemma dfra_init_from_spec : forall suffix pre rows o,
  NoDup (map fst (pre ++ suffix)) ->
  Forall (fun r => length r = length (pre ++ suffix)) rows ->
  dfra_init_from suffix (Z.of_nat (length pre)) rows o =
  Ok (map (fun p => (fst p, (spec_dtype o (fst p) (snd p),
                             map (fun r => nth (idx_of (fst p) (pre ++ suffix)) r 0) rows)))
          (spec_kept o suffix)).
Proof.
  induction suffix as [|[fname dt] rest IH]; intros pre rows o Hnd Hrows; [reflexivity|].
  cbn [dfra_init_from]. rewrite skip_spec.
  assert (Hnotin : ~ In fname (map fst pre)).
  { rewrite map_app in Hnd. cbn in Hnd. apply NoDup_remove_2 in Hnd.
    intros HI. apply Hnd. apply in_or_app. left. exact HI. }
  assert (Heq : pre ++ (fname, dt) :: rest = (pre ++ [(fname, dt)]) ++ rest)
    by (rewrite <- app_assoc; reflexivity).
  assert (Hlen : Z.of_nat (length pre) + 1 = Z.of_nat (length (pre ++ [(fname, dt)])))
    by (rewrite app_length; cbn; lia).
  unfold spec_kept. cbn [filter fst]. fold (spec_kept o rest).
  destruct (spec_keeps o fname) eqn:Ek; cbn [negb].
  - rewrite column_ok.
    2:{ eapply Forall_impl; [|exact Hrows]. cbn. intros r Hr. rewrite Hr, app_length. cbn. lia. }
    cbn [bind]. rewrite Hlen. rewrite (IH (pre ++ [(fname, dt)]) rows o).
    + cbn [bind map fst snd]. rewrite conv_spec. rewrite <- Heq.
      rewrite (idx_of_app fname dt pre rest Hnotin). reflexivity.
    + rewrite <- Heq. exact Hnd.
    + rewrite <- Heq. exact Hrows.
  - rewrite Hlen. rewrite (IH (pre ++ [(fname, dt)]) rows o).
    + rewrite <- Heq. reflexivity.
    + rewrite <- Heq. exact Hnd.
    + rewrite <- Heq. exact Hrows.
Qed.

Theorem load_time_spec : forall f o,
  wf_file f -> load_file_time f o = Ok (spec_load_file f o, 1).
Proof.
  intros f o [Hnd Hrows]. unfold load_file_time, dfra_init.
  change 0 with (Z.of_nat (length (@nil (name * dtype)))).
  rewrite (dfra_init_from_spec (f_schema f) [] (f_rows f) o Hnd Hrows).
  reflexivity.
Qed.

(* ------------------------------------------------------------ memory-efficient *)
(* the first k cells are written, the others still uninitialised *)
Definition partial (k : nat) (c : list Z) : list (option Z) :=
  map Some (firstn k c) ++ repeat None (length c - k).

Lemma partial_length : forall k c, (k <= length c)%nat -> length (partial k c) = length c.
Proof.
  intros k c H. unfold partial. rewrite app_length, map_length, firstn_length, repeat_length. lia.
Qed.

Lemma set_nth_partial : forall c k d,
  (k < length c)%nat -> set_nth (partial k c) k (Some (nth k c d)) = partial (S k) c.
Proof.
  induction c as [|a c IH]; intros k d H; [cbn in H; lia|].
  destruct k as [|k].
  - unfold partial. cbn. rewrite Nat.sub_0_r. reflexivity.
  - cbn [length] in H. assert (Hk : (k < length c)%nat) by lia.
    specialize (IH k d Hk). unfold partial in *. cbn [firstn map app length nth set_nth].
    replace (S (length c) - S k)%nat with (length c - k)%nat by lia.
    replace (S (length c) - S (S k))%nat with (length c - S k)%nat by lia.
    cbn [set_nth]. f_equal. exact IH.
Qed.

Lemma partial_full : forall c, partial (length c) c = map Some c.
Proof.
  intros c. unfold partial. rewrite firstn_all, Nat.sub_diag. cbn. apply app_nil_r.
Qed.

Lemma freeze_cells_some : forall c, freeze_cells (map Some c) = Ok c.
Proof.
  induction c as [|a c IH]; [reflexivity|]. cbn [map freeze_cells]. rewrite IH. reflexivity.
Qed.

Definition mstate (f : file) (o : lopts) (k : nat) (l : list (name * dtype)) : list mcol :=
  map (fun p => (fst p, (spec_dtype o (fst p) (snd p), partial k (spec_col f (fst p))))) l.

Lemma spec_col_length : forall f n, length (spec_col f n) = length (f_rows f).
Proof. intros. unfold spec_col. apply map_length. Qed.

Lemma mem_alloc_spec : forall f o sch,
  mem_alloc sch (zlen (f_rows f)) o = mstate f o 0 (spec_kept o sch).
Proof.
  intros f o. induction sch as [|[fname dt] sch IH]; [reflexivity|].
  cbn [mem_alloc]. rewrite mskip_spec. unfold spec_kept. cbn [filter fst]. fold (spec_kept o sch).
  destruct (spec_keeps o fname); cbn [negb]; [|exact IH].
  cbn [mstate map fst snd]. rewrite mconv_spec. rewrite IH.
  unfold partial. cbn [firstn map app]. rewrite Nat.sub_0_r, spec_col_length.
  unfold zlen. rewrite Nat2Z.id. reflexivity.
Qed.

(* fname_to_fidx *)
Lemma aset_fresh : forall {V} k (v : V) d, ~ In k (keys d) -> aset k v d = d ++ [(k, v)].
Proof.
  induction d as [|[k' v'] d IH]; intros H; [reflexivity|].
  cbn [aset]. destruct (k =? k') eqn:E.
  - apply Z.eqb_eq in E. exfalso. apply H. left. symmetry. exact E.
  - cbn [app]. f_equal. apply IH. intros HI. apply H. right. exact HI.
Qed.

Lemma dict_of_nodup_gen : forall {V} (l acc : list (Z * V)),
  NoDup (keys (acc ++ l)) ->
  fold_left (fun a kv => aset (fst kv) (snd kv) a) l acc = acc ++ l.
Proof.
  induction l as [|[k v] l IH]; intros acc H; [rewrite app_nil_r; reflexivity|].
  cbn [fold_left fst snd].
  assert (Hfresh : ~ In k (keys acc)).
  { unfold keys in *. rewrite map_app in H. cbn in H. apply NoDup_remove_2 in H.
    intros HI. apply H. apply in_or_app. left. exact HI. }
  rewrite (aset_fresh k v acc Hfresh). rewrite IH; rewrite <- app_assoc; [reflexivity|exact H].
Qed.

Lemma enum_keys : forall (sch : list (name * dtype)) i,
  keys (map (fun p : Z * (name * dtype) => (fst (snd p), fst p)) (enum_from i sch)) = map fst sch.
Proof.
  induction sch as [|[n d] sch IH]; intros i; [reflexivity|].
  cbn. f_equal. apply IH.
Qed.

Lemma alookup_enum : forall fname (sch : list (name * dtype)) i,
  In fname (map fst sch) ->
  alookup fname (map (fun p : Z * (name * dtype) => (fst (snd p), fst p)) (enum_from i sch))
  = Some (i + Z.of_nat (idx_of fname sch)).
Proof.
  induction sch as [|[n d] sch IH]; intros i H; [destruct H|].
  cbn [enum_from map alookup fst snd idx_of]. destruct (fname =? n) eqn:E.
  - f_equal. cbn. lia.
  - cbn in H. destruct H as [H|H]; [subst; rewrite Z.eqb_refl in E; discriminate|].
    rewrite (IH (i + 1) H). f_equal. lia.
Qed.

Lemma f2i_lookup : forall sch fname,
  NoDup (map fst sch) -> In fname (map fst sch) ->
  dict_get (fname_to_fidx sch) fname = Ok (Z.of_nat (idx_of fname sch)).
Proof.
  intros sch fname Hnd Hin. unfold dict_get, fname_to_fidx, dict_of.
  rewrite dict_of_nodup_gen.
  - cbn [app]. rewrite (alookup_enum fname sch 0 Hin). reflexivity.
  - cbn [app]. rewrite enum_keys. exact Hnd.
Qed.

Lemma nth_nil_0 : forall i, nth i (@nil Z) 0 = 0.
Proof. destruct i; reflexivity. Qed.

Lemma store_row_spec : forall f o (k : nat) l,
  wf_file f -> (k < length (f_rows f))%nat ->
  (forall p, In p l -> In (fst p) (map fst (f_schema f))) ->
  mem_store_row (fname_to_fidx (f_schema f)) (nth k (f_rows f) []) (Z.of_nat k) (mstate f o k l)
  = Ok (mstate f o (S k) l).
Proof.
  intros f o k l [Hnd Hrows] Hk. induction l as [|[fname dt] l IH]; intros Hin; [reflexivity|].
  cbn [mstate map mem_store_row fst snd].
  assert (Hf : In fname (map fst (f_schema f))) by (apply (Hin (fname, dt)); left; reflexivity).
  unfold mem_fidx_idx0. rewrite (f2i_lookup _ _ Hnd Hf). cbn [bind].
  unfold mem_fidx, mem_store_val_idx0, mem_store_at, mem_store_val.
  assert (Hrow : length (nth k (f_rows f) []) = length (f_schema f)).
  { rewrite Forall_forall in Hrows. apply Hrows. apply nth_In. exact Hk. }
  rewrite (py_get_nth (nth k (f_rows f) []) (idx_of fname (f_schema f)) 0).
  2:{ rewrite Hrow. apply idx_of_lt. exact Hf. }
  cbn [bind]. rewrite py_set_nth.
  2:{ rewrite partial_length; rewrite spec_col_length; lia. }
  cbn [bind].
  assert (Hv : nth (idx_of fname (f_schema f)) (nth k (f_rows f) []) 0
               = nth k (spec_col f fname) 0).
  { unfold spec_col.
    rewrite <- (nth_nil_0 (idx_of fname (f_schema f))) at 2.
    rewrite (map_nth (fun r => nth (idx_of fname (f_schema f)) r 0)). reflexivity. }
  rewrite Hv. rewrite set_nth_partial by (rewrite spec_col_length; exact Hk).
  fold (mstate f o k l). rewrite IH.
  - reflexivity.
  - intros p Hp. apply Hin. right. exact Hp.
Qed.

Definition cnt (bs : Z) (k fuel : nat) : Z :=
  Z.of_nat (length (filter (fun j => Z.of_nat j mod bs =? 0) (seq k fuel))).

Lemma mem_loop_spec : forall f o bs l (disk : Z -> list (list Z)),
  wf_file f -> bs <> 0 -> (forall k, disk k = f_rows f) ->
  (forall p, In p l -> In (fst p) (map fst (f_schema f))) ->
  forall fuel k opens,
  (k + fuel <= length (f_rows f))%nat ->
  mem_loop fuel (Z.of_nat k) bs disk (f_rows f) (fname_to_fidx (f_schema f))
           (mstate f o k l) opens
  = Ok (mstate f o (k + fuel) l, opens + cnt bs k fuel).
Proof.
  intros f o bs l disk Hwf Hbs Hd Hin. induction fuel as [|fuel IH]; intros k opens Hle.
  - cbn [mem_loop]. rewrite Nat.add_0_r. unfold cnt. cbn. rewrite Z.add_0_r. reflexivity.
  - cbn [mem_loop]. unfold mem_row_idx0.
    rewrite (py_get_nth (f_rows f) k []) by lia. cbn [bind].
    rewrite store_row_spec by (try assumption; lia). cbn [bind].
    destruct (bs =? 0) eqn:Eb; [apply Z.eqb_eq in Eb; contradiction|].
    rewrite K_mem_reopen. rewrite Hd.
    replace (Z.of_nat k + 1) with (Z.of_nat (S k)) by lia.
    unfold cnt. cbn [seq filter].
    destruct (Z.of_nat k mod bs =? 0) eqn:Em.
    + rewrite IH by lia. cbn [length]. f_equal. f_equal; [f_equal; lia|]. unfold cnt. lia.
    + rewrite IH by lia. f_equal. f_equal. f_equal. lia.
Qed.

Lemma freeze_full : forall f o l,
  freeze (mstate f o (length (f_rows f)) l)
  = Ok (map (fun p => (fst p, (spec_dtype o (fst p) (snd p), spec_col f (fst p)))) l).
Proof.
  intros f o. induction l as [|[fname dt] l IH]; [reflexivity|].
  cbn [mstate map freeze fst snd].
  rewrite <- (spec_col_length f fname) at 1. rewrite partial_full, freeze_cells_some. cbn [bind].
  fold (mstate f o (length (f_rows f)) l). rewrite IH. reflexivity.
Qed.

Lemma spec_kept_in : forall o sch p, In p (spec_kept o sch) -> In (fst p) (map fst sch).
Proof.
  intros o sch p H. unfold spec_kept in H. apply filter_In in H. apply in_map. apply H.
Qed.

(* the memory-efficient loader on a file whose content at every open is the same *)
Theorem load_mem_ver_spec : forall bs f o (ver : Z -> list (list Z)),
  wf_file f -> bs <> 0 -> (forall k, ver k = f_rows f) ->
  load_file_mem_ver bs (f_schema f) ver o = Ok (spec_load_file f o, spec_opens (zlen (f_rows f)) bs).
Proof.
  intros bs f o ver Hwf Hbs Hv. unfold load_file_mem_ver. rewrite (Hv 1).
  destruct K_mem_range as [Hlo Hhi]. rewrite Hlo, Hhi, Z.sub_0_r.
  rewrite mem_alloc_spec.
  replace (Z.to_nat (zlen (f_rows f))) with (length (f_rows f)) by (unfold zlen; rewrite Nat2Z.id; reflexivity).
  change 0 with (Z.of_nat 0).
  rewrite (mem_loop_spec f o bs (spec_kept o (f_schema f)) ver Hwf Hbs Hv (spec_kept_in o (f_schema f))
             (length (f_rows f)) O 1) by lia.
  cbn [bind fst snd plus]. rewrite freeze_full. cbn [bind].
  unfold spec_load_file, spec_opens, cnt, zlen. rewrite Nat2Z.id. reflexivity.
Qed.

Theorem load_mem_spec : forall bs f o,
  wf_file f -> bs <> 0 ->
  load_file_mem_bs bs f o = Ok (spec_load_file f o, spec_opens (zlen (f_rows f)) bs).
Proof.
  intros bs f o Hwf Hbs. unfold load_file_mem_bs. apply load_mem_ver_spec; try assumption. reflexivity.
Qed.

(* the two modes agree on every well-formed file, whatever the block size *)
Theorem modes_agree_file : forall bs f o,
  wf_file f -> bs <> 0 ->
  exists t n1 n2, load_file_mem_bs bs f o = Ok (t, n1) /\ load_file_time f o = Ok (t, n2)
                  /\ t = spec_load_file f o.
Proof.
  intros bs f o Hwf Hbs. exists (spec_load_file f o), (spec_opens (zlen (f_rows f)) bs), 1.
  split; [apply load_mem_spec; assumption|]. split; [apply load_time_spec; assumption|reflexivity].
Qed.

(* for a positive block size the number of np.load calls is 1 + ceil(n / bs) *)
Lemma cnt_step : forall bs, 0 < bs -> forall n : nat,
  cnt bs 0 n = (Z.of_nat n + bs - 1) / bs.
Proof.
  intros bs Hbs. induction n as [|n IH].
  - unfold cnt. cbn. symmetry. apply Z.div_small. lia.
  - unfold cnt in *. rewrite seq_S, filter_app, app_length, Nat2Z.inj_add, IH. cbn [plus filter].
    assert (Hdm : Z.of_nat n = bs * (Z.of_nat n / bs) + Z.of_nat n mod bs) by (apply Z.div_mod; lia).
    pose proof (Z.mod_pos_bound (Z.of_nat n) bs Hbs) as Hr.
    set (q := Z.of_nat n / bs) in *. set (r := Z.of_nat n mod bs) in *.
    destruct (r =? 0) eqn:E.
    + apply Z.eqb_eq in E. cbn [length].
      assert (H1 : (Z.of_nat n + bs - 1) / bs = q)
        by (symmetry; apply Z.div_unique with (r := bs - 1); lia).
      assert (H2 : (Z.of_nat (S n) + bs - 1) / bs = q + 1)
        by (symmetry; apply Z.div_unique with (r := 0); lia).
      rewrite H1, H2. lia.
    + apply Z.eqb_neq in E. cbn [length].
      assert (H1 : (Z.of_nat n + bs - 1) / bs = q + 1)
        by (symmetry; apply Z.div_unique with (r := r - 1); lia).
      assert (H2 : (Z.of_nat (S n) + bs - 1) / bs = q + 1)
        by (symmetry; apply Z.div_unique with (r := r); lia).
      rewrite H1, H2. lia.
Qed.

Theorem spec_opens_ceil : forall n bs, 0 <= n -> 0 < bs ->
  spec_opens n bs = 1 + (n + bs - 1) / bs.
Proof.
  intros n bs Hn Hbs. unfold spec_opens. fold (cnt bs 0 (Z.to_nat n)).
  rewrite (cnt_step bs Hbs). rewrite Z2Nat.id by lia. reflexivity.
Qed.
