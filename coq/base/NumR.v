(* The real-number instance of Num: the reading under which theorems are
   stated.  erf has no definition in the installed libraries; it is a
   parameter of the instance (Section variable), characterised where needed by
   a hypothesis on its derivative. *)
From Coq Require Import Reals ZArith List Lra Lia.
From Sky Require Import Num.
Import ListNotations.
Open Scope R_scope.

Definition Rltb (a b : R) : bool := if Rlt_dec a b then true else false.
Definition Rleb (a b : R) : bool := if Rle_dec a b then true else false.
Definition Reqb (a b : R) : bool := if Req_EM_T a b then true else false.

Lemma Rltb_true a b : Rltb a b = true <-> a < b.
Proof. unfold Rltb. destruct (Rlt_dec a b); split; intros; try discriminate; tauto. Qed.
Lemma Rltb_false a b : Rltb a b = false <-> ~ a < b.
Proof. unfold Rltb. destruct (Rlt_dec a b); split; intros; try discriminate; tauto. Qed.
Lemma Rleb_true a b : Rleb a b = true <-> a <= b.
Proof. unfold Rleb. destruct (Rle_dec a b); split; intros; try discriminate; tauto. Qed.
Lemma Rleb_false a b : Rleb a b = false <-> ~ a <= b.
Proof. unfold Rleb. destruct (Rle_dec a b); split; intros; try discriminate; tauto. Qed.
Lemma Reqb_true a b : Reqb a b = true <-> a = b.
Proof. unfold Reqb. destruct (Req_EM_T a b); split; intros; try discriminate; tauto. Qed.
Lemma Reqb_false a b : Reqb a b = false <-> a <> b.
Proof. unfold Reqb. destruct (Req_EM_T a b); split; intros; try discriminate; tauto. Qed.

Definition Rfloor (x : R) : R := IZR (Int_part x).
Definition Rceil (x : R) : R := - IZR (Int_part (- x)).
Definition Rtrunc (x : R) : R := if Rle_dec 0 x then Rfloor x else Rceil x.
(* round half to even *)
Definition Rrint (x : R) : R :=
  let f := Int_part x in
  let r := x - IZR f in
  if Rlt_dec r (1/2) then IZR f
  else if Rlt_dec (1/2) r then IZR (f + 1)
  else if Z.even f then IZR f else IZR (f + 1).
(* np.mod / Python % : result has the sign of the divisor *)
Definition Rfmod (x y : R) : R := x - y * Rfloor (x / y).
Definition Ratan2 (y x : R) : R :=
  if Rlt_dec 0 x then Ratan.atan (y / x)
  else if Rlt_dec x 0 then (if Rle_dec 0 y then Ratan.atan (y / x) + PI else Ratan.atan (y / x) - PI)
  else if Rlt_dec 0 y then PI / 2 else if Rlt_dec y 0 then - PI / 2 else 0.

Section Inst.
  Variable erfR : R -> R.

  Definition RNum : Num R := {|
    nzero := 0; none := 1;
    nadd := Rplus; nsub := Rminus; nmul := Rmult; ndiv := Rdiv; nopp := Ropp;
    nltb := Rltb; nleb := Rleb; neqb := Reqb;
    nsqrt := R_sqrt.sqrt; nexp := Rtrigo_def.exp; nln := Rpower.ln;
    nlog1p := fun x => Rpower.ln (1 + x);
    nlog10 := fun x => Rpower.ln x / Rpower.ln 10;
    nsin := Rtrigo_def.sin; ncos := Rtrigo_def.cos; ntan := Rtrigo1.tan;
    nasin := Ratan.asin; nacos := Ratan.acos; natan := Ratan.atan;
    nabs := Rabs; nfloor := Rfloor; nceil := Rceil; nrint := Rrint; ntrunc := Rtrunc;
    nerf := erfR;
    natan2 := Ratan2; npow := Rpower; nfmod := Rfmod;
    nmin := Rmin; nmax := Rmax;
    npi := PI;
    nisnan := fun _ => false
  |}.

  Lemma ofPos_R p : ofPos RNum p = IZR (Zpos p).
  Proof.
    induction p as [q IH|q IH|]; cbn [ofPos]; cbv zeta.
    - rewrite IH. cbn [nadd none RNum]. rewrite (Pos2Z.inj_xI q), plus_IZR, mult_IZR. lra.
    - rewrite IH. cbn [nadd RNum]. rewrite (Pos2Z.inj_xO q), mult_IZR. lra.
    - reflexivity.
  Qed.

  Lemma ofZ_R z : ofZ RNum z = IZR z.
  Proof.
    destruct z as [|p|p]; cbn [ofZ].
    - reflexivity.
    - apply ofPos_R.
    - rewrite ofPos_R. cbn [nopp RNum]. rewrite <- opp_IZR. reflexivity.
  Qed.
End Inst.

(* unfold every Num projection of RNum in the goal *)
Ltac num_R :=
  cbn [nzero none nadd nsub nmul ndiv nopp nltb nleb neqb nsqrt nexp nln nlog1p nlog10 nsin ncos ntan nasin nacos natan nabs nfloor nceil nrint ntrunc nerf natan2 npow nfmod nmin nmax npi nisnan RNum] in *;
  rewrite ?ofZ_R in *.
