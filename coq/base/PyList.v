(* numpy / Python list idioms used by the models (definitions only; lemmas in
   proofs/P_PyList.v). Indices are Z so that Python's negative indexing and
   off-by-one arithmetic are modelled as the code computes them. *)
From Coq Require Import ZArith List Bool.
From Sky Require Import Result.
Import ListNotations.
Open Scope Z_scope.

Definition zlen {A} (l : list A) : Z := Z.of_nat (length l).

(* a[i] with Python semantics: negative indices wrap once, otherwise IndexError *)
Definition py_get {A} (l : list A) (i : Z) : res A :=
  let n := zlen l in
  let j := if i <? 0 then i + n else i in
  if (j <? 0) || (n <=? j) then Err IndexError
  else match nth_error l (Z.to_nat j) with
       | Some a => Ok a
       | None => Err IndexError
       end.

(* a[i] = v *)
Fixpoint set_nth {A} (l : list A) (k : nat) (v : A) : list A :=
  match l, k with
  | [], _ => []
  | _ :: t, O => v :: t
  | a :: t, S k' => a :: set_nth t k' v
  end.

Definition py_set {A} (l : list A) (i : Z) (v : A) : res (list A) :=
  let n := zlen l in
  let j := if i <? 0 then i + n else i in
  if (j <? 0) || (n <=? j) then Err IndexError
  else Ok (set_nth l (Z.to_nat j) v).

(* a[lo:hi] with Python slice clamping (step 1) *)
Definition py_norm_idx (n i : Z) : Z :=
  let j := if i <? 0 then i + n else i in
  Z.max 0 (Z.min n j).

Definition py_slice {A} (l : list A) (lo hi : Z) : list A :=
  let n := zlen l in
  let a := py_norm_idx n lo in
  let b := py_norm_idx n hi in
  firstn (Z.to_nat (b - a)) (skipn (Z.to_nat a) l).

(* np.digitize(x, bins) for monotonically non-decreasing bins (right=False):
   the number of edges <= x *)
Fixpoint digitize (x : Z) (bins : list Z) : Z :=
  match bins with
  | [] => 0
  | b :: r => (if b <=? x then 1 else 0) + digitize x r
  end.

(* np.searchsorted(a, v, side='right') coincides with digitize on sorted a;
   side='left' is the number of entries strictly below v. *)
Fixpoint searchsorted_left (a : list Z) (v : Z) : Z :=
  match a with
  | [] => 0
  | b :: r => (if b <? v then 1 else 0) + searchsorted_left r v
  end.

(* np.cumsum *)
Fixpoint cumsum_from (acc : Z) (l : list Z) : list Z :=
  match l with
  | [] => []
  | x :: r => (acc + x) :: cumsum_from (acc + x) r
  end.
Definition cumsum (l : list Z) : list Z := cumsum_from 0 l.

Definition zsum (l : list Z) : Z := fold_right Z.add 0 l.

(* np.diff *)
Fixpoint diff (l : list Z) : list Z :=
  match l with
  | a :: ((b :: _) as r) => (b - a) :: diff r
  | _ => []
  end.

(* a[::2] *)
Fixpoint evens {A} (l : list A) : list A :=
  match l with
  | a :: _ :: r => a :: evens r
  | [a] => [a]
  | [] => []
  end.

(* a[mask] *)
Fixpoint mask_select {A} (l : list A) (m : list bool) : list A :=
  match l, m with
  | a :: l', b :: m' => if b then a :: mask_select l' m' else mask_select l' m'
  | _, _ => []
  end.

(* np.arange(n) *)
Definition arange (n : nat) : list Z := map Z.of_nat (seq 0 n).

(* flatten an (N,2) array *)
Fixpoint flat2 (ivs : list (Z * Z)) : list Z :=
  match ivs with
  | [] => []
  | (l, u) :: r => l :: u :: flat2 r
  end.

(* reshape a flat even-length list to (N,2) *)
Fixpoint unflat2 (l : list Z) : list (Z * Z) :=
  match l with
  | a :: b :: r => (a, b) :: unflat2 r
  | _ => []
  end.
