(* One definition, several number systems: numerical kernels and models are
   written once over this record.  Instances: R (theorems, base/NumR.v) and
   OCaml floats (execution; the record value is built by the hand-written
   driver and handed to the extracted polymorphic code — no Extract Constant,
   no axiom). *)
From Coq Require Import ZArith List.
Import ListNotations.

Record Num (T : Type) : Type := {
  nzero : T; none : T;
  nadd : T -> T -> T; nsub : T -> T -> T; nmul : T -> T -> T; ndiv : T -> T -> T;
  nopp : T -> T;
  nltb : T -> T -> bool; nleb : T -> T -> bool; neqb : T -> T -> bool;
  nsqrt : T -> T; nexp : T -> T; nln : T -> T; nlog1p : T -> T; nlog10 : T -> T;
  nsin : T -> T; ncos : T -> T; ntan : T -> T;
  nasin : T -> T; nacos : T -> T; natan : T -> T;
  nabs : T -> T; nfloor : T -> T; nceil : T -> T; nrint : T -> T; ntrunc : T -> T;
  nerf : T -> T;
  natan2 : T -> T -> T; npow : T -> T -> T; nfmod : T -> T -> T;
  nmin : T -> T -> T; nmax : T -> T -> T;
  npi : T;
  nisnan : T -> bool
}.

Arguments nzero {T} _. Arguments none {T} _.
Arguments nadd {T} _ _ _. Arguments nsub {T} _ _ _. Arguments nmul {T} _ _ _.
Arguments ndiv {T} _ _ _. Arguments nopp {T} _ _.
Arguments nltb {T} _ _ _. Arguments nleb {T} _ _ _. Arguments neqb {T} _ _ _.
Arguments nsqrt {T} _ _. Arguments nexp {T} _ _. Arguments nln {T} _ _.
Arguments nlog1p {T} _ _. Arguments nlog10 {T} _ _.
Arguments nsin {T} _ _. Arguments ncos {T} _ _. Arguments ntan {T} _ _.
Arguments nasin {T} _ _. Arguments nacos {T} _ _. Arguments natan {T} _ _.
Arguments nabs {T} _ _. Arguments nfloor {T} _ _. Arguments nceil {T} _ _.
Arguments nrint {T} _ _. Arguments ntrunc {T} _ _. Arguments nerf {T} _ _.
Arguments natan2 {T} _ _ _. Arguments npow {T} _ _ _. Arguments nfmod {T} _ _ _.
Arguments nmin {T} _ _ _. Arguments nmax {T} _ _ _.
Arguments npi {T} _. Arguments nisnan {T} _ _.

Section Derived.
  Context {T : Type} (N : Num T).

  (* integer literals by binary expansion: exact in R and, below 2^53, in
     IEEE double arithmetic *)
  Fixpoint ofPos (p : positive) : T :=
    match p with
    | xH => none N
    | xO q => let x := ofPos q in nadd N x x
    | xI q => let x := ofPos q in nadd N (nadd N x x) (none N)
    end.

  Definition ofZ (z : Z) : T :=
    match z with
    | Z0 => nzero N
    | Zpos p => ofPos p
    | Zneg p => nopp N (ofPos p)
    end.

  (* np.sum read left to right (numpy's pairwise order differs only by
     rounding; the correspondence compares with a tolerance) *)
  Definition nsum (l : list T) : T := fold_left (nadd N) l (nzero N).
  Definition nprod (l : list T) : T := fold_left (nmul N) l (none N).
End Derived.
