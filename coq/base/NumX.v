(* Derived operation for C13 (kept out of Num.v so that nothing else is rebuilt):
   expm1 by Kahan's formula from the Num primitives — exact in R (for u = exp x <> 1,
   ln u = x), accurate to a few ulp in IEEE doubles. *)
From Sky Require Import Num.
Definition nexpm1 {T : Type} (N : Num T) (x : T) : T :=
  let u := nexp N x in
  if neqb N u (none N) then x
  else ndiv N (nmul N (nsub N u (none N)) x) (nln N u).
