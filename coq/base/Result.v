(* Error-carrying results: the model raises where the code raises. *)
From Coq Require Import List.
Import ListNotations.

Inductive err : Type :=
| IndexError | KeyError | TypeError | ValueError | NameError | ZeroDivision
| RuntimeError | AssertionError | AttributeError | OutOfFuel.

Inductive res (A : Type) : Type :=
| Ok : A -> res A
| Err : err -> res A.
Arguments Ok {A} _.
Arguments Err {A} _.

Definition bind {A B} (r : res A) (f : A -> res B) : res B :=
  match r with Ok a => f a | Err e => Err e end.

Notation "'do' x <- r ; k" := (bind r (fun x => k))
  (at level 200, x name, r at level 100, k at level 200, right associativity).

Definition is_ok {A} (r : res A) : bool :=
  match r with Ok _ => true | Err _ => false end.

Fixpoint mapM {A B} (f : A -> res B) (l : list A) : res (list B) :=
  match l with
  | [] => Ok []
  | a :: t => do b <- f a; do bs <- mapM f t; Ok (b :: bs)
  end.
