(* C10 — every constructed probability density is non-negative and normalised.
   Statements only; every proof is `exact <lemma>`.  Real-number reading
   (RNum erf); erf is universally quantified and characterised, where it
   matters, by the premise on its derivative. *)
From Coq Require Import Reals ZArith List Bool Lra Lia.
From Coquelicot Require Import Coquelicot.
From Sky Require Import Num NumR Result PyList G_pdf M_Pdf M_PdfState M_PdfExt S_Pdf S_PdfState
  M_Livetime S_Livetime P_PdfTime P_Pdf P_PdfBridge P_PdfState P_PdfExt P_PdfSmooth.
Import ListNotations.

(* ------------------------------------------------------------------ time densities *)

(* sum over the up-time intervals of the integral of the density = 1, for every
   interval list, box profile and gaussian profile *)
Theorem C10_time_norm : forall (erf : R -> R) (ivs : list (R * R)) (p : profile),
  wfR ivs ->
  match p with
  | Box ts te => (ts <= te)%R
  | Gauss ts te s =>
      (ts <= te)%R /\ s <> 0%R /\
      (forall x, is_derive erf x (2 / sqrt PI * exp (- (x * x)))%R)
  end ->
  S_of (RNum erf) ivs p <> 0%R ->
  (forall l u, In (l, u) ivs -> ex_RInt (sig_time_pd (RNum erf) ivs p) l u) /\
  Rsum (map (fun iv => RInt (sig_time_pd (RNum erf) ivs p) (fst iv) (snd iv)) ivs) = 1%R.
Proof. exact time_pd_norm. Qed.
Print Assumptions C10_time_norm.

Theorem C10_time_nonneg : forall (erf : R -> R) (ivs : list (R * R)) (p : profile) (t : R),
  wfR ivs ->
  match p with
  | Box ts te => (ts <= te)%R
  | Gauss ts te s =>
      (ts <= te)%R /\ s <> 0%R /\
      (forall x, is_derive erf x (2 / sqrt PI * exp (- (x * x)))%R)
  end ->
  S_of (RNum erf) ivs p <> 0%R ->
  (0 <= sig_time_pd (RNum erf) ivs p t)%R.
Proof. exact time_pd_nonneg. Qed.
Print Assumptions C10_time_nonneg.

(* zero during off-time, profile / S during on-time *)
Theorem C10_time_off : forall (erf : R -> R) (ivs : list (R * R)) (p : profile) (t : R),
  ~ (exists l u, In (l, u) ivs /\ (l <= t < u)%R) ->
  sig_time_pd (RNum erf) ivs p t = 0%R.
Proof. exact time_pd_off. Qed.
Print Assumptions C10_time_off.

Theorem C10_time_on : forall (erf : R -> R) (ivs : list (R * R)) (p : profile) (t : R),
  (exists l u, In (l, u) ivs /\ (l <= t < u)%R) ->
  sig_time_pd (RNum erf) ivs p t = (prof_call (RNum erf) p t / S_of (RNum erf) ivs p)%R.
Proof. exact time_pd_on. Qed.
Print Assumptions C10_time_on.

(* the background time PDF is the same function *)
Theorem C10_time_bkg : forall (erf : R -> R) (ivs : list (R * R)) (p : profile) (t : R),
  bkg_time_pd (RNum erf) ivs p t = sig_time_pd (RNum erf) ivs p t.
Proof. exact bkg_eq_sig. Qed.
Print Assumptions C10_time_bkg.

(* S is a sum of non-negative terms, so S <> 0 means S > 0 *)
Theorem C10_time_S_nonneg : forall (erf : R -> R) (ivs : list (R * R)) (p : profile),
  wfR ivs ->
  match p with
  | Box ts te => (ts <= te)%R
  | Gauss ts te s =>
      (ts <= te)%R /\ s <> 0%R /\
      (forall x, is_derive erf x (2 / sqrt PI * exp (- (x * x)))%R)
  end ->
  (0 <= S_of (RNum erf) ivs p)%R.
Proof. exact S_of_nonneg. Qed.
Print Assumptions C10_time_S_nonneg.

(* tie to the C14 model of Livetime: on integer (dyadic) inputs the closed
   forms used above are the code's digitize-based is_on and
   get_uptime_intervals_between *)
Theorem C10_time_is_on_is_C14 : forall (erf : R -> R) (ivs : list (Z * Z)) (t : Z),
  wf ivs ->
  lt_is_on (RNum erf) (map IZR2 ivs) (IZR t) = is_on ivs t.
Proof. exact is_on_bridge. Qed.
Print Assumptions C10_time_is_on_is_C14.

Theorem C10_time_between_is_C14 : forall (erf : R -> R) (ivs : list (Z * Z)) (t1 t2 : Z),
  wf ivs -> (t1 <= t2)%Z ->
  between ivs t1 t2 = Ok (clip ivs t1 t2) /\
  lt_between (RNum erf) (map IZR2 ivs) (IZR t1) (IZR t2) = map IZR2 (clip ivs t1 t2).
Proof. exact between_bridge. Qed.
Print Assumptions C10_time_between_is_C14.

Theorem C10_time_wf_is_C14 : forall (ivs : list (Z * Z)), wf ivs -> wfR (map IZR2 ivs).
Proof. exact wf_wfR. Qed.
Print Assumptions C10_time_wf_is_C14.

(* ------------------------------------------------------------------ energy histogram *)

(* every declination band with non-zero content integrates to one over
   log10(E); entries are non-negative *)
Theorem C10_ehist_norm : forall (erf : R -> R) (c w : list R),
  length c = length w ->
  List.Forall (fun x => (0 < x)%R) w ->
  Rsum c <> 0%R ->
  step_integral (RNum erf) (eh_band (RNum erf) c w) w = 1%R.
Proof. exact eh_band_norm. Qed.
Print Assumptions C10_ehist_norm.

Theorem C10_ehist_nonneg : forall (erf : R -> R) (c w : list R),
  List.Forall (fun x => (0 <= x)%R) c ->
  List.Forall (fun x => (0 < x)%R) w ->
  List.Forall (fun x => (0 <= x)%R) (eh_band (RNum erf) c w).
Proof. exact eh_band_nonneg. Qed.
Print Assumptions C10_ehist_nonneg.

(* ------------------------------------------------------------------ spatial histogram *)

Theorem C10_shist_norm : forall (erf : R -> R) (h edges h' : list R),
  sh_hist (RNum erf) h edges = Ok h' ->
  length edges = S (length h) ->
  List.Forall (fun lu => (fst lu < snd lu)%R) (combine (removelast edges) (tl edges)) ->
  Rsum h <> 0%R ->
  List.Forall (fun x => (0 < x)%R) h' /\
  step_integral (RNum erf) h' (bin_widths (RNum erf) edges) = 1%R.
Proof. exact sh_hist_norm. Qed.
Print Assumptions C10_shist_norm.

(* 0.5/pi * exp(log density): integrating over right-ascension [0, 2 pi)
   gives back the sin(dec) density *)
Theorem C10_shist_sphere : forall (erf : R -> R) (x : R),
  (0 < x)%R -> (2 * PI * sh_pd (RNum erf) (ln x))%R = x.
Proof. exact sh_pd_sphere. Qed.
Print Assumptions C10_shist_sphere.

Theorem C10_shist_pos : forall (erf : R -> R) (y : R), (0 < sh_pd (RNum erf) y)%R.
Proof. exact sh_pd_pos. Qed.
Print Assumptions C10_shist_pos.

(* ------------------------------------------------------------------ gaussian PSF *)

Theorem C10_psf_disc : forall (erf : R -> R) (s R0 : R),
  s <> 0%R ->
  is_RInt (fun r => (2 * PI * r * psf_gauss (RNum erf) (s * s) r)%R) 0 R0
          (1 - exp (- (R0 * R0) / (2 * (s * s))))%R.
Proof. exact psf_disc. Qed.
Print Assumptions C10_psf_disc.

Theorem C10_psf_plane : forall (s : R),
  s <> 0%R ->
  is_lim (fun R0 => (1 - exp (- (R0 * R0) / (2 * (s * s))))%R) p_infty 1%R.
Proof. exact psf_plane_limit. Qed.
Print Assumptions C10_psf_plane.

Theorem C10_psf_pos : forall (erf : R -> R) (s r : R),
  s <> 0%R -> (0 < psf_gauss (RNum erf) (s * s) r)%R.
Proof. exact psf_nonneg. Qed.
Print Assumptions C10_psf_pos.

(* Rayleigh PSF over a spherical cap (solid angle 2 pi sin(psi) dpsi) *)
Theorem C10_psf_rayleigh_cap : forall (erf : R -> R) (s Psi : R),
  s <> 0%R -> (0 <= Psi <= PI)%R ->
  is_RInt (fun r => (2 * PI * sin r * psf_rayleigh (RNum erf) (s * s) r)%R) 0 Psi
          (1 - exp (- (Psi * Psi) / (2 * (s * s))))%R.
Proof. exact psf_rayleigh_cap. Qed.
Print Assumptions C10_psf_rayleigh_cap.

(* ------------------------------------------------------------------ accepted data can be evaluated *)

(* a value accepted by BinningDefinition.any_data_out_of_range gets the index
   of its np.histogram bin (half-open bins, last bin closed) *)
Theorem C10_bin_index : forall (edges : list Z) (x : Z),
  nondec edges -> (2 <= zlen edges)%Z ->
  bin_any_oor edges x = Ok false ->
  exists i, bin_index_e edges x = Ok i /\ in_bin edges i x.
Proof. exact bin_index_ok. Qed.
Print Assumptions C10_bin_index.

(* I3EnergyPDF: whatever assert_is_valid_for_trial_data accepts, get_pd
   evaluates, and it returns the entry of the event's own bin *)
Theorem C10_valid_evaluable : forall (A : Type) (hist : list (list A)) (edgesE edgesS : list Z) (x y : Z),
  nondec edgesE -> nondec edgesS -> (2 <= zlen edgesE)%Z -> (2 <= zlen edgesS)%Z ->
  zlen hist = (zlen edgesE - 1)%Z ->
  List.Forall (fun row => zlen row = (zlen edgesS - 1)%Z) hist ->
  eh_assert_valid edgesE edgesS x y = Ok tt ->
  exists i j row v,
    in_bin edgesE i x /\ in_bin edgesS j y /\
    nth_error hist (Z.to_nat i) = Some row /\ nth_error row (Z.to_nat j) = Some v /\
    eh_get_pd hist edgesE edgesS x y = Ok v.
Proof. exact @eh_valid_evaluable. Qed.
Print Assumptions C10_valid_evaluable.

(* ------------------------------------------------------------------ state machines *)

(* SignalTimePDF._calculate_pd, ANY number system, from ANY state (the cached S
   may be stale: the method refreshes it first, fix 34ac9f2): every source block
   is the density normalised with the S of the profile reached by ITS row, the
   state left behind has S = S_of(profile) (S recomputed iff set_params updated),
   and its profile is the one reached by the rows *)
Theorem C10_multi_source_own_S : forall (T : Type) (N : Num T) (ivs : list (T * T)) (tol : T)
    (st : tstate) (rows : list (T * T)) (times : list (list T)),
  fst (calc_pd N ivs tol st rows times) = calc_spec N ivs tol (fst st) rows times /\
  snd (snd (calc_pd N ivs tol st rows times))
    = S_of N ivs (fst (snd (calc_pd N ivs tol st rows times))) /\
  fst (snd (calc_pd N ivs tol st rows times))
    = rows_profile N tol (fst st) (firstn (length times) rows).
Proof. exact @calc_pd_spec. Qed.
Print Assumptions C10_multi_source_own_S.

(* a Signal/BackgroundTimePDF object under ALL its public operations (the two
   property setters, get_pd / a new trial) interleaved with changes of the
   live-time array or of the (possibly shared) profile object from outside:
   what it returns is a function of the CURRENT live time and profile only *)
Theorem C10_object_history : forall (T : Type) (N : Num T) (tol : T) (o : tobj) (ops : list top),
  snd (orun N tol o ops) = spec_run N tol (o_ivs o, o_prof o) ops.
Proof. exact @orun_spec. Qed.
Print Assumptions C10_object_history.

(* needed: outside changes break S = S_of(profile), and the bare loop (the code
   before the repair) then returns 2/3 where the normalised density is 1 *)
Theorem C10_stale_S_refuted : forall erf : R -> R,
  snd (Box (1 / 2) 3, 3 / 2)%R = S_of (RNum erf) [(0, 1); (2, 4)]%R (fst (Box (1 / 2) 3, 3 / 2)%R) /\
  ~ snd (Box 0 1, 3 / 2)%R = S_of (RNum erf) [(0, 1); (2, 4)]%R (fst (Box 0 1, 3 / 2)%R) /\
  tpd (RNum erf) [(0, 1); (2, 4)]%R (Box 0 1, 3 / 2)%R (1 / 2)%R = (2 / 3)%R /\
  sig_time_pd (RNum erf) [(0, 1); (2, 4)]%R (Box 0 1)%R (1 / 2)%R = 1%R.
Proof. exact stale_refuted. Qed.
Print Assumptions C10_stale_S_refuted.

(* ... over any history of get_pd calls on one object *)
Theorem C10_calls_keep_S : forall (T : Type) (N : Num T) (ivs : list (T * T)) (tol : T)
    (st : tstate) (calls : list (list (T * T) * list (list T))),
  snd st = S_of N ivs (fst st) ->
  snd (snd (calc_calls N ivs tol st calls)) = S_of N ivs (fst (snd (calc_calls N ivs tol st calls))).
Proof. exact @calc_calls_inv'. Qed.
Print Assumptions C10_calls_keep_S.

(* set_params reports `not updated` only when the profile is unchanged *)
Theorem C10_set_params_flag : forall (T : Type) (N : Num T) (tol : T) (p : profile) (r : T * T),
  snd (apply_row N tol p r) = false -> fst (apply_row N tol p r) = p.
Proof. exact @apply_row_noupd. Qed.
Print Assumptions C10_set_params_flag.

(* real-number reading: a freshly constructed PDF evaluated for K sources gives,
   for source k, the density of the box [t0_k - tw_k/2, t0_k + tw_k/2] resp. of the
   gaussian (t0_k, sigma_k) with its support window — each with its own S
   (so C10_time_norm applies to every source separately) *)
Theorem C10_multi_source : forall (erf : R -> R) (tol : R) (ivs : list (R * R)) (p : profile)
    (rows : list (R * R)) (times : list (list R)),
  match p with
  | Gauss ts te s => (te - ts = 2 * gs_set_sigma_dt (RNum erf) s tol)%R
  | Box _ _ => True
  end ->
  length rows = length times ->
  fst (calc_pd (RNum erf) ivs tol (tinit (RNum erf) ivs p) rows times)
  = map (fun rt =>
           map (sig_time_pd (RNum erf) ivs
                  match p with
                  | Box _ _ => Box (fst (fst rt) - snd (fst rt) / 2)%R (fst (fst rt) + snd (fst rt) / 2)%R
                  | Gauss _ _ _ =>
                      Gauss (fst (fst rt) - gs_set_sigma_dt (RNum erf) (snd (fst rt)) tol)%R
                            (fst (fst rt) + gs_set_sigma_dt (RNum erf) (snd (fst rt)) tol)%R
                            (snd (fst rt))
                  end)
               (snd rt))
        (combine rows times).
Proof. exact multi_source. Qed.
Print Assumptions C10_multi_source.

(* BackgroundI3SpatialPDF: after EVERY sequence of add_events / reset the node
   values of the log-spline (and the ones kept for reset) integrate to one *)
Theorem C10_add_events_reset : forall (erf : R -> R) (h edges : list R) (st0 : sstate) (ops : list sop),
  sinit (RNum erf) h edges = Ok st0 ->
  length edges = S (length h) ->
  List.Forall (fun lu => (fst lu < snd lu)%R) (combine (removelast edges) (tl edges)) ->
  List.Forall (fun x => (0 <= x)%R) h -> Rsum h <> 0%R ->
  List.Forall (fun o => match o with
                        | AddEvents u => length u = length h /\ List.Forall (fun x => (0 <= x)%R) u
                        | Reset => True
                        end) ops ->
  (step_integral (RNum erf) (s_nodes (srun (RNum erf) edges st0 ops)) (bin_widths (RNum erf) edges) = 1%R /\
   step_integral (RNum erf) (s_orig_nodes (srun (RNum erf) edges st0 ops)) (bin_widths (RNum erf) edges) = 1%R) /\
  s_orig (srun (RNum erf) edges st0 ops) = h.
Proof. exact srun_norm. Qed.
Print Assumptions C10_add_events_reset.

(* ... and stay positive, so that the log-spline is built from positive numbers *)
Theorem C10_add_events_positive : forall (erf : R -> R) (h edges : list R) (st0 : sstate) (ops : list sop),
  sinit (RNum erf) h edges = Ok st0 ->
  length edges = S (length h) ->
  List.Forall (fun lu => (fst lu < snd lu)%R) (combine (removelast edges) (tl edges)) ->
  List.Forall (fun x => (0 < x)%R) h -> h <> [] ->
  List.Forall (fun o => match o with
                        | AddEvents u => length u = length h /\ List.Forall (fun x => (0 <= x)%R) u
                        | Reset => True
                        end) ops ->
  List.Forall (fun x => (0 < x)%R) (s_nodes (srun (RNum erf) edges st0 ops)).
Proof. exact srun_pos. Qed.
Print Assumptions C10_add_events_positive.

(* the log-spline with scipy's spline as an oracle (contract: it interpolates its
   nodes): the mid-point rule over the sphere of the returned density equals the
   step integral of the node values — "normalised within the documented
   approximation" means: exactly, in the mid-point rule; positivity holds at
   every point (C10_shist_pos) *)
Theorem C10_spline_midpoint : forall (erf : R -> R) (spl : list R -> list R -> R -> R),
  (forall xs ys i, length xs = length ys -> (i < length xs)%nat ->
     spl xs ys (nth i xs 0%R) = nth i ys 0%R) ->
  forall centers nodes widths : list R,
  length centers = length nodes -> length widths = length nodes ->
  List.Forall (fun x => (0 < x)%R) nodes ->
  Rsum (map (fun cw => (2 * PI * sh_pd (RNum erf) (spl centers (map ln nodes) (fst cw)) * snd cw)%R)
            (combine centers widths))
  = step_integral (RNum erf) nodes widths.
Proof. exact spline_midpoint. Qed.
Print Assumptions C10_spline_midpoint.

(* ------------------------------------------------------------------ zero normalisations (extended reals) *)

(* off-time events are exactly zero in every number system, whatever S is *)
Theorem C10_off_time_zero : forall (T : Type) (N : Num T) (ivs : list (T * T)) (p : profile) (t : T),
  lt_is_on N ivs t = false ->
  sig_time_pd N ivs p t = nzero N /\ bkg_time_pd N ivs p t = nzero N.
Proof. exact @off_time_zero. Qed.
Print Assumptions C10_off_time_zero.

(* S = 0 (window without on-time): +inf where the profile is positive, NaN where it is zero *)
Theorem C10_time_S_zero_ext : forall (erf : R -> R) (ivs : list (ext * ext)) (p : profile) (t : ext),
  S_of (XNum erf) ivs p = Fin 0 ->
  (lt_is_on (XNum erf) ivs t = false -> sig_time_pd (XNum erf) ivs p t = Fin 0) /\
  (lt_is_on (XNum erf) ivs t = true -> forall x, prof_call (XNum erf) p t = Fin x ->
     ((0 < x)%R -> sig_time_pd (XNum erf) ivs p t = PInf) /\
     (x = 0%R -> sig_time_pd (XNum erf) ivs p t = XNaN)).
Proof. exact time_pd_S_zero. Qed.
Print Assumptions C10_time_S_zero_ext.

(* an empty declination band is NaN throughout; a band with content is the real model *)
Theorem C10_ehist_empty_band_ext : forall (erf : R -> R) (c w : list R),
  length c = length w -> Rsum c = 0%R -> List.Forall (fun x => x = 0%R) c ->
  eh_band (XNum erf) (map Fin c) (map Fin w) = map (fun _ => XNaN) c.
Proof. exact eh_band_empty. Qed.
Print Assumptions C10_ehist_empty_band_ext.

Theorem C10_ehist_band_ext_is_real : forall (erf : R -> R) (c w : list R),
  length c = length w -> Rsum c <> 0%R -> List.Forall (fun x => x <> 0%R) w ->
  eh_band (XNum erf) (map Fin c) (map Fin w) = map Fin (eh_band (RNum erf) c w).
Proof. exact eh_band_fin. Qed.
Print Assumptions C10_ehist_band_ext_is_real.

Theorem C10_time_ext_is_real : forall (erf : R -> R) (S x : R),
  S <> 0%R -> tp_sig_pd (XNum erf) (Fin S) (Fin x) = Fin (tp_sig_pd (RNum erf) S x).
Proof. exact time_pd_fin. Qed.
Print Assumptions C10_time_ext_is_real.

(* the guard S <> 0 of C10_time_norm is needed: witnesses *)
Theorem C10_time_S_zero_refuted : forall erf : R -> R,
  wfR [(0, 1)]%R /\ (2 <= 3)%R /\
  S_of (RNum erf) [(0, 1)]%R (Box 2 3)%R = 0%R /\
  Rsum (map (fun iv => RInt (sig_time_pd (RNum erf) [(0, 1)]%R (Box 2 3)%R) (fst iv) (snd iv)) [(0, 1)]%R) = 0%R.
Proof. exact S_zero_refuted. Qed.
Print Assumptions C10_time_S_zero_refuted.

Theorem C10_time_S_zero_witness : forall erf : R -> R,
  S_of (XNum erf) [(Fin 0, Fin 1)] (Box (Fin (1 / 2)) (Fin (1 / 2))) = Fin 0 /\
  sig_time_pd (XNum erf) [(Fin 0, Fin 1)] (Box (Fin (1 / 2)) (Fin (1 / 2))) (Fin (1 / 2)) = PInf /\
  sig_time_pd (XNum erf) [(Fin 0, Fin 1)] (Box (Fin (1 / 2)) (Fin (1 / 2))) (Fin (1 / 4)) = XNaN /\
  sig_time_pd (XNum erf) [(Fin 0, Fin 1)] (Box (Fin (1 / 2)) (Fin (1 / 2))) (Fin 2) = Fin 0.
Proof. exact S_zero_witness. Qed.
Print Assumptions C10_time_S_zero_witness.

(* ------------------------------------------------------------------ validity check and NaN / inf (fix 837a912) *)

(* NaN and +-inf are out of range for every binning: rejected by
   assert_is_valid_for_trial_data, they never reach the lookup; on finite values
   the test is lo <= x <= up, and on integers it is the Z kernel used by
   C10_valid_evaluable *)
Theorem C10_nan_rejected : forall (erf : R -> R) (lo up : ext),
  bin_oor_n (XNum erf) XNaN lo up = true.
Proof. exact nan_rejected. Qed.
Print Assumptions C10_nan_rejected.

Theorem C10_inf_rejected : forall (erf : R -> R) (lo up : R),
  bin_oor_n (XNum erf) PInf (Fin lo) (Fin up) = true /\ bin_oor_n (XNum erf) NInf (Fin lo) (Fin up) = true.
Proof. exact inf_rejected. Qed.
Print Assumptions C10_inf_rejected.

Theorem C10_range_check_ext_is_Z : forall (erf : R -> R) (x lo up : Z),
  bin_oor_n (XNum erf) (Fin (IZR x)) (Fin (IZR lo)) (Fin (IZR up)) = bin_oor x lo up.
Proof. exact bin_oor_bridge. Qed.
Print Assumptions C10_range_check_ext_is_Z.

(* the time axis check accepts NaN, but evaluation is total: a NaN time is off-time, density 0 *)
Theorem C10_nan_time : forall (erf : R -> R) (lo up : R) (ivs : list (ext * ext)) (p : profile),
  tp_time_oor (XNum erf) XNaN (Fin lo) (Fin up) = false /\
  sig_time_pd (XNum erf) ivs p XNaN = Fin 0 /\ bkg_time_pd (XNum erf) ivs p XNaN = Fin 0.
Proof. exact nan_time_accepted_and_zero. Qed.
Print Assumptions C10_nan_time.

(* the test as it was before the repair, (x < lo) | (x > up), accepted NaN *)
Example C10_nan_accepted_before : forall (erf : R -> R) (lo up : R),
  orb (nltb (XNum erf) XNaN (Fin lo)) (nltb (XNum erf) (Fin up) XNaN) = false.
Proof. exact nan_accepted_before. Qed.

(* ------------------------------------------------------------------ smoothed histograms *)

(* partial: every smoothed bin is a convex combination of input bins — non-negative
   and bounded by the input range *)
Theorem C10_smooth_convex_partial : forall (erf : R -> R) (k h : list R) (lo hi : R),
  List.Forall (fun x => (0 <= x)%R) k ->
  List.Forall (fun x => (lo <= x <= hi)%R) h ->
  (forall i, (i < length h)%nat ->
     (0 < Rsum (map (fun l => kat (RNum erf) k
                                  (Z.of_nat i + (Z.of_nat (length k) - 1) / 2 - Z.of_nat l)%Z)
                    (seq 0 (length h))))%R) ->
  List.Forall (fun x => (lo <= x <= hi)%R) (smooth1 (RNum erf) k h).
Proof. exact smooth_convex. Qed.
Print Assumptions C10_smooth_convex_partial.

(* what a symmetric kernel conserves exactly: the mass weighted with the kernel
   norms (not the bin-width normalisation) *)
Theorem C10_smooth_conserves : forall (erf : R -> R) (k h : list R),
  (forall i l, kw erf k i l = kw erf k l i) ->
  (forall i, (i < length h)%nat -> knorm erf k (length h) i <> 0%R) ->
  Rsum (map (fun i => (knorm erf k (length h) i * nth i (smooth1 (RNum erf) k h) 0)%R) (seq 0 (length h)))
  = Rsum (map (fun l => (knorm erf k (length h) l * nth l h 0)%R) (seq 0 (length h))).
Proof. exact smooth_conserves. Qed.
Print Assumptions C10_smooth_conserves.

(* exact normalisation after smoothing is refuted: block kernel, unit widths *)
Theorem C10_smooth_norm_refuted : forall erf : R -> R,
  step_integral (RNum erf) [1; 0; 0]%R [1; 1; 1]%R = 1%R /\
  smooth1 (RNum erf) [1; 1; 1]%R [1; 0; 0]%R = [1 / 2; 1 / 3; 0 / 2]%R /\
  step_integral (RNum erf) (smooth1 (RNum erf) [1; 1; 1]%R [1; 0; 0]%R) [1; 1; 1]%R = (5 / 6)%R.
Proof. exact smooth_norm_refuted. Qed.
Print Assumptions C10_smooth_norm_refuted.

(* ------------------------------------------------------------------ non-vacuity *)

(* the hypotheses of the time theorems are satisfiable: a concrete live time
   with a gap, a box partly outside on-time, S = 3/2 *)
Example C10_time_nonvacuous : forall erf : R -> R,
  wfR [(0, 1); (2, 4)]%R /\
  S_of (RNum erf) [(0, 1); (2, 4)]%R (Box (1 / 2) 3)%R = (3 / 2)%R /\
  sig_time_pd (RNum erf) [(0, 1); (2, 4)]%R (Box (1 / 2) 3)%R (3 / 4)%R = (2 / 3)%R /\
  sig_time_pd (RNum erf) [(0, 1); (2, 4)]%R (Box (1 / 2) 3)%R (3 / 2)%R = 0%R /\
  sig_time_pd (RNum erf) [(0, 1); (2, 4)]%R (Box (1 / 2) 3)%R (7 / 2)%R = 0%R.
Proof. exact time_example. Qed.

(* a function with the premised derivative exists *)
Example C10_erf_exists :
  exists erf : R -> R, forall x, is_derive erf x (2 / sqrt PI * exp (- (x * x)))%R.
Proof. exact erf_contract_sat. Qed.

(* events exactly on the outermost edges: accepted, and evaluated in the first /
   last bin; the lookup as it was before the repair raised IndexError there *)
Example C10_upper_edge :
  let eE := [8; 16; 24; 40]%Z in let eS := [-8; 0; 4; 8]%Z in
  let hist := [[11; 12; 13]; [21; 22; 23]; [31; 32; 33]]%Z in
  nondec eE /\ nondec eS /\
  eh_assert_valid eE eS 40 8 = Ok tt /\ eh_get_pd hist eE eS 40 8 = Ok 33%Z /\
  eh_assert_valid eE eS 8 (-8) = Ok tt /\ eh_get_pd hist eE eS 8 (-8) = Ok 11%Z /\
  eh_assert_valid eE eS 24 0 = Ok tt /\ eh_get_pd hist eE eS 24 0 = Ok 32%Z /\
  eh_assert_valid eE eS 41 0 = Err ValueError /\
  eh_get_pd_old hist eE eS 40 0 = Err IndexError /\
  eh_get_pd_old hist eE eS 16 8 = Err IndexError.
Proof. cbv zeta. repeat split; try (vm_compute; reflexivity); cbn; lia. Qed.

(* non-square histograms, both axes: 2 x 4 and 4 x 2 (seeded C10-6) *)
Example C10_upper_edge_nonsquare :
  let e2 := [0; 8; 16]%Z in let e4 := [-8; -4; 0; 4; 8]%Z in
  let h24 := [[11; 12; 13; 14]; [21; 22; 23; 24]]%Z in
  let h42 := [[11; 12]; [21; 22]; [31; 32]; [41; 42]]%Z in
  eh_assert_valid e2 e4 16 8 = Ok tt /\ eh_get_pd h24 e2 e4 16 8 = Ok 24%Z /\
  eh_get_pd h24 e2 e4 3 8 = Ok 14%Z /\ eh_get_pd h24 e2 e4 16 (-8) = Ok 21%Z /\
  eh_assert_valid e4 e2 8 16 = Ok tt /\ eh_get_pd h42 e4 e2 8 16 = Ok 42%Z /\
  eh_get_pd h42 e4 e2 8 3 = Ok 41%Z /\ eh_get_pd h42 e4 e2 (-8) 16 = Ok 12%Z.
Proof. cbv zeta. repeat split; vm_compute; reflexivity. Qed.
