(* C10 — every constructed probability density is non-negative and normalised.
   Statements only; every proof is `exact <lemma>`.  Real-number reading
   (RNum erf); erf is universally quantified and characterised, where it
   matters, by the premise on its derivative. *)
From Coq Require Import Reals ZArith List Bool Lra Lia.
From Coquelicot Require Import Coquelicot.
From Sky Require Import Num NumR Result PyList G_pdf M_Pdf S_Pdf M_Livetime S_Livetime
  P_PdfTime P_Pdf P_PdfBridge.
Import ListNotations.

(* ------------------------------------------------------------------ time densities *)

(* sum over the up-time intervals of the integral of the density = 1, for every
   interval list, box profile and gaussian profile *)
Theorem C10_time_norm : forall (erf : R -> R) (ivs : list (R * R)) (p : profile),
  wfR ivs ->
  match p with
  | Box ts te => (ts <= te)%R
  | Gauss ts te s =>
      (ts <= te)%R /\ s <> 0%R /\
      (forall x, is_derive erf x (2 / sqrt PI * exp (- (x * x)))%R)
  end ->
  S_of (RNum erf) ivs p <> 0%R ->
  (forall l u, In (l, u) ivs -> ex_RInt (sig_time_pd (RNum erf) ivs p) l u) /\
  Rsum (map (fun iv => RInt (sig_time_pd (RNum erf) ivs p) (fst iv) (snd iv)) ivs) = 1%R.
Proof. exact time_pd_norm. Qed.
Print Assumptions C10_time_norm.

Theorem C10_time_nonneg : forall (erf : R -> R) (ivs : list (R * R)) (p : profile) (t : R),
  wfR ivs ->
  match p with
  | Box ts te => (ts <= te)%R
  | Gauss ts te s =>
      (ts <= te)%R /\ s <> 0%R /\
      (forall x, is_derive erf x (2 / sqrt PI * exp (- (x * x)))%R)
  end ->
  S_of (RNum erf) ivs p <> 0%R ->
  (0 <= sig_time_pd (RNum erf) ivs p t)%R.
Proof. exact time_pd_nonneg. Qed.
Print Assumptions C10_time_nonneg.

(* zero during off-time, profile / S during on-time *)
Theorem C10_time_off : forall (erf : R -> R) (ivs : list (R * R)) (p : profile) (t : R),
  ~ (exists l u, In (l, u) ivs /\ (l <= t < u)%R) ->
  sig_time_pd (RNum erf) ivs p t = 0%R.
Proof. exact time_pd_off. Qed.
Print Assumptions C10_time_off.

Theorem C10_time_on : forall (erf : R -> R) (ivs : list (R * R)) (p : profile) (t : R),
  (exists l u, In (l, u) ivs /\ (l <= t < u)%R) ->
  sig_time_pd (RNum erf) ivs p t = (prof_call (RNum erf) p t / S_of (RNum erf) ivs p)%R.
Proof. exact time_pd_on. Qed.
Print Assumptions C10_time_on.

(* the background time PDF is the same function *)
Theorem C10_time_bkg : forall (erf : R -> R) (ivs : list (R * R)) (p : profile) (t : R),
  bkg_time_pd (RNum erf) ivs p t = sig_time_pd (RNum erf) ivs p t.
Proof. exact bkg_eq_sig. Qed.
Print Assumptions C10_time_bkg.

(* S is a sum of non-negative terms, so S <> 0 means S > 0 *)
Theorem C10_time_S_nonneg : forall (erf : R -> R) (ivs : list (R * R)) (p : profile),
  wfR ivs ->
  match p with
  | Box ts te => (ts <= te)%R
  | Gauss ts te s =>
      (ts <= te)%R /\ s <> 0%R /\
      (forall x, is_derive erf x (2 / sqrt PI * exp (- (x * x)))%R)
  end ->
  (0 <= S_of (RNum erf) ivs p)%R.
Proof. exact S_of_nonneg. Qed.
Print Assumptions C10_time_S_nonneg.

(* tie to the C14 model of Livetime: on integer (dyadic) inputs the closed
   forms used above are the code's digitize-based is_on and
   get_uptime_intervals_between *)
Theorem C10_time_is_on_is_C14 : forall (erf : R -> R) (ivs : list (Z * Z)) (t : Z),
  wf ivs ->
  lt_is_on (RNum erf) (map IZR2 ivs) (IZR t) = is_on ivs t.
Proof. exact is_on_bridge. Qed.
Print Assumptions C10_time_is_on_is_C14.

Theorem C10_time_between_is_C14 : forall (erf : R -> R) (ivs : list (Z * Z)) (t1 t2 : Z),
  wf ivs -> (t1 <= t2)%Z ->
  between ivs t1 t2 = Ok (clip ivs t1 t2) /\
  lt_between (RNum erf) (map IZR2 ivs) (IZR t1) (IZR t2) = map IZR2 (clip ivs t1 t2).
Proof. exact between_bridge. Qed.
Print Assumptions C10_time_between_is_C14.

Theorem C10_time_wf_is_C14 : forall (ivs : list (Z * Z)), wf ivs -> wfR (map IZR2 ivs).
Proof. exact wf_wfR. Qed.
Print Assumptions C10_time_wf_is_C14.

(* ------------------------------------------------------------------ energy histogram *)

(* every declination band with non-zero content integrates to one over
   log10(E); entries are non-negative *)
Theorem C10_ehist_norm : forall (erf : R -> R) (c w : list R),
  length c = length w ->
  List.Forall (fun x => (0 < x)%R) w ->
  Rsum c <> 0%R ->
  step_integral (RNum erf) (eh_band (RNum erf) c w) w = 1%R.
Proof. exact eh_band_norm. Qed.
Print Assumptions C10_ehist_norm.

Theorem C10_ehist_nonneg : forall (erf : R -> R) (c w : list R),
  List.Forall (fun x => (0 <= x)%R) c ->
  List.Forall (fun x => (0 < x)%R) w ->
  List.Forall (fun x => (0 <= x)%R) (eh_band (RNum erf) c w).
Proof. exact eh_band_nonneg. Qed.
Print Assumptions C10_ehist_nonneg.

(* ------------------------------------------------------------------ spatial histogram *)

Theorem C10_shist_norm : forall (erf : R -> R) (h edges h' : list R),
  sh_hist (RNum erf) h edges = Ok h' ->
  length edges = S (length h) ->
  List.Forall (fun lu => (fst lu < snd lu)%R) (combine (removelast edges) (tl edges)) ->
  Rsum h <> 0%R ->
  List.Forall (fun x => (0 < x)%R) h' /\
  step_integral (RNum erf) h' (bin_widths (RNum erf) edges) = 1%R.
Proof. exact sh_hist_norm. Qed.
Print Assumptions C10_shist_norm.

(* 0.5/pi * exp(log density): integrating over right-ascension [0, 2 pi)
   gives back the sin(dec) density *)
Theorem C10_shist_sphere : forall (erf : R -> R) (x : R),
  (0 < x)%R -> (2 * PI * sh_pd (RNum erf) (ln x))%R = x.
Proof. exact sh_pd_sphere. Qed.
Print Assumptions C10_shist_sphere.

Theorem C10_shist_pos : forall (erf : R -> R) (y : R), (0 < sh_pd (RNum erf) y)%R.
Proof. exact sh_pd_pos. Qed.
Print Assumptions C10_shist_pos.

(* ------------------------------------------------------------------ gaussian PSF *)

Theorem C10_psf_disc : forall (erf : R -> R) (s R0 : R),
  s <> 0%R ->
  is_RInt (fun r => (2 * PI * r * psf_gauss (RNum erf) (s * s) r)%R) 0 R0
          (1 - exp (- (R0 * R0) / (2 * (s * s))))%R.
Proof. exact psf_disc. Qed.
Print Assumptions C10_psf_disc.

Theorem C10_psf_plane : forall (s : R),
  s <> 0%R ->
  is_lim (fun R0 => (1 - exp (- (R0 * R0) / (2 * (s * s))))%R) p_infty 1%R.
Proof. exact psf_plane_limit. Qed.
Print Assumptions C10_psf_plane.

Theorem C10_psf_pos : forall (erf : R -> R) (s r : R),
  s <> 0%R -> (0 < psf_gauss (RNum erf) (s * s) r)%R.
Proof. exact psf_nonneg. Qed.
Print Assumptions C10_psf_pos.

(* Rayleigh PSF over a spherical cap (solid angle 2 pi sin(psi) dpsi) *)
Theorem C10_psf_rayleigh_cap : forall (erf : R -> R) (s Psi : R),
  s <> 0%R -> (0 <= Psi <= PI)%R ->
  is_RInt (fun r => (2 * PI * sin r * psf_rayleigh (RNum erf) (s * s) r)%R) 0 Psi
          (1 - exp (- (Psi * Psi) / (2 * (s * s))))%R.
Proof. exact psf_rayleigh_cap. Qed.
Print Assumptions C10_psf_rayleigh_cap.

(* ------------------------------------------------------------------ accepted data can be evaluated *)

(* a value accepted by BinningDefinition.any_data_out_of_range gets the index
   of its np.histogram bin (half-open bins, last bin closed) *)
Theorem C10_bin_index : forall (edges : list Z) (x : Z),
  nondec edges -> (2 <= zlen edges)%Z ->
  bin_any_oor edges x = Ok false ->
  exists i, bin_index_e edges x = Ok i /\ in_bin edges i x.
Proof. exact bin_index_ok. Qed.
Print Assumptions C10_bin_index.

(* I3EnergyPDF: whatever assert_is_valid_for_trial_data accepts, get_pd
   evaluates, and it returns the entry of the event's own bin *)
Theorem C10_valid_evaluable : forall (A : Type) (hist : list (list A)) (edgesE edgesS : list Z) (x y : Z),
  nondec edgesE -> nondec edgesS -> (2 <= zlen edgesE)%Z -> (2 <= zlen edgesS)%Z ->
  zlen hist = (zlen edgesE - 1)%Z ->
  List.Forall (fun row => zlen row = (zlen edgesS - 1)%Z) hist ->
  eh_assert_valid edgesE edgesS x y = Ok tt ->
  exists i j row v,
    in_bin edgesE i x /\ in_bin edgesS j y /\
    nth_error hist (Z.to_nat i) = Some row /\ nth_error row (Z.to_nat j) = Some v /\
    eh_get_pd hist edgesE edgesS x y = Ok v.
Proof. exact @eh_valid_evaluable. Qed.
Print Assumptions C10_valid_evaluable.

(* ------------------------------------------------------------------ non-vacuity *)

(* the hypotheses of the time theorems are satisfiable: a concrete live time
   with a gap, a box partly outside on-time, S = 3/2 *)
Example C10_time_nonvacuous : forall erf : R -> R,
  wfR [(0, 1); (2, 4)]%R /\
  S_of (RNum erf) [(0, 1); (2, 4)]%R (Box (1 / 2) 3)%R = (3 / 2)%R /\
  sig_time_pd (RNum erf) [(0, 1); (2, 4)]%R (Box (1 / 2) 3)%R (3 / 4)%R = (2 / 3)%R /\
  sig_time_pd (RNum erf) [(0, 1); (2, 4)]%R (Box (1 / 2) 3)%R (3 / 2)%R = 0%R /\
  sig_time_pd (RNum erf) [(0, 1); (2, 4)]%R (Box (1 / 2) 3)%R (7 / 2)%R = 0%R.
Proof. exact time_example. Qed.

(* a function with the premised derivative exists *)
Example C10_erf_exists :
  exists erf : R -> R, forall x, is_derive erf x (2 / sqrt PI * exp (- (x * x)))%R.
Proof. exact erf_contract_sat. Qed.

(* events exactly on the outermost edges: accepted, and evaluated in the first /
   last bin; the lookup as it was before the repair raised IndexError there *)
Example C10_upper_edge :
  let eE := [8; 16; 24; 40]%Z in let eS := [-8; 0; 4; 8]%Z in
  let hist := [[11; 12; 13]; [21; 22; 23]; [31; 32; 33]]%Z in
  nondec eE /\ nondec eS /\
  eh_assert_valid eE eS 40 8 = Ok tt /\ eh_get_pd hist eE eS 40 8 = Ok 33%Z /\
  eh_assert_valid eE eS 8 (-8) = Ok tt /\ eh_get_pd hist eE eS 8 (-8) = Ok 11%Z /\
  eh_assert_valid eE eS 24 0 = Ok tt /\ eh_get_pd hist eE eS 24 0 = Ok 32%Z /\
  eh_assert_valid eE eS 41 0 = Err ValueError /\
  eh_get_pd_old hist eE eS 40 0 = Err IndexError /\
  eh_get_pd_old hist eE eS 16 8 = Err IndexError.
Proof. cbv zeta. repeat split; try (vm_compute; reflexivity); cbn; lia. Qed.
