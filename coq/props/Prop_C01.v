(* C01 — the log-likelihood-ratio value equals the documented two-component
   formula.  Statements only; every proof is `exact <lemma>`.
   Real-number reading of the model (instance RNum erfR of base/NumR.v; erfR is
   an arbitrary function, no theorem here depends on it).  The specification
   (Taylor, Lam, Xof, logLambda_manual, sob_spec, row_ratio, stacked_spec,
   multi_manual) is transcribed from doc/user_manual.tex in spec/S_Llh.v and
   spec/S_LlhPipe.v. *)
From Coq Require Import Reals ZArith List Bool Lra Lia Permutation.
From Coquelicot Require Import Coquelicot.
From Sky Require Import Result Num NumR G_llh G_llhtdm M_Llh M_LlhPipe M_LlhTdm S_Llh S_LlhPipe
  P_LlhK P_LlhValue P_LlhC1 P_LlhCompose P_LlhTdm.
From Sky Require Import M_LlhX P_LlhX.
Import ListNotations.
Open Scope R_scope.

(* 1. value = sum over the selected events of Lam(ns X_i) + (N-N') log(1-ns/N),
      for every event list, threshold, N and ns (N' = length Rs) *)
Theorem C01_value_full : forall (erfR : R -> R) opa N ns (Rs : list R),
  evaluate_value (RNum erfR) opa N ns Rs
  = Rsum (map (fun r => Lam (opa - 1) (ns * Xof N r)) Rs)
    + (N - INR (length Rs)) * ln (1 - ns / N).
Proof. exact value_is_manual. Qed.
Print Assumptions C01_value_full.

(* ... and on the domain of the property (threshold > 0, N > 0, ns < N) every
   logarithm in it is taken at a positive argument, i.e. Coq's totalised `ln`
   is the real logarithm there *)
Theorem C01_value_log_arguments_positive : forall opa N ns (Rs : list R),
  0 < opa -> 0 < N -> ns < N ->
  0 < 1 + (opa - 1)
  /\ 0 < 1 - ns / N
  /\ (forall r, In r Rs -> opa - 1 < ns * Xof N r -> 0 < 1 + ns * Xof N r).
Proof. exact value_log_args_positive. Qed.
Print Assumptions C01_value_log_arguments_positive.

(* 2. Taylor continuation: it is the second-order expansion of log(1+.) at the
      threshold (same value, slope and curvature) ... *)
Theorem C01_taylor_second_order : forall alpha,
  0 < 1 + alpha ->
  Taylor alpha alpha = ln (1 + alpha)
  /\ is_derive (fun a => ln (1 + a)) alpha (/ (1 + alpha))
  /\ is_derive (Taylor alpha) alpha (/ (1 + alpha))
  /\ is_derive (fun a => / (1 + a)) alpha (- / ((1 + alpha) * (1 + alpha)))
  /\ is_derive (fun a => / (1 + alpha) - (a - alpha) / (1 + alpha) / (1 + alpha)) alpha
               (- / ((1 + alpha) * (1 + alpha)))
  /\ (forall a, is_derive (Taylor alpha) a
                  (/ (1 + alpha) - (a - alpha) / (1 + alpha) / (1 + alpha))).
Proof. exact Taylor_is_second_order. Qed.
Print Assumptions C01_taylor_second_order.

(* ... and the glued per-event function is differentiable everywhere (also AT
   the threshold) with a slope that is continuous across the threshold *)
Theorem C01_taylor_C1 : forall alpha,
  0 < 1 + alpha ->
  (forall a, is_derive (Lam alpha) a
               (if Rlt_dec alpha a then / (1 + a)
                else / (1 + alpha) - (a - alpha) / (1 + alpha) / (1 + alpha)))
  /\ (forall a, continuous (Lam alpha) a)
  /\ continuous (fun a => if Rlt_dec alpha a then / (1 + a)
                          else / (1 + alpha) - (a - alpha) / (1 + alpha) / (1 + alpha)) alpha.
Proof.
  intros alpha H. split; [|split].
  - intros a. exact (Lam_derive alpha a H).
  - intros a. exact (Lam_continuous alpha a H).
  - exact (dLam_continuous_at_threshold alpha H).
Qed.
Print Assumptions C01_taylor_C1.

(* the per-event term of the CODE is that function *)
Theorem C01_event_term : forall (erfR : R -> R) opa ns x,
  ev_loglam (RNum erfR) opa ns x = Lam (opa - 1) (ns * x).
Proof. exact ev_loglam_Lam. Qed.
Print Assumptions C01_event_term.

(* 3. exactly 0 at ns = 0 (threshold below 1).  N <> 0 is a DOMAIN guard: the equation also
   holds at N = 0 in Coq's totalised division, where the code returns NaN — excluded here *)
Theorem C01_zero_at_ns0 : forall (erfR : R -> R) opa N (Rs : list R),
  0 < opa < 1 -> N <> 0 -> evaluate_value (RNum erfR) opa N 0 Rs = 0.
Proof. intros erfR opa N Rs H _. exact (value_zero_at_ns0 erfR opa N Rs H). Qed.
Print Assumptions C01_zero_at_ns0.

(* 4. independent of the event order *)
Theorem C01_order : forall (erfR : R -> R) opa N ns (Rs Rs' : list R),
  Permutation Rs Rs' ->
  evaluate_value (RNum erfR) opa N ns Rs = evaluate_value (RNum erfR) opa N ns Rs'.
Proof. exact value_perm. Qed.
Print Assumptions C01_order.

(* 5. events whose ratio is zero may be removed by a selection while N is
      kept, for ns/N up to (and including) one minus the threshold *)
Theorem C01_zero_ratio_removed : forall (erfR : R -> R) opa N ns (Rs : list R),
  0 < opa -> N <> 0 -> ns / N <= 1 - opa ->
  evaluate_value (RNum erfR) opa N ns Rs
  = evaluate_value (RNum erfR) opa N ns (filter (fun r => negb (Reqb r 0)) Rs).
Proof. exact value_zero_ratio_removed_le. Qed.
Print Assumptions C01_zero_ratio_removed.

(* ... for ANY selection that drops only zero-ratio events (each event carries
   the selection's keep/drop decision; kept zero-ratio events are allowed) *)
Theorem C01_zero_ratio_selection : forall (erfR : R -> R) opa N ns (l : list (R * bool)),
  0 < opa -> N <> 0 -> ns / N <= 1 - opa ->
  (forall p, In p l -> snd p = false -> fst p = 0) ->
  evaluate_value (RNum erfR) opa N ns (map fst l)
  = evaluate_value (RNum erfR) opa N ns (map fst (filter snd l)).
Proof. exact value_zero_ratio_selection. Qed.
Print Assumptions C01_zero_ratio_selection.

(* ... and the guard is sharp: for 1 - threshold < ns/N < 1 the removal of a
   zero-ratio event changes (lowers) the value of the code — the optimisation
   of eq. logLambdaOfXOptimized is exact only inside the guard *)
Theorem C01_zero_ratio_removal_beyond_guard_refuted :
  forall (erfR : R -> R) opa N ns (Rs : list R),
  0 < opa -> 0 < N -> 1 - opa < ns / N -> ns < N ->
  evaluate_value (RNum erfR) opa N ns Rs < evaluate_value (RNum erfR) opa N ns (0 :: Rs).
Proof. exact value_zero_ratio_removal_guard_sharp. Qed.
Print Assumptions C01_zero_ratio_removal_beyond_guard_refuted.

(* 6. compositions.  Signal over background, element of the values array: *)
Theorem C01_sob_ratio : forall (erfR : R -> R) z s b,
  sob_ratio (RNum erfR) z s b = if Rlt_dec 0 b then s / b else z.
Proof. exact sob_ratio_spec. Qed.
Print Assumptions C01_sob_ratio.

(* single ratio / product of ratios, no source weighting (every row of the values
   array counts as one event, N' = number of rows — with one source that is the
   number of selected events; with several sources and no weighting it is what
   the code does, not the documented formula): the chain
   PDF values -> ratios -> products -> X_i -> value is the manual's formula on
   the per-row products of s/b *)
Theorem C01_chain_plain : forall (erfR : R -> R) opa N ns a_k n_sel src_idxs evt_idxs
    (f0 : rfactor) (fs : list rfactor),
  (length (snd (fst f0)) = length evt_idxs /\ length (snd f0) = n_sel) ->
  List.Forall (fun f : rfactor => length (snd (fst f)) = length evt_idxs /\ length (snd f) = n_sel) fs ->
  List.Forall (fun e => (e < n_sel)%nat) evt_idxs ->      (* indices in range: no IndexError / default read *)
  pipe_value (RNum erfR) opa N ns false a_k n_sel src_idxs evt_idxs f0 fs
  = logLambda_manual (opa - 1) N ns
      (map (fun i => row_ratio i (nth i evt_idxs 0%nat) f0 fs) (seq 0 (length evt_idxs))).
Proof. exact pipe_value_plain_guarded. Qed.
Print Assumptions C01_chain_plain.

(* source weighting, GIVEN that the (source,event) table lists every pair at
   most once (the event-selection invariant of C05) *)
Theorem C01_stacked_ratio : forall (erfR : R -> R) a_k n_sel (vals : list (nat * nat * R)),
  NoDup (map (fun v : nat * nat * R => fst v) vals) ->
  sw_ratio (RNum erfR) a_k n_sel vals
  = map (fun e => Rsum (map (fun k => pair_lookup vals k e * nth k a_k 0) (seq 0 (length a_k)))
                  / Rsum a_k)
        (seq 0 n_sel).
Proof. exact sw_ratio_spec. Qed.
Print Assumptions C01_stacked_ratio.

Theorem C01_chain_stacked : forall (erfR : R -> R) opa N ns a_k n_sel src_idxs evt_idxs
    (f0 : rfactor) (fs : list rfactor),
  (length (snd (fst f0)) = length evt_idxs /\ length (snd f0) = n_sel) ->
  List.Forall (fun f : rfactor => length (snd (fst f)) = length evt_idxs /\ length (snd f) = n_sel) fs ->
  length src_idxs = length evt_idxs -> NoDup (combine src_idxs evt_idxs) ->
  List.Forall (fun e => (e < n_sel)%nat) evt_idxs ->         (* event indices in range *)
  List.Forall (fun k => (k < length a_k)%nat) src_idxs ->    (* one weight per listed source *)
  Rsum a_k <> 0 ->                                           (* the code divides by the weight sum *)
  pipe_value (RNum erfR) opa N ns true a_k n_sel src_idxs evt_idxs f0 fs
  = logLambda_manual (opa - 1) N ns
      (map (stacked_spec a_k
              (combine (combine src_idxs evt_idxs)
                 (map (fun i => row_ratio i (nth i evt_idxs 0%nat) f0 fs)
                      (seq 0 (length evt_idxs)))))
           (seq 0 n_sel)).
Proof. exact pipe_value_stacked_guarded. Qed.
Print Assumptions C01_chain_stacked.

(* without that invariant the stacked ratio is NOT the weighted mean: a pair
   listed twice keeps only its last ratio (3 instead of (2+3)/1 = 5) *)
Theorem C01_stacked_duplicate_pair_refuted : forall (erfR : R -> R),
  exists a_k (vals : list (nat * nat * R)),
    ~ NoDup (map (fun v : nat * nat * R => fst v) vals)
    /\ sw_ratio (RNum erfR) a_k 1 vals = [3]
    /\ Rsum (map (fun v => snd v * nth (fst (fst v)) a_k 0) vals) / Rsum a_k = 5.
Proof. exact sw_ratio_duplicate_pair_refuted. Qed.
Print Assumptions C01_stacked_duplicate_pair_refuted.

(* 7. several datasets: the sum of the single-dataset formulas at ns * f_j *)
Theorem C01_multi_dataset : forall (erfR : R -> R) opa ns (f : list R) (ds : list (R * list R)),
  length f = length ds ->                  (* one weight factor per dataset (else the code raises) *)
  List.Forall (fun p : R * (R * list R) => 0 < fst (snd p) /\ ns * fst p < fst (snd p)) (combine f ds) ->
                                           (* every dataset inside its domain: N_j > 0, ns f_j < N_j *)
  multi_value (RNum erfR) opa ns f ds
  = Rsum (map (fun p => logLambda_manual (opa - 1) (fst (snd p)) (ns * fst p) (snd (snd p)))
              (combine f ds)).
Proof. exact multi_value_spec_guarded. Qed.
Print Assumptions C01_multi_dataset.

(* ======================================================================== *)
(* deepening                                                                 *)

(* 8. the domain.  For threshold > 0 and N > 0 the logarithms of the value are
   taken at positive arguments if and only if ns < N; for ns >= N the argument
   of the pure-background logarithm is <= 0 (floats: -inf / NaN, also when
   N = N' because 0 * (-inf) = NaN; observed by the correspondence's malformed
   stream); every negative ns is inside the domain whatever the ratios are. *)
Theorem C01_domain : forall opa N ns,
  0 < opa -> 0 < N ->
  (0 < 1 - ns / N <-> ns < N)
  /\ (N <= ns -> 1 - ns / N <= 0)
  /\ (ns < 0 -> 0 < 1 - ns / N)
  /\ (forall x, opa - 1 < ns * x -> 0 < 1 + ns * x).
Proof. exact value_domain. Qed.
Print Assumptions C01_domain.

(* 9. N, N', N - N' come from the TrialDataManager.  After ANY history of trials
   and n_events assignments, a trial (raw events, optional n_events argument,
   optional selection) followed by any number of n_events assignments leaves:
   N = the last assignment, else the argument, else the number of RAW events;
   the selected events of THIS trial; N' their number; N - N' the difference;
   and calculate_ns_grad2 reconstructs the same N. *)
Theorem C01_counts_current : forall (E : Type) (st0 : tcounts E) (ops : list (tcop E))
    (raw : list E) (arg : option Z) (sel : option (list E -> list E)) (sets : list Z),
  let st := tc_run (ops ++ TInit raw arg sel :: map TSetN sets) st0 in
  let N0 := match arg with Some n => n | None => Z.of_nat (length raw) end in
  let evs := match sel with Some f => f raw | None => raw end in
  tc_n_events st = Some (last sets N0)
  /\ tc_events st = evs
  /\ tc_n_selected st = Z.of_nat (length evs)
  /\ tc_n_pure_bkg st = Some (last sets N0 - Z.of_nat (length evs))%Z
  /\ tc_N_grad2 st = tc_n_events st.
Proof. exact tc_counts_current. Qed.
Print Assumptions C01_counts_current.

(* without the n_events argument N counts the raw events (before the selection):
   N - N' is the number of events the selection removed *)
Theorem C01_default_counts_removed : forall (E : Type) (st0 : tcounts E) (ops : list (tcop E))
    (raw : list E) (f : list E -> list E),
  (length (f raw) <= length raw)%nat ->
  let st := tc_run (ops ++ [TInit raw None (Some f)]) st0 in
  tc_n_events st = Some (Z.of_nat (length raw))
  /\ tc_n_pure_bkg st = Some (Z.of_nat (length raw - length (f raw))).
Proof. exact tc_default_counts_removed. Qed.
Print Assumptions C01_default_counts_removed.

(* the public `events` setter (a second writer of N'): N' and N - N' follow, N does not move *)
Theorem C01_events_setter : forall (E : Type) (st : tcounts E) (evs : list E),
  let st' := tc_step st (TSetEvents evs) in
  tc_n_events st' = tc_n_events st
  /\ tc_events st' = evs
  /\ tc_n_selected st' = Z.of_nat (length evs)
  /\ tc_n_pure_bkg st' = match tc_n_events st with
                         | Some n => Some (n - Z.of_nat (length evs))%Z
                         | None => None
                         end.
Proof. exact tc_events_setter. Qed.
Print Assumptions C01_events_setter.

(* evaluate on the manager uses exactly these current counts *)
Theorem C01_value_on_manager : forall (E : Type) (erfR : R -> R) (st0 : tcounts E)
    (ops : list (tcop E)) (raw : list E) (arg : option Z) (sel : option (list E -> list E))
    (sets : list Z) opa ns (ratio_of : list E -> list R),
  (forall evs, length (ratio_of evs) = length evs) ->
  let N := last sets (match arg with Some n => n | None => Z.of_nat (length raw) end) in
  let evs := match sel with Some f => f raw | None => raw end in
  tc_evaluate (RNum erfR) opa ns ratio_of (tc_run (ops ++ TInit raw arg sel :: map TSetN sets) st0)
  = Some (Rsum (map (fun r => Lam (opa - 1) (ns * Xof (IZR N) r)) (ratio_of evs))
          + IZR (N - Z.of_nat (length evs)) * ln (1 - ns / IZR N)).
Proof. exact tc_evaluate_current. Qed.
Print Assumptions C01_value_on_manager.

(* 10. no selected events: only the pure-background term; an event of ratio 1
   contributes nothing *)
Theorem C01_no_selected_events : forall (erfR : R -> R) opa N ns,
  evaluate_value (RNum erfR) opa N ns [] = N * ln (1 - ns / N).
Proof. exact value_no_selected_events. Qed.
Print Assumptions C01_no_selected_events.

Theorem C01_unit_ratio_event : forall (erfR : R -> R) opa N ns (Rs : list R),
  0 < opa < 1 -> N <> 0 ->
  evaluate_value (RNum erfR) opa N ns (1 :: Rs)
  = evaluate_value (RNum erfR) opa N ns Rs - ln (1 - ns / N).
Proof. exact value_unit_ratio_event. Qed.
Print Assumptions C01_unit_ratio_event.

(* 11. zero background inside compositions: the per-row ratio is the product
   over the factors, each factor being its own constant where its background
   is not positive *)
Theorem C01_zero_background_in_products : forall i e (f0 f1 : rfactor) (fs : list rfactor),
  row_ratio i e f0 fs
  = (if Rlt_dec 0 (nth e (snd f0) 0) then nth i (snd (fst f0)) 0 / nth e (snd f0) 0 else fst (fst f0))
    * fold_left Rmult
        (map (fun f : rfactor => if Rlt_dec 0 (nth e (snd f) 0)
                                 then nth i (snd (fst f)) 0 / nth e (snd f) 0 else fst (fst f)) fs) 1
  /\ (nth e (snd f0) 0 <= 0 -> 0 < nth e (snd f1) 0 ->
      row_ratio i e f0 [f1] = fst (fst f0) * (nth i (snd (fst f1)) 0 / nth e (snd f1) 0)
      /\ row_ratio i e f1 [f0] = nth i (snd (fst f1)) 0 / nth e (snd f1) 0 * fst (fst f0))
  /\ (List.Forall (fun f : rfactor => nth e (snd f) 0 <= 0 /\ fst (fst f) = 1) (f0 :: fs) ->
      row_ratio i e f0 fs = 1).
Proof.
  intros i e f0 f1 fs. split; [|split].
  - exact (row_ratio_product i e f0 fs).
  - exact (row_ratio_zero_bkg_factor i e f0 f1).
  - exact (row_ratio_all_zero_bkg i e f0 fs).
Qed.
Print Assumptions C01_zero_background_in_products.

(* 12. several datasets: one without selected events still contributes its
   pure-background term, and leaving it out raises the value *)
Theorem C01_multi_empty_dataset : forall (erfR : R -> R) opa ns fj Nj (f : list R)
    (ds : list (R * list R)),
  multi_value (RNum erfR) opa ns (fj :: f) ((Nj, []) :: ds)
  = Nj * ln (1 - ns * fj / Nj) + multi_value (RNum erfR) opa ns f ds.
Proof. exact multi_value_empty_dataset. Qed.
Print Assumptions C01_multi_empty_dataset.

Theorem C01_multi_skip_empty_dataset_refuted : forall (erfR : R -> R) opa ns fj Nj (f : list R)
    (ds : list (R * list R)),
  0 < Nj -> 0 < ns * fj -> ns * fj < Nj ->
  multi_value (RNum erfR) opa ns (fj :: f) ((Nj, []) :: ds) < multi_value (RNum erfR) opa ns f ds.
Proof. exact multi_value_skip_empty_dataset_refuted. Qed.
Print Assumptions C01_multi_skip_empty_dataset_refuted.

(* 14. the -inf / NaN region, about the SAME model definitions read in a number
   system with the IEEE special values (model/M_LlhX.v: finite real | +inf | -inf |
   NaN, no rounding, no signed zeros).  On finite inputs with threshold > 0, N <> 0: *)
Theorem C01_ieee_value : forall opa N ns (Rs : list R),
  0 < opa -> N <> 0 ->
  evaluate_value XNum (XF opa) (XF N) (XF ns) (map XF Rs)
  = xadd (XF (Rsum (map (fun r => Lam (opa - 1) (ns * Xof N r)) Rs)))
         (xmul (XF (N - INR (length Rs))) (xlog1p (XF (- ns / N)))).
Proof. exact value_X. Qed.
Print Assumptions C01_ieee_value.

(* finite, and equal to the real-number formula, for every ns < N (so for every
   negative ns, however large the ratios) *)
Theorem C01_ieee_finite : forall opa N ns (Rs : list R),
  0 < opa -> 0 < N -> ns < N ->
  evaluate_value XNum (XF opa) (XF N) (XF ns) (map XF Rs)
  = XF (Rsum (map (fun r => Lam (opa - 1) (ns * Xof N r)) Rs)
        + (N - INR (length Rs)) * ln (1 - ns / N)).
Proof. exact value_X_finite. Qed.
Print Assumptions C01_ieee_finite.

(* ns = N: -inf when there are unselected events, NaN (0 * -inf) when N = N' *)
Theorem C01_ieee_at_N : forall opa N (Rs : list R),
  0 < opa -> 0 < N ->
  (INR (length Rs) < N -> evaluate_value XNum (XF opa) (XF N) (XF N) (map XF Rs) = XNInf)
  /\ (INR (length Rs) = N -> evaluate_value XNum (XF opa) (XF N) (XF N) (map XF Rs) = XNaN).
Proof. exact value_X_at_N. Qed.
Print Assumptions C01_ieee_at_N.

(* ns > N: NaN for every event list *)
Theorem C01_ieee_beyond_N : forall opa N ns (Rs : list R),
  0 < opa -> 0 < N -> N < ns ->
  evaluate_value XNum (XF opa) (XF N) (XF ns) (map XF Rs) = XNaN.
Proof. exact value_X_beyond_N. Qed.
Print Assumptions C01_ieee_beyond_N.

(* 13. end to end from the event selection to the value, WITHOUT the duplicate-free
   hypothesis: props/Prop_C01_sel.v (C01_selection_to_value; uses C05's development). *)

(* non-vacuity of the deepening: a manager that held 7 events with N = 50 gets a
   new trial of 5 raw events of which a selection keeps 3, no n_events argument:
   N = 5, N' = 3, N - N' = 2; then n_events := 9 gives N - N' = 6 *)
Example C01_nonvacuous_counts :
  let st0 := {| tc_n_events := Some 50%Z; tc_events := [1; 2; 3; 4; 5; 6; 7]%nat |} in
  let keep := filter (fun n => Nat.ltb n 4) in
  let st := tc_run ([TSetN 60%Z] ++ [TInit [1; 2; 3; 4; 5]%nat None (Some keep)]) st0 in
  tc_n_events st = Some 5%Z /\ tc_n_selected st = 3%Z /\ tc_n_pure_bkg st = Some 2%Z
  /\ tc_n_pure_bkg (tc_run [TSetN 9%Z] st) = Some 6%Z
  /\ (length (keep [1; 2; 3; 4; 5]%nat) <= length [1; 2; 3; 4; 5]%nat)%nat.
Proof. cbv zeta. repeat split; try reflexivity. cbn. lia. Qed.

(* non-vacuity: the code's threshold 1e-3, N = 10, three selected events one of
   which (R = 0) sits in the Taylor regime at ns = 9.995; all hypotheses of the
   theorems above hold and the regimes are the claimed ones *)
Example C01_nonvacuous :
  let opa := 1 / 1000 in let N := 10 in let ns := 9995 / 1000 in
  0 < opa < 1 /\ 0 < N /\ ns < N /\ N <> 0 /\ 0 < 1 + (opa - 1)
  /\ ~ ns / N <= 1 - opa                       (* beyond the removal guard *)
  /\ 5 / N <= 1 - opa                          (* ns = 5 is inside it *)
  /\ ~ (opa - 1 < ns * Xof N 0)                (* R = 0 : Taylor regime *)
  /\ opa - 1 < ns * Xof N 2                    (* R = 2 : logarithm *)
  /\ NoDup (combine [0; 0; 1]%nat [0; 1; 1]%nat)
  /\ Permutation [0; 2; 5] [5; 0; 2].
Proof.
  cbv zeta. unfold Xof.
  repeat split; try lra.
  - repeat constructor; cbn; intuition discriminate.
  - apply perm_trans with [0; 5; 2]; [apply perm_skip, perm_swap|apply perm_swap].
Qed.

(* non-vacuity on the MODEL: at the code's threshold 1e-3, N = 10, ns = 9.995 the code's mask puts
   the R = 0 event into the Taylor branch and the R = 2 event into the logarithm branch, and the
   guarded chain / multi-dataset hypotheses are satisfiable *)
Example C01_nonvacuous_model : forall (erfR : R -> R),
  ev_stable (RNum erfR) (1 / 1000) (9995 / 1000) (Xof 10 0) = false
  /\ ev_stable (RNum erfR) (1 / 1000) (9995 / 1000) (Xof 10 2) = true
  /\ List.Forall (fun e => (e < 2)%nat) [0; 1; 1]%nat
  /\ List.Forall (fun k => (k < length [1; 3])%nat) [0; 0; 1]%nat
  /\ Rsum [1; 3] <> 0
  /\ length [1 / 4; 3 / 4] = length [(10, [2; 0]); (20, @nil R)]
  /\ List.Forall (fun p : R * (R * list R) => 0 < fst (snd p) /\ 5 * fst p < fst (snd p))
                  (combine [1 / 4; 3 / 4] [(10, [2; 0]); (20, @nil R)]).
Proof.
  intros erfR. unfold ev_stable, ev_alpha_i, Xof.
  destruct (KV_m_stable erfR (k_alpha_i (RNum erfR) (9995 / 1000) ((0 - 1) / 10)) (k_alpha (RNum erfR) (1 / 1000))) as [_ H0].
  destruct (KV_m_stable erfR (k_alpha_i (RNum erfR) (9995 / 1000) ((2 - 1) / 10)) (k_alpha (RNum erfR) (1 / 1000))) as [H2 _].
  rewrite !KV_alpha_i, !KV_alpha in *.
  split; [apply H0; lra|]. split; [apply H2; lra|].
  split; [repeat constructor|]. split; [repeat constructor|].
  split; [unfold Rsum; cbn; lra|]. split; [reflexivity|].
  cbn [combine]. repeat constructor; cbn [fst snd]; lra.
Qed.
