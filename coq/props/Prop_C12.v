(* C12 — Test statistic and p-value helpers follow their documented definitions.
   Statements only; every proof is `exact <lemma>`.  Real-number reading
   (instance RNum e of the Num-polymorphic model; e stands for erf, unused here). *)
From Coq Require Import Reals ZArith List Bool Lia Lra.
From Sky Require Import Result PyList Num NumR G_stat M_Stat S_Stat P_Stat P_StatR P_StatTop P_StatGamma P_StatCallee.
Import ListNotations.
Open Scope R_scope.

(* ------------------------------------------------------------------ TS = 2 sgn(ns) log Lambda, sgn 0 = +1 *)
(* WilksTestStatistic.__call__, for every pmm / fit result (lookup errors included) *)
Theorem C12_ts : forall e floating nm ll fpv,
  wilks (RNum e) floating nm ll fpv =
    (do i <- get_gflp_idx floating nm;
     do ns <- py_get fpv i;
     Ok (2 * (if Rlt_dec ns 0 then -1 else 1) * ll)).
Proof. exact top_ts_wilks. Qed.
Print Assumptions C12_ts.

Theorem C12_ts_cases : forall e floating nm ll fpv i ns,
  get_gflp_idx floating nm = Ok i -> py_get fpv i = Ok ns ->
  (ns < 0 -> wilks (RNum e) floating nm ll fpv = Ok (- (2 * ll)))
  /\ (ns = 0 -> wilks (RNum e) floating nm ll fpv = Ok (2 * ll))
  /\ (0 < ns -> wilks (RNum e) floating nm ll fpv = Ok (2 * ll)).
Proof. exact top_ts_wilks_cases. Qed.
Print Assumptions C12_ts_cases.

(* LLHRatioZeroNsTaylorWilksTestStatistic.__call__, for every input: the same
   value for ns <> 0, the apex kernel on (grads[ns], calculate_ns_grad2(...)) for ns = 0 *)
Theorem C12_ts_taylor : forall e floating nm ll fpv llh grads,
  taylor (RNum e) floating nm ll fpv llh grads =
    (do i <- get_gflp_idx floating nm;
     do ns <- py_get fpv i;
     if Req_EM_T ns 0 then
       do a <- py_get grads i;
       do _ <- create_src_params_recarray floating fpv;
       do b <- call_kw (c_sig llh) [K_ns; K_ns_pidx; K_src_params_recarray; K_tl] (c_body llh ns i);
       Ok (ts_taylor_apex (RNum e) a b)
     else Ok (2 * (if Rlt_dec ns 0 then -1 else 1) * ll)).
Proof. exact top_ts_taylor. Qed.
Print Assumptions C12_ts_taylor.

(* ------------------------------------------------------------------ ns = 0: -2 a^2 / (4 b) *)
Theorem C12_ts0 : forall e floating nm ll fpv (llh : callee R) grads i a b,
  get_gflp_idx floating nm = Ok i -> py_get fpv i = Ok 0 -> py_get grads i = Ok a ->
  zlen fpv = zlen floating ->
  In (c_sig llh) [sig_TCLLHRatio; sig_ZeroSigH0SingleDatasetTCLLHRatio; sig_MultiDatasetTCLLHRatio;
                  sig_NsProfileMultiDatasetTCLLHRatio] ->
  c_body llh 0 i = Ok b -> b <> 0 ->
  taylor (RNum e) floating nm ll fpv llh grads = Ok (- 2 * (a * a / (4 * b))).
Proof. exact top_ts0. Qed.
Print Assumptions C12_ts0.

(* for a concave expansion (b < 0) the value is non-negative, it is twice the
   apex value of the parabola a x + b x^2 (the manual's expression read with b
   as the quadratic coefficient) and equals the apex value of the second-order
   Taylor polynomial a x + (b/2) x^2 (b read as the second derivative) *)
Theorem C12_ts0_apex : forall a b,
  b < 0 ->
  0 <= - 2 * (a * a / (4 * b))
  /\ - 2 * (a * a / (4 * b)) = 2 * (a * (- a / (2 * b)) + b * ((- a / (2 * b)) * (- a / (2 * b))))
  /\ (forall x, a * x + b * (x * x) <= a * (- a / (2 * b)) + b * ((- a / (2 * b)) * (- a / (2 * b))))
  /\ - 2 * (a * a / (4 * b)) = a * (- a / b) + b / 2 * ((- a / b) * (- a / b))
  /\ (forall x, a * x + b / 2 * (x * x) <= a * (- a / b) + b / 2 * ((- a / b) * (- a / b))).
Proof. exact top_ts0_apex. Qed.
Print Assumptions C12_ts0_apex.

(* ------------------------------------------------------------------ "both can be computed for every fit result" *)
(* the public path (unblind / do_trial_with_given_pseudo_data call
   calculate_test_statistic with log_lambda and fitparam_values only) *)
Theorem C12_computable_wilks : forall e floating nm ll fpv,
  In nm floating -> zlen fpv = zlen floating ->
  exists ns, analysis_public_ts (RNum e) VWilks floating nm ll fpv
             = Ok (2 * (if Rlt_dec ns 0 then -1 else 1) * ll).
Proof. exact top_public_wilks. Qed.
Print Assumptions C12_computable_wilks.

(* REFUTED for the zero-ns Taylor variant: the public path never supplies
   llhratio / grads, the required arguments are missing for every fit result *)
Theorem C12_computable_refuted : forall e,
  exists floating nm ll fpv,
    In nm floating /\ zlen fpv = zlen floating
    /\ analysis_public_ts (RNum e) VTaylor floating nm ll fpv = Err TypeError.
Proof. exact top_computable_refuted. Qed.
Print Assumptions C12_computable_refuted.

Theorem C12_computable_refuted_all : forall e floating nm ll fpv,
  analysis_public_ts (RNum e) VTaylor floating nm ll fpv = Err TypeError.
Proof. exact top_public_taylor_fails. Qed.
Print Assumptions C12_computable_refuted_all.

(* PARTIAL: called with llhratio and grads (calculate_test_statistic(...,
   llhratio=, grads=)), the variant is computable for every fit result, for
   each of the four real calculate_ns_grad2 signatures, whenever the callee
   itself returns.  The premise "the callee returns" is discharged for the real
   bodies below (C12_computable_zerosig / _multi / _nsprofile); it is FALSE for
   ZeroSigH0 before evaluate() (C12_zerosig_before_evaluate) and for NsProfile
   with an ns index other than 0 (C12_nsprofile_other_index), which the
   constructor of that class excludes (exactly one floating parameter). *)
Theorem C12_computable_partial : forall e floating nm ll fpv (llh : callee R) grads,
  In nm floating -> zlen fpv = zlen floating -> zlen grads = zlen floating ->
  In (c_sig llh) [sig_TCLLHRatio; sig_ZeroSigH0SingleDatasetTCLLHRatio; sig_MultiDatasetTCLLHRatio;
                  sig_NsProfileMultiDatasetTCLLHRatio] ->
  (forall ns i, exists b, c_body llh ns i = Ok b) ->
  exists ts, analysis_calculate_ts (RNum e) VTaylor floating nm ll fpv (Some llh) (Some grads) = Ok ts.
Proof. exact top_direct_taylor. Qed.
Print Assumptions C12_computable_partial.

(* regression pin (a characterisation of the model's constants): the call as it
   was before fix b047c50 is rejected by all four signatures *)
Theorem C12_old_call_rejected : forall sg,
  In sg [sig_TCLLHRatio; sig_ZeroSigH0SingleDatasetTCLLHRatio; sig_MultiDatasetTCLLHRatio;
         sig_NsProfileMultiDatasetTCLLHRatio] ->
  bind_ok sg [K_fitparam_values; K_ns_pidx; K_src_params_recarray; K_tl] = false
  /\ bind_ok sg [K_ns; K_ns_pidx; K_src_params_recarray; K_tl] = true.
Proof. intros sg H; split; [exact (real_sigs_reject_old_call sg H) | exact (real_sigs_accept_current_call sg H)]. Qed.
Print Assumptions C12_old_call_rejected.

(* ------------------------------------------------------------------ the real calculate_ns_grad2 bodies as callees *)
(* ZeroSigH0SingleDatasetTCLLHRatio.calculate_ns_grad2, every input (cache = the
   per-event ns-gradients left by evaluate(), None otherwise) *)
Theorem C12_callee_zerosig : forall e cache nsel npure ns i,
  zerosig_body (RNum e) cache nsel npure ns i =
    match cache with
    | None => Err RuntimeError
    | Some g => Ok (- fold_right Rplus 0 (map (fun x => x * x) g)
                    - IZR npure / ((IZR nsel + IZR npure - ns) * (IZR nsel + IZR npure - ns)))
    end.
Proof. exact zerosig_body_char. Qed.
Print Assumptions C12_callee_zerosig.

(* with that callee the zero-ns TS is the documented expression, b < 0 and TS >= 0
   for every fit result with ns = 0 unless the likelihood is flat (no pure
   background event and every cached gradient 0) *)
Theorem C12_ts0_zerosig : forall e floating nm ll fpv grads i a g nsel npure,
  get_gflp_idx floating nm = Ok i -> py_get fpv i = Ok 0 -> py_get grads i = Ok a ->
  zlen fpv = zlen floating ->
  (0 <= nsel)%Z -> (0 <= npure)%Z -> (0 < nsel + npure)%Z ->
  ((0 < npure)%Z \/ exists x, In x g /\ x <> 0) ->
  let b := - fold_right Rplus 0 (map (fun x => x * x) g)
           - IZR npure / ((IZR nsel + IZR npure - 0) * (IZR nsel + IZR npure - 0)) in
  b < 0
  /\ taylor (RNum e) floating nm ll fpv (zerosig_callee (RNum e) (Some g) nsel npure) grads
     = Ok (- 2 * (a * a / (4 * b)))
  /\ 0 <= - 2 * (a * a / (4 * b)).
Proof. exact ts0_zerosig. Qed.
Print Assumptions C12_ts0_zerosig.

(* REFUTED for the flat likelihood: at b = 0 the documented expression
   TS * (4 b) = -2 a^2 defines no value (no solution for a <> 0, every real for
   a = 0); the code returns NaN there (known finding) *)
Theorem C12_ts0_flat_refuted : forall a : R,
  ~ exists x, forall y, y * (4 * 0) = - 2 * (a * a) <-> y = x.
Proof. exact ts0_undefined_at_b0. Qed.
Print Assumptions C12_ts0_flat_refuted.

Theorem C12_computable_zerosig : forall e floating nm ll fpv grads g nsel npure,
  In nm floating -> zlen fpv = zlen floating -> zlen grads = zlen floating ->
  exists ts, taylor (RNum e) floating nm ll fpv (zerosig_callee (RNum e) (Some g) nsel npure) grads = Ok ts.
Proof. exact taylor_computable_zerosig. Qed.
Print Assumptions C12_computable_zerosig.

Theorem C12_zerosig_before_evaluate : forall e floating nm ll fpv grads i a nsel npure,
  get_gflp_idx floating nm = Ok i -> py_get fpv i = Ok 0 -> py_get grads i = Ok a -> zlen fpv = zlen floating ->
  taylor (RNum e) floating nm ll fpv (zerosig_callee (RNum e) None nsel npure) grads = Err RuntimeError.
Proof. exact taylor_zerosig_before_evaluate. Qed.
Print Assumptions C12_zerosig_before_evaluate.

(* MultiDatasetTCLLHRatio.calculate_ns_grad2 over per-dataset callees *)
Theorem C12_computable_multi : forall e floating nm ll fpv grads fs (subs : list (callee R)),
  In nm floating -> zlen fpv = zlen floating -> zlen grads = zlen floating ->
  length fs = length subs ->
  (forall c, In c subs ->
     In (c_sig c) [sig_TCLLHRatio; sig_ZeroSigH0SingleDatasetTCLLHRatio; sig_MultiDatasetTCLLHRatio;
                   sig_NsProfileMultiDatasetTCLLHRatio]
     /\ forall x j, exists b, c_body c x j = Ok b) ->
  exists ts, taylor (RNum e) floating nm ll fpv (multi_callee (RNum e) fs subs) grads = Ok ts.
Proof. exact taylor_computable_multi. Qed.
Print Assumptions C12_computable_multi.

Theorem C12_multi_value : forall e f1 f2 (c1 c2 : callee R) ns i b1 b2,
  In (c_sig c1) [sig_TCLLHRatio; sig_ZeroSigH0SingleDatasetTCLLHRatio; sig_MultiDatasetTCLLHRatio;
                 sig_NsProfileMultiDatasetTCLLHRatio] ->
  In (c_sig c2) [sig_TCLLHRatio; sig_ZeroSigH0SingleDatasetTCLLHRatio; sig_MultiDatasetTCLLHRatio;
                 sig_NsProfileMultiDatasetTCLLHRatio] ->
  c_body c1 (ns * f1) i = Ok b1 -> c_body c2 (ns * f2) i = Ok b2 ->
  multi_body (RNum e) [f1; f2] [c1; c2] ns i = Ok (b1 * (f1 * f1) + b2 * (f2 * f2)).
Proof. exact multi_two_value. Qed.
Print Assumptions C12_multi_value.

(* NsProfileMultiDatasetTCLLHRatio: one floating parameter (enforced by its
   constructor), hence ns index 0: computable; any other index is rejected *)
Theorem C12_computable_nsprofile : forall e nm ll x a (inner : callee R),
  In (c_sig inner) [sig_TCLLHRatio; sig_ZeroSigH0SingleDatasetTCLLHRatio; sig_MultiDatasetTCLLHRatio;
                    sig_NsProfileMultiDatasetTCLLHRatio] ->
  (forall ns, exists b, c_body inner ns 0%Z = Ok b) ->
  exists ts, taylor (RNum e) [nm] nm ll [x] (nsprofile_callee inner) [a] = Ok ts.
Proof. exact taylor_computable_nsprofile. Qed.
Print Assumptions C12_computable_nsprofile.

Theorem C12_nsprofile_other_index : forall e floating nm ll fpv grads (inner : callee R) i a,
  get_gflp_idx floating nm = Ok i -> i <> 0%Z -> py_get fpv i = Ok 0 -> py_get grads i = Ok a ->
  zlen fpv = zlen floating ->
  taylor (RNum e) floating nm ll fpv (nsprofile_callee inner) grads = Err ValueError.
Proof. exact taylor_nsprofile_other_index. Qed.
Print Assumptions C12_nsprofile_other_index.

(* ------------------------------------------------------------------ trial-based p-values *)
(* every non-empty sample (any length, ties, duplicates), every threshold *)
Theorem C12_pval : forall e op ts t,
  ts <> [] -> op <> OtherOp ->
  exists p s,
    pval_trials (RNum e) op ts t = Ok (p, s)
    /\ p = IZR (match op with Greater => n_greater ts t | _ => n_greater_equal ts t end) / IZR (zlen ts)
    /\ 0 <= p <= 1
    /\ 0 <= s <= 1 / 2 /\ s * s = p * (1 - p) / IZR (zlen ts).
Proof. exact top_pval_range. Qed.
Print Assumptions C12_pval.

Theorem C12_pval_mono : forall e op ts t t' p s p' s',
  (t <= t')%Z ->
  pval_trials (RNum e) op ts t = Ok (p, s) -> pval_trials (RNum e) op ts t' = Ok (p', s') -> p' <= p.
Proof. exact top_pval_mono. Qed.
Print Assumptions C12_pval_mono.

Theorem C12_pval_inclusive : forall e ts t p s p' s',
  pval_trials (RNum e) Greater ts t = Ok (p, s) -> pval_trials (RNum e) GreaterEqual ts t = Ok (p', s') ->
  p <= p' /\ p' = p + IZR (count_spec (fun x => (x =? t)%Z) ts) / IZR (zlen ts).
Proof. intros e ts t p s p' s' H1 H2; split; [exact (top_pval_incl e ts t p s p' s' H1 H2) | exact (top_pval_ties e ts t p s p' s' H1 H2)]. Qed.
Print Assumptions C12_pval_inclusive.

Theorem C12_pval_next : forall e ts t t' p s p' s',
  (t < t')%Z ->
  pval_trials (RNum e) Greater ts t = Ok (p, s) -> pval_trials (RNum e) GreaterEqual ts t' = Ok (p', s') -> p' <= p.
Proof. exact top_pval_next. Qed.
Print Assumptions C12_pval_next.

Theorem C12_pval_errors : forall e op ts t,
  (op = OtherOp -> pval_trials (RNum e) op ts t = Err ValueError)
  /\ (op <> OtherOp -> ts = [] -> pval_trials (RNum e) op ts t = Err ZeroDivision).
Proof. exact top_pval_errors. Qed.
Print Assumptions C12_pval_errors.

(* _mixed: strictly below the switch the trials are counted with the caller's
   operator and threshold; otherwise the gamma fit (oracle) gets threshold,
   eta (default: the switch) and n_max *)
Theorem C12_pval_mixed : forall op ts t s eta nmax,
  pval_mixed op ts t s eta nmax =
    if (t <? s)%Z then
      match pval_counts op ts t with
      | Ok (k, n) => Ok (ByTrials k n)
      | Err er => Err er
      end
    else Ok (ByGammaFit t (match eta with Some x => x | None => s end) nmax).
Proof. exact pval_mixed_char. Qed.
Print Assumptions C12_pval_mixed.

Theorem C12_pval_counts : forall op ts t,
  pval_counts op ts t =
    match op with
    | OtherOp => Err ValueError
    | Greater => if (zlen ts =? 0)%Z then Err ZeroDivision else Ok (n_greater ts t, zlen ts)
    | GreaterEqual => if (zlen ts =? 0)%Z then Err ZeroDivision else Ok (n_greater_equal ts t, zlen ts)
    end.
Proof. exact pval_counts_char. Qed.
Print Assumptions C12_pval_counts.

(* ------------------------------------------------------------------ gamma-fit branch (at / above the switch) *)
(* calculate_pval_from_gammafit_to_trials: threshold check, truncation to the
   first n_max trials, THEN the tail selection; errors (a characterisation of the
   model's definition: regression pin for the hand-written statement order) *)
Theorem C12_gamma_counts : forall ts t eta m,
  gammafit_counts ts t eta m =
    let ts' := if (m <? zlen ts)%Z then py_slice ts 0 m else ts in
    let tail := filter (fun x => (eta <? x)%Z) ts' in
    if (t <? eta)%Z then Err ValueError
    else if (zlen ts' =? 0)%Z then Err ZeroDivision
    else Ok (zlen tail, zlen ts', tail).
Proof. exact gammafit_counts_char. Qed.
Print Assumptions C12_gamma_counts.

(* the fitted survival function `sf eta tail x` (scipy minimize + gamma.sf) is an
   oracle; contract: values in [0,1], positive at eta, non-increasing *)
Theorem C12_gamma_range : forall e (sf : Z -> list Z -> Z -> R),
  (forall eta l x, 0 <= sf eta l x <= 1) -> (forall eta l, 0 < sf eta l eta) ->
  (forall eta l x y, (x <= y)%Z -> sf eta l y <= sf eta l x) ->
  forall ts t eta m p s,
  pval_gammafit (RNum e) sf ts t eta m = Ok (p, s) -> 0 <= p <= 1 /\ s = 0.
Proof.
  intros e sf H1 H2 H3 ts t eta m p s H.
  exact (conj (conj (proj1 (proj1 (gamma_range e sf H1 H2 H3 ts t eta m p s H)))
                    (proj1 (proj2 (gamma_range e sf H1 H2 H3 ts t eta m p s H))))
              (proj2 (proj2 (gamma_range e sf H1 H2 H3 ts t eta m p s H)))).
Qed.
Print Assumptions C12_gamma_range.

Theorem C12_gamma_mono : forall e (sf : Z -> list Z -> Z -> R),
  (forall eta l x, 0 <= sf eta l x <= 1) -> (forall eta l, 0 < sf eta l eta) ->
  (forall eta l x y, (x <= y)%Z -> sf eta l y <= sf eta l x) ->
  forall ts t t' eta m p s p' s',
  (t <= t')%Z ->
  pval_gammafit (RNum e) sf ts t eta m = Ok (p, s) -> pval_gammafit (RNum e) sf ts t' eta m = Ok (p', s') -> p' <= p.
Proof. intros e sf H1 H2 H3. exact (gamma_mono e sf H2 H3). Qed.
Print Assumptions C12_gamma_mono.

(* at the truncation threshold the value is the tail fraction of the (truncated) sample *)
Theorem C12_gamma_at_eta : forall e (sf : Z -> list Z -> Z -> R),
  (forall eta l, 0 < sf eta l eta) ->
  forall ts eta m p s,
  pval_gammafit (RNum e) sf ts eta eta m = Ok (p, s) ->
  let ts' := if (m <? zlen ts)%Z then py_slice ts 0 m else ts in
  p = IZR (zlen (filter (fun x => (eta <? x)%Z) ts')) / IZR (zlen ts').
Proof. exact gamma_at_eta. Qed.
Print Assumptions C12_gamma_at_eta.

(* the objective handed to scipy.optimize.minimize (truncated_gamma_logpdf) is
   minus the log-likelihood of the gamma density truncated at eta: with
   c = gamma.cdf(eta) < 1 and qs = the gamma.pdf values (> 0) of the tail *)
Theorem C12_gamma_objective : forall e c qs,
  c < 1 -> (forall q, In q qs -> 0 < q) ->
  tg_objective (RNum e) c (fold_right Rplus 0 (map ln qs)) (zlen qs)
  = - fold_right Rplus 0 (map (fun q => ln (q / (1 - c))) qs).
Proof. exact tg_objective_is_truncated_nll. Qed.
Print Assumptions C12_gamma_objective.

(* regression pin: start values and box of the fit *)
Theorem C12_gamma_fit_setup : forall e,
  gf_x0_a (RNum e) = 3 / 4 /\ gf_x0_scale (RNum e) = 9 / 5
  /\ gf_bounds_00 (RNum e) = 1 / 10 /\ gf_bounds_01 (RNum e) = 10
  /\ gf_bounds_10 (RNum e) = 1 / 10 /\ gf_bounds_11 (RNum e) = 10.
Proof. exact K_gf_start_and_bounds. Qed.
Print Assumptions C12_gamma_fit_setup.

(* calculate_pval_from_trials_mixed with both branches: range for every input *)
Theorem C12_mixed_range : forall e (sf : Z -> list Z -> Z -> R),
  (forall eta l x, 0 <= sf eta l x <= 1) -> (forall eta l, 0 < sf eta l eta) ->
  (forall eta l x y, (x <= y)%Z -> sf eta l y <= sf eta l x) ->
  forall op ts t s eta m p sg,
  pval_mixed_full (RNum e) sf op ts t s eta m = Ok (p, sg) -> 0 <= p <= 1.
Proof. exact mixed_full_range. Qed.
Print Assumptions C12_mixed_range.

(* PARTIAL: non-increasing over the whole threshold axis (below, across and
   above the switch) when the sample is not truncated and eta is the default *)
Theorem C12_mixed_mono_partial : forall e (sf : Z -> list Z -> Z -> R),
  (forall eta l x, 0 <= sf eta l x <= 1) -> (forall eta l, 0 < sf eta l eta) ->
  (forall eta l x y, (x <= y)%Z -> sf eta l y <= sf eta l x) ->
  forall op ts t t' s m p sg p' sg',
  (zlen ts <= m)%Z -> (t <= t')%Z ->
  pval_mixed_full (RNum e) sf op ts t s None m = Ok (p, sg) ->
  pval_mixed_full (RNum e) sf op ts t' s None m = Ok (p', sg') -> p' <= p.
Proof. exact mixed_full_mono. Qed.
Print Assumptions C12_mixed_mono_partial.

(* REFUTED without the guard: with more than n_max trials the gamma branch
   normalises with the tail fraction of the first n_max trials, so the p-value
   can increase when the threshold crosses the switch *)
Theorem C12_mixed_mono_refuted : forall e,
  exists (sf : Z -> list Z -> Z -> R) ts s m p sg p' sg',
    (forall eta l x, 0 <= sf eta l x <= 1) /\ (forall eta l, 0 < sf eta l eta)
    /\ (forall eta l x y, (x <= y)%Z -> sf eta l y <= sf eta l x)
    /\ (m < zlen ts)%Z
    /\ pval_mixed_full (RNum e) sf Greater ts 0%Z s None m = Ok (p, sg)
    /\ pval_mixed_full (RNum e) sf Greater ts s s None m = Ok (p', sg')
    /\ (0 <= s)%Z /\ p < p'.
Proof. exact mixed_full_refuted. Qed.
Print Assumptions C12_mixed_mono_refuted.

(* ------------------------------------------------------------------ polynomial inversion (np.polyfit = oracle `polyfit`) *)
Theorem C12_poly_deg1 : forall e polyfit p x,
  polynomial_fit (RNum e) polyfit 1%Z p = Ok x ->
  exists cs a b, polyfit 1%Z = Ok cs /\ py_get cs 0%Z = Ok a /\ py_get cs 1%Z = Ok b
                 /\ x = (p - b) / a /\ (a <> 0 -> a * x + b = p).
Proof. exact top_poly_deg1. Qed.
Print Assumptions C12_poly_deg1.

Theorem C12_poly_deg2 : forall e polyfit p x,
  polynomial_fit (RNum e) polyfit 2%Z p = Ok x ->
  exists cs a, polyfit 2%Z = Ok cs /\ py_get cs 0%Z = Ok a
    /\ ((0 < a /\ polynomial_fit (RNum e) polyfit 1%Z p = Ok x)
        \/ (~ 0 < a /\ exists b c, py_get cs 1%Z = Ok b /\ py_get cs 2%Z = Ok c
            /\ (a <> 0 -> 0 <= b * b - 4 * a * (c - p) ->
                a * (x * x) + b * x + c = p /\ 0 <= 2 * a * x + b
                /\ forall y, a * (y * y) + b * y + c = p -> x <= y))).
Proof. exact top_poly_deg2. Qed.
Print Assumptions C12_poly_deg2.

(* the guard of C12_poly_deg2 is exactly solvability: without it no signal
   strength with that p-value exists on the fitted curve *)
Theorem C12_poly_guard : forall a b c p,
  a <> 0 -> ((exists y, a * (y * y) + b * y + c = p) <-> 0 <= b * b - 4 * a * (c - p)).
Proof. exact top_poly_guard. Qed.
Print Assumptions C12_poly_guard.

Theorem C12_poly_total : forall e polyfit deg p,
  (forall d, (d = 1 \/ d = 2)%Z -> exists cs, polyfit d = Ok cs /\ zlen cs = (d + 1)%Z) ->
  ((deg = 1 \/ deg = 2)%Z -> exists x, polynomial_fit (RNum e) polyfit deg p = Ok x)
  /\ (deg <> 1%Z -> deg <> 2%Z -> forall cs, polyfit deg = Ok cs ->
      polynomial_fit (RNum e) polyfit deg p = Err ValueError).
Proof. exact top_poly_total. Qed.
Print Assumptions C12_poly_total.

(* ------------------------------------------------------------------ non-vacuity *)
(* pmm with floating parameters [gamma=3; ns=7]: index of ns is 1; a sample with
   ties, duplicates; counts at a threshold equal to a sample value *)
Example C12_nonvacuous_discrete :
  get_gflp_idx [3; 7]%Z 7%Z = Ok 1%Z
  /\ get_gflp_idx [3; 7]%Z 5%Z = Err KeyError
  /\ pval_counts Greater [4; 0; 4; 9; 0; 4]%Z 4%Z = Ok (1, 6)%Z
  /\ pval_counts GreaterEqual [4; 0; 4; 9; 0; 4]%Z 4%Z = Ok (4, 6)%Z
  /\ pval_counts GreaterEqual [4]%Z 4%Z = Ok (1, 1)%Z
  /\ pval_counts Greater [4]%Z 4%Z = Ok (0, 1)%Z
  /\ pval_mixed GreaterEqual [4; 0; 4; 9; 0; 4]%Z 4%Z 5%Z None 500000%Z = Ok (ByTrials 4 6)
  /\ pval_mixed GreaterEqual [4; 0; 4; 9; 0; 4]%Z 5%Z 5%Z None 500000%Z = Ok (ByGammaFit 5 5 500000)
  /\ bind_ok sig_MultiDatasetTCLLHRatio [K_ns; K_ns_pidx; K_src_params_recarray; K_tl] = true
  /\ gammafit_counts [5; 0; 7; 0; 9; 1]%Z 4%Z 1%Z 4%Z = Ok (2, 4, [5; 7])%Z
  /\ gammafit_counts [5; 0; 7; 0; 9; 1]%Z 0%Z 1%Z 4%Z = Err ValueError
  /\ gammafit_counts [5; 0; 7]%Z 4%Z 1%Z 0%Z = Err ZeroDivision.
Proof. repeat split; vm_compute; reflexivity. Qed.

(* hypotheses of C12_ts0 / C12_poly_deg2 are satisfiable: a = 3, b = -2 gives
   TS = 9/4; the parabola -x^2 + 4x + 0 reaches p = 3 at x = 1 (rising branch) *)
Example C12_nonvacuous_real :
  (- 2 * (3 * 3 / (4 * -2)) = 9 / 4)
  /\ (-2 < 0)
  /\ (-1 <> 0 /\ 0 <= 4 * 4 - 4 * -1 * (0 - 3) /\ -1 * (1 * 1) + 4 * 1 + 0 = 3 /\ 0 <= 2 * -1 * 1 + 4).
Proof. repeat split; lra. Qed.

(* hypotheses of C12_ts0_zerosig / C12_computable_nsprofile / C12_gamma_objective are
   satisfiable: one floating parameter, fit result ns = 0, 3 selected + 5 pure
   background events, cached gradients (1/2, 0, -1/4); a two-point tail *)
Example C12_nonvacuous_callees :
  get_gflp_idx [7]%Z 7%Z = Ok 0%Z
  /\ py_get [0] 0%Z = Ok 0 /\ py_get [3 / 2] 0%Z = Ok (3 / 2)
  /\ zlen [0] = zlen [7%Z]
  /\ (0 <= 3)%Z /\ (0 <= 5)%Z /\ (0 < 3 + 5)%Z
  /\ ((0 < 5)%Z \/ exists x, In x [1 / 2; 0; - (1 / 4)] /\ x <> 0)
  /\ np_guard 0 = false /\ np_guard 1 = true
  /\ (1 / 2 < 1) /\ (forall q, In q [2; 1 / 3] -> 0 < q).
Proof.
  repeat split; try reflexivity; try lia; try lra; try (left; lia); try (intros q [<-|[<-|[]]]; lra).
Qed.
