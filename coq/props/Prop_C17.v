(* C17 — Data loading returns every row once, identically across modes and formats.
   Statements only; every proof is `exact <lemma>`. *)
From Coq Require Import ZArith List Bool Lia.
From Sky Require Import Result PyList G_load M_Load S_Load P_Load P_LoadDs.
Import ListNotations.
Open Scope Z_scope.

(* One file, time-efficient mode: the result is exactly (file fields ∩ keep set)
   in file order, dtype map with exception list applied, every column the file's
   column (every row once, in row order); one np.load. *)
Theorem C17_time_file : forall f o,
  wf_file f ->
  load_file_time f o =
    Ok (map (fun p => (fst p, (spec_dtype o (fst p) (snd p), spec_col f (fst p))))
            (filter (fun p => match o_keep o with None => true | Some k => zmem (fst p) k end)
                    (f_schema f)), 1).
Proof. exact load_time_spec. Qed.
Print Assumptions C17_time_file.

(* One file, memory-efficient mode (row loop, re-open after every row whose index
   is a multiple of the block size): the same table, for EVERY non-zero block
   size; 4096 is just another one. *)
Theorem C17_memory_file : forall bs f o,
  wf_file f -> bs <> 0 ->
  load_file_mem_bs bs f o =
    Ok (map (fun p => (fst p, (spec_dtype o (fst p) (snd p), spec_col f (fst p))))
            (filter (fun p => match o_keep o with None => true | Some k => zmem (fst p) k end)
                    (f_schema f)),
        1 + Z.of_nat (length (filter (fun k => Z.of_nat k mod bs =? 0)
                                     (seq 0 (Z.to_nat (zlen (f_rows f))))))).
Proof. exact load_mem_spec. Qed.
Print Assumptions C17_memory_file.

(* the code's block size, and the number of np.load calls: 1 + ceil(n / bs) *)
Theorem C17_block : mem_bs = 4096 /\
  forall n bs, 0 <= n -> 0 < bs -> spec_opens n bs = 1 + (n + bs - 1) / bs.
Proof. split; [exact (proj1 K_mem_bs) | exact spec_opens_ceil]. Qed.
Print Assumptions C17_block.

(* memory-efficient = time-efficient for every list of files (existing or not,
   with any schemas) and every options tuple: same table or same error *)
Theorem C17_modes : forall files o,
  Forall (fun p => match p with Some f => wf_file f | None => True end) files ->
  match npy_load MMemory files o, npy_load MTime files o with
  | Ok (t, _), Ok (t', _) => t = t'
  | Err e, Err e' => e = e'
  | _, _ => False
  end.
Proof. exact modes_agree. Qed.
Print Assumptions C17_modes.

Theorem C17_default_mode : forall files o, npy_load MNone files o = npy_load MTime files o.
Proof. exact mode_none_is_time. Qed.
Print Assumptions C17_default_mode.

(* appending the next file: same fields, every column = old column ++ new column
   (rows in file order, each once), dtype = numpy promotion *)
Theorem C17_files_append : forall t a t',
  append t a = Ok t' ->
  tnames t' = tnames t /\
  forall fname dt v, In (fname, (dt, v)) t ->
  exists dt' v', alookup fname a = Some (dt', v') /\ In (fname, (promote dt dt', v ++ v')) t'.
Proof. exact append_concat. Qed.
Print Assumptions C17_files_append.

(* result fields of a k-file load = fields of the first file ∩ keep set, in file order *)
Theorem C17_fields : forall mode f0 rest o t n,
  wf_file f0 ->
  npy_load mode (Some f0 :: rest) o = Ok (t, n) ->
  tnames t = map fst (filter (fun p => match o_keep o with None => true | Some k => zmem (fst p) k end)
                             (f_schema f0)).
Proof. exact fields_spec. Qed.
Print Assumptions C17_fields.

(* a missing file is reported as an error (npy in every mode, csv) *)
Theorem C17_missing_file : forall mode files o,
  In None files ->
  (exists e, npy_load mode files o = Err e) /\ (exists e, txt_load files o = Err e).
Proof. exact missing_file_error. Qed.
Print Assumptions C17_missing_file.

(* After load_and_prepare_data, for EVERY data preparation function: fields whose
   stage mask (in the configuration table overridden by the dataset table) includes
   the analysis stage are present — ANALYSIS_EXP (4) in exp, ANALYSIS_EXP|ANALYSIS_MC
   (12) in mc — nothing but such fields and keep_fields is kept, and a livetime exists. *)
Theorem C17_required_full : forall ds o prep d,
  load_and_prepare ds o prep = Ok d ->
  (forall t n m, dd_exp d = Some t ->
     In (n, m) (dict_merge (d_cfg_fields ds) (d_ds_fields ds)) -> Z.land m 4 <> 0 -> In n (tnames t)) /\
  (forall t n m, dd_mc d = Some t ->
     In (n, m) (dict_merge (d_cfg_fields ds) (d_ds_fields ds)) -> Z.land m 12 <> 0 -> In n (tnames t)) /\
  (forall t n, dd_exp d = Some t -> In n (tnames t) ->
     In n (spec_required (dict_merge (d_cfg_fields ds) (d_ds_fields ds)) 4 ++ do_keep o)) /\
  (forall t n, dd_mc d = Some t -> In n (tnames t) ->
     In n (spec_required (dict_merge (d_cfg_fields ds) (d_ds_fields ds)) 12 ++ do_keep o)) /\
  dd_livetime d <> None.
Proof. exact required_present. Qed.
Print Assumptions C17_required_full.

(* both levels count: a dataset-level declaration, and a configuration-level one
   that the dataset does not redeclare, are in the table used above *)
Theorem C17_stage_levels : forall ds n m,
  (NoDup (keys (d_ds_fields ds)) -> alookup n (d_ds_fields ds) = Some m ->
     In (n, m) (dict_merge (d_cfg_fields ds) (d_ds_fields ds))) /\
  (alookup n (d_ds_fields ds) = None -> alookup n (d_cfg_fields ds) = Some m ->
     In (n, m) (dict_merge (d_cfg_fields ds) (d_ds_fields ds))).
Proof. exact merged_levels. Qed.
Print Assumptions C17_stage_levels.

(* a required field that neither the renamed files nor the preparation provide is an error *)
Theorem C17_required_missing : forall ds o prep d0 d1 t n m,
  load_data ds o = Ok d0 -> prep d0 = Ok d1 -> dd_exp d1 = Some t ->
  In (n, m) (dict_merge (d_cfg_fields ds) (d_ds_fields ds)) -> Z.land m 4 <> 0 ->
  ~ In n (tnames t) ->
  exists e, load_and_prepare ds o prep = Err e.
Proof. exact required_missing_is_error. Qed.
Print Assumptions C17_required_missing.

(* Formats.  The format glue of csv / parquet is modelled and tied by the
   correspondence only (partial, see the manifest).  The pkl loader violates the
   property: it returns the stored objects as they are, so a keep set is not
   applied and two files give a list instead of one table. *)
Theorem C17_formats_pkl_refuted :
  exists f o t n,
    npy_load MTime [Some f] o = Ok (t, n) /\
    pkl_load [Some f] = Ok (PklOne f) /\
    tnames t <> map fst (f_schema f) /\
    pkl_load [Some f; Some f] = Ok (PklMany [f; f]).
Proof.
  exists (mkFile [(0, 3); (1, 3)] [[1; 2]; [3; 4]]), (mkOpts (Some [1]) [] []), [(1, (3, [2; 4]))], 1.
  repeat split; try (vm_compute; reflexivity). vm_compute. discriminate.
Qed.
Print Assumptions C17_formats_pkl_refuted.

(* non-vacuity: a well-formed two-file load crossing a (small) block boundary in
   both modes, a dataset whose dataset-level analysis field survives, and one
   whose dataset-level required field is missing *)
Example C17_nonvacuous :
  let f1 := mkFile [(0, 3); (1, 1); (8, 3)] [[1; 2; 7]; [3; 4; 7]; [5; 6; 7]] in
  let f2 := mkFile [(8, 3); (0, 3)] [[9; 10]] in
  let o := mkOpts (Some [8; 0; 5]) [(3, 2)] [8] in
  wf_file f1 /\ wf_file f2 /\
  npy_load MMemory [Some f1; Some f2] o = Ok ([(0, (2, [1; 3; 5; 10])); (8, (3, [7; 7; 7; 9]))], 4) /\
  npy_load MTime [Some f1; Some f2] o = Ok ([(0, (2, [1; 3; 5; 10])); (8, (3, [7; 7; 7; 9]))], 2) /\
  load_file_mem_bs 2 f1 o = Ok ([(0, (2, [1; 3; 5])); (8, (3, [7; 7; 7]))], 3) /\
  (exists d, load_and_prepare (mkDs [(0, 4)] [(8, 4)] FNpy [Some f1] [] [] [] (Some 1))
                              (mkDo [] [] None MTime) (fun d => Ok d) = Ok d
             /\ dd_exp d = Some [(0, (3, [1; 3; 5])); (8, (3, [7; 7; 7]))]) /\
  load_and_prepare (mkDs [(0, 4)] [(9, 4)] FNpy [Some f1] [] [] [] (Some 1))
                   (mkDo [] [] None MTime) (fun d => Ok d) = Err KeyError.
Proof.
  cbv zeta. repeat match goal with |- _ /\ _ => split end; try (vm_compute; reflexivity).
  - split; cbn; repeat constructor; cbn; intuition discriminate.
  - split; cbn; repeat constructor; cbn; intuition discriminate.
  - eexists. split; vm_compute; reflexivity.
Qed.
