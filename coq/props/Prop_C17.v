(* C17 — Data loading returns every row once, identically across modes and formats.
   Statements only; every proof is `exact <lemma>`. *)
From Coq Require Import ZArith List Bool Lia.
From Sky Require Import Result PyList G_load M_Load S_Load P_Load P_LoadDs P_LoadFiles P_LoadRen P_LoadE2E P_LoadFmt P_LoadPq P_LoadAudit.
Import ListNotations.
Open Scope Z_scope.

(* One file, time-efficient mode: the result is exactly (file fields ∩ keep set)
   in file order, dtype map with exception list applied, every column the file's
   column (every row once, in row order); one np.load. *)
Theorem C17_time_file : forall f o,
  wf_file f ->
  load_file_time f o =
    Ok (map (fun p => (fst p, (spec_dtype o (fst p) (snd p), spec_col f (fst p))))
            (filter (fun p => match o_keep o with None => true | Some k => zmem (fst p) k end)
                    (f_schema f)), 1).
Proof. exact load_time_spec. Qed.
Print Assumptions C17_time_file.

(* One file, memory-efficient mode (row loop, re-open after every row whose index
   is a multiple of the block size): the same table, for EVERY non-zero block
   size; 4096 is just another one. *)
Theorem C17_memory_file : forall bs f o,
  wf_file f -> bs <> 0 ->
  load_file_mem_bs bs f o =
    Ok (map (fun p => (fst p, (spec_dtype o (fst p) (snd p), spec_col f (fst p))))
            (filter (fun p => match o_keep o with None => true | Some k => zmem (fst p) k end)
                    (f_schema f)),
        1 + Z.of_nat (length (filter (fun k => Z.of_nat k mod bs =? 0)
                                     (seq 0 (Z.to_nat (zlen (f_rows f))))))).
Proof. exact load_mem_spec. Qed.
Print Assumptions C17_memory_file.

(* the code's block size, and the number of np.load calls: 1 + ceil(n / bs) *)
Theorem C17_block : mem_bs = 4096 /\
  forall n bs, 0 <= n -> 0 < bs -> spec_opens n bs = 1 + (n + bs - 1) / bs.
Proof. split; [exact (proj1 K_mem_bs) | exact spec_opens_ceil]. Qed.
Print Assumptions C17_block.

(* memory-efficient = time-efficient for every list of files (existing or not,
   with any schemas) and every options tuple: same table or same error *)
Theorem C17_modes : forall files o,
  Forall (fun p => match p with Some f => wf_file f | None => True end) files ->
  match npy_load MMemory files o, npy_load MTime files o with
  | Ok (t, _), Ok (t', _) => t = t'
  | Err e, Err e' => e = e'
  | _, _ => False
  end.
Proof. exact modes_agree. Qed.
Print Assumptions C17_modes.

(* holds through the regenerated kernel mode_default_time (`efficiency_mode = 'time'` when None) *)
Theorem C17_default_mode : forall files o, npy_load MNone files o = npy_load MTime files o.
Proof. exact mode_none_is_time. Qed.
Print Assumptions C17_default_mode.

(* appending the next file: same fields, every column = old column ++ new column
   (rows in file order, each once), dtype = numpy promotion *)
Theorem C17_files_append : forall t a t',
  append t a = Ok t' ->
  tnames t' = tnames t /\
  forall fname dt v, In (fname, (dt, v)) t ->
  exists dt' v', alookup fname a = Some (dt', v') /\ In (fname, (promote dt dt', v ++ v')) t'.
Proof. exact append_concat. Qed.
Print Assumptions C17_files_append.

(* result fields of a k-file load = fields of the first file ∩ keep set, in file order *)
Theorem C17_fields : forall mode f0 rest o t n,
  wf_file f0 ->
  npy_load mode (Some f0 :: rest) o = Ok (t, n) ->
  tnames t = map fst (filter (fun p => match o_keep o with None => true | Some k => zmem (fst p) k end)
                             (f_schema f0)).
Proof. exact fields_spec. Qed.
Print Assumptions C17_fields.

(* a missing file is reported as an error (npy in every mode, csv) *)
Theorem C17_missing_file : forall mode files o,
  In None files ->
  (exists e, npy_load mode files o = Err e) /\ (exists e, txt_load files o = Err e).
Proof. exact missing_file_error. Qed.
Print Assumptions C17_missing_file.

(* After load_and_prepare_data, for EVERY data preparation function: fields whose
   stage mask (in the configuration table overridden by the dataset table) includes
   the analysis stage are present — ANALYSIS_EXP (4) in exp, ANALYSIS_EXP|ANALYSIS_MC
   (12) in mc — nothing but such fields and keep_fields is kept, and a livetime exists. *)
Theorem C17_required_full : forall ds o prep d,
  load_and_prepare ds o prep = Ok d ->
  (forall t n m, dd_exp d = Some t ->
     In (n, m) (dict_merge (d_cfg_fields ds) (d_ds_fields ds)) -> Z.land m 4 <> 0 -> In n (tnames t)) /\
  (forall t n m, dd_mc d = Some t ->
     In (n, m) (dict_merge (d_cfg_fields ds) (d_ds_fields ds)) -> Z.land m 12 <> 0 -> In n (tnames t)) /\
  (forall t n, dd_exp d = Some t -> In n (tnames t) ->
     In n (spec_required (dict_merge (d_cfg_fields ds) (d_ds_fields ds)) 4 ++ do_keep o)) /\
  (forall t n, dd_mc d = Some t -> In n (tnames t) ->
     In n (spec_required (dict_merge (d_cfg_fields ds) (d_ds_fields ds)) 12 ++ do_keep o)) /\
  dd_livetime d <> None.
Proof. exact required_present. Qed.
Print Assumptions C17_required_full.

(* both levels count: a dataset-level declaration, and a configuration-level one
   that the dataset does not redeclare, are in the table used above *)
Theorem C17_stage_levels : forall ds n m,
  (NoDup (keys (d_ds_fields ds)) -> alookup n (d_ds_fields ds) = Some m ->
     In (n, m) (dict_merge (d_cfg_fields ds) (d_ds_fields ds))) /\
  (alookup n (d_ds_fields ds) = None -> alookup n (d_cfg_fields ds) = Some m ->
     In (n, m) (dict_merge (d_cfg_fields ds) (d_ds_fields ds))).
Proof. exact merged_levels. Qed.
Print Assumptions C17_stage_levels.

(* a required field that neither the renamed files nor the preparation provide is an error *)
Theorem C17_required_missing : forall ds o prep d0 d1 t n m,
  load_data ds o = Ok d0 -> prep d0 = Ok d1 -> dd_exp d1 = Some t ->
  In (n, m) (dict_merge (d_cfg_fields ds) (d_ds_fields ds)) -> Z.land m 4 <> 0 ->
  ~ In n (tnames t) ->
  exists e, load_and_prepare ds o prep = Err e.
Proof. exact required_missing_is_error. Qed.
Print Assumptions C17_required_missing.

(* Formats.  The format glue of csv / parquet is modelled and tied by the
   correspondence only (partial, see the manifest).  The pkl loader violates the
   property: it returns the stored objects as they are, so a keep set is not
   applied and two files give a list instead of one table. *)
Theorem C17_formats_pkl_refuted :
  exists f o t n,
    npy_load MTime [Some f] o = Ok (t, n) /\
    pkl_load [Some f] = Ok (PklOne f) /\
    tnames t <> map fst (f_schema f) /\
    pkl_load [Some f; Some f] = Ok (PklMany [f; f]).
Proof.
  exists (mkFile [(0, 3); (1, 3)] [[1; 2]; [3; 4]]), (mkOpts (Some [1]) [] []), [(1, (3, [2; 4]))], 1.
  repeat split; try (vm_compute; reflexivity). vm_compute. discriminate.
Qed.
Print Assumptions C17_formats_pkl_refuted.

(* non-vacuity: a well-formed two-file load crossing a (small) block boundary in
   both modes, a dataset whose dataset-level analysis field survives, and one
   whose dataset-level required field is missing *)
Example C17_nonvacuous :
  let f1 := mkFile [(0, 3); (1, 1); (8, 3)] [[1; 2; 7]; [3; 4; 7]; [5; 6; 7]] in
  let f2 := mkFile [(8, 3); (0, 3)] [[9; 10]] in
  let o := mkOpts (Some [8; 0; 5]) [(3, 2)] [8] in
  wf_file f1 /\ wf_file f2 /\
  npy_load MMemory [Some f1; Some f2] o = Ok ([(0, (2, [1; 3; 5; 10])); (8, (3, [7; 7; 7; 9]))], 4) /\
  npy_load MTime [Some f1; Some f2] o = Ok ([(0, (2, [1; 3; 5; 10])); (8, (3, [7; 7; 7; 9]))], 2) /\
  load_file_mem_bs 2 f1 o = Ok ([(0, (2, [1; 3; 5])); (8, (3, [7; 7; 7]))], 3) /\
  (exists d, load_and_prepare (mkDs [(0, 4)] [(8, 4)] FNpy [Some f1] [] [] [] (Some 1))
                              (mkDo [] [] None MTime) (fun d => Ok d) = Ok d
             /\ dd_exp d = Some [(0, (3, [1; 3; 5])); (8, (3, [7; 7; 7]))]) /\
  load_and_prepare (mkDs [(0, 4)] [(9, 4)] FNpy [Some f1] [] [] [] (Some 1))
                   (mkDo [] [] None MTime) (fun d => Ok d) = Err KeyError.
Proof.
  cbv zeta. repeat match goal with |- _ /\ _ => split end; try (vm_compute; reflexivity).
  - split; cbn; repeat constructor; cbn; intuition discriminate.
  - split; cbn; repeat constructor; cbn; intuition discriminate.
  - eexists. split; vm_compute; reflexivity.
Qed.

(* ======================================================================
   Deepening: closed k-file formula, keep [] / None, renaming, back-translation
   of requested names, Dataset.load_data end to end, csv = npy. *)

(* k files as ONE formula, both modes: for any list of existing well-formed files
   in which every later file has the kept fields of the first, the result is the
   fields of the first file ∩ keep set in file order; every column is the
   concatenation of the files' columns in file order (every row exactly once);
   the dtype is the numpy promotion of the converted dtypes. *)
Theorem C17_files_closed : forall mode f0 rest o,
  mode <> MBad -> wf_file f0 ->
  (forall f, In f rest -> wf_file f /\
     forall p, In p (spec_kept o (f_schema f0)) ->
               zmem (fst p) (map fst (spec_kept o (f_schema f))) = true) ->
  exists n,
  npy_load mode (map Some (f0 :: rest)) o =
    Ok (map (fun p => (fst p,
               (fold_left promote (map (fun f => spec_dtype_in f o (fst p)) rest)
                          (spec_dtype o (fst p) (snd p)),
                concat (map (fun f => spec_col f (fst p)) (f0 :: rest)))))
            (spec_kept o (f_schema f0)), n).
Proof. exact npy_files_closed_ex. Qed.
Print Assumptions C17_files_closed.

(* the guard is needed: a later file lacking a kept field is a KeyError *)
Theorem C17_files_guard_refuted :
  exists f0 f1 o, wf_file f0 /\ wf_file f1 /\
    npy_load MTime [Some f0; Some f1] o = Err KeyError /\
    npy_load MMemory [Some f0; Some f1] o = Err KeyError.
Proof.
  exists (mkFile [(0, 3); (1, 3)] [[1; 2]]), (mkFile [(0, 3)] [[5]]), (mkOpts None [] []).
  repeat match goal with |- _ /\ _ => split end; try (vm_compute; reflexivity);
    cbn; repeat constructor; cbn; intuition discriminate.
Qed.
Print Assumptions C17_files_guard_refuted.

(* A fact about the SPECIFICATION table only (spec_col is total: an absent field would be a zero column of
   the right length); the statement about the LOADER's result, with the presence of the field in every file,
   is C17_files_rows_loader below. *)
Theorem C17_files_row_count : forall f0 rest o fname dt v,
  In (fname, (dt, v)) (spec_load_files f0 rest o) ->
  length v = fold_right (fun f a => (length (f_rows f) + a)%nat) O (f0 :: rest).
Proof. exact files_row_count. Qed.
Print Assumptions C17_files_row_count.

(* keep_fields = [] loads no field (npy: empty table; csv: ValueError, "no data
   columns selected"); keep_fields = None loads every field of the first file *)
Theorem C17_keep_empty_vs_none : forall mode f0 rest o,
  mode <> MBad -> wf_file f0 -> (forall f, In f rest -> wf_file f) ->
  (o_keep o = Some [] ->
     (exists n, npy_load mode (map Some (f0 :: rest)) o = Ok ([], n)) /\
     txt_load (map Some (f0 :: rest)) o = Err ValueError) /\
  (o_keep o = None -> forall t n,
     npy_load mode (map Some (f0 :: rest)) o = Ok (t, n) -> tnames t = map fst (f_schema f0)).
Proof. exact keep_empty_vs_none. Qed.
Print Assumptions C17_keep_empty_vs_none.

(* rename_fields (current code, after 4f30bc8) in closed form for every table and
   every renaming dictionary: the fields whose name is not a key stay, then every
   present old field is assigned under its new name, in dictionary order *)
Theorem C17_rename_closed : forall t conv,
  NoDup (keys conv) ->
  rename_fields t conv = Ok (dict_merge (ren_rest t conv) (ren_pairs t conv)).
Proof. exact rename_closed. Qed.
Print Assumptions C17_rename_closed.

(* the data follows the names — chains {a:b, b:c} and swaps {a:b, b:a} included —
   when the new names of the present entries are pairwise distinct; any other name
   is gone if renamed away and untouched otherwise *)
Theorem C17_rename_data : forall t conv t',
  NoDup (keys conv) -> rename_fields t conv = Ok t' ->
  (NoDup (keys (ren_pairs t conv)) ->
     forall old new c, In (old, new) conv -> alookup old t = Some c -> alookup new t' = Some c) /\
  (forall n, zmem n (keys (ren_pairs t conv)) = false ->
     alookup n t' = if zmem n (keys conv) then None else alookup n t).
Proof. exact rename_data. Qed.
Print Assumptions C17_rename_data.

(* fresh new names: staying fields in their order, then the renamed ones *)
Theorem C17_rename_simple : forall t conv,
  NoDup (keys conv) -> NoDup (keys (ren_rest t conv ++ ren_pairs t conv)) ->
  rename_fields t conv = Ok (ren_rest t conv ++ ren_pairs t conv).
Proof. exact rename_simple. Qed.
Print Assumptions C17_rename_simple.

(* the distinctness guard is needed: two present fields renamed onto one name lose a column *)
Theorem C17_rename_guard_refuted :
  exists t conv t', NoDup (keys conv) /\ rename_fields t conv = Ok t' /\
    alookup 0 t = Some (3, [1]) /\ In (0, 5) conv /\ alookup 5 t' <> Some (3, [1]).
Proof.
  exists [(0, (3, [1])); (1, (3, [2]))], [(0, 5); (1, 5)], [(5, (3, [2]))].
  repeat match goal with |- _ /\ _ => split end; try (vm_compute; reflexivity).
  - cbn. repeat constructor; cbn; intuition discriminate.
  - left. reflexivity.
  - vm_compute. discriminate.
Qed.
Print Assumptions C17_rename_guard_refuted.

(* _conv_new2orig_field_names for an injective renaming dictionary: a requested new
   name is translated to its original name, any other name is kept *)
Theorem C17_new2orig : forall ren names,
  NoDup (map snd ren) ->
  conv_new2orig names ren
    = map (fun n => match alookup n (map (fun kv => (snd kv, fst kv)) ren) with Some o => o | None => n end) names
  /\ (forall o n, In (o, n) ren -> In n names -> In o (conv_new2orig names ren))
  /\ (forall n, ~ In n (map snd ren) -> In n names -> In n (conv_new2orig names ren)).
Proof. exact new2orig_all. Qed.
Print Assumptions C17_new2orig.

(* injectivity is needed: with two old names renamed to one new name only the last is requested *)
Theorem C17_new2orig_guard_refuted :
  exists ren names, In (0, 5) ren /\ In 5 names /\ ~ In 0 (conv_new2orig names ren).
Proof.
  exists [(0, 5); (1, 5)], [5]. repeat split; try (cbn; tauto).
  vm_compute. intuition discriminate.
Qed.
Print Assumptions C17_new2orig_guard_refuted.

(* Dataset.load_data (npy files, experimental part) in closed form: the keep set
   computed through the renaming dictionary, the k-file table, then the renaming *)
Theorem C17_load_data_closed : forall ds o f0 rest,
  d_fmt ds = FNpy -> do_mode o <> MBad ->
  d_exp_files ds = map Some (f0 :: rest) -> d_mc_files ds = [] ->
  wf_file f0 ->
  (forall f, In f rest -> wf_file f /\
     forall p, In p (spec_kept (mkOpts (Some (keep_exp ds o)) (do_conv o) (exc_orig o (d_exp_ren ds))) (f_schema f0)) ->
       zmem (fst p) (map fst (spec_kept (mkOpts (Some (keep_exp ds o)) (do_conv o) (exc_orig o (d_exp_ren ds))) (f_schema f))) = true) ->
  NoDup (keys (d_exp_ren ds)) ->
  load_data ds o =
    Ok (mkData
          (Some (dict_merge
             (ren_rest (spec_load_files f0 rest (mkOpts (Some (keep_exp ds o)) (do_conv o) (exc_orig o (d_exp_ren ds)))) (d_exp_ren ds))
             (ren_pairs (spec_load_files f0 rest (mkOpts (Some (keep_exp ds o)) (do_conv o) (exc_orig o (d_exp_ren ds)))) (d_exp_ren ds))))
          None (d_livetime ds)).
Proof. exact load_data_exp_closed. Qed.
Print Assumptions C17_load_data_closed.

(* End to end: a file field `orig` renamed onto a name `n` that the stage tables
   (configuration overridden by dataset; mask & (DATAPREPARATION_EXP|ANALYSIS_EXP))
   require or that the user requested is, after load_data, present under `n` and
   holds every row of the listed files exactly once, in file order. *)
Theorem C17_renamed_required_loaded : forall ds o f0 rest orig n dt d,
  d_fmt ds = FNpy -> do_mode o <> MBad ->
  d_exp_files ds = map Some (f0 :: rest) -> d_mc_files ds = [] ->
  wf_file f0 ->
  (forall f, In f rest -> wf_file f /\
     forall p, In p (spec_kept (mkOpts (Some (keep_exp ds o)) (do_conv o) (exc_orig o (d_exp_ren ds))) (f_schema f0)) ->
       zmem (fst p) (map fst (spec_kept (mkOpts (Some (keep_exp ds o)) (do_conv o) (exc_orig o (d_exp_ren ds))) (f_schema f))) = true) ->
  NoDup (keys (d_exp_ren ds)) -> NoDup (map snd (d_exp_ren ds)) ->
  NoDup (keys (ren_pairs (spec_load_files f0 rest (mkOpts (Some (keep_exp ds o)) (do_conv o) (exc_orig o (d_exp_ren ds)))) (d_exp_ren ds))) ->
  In (orig, n) (d_exp_ren ds) -> In (orig, dt) (f_schema f0) ->
  In n (spec_required (dict_merge (d_cfg_fields ds) (d_ds_fields ds)) 5 ++ do_keep o) ->
  load_data ds o = Ok d ->
  exists t dt', dd_exp d = Some t /\
    alookup n t = Some (dt', concat (map (fun f => spec_col f orig) (f0 :: rest))).
Proof. exact renamed_required_loaded. Qed.
Print Assumptions C17_renamed_required_loaded.

Theorem C17_required_loaded : forall ds o f0 rest n dt d,
  d_fmt ds = FNpy -> do_mode o <> MBad ->
  d_exp_files ds = map Some (f0 :: rest) -> d_mc_files ds = [] ->
  wf_file f0 ->
  (forall f, In f rest -> wf_file f /\
     forall p, In p (spec_kept (mkOpts (Some (keep_exp ds o)) (do_conv o) (exc_orig o (d_exp_ren ds))) (f_schema f0)) ->
       zmem (fst p) (map fst (spec_kept (mkOpts (Some (keep_exp ds o)) (do_conv o) (exc_orig o (d_exp_ren ds))) (f_schema f))) = true) ->
  d_exp_ren ds = [] ->
  In (n, dt) (f_schema f0) ->
  In n (spec_required (dict_merge (d_cfg_fields ds) (d_ds_fields ds)) 5 ++ do_keep o) ->
  load_data ds o = Ok d ->
  exists t dt', dd_exp d = Some t /\
    alookup n t = Some (dt', concat (map (fun f => spec_col f n) (f0 :: rest))).
Proof. exact required_loaded_plain. Qed.
Print Assumptions C17_required_loaded.

(* csv, relative to the reader contract "np.loadtxt returns the rows of the file":
   header columns, usecols selection, float64 typing, keep set and dtype map with
   exception list give exactly the specified table of the float64-typed rows;
   no selected column is a ValueError *)
Theorem C17_csv_file : forall f o,
  wf_file f ->
  txt_load_file (Some f) o =
    if (length (spec_kept o (f_schema f)) =? 0)%nat then Err ValueError
    else Ok (map (fun p => (fst p, (spec_dtype o (fst p) (snd p), spec_col (retype64 f) (fst p))))
                 (spec_kept o (f_schema (retype64 f))), 1).
Proof. exact csv_file_spec. Qed.
Print Assumptions C17_csv_file.

(* csv = npy: for every list of files (missing ones included) in which every
   existing file selects at least one column, loading the csv files gives the same
   table or the same error as loading npy files holding the same rows as float64 *)
Theorem C17_csv_equals_npy : forall files o,
  Forall (fun p => match p with
                   | Some f => wf_file f /\ spec_kept o (f_schema f) <> []
                   | None => True end) files ->
  match txt_load files o, npy_load MTime (map (option_map retype64) files) o with
  | Ok (t, _), Ok (t', _) => t = t'
  | Err e, Err e' => e = e'
  | _, _ => False
  end.
Proof. exact csv_equals_npy. Qed.
Print Assumptions C17_csv_equals_npy.

(* parquet, relative to the reader contract "read_table returns the table of the
   file", for keep_fields = None: same-schema files are concatenated and the dtype
   map with exception list is applied — exactly the npy result *)
Theorem C17_parquet_equals_npy_nokeep : forall f0 rest o,
  o_keep o = None -> wf_file f0 ->
  (forall f, In f rest -> wf_file f /\ f_schema f = f_schema f0) ->
  pq_load (map Some (f0 :: rest)) o = Ok (spec_load_files f0 rest o) /\
  exists n, npy_load MTime (map Some (f0 :: rest)) o = Ok (spec_load_files f0 rest o, n).
Proof. exact parquet_equals_npy_nokeep. Qed.
Print Assumptions C17_parquet_equals_npy_nokeep.

(* the same-schema guard is needed: with permuted columns pyarrow.concat_tables
   refuses (ValueError) where the npy loader matches the fields by name *)
Theorem C17_parquet_guard_refuted :
  exists f0 f1 o n, wf_file f0 /\ wf_file f1 /\
    pq_load [Some f0; Some f1] o = Err ValueError /\
    npy_load MTime [Some f0; Some f1] o = Ok ([(0, (3, [1; 4])); (1, (3, [2; 3]))], n).
Proof.
  exists (mkFile [(0, 3); (1, 3)] [[1; 2]]), (mkFile [(1, 3); (0, 3)] [[3; 4]]), (mkOpts None [] []), 2.
  repeat match goal with |- _ /\ _ => split end; try (vm_compute; reflexivity);
    cbn; repeat constructor; cbn; intuition discriminate.
Qed.
Print Assumptions C17_parquet_guard_refuted.

(* non-vacuity of the new statements: a swap and a chain keep all data; a field
   renamed onto a required name is loaded from two files; csv of the same rows *)
Example C17_nonvacuous2 :
  let t := [(0, (3, [1; 2])); (1, (1, [7; 8])); (2, (3, [5; 6]))] in
  rename_fields t [(0, 1); (1, 0)] = Ok [(2, (3, [5; 6])); (1, (3, [1; 2])); (0, (1, [7; 8]))] /\
  rename_fields t [(0, 1); (1, 4)] = Ok [(2, (3, [5; 6])); (1, (3, [1; 2])); (4, (1, [7; 8]))] /\
  NoDup (keys (ren_pairs t [(0, 1); (1, 0)])) /\
  (let f1 := mkFile [(0, 3); (8, 1)] [[1; 7]; [2; 7]] in
   let f2 := mkFile [(8, 1); (0, 3)] [[9; 3]] in
   let ds := mkDs [(5, 4)] [] FNpy [Some f1; Some f2] [] [(0, 5)] [] (Some 1) in
   exists d, load_data ds (mkDo [] [(3, 2)] None MMemory) = Ok d /\
             dd_exp d = Some [(5, (2, [1; 2; 3]))]) /\
  txt_load [Some (mkFile [(0, 1); (8, 0)] [[1; 7]; [2; 7]])] (mkOpts (Some [8; 4]) [(3, 2)] [])
    = Ok ([(8, (2, [7; 7]))], 1).
Proof.
  cbv zeta. repeat match goal with |- _ /\ _ => split end; try (vm_compute; reflexivity).
  - cbn. repeat constructor; cbn; intuition discriminate.
  - eexists. split; vm_compute; reflexivity.
Qed.

(* ======================================================================
   Audit follow-up. *)

(* The re-open is semantically active in the model: `ver k` is what the k-th
   np.load of the file returns.  If the file does not change while it is loaded,
   the memory-efficient loader returns the specified table for every block size. *)
Theorem C17_memory_file_versions : forall bs f o (ver : Z -> list (list Z)),
  wf_file f -> bs <> 0 -> (forall k, ver k = f_rows f) ->
  load_file_mem_ver bs (f_schema f) ver o =
    Ok (map (fun p => (fst p, (spec_dtype o (fst p) (snd p), spec_col f (fst p))))
            (spec_kept o (f_schema f)),
        spec_opens (zlen (f_rows f)) bs).
Proof. exact load_mem_ver_spec. Qed.
Print Assumptions C17_memory_file_versions.

(* that hypothesis is needed: when the content differs between opens (A at the
   first open, B afterwards; block size 2) row 0 comes from A and rows 1-3 from B —
   the result is neither the table of A nor the table of B *)
Theorem C17_reopen_observable :
  exists sch ver o t n A B,
    (forall k, ver k = A \/ ver k = B) /\
    load_file_mem_ver 2 sch ver o = Ok (t, n) /\
    t = [(0, (3, [10; 21; 22; 23]))] /\ n = 3 /\
    load_file_time (mkFile sch A) o <> Ok (t, 1) /\
    load_file_time (mkFile sch B) o <> Ok (t, 1).
Proof.
  exists [(0, 3)], (fun k => if k =? 1 then [[10]; [11]; [12]; [13]] else [[20]; [21]; [22]; [23]]),
         (mkOpts None [] []), [(0, (3, [10; 21; 22; 23]))], 3,
         [[10]; [11]; [12]; [13]], [[20]; [21]; [22]; [23]].
  repeat match goal with |- _ /\ _ => split end; try (vm_compute; reflexivity).
  - intros k. destruct (k =? 1); [left|right]; reflexivity.
  - vm_compute. discriminate.
  - vm_compute. discriminate.
Qed.
Print Assumptions C17_reopen_observable.

(* only MEMBERSHIP of the keep list matters to the loaders (Dataset.load_data builds
   it with list(set(...)), whose order is arbitrary): two keep lists with the same
   members give the same table or the same error, in every mode *)
Theorem C17_keep_membership : forall mode files k1 k2 c e,
  Forall (fun p => match p with Some f => wf_file f | None => True end) files ->
  (forall n, zmem n k1 = zmem n k2) ->
  match npy_load mode files (mkOpts (Some k1) c e), npy_load mode files (mkOpts (Some k2) c e) with
  | Ok (t, _), Ok (t', _) => t = t'
  | Err e1, Err e2 => e1 = e2
  | _, _ => False
  end.
Proof. exact keep_membership. Qed.
Print Assumptions C17_keep_membership.

(* MC counterpart of C17_required_missing (ANALYSIS_EXP | ANALYSIS_MC = 12) *)
Theorem C17_required_missing_mc : forall ds o prep d0 d1 t n m,
  load_data ds o = Ok d0 -> prep d0 = Ok d1 -> dd_mc d1 = Some t ->
  In (n, m) (dict_merge (d_cfg_fields ds) (d_ds_fields ds)) -> Z.land m 12 <> 0 ->
  ~ In n (tnames t) ->
  exists e, load_and_prepare ds o prep = Err e.
Proof. exact required_missing_is_error_mc. Qed.
Print Assumptions C17_required_missing_mc.

(* a missing file is an error for parquet too, and at the Dataset level (exp or mc
   list, every format, every mode, load_data and load_and_prepare_data) *)
Theorem C17_missing_file_parquet : forall files o, In None files -> exists e, pq_load files o = Err e.
Proof. exact pq_missing_file. Qed.
Print Assumptions C17_missing_file_parquet.

Theorem C17_missing_file_dataset : forall ds o,
  In None (d_exp_files ds) \/ In None (d_mc_files ds) ->
  (exists e, load_data ds o = Err e) /\
  (forall prep, exists e, load_and_prepare ds o prep = Err e).
Proof. exact load_data_missing_file. Qed.
Print Assumptions C17_missing_file_dataset.

(* every row exactly once, for the LOADER's result: each returned column belongs to
   a field that is in every file, is the concatenation of the files' columns in file
   order and has as many cells as the files have rows *)
Theorem C17_files_rows_loader : forall mode f0 rest o t n fname dt v,
  mode <> MBad -> wf_file f0 ->
  (forall f, In f rest -> wf_file f /\
     forall p, In p (spec_kept o (f_schema f0)) ->
               zmem (fst p) (map fst (spec_kept o (f_schema f))) = true) ->
  npy_load mode (map Some (f0 :: rest)) o = Ok (t, n) ->
  In (fname, (dt, v)) t ->
  length v = fold_right (fun f a => (length (f_rows f) + a)%nat) O (f0 :: rest)
  /\ v = concat (map (fun f => spec_col f fname) (f0 :: rest))
  /\ (forall f, In f (f0 :: rest) -> In fname (map fst (f_schema f))).
Proof. exact files_rows_loader. Qed.
Print Assumptions C17_files_rows_loader.

(* the real block size: a 4097-row file crosses the 4096-row re-open block; both
   modes agree and the memory-efficient loader opens the file 1 + ceil(4097/4096) = 3 times *)
Example C17_block_crossing_4097 :
  let f := synth_file [(0, 3); (1, 1)] [(5, 1); (0, 2)] 4097 in
  let o := mkOpts (Some [1; 0]) [(3, 2)] [1] in
  match load_file_mem f o, load_file_time f o with
  | Ok (t, n), Ok (t', n') => t = t' /\ n = 3 /\ n' = 1 /\ map (fun c : col => zlen (snd (snd c))) t = [4097; 4097]
  | _, _ => False
  end.
Proof. vm_compute. repeat split; reflexivity. Qed.
