(* C07 — generating pseudo data never alters the stored experimental / MC data;
   scrambling changes only the documented fields.
   Statements only (written out, no spec definitions hiding them); proofs in P_Alias.v. *)
From Coq Require Import ZArith List Bool Lia PeanoNat.
From Sky Require Import Result M_Alias S_Alias P_Alias.
Import ListNotations.
Open Scope Z_scope.

(* Every history (any length, failing operations included) over
   {construction of the seasonal scrambling method and of the signal candidates (both read
   the data sets), evaluation (which writes the global-fit-parameter data fields into the trial events), background generation by each method, signal generation, merge, the four
   stages of initialize_trial on the generated events, evaluate, unblind (copy of exp), drop} started with no trial in flight leaves every
   buffer and every table object of the initial store - in particular all of exp / mc -
   exactly as it was, and the data sets still point to the same objects. *)
Theorem C07_preserved_full : forall w0 ops,
  Forall (fun o => o = None) (w_cache w0) -> Forall (fun o => o = None) (w_ev w0) ->
  Forall (fun o => o = None) (w_sig w0) -> Forall (fun o => o = None) (w_tdm w0) ->
  let w := fst (run ops w0) in
  (forall b, (b < length (sb (w_store w0)))%nat ->
             nth_error (sb (w_store w)) b = nth_error (sb (w_store w0)) b) /\
  (forall t, (t < length (st (w_store w0)))%nat ->
             nth_error (st (w_store w)) t = nth_error (st (w_store w0)) t) /\
  w_exp w = w_exp w0 /\ w_mc w = w_mc w0.
Proof.
  intros w0 ops H1 H2 H3 H4.
  exact (match preserved_full w0 ops (conj H1 (conj H2 (conj H3 H4))) with
         | conj (conj A B) (conj C D) => conj A (conj B (conj C D)) end).
Qed.
Print Assumptions C07_preserved_full.

(* the same for sessions of API calls (do_trial, unblind, ...), each a group of operations
   abandoned at its first exception *)
Theorem C07_preserved_calls : forall w0 gs,
  Forall (fun o => o = None) (w_cache w0) -> Forall (fun o => o = None) (w_ev w0) ->
  Forall (fun o => o = None) (w_sig w0) -> Forall (fun o => o = None) (w_tdm w0) ->
  let w := run_calls gs w0 in
  (forall b, (b < length (sb (w_store w0)))%nat ->
             nth_error (sb (w_store w)) b = nth_error (sb (w_store w0)) b) /\
  (forall t, (t < length (st (w_store w0)))%nat ->
             nth_error (st (w_store w)) t = nth_error (st (w_store w0)) t) /\
  w_exp w = w_exp w0 /\ w_mc w = w_mc w0.
Proof.
  intros w0 gs H1 H2 H3 H4.
  exact (match preserved_calls w0 gs (conj H1 (conj H2 (conj H3 H4))) with
         | conj (conj A B) (conj C D) => conj A (conj B (conj C D)) end).
Qed.
Print Assumptions C07_preserved_calls.

(* the same as a statement about values: field names, their order, every column content
   (hence the row order) and the length of every initially existing table *)
Theorem C07_preserved_views : forall w0 ops t x,
  Forall (fun o => o = None) (w_cache w0) -> Forall (fun o => o = None) (w_ev w0) ->
  Forall (fun o => o = None) (w_sig w0) -> Forall (fun o => o = None) (w_tdm w0) ->
  nth_error (st (w_store w0)) t = Some x ->
  Forall (fun p => (snd p < length (sb (w_store w0)))%nat) (tf x) ->
  view (w_store (fst (run ops w0))) t = view (w_store w0) t.
Proof.
  intros w0 ops t x H1 H2 H3 H4.
  exact (preserved_views w0 ops t x (conj H1 (conj H2 (conj H3 H4)))).
Qed.
Print Assumptions C07_preserved_views.

(* from any reachable state: as long as the in-flight roots (cache, events, signal, trial
   data) are table objects >= nT whose columns are existing buffers >= nB, nothing below is
   written (the invariant of every history; `existing` was added with the cache theorems) *)
Theorem C07_preserved_from_any_state : forall nB nT ops w,
  ((nB <= length (sb (w_store w)))%nat /\ (nT <= length (st (w_store w)))%nat /\
   (forall t x, (nT <= t)%nat -> nth_error (st (w_store w)) t = Some x ->
                Forall (fun p => (nB <= snd p)%nat) (tf x)) /\
   (forall t x, (nT <= t)%nat -> nth_error (st (w_store w)) t = Some x ->
                valid_fields (w_store w) (tf x) = true)) ->
  Forall (fun o => match o with Some t => (nT <= t)%nat | None => True end) (w_cache w) ->
  Forall (fun o => match o with Some t => (nT <= t)%nat | None => True end) (w_ev w) ->
  Forall (fun o => match o with Some t => (nT <= t)%nat | None => True end) (w_sig w) ->
  Forall (fun o => match o with Some t => (nT <= t)%nat | None => True end) (w_tdm w) ->
  let w' := fst (run ops w) in
  (forall b, (b < nB)%nat -> nth_error (sb (w_store w')) b = nth_error (sb (w_store w)) b) /\
  (forall t, (t < nT)%nat -> nth_error (st (w_store w')) t = nth_error (st (w_store w)) t) /\
  w_exp w' = w_exp w /\ w_mc w' = w_mc w.
Proof.
  intros nB nT ops w G R1 R2 R3 R4.
  exact (match preserved_from_invariant nB nT ops w (conj G (conj R1 (conj R2 (conj R3 R4)))) with
         | conj _ (conj (conj A B) (conj C D)) => conj A (conj B (conj C D)) end).
Qed.
Print Assumptions C07_preserved_from_any_state.

(* Scrambling frame, every method, success or failure: no existing buffer is written, no
   other table object changes, and of the scrambled table only the bindings of the
   documented fields (ra | time, ra | time, ra, dec) change; its length is kept and no field
   is lost. *)
Theorem C07_scramble_frame : forall m t s,
  let s' := fst (scramble m t s) in
  (forall b, (b < length (sb s))%nat -> nth_error (sb s') b = nth_error (sb s) b) /\
  (length (sb s) <= length (sb s'))%nat /\
  (forall u, u <> t -> nth_error (st s') u = nth_error (st s) u) /\
  (forall x, nth_error (st s) t = Some x ->
     exists x', nth_error (st s') t = Some x' /\ tlen x' = tlen x /\
       (forall f, ~ In f (doc_fields m) -> lookup f (tf x') = lookup f (tf x)) /\
       (forall f, lookup f (tf x) <> None -> lookup f (tf x') <> None)).
Proof. exact scramble_frame. Qed.
Print Assumptions C07_scramble_frame.

Theorem C07_scramble_frame_columns : forall m t s x,
  nth_error (st s) t = Some x ->
  Forall (fun p => (snd p < length (sb s))%nat) (tf x) ->
  exists x', nth_error (st (fst (scramble m t s))) t = Some x' /\ tlen x' = tlen x /\
    forall f, ~ In f (doc_fields m) -> col (fst (scramble m t s)) t f = col s t f.
Proof. intros m t s x E Wf. exact (proj2 (scramble_frame_columns m t s x E Wf)). Qed.
Print Assumptions C07_scramble_frame_columns.

(* scramble_data(copy=True) - what the experimental-data background method does with exp *)
Theorem C07_scramble_copy_untouched : forall m t s,
  let r := scramble_data m t true s in
  ((forall b, (b < length (sb s))%nat -> nth_error (sb (fst r)) b = nth_error (sb s) b) /\
   (forall u, (u < length (st s))%nat -> nth_error (st (fst r)) u = nth_error (st s) u)) /\
  forall t', snd r = Ok t' -> (length (st s) <= t')%nat.
Proof. exact scramble_copy_untouched. Qed.
Print Assumptions C07_scramble_copy_untouched.

(* Uniform RA scrambling with narrowing to a type with 52-k mantissa bits: given one
   representable value inside [lo, hi), every written right ascension is inside [lo, hi) and
   representable; one value per event.  (Holds for ANY draws: the RNG contract is not needed
   after fix 746f4af.) *)
Theorem C07_uniform_ra_in_range : forall k lo hi g draws t s,
  0 <= k -> lo <= g * 2 ^ k < hi ->
  snd (scramble (ScrUniform k lo hi draws) t s) = Ok tt ->
  exists vals, col (fst (scramble (ScrUniform k lo hi draws) t s)) t F_RA = Some vals /\
    length vals = length draws /\
    forall v, In v vals -> lo <= v < hi /\ exists n, v = n * 2 ^ k.
Proof. exact uniform_ra_in_range. Qed.
Print Assumptions C07_uniform_ra_in_range.

(* Time based scrambling (I3TimeScramblingMethod, I3SeasonalVariationTimeScramblingMethod, TimeScramblingMethod):
   the column stored in `ra` is the result of the coordinate transform itself - no narrowing to the dtype of the
   old field after the wrap - so with the transform's range as premise (azi_to_ra_transform in [0, 2 pi): C19) every
   stored right ascension is inside the range, one per event. *)
Theorem C07_time_ra_in_range : forall m t s lo hi,
  snd (scramble m t s) = Ok tt ->
  match m with
  | ScrI3Time _ ras | ScrSeasonal _ ras | ScrTime _ ras _ =>
      (forall v, In v ras -> lo <= v < hi) ->
      exists vals, col (fst (scramble m t s)) t F_RA = Some vals /\ length vals = length ras /\
                   forall v, In v vals -> lo <= v < hi
  | _ => True
  end.
Proof. exact time_ra_in_range. Qed.
Print Assumptions C07_time_ra_in_range.

(* ---------------------------------------------------------------- allocation facts of the table model *)

(* get_selection allocates for EVERY index kind (single row, contiguous rows, empty, mask, negative): nothing that
   existed is touched and the result is a new object all of whose columns are new arrays.  The statement skeletons of
   get_selection / __getitem__ / copy / set_selection are pinned by kernels (storage_shapes_pinned). *)
Theorem C07_select_allocates : forall t sl s,
  ((forall b, (b < length (sb s))%nat -> nth_error (sb (fst (t_select t sl s))) b = nth_error (sb s) b) /\
   (forall u, (u < length (st s))%nat -> nth_error (st (fst (t_select t sl s))) u = nth_error (st s) u)) /\
  forall t', snd (t_select t sl s) = Ok t' ->
    (length (st s) <= t')%nat /\
    forall x, nth_error (st (fst (t_select t sl s))) t' = Some x ->
              Forall (fun p => (length (sb s) <= snd p)%nat) (tf x).
Proof. exact select_allocates. Qed.
Print Assumptions C07_select_allocates.

Theorem C07_copy_allocates : forall t keep s,
  ((forall b, (b < length (sb s))%nat -> nth_error (sb (fst (t_copy t keep s))) b = nth_error (sb s) b) /\
   (forall u, (u < length (st s))%nat -> nth_error (st (fst (t_copy t keep s))) u = nth_error (st s) u)) /\
  forall t', snd (t_copy t keep s) = Ok t' ->
    (length (st s) <= t')%nat /\
    forall x, nth_error (st (fst (t_copy t keep s))) t' = Some x ->
              Forall (fun p => (length (sb s) <= snd p)%nat) (tf x).
Proof. exact copy_allocates. Qed.
Print Assumptions C07_copy_allocates.

(* signal generation incl. the in-place (narrowing) write-back of the relocated ra / dec / sin_dec and the redraw:
   whatever is written is written into new arrays - mc and everything else that existed is untouched *)
Theorem C07_gen_signal_allocates : forall mc n fill gs s,
  ((forall b, (b < length (sb s))%nat -> nth_error (sb (fst (gen_signal mc n fill gs s))) b = nth_error (sb s) b) /\
   (forall u, (u < length (st s))%nat -> nth_error (st (fst (gen_signal mc n fill gs s))) u = nth_error (st s) u)) /\
  forall t', snd (gen_signal mc n fill gs s) = Ok t' ->
    (length (st s) <= t')%nat /\
    forall x, nth_error (st (fst (gen_signal mc n fill gs s))) t' = Some x ->
              Forall (fun p => (length (sb s) <= snd p)%nat) (tf x).
Proof. exact gen_signal_allocates. Qed.
Print Assumptions C07_gen_signal_allocates.

(* every background generation method (experimental data, MC sampling, composite MC sampling - each with any
   scrambler or none) and the signal generator: the generated table is a new object made of new arrays only *)
Theorem C07_generated_fresh : forall o w,
  snd (step o w) = Ok tt ->
  match o with
  | GenBkgFixed i _ | GenBkgMC i _ _ _ _ _ | GenBkgComp i _ _ _ _ _ _ =>
      (i < length (w_ev w))%nat ->
      exists t, getroot (w_ev (fst (step o w))) i = Some t /\
        (length (st (w_store w)) <= t)%nat /\
        forall x, nth_error (st (w_store (fst (step o w)))) t = Some x ->
                  Forall (fun p => (length (sb (w_store w)) <= snd p)%nat) (tf x)
  | GenSig i _ _ _ =>
      (i < length (w_sig w))%nat ->
      exists t, getroot (w_sig (fst (step o w))) i = Some t /\
        (length (st (w_store w)) <= t)%nat /\
        forall x, nth_error (st (w_store (fst (step o w)))) t = Some x ->
                  Forall (fun p => (length (sb (w_store w)) <= snd p)%nat) (tf x)
  | _ => True
  end.
Proof. exact generated_fresh. Qed.
Print Assumptions C07_generated_fresh.

(* the per-dataset cache of the MC sampling method is machine state (w_cache); in every state reachable by a history
   (the invariant below holds along every history, C07_preserved_from_any_state) the events generated by
   MCDataSamplingBkgGenMethod are a different object than the cache and share no array with it *)
Theorem C07_mc_generated_disjoint_from_cache : forall nB nT w i cfgf keepmc presel idx m,
  ((nB <= length (sb (w_store w)))%nat /\ (nT <= length (st (w_store w)))%nat /\
   (forall t x, (nT <= t)%nat -> nth_error (st (w_store w)) t = Some x ->
                Forall (fun p => (nB <= snd p)%nat) (tf x)) /\
   (forall t x, (nT <= t)%nat -> nth_error (st (w_store w)) t = Some x ->
                valid_fields (w_store w) (tf x) = true)) ->
  Forall (fun o => match o with Some t => (nT <= t)%nat | None => True end) (w_cache w) ->
  Forall (fun o => match o with Some t => (nT <= t)%nat | None => True end) (w_ev w) ->
  Forall (fun o => match o with Some t => (nT <= t)%nat | None => True end) (w_sig w) ->
  Forall (fun o => match o with Some t => (nT <= t)%nat | None => True end) (w_tdm w) ->
  (i < length (w_ev w))%nat ->
  snd (step (GenBkgMC i cfgf keepmc presel idx m) w) = Ok tt ->
  let w' := fst (step (GenBkgMC i cfgf keepmc presel idx m) w) in
  exists t c, getroot (w_ev w') i = Some t /\ getroot (w_cache w') i = Some c /\
    t <> c /\
    forall x y, nth_error (st (w_store w')) t = Some x -> nth_error (st (w_store w')) c = Some y ->
                forall p q, In p (tf x) -> In q (tf y) -> snd p <> snd q.
Proof.
  intros nB nT w i cfgf keepmc presel idx m G R1 R2 R3 R4.
  exact (mc_generated_disjoint_from_cache nB nT w i cfgf keepmc presel idx m (conj G (conj R1 (conj R2 (conj R3 R4))))).
Qed.
Print Assumptions C07_mc_generated_disjoint_from_cache.

(* "unblinding after any number of trials sees the original data": the copy that unblind hands to
   initialize_trial (and the copy the experimental-data background method scrambles) of a consistent table - every
   column exists and has the table's length - has exactly the value view of the source: field names in order, column
   contents (row order), length; together with C07_preserved_views (exp unchanged by any history) the unblinded
   trial starts from the original data *)
Theorem C07_copy_content : forall t s x,
  nth_error (st s) t = Some x ->
  (forall p, In p (tf x) -> exists v, nth_error (sb s) (snd p) = Some v /\ zlen v = tlen x) ->
  (tf x = [] -> tlen x = 0) ->
  exists t', snd (t_copy t None s) = Ok t' /\
             view (fst (t_copy t None s)) t' = view s t /\ (length (st s) <= t')%nat.
Proof. exact copy_content. Qed.
Print Assumptions C07_copy_content.

(* the statements of the generators that decide copy-vs-alias are the modelled ones (kernel pins) *)
Example C07_copy_statements_pinned :
  copy_statements_pinned = true /\ storage_shapes_pinned = true /\ helper_bodies_pinned = true.
Proof. repeat split; reflexivity. Qed.

(* merge / injection by append: afterwards every column of the events table is a new array, so the merged events
   alias neither the signal table, nor a cache, nor the data sets *)
Theorem C07_append_fresh_columns : forall t src s,
  snd (t_append t src s) = Ok tt ->
  forall x, nth_error (st (fst (t_append t src s))) t = Some x ->
            Forall (fun p => (length (sb s) <= snd p)%nat) (tf x).
Proof. exact append_fresh_columns. Qed.
Print Assumptions C07_append_fresh_columns.

(* non-vacuity: all index kinds succeed on a concrete table, an out-of-range index raises IndexError, and no array is
   shared between any two of the eight resulting tables and the source *)
Example C07_select_kinds_nonvacuous :
  storage_shapes_pinned = true /\
  fst (tops_obs [ex_exp ++ [(8%nat, [1; 2; 3])]; [(F_RA, [7]); (F_DEC, [8]); (F_TIME, [9]); (F_AZI, [1]); (F_ZEN, [1]); (7%nat, [0]); (8%nat, [5])]]
                [TSel 0 (SIdx [2]); TSel 0 (SIdx [1; 2]); TSel 0 (SIdx []); TSel 0 (SMask [true; true; true]);
                 TSel 0 (SIdx [-1]); TSel 0 (SIdx [0; 1; 2]); TCopy 0 None; TSet 0 (SIdx [0; 2]) 1; TSel 0 (SIdx [3])])
    = [Ok tt; Ok tt; Ok tt; Ok tt; Ok tt; Ok tt; Ok tt; Ok tt; Err IndexError] /\
  nodupb (map (fun e => snd e)
              (snd (snd (tops_obs [ex_exp ++ [(8%nat, [1; 2; 3])]; [(F_RA, [7]); (F_DEC, [8]); (F_TIME, [9]); (F_AZI, [1]); (F_ZEN, [1]); (7%nat, [0]); (8%nat, [5])]]
                [TSel 0 (SIdx [2]); TSel 0 (SIdx [1; 2]); TSel 0 (SIdx []); TSel 0 (SMask [true; true; true]);
                 TSel 0 (SIdx [-1]); TSel 0 (SIdx [0; 1; 2]); TCopy 0 None; TSet 0 (SIdx [0; 2]) 1; TSel 0 (SIdx [3])])))) = true.
Proof. vm_compute. repeat split. Qed.

(* the run masks the seasonal scrambling method computes from the stored time column *)
Theorem C07_seasonal_masks : forall runs times,
  seasonal_masks runs times =
  map (fun r => map (fun t => (fst r <=? t) && (t <? snd r)) times) runs.
Proof. exact seasonal_masks_spec. Qed.
Print Assumptions C07_seasonal_masks.

(* the two repaired defects, as witnesses against the code before the fixes *)
Theorem C07_narrowing_alone_refuted :
  exists x, 0 <= x < bits_2pi /\ bits_2pi <= rne 29 x.
Proof. exact narrowing_alone_leaves_range. Qed.
Print Assumptions C07_narrowing_alone_refuted.

Theorem C07_init_on_dataset_array_refuted :
  exists p,
    (Forall (fun o => o = None) (w_cache ex_w0) /\ Forall (fun o => o = None) (w_ev ex_w0) /\
     Forall (fun o => o = None) (w_sig ex_w0) /\ Forall (fun o => o = None) (w_tdm ex_w0)) /\
    view (w_store (fst (unblind_old 0 p ex_w0))) 0%nat <> view (w_store ex_w0) 0%nat.
Proof. exact init_on_dataset_array_alters. Qed.
Print Assumptions C07_init_on_dataset_array_refuted.

(* non-vacuity: a two-dataset world, a 25-step history using every operation, every
   scrambling method, selection, sort, aliasing data fields, redraw; all steps succeed, and
   the generated arrays really differ from exp *)
Example C07_nonvacuous :
  Forall (fun o => o = None) (w_cache ex_w0) /\ Forall (fun o => o = None) (w_ev ex_w0) /\
  Forall (fun o => o = None) (w_sig ex_w0) /\ Forall (fun o => o = None) (w_tdm ex_w0) /\
  snd (run ex_ops ex_w0) = repeat (Ok tt) 25 /\
  length (sb (w_store ex_w0)) = 30%nat /\ length (st (w_store ex_w0)) = 4%nat /\
  w_exp ex_w0 = [0%nat; 1%nat] /\ w_mc ex_w0 = [2%nat; 3%nat] /\
  view (w_store (fst (run ex_ops ex_w0))) 0%nat = view (w_store ex_w0) 0%nat /\
  col (w_store (fst (run (firstn 3 ex_ops) ex_w0))) 7%nat F_RA <> col (w_store ex_w0) 0%nat F_RA.
Proof. vm_compute. repeat split; repeat constructor; congruence. Qed.

Example C07_range_nonvacuous :
  0 <= 29 /\ 0 <= 1 * 2 ^ 29 < bits_2pi /\
  ura_value 29 0 bits_2pi (bits_2pi - 1) = 4618760255839404032 /\
  ura_value 29 0 bits_2pi 0 = 0.
Proof. vm_compute. repeat split; congruence. Qed.

(* ---------------------------------------------------------------- extension: DataField._calc_static_values *)

(* a source-event data field (is_srcevt_data) is never written into the trial events array: whatever the user function
   returned and whether or not the shape test against get_n_values() passes, no existing array is written, no other
   table changes, and every field of the events table keeps its binding and the table its length *)
Theorem C07_static_srcevt_leaves_events : forall t f r n s,
  let s' := fst (calc_static t f r true n s) in
  (forall b, (b < length (sb s))%nat -> nth_error (sb s') b = nth_error (sb s) b) /\
  (length (sb s) <= length (sb s'))%nat /\
  (forall u, u <> t -> nth_error (st s') u = nth_error (st s) u) /\
  (forall x, nth_error (st s) t = Some x ->
     exists x', nth_error (st s') t = Some x' /\ tlen x' = tlen x /\
       (forall g, ~ In g [] -> lookup g (tf x') = lookup g (tf x)) /\
       (forall g, lookup g (tf x) <> None -> lookup g (tf x') <> None)).
Proof. exact static_srcevt_leaves_events. Qed.
Print Assumptions C07_static_srcevt_leaves_events.

(* any other static data field: only the binding of the field `f` of the events table changes; on success with a new
   array the field holds exactly the returned values *)
Theorem C07_static_field_frame : forall t f r n s,
  (let s' := fst (calc_static t f r false n s) in
   (forall b, (b < length (sb s))%nat -> nth_error (sb s') b = nth_error (sb s) b) /\
   (length (sb s) <= length (sb s'))%nat /\
   (forall u, u <> t -> nth_error (st s') u = nth_error (st s) u) /\
   (forall x, nth_error (st s) t = Some x ->
      exists x', nth_error (st s') t = Some x' /\ tlen x' = tlen x /\
        (forall g, ~ In g [f] -> lookup g (tf x') = lookup g (tf x)) /\
        (forall g, lookup g (tf x) <> None -> lookup g (tf x') <> None))) /\
  forall v, r = RArr (FFresh v) -> snd (calc_static t f r false n s) = Ok tt ->
            col (fst (calc_static t f r false n s)) t f = Some v.
Proof. exact static_field_frame. Qed.
Print Assumptions C07_static_field_frame.

(* non-vacuity: on a 3-row table with 2 sources (n_values = 6) a source-event field of length 6 is accepted and leaves
   the table as it is, one of length 3 raises ValueError, a non-array TypeError; an event field of length 3 is written,
   one of length 4 raises ValueError, an aliasing field shares the array of `ra` *)
Example C07_static_nonvacuous :
  fst (static_obs ex_exp 21%nat (RArr (FFresh [1; 2; 3; 4; 5; 6])) true 6) = Ok tt /\
  snd (static_obs ex_exp 21%nat (RArr (FFresh [1; 2; 3; 4; 5; 6])) true 6) = snd (static_obs ex_exp 21%nat RNotArray true 6) /\
  fst (static_obs ex_exp 21%nat (RArr (FFresh [1; 2; 3])) true 6) = Err ValueError /\
  fst (static_obs ex_exp 21%nat RNotArray false 6) = Err TypeError /\
  fst (static_obs ex_exp 21%nat (RArr (FFresh [7; 8; 9])) false 6) = Ok tt /\
  fst (static_obs ex_exp 21%nat (RArr (FFresh [7; 8; 9; 9])) false 6) = Err ValueError /\
  fst (static_obs ex_exp 21%nat (RArr (FAlias F_RA)) false 6) = Ok tt.
Proof. vm_compute. repeat split. Qed.
