(* C11 — minimisers return an in-bounds optimum consistent with the objective;
   failure is signalled.  Statements only; every proof is `exact <lemma>`.
   `obj ns = (f, f', f'')` is the function handed to the Newton-Raphson
   minimiser (f = -log Lambda for LLHRatio.maximize); fst3/snd3/thd3 select
   its components.  Theorems over R carry the guard `f'' <> 0` wherever a
   Newton step is read as real division (IEEE 0/0 = NaN is treated by the
   number-system independent theorems C11_nan_step_raises / C11_nr_wrapper_status). *)
From Coq Require Import Reals ZArith List Bool Lia Lra QArith.
From Sky Require Import Result Num NumR G_minimize M_Minimize M_MinimizeX S_Minimize
  P_Minimize P_MinimizeWrap P_MinimizeScan.
Import ListNotations.
Open Scope R_scope.

(* ---- NR1dNsMinimizerImpl.minimize ---- *)

(* never runs out of steps silently; raises exactly when the initial value is below the lower bound *)
Theorem C11_nr_total : forall erfR obj tol lo hi max_steps init,
  (0 <= max_steps)%Z ->
  (init < lo -> nr1d (RNum erfR) obj tol lo hi max_steps init = Err ValueError) /\
  (lo <= init -> exists r, nr1d (RNum erfR) obj tol lo hi max_steps init = Ok r).
Proof. exact nr1d_total. Qed.
Print Assumptions C11_nr_total.

(* the reported ns lies within the bounds *)
Theorem C11_nr_bounds : forall erfR obj tol lo hi max_steps init r,
  (0 <= max_steps)%Z -> lo <= hi -> init <= hi ->
  (forall x, lo <= x <= hi -> thd3 (obj x) <> 0) ->
  nr1d (RNum erfR) obj tol lo hi max_steps init = Ok r ->
  lo <= r_x r <= hi.
Proof. exact thm_nr_bounds. Qed.
Print Assumptions C11_nr_bounds.

(* the reported minimum is the objective at the reported point (both exit paths) *)
Theorem C11_nr_fmin : forall erfR obj tol lo hi max_steps init r,
  (0 <= max_steps)%Z ->
  nr1d (RNum erfR) obj tol lo hi max_steps init = Ok r ->
  r_f r = fst3 (obj (r_x r)).
Proof. exact thm_nr_fmin. Qed.
Print Assumptions C11_nr_fmin.

(* status semantics *)
Theorem C11_nr_status : forall erfR obj tol lo hi max_steps init r,
  (0 <= max_steps)%Z -> lo < hi ->
  (forall x, lo <= x <= hi -> thd3 (obj x) <> 0) ->
  nr1d (RNum erfR) obj tol lo hi max_steps init = Ok r ->
  (0 <= r_niter r <= max_steps)%Z /\
  (r_flag r = (-2)%Z \/ r_flag r = (-1)%Z \/ r_flag r = 0%Z \/ r_flag r = 1%Z) /\
  (r_flag r = 1%Z <-> r_niter r = max_steps) /\
  (r_flag r = (-2)%Z ->
     r_x r = lo /\ r_step r = - snd3 (obj lo) / thd3 (obj lo) /\ r_step r < 0) /\
  (r_flag r = (-1)%Z ->
     r_x r = hi /\ r_step r = - snd3 (obj hi) / thd3 (obj hi) /\ 0 < r_step r) /\
  (r_flag r = 0%Z -> exists prev,
     r_step r = - snd3 (obj prev) / thd3 (obj prev) /\ Rabs (r_step r) <= tol /\
     Rabs (snd3 (obj prev)) <= 1 / 10 /\ r_x r = clipR lo hi (prev + r_step r)).
Proof. exact thm_nr_status. Qed.
Print Assumptions C11_nr_status.

(* convex objective (log Lambda concave): a forced exit at a bound is the
   minimiser of the objective on [lo, hi], and the slope there points outward *)
Theorem C11_concave_bound_exit : forall erfR obj tol lo hi max_steps init r,
  (0 <= max_steps)%Z -> lo < hi ->
  convex_fo (fun x => fst3 (obj x)) (fun x => snd3 (obj x)) ->
  nr1d (RNum erfR) obj tol lo hi max_steps init = Ok r ->
  (r_flag r = (-2)%Z -> 0 < thd3 (obj lo) ->
     argmin_on (fun x => fst3 (obj x)) lo hi (r_x r) /\ 0 < snd3 (obj lo)) /\
  (r_flag r = (-1)%Z -> 0 < thd3 (obj hi) ->
     argmin_on (fun x => fst3 (obj x)) lo hi (r_x r) /\ snd3 (obj hi) < 0).
Proof. exact thm_concave_bound_exit. Qed.
Print Assumptions C11_concave_bound_exit.

(* "never below the value at the initial point" in the form convexity gives *)
Theorem C11_not_below_initial : forall erfR obj tol lo hi max_steps init r,
  (0 <= max_steps)%Z ->
  convex_fo (fun x => fst3 (obj x)) (fun x => snd3 (obj x)) ->
  nr1d (RNum erfR) obj tol lo hi max_steps init = Ok r ->
  r_f r <= fst3 (obj init) + Rabs (snd3 (obj (r_x r))) * Rabs (init - r_x r).
Proof. exact thm_not_below_initial. Qed.
Print Assumptions C11_not_below_initial.

(* convergence exit (warnflag 0) of an m-strongly convex objective: within
   ns_tol + 0.1/m of the stationary point *)
Theorem C11_nr_near_stationary : forall erfR obj tol lo hi max_steps init r m xs,
  (0 <= max_steps)%Z -> 0 < m ->
  (forall x y, fst3 (obj x) + snd3 (obj x) * (y - x) + m / 2 * (y - x) * (y - x) <= fst3 (obj y)) ->
  lo <= xs <= hi -> snd3 (obj xs) = 0 ->
  nr1d (RNum erfR) obj tol lo hi max_steps init = Ok r -> r_flag r = 0%Z ->
  Rabs (r_x r - xs) <= tol + 1 / 10 / m.
Proof. exact thm_nr_near_stationary. Qed.
Print Assumptions C11_nr_near_stationary.

(* ---- NRNsScan2dMinimizerImpl.minimize ---- *)
Theorem C11_scan_best_of : forall erfR func tol max_steps bounds i0 rest p2s i1 x r,
  scan2d (RNum erfR) func tol max_steps bounds p2s (i0 :: i1 :: rest) = Ok (x, r) ->
  (exists p2 r0, In p2 p2s /\
     nr1d_vec (RNum erfR) func tol max_steps bounds (i0 :: p2 :: rest) = Ok (x, r0) /\
     r_x r = r_x r0 /\ r_f r = r_f r0 /\ r_flag r = r_flag r0 /\ r_step r = r_step r0) /\
  (forall q, In q p2s -> exists xr,
     nr1d_vec (RNum erfR) func tol max_steps bounds (i0 :: q :: rest) = Ok xr /\ r_f r <= r_f (snd xr)).
Proof. exact scan2d_spec. Qed.
Print Assumptions C11_scan_best_of.

(* ---- Minimizer.minimize around ANY implementation (any number system) ---- *)
Theorem C11_wrapper_result : forall (T : Type) (N : Num T) (St : Type)
    (impl : Z -> list T -> res (list T * T * St)) (conv rep : St -> bool)
    (reeval : list T -> res T) bounds uniform max_reps initials x f st reps,
  minimize N impl conv rep reeval bounds uniform max_reps initials = Ok (x, f, st, reps) ->
  conv st = true /\ (0 <= reps)%Z /\
  exists ini x0 f0,
    impl reps ini = Ok (x0, f0, st) /\ (reps = 0%Z -> ini = initials) /\
    ((x = x0 /\ f = f0 /\ clip_vec N x0 bounds = Ok (x0, false)) \/
     (clip_vec N x0 bounds = Ok (x, true) /\ reeval x = Ok f)).
Proof. intros T N St. exact (minimize_result N). Qed.
Print Assumptions C11_wrapper_result.

(* not converged after the repetitions => ValueError, never a result *)
Theorem C11_wrapper_failure_raises : forall (T : Type) (N : Num T) (St : Type)
    (impl : Z -> list T -> res (list T * T * St)) (conv rep : St -> bool)
    (reeval : list T -> res T) bounds uniform max_reps initials first cur reps,
  impl 0%Z initials = Ok first ->
  wr_loop N impl conv rep bounds uniform max_reps (Z.to_nat max_reps) wr_reps0 first = Ok (cur, reps) ->
  conv (snd cur) = false ->
  minimize N impl conv rep reeval bounds uniform max_reps initials = Err ValueError.
Proof. intros T N St. exact (minimize_not_converged_raises N). Qed.
Print Assumptions C11_wrapper_failure_raises.

(* the reported optimum is within the parameter bounds, for every implementation *)
Theorem C11_wrapper_in_bounds : forall erfR (St : Type)
    (impl : Z -> list R -> res (list R * R * St)) (conv rep : St -> bool)
    (reeval : list R -> res R) bounds uniform max_reps initials x f st reps,
  Forall (fun b => fst b <= snd b) bounds ->
  minimize (RNum erfR) impl conv rep reeval bounds uniform max_reps initials = Ok (x, f, st, reps) ->
  Forall2 (fun xi b => fst b <= xi <= snd b) x bounds.
Proof. intros erfR St. exact (minimize_in_bounds erfR). Qed.
Print Assumptions C11_wrapper_in_bounds.

(* NR behind the wrapper: a result is only returned with warnflag <= 0 (never
   "max_steps reached", never "NaN step"), after exactly one run *)
Theorem C11_nr_wrapper_status : forall (T : Type) (N : Num T) func tol max_steps max_reps
    bounds uniform initials x f st reps,
  minimize_nr N func tol max_steps max_reps bounds uniform initials = Ok (x, f, st, reps) ->
  (r_flag st <= 0)%Z /\ reps = 0%Z /\ f = r_f st /\
  nr1d_vec N func tol max_steps bounds initials = Ok (x, st).
Proof. intros T N. exact (minimize_nr_status N). Qed.
Print Assumptions C11_nr_wrapper_status.

(* a Newton step that is not a number (0/0 for a flat objective) at the initial
   point is signalled by ValueError in every number system *)
Theorem C11_nan_step_raises : forall (T : Type) (N : Num T) func tol max_steps max_reps lo hi bs
    uniform i0 rest f f1 f2,
  (0 < max_steps)%Z ->
  nr_init_bad N lo i0 = false ->
  nr_cond_num N tol (nr_step0 N tol) (nr_fprime0 N) = true ->
  func (i0 :: rest) = (f, f1, f2) ->
  nr_step_nan N (nr_step N f1 f2) = true ->
  minimize_nr N func tol max_steps max_reps ((lo, hi) :: bs) uniform (i0 :: rest) = Err ValueError.
Proof. intros T N. exact (minimize_nr_nan_raises N). Qed.
Print Assumptions C11_nan_step_raises.

(* ---- LLHRatio.maximize (Newton-Raphson path) ---- *)
Theorem C11_maximize_nr : forall erfR llh tol max_steps max_reps bounds uniform initials ll x st,
  (0 <= max_steps)%Z ->
  maximize_nr (RNum erfR) llh tol max_steps max_reps bounds uniform initials = Ok (ll, x, st) ->
  ll = fst3 (llh x) /\ (r_flag st <= 0)%Z /\
  exists lo hi bs i0 rest, bounds = (lo, hi) :: bs /\ initials = i0 :: rest /\ x = r_x st :: rest /\
                           lo <= i0 /\ (lo <= hi -> i0 <= hi -> lo <= r_x st <= hi).
Proof. exact maximize_nr_value. Qed.
Print Assumptions C11_maximize_nr.

(* the objective closures handed to the minimisers read everything from their argument v: the source parameter
   record array is created from v on every call (mk v) and that array, v and v[ns_pidx] are what evaluate and
   calculate_ns_grad2 receive — no value survives from an earlier call *)
Theorem C11_objective_closure : forall (mk : Z -> Z) (v nsidx vns : Z),
  mx_closure_eval_values v = v /\
  mx_closure_eval_recarray (mx_closure_recarray (mk v)) = mk v /\
  mx_closure_grad2_recarray (mx_closure_recarray (mk v)) = mk v /\
  mx_closure_grad2_ns nsidx vns = vns /\ mx_closure_grad2_ns_idx0 nsidx = nsidx /\
  mx_closure_gen_eval_values v = v /\
  mx_closure_gen_eval_recarray (mx_closure_gen_recarray (mk v)) = mk v.
Proof. exact K_mx_closure. Qed.
Print Assumptions C11_objective_closure.

(* ---- non-vacuity ---- *)
(* a strongly convex objective with non-vanishing second derivative meets the hypotheses *)
Example C11_hyps_satisfiable :
  let obj := fun x : R => ((x - 3) * (x - 3), 2 * (x - 3), 2) in
  convex_fo (fun x => fst3 (obj x)) (fun x => snd3 (obj x)) /\
  (forall x y, fst3 (obj x) + snd3 (obj x) * (y - x) + 2 / 2 * (y - x) * (y - x) <= fst3 (obj y)) /\
  (forall x, thd3 (obj x) <> 0) /\ snd3 (obj 3) = 0.
Proof.
  cbv beta iota zeta delta [convex_fo fst3 snd3 thd3 fst snd].
  split; [intros x y; pose proof (Rle_0_sqr (y - x)) as H; unfold Rsqr in H; nra|].
  split; [intros x y; pose proof (Rle_0_sqr (y - x)) as H; unfold Rsqr in H; nra|]. split; [intros x; lra|lra].
Qed.

(* executable witnesses in the number system with NaN (model/M_MinimizeX.v):
   flat objective (f' = f'' = 0): the premises of C11_nan_step_raises hold, NR
   flags 2 and keeps x, the wrapper raises; a quadratic converges; a minimum
   left of the lower bound is a forced exit with warnflag -2 *)
Example C11_nan_witness :
  let flat := fun _ : list xq => (xz 3, xz 0, xz 0) in
  nr_init_bad XNum (xz 0) (xz 1) = false /\
  nr_cond_num XNum (XFin (1 # 1000)) (nr_step0 XNum (XFin (1 # 1000))) (nr_fprime0 XNum) = true /\
  nr_step_nan XNum (nr_step XNum (xz 0) (xz 0)) = true /\
  (match nr1d_vec XNum flat (XFin (1 # 1000)) 100 [(xz 0, xz 10)] [xz 1] with
   | Ok (x, r) => (r_flag r, r_niter r, x) | Err _ => (0%Z, 0%Z, []) end) = (2%Z, 0%Z, [xz 1]) /\
  minimize_nr XNum flat (XFin (1 # 1000)) 100 100 [(xz 0, xz 10)] (fun _ => []) [xz 1] = Err ValueError.
Proof. cbv zeta. repeat split; vm_compute; reflexivity. Qed.

Example C11_run_witness :
  let quad := fun c : Z => fun x : list xq =>
     match x with
     | ns :: _ => (xq_mul (xq_add ns (xz (- c))) (xq_add ns (xz (- c))),
                   xq_mul (xz 2) (xq_add ns (xz (- c))), xz 2)
     | [] => (XNaN, XNaN, XNaN) end in
  (match minimize_nr XNum (quad 3%Z) (XFin (1 # 1000)) 100 100 [(xz 0, xz 10)] (fun _ => []) [xz 1] with
   | Ok (_, _, st, reps) => (r_flag st, r_niter st, reps) | Err _ => (9%Z, 9%Z, 9%Z) end) = (0%Z, 2%Z, 0%Z) /\
  (match minimize_nr XNum (quad (-1)%Z) (XFin (1 # 1000)) 100 100 [(xz 0, xz 10)] (fun _ => []) [xz 1] with
   | Ok (x, _, st, _) => (r_flag st, x) | Err _ => (9%Z, []) end) = ((-2)%Z, [xz 0]) /\
  minimize_nr XNum (quad 3%Z) (XFin (1 # 1000)) 0 100 [(xz 0, xz 10)] (fun _ => []) [xz 1] = Err ValueError.
Proof. cbv zeta. repeat split; vm_compute; reflexivity. Qed.
