(* C11 — minimisers return an in-bounds optimum consistent with the objective;
   failure is signalled.  Statements only; every proof is `exact <lemma>`.
   `obj ns = (f, f', f'')` is the function handed to the Newton-Raphson
   minimiser (f = -log Lambda for LLHRatio.maximize); fst3/snd3/thd3 select
   its components.  Theorems over R carry the guard `f'' <> 0` wherever a
   Newton step is read as real division (IEEE 0/0 = NaN is treated by the
   number-system independent theorems C11_nan_step_raises / C11_nr_wrapper_status). *)
From Coq Require Import Reals ZArith List Bool Lia Lra QArith.
From Coquelicot Require Coquelicot.
From Sky Require Import Result Num NumR G_minimize M_Minimize M_MinimizeX S_Minimize
  P_Minimize P_MinimizeWrap P_MinimizeScan P_MinimizeDeep P_MinimizeNaN P_MinimizeDom P_MinimizeMulti.
Import ListNotations.
Open Scope R_scope.

(* ---- NR1dNsMinimizerImpl.minimize ---- *)

(* never runs out of steps silently; raises exactly when the initial value is below the lower bound *)
Theorem C11_nr_total : forall erfR obj tol lo hi max_steps init,
  (0 <= max_steps)%Z ->
  (init < lo -> nr1d (RNum erfR) obj tol lo hi max_steps init = Err ValueError) /\
  (lo <= init -> exists r, nr1d (RNum erfR) obj tol lo hi max_steps init = Ok r).
Proof. exact nr1d_total. Qed.
Print Assumptions C11_nr_total.

(* the reported ns lies within the bounds *)
Theorem C11_nr_bounds : forall erfR obj tol lo hi max_steps init r,
  (0 <= max_steps)%Z -> lo <= hi -> init <= hi ->
  (forall x, lo <= x <= hi -> thd3 (obj x) <> 0) ->
  nr1d (RNum erfR) obj tol lo hi max_steps init = Ok r ->
  lo <= r_x r <= hi.
Proof. exact thm_nr_bounds. Qed.
Print Assumptions C11_nr_bounds.

(* the reported minimum is the objective at the reported point (both exit paths) *)
Theorem C11_nr_fmin : forall erfR obj tol lo hi max_steps init r,
  (0 <= max_steps)%Z ->
  nr1d (RNum erfR) obj tol lo hi max_steps init = Ok r ->
  r_f r = fst3 (obj (r_x r)).
Proof. exact thm_nr_fmin. Qed.
Print Assumptions C11_nr_fmin.

(* status semantics *)
Theorem C11_nr_status : forall erfR obj tol lo hi max_steps init r,
  (0 <= max_steps)%Z -> lo < hi ->
  (forall x, lo <= x <= hi -> thd3 (obj x) <> 0) ->
  nr1d (RNum erfR) obj tol lo hi max_steps init = Ok r ->
  (0 <= r_niter r <= max_steps)%Z /\
  (r_flag r = (-2)%Z \/ r_flag r = (-1)%Z \/ r_flag r = 0%Z \/ r_flag r = 1%Z) /\
  (r_flag r = 1%Z <-> r_niter r = max_steps) /\
  (r_flag r = (-2)%Z ->
     r_x r = lo /\ r_step r = - snd3 (obj lo) / thd3 (obj lo) /\ r_step r < 0) /\
  (r_flag r = (-1)%Z ->
     r_x r = hi /\ r_step r = - snd3 (obj hi) / thd3 (obj hi) /\ 0 < r_step r) /\
  (r_flag r = 0%Z -> exists prev,
     r_step r = - snd3 (obj prev) / thd3 (obj prev) /\ Rabs (r_step r) <= tol /\
     Rabs (snd3 (obj prev)) <= 1 / 10 /\ r_x r = clipR lo hi (prev + r_step r)).
Proof. exact thm_nr_status. Qed.
Print Assumptions C11_nr_status.

(* convex objective (log Lambda concave): a forced exit at a bound is the
   minimiser of the objective on [lo, hi], and the slope there points outward *)
Theorem C11_concave_bound_exit : forall erfR obj tol lo hi max_steps init r,
  (0 <= max_steps)%Z -> lo < hi ->
  convex_fo (fun x => fst3 (obj x)) (fun x => snd3 (obj x)) ->
  nr1d (RNum erfR) obj tol lo hi max_steps init = Ok r ->
  (r_flag r = (-2)%Z -> 0 < thd3 (obj lo) ->
     argmin_on (fun x => fst3 (obj x)) lo hi (r_x r) /\ 0 < snd3 (obj lo)) /\
  (r_flag r = (-1)%Z -> 0 < thd3 (obj hi) ->
     argmin_on (fun x => fst3 (obj x)) lo hi (r_x r) /\ snd3 (obj hi) < 0).
Proof. exact thm_concave_bound_exit. Qed.
Print Assumptions C11_concave_bound_exit.

(* "never below the value at the initial point" in the form convexity gives *)
Theorem C11_not_below_initial : forall erfR obj tol lo hi max_steps init r,
  (0 <= max_steps)%Z ->
  convex_fo (fun x => fst3 (obj x)) (fun x => snd3 (obj x)) ->
  nr1d (RNum erfR) obj tol lo hi max_steps init = Ok r ->
  r_f r <= fst3 (obj init) + Rabs (snd3 (obj (r_x r))) * Rabs (init - r_x r).
Proof. exact thm_not_below_initial. Qed.
Print Assumptions C11_not_below_initial.

(* convergence exit (warnflag 0) of an m-strongly convex objective: within
   ns_tol + 0.1/m of the stationary point *)
Theorem C11_nr_near_stationary : forall erfR obj tol lo hi max_steps init r m xs,
  (0 <= max_steps)%Z -> 0 < m ->
  (forall x y, fst3 (obj x) + snd3 (obj x) * (y - x) + m / 2 * (y - x) * (y - x) <= fst3 (obj y)) ->
  lo <= xs <= hi -> snd3 (obj xs) = 0 ->
  nr1d (RNum erfR) obj tol lo hi max_steps init = Ok r -> r_flag r = 0%Z ->
  Rabs (r_x r - xs) <= tol + 1 / 10 / m.
Proof. exact thm_nr_near_stationary. Qed.
Print Assumptions C11_nr_near_stationary.

(* ---- NRNsScan2dMinimizerImpl.minimize ---- *)
Theorem C11_scan_best_of : forall erfR func tol max_steps bounds i0 rest p2s i1 x r,
  scan2d (RNum erfR) func tol max_steps bounds p2s (i0 :: i1 :: rest) = Ok (x, r) ->
  (exists p2 r0, In p2 p2s /\
     nr1d_vec (RNum erfR) func tol max_steps bounds (i0 :: p2 :: rest) = Ok (x, r0) /\
     r_x r = r_x r0 /\ r_f r = r_f r0 /\ r_flag r = r_flag r0 /\ r_step r = r_step r0) /\
  (forall q, In q p2s -> exists xr,
     nr1d_vec (RNum erfR) func tol max_steps bounds (i0 :: q :: rest) = Ok xr /\ r_f r <= r_f (snd xr)).
Proof. exact scan2d_spec. Qed.
Print Assumptions C11_scan_best_of.

(* ---- Minimizer.minimize around ANY implementation (any number system) ---- *)
Theorem C11_wrapper_result : forall (T : Type) (N : Num T) (St : Type)
    (impl : Z -> list T -> res (list T * T * St)) (conv rep : St -> bool)
    (reeval : list T -> res T) bounds uniform max_reps initials x f st reps,
  minimize N impl conv rep reeval bounds uniform max_reps initials = Ok (x, f, st, reps) ->
  conv st = true /\ (0 <= reps)%Z /\
  exists ini x0 f0,
    impl reps ini = Ok (x0, f0, st) /\ (reps = 0%Z -> ini = initials) /\
    ((x = x0 /\ f = f0 /\ clip_vec N x0 bounds = Ok (x0, false)) \/
     (clip_vec N x0 bounds = Ok (x, true) /\ reeval x = Ok f)).
Proof. intros T N St. exact (minimize_result N). Qed.
Print Assumptions C11_wrapper_result.

(* not converged after the repetitions => ValueError, never a result *)
Theorem C11_wrapper_failure_raises : forall (T : Type) (N : Num T) (St : Type)
    (impl : Z -> list T -> res (list T * T * St)) (conv rep : St -> bool)
    (reeval : list T -> res T) bounds uniform max_reps initials first cur reps,
  impl 0%Z initials = Ok first ->
  wr_loop N impl conv rep bounds uniform max_reps (Z.to_nat max_reps) wr_reps0 first = Ok (cur, reps) ->
  conv (snd cur) = false ->
  minimize N impl conv rep reeval bounds uniform max_reps initials = Err ValueError.
Proof. intros T N St. exact (minimize_not_converged_raises N). Qed.
Print Assumptions C11_wrapper_failure_raises.

(* the reported optimum is within the parameter bounds, for every implementation *)
Theorem C11_wrapper_in_bounds : forall erfR (St : Type)
    (impl : Z -> list R -> res (list R * R * St)) (conv rep : St -> bool)
    (reeval : list R -> res R) bounds uniform max_reps initials x f st reps,
  Forall (fun b => fst b <= snd b) bounds ->
  minimize (RNum erfR) impl conv rep reeval bounds uniform max_reps initials = Ok (x, f, st, reps) ->
  Forall2 (fun xi b => fst b <= xi <= snd b) x bounds.
Proof. intros erfR St. exact (minimize_in_bounds erfR). Qed.
Print Assumptions C11_wrapper_in_bounds.

(* NR behind the wrapper: a result is only returned with warnflag <= 0 (never
   "max_steps reached", never "NaN step"), after exactly one run *)
Theorem C11_nr_wrapper_status : forall (T : Type) (N : Num T) func tol max_steps max_reps
    bounds uniform initials x f st reps,
  minimize_nr N func tol max_steps max_reps bounds uniform initials = Ok (x, f, st, reps) ->
  (r_flag st <= 0)%Z /\ reps = 0%Z /\ f = r_f st /\
  nr1d_vec N func tol max_steps bounds initials = Ok (x, st).
Proof. intros T N. exact (minimize_nr_status N). Qed.
Print Assumptions C11_nr_wrapper_status.

(* a Newton step that is not a number (0/0 for a flat objective) at the initial
   point is signalled by ValueError in every number system *)
Theorem C11_nan_step_raises : forall (T : Type) (N : Num T) func tol max_steps max_reps lo hi bs
    uniform i0 rest f f1 f2,
  (0 < max_steps)%Z ->
  nr_init_bad N lo i0 = false ->
  nr_cond_num N tol (nr_step0 N tol) (nr_fprime0 N) = true ->
  func (i0 :: rest) = (f, f1, f2) ->
  nr_step_nan N (nr_step N f1 f2) = true ->
  minimize_nr N func tol max_steps max_reps ((lo, hi) :: bs) uniform (i0 :: rest) = Err ValueError.
Proof. intros T N. exact (minimize_nr_nan_raises N). Qed.
Print Assumptions C11_nan_step_raises.

(* ---- LLHRatio.maximize (Newton-Raphson path) ---- *)
Theorem C11_maximize_nr : forall erfR ns_pidx llh tol max_steps max_reps bounds uniform initials ll x st,
  (0 <= max_steps)%Z ->
  maximize_nr (RNum erfR) ns_pidx llh tol max_steps max_reps bounds uniform initials = Ok (ll, x, st) ->
  ns_pidx = 0%Z /\ ll = fst3 (llh x) /\ (r_flag st <= 0)%Z /\
  exists lo hi bs i0 rest, bounds = (lo, hi) :: bs /\ initials = i0 :: rest /\ x = r_x st :: rest /\
                           lo <= i0 /\ (lo <= hi -> i0 <= hi -> lo <= r_x st <= hi).
Proof. exact maximize_nr_value. Qed.
Print Assumptions C11_maximize_nr.

(* the objective closures handed to the minimisers read everything from their argument v: the source parameter
   record array is created from v on every call (mk v) and that array, v and v[ns_pidx] are what evaluate and
   calculate_ns_grad2 receive — no value survives from an earlier call *)
Theorem C11_objective_closure : forall (mk : Z -> Z) (v nsidx vns : Z),
  mx_closure_eval_values v = v /\
  mx_closure_eval_recarray (mx_closure_recarray (mk v)) = mk v /\
  mx_closure_grad2_recarray (mx_closure_recarray (mk v)) = mk v /\
  mx_closure_grad2_ns nsidx vns = vns /\ mx_closure_grad2_ns_idx0 nsidx = nsidx /\
  mx_closure_gen_eval_values v = v /\
  mx_closure_gen_eval_recarray (mx_closure_gen_recarray (mk v)) = mk v.
Proof. exact K_mx_closure. Qed.
Print Assumptions C11_objective_closure.

(* ================= second layer ================= *)

(* converse of the -2 / -1 status clauses, at the level where it is true: whenever the loop tests its
   condition AT a bound with budget left and the Newton step there points outward, the exit is forced with
   that flag, that point, its value, and without a further step (the result-level converse is false:
   C11_status_converse_refuted) *)
Theorem C11_nr_forced_exit : forall erfR obj tol lo hi max_steps fuel niter st fp,
  nr_cond_num (RNum erfR) tol st fp = true -> (niter < max_steps)%Z ->
  (- snd3 (obj lo) / thd3 (obj lo) < 0 ->
   exists r, nr_loop (RNum erfR) obj tol lo hi (S fuel) max_steps niter lo st fp = Ok r /\
     r_flag r = (-2)%Z /\ r_x r = lo /\ r_f r = fst3 (obj lo) /\ r_niter r = niter /\
     r_step r = - snd3 (obj lo) / thd3 (obj lo) /\ r_trace r = [lo]) /\
  (lo <> hi -> 0 < - snd3 (obj hi) / thd3 (obj hi) ->
   exists r, nr_loop (RNum erfR) obj tol lo hi (S fuel) max_steps niter hi st fp = Ok r /\
     r_flag r = (-1)%Z /\ r_x r = hi /\ r_f r = fst3 (obj hi) /\ r_niter r = niter /\
     r_step r = - snd3 (obj hi) / thd3 (obj hi) /\ r_trace r = [hi]).
Proof. exact thm_nr_forced_exit. Qed.
Print Assumptions C11_nr_forced_exit.

(* initial value on a bound with the slope pointing outward: immediate forced exit, one evaluation *)
Theorem C11_nr_initial_on_bound : forall erfR obj tol lo hi max_steps,
  (0 < max_steps)%Z -> lo < hi ->
  (- snd3 (obj lo) / thd3 (obj lo) < 0 ->
     exists r, nr1d (RNum erfR) obj tol lo hi max_steps lo = Ok r /\ r_flag r = (-2)%Z /\ r_x r = lo /\
               r_f r = fst3 (obj lo) /\ r_niter r = 0%Z /\ r_trace r = [lo]) /\
  (0 < - snd3 (obj hi) / thd3 (obj hi) ->
     exists r, nr1d (RNum erfR) obj tol lo hi max_steps hi = Ok r /\ r_flag r = (-1)%Z /\ r_x r = hi /\
               r_f r = fst3 (obj hi) /\ r_niter r = 0%Z /\ r_trace r = [hi]).
Proof. exact nr1d_initial_on_bound. Qed.
Print Assumptions C11_nr_initial_on_bound.

(* the guard `init <= hi` of C11_nr_bounds is only needed for max_steps = 0 (C11_guard_witnesses) *)
Theorem C11_nr_bounds_any_init : forall erfR obj tol lo hi max_steps init r,
  (0 < max_steps)%Z -> lo <= hi ->
  nr1d (RNum erfR) obj tol lo hi max_steps init = Ok r -> lo <= r_x r <= hi.
Proof. exact nr1d_bounds_any_init. Qed.
Print Assumptions C11_nr_bounds_any_init.

(* NR + scan: x, f, flag, last step and trace all belong to ONE scan step — the first one attaining the
   smallest minimum; niter is the total over the scan *)
Theorem C11_scan_selected : forall erfR func tol max_steps bounds i0 rest p2s i1 x r,
  scan2d (RNum erfR) func tol max_steps bounds p2s (i0 :: i1 :: rest) = Ok (x, r) ->
  exists pre p2 post r0,
    p2s = pre ++ p2 :: post /\
    nr1d_vec (RNum erfR) func tol max_steps bounds (i0 :: p2 :: rest) = Ok (x, r0) /\
    r_x r = r_x r0 /\ r_f r = r_f r0 /\ r_flag r = r_flag r0 /\ r_step r = r_step r0 /\
    r_trace r = r_trace r0 /\
    r_niter r = fold_right (fun q acc =>
                  ((match nr1d_vec (RNum erfR) func tol max_steps bounds (i0 :: q :: rest) with
                    | Ok xr => r_niter (snd xr) | Err _ => 0 end) + acc)%Z) 0%Z p2s /\
    (forall q, In q pre -> exists xr,
       nr1d_vec (RNum erfR) func tol max_steps bounds (i0 :: q :: rest) = Ok xr /\ r_f r < r_f (snd xr)) /\
    (forall q, In q post -> exists xr,
       nr1d_vec (RNum erfR) func tol max_steps bounds (i0 :: q :: rest) = Ok xr /\ r_f r <= r_f (snd xr)).
Proof. exact thm_scan_selected. Qed.
Print Assumptions C11_scan_selected.

Theorem C11_scan_not_below_initial : forall erfR func tol max_steps lo hi bs i0 rest p2s i1 x r,
  (0 <= max_steps)%Z ->
  scan2d (RNum erfR) func tol max_steps ((lo, hi) :: bs) p2s (i0 :: i1 :: rest) = Ok (x, r) ->
  In i1 p2s ->
  convex_fo (fun ns => fst3 (func (ns :: i1 :: rest))) (fun ns => snd3 (func (ns :: i1 :: rest))) ->
  exists xi ri,
    nr1d_vec (RNum erfR) func tol max_steps ((lo, hi) :: bs) (i0 :: i1 :: rest) = Ok (xi :: i1 :: rest, ri) /\
    r_f r <= r_f ri /\
    r_f r <= fst3 (func (i0 :: i1 :: rest)) + Rabs (snd3 (func (xi :: i1 :: rest))) * Rabs (i0 - xi).
Proof. exact thm_scan_not_below_initial. Qed.
Print Assumptions C11_scan_not_below_initial.

(* NR + scan behind the wrapper (any number system) *)
Theorem C11_scan_wrapper_status : forall (T : Type) (N : Num T) func tol max_steps max_reps bounds p2s
    uniform initials x f st reps,
  minimize_scan N func tol max_steps max_reps bounds p2s uniform initials = Ok (x, f, st, reps) ->
  (r_flag st <= 0)%Z /\ reps = 0%Z /\ f = r_f st /\
  scan2d N func tol max_steps bounds p2s initials = Ok (x, st).
Proof. intros T N. exact (minimize_scan_status N). Qed.
Print Assumptions C11_scan_wrapper_status.

(* TCLLHRatio.maximize with NR + scan, end to end *)
Theorem C11_maximize_scan : forall erfR ns_pidx llh tol max_steps max_reps lo hi bs p2s uniform i0 i1 rest ll x st,
  (0 <= max_steps)%Z ->
  maximize_scan (RNum erfR) ns_pidx llh tol max_steps max_reps ((lo, hi) :: bs) p2s uniform (i0 :: i1 :: rest) = Ok (ll, x, st) ->
  ns_pidx = 0%Z /\ (r_flag st <= 0)%Z /\
  (exists p2, In p2 p2s /\ x = r_x st :: p2 :: rest /\ ll = fst3 (llh x) /\ lo <= i0 /\
              (lo <= hi -> i0 <= hi -> lo <= r_x st <= hi)) /\
  (forall q, In q p2s -> exists xq rq,
      nr1d_vec (RNum erfR) (neg_obj (RNum erfR) ns_pidx llh) tol max_steps ((lo, hi) :: bs) (i0 :: q :: rest)
        = Ok (xq :: q :: rest, rq) /\
      fst3 (llh (xq :: q :: rest)) <= ll) /\
  (In i1 p2s ->
   (forall a b, fst3 (llh (b :: i1 :: rest)) <=
                fst3 (llh (a :: i1 :: rest)) + snd3 (llh (a :: i1 :: rest)) * (b - a)) ->
   exists xi, fst3 (llh (i0 :: i1 :: rest)) - Rabs (snd3 (llh (xi :: i1 :: rest))) * Rabs (i0 - xi) <= ll).
Proof. exact maximize_scan_value. Qed.
Print Assumptions C11_maximize_scan.

(* wrapper: the returned point is exactly the componentwise projection of the converged run's point onto the
   bounds — lower and upper violations in the same vector, any length *)
Theorem C11_wrapper_clip_exact : forall erfR (St : Type)
    (impl : Z -> list R -> res (list R * R * St)) (conv rep : St -> bool)
    (reeval : list R -> res R) bounds uniform max_reps initials x f st reps,
  Forall (fun b => fst b <= snd b) bounds ->
  minimize (RNum erfR) impl conv rep reeval bounds uniform max_reps initials = Ok (x, f, st, reps) ->
  exists ini x0 f0,
    impl reps ini = Ok (x0, f0, st) /\ conv st = true /\
    x = map (fun p => clipR (fst (snd p)) (snd (snd p)) (fst p)) (combine x0 bounds) /\
    length x0 = length bounds /\
    ((Forall2 (fun xi b => fst b <= xi <= snd b) x0 bounds /\ x = x0 /\ f = f0) \/
     (Exists (fun p => fst p < fst (snd p) \/ snd (snd p) < fst p) (combine x0 bounds) /\ reeval x = Ok f)).
Proof. exact thm_wrapper_clip_exact. Qed.
Print Assumptions C11_wrapper_clip_exact.

(* oracle contract "reported value = objective at the reported point" (proved for NR: C11_nr_fmin) =>
   the wrapper's reported minimum is the objective at its reported point *)
Theorem C11_wrapper_fmin : forall erfR (St : Type)
    (impl : Z -> list R -> res (list R * R * St)) (conv rep : St -> bool)
    (reeval : list R -> res R) bounds uniform max_reps initials x f st reps,
  (forall k ini x0 f0 st0, impl k ini = Ok (x0, f0, st0) -> reeval x0 = Ok f0) ->
  minimize (RNum erfR) impl conv rep reeval bounds uniform max_reps initials = Ok (x, f, st, reps) ->
  reeval x = Ok f.
Proof. intros erfR St. exact (minimize_fmin_consistent erfR). Qed.
Print Assumptions C11_wrapper_fmin.

(* what the wrapper does with a value that compares neither below the lower nor above the upper bound (in IEEE
   arithmetic: NaN): it is handed through unchanged — the in-bounds guarantee needs an oracle that returns
   numbers (C11_wrapper_nan_refuted) *)
Theorem C11_wrapper_passthrough : forall (T : Type) (N : Num T) (St : Type)
    (impl : Z -> list T -> res (list T * T * St)) (conv rep : St -> bool)
    (reeval : list T -> res T) uniform max_reps i0 lo hi x0 f0 st,
  impl 0%Z [i0] = Ok ([x0], f0, st) -> conv st = true ->
  nltb N x0 lo = false -> nltb N hi x0 = false ->
  minimize N impl conv rep reeval [(lo, hi)] uniform max_reps [i0] = Ok ([x0], f0, st, 0%Z).
Proof. intros T N St. exact (minimize_passthrough N). Qed.
Print Assumptions C11_wrapper_passthrough.

(* the NR objective closure: all three components are functions of the argument v only *)
Theorem C11_closure_components : forall erfR (V Rc : Type) (mk : V -> Rc) (ev : V -> Rc -> R * (Z -> R))
    (g2 : R -> Z -> Rc -> R) (at_ : V -> Z -> R) (ns_pidx : Z) (v : V),
  closure_nr (RNum erfR) mk ev g2 at_ ns_pidx v =
    (- fst (ev v (mk v)), - snd (ev v (mk v)) ns_pidx, - g2 (at_ v ns_pidx) ns_pidx (mk v)).
Proof. intros erfR V Rc. exact (closure_nr_spec erfR). Qed.
Print Assumptions C11_closure_components.

(* the best scan step is stored as (xmin, fmin, status) of the same NR run and niter as the running total;
   calculate_ns_grad2 receives ns = fitparam_values[ns_pidx] and ns_pidx *)
Theorem C11_scan_store : forall x f st nt ns pidx : Z,
  scan_best_x x = x /\ scan_best_f f = f /\ scan_best_status st = st /\ scan_total_niter nt = nt /\
  mx_closure_grad2_kw_ns ns = ns /\ mx_closure_grad2_kw_pidx pidx = pidx.
Proof. exact K_scan_store. Qed.
Print Assumptions C11_scan_store.

(* ---- refuted statements and guard witnesses (executed in the number system with NaN) ---- *)
(* the result-level converse "x = lo and the Newton step at lo points outward => warnflag -2" is FALSE: a step
   shorter than ns_tol that is clipped onto the bound ends with warnflag 0 *)
Example C11_status_converse_refuted :
  exists obj tol lo hi max_steps init r,
    nr1d XNum obj tol lo hi max_steps init = Ok r /\ r_x r = lo /\
    xq_ltb (nr_step XNum (snd3 (obj lo)) (thd3 (obj lo))) (XFin 0) = true /\ r_flag r = 0%Z.
Proof.
  exists (fun x => (xq_mul (xq_add x (XFin (3 # 10000))) (xq_add x (XFin (3 # 10000))),
                    xq_mul (xz 2) (xq_add x (XFin (3 # 10000))), xz 2)),
         (XFin (1 # 1000)), (xz 0), (xz 10), 100%Z, (XFin (5 # 10000)).
  eexists. split; [vm_compute; reflexivity|]. repeat split; vm_compute; reflexivity.
Qed.

(* guards: lo < hi (with lo = hi warnflag -2 comes with a POSITIVE step); 0 <= max_steps (max_steps = -1 gives
   warnflag 0 without any iteration); init <= hi or 0 < max_steps (max_steps = 0 returns the out-of-bounds
   initial value from NR — with warnflag 1, so the wrapper raises); f'' = 0 is a meaningful IEEE path (a
   linear objective is driven to the bound by an infinite step) that the real-number theorems exclude *)
Example C11_guard_witnesses :
  let lin := fun s : Z => fun x : xq => (xq_mul (xz s) x, xz s, xz 2) in
  (match nr1d XNum (lin (-1)%Z) (XFin (1 # 1000)) (xz 0) (xz 0) 100 (xz 0) with
   | Ok r => (r_flag r, xq_ltb (XFin 0) (r_step r)) | Err _ => (9%Z, false) end) = ((-2)%Z, true) /\
  (match nr1d XNum (lin 1%Z) (XFin (1 # 1000)) (xz 0) (xz 10) (-1) (xz 5) with
   | Ok r => (r_flag r, r_niter r) | Err _ => (9%Z, 9%Z) end) = (0%Z, 0%Z) /\
  (match nr1d XNum (lin 1%Z) (XFin (1 # 1000)) (xz 0) (xz 10) 0 (xz 11) with
   | Ok r => (r_flag r, xq_ltb (xz 10) (r_x r)) | Err _ => (9%Z, false) end) = (1%Z, true) /\
  minimize_nr XNum (fun x => match x with ns :: _ => lin 1%Z ns | [] => (XNaN, XNaN, XNaN) end)
    (XFin (1 # 1000)) 0 100 [(xz 0, xz 10)] (fun _ => []) [xz 11] = Err ValueError /\
  (match nr1d XNum (fun x : xq => (x, xz 1, xz 0)) (XFin (1 # 1000)) (xz 0) (xz 10) 100 (xz 5) with
   | Ok r => (r_flag r, r_niter r, r_trace r) | Err _ => (9%Z, 9%Z, []) end) = ((-2)%Z, 1%Z, [xz 5; xz 0]).
Proof. cbv zeta. repeat split; vm_compute; reflexivity. Qed.

(* the wrapper clips lower and upper violations of the same vector componentwise; an oracle that claims
   convergence with a NaN point is handed through: the in-bounds guarantee fails for NaN *)
Example C11_wrapper_nan_refuted :
  clip_vec XNum [xz (-1); xz 5; XFin (1 # 2)] [(xz 0, xz 1); (xz 0, xz 1); (xz 0, xz 1)]
    = Ok ([xz 0; xz 1; XFin (1 # 2)], true) /\
  exists (impl : Z -> list xq -> res (list xq * xq * bool)) x f,
    minimize XNum impl (fun c => c) (fun _ => false) (fun _ => Err ValueError) [(xz 0, xz 1)] (fun _ => []) 3 [xz 0]
      = Ok (x, f, true, 0%Z) /\
    x = [XNaN] /\ xq_leb (xz 0) XNaN = false /\ xq_leb XNaN (xz 1) = false.
Proof.
  split; [vm_compute; reflexivity|].
  exists (fun _ _ => Ok ([XNaN], xz 7, true)), [XNaN], (xz 7). repeat split; vm_compute; reflexivity.
Qed.

(* ================= third layer (audit) ================= *)

(* a function value that is not a number is never a converged NR result, in every number system *)
Theorem C11_nr_nan_value_flagged : forall (T : Type) (N : Num T) func tol max_steps bounds initials x r,
  nr1d_vec N func tol max_steps bounds initials = Ok (x, r) ->
  nisnan N (r_f r) = true -> (0 < r_flag r)%Z.
Proof. intros T N. exact (nr1d_vec_nan N). Qed.
Print Assumptions C11_nr_nan_value_flagged.

Theorem C11_nr_wrapper_value_not_nan : forall (T : Type) (N : Num T) func tol max_steps max_reps bounds
    uniform initials x f st reps,
  minimize_nr N func tol max_steps max_reps bounds uniform initials = Ok (x, f, st, reps) ->
  nisnan N f = false.
Proof. intros T N. exact (minimize_nr_value_not_nan N). Qed.
Print Assumptions C11_nr_wrapper_value_not_nan.

(* NR + scan in every number system in which NaN compares false: the result is ONE scan step's result
   (x, f, flag, step, trace of the same run); its value is NaN only if every scan step's value is NaN, and then
   the flag is positive (not converged) *)
Theorem C11_scan_any_number_system : forall (T : Type) (N : Num T) func tol max_steps bounds i0 rest,
  (forall a b, nisnan N a = true -> nltb N a b = false) ->
  forall p2s i1 x r,
  scan2d N func tol max_steps bounds p2s (i0 :: i1 :: rest) = Ok (x, r) ->
  (exists p2 r0, In p2 p2s /\ nr1d_vec N func tol max_steps bounds (i0 :: p2 :: rest) = Ok (x, r0) /\
     r_x r = r_x r0 /\ r_f r = r_f r0 /\ r_flag r = r_flag r0 /\ r_step r = r_step r0 /\
     r_trace r = r_trace r0) /\
  (nisnan N (r_f r) = true ->
     (0 < r_flag r)%Z /\
     forall q, In q p2s -> exists xr,
       nr1d_vec N func tol max_steps bounds (i0 :: q :: rest) = Ok xr /\ nisnan N (r_f (snd xr)) = true).
Proof. intros T N. exact (scan2d_any_number_system N). Qed.
Print Assumptions C11_scan_any_number_system.

(* ns must be the first global floating parameter for the NR path: otherwise ValueError (NR varies x[0]) *)
Theorem C11_maximize_ns_first : forall (T : Type) (N : Num T) ns_pidx llh tol max_steps max_reps bounds p2s
    uniform initials,
  ns_pidx <> 0%Z ->
  maximize_nr N ns_pidx llh tol max_steps max_reps bounds uniform initials = Err ValueError /\
  maximize_scan N ns_pidx llh tol max_steps max_reps bounds p2s uniform initials = Err ValueError.
Proof. intros T N. exact (maximize_nr_ns_first N). Qed.
Print Assumptions C11_maximize_ns_first.

(* generic LLHRatio.maximize around any implementation oracle *)
Theorem C11_maximize_gen : forall (T : Type) (N : Num T) (St : Type)
    (impl : Z -> list T -> res (list T * T * St)) (conv rep : St -> bool)
    (llh : list T -> res T) bounds uniform max_reps initials ll x st,
  maximize_gen N impl conv rep llh bounds uniform max_reps initials = Ok (ll, x, st) ->
  conv st = true /\
  exists fmin reps,
    minimize N impl conv rep (fun x => do f <- llh x; Ok (mx_neg_f_gen N f)) bounds uniform max_reps initials
      = Ok (x, fmin, st, reps) /\ ll = mx_llmax_gen N fmin.
Proof. intros T N St. exact (maximize_gen_spec N). Qed.
Print Assumptions C11_maximize_gen.

(* which status field the oracle implementations' has_converged / is_repeatable read (identity kernels: the
   content is the translator's selector; scipy / iminuit / CRS: bool(status['success'])) *)
Theorem C11_oracle_status_reading : forall b w,
  (scipy_converged b = b /\ iminuit_converged b = b /\ crs_converged b = b /\
   scipy_repeatable = false /\ iminuit_repeatable = true /\ crs_repeatable = true) /\
  (lbfgs_converged w = true <-> w = 0%Z) /\ (lbfgs_rep_flag w = true <-> w = 2%Z).
Proof. exact thm_oracle_status_reading. Qed.
Print Assumptions C11_oracle_status_reading.

(* the convexity theorems with the hypothesis required only on the evaluated domain [lo,hi] ∪ {init}
   (a real -log Lambda is NaN for ns >= N and cannot be convex on all of R) *)
Theorem C11_concave_bound_exit_on : forall erfR obj tol lo hi init max_steps r,
  (0 <= max_steps)%Z -> lo < hi ->
  convex_on (nr_domain lo hi init) (fun x => fst3 (obj x)) (fun x => snd3 (obj x)) ->
  nr1d (RNum erfR) obj tol lo hi max_steps init = Ok r ->
  (r_flag r = (-2)%Z -> 0 < thd3 (obj lo) ->
     argmin_on (fun x => fst3 (obj x)) lo hi (r_x r) /\ 0 < snd3 (obj lo)) /\
  (r_flag r = (-1)%Z -> 0 < thd3 (obj hi) ->
     argmin_on (fun x => fst3 (obj x)) lo hi (r_x r) /\ snd3 (obj hi) < 0).
Proof. exact bound_exit_on. Qed.
Print Assumptions C11_concave_bound_exit_on.

Theorem C11_not_below_initial_on : forall erfR obj tol lo hi init max_steps r,
  (0 <= max_steps)%Z -> lo <= hi -> init <= hi ->
  convex_on (nr_domain lo hi init) (fun x => fst3 (obj x)) (fun x => snd3 (obj x)) ->
  nr1d (RNum erfR) obj tol lo hi max_steps init = Ok r ->
  r_f r <= fst3 (obj init) + Rabs (snd3 (obj (r_x r))) * Rabs (init - r_x r).
Proof. exact not_below_initial_on. Qed.
Print Assumptions C11_not_below_initial_on.

Theorem C11_nr_near_stationary_on : forall erfR obj tol lo hi init max_steps r m xs,
  (0 <= max_steps)%Z -> 0 < m ->
  (forall x y, nr_domain lo hi init x -> nr_domain lo hi init y ->
     fst3 (obj x) + snd3 (obj x) * (y - x) + m / 2 * (y - x) * (y - x) <= fst3 (obj y)) ->
  lo <= xs <= hi -> snd3 (obj xs) = 0 ->
  nr1d (RNum erfR) obj tol lo hi max_steps init = Ok r -> r_flag r = 0%Z ->
  Rabs (r_x r - xs) <= tol + 1 / 10 / m.
Proof. exact near_stationary_on. Qed.
Print Assumptions C11_nr_near_stationary_on.

(* executed in the number system with NaN: f = NaN with finite derivatives at the FIRST scan value — the scan
   returns the finite best of the later steps (warnflag 0); NR-1D on a NaN value alone: warnflag 2, the wrapper
   raises; the premise of C11_scan_any_number_system holds in that number system *)
Example C11_scan_nan_witness :
  let func := fun x : list xq =>
     match x with
     | ns :: g :: _ =>
         (if xq_eqb g (xz 0) then XNaN
          else xq_add (xq_mul (xq_add ns (xz (-3))) (xq_add ns (xz (-3)))) g,
          xq_mul (xz 2) (xq_add ns (xz (-3))), xz 2)
     | _ => (XNaN, XNaN, XNaN) end in
  (forall a b, nisnan XNum a = true -> nltb XNum a b = false) /\
  (match minimize_scan XNum func (XFin (1 # 1000)) 100 100 [(xz 0, xz 10); (xz 0, xz 1)]
           [xz 0; XFin (1 # 2); xz 1] (fun _ => []) [xz 1; xz 0] with
   | Ok (x, f, st, _) =>
       (match x with ns :: g :: _ => xq_eqb ns (xz 3) && xq_eqb g (XFin (1 # 2)) | _ => false end,
        xq_eqb f (XFin (1 # 2)), r_flag st)
   | Err _ => (false, false, 9%Z) end) = (true, true, 0%Z) /\
  (match nr1d_vec XNum func (XFin (1 # 1000)) 100 [(xz 0, xz 10); (xz 0, xz 1)] [xz 1; xz 0] with
   | Ok (_, r) => (nisnan XNum (r_f r), r_flag r) | Err _ => (false, 9%Z) end) = (true, 2%Z) /\
  minimize_nr XNum func (XFin (1 # 1000)) 100 100 [(xz 0, xz 10); (xz 0, xz 1)] (fun _ => []) [xz 1; xz 0]
    = Err ValueError.
Proof.
  cbv zeta. split.
  - intros a b Ha. destruct a; try discriminate. reflexivity.
  - repeat split; vm_compute; reflexivity.
Qed.

(* ================= round 4 ================= *)

(* MultiDatasetTCLLHRatio.calculate_ns_grad2 (callee of the NR objective closure): for a data set entering the
   composite log-likelihood ratio as L(ns * f) with L' = g and g' = h, the first derivative w.r.t. ns is
   f * g(ns f) and the term the code sums, h(ns f) * f^2, is ITS derivative — the f'' handed to Newton-Raphson
   is the derivative of the f' handed to it *)
Theorem C11_multi_ns_grad2 : forall erfR (L g h : R -> R) (f ns : R),
  (forall x, @Coquelicot.Derive.is_derive Coquelicot.Hierarchy.R_AbsRing Coquelicot.Hierarchy.R_NormedModule L x (g x)) -> (forall x, @Coquelicot.Derive.is_derive Coquelicot.Hierarchy.R_AbsRing Coquelicot.Hierarchy.R_NormedModule g x (h x)) ->
  @Coquelicot.Derive.is_derive Coquelicot.Hierarchy.R_AbsRing Coquelicot.Hierarchy.R_NormedModule (fun n => L (multi_nsf (RNum erfR) n f)) ns (f * g (multi_nsf (RNum erfR) ns f)) /\
  @Coquelicot.Derive.is_derive Coquelicot.Hierarchy.R_AbsRing Coquelicot.Hierarchy.R_NormedModule (fun n => f * g (multi_nsf (RNum erfR) n f)) ns
            (multi_ns_grad2_term (RNum erfR) (h (multi_nsf (RNum erfR) ns f)) f).
Proof. exact multi_ns_grad2_is_second_derivative. Qed.
Print Assumptions C11_multi_ns_grad2.

(* statement skeletons (fail-closed pins of the translator): the position of every check in
   NR1dNsMinimizerImpl.minimize (NaN-value check after the re-evaluation, outside `if not at_boundary`),
   NRNsScan2dMinimizerImpl.minimize (best_* stored inside the branch), Minimizer.minimize, calculate_ns_grad2 *)
Theorem C11_statement_skeletons :
  shape_nr1d_minimize = true /\ shape_scan_minimize = true /\ shape_wrapper_minimize = true /\
  shape_multi_ns_grad2 = true.
Proof. exact K_shapes. Qed.
Print Assumptions C11_statement_skeletons.

(* ---- non-vacuity ---- *)
(* a strongly convex objective with non-vanishing second derivative meets the hypotheses *)
Example C11_hyps_satisfiable :
  let obj := fun x : R => ((x - 3) * (x - 3), 2 * (x - 3), 2) in
  convex_fo (fun x => fst3 (obj x)) (fun x => snd3 (obj x)) /\
  (forall x y, fst3 (obj x) + snd3 (obj x) * (y - x) + 2 / 2 * (y - x) * (y - x) <= fst3 (obj y)) /\
  (forall x, thd3 (obj x) <> 0) /\ snd3 (obj 3) = 0.
Proof.
  cbv beta iota zeta delta [convex_fo fst3 snd3 thd3 fst snd].
  split; [intros x y; pose proof (Rle_0_sqr (y - x)) as H; unfold Rsqr in H; nra|].
  split; [intros x y; pose proof (Rle_0_sqr (y - x)) as H; unfold Rsqr in H; nra|]. split; [intros x; lra|lra].
Qed.

(* executable witnesses in the number system with NaN (model/M_MinimizeX.v):
   flat objective (f' = f'' = 0): the premises of C11_nan_step_raises hold, NR
   flags 2 and keeps x, the wrapper raises; a quadratic converges; a minimum
   left of the lower bound is a forced exit with warnflag -2 *)
Example C11_nan_witness :
  let flat := fun _ : list xq => (xz 3, xz 0, xz 0) in
  nr_init_bad XNum (xz 0) (xz 1) = false /\
  nr_cond_num XNum (XFin (1 # 1000)) (nr_step0 XNum (XFin (1 # 1000))) (nr_fprime0 XNum) = true /\
  nr_step_nan XNum (nr_step XNum (xz 0) (xz 0)) = true /\
  (match nr1d_vec XNum flat (XFin (1 # 1000)) 100 [(xz 0, xz 10)] [xz 1] with
   | Ok (x, r) => (r_flag r, r_niter r, x) | Err _ => (0%Z, 0%Z, []) end) = (2%Z, 0%Z, [xz 1]) /\
  minimize_nr XNum flat (XFin (1 # 1000)) 100 100 [(xz 0, xz 10)] (fun _ => []) [xz 1] = Err ValueError.
Proof. cbv zeta. repeat split; vm_compute; reflexivity. Qed.

Example C11_run_witness :
  let quad := fun c : Z => fun x : list xq =>
     match x with
     | ns :: _ => (xq_mul (xq_add ns (xz (- c))) (xq_add ns (xz (- c))),
                   xq_mul (xz 2) (xq_add ns (xz (- c))), xz 2)
     | [] => (XNaN, XNaN, XNaN) end in
  (match minimize_nr XNum (quad 3%Z) (XFin (1 # 1000)) 100 100 [(xz 0, xz 10)] (fun _ => []) [xz 1] with
   | Ok (_, _, st, reps) => (r_flag st, r_niter st, reps) | Err _ => (9%Z, 9%Z, 9%Z) end) = (0%Z, 2%Z, 0%Z) /\
  (match minimize_nr XNum (quad (-1)%Z) (XFin (1 # 1000)) 100 100 [(xz 0, xz 10)] (fun _ => []) [xz 1] with
   | Ok (x, _, st, _) => (r_flag st, x) | Err _ => (9%Z, []) end) = ((-2)%Z, [xz 0]) /\
  minimize_nr XNum (quad 3%Z) (XFin (1 # 1000)) 0 100 [(xz 0, xz 10)] (fun _ => []) [xz 1] = Err ValueError.
Proof. cbv zeta. repeat split; vm_compute; reflexivity. Qed.
