(* C18 — Signal injection conserves counts and produces only valid, relocated
   events.  Statements only; every proof is `exact <lemma>`. *)
From Coq Require Import Reals ZArith List Bool Lia.
From Sky Require Import Num NumR Result PyList G_inject M_Inject S_Inject P_Inject P_InjectR P_InjectMC P_InjectExt M_InjectCfg P_InjectCfg.
Import ListNotations.
Open Scope Z_scope.

(* ---- per-dataset counts (MultiDatasetSignalGenerator.generate_signal_events,
   code after fix 7c8d32b).  For every oracle meeting the choice contract,
   every total >= 0 and every normalised non-negative weight vector a_j/D: the
   call succeeds, the counts add up to the total, are non-negative, zero-weight
   datasets receive none, one count per dataset. *)
Theorem C18_counts : forall (rng : Type) (choice : rng -> list Z -> nat -> list nat * rng),
  choice_contract choice ->
  forall g mean D ws,
  0 <= mean -> 0 < D -> Forall (fun x => 0 <= x) ws -> zsum ws = D ->
  exists c g', ds_counts rng choice g mean D ws = Ok (c, g')
    /\ zsum c = mean /\ nonneg c /\ zero_stays_zero ws c /\ length c = length ws.
Proof. exact ds_counts_spec. Qed.
Print Assumptions C18_counts.

(* the sum needs no hypothesis on total or weights: whatever the rounding gave
   and whichever indices were drawn, a successful call returns the total *)
Theorem C18_sum : forall (rng : Type) (choice : rng -> list Z -> nat -> list nat * rng),
  choice_contract choice ->
  forall g mean D ws c g',
  ds_counts rng choice g mean D ws = Ok (c, g') -> zsum c = mean.
Proof. exact ds_counts_sum. Qed.
Print Assumptions C18_sum.

(* the rounding line of the source is round-half-even of (mean*a)/D *)
Theorem C18_round_kernel : forall (erf : R -> R) mean a q,
  0 < q -> cnt_round (RNum erf) (IZR mean) (IZR a / IZR q)%R = IZR (rhe (mean * a) q).
Proof. exact K_cnt_round. Qed.
Print Assumptions C18_round_kernel.

(* the defect repaired by 7c8d32b, on the code as it was: total 5, weights
   (.08,.31,.31,.30), the one correction draw hits dataset 0 *)
Theorem C18_nonneg_prefix_refuted :
  exists (g : list (list nat)) mean D ws c g',
    0 <= mean /\ 0 < D /\ Forall (fun x => 0 <= x) ws /\ zsum ws = D
    /\ (forall d, In d (fst (stream_choice g ws 1%nat)) -> 0 < nth d ws 0)
    /\ ds_counts_prefix _ stream_choice g mean D ws = Ok (c, g') /\ ~ nonneg c.
Proof. exact prefix_refuted. Qed.
Print Assumptions C18_nonneg_prefix_refuted.

(* ---- events (MCMultiDatasetSignalGenerator.generate_signal_events) *)
(* every candidate of the table points at an MC event inside the declination
   band of its source and inside the energy range; its weight is the product
   mcweight * flux * source weight * live-time *)
Theorem C18_candidates : forall shgs dss tbl c,
  construct shgs dss = Ok tbl -> In c tbl -> cand_sound shgs dss c.
Proof. exact construct_sound. Qed.
Print Assumptions C18_candidates.

(* reported n = requested n = number of events returned (OutOfFuel excluded:
   the statement is about successful runs), every dataset key is distinct *)
Theorem C18_count : forall (rng : Type) (choice : rng -> list Z -> nat -> list nat * rng)
  (post : Z -> Z -> Z -> Z -> list Z),
  choice_contract choice ->
  forall fuel g tbl dss n_signal n out g',
  0 <= n_signal ->
  generate rng choice post fuel g tbl dss n_signal = Ok (n, out, g') ->
  n = n_signal
  /\ zsum (map (fun kv => zlen (snd kv)) out) = n
  /\ NoDup (map fst out).
Proof. exact generate_count_thm. Qed.
Print Assumptions C18_count.

(* (weights non-negative and not all zero: otherwise the normalised weights are
   NaN in the code and the choice contract says nothing; positive weight
   denominators = half bandwidths, which every constructed table has: the
   sampler's probabilities are c_wn * (lcm of the denominators / c_wd))
   every returned event is the relocated image of a candidate of its own
   dataset that has positive weight (zero-weight sources / datasets / MC events
   are never injected) and satisfies all validity ranges of that dataset *)
Theorem C18_valid : forall (rng : Type) (choice : rng -> list Z -> nat -> list nat * rng)
  (post : Z -> Z -> Z -> Z -> list Z),
  choice_contract choice ->
  forall fuel g tbl dss n_signal n out g',
  Forall (fun c => 0 <= c_wn c) tbl -> Exists (fun c => 0 < c_wn c) tbl -> Forall (fun c => 0 < c_wd c) tbl ->
  generate rng choice post fuel g tbl dss n_signal = Ok (n, out, g') ->
  forall ds evs ev, In (ds, evs) out -> In ev evs ->
  exists d c, py_get dss ds = Ok d /\ In c tbl /\ c_ds c = ds /\ 0 < c_wn c
    /\ ev = post (c_ds c) (c_shg c) (c_src c) (c_ev c)
    /\ in_ranges (d_rng d) ev.
Proof. exact generate_valid. Qed.
Print Assumptions C18_valid.

(* the redraw fills exactly the invalid slots: valid first draws are kept in
   place, every invalid one is replaced *)
Theorem C18_fill : forall (A : Type) (l : list A) (m : list bool) (b r : list A),
  fill_mask l m b = Ok r ->
  length r = length l /\ length l = length m /\ zlen b = count_true m
  /\ (forall i, nth_error m i = Some false -> nth_error r i = nth_error l i)
  /\ mask_select r m = b.
Proof. exact (@fill_mask_spec). Qed.
Print Assumptions C18_fill.

(* ---- the declination band (real-number reading of the source formulas) *)
Theorem C18_shift : forall (erf : R -> R) (x w L U : R),
  (L < U -> L <= x <= U -> 0 <= 2 * w <= U - L ->
   L <= band_lo erf x w L U /\ band_hi erf x w L U <= U
   /\ band_hi erf x w L U - band_lo erf x w L U = 2 * w)%R.
Proof. exact band_inside. Qed.
Print Assumptions C18_shift.

(* the event mask of the source on scaled-integer inputs is the model's test *)
Theorem C18_band_kernel : forall (erf : R -> R) x w L U sd,
  L < U ->
  band_mask (RNum erf) (IZR sd) (band_lo erf (IZR x) (IZR w) (IZR L) (IZR U))
            (band_hi erf (IZR x) (IZR w) (IZR L) (IZR U))
  = in_band x w L U sd.
Proof. exact K_band_mask. Qed.
Print Assumptions C18_band_kernel.

(* ---- mu2flux is linear and additive in mu (per source and in total) *)
Theorem C18_linear : forall (erf : R -> R) (c mu refN : R) (groups : list (R * R * list R)),
  mu2flux_list erf (c * mu) refN groups = map (Rmult c) (mu2flux_list erf mu refN groups)
  /\ mu2flux_total erf (c * mu) refN groups = (c * mu2flux_total erf mu refN groups)%R.
Proof. exact mu2flux_linear. Qed.
Print Assumptions C18_linear.

Theorem C18_additive : forall (erf : R -> R) (a b refN : R) (groups : list (R * R * list R)),
  mu2flux_total erf (a + b) refN groups
  = (mu2flux_total erf a refN groups + mu2flux_total erf b refN groups)%R.
Proof. exact mu2flux_additive. Qed.
Print Assumptions C18_additive.

(* the source relocates the drawn events first and masks the relocated events,
   in the redraw loop and in generate_signal_events (statement order read off
   the source; the model's redraw / gen_group do the same) — seeded C18-1 *)
Theorem C18_order_kernel : redraw_relocate_before_mask = true /\ gen_relocate_before_mask = true.
Proof. exact K_relocate_before_mask. Qed.
Print Assumptions C18_order_kernel.

(* ==== deepening: the path a user calls, as a whole ==== *)

(* per-dataset counts: the keys of the result are exactly the datasets of the
   first draw, and each dataset returns as many events as the first draw gave
   it (the redraw keeps dataset and group) *)
Theorem C18_per_dataset : forall (rng : Type) (choice : rng -> list Z -> nat -> list nat * rng)
  (post : Z -> Z -> Z -> Z -> list Z),
  choice_contract choice ->
  forall fuel g tbl dss n_signal n out g',
  generate rng choice post fuel g tbl dss n_signal = Ok (n, out, g') ->
  exists meta,
    lookup tbl (fst (choice g (samp_w tbl) (Z.to_nat n_signal))) = Ok meta
    /\ map fst out = zuniq (map c_ds meta)
    /\ (forall ds evs, In (ds, evs) out -> zlen evs = zlen (filter (fun c => c_ds c =? ds) meta)).
Proof. exact generate_per_dataset_thm. Qed.
Print Assumptions C18_per_dataset.

(* source batches of calc_source_signal_mc_event_flux: any batch size > 0
   gives the unbatched table (seeded C18-3) *)
Theorem C18_batched : forall bs hi h di d,
  0 < bs -> cands_for_b bs hi h di d = cands_for hi h di d.
Proof. exact cands_for_b_eq. Qed.
Print Assumptions C18_batched.

(* the relocation loop of signal_event_post_sampling_processing, with the
   rotation as the uninterpreted [rot]: every event is relocated exactly once,
   to the source named by its own meta entry, i.e. the source of its candidate
   (seeded C18-6) *)
Theorem C18_relocation : forall (S E : Type) (rot : S -> E -> E) (srcs : list S) (meta : list Z) (evs r : list E),
  post_process S E rot srcs meta evs = Ok r ->
  length meta = length evs /\ length r = length evs
  /\ forall i m e, nth_error meta i = Some m -> nth_error evs i = Some e ->
       exists s, py_get srcs m = Ok s /\ nth_error r i = Some (rot s e).
Proof. exact post_process_spec. Qed.
Print Assumptions C18_relocation.

(* the generator object under change_shg_mgr / generate histories: table and
   sampler are rebuilt together, so after every successful history the table is
   the one of the current sources and the sampler holds exactly its weights *)
Theorem C18_machine_invariant : forall (rng : Type) (choice : rng -> list Z -> nat -> list nat * rng)
  (post : Z -> Z -> Z -> Z -> list Z) (pois : rng -> Z -> Z * rng) fuel ops st g st' g' outs,
  (construct (g_shgs st) (g_dss st) = Ok (g_tbl st) /\ g_p st = samp_w (g_tbl st)) ->
  mc_run rng choice post pois fuel st g ops = Ok (st', g', outs) ->
  (construct (g_shgs st') (g_dss st') = Ok (g_tbl st') /\ g_p st' = samp_w (g_tbl st'))
  /\ g_dss st' = g_dss st.
Proof. exact mc_run_ok. Qed.
Print Assumptions C18_machine_invariant.

(* a zero factor gives a zero weight: a candidate of non-zero weight has a
   non-zero mcweight, live-time, flux and (when source weights are given) a
   non-zero source weight *)
Theorem C18_zero_weight_factors : forall shgs dss c,
  cand_sound shgs dss c -> c_wn c <> 0 -> cand_factors_nonzero shgs dss c.
Proof. exact cand_factors. Qed.
Print Assumptions C18_zero_weight_factors.

(* END TO END, MCMultiDatasetSignalGenerator: after any successful history of
   change_shg_mgr / generate_signal_events calls, a generate call (poisson or
   not; the Poisson draw is an oracle returning a non-negative integer) on
   non-negative inputs reports n = the requested / drawn total = the number of
   events returned; every event is the relocated image of a candidate of the
   CURRENT table that lies in the band and energy range of its source, has
   non-zero mcweight / live-time / source weight, and satisfies the validity
   ranges of its dataset *)
Theorem C18_end_to_end : forall (rng : Type) (choice : rng -> list Z -> nat -> list nat * rng)
  (post : Z -> Z -> Z -> Z -> list Z) (pois : rng -> Z -> Z * rng),
  choice_contract choice ->
  forall fuel shgs dss st0 g0 ops st g outs poisson mean st' g' n out,
  (forall g m, 0 <= fst (pois g m)) ->
  mc_init shgs dss = Ok st0 ->
  mc_run rng choice post pois fuel st0 g0 ops = Ok (st, g, outs) ->
  mc_step rng choice post pois fuel st g (OpGenerate poisson mean) = Ok (st', g', Some (n, out)) ->
  (poisson = false -> 0 <= mean) ->
  inputs_nonneg (g_shgs st) dss -> Exists (fun c => 0 < c_wn c) (g_tbl st) ->
  st' = st /\ g_dss st = dss /\ construct (g_shgs st) dss = Ok (g_tbl st)
  /\ n = (if poisson then fst (pois g mean) else mean)
  /\ zsum (map (fun kv => zlen (snd kv)) out) = n
  /\ NoDup (map fst out)
  /\ forall ds evs ev, In (ds, evs) out -> In ev evs ->
       exists d c, py_get dss ds = Ok d /\ In c (g_tbl st) /\ c_ds c = ds /\ 0 < c_wn c
         /\ cand_sound (g_shgs st) dss c /\ cand_factors_nonzero (g_shgs st) dss c
         /\ ev = post (c_ds c) (c_shg c) (c_src c) (c_ev c)
         /\ in_ranges (d_rng d) ev.
Proof. exact mc_end_to_end. Qed.
Print Assumptions C18_end_to_end.

(* the invariant is needed (seeded C18-5): a sampler left over from another
   table makes a contract-abiding oracle return a zero-weight candidate *)
Theorem C18_stale_sampler_refuted :
  let tbl := [ {| c_ds := 0; c_ev := 0; c_shg := 0; c_src := 0; c_wn := 0; c_wd := 1 |};
               {| c_ds := 0; c_ev := 1; c_shg := 0; c_src := 1; c_wn := 5; c_wd := 1 |} ] in
  let dss := [ {| d_mc := []; d_lt := 1; d_rng := [] |} ] in
  let stale := [3; 0] in
  (forall d, In d (fst (stream_choice [[0%nat]] stale 1%nat)) -> 0 < nth d stale 0)
  /\ generate_p _ stream_choice (fun ds shg src ev => [src]) 3 [[0%nat]] stale tbl dss 1
     = Ok (1, [(0, [[0]])], []).
Proof. exact stale_sampler_refuted. Qed.
Print Assumptions C18_stale_sampler_refuted.

(* END TO END, MultiDatasetSignalGenerator (rounding + correction + the loop over
   the per-dataset generators + the dict merge, poisson or not): for per-dataset
   generators that report and return what they are asked for, the reported n is
   the requested / drawn total and equals the number of events in the merged
   dictionary, whose keys are distinct *)
Theorem C18_multi : forall (rng : Type) (choice : rng -> list Z -> nat -> list nat * rng)
  (pois : rng -> Z -> Z * rng) (E : Type) (subgen : nat -> rng -> Z -> res (Z * list (Z * list E) * rng)),
  choice_contract choice -> subgen_contract subgen ->
  forall poisson g mean D ws n d g',
  (forall g m, 0 <= fst (pois g m)) -> (poisson = false -> 0 <= mean) ->
  0 < D -> Forall (fun x => 0 <= x) ws -> zsum ws = D ->
  md_generate rng choice pois E subgen poisson g mean D ws = Ok (n, d, g') ->
  n = (if poisson then fst (pois g mean) else mean)
  /\ dict_total d = n /\ NoDup (map fst d).
Proof. exact md_generate_spec. Qed.
Print Assumptions C18_multi.

(* ... and the MC generator is such a per-dataset generator *)
Theorem C18_subgen_mc : forall (rng : Type) (choice : rng -> list Z -> nat -> list nat * rng)
  (post : Z -> Z -> Z -> Z -> list Z) (fuel : nat) (tbls : nat -> list cand) (dsss : nat -> list dsT),
  choice_contract choice ->
  subgen_contract (fun j g c => generate rng choice post fuel g (tbls j) (dsss j) c).
Proof. exact mc_subgen_contract. Qed.
Print Assumptions C18_subgen_mc.

(* ==== audit follow-up ==== *)

(* an oracle that MEETS the choice contract and with which redraws terminate:
   cyclic over the indices of non-zero probability *)
Theorem C18_oracle_cyclic : choice_contract cyc_choice.
Proof. exact cyc_choice_contract. Qed.
Print Assumptions C18_oracle_cyclic.

(* Analysis.generate_signal_events (the site a user calls): with a signal
   generator that reports and returns what it is asked for (C18_end_to_end /
   C18_multi), the reported n_sig is exactly the number of events added to the
   per-dataset event lists and to the per-dataset counters; nothing else moves *)
Theorem C18_analysis : forall (rng E : Type) (gen : rng -> Z -> res (Z * list (Z * list E) * rng))
  nds g mean ns evs n ns' evs' g',
  (forall g m n d g1, gen g m = Ok (n, d, g1) -> dict_total d = n /\ Forall (fun kv => 0 <= fst kv) d) ->
  an_generate rng E gen nds g mean ns evs = Ok (n, ns', evs', g') ->
  zsum ns' = zsum ns + n /\ ev_total E evs' = ev_total E evs + n
  /\ length ns' = length ns /\ length evs' = length evs /\ zlen ns = nds /\ zlen evs = nds.
Proof. exact an_generate_spec. Qed.
Print Assumptions C18_analysis.

(* MultiDatasetSignalGenerator.change_shg_mgr: every per-dataset generator is
   rebuilt for the new sources on its own data *)
Theorem C18_multi_change : forall sts shgs sts',
  md_change sts shgs = Ok sts' ->
  Forall2 (fun o o' => match o, o' with
                       | None, None => True
                       | Some st, Some st' => mc_ok st' /\ g_shgs st' = shgs /\ g_dss st' = g_dss st
                       | _, _ => False
                       end) sts sts'.
Proof. exact md_change_ok. Qed.
Print Assumptions C18_multi_change.

(* statement skeleton facts read off the source: the validity mask is called on
   the variable assigned from the relocation call (redraw loop and first pass);
   change_shg_mgr has one loop with one call on the per-dataset generators *)
Theorem C18_data_flow_kernels : forall e v,
  (redraw_relocated v = v /\ redraw_mask_arg e = e /\ gen_relocated v = v /\ gen_mask_arg e = e)
  /\ (md_change_calls = 1 /\ md_change_loops = 1).
Proof. intros e v. exact (conj (K_mask_data_flow e v) K_md_change). Qed.
Print Assumptions C18_data_flow_kernels.

(* the candidate weight exactly as the source lines compute it, on the model's
   integer fields, is c_wn / c_wd times one positive constant; and the model's
   sampler vector is (c_wn / c_wd) * W for one positive W: the sampler's
   probabilities are proportional to the source's weights *)
Theorem C18_weight_kernel : forall (erf : R -> R) (mw fx sw lt hw : Z) (lo hi u tf : R),
  (hi - lo = 2 * IZR hw)%R -> IZR hw <> 0%R ->
  cand_weight (RNum erf) (cand_flux_srcw (RNum erf) (cand_flux (RNum erf) u (IZR fx) (band_omega (RNum erf) hi lo)) (IZR sw))
              (IZR lt) tf (IZR mw)
  = (IZR (mw * fx * sw * lt) / IZR hw * (u * tf / (4 * PI)))%R.
Proof. exact K_cand_weight_model. Qed.
Print Assumptions C18_weight_kernel.

Theorem C18_sampler_ratio : forall (tbl : list cand) (i : nat) (c : cand),
  Forall (fun c => 0 < c_wd c) tbl -> nth_error tbl i = Some c ->
  IZR (nth i (samp_w tbl) 0) = (IZR (c_wn c) / IZR (c_wd c) * IZR (zlcm_l (map c_wd tbl)))%R
  /\ 0 < zlcm_l (map c_wd tbl).
Proof. exact samp_w_ratio. Qed.
Print Assumptions C18_sampler_ratio.

(* ==== extension: validation of the validity-range configuration ==== *)

(* the setter valid_event_field_ranges_dict_list accepts a value exactly when it
   is a list whose dict entries all have a str key and a 2-tuple value; it then
   stores the new value; otherwise it raises TypeError or ValueError and the
   stored configuration is unchanged *)
Theorem C18_ranges_setter : forall is_list old new,
  (snd (set_ranges is_list old new) = Ok tt <-> is_list = true /\ Forall rentry_ok (concat new))
  /\ (snd (set_ranges is_list old new) = Ok tt -> fst (set_ranges is_list old new) = new)
  /\ (snd (set_ranges is_list old new) <> Ok tt ->
      fst (set_ranges is_list old new) = old
      /\ (snd (set_ranges is_list old new) = Err TypeError \/ snd (set_ranges is_list old new) = Err ValueError)).
Proof. exact set_ranges_spec. Qed.
Print Assumptions C18_ranges_setter.

(* __init__: a successfully constructed generator has one dict per dataset, all
   entries well formed; None gives one empty dict per dataset *)
Theorem C18_ranges_init : forall arg n r,
  0 <= n -> init_ranges arg n = Ok r ->
  zlen r = n /\ Forall rentry_ok (concat r)
  /\ match arg with
     | None => r = repeat [] (Z.to_nat n)
     | Some (is_list, l) => is_list = true /\ r = l
     end.
Proof. exact init_ranges_spec. Qed.
Print Assumptions C18_ranges_init.

(* ---- non-vacuity.  NOTE: [stream_choice] replays a prescribed list of draws and does NOT itself satisfy
   [choice_contract]; the Examples using it show that the model runs on concrete inputs (the hand-picked draws
   respect the contract for these inputs).  The hypotheses of the theorems are instantiated with a contract-abiding
   oracle in C18_oracle_cyclic / C18_contract_runs_nonvacuous below. *)
(* an oracle meeting the contract exists *)
Example C18_oracle_exists : choice_contract const_choice.
Proof. exact const_choice_contract. Qed.

(* the repaired code on the witness of the defect, both correction directions,
   a zero weight; the hypotheses of C18_counts hold for these inputs *)
Example C18_counts_nonvacuous :
  ds_counts _ stream_choice [[1%nat]] 5 100 [8; 31; 31; 30] = Ok ([0; 1; 2; 2], [])
  /\ ds_counts _ stream_choice [[2%nat; 2%nat; 5%nat]] 3 6 [1; 1; 1; 1; 1; 1; 0] = Ok ([0; 0; 2; 0; 0; 1; 0], [])
  /\ ds_counts _ stream_choice [] 4 4 [1; 3; 0] = Ok ([1; 3; 0], [])
  /\ zsum [8; 31; 31; 30] = 100 /\ Forall (fun x => 0 <= x) [8; 31; 31; 30].
Proof. repeat split; try (vm_compute; reflexivity). repeat constructor; lia. Qed.

(* a concrete table and a run with two redraw rounds: source at sin(dec) 0,
   half band width 2, MC at -10, 0, 1, 10; field 0 (= event index here) must
   lie in [0,1]; the draws are candidates 1,0,1 then 1,0 then 0 *)
Example C18_generate_nonvacuous :
  let shgs := [ {| h_src := [(0, None)]; h_hw := 2; h_er := None; h_flux := assocz [(1, 1)] |} ] in
  let dss := [ {| d_mc := [ {| e_sd := -10; e_en := 1; e_mw := 1 |}; {| e_sd := 0; e_en := 1; e_mw := 1 |};
                            {| e_sd := 1; e_en := 1; e_mw := 1 |}; {| e_sd := 10; e_en := 1; e_mw := 1 |} ];
                  d_lt := 1; d_rng := [(0%nat, (0, 1))] |} ] in
  let tbl := [ {| c_ds := 0; c_ev := 1; c_shg := 0; c_src := 0; c_wn := 1; c_wd := 2 |};
               {| c_ds := 0; c_ev := 2; c_shg := 0; c_src := 0; c_wn := 1; c_wd := 2 |} ] in
  construct shgs dss = Ok tbl
  /\ generate _ stream_choice (fun ds shg src ev => [ev]) 5 [[1; 0; 1]%nat; [1; 0]%nat; [0%nat]] tbl dss 3
     = Ok (3, [(0, [[1]; [1]; [1]])], [])
  /\ generate _ stream_choice (fun ds shg src ev => [ev]) 1 [[1; 0; 1]%nat; [1; 1]%nat; [0%nat]] tbl dss 3
     = Err OutOfFuel
  /\ Forall (fun c => 0 <= c_wn c) tbl /\ Exists (fun c => 0 < c_wn c) tbl.
Proof.
  cbv zeta. repeat split; try (vm_compute; reflexivity).
  - repeat constructor; cbn; lia.
  - left. cbn. lia.
Qed.

(* batching: the guard 0 < bs is needed (bs = 0 raises, bs < 0 gives no batch at all);
   the relocation loop on a concrete input (sources 10, 20, 30; rot = pairing) *)
Example C18_batch_and_relocation_nonvacuous :
  let h := {| h_src := [(0, None); (1, None); (0, None)]; h_hw := 2; h_er := None; h_flux := assocz [(1, 1)] |} in
  let d := {| d_mc := [ {| e_sd := -10; e_en := 1; e_mw := 1 |}; {| e_sd := 0; e_en := 1; e_mw := 1 |};
                        {| e_sd := 10; e_en := 1; e_mw := 1 |} ]; d_lt := 1; d_rng := [] |} in
  cands_for_b 2 0 h 0 d = cands_for 0 h 0 d
  /\ (exists t, cands_for 0 h 0 d = Ok t /\ map c_src t = [0; 1; 2])
  /\ cands_for_b 0 0 h 0 d = Err ZeroDivision
  /\ cands_for_b (-1) 0 h 0 d = Ok []
  /\ post_process Z (Z * Z) (fun s e => (s, snd e)) [10; 20; 30] [2; 0; 2; 1] [(0, 100); (0, 101); (0, 102); (0, 103)]
     = Ok [(30, 100); (10, 101); (30, 102); (20, 103)]
  /\ post_process Z (Z * Z) (fun s e => (s, snd e)) [10; 20] [2] [(0, 100)] = Err IndexError.
Proof. cbv zeta. repeat split; try (vm_compute; reflexivity). eexists. split; vm_compute; reflexivity. Qed.

(* a history: construct, generate, change the sources, generate (stream oracle) *)
Example C18_machine_nonvacuous :
  let h1 := {| h_src := [(0, None)]; h_hw := 2; h_er := None; h_flux := assocz [(1, 1)] |} in
  let h2 := {| h_src := [(10, Some 1); (0, Some 0)]; h_hw := 2; h_er := None; h_flux := assocz [(1, 1)] |} in
  let dss := [ {| d_mc := [ {| e_sd := -10; e_en := 1; e_mw := 1 |}; {| e_sd := 0; e_en := 1; e_mw := 1 |};
                            {| e_sd := 10; e_en := 1; e_mw := 1 |} ]; d_lt := 1; d_rng := [] |} ] in
  exists st0 st outs,
    mc_init [h1] dss = Ok st0
    /\ mc_run _ stream_choice (fun ds shg src ev => [src; ev]) (fun g m => (m, g)) 3 st0 [[0%nat]; [0%nat; 0%nat]]
              [OpGenerate false 1; OpChange [h2]; OpGenerate true 2] = Ok (st, [], outs)
    /\ outs = [(1, [(0, [[0; 1]])]); (2, [(0, [[0; 2]; [0; 2]])])]
    /\ map c_wn (g_tbl st) = [1; 0] /\ g_p st = [1; 0] /\ mc_ok st
    /\ inputs_nonneg [h2] dss /\ Exists (fun c => 0 < c_wn c) (g_tbl st).
Proof.
  cbv zeta. eexists. eexists. eexists. split; [vm_compute; reflexivity|].
  split; [vm_compute; reflexivity|]. split; [reflexivity|]. split; [vm_compute; reflexivity|].
  split; [vm_compute; reflexivity|]. split; [split; vm_compute; reflexivity|]. split.
  - unfold inputs_nonneg. split; repeat constructor; cbn; try lia.
    intros en. unfold assocz. destruct (en =? 1); lia.
  - left. vm_compute. reflexivity.
Qed.

(* the merge of per-dataset dictionaries with colliding keys, poisson draw 4 *)
Example C18_multi_nonvacuous :
  md_generate _ stream_choice (fun g m => (4, g)) Z
    (fun j g c => Ok (c, (if 0 <? c then [(Z.of_nat j mod 2, repeat (Z.of_nat j) (Z.to_nat c))] else []), g))
    true [] 9 4 [1; 1; 2]
  = Ok (4, [(0, [0; 2; 2]); (1, [1])], [])
  /\ subgen_contract (fun (j : nat) (g : list (list nat)) (c : Z) =>
        Ok (c, (if 0 <? c then [(Z.of_nat j mod 2, repeat (Z.of_nat j) (Z.to_nat c))] else []), g)).
Proof.
  split; [vm_compute; reflexivity|].
  intros j g c n d g' Hc H. injection H as En Ed Eg. subst n d g'. split; [reflexivity|].
  unfold dict_total. destruct (0 <? c) eqn:E; cbn [map snd zsum fold_right].
  - unfold zlen. rewrite repeat_length. lia.
  - apply Z.ltb_ge in E. lia.
Qed.

(* runs under an oracle that meets the contract (C18_oracle_cyclic): a run with
   a successful redraw (first draw 0,1,0: the second event is invalid; the
   redraw draws 1 (invalid) then 0), both correction directions of the counts,
   and the hypotheses of C18_count / C18_valid / C18_counts for these inputs *)
Example C18_contract_runs_nonvacuous :
  let shgs := [ {| h_src := [(0, None)]; h_hw := 2; h_er := None; h_flux := assocz [(1, 1)] |} ] in
  let dss := [ {| d_mc := [ {| e_sd := -10; e_en := 1; e_mw := 1 |}; {| e_sd := 0; e_en := 1; e_mw := 1 |};
                            {| e_sd := 1; e_en := 1; e_mw := 1 |}; {| e_sd := 10; e_en := 1; e_mw := 1 |} ];
                  d_lt := 1; d_rng := [(0%nat, (0, 1))] |} ] in
  exists tbl,
    construct shgs dss = Ok tbl
    /\ generate _ cyc_choice (fun ds shg src ev => [ev]) 5 0%nat tbl dss 3 = Ok (3, [(0, [[1]; [1]; [1]])], 5%nat)
    /\ Forall (fun c => 0 <= c_wn c) tbl /\ Exists (fun c => 0 < c_wn c) tbl /\ Forall (fun c => 0 < c_wd c) tbl
    /\ ds_counts _ cyc_choice 0%nat 5 100 [8; 31; 31; 30] = Ok ([0; 1; 2; 2], 1%nat)
    /\ ds_counts _ cyc_choice 7%nat 3 6 [1; 1; 1; 1; 1; 1; 0] = Ok ([0; 1; 1; 1; 0; 0; 0], 10%nat).
Proof.
  cbv zeta. eexists. split; [vm_compute; reflexivity|]. split; [vm_compute; reflexivity|].
  split; [repeat constructor; cbn; lia|]. split; [left; cbn; lia|]. split; [repeat constructor; cbn; lia|].
  split; vm_compute; reflexivity.
Qed.

(* Analysis.generate_signal_events on a concrete input: counters 5,0,2, one
   existing event list; the generator returns 3 events for datasets 1 and 0 *)
Example C18_analysis_nonvacuous :
  an_generate nat Z (fun g m => Ok (m, [(1, [7; 7]); (0, [8])], g)) 3 0%nat 3 [5; 0; 2] [Some [1]; None; None]
  = Ok (3, [6; 2; 2], [Some [1; 8]; Some [7; 7]; None], 0%nat)
  /\ an_generate nat Z (fun g m => Ok (m, [(1, [7; 7])], g)) 3 0%nat 0 [5; 0; 2] [Some [1]; None; None]
     = Ok (0, [5; 0; 2], [Some [1]; None; None], 0%nat)
  /\ an_generate nat Z (fun g m => Ok (m, [(1, [7; 7])], g)) 2 0%nat 1 [5; 0; 2] [Some [1]; None; None] = Err ValueError.
Proof. repeat split; vm_compute; reflexivity. Qed.

(* configuration validation on concrete inputs: accepted, rejected (int key,
   list value, 3-tuple, not a list, wrong length), default *)
Example C18_ranges_nonvacuous :
  let good := {| r_key_str := true; r_val_tuple := true; r_len := 2 |} in
  set_ranges true [[]] [[good]; []] = ([[good]; []], Ok tt)
  /\ set_ranges true [[good]] [[good; {| r_key_str := false; r_val_tuple := true; r_len := 2 |}]] = ([[good]], Err TypeError)
  /\ set_ranges true [[good]] [[{| r_key_str := true; r_val_tuple := false; r_len := 2 |}]] = ([[good]], Err TypeError)
  /\ set_ranges true [[good]] [[]; [{| r_key_str := true; r_val_tuple := true; r_len := 3 |}]] = ([[good]], Err ValueError)
  /\ set_ranges false [[good]] [] = ([[good]], Err TypeError)
  /\ init_ranges None 3 = Ok [[]; []; []]
  /\ init_ranges (Some (true, [[good]])) 2 = Err ValueError
  /\ init_ranges (Some (true, [[good]; []])) 2 = Ok [[good]; []]
  /\ rentry_ok good.
Proof. cbv zeta. repeat split; vm_compute; reflexivity. Qed.
