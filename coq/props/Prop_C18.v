(* C18 — Signal injection conserves counts and produces only valid, relocated
   events.  Statements only; every proof is `exact <lemma>`. *)
From Coq Require Import Reals ZArith List Bool Lia.
From Sky Require Import Num NumR Result PyList G_inject M_Inject S_Inject P_Inject P_InjectR P_InjectMC.
Import ListNotations.
Open Scope Z_scope.

(* ---- per-dataset counts (MultiDatasetSignalGenerator.generate_signal_events,
   code after fix 7c8d32b).  For every oracle meeting the choice contract,
   every total >= 0 and every normalised non-negative weight vector a_j/D: the
   call succeeds, the counts add up to the total, are non-negative, zero-weight
   datasets receive none, one count per dataset. *)
Theorem C18_counts : forall (rng : Type) (choice : rng -> list Z -> nat -> list nat * rng),
  choice_contract choice ->
  forall g mean D ws,
  0 <= mean -> 0 < D -> Forall (fun x => 0 <= x) ws -> zsum ws = D ->
  exists c g', ds_counts rng choice g mean D ws = Ok (c, g')
    /\ zsum c = mean /\ nonneg c /\ zero_stays_zero ws c /\ length c = length ws.
Proof. exact ds_counts_spec. Qed.
Print Assumptions C18_counts.

(* the sum needs no hypothesis on total or weights: whatever the rounding gave
   and whichever indices were drawn, a successful call returns the total *)
Theorem C18_sum : forall (rng : Type) (choice : rng -> list Z -> nat -> list nat * rng),
  choice_contract choice ->
  forall g mean D ws c g',
  ds_counts rng choice g mean D ws = Ok (c, g') -> zsum c = mean.
Proof. exact ds_counts_sum. Qed.
Print Assumptions C18_sum.

(* the rounding line of the source is round-half-even of (mean*a)/D *)
Theorem C18_round_kernel : forall (erf : R -> R) mean a q,
  0 < q -> cnt_round (RNum erf) (IZR mean) (IZR a / IZR q)%R = IZR (rhe (mean * a) q).
Proof. exact K_cnt_round. Qed.
Print Assumptions C18_round_kernel.

(* the defect repaired by 7c8d32b, on the code as it was: total 5, weights
   (.08,.31,.31,.30), the one correction draw hits dataset 0 *)
Theorem C18_nonneg_prefix_refuted :
  exists (g : list (list nat)) mean D ws c g',
    0 <= mean /\ 0 < D /\ Forall (fun x => 0 <= x) ws /\ zsum ws = D
    /\ (forall d, In d (fst (stream_choice g ws 1%nat)) -> 0 < nth d ws 0)
    /\ ds_counts_prefix _ stream_choice g mean D ws = Ok (c, g') /\ ~ nonneg c.
Proof. exact prefix_refuted. Qed.
Print Assumptions C18_nonneg_prefix_refuted.

(* ---- events (MCMultiDatasetSignalGenerator.generate_signal_events) *)
(* every candidate of the table points at an MC event inside the declination
   band of its source and inside the energy range; its weight is the product
   mcweight * flux * source weight * live-time *)
Theorem C18_candidates : forall shgs dss tbl c,
  construct shgs dss = Ok tbl -> In c tbl -> cand_sound shgs dss c.
Proof. exact construct_sound. Qed.
Print Assumptions C18_candidates.

(* reported n = requested n = number of events returned (OutOfFuel excluded:
   the statement is about successful runs), every dataset key is distinct *)
Theorem C18_count : forall (rng : Type) (choice : rng -> list Z -> nat -> list nat * rng)
  (post : Z -> Z -> Z -> Z -> list Z),
  choice_contract choice ->
  forall fuel g tbl dss n_signal n out g',
  0 <= n_signal ->
  generate rng choice post fuel g tbl dss n_signal = Ok (n, out, g') ->
  n = n_signal
  /\ zsum (map (fun kv => zlen (snd kv)) out) = n
  /\ NoDup (map fst out).
Proof. exact generate_count_thm. Qed.
Print Assumptions C18_count.

(* (weights non-negative and not all zero: otherwise the normalised weights are
   NaN in the code and the choice contract says nothing)
   every returned event is the relocated image of a candidate of its own
   dataset that has positive weight (zero-weight sources / datasets / MC events
   are never injected) and satisfies all validity ranges of that dataset *)
Theorem C18_valid : forall (rng : Type) (choice : rng -> list Z -> nat -> list nat * rng)
  (post : Z -> Z -> Z -> Z -> list Z),
  choice_contract choice ->
  forall fuel g tbl dss n_signal n out g',
  Forall (fun c => 0 <= c_wn c) tbl -> Exists (fun c => 0 < c_wn c) tbl ->
  generate rng choice post fuel g tbl dss n_signal = Ok (n, out, g') ->
  forall ds evs ev, In (ds, evs) out -> In ev evs ->
  exists d c, py_get dss ds = Ok d /\ In c tbl /\ c_ds c = ds /\ 0 < c_wn c
    /\ ev = post (c_ds c) (c_shg c) (c_src c) (c_ev c)
    /\ in_ranges (d_rng d) ev.
Proof. exact generate_valid. Qed.
Print Assumptions C18_valid.

(* the redraw fills exactly the invalid slots: valid first draws are kept in
   place, every invalid one is replaced *)
Theorem C18_fill : forall (A : Type) (l : list A) (m : list bool) (b r : list A),
  fill_mask l m b = Ok r ->
  length r = length l /\ length l = length m /\ zlen b = count_true m
  /\ (forall i, nth_error m i = Some false -> nth_error r i = nth_error l i)
  /\ mask_select r m = b.
Proof. exact (@fill_mask_spec). Qed.
Print Assumptions C18_fill.

(* ---- the declination band (real-number reading of the source formulas) *)
Theorem C18_shift : forall (erf : R -> R) (x w L U : R),
  (L < U -> L <= x <= U -> 0 <= 2 * w <= U - L ->
   L <= band_lo erf x w L U /\ band_hi erf x w L U <= U
   /\ band_hi erf x w L U - band_lo erf x w L U = 2 * w)%R.
Proof. exact band_inside. Qed.
Print Assumptions C18_shift.

(* the event mask of the source on scaled-integer inputs is the model's test *)
Theorem C18_band_kernel : forall (erf : R -> R) x w L U sd,
  L < U ->
  band_mask (RNum erf) (IZR sd) (band_lo erf (IZR x) (IZR w) (IZR L) (IZR U))
            (band_hi erf (IZR x) (IZR w) (IZR L) (IZR U))
  = in_band x w L U sd.
Proof. exact K_band_mask. Qed.
Print Assumptions C18_band_kernel.

(* ---- mu2flux is linear and additive in mu (per source and in total) *)
Theorem C18_linear : forall (erf : R -> R) (c mu refN : R) (groups : list (R * R * list R)),
  mu2flux_list erf (c * mu) refN groups = map (Rmult c) (mu2flux_list erf mu refN groups)
  /\ mu2flux_total erf (c * mu) refN groups = (c * mu2flux_total erf mu refN groups)%R.
Proof. exact mu2flux_linear. Qed.
Print Assumptions C18_linear.

Theorem C18_additive : forall (erf : R -> R) (a b refN : R) (groups : list (R * R * list R)),
  mu2flux_total erf (a + b) refN groups
  = (mu2flux_total erf a refN groups + mu2flux_total erf b refN groups)%R.
Proof. exact mu2flux_additive. Qed.
Print Assumptions C18_additive.

(* ---- non-vacuity *)
(* an oracle meeting the contract exists *)
Example C18_oracle_exists : choice_contract const_choice.
Proof. exact const_choice_contract. Qed.

(* the repaired code on the witness of the defect, both correction directions,
   a zero weight; the hypotheses of C18_counts hold for these inputs *)
Example C18_counts_nonvacuous :
  ds_counts _ stream_choice [[1%nat]] 5 100 [8; 31; 31; 30] = Ok ([0; 1; 2; 2], [])
  /\ ds_counts _ stream_choice [[2%nat; 2%nat; 5%nat]] 3 6 [1; 1; 1; 1; 1; 1; 0] = Ok ([0; 0; 2; 0; 0; 1; 0], [])
  /\ ds_counts _ stream_choice [] 4 4 [1; 3; 0] = Ok ([1; 3; 0], [])
  /\ zsum [8; 31; 31; 30] = 100 /\ Forall (fun x => 0 <= x) [8; 31; 31; 30].
Proof. repeat split; try (vm_compute; reflexivity). repeat constructor; lia. Qed.

(* a concrete table and a run with two redraw rounds: source at sin(dec) 0,
   half band width 2, MC at -10, 0, 1, 10; field 0 (= event index here) must
   lie in [0,1]; the draws are candidates 1,0,1 then 1,0 then 0 *)
Example C18_generate_nonvacuous :
  let shgs := [ {| h_src := [(0, None)]; h_hw := 2; h_er := None; h_flux := assocz [(1, 1)] |} ] in
  let dss := [ {| d_mc := [ {| e_sd := -10; e_en := 1; e_mw := 1 |}; {| e_sd := 0; e_en := 1; e_mw := 1 |};
                            {| e_sd := 1; e_en := 1; e_mw := 1 |}; {| e_sd := 10; e_en := 1; e_mw := 1 |} ];
                  d_lt := 1; d_rng := [(0%nat, (0, 1))] |} ] in
  let tbl := [ {| c_ds := 0; c_ev := 1; c_shg := 0; c_src := 0; c_wn := 1; c_wd := 2 |};
               {| c_ds := 0; c_ev := 2; c_shg := 0; c_src := 0; c_wn := 1; c_wd := 2 |} ] in
  construct shgs dss = Ok tbl
  /\ generate _ stream_choice (fun ds shg src ev => [ev]) 5 [[1; 0; 1]%nat; [1; 0]%nat; [0%nat]] tbl dss 3
     = Ok (3, [(0, [[1]; [1]; [1]])], [])
  /\ generate _ stream_choice (fun ds shg src ev => [ev]) 1 [[1; 0; 1]%nat; [1; 1]%nat; [0%nat]] tbl dss 3
     = Err OutOfFuel
  /\ Forall (fun c => 0 <= c_wn c) tbl /\ Exists (fun c => 0 < c_wn c) tbl.
Proof.
  cbv zeta. repeat split; try (vm_compute; reflexivity).
  - repeat constructor; cbn; lia.
  - left. cbn. lia.
Qed.
