(* C02 — returned gradients are the true derivatives for every parameter layout.
   Statements only; every proof is `exact <lemma>`. Real-number reading (RNum). *)
From Coq Require Import Reals ZArith List Bool Lia Lra.
From Coquelicot Require Import Coquelicot.
From Sky Require Import Result PyList Num NumR G_llh G_layout M_Llh S_Llh M_Layout S_Layout
  M_LlhPipe M_LlhGrad M_LlhE2E S_LlhPipe S_LlhGrad
  P_Llh P_LlhValue P_LlhDeriv P_WeightsDeriv P_Layout P_LayoutDeriv P_LlhGrad P_LlhStack P_LlhPipeGrad P_LlhE2E M_LayoutExt P_LayoutExt.
Import ListNotations.

(* ---------------------------------------------------------------- layout clause *)
(* Producer: for EVERY list of declarations accepted by map_param (any length, any
   fixed/floating pattern, any order, any mapping to sources / aliases), the cell of a
   source and local name fed by declaration d holds: floating -> the entry of the value
   vector at d's rank among the floating declarations, under key rank+1; fixed -> d's
   value under the negative key -(index)-1. *)
Theorem C02_layout_producer : forall (V : Type) n (ds : list (@gdecl V)) m vec r s name pre d post,
  build n ds = Ok m -> create_src_params_recarray m vec = Ok r -> (s < n)%nat ->
  ds = pre ++ d :: post -> nm s d = Some name ->
  exists v, rcell r s name = (Some v, if g_fixed d then (- Z.of_nat (length pre) - 1)%Z else (rank pre + 1)%Z)
            /\ (if g_fixed d then v = g_val d else nth_error vec (rankn pre) = Some v).
Proof. intros V. exact (@layout_producer V). Qed.
Print Assumptions C02_layout_producer.

(* ... and nothing else is ever in a cell *)
Theorem C02_layout_sound : forall (V : Type) n (ds : list (@gdecl V)) m vec r s name ov g,
  build n ds = Ok m -> create_src_params_recarray m vec = Ok r -> (s < n)%nat ->
  rcell r s name = (ov, g) ->
  (ov = None /\ g = 0%Z)
  \/ exists pre d post v,
       ds = pre ++ d :: post /\ nm s d = Some name /\ ov = Some v
       /\ ((g_fixed d = false /\ g = (rank pre + 1)%Z /\ nth_error vec (rankn pre) = Some v)
           \/ (g_fixed d = true /\ g = (- Z.of_nat (length pre) - 1)%Z /\ v = g_val d)).
Proof. intros V. exact (@layout_sound V). Qed.
Print Assumptions C02_layout_sound.

(* Consumer: the comparison `gpidx == fitparam_id + 1` is true exactly for the cells fed
   by the fitparam_id-th floating declaration (declaration order). *)
Theorem C02_layout_consumer : forall (V : Type) n (ds : list (@gdecl V)) m vec r s name fid,
  build n ds = Ok m -> create_src_params_recarray m vec = Ok r -> (s < n)%nat -> (0 <= fid)%Z ->
  (lk_is_local fid (snd (rcell r s name)) = true
   <-> exists pre d post, ds = pre ++ d :: post /\ g_fixed d = false /\ nm s d = Some name /\ rank pre = fid).
Proof. intros V. exact (@layout_consumer V). Qed.
Print Assumptions C02_layout_consumer.

(* This one only PINS the textual copies of the comparison (i3/pdfratio.py, signalpdf.py, i3/detsigyield.py)
   to one test: after unfolding the kernels both sides are the same term.  A semantic change of any copy
   changes its kernel and breaks this statement; it says nothing beyond that.  (A fourth copy in
   analyses/i3/publicdata_ps/pdfratio.py is outside the anchors and not pinned.) *)
Theorem C02_layout_consumers_agree : forall g fid,
  lk_i3_match g fid = lk_is_local fid g /\ lk_sig_match g fid = lk_is_local fid g
  /\ lk_dsy_mask g fid = lk_is_local fid g
  /\ (lk_dsy_pos g = true -> lk_dsy_mask g (lk_dsy_key g) = true).
Proof. exact consumers_agree. Qed.
Print Assumptions C02_layout_consumers_agree.

(* Keys: every key of the a_jk / f_j gradient dictionaries is the id of a floating parameter, so the
   column assignment f_grads[:, key] of the multi-dataset evaluate cannot fail and hits column `key`
   (GIVEN that the yields find their parameter field: a_grad_keys = Ok).  The last two conjuncts are
   bookkeeping identities only ((n-1)+1 = n for the kernels of the column arithmetic; the length guard of
   create_src_params_recarray): the statement that the VECTOR has its entries in declaration order is
   C02_end_to_end below. *)
Theorem C02_layout_keys : forall (V : Type) n (ds : list (@gdecl V)) m vec r groups kms,
  build n ds = Ok m -> create_src_params_recarray m vec = Ok r -> a_grad_keys r groups = Ok kms ->
  (forall k, In k (map fst kms) -> (0 <= k < n_floating ds)%Z)
  /\ f_grads_cols (n_floating ds) (dict_keys kms) = Ok (dict_keys kms)
  /\ grads_len (n_floating ds) = n_floating ds
  /\ zlen vec = n_floating ds.
Proof. intros V. exact (@layout_keys V). Qed.
Print Assumptions C02_layout_keys.

(* Chain rule through the bookkeeping: a differentiable local quantity f of a cell's value,
   as a function of the r-th floating value, has derivative f' where the consumers' test
   selects the cell and 0 elsewhere. *)
Theorem C02_layout_chain : forall n (ds : list (@gdecl R)) m vec rec s name (r : nat) (f : R -> R) df pre d post,
  build n ds = Ok m -> create_src_params_recarray m vec = Ok rec -> (s < n)%nat -> (r < length vec)%nat ->
  ds = pre ++ d :: post -> nm s d = Some name ->
  is_derive f (cellval m vec s name) df ->
  is_derive (fun t => f (cellval m (set_nth vec r t) s name)) (nth r vec 0%R)
            (if lk_is_local (Z.of_nat r) (cellkey m vec s name) then df else 0%R).
Proof. exact layout_chain. Qed.
Print Assumptions C02_layout_chain.

(* ---------------------------------------------------------------- derivatives *)
Open Scope R_scope.

(* d/dns of the returned value is grads[ns_pidx], for all event lists *)
Theorem C02_dns : forall (erfR : R -> R) opa N ns (Rs : list R),
  0 < opa -> N <> 0 -> 0 < 1 - ns / N ->
  List.Forall (fun r => ns * Xof N r <> opa - 1) Rs ->
  is_derive (fun t => evaluate_value (RNum erfR) opa N t Rs) ns (evaluate_grad_ns (RNum erfR) opa N ns Rs).
Proof. exact value_ns_derive. Qed.
Print Assumptions C02_dns.

(* d/dp for any other parameter: the X_i are arbitrary differentiable functions of p *)
Theorem C02_dp : forall (erfR : R -> R) opa N ns (fs : list (R -> R)) (dfs : list R) (p0 : R),
  0 < opa ->
  List.Forall2 (fun f d => is_derive f p0 d) fs dfs ->
  List.Forall (fun f => ns * f p0 <> opa - 1) fs ->
  is_derive (fun p => log_lambda (RNum erfR) opa N ns (map (fun f => f p) fs)) p0
            (grad_p (RNum erfR) opa ns (combine (map (fun f => f p0) fs) dfs)).
Proof. exact value_p_derive. Qed.
Print Assumptions C02_dp.

(* second derivative in ns, all-stable regime *)
Theorem C02_d2ns_stable : forall (erfR : R -> R) opa N ns (Rs : list R) (nb : R),
  0 < opa -> N - ns <> 0 -> N = INR (length Rs) + nb ->
  List.Forall (fun r => opa - 1 < ns * Xof N r) Rs ->
  is_derive (fun t => evaluate_grad_ns (RNum erfR) opa N t Rs) ns
            (evaluate_ns_grad2 (RNum erfR) opa N ns Rs nb).
Proof. exact ns_grad2_is_derivative. Qed.
Print Assumptions C02_d2ns_stable.

(* the slope is continuous across the stability threshold *)
Theorem C02_threshold_slopes : forall alpha,
  0 < 1 + alpha ->
  is_derive (fun a => ln (1 + a)) alpha (/ (1 + alpha))
  /\ is_derive (Taylor alpha) alpha (/ (1 + alpha))
  /\ is_derive (fun a => / (1 + a)) alpha (- / ((1 + alpha) * (1 + alpha)))
  /\ is_derive (fun a => / (1 + alpha) - (a - alpha) / (1 + alpha) / (1 + alpha)) alpha
               (- / ((1 + alpha) * (1 + alpha)))
  /\ (forall a, is_derive (Taylor alpha) a (/ (1 + alpha) - (a - alpha) / (1 + alpha) / (1 + alpha))).
Proof. exact taylor_slopes. Qed.
Print Assumptions C02_threshold_slopes.

(* quotient rule for the dataset weights f_j, product rule and quotient rule of the PDF ratios *)
Theorem C02_fj : forall (erfR : R -> R) (aj a : R -> R) (p0 daj da : R),
  is_derive aj p0 daj -> is_derive a p0 da -> a p0 <> 0 ->
  is_derive (fun p => k_f_j (RNum erfR) (aj p) (a p)) p0 (k_f_j_grad (RNum erfR) daj (a p0) (aj p0) da).
Proof. exact f_j_quotient_rule. Qed.
Print Assumptions C02_fj.

Theorem C02_product_rule : forall (erfR : R -> R) (r1 r2 : R -> R) (p0 d1 d2 : R),
  is_derive r1 p0 d1 -> is_derive r2 p0 d2 ->
  is_derive (fun p => prod_ratio (RNum erfR) (r1 p) (r2 p)) p0
            (prod_grad_both (RNum erfR) (r1 p0) (r2 p0) d1 d2).
Proof. exact product_rule. Qed.
Print Assumptions C02_product_rule.

Theorem C02_sob_quotient_rule : forall (erfR : R -> R) (s b : R -> R) (p0 ds db : R),
  is_derive s p0 ds -> is_derive b p0 db -> 0 < b p0 ->
  is_derive (fun p => s p / b p) p0 (sob_grad_both (RNum erfR) (s p0) ds (b p0) db).
Proof. exact sob_quotient_rule. Qed.
Print Assumptions C02_sob_quotient_rule.

(* multi-dataset: d/dns sum_j L_j(ns f_j) = sum_j f_j dL_j *)
Theorem C02_multi_ns : forall (erfR : R -> R) opa ns f (ds : list (R * list R)),
  0 < opa ->
  List.Forall (fun p => fst (snd p) <> 0 /\ 0 < 1 - ns * fst p / fst (snd p)
                   /\ List.Forall (fun r => ns * fst p * Xof (fst (snd p)) r <> opa - 1) (snd (snd p)))
         (combine f ds) ->
  is_derive (fun t => multi_value (RNum erfR) opa t f ds) ns (multi_grad_ns (RNum erfR) opa ns f ds).
Proof. exact multi_value_ns_derive. Qed.
Print Assumptions C02_multi_ns.

(* ---------------------------------------------------------------- deepening: the parts that
   depend on the other fit parameters through the weights and the stacked ratios *)

(* the leaf hypotheses of the pipeline theorem below are supplied by the layout *)
Theorem C02_layout_leaf : forall n (ds : list (@gdecl R)) m vec rec s name (r : nat) (f : R -> R) df (c : R) pre d post,
  build n ds = Ok m -> create_src_params_recarray m vec = Ok rec -> (s < n)%nat -> (r < length vec)%nat ->
  ds = pre ++ d :: post -> nm s d = Some name ->
  is_derive f (cellval m vec s name) df ->
  is_derive (fun t => c * f (cellval m (set_nth vec r t) s name)) (nth r vec 0)
            (c * (if lk_is_local (Z.of_nat r) (cellkey m vec s name) then df else 0)).
Proof. exact layout_leaf. Qed.
Print Assumptions C02_layout_leaf.

(* SourceWeightedPDFRatio.get_gradient (numpy += plumbing included) computes, event by event,
   (-R_i A' + sum_k (a_k' R_ik + a_k R_ik')) / A, given that no (source, event) pair is listed twice *)
Theorem C02_stacking_code : forall (erfR : R -> R) a da n_sel vals dv Ri e,
  NoDup (map row_pair vals) -> (forall d, dv = Some d -> NoDup (map row_pair d)) ->
  length Ri = n_sel -> (e < n_sel)%nat -> (da <> None \/ dv <> None) ->
  nth e (sw_grad (RNum erfR) a da n_sel vals dv Ri) 0
  = (- nth e Ri 0 * match da with Some d => Rsum d | None => 0 end
     + Rsum (map (fun k => match da with Some d => nth k d 0 | None => 0 end * pair_lookup vals k e
                           + nth k a 0 * match dv with Some d => pair_lookup d k e | None => 0 end)
                 (seq 0 (length a))))
    / Rsum a.
Proof. exact sw_grad_spec. Qed.
Print Assumptions C02_stacking_code.

(* ... and that formula is the derivative of the stacked ratio *)
Theorem C02_stacking_rule : forall (aks : list wfun) (rows : list (nat * nat * wfun)) (e : nat) (t0 : R),
  List.Forall (fun a => is_derive (fst a) t0 (snd a)) aks ->
  List.Forall (fun v => is_derive (fst (snd v)) t0 (snd (snd v))) rows ->
  Rsum (a_at aks t0) <> 0 ->
  is_derive (fun t => stacked_spec (a_at aks t) (rows_at rows t) e) t0
    ((- stacked_spec (a_at aks t0) (rows_at rows t0) e * Rsum (d_of aks)
      + Rsum (map (fun k => nth k (d_of aks) 0 * pair_lookup (rows_at rows t0) k e
                            + nth k (a_at aks t0) 0 * pair_lookup (drows_of rows) k e)
                  (seq 0 (length (a_at aks t0)))))
     / Rsum (a_at aks t0)).
Proof. exact stacking_rule. Qed.
Print Assumptions C02_stacking_rule.

(* one dataset: d/dp L_j(ns f_j(p), X(p)) = dL_j/dns_j * ns * f_j' + dL_j/dp *)
Theorem C02_dataset_term : forall (erfR : R -> R) opa N ns (f : R -> R) df (t0 : R) (Xs : list (R -> R)) (dXs : list R),
  0 < opa -> N <> 0 -> 0 < 1 - ns * f t0 / N -> is_derive f t0 df ->
  List.Forall2 (fun g d => is_derive g t0 d) Xs dXs ->
  List.Forall (fun g => ns * f t0 * g t0 <> opa - 1) Xs ->
  is_derive (fun t => log_lambda (RNum erfR) opa N (ns * f t) (map (fun g => g t) Xs)) t0
    (grad_ns (RNum erfR) opa N (ns * f t0) (map (fun g => g t0) Xs) * ns * df
     + grad_p (RNum erfR) opa (ns * f t0) (combine (map (fun g => g t0) Xs) dXs)).
Proof. exact dataset_term_derive. Qed.
Print Assumptions C02_dataset_term.

(* d/dp of the multi-dataset sum is what MultiDatasetTCLLHRatio.evaluate accumulates in grads[pmask] *)
Theorem C02_multi_p : forall (erfR : R -> R) opa ns t0 (l : list dsfun),
  0 < opa ->
  List.Forall (fun d => dq_N d <> 0 /\ 0 < 1 - ns * dq_f d t0 / dq_N d /\ is_derive (dq_f d) t0 (dq_df d)
                        /\ List.Forall2 (fun g dg => is_derive g t0 dg) (dq_R d) (dq_dR d)
                        /\ List.Forall (fun g => ns * dq_f d t0 * Xof (dq_N d) (g t0) <> opa - 1) (dq_R d)) l ->
  is_derive (fun t => multi_value (RNum erfR) opa ns (map (fun d => dq_f d t) l)
                                  (map (fun d => (dq_N d, at_t (dq_R d) t)) l)) t0
    (multi_grad_p (RNum erfR) opa ns (map (fun d => dq_f d t0) l) (map dq_df l)
                  (map (fun d => (dq_N d, at_t (dq_R d) t0, dq_dR d)) l)).
Proof. exact multi_value_p_derive. Qed.
Print Assumptions C02_multi_p.

(* the composed pipeline in the code's own functions: from differentiable weights a_jk(t) and table
   ratios R_ik(t) through f_j / f_j_grad, sw_ratio / sw_grad, the single-dataset functions and the
   multi-dataset loop, the assembled entry is the derivative of the returned value *)
Theorem C02_pipeline : forall (erfR : R -> R) opa ns t0 (DS : list pds),
  0 < opa -> a_tot (RNum erfR) (tab_at DS t0) <> 0 ->
  List.Forall (fun d =>
      List.Forall (fun a => is_derive (fst a) t0 (snd a)) (p_aks d)
      /\ List.Forall (fun v => is_derive (fst (snd v)) t0 (snd (snd v))) (p_rows d)
      /\ NoDup (map fst (p_rows d))
      /\ Rsum (a_at (p_aks d) t0) <> 0
      /\ p_N d <> 0
      /\ 0 < 1 - ns * (Rsum (a_at (p_aks d) t0) / a_tot (RNum erfR) (tab_at DS t0)) / p_N d
      /\ List.Forall (fun r => ns * (Rsum (a_at (p_aks d) t0) / a_tot (RNum erfR) (tab_at DS t0)) * Xof (p_N d) r <> opa - 1)
                     (sw_ratio (RNum erfR) (a_at (p_aks d) t0) (p_nsel d) (rows_at (p_rows d) t0))) DS ->
  is_derive
    (fun t => multi_value (RNum erfR) opa ns
                (f_j (RNum erfR) (map (fun d => a_at (p_aks d) t) DS))
                (map (fun d => (p_N d, sw_ratio (RNum erfR) (a_at (p_aks d) t) (p_nsel d) (rows_at (p_rows d) t))) DS)) t0
    (multi_grad_p (RNum erfR) opa ns
                  (f_j (RNum erfR) (map (fun d => a_at (p_aks d) t0) DS))
                  (f_j_grad (RNum erfR) (map (fun d => a_at (p_aks d) t0) DS) (map (fun d => d_of (p_aks d)) DS))
                  (map (fun d => (p_N d,
                                  sw_ratio (RNum erfR) (a_at (p_aks d) t0) (p_nsel d) (rows_at (p_rows d) t0),
                                  sw_grad (RNum erfR) (a_at (p_aks d) t0) (Some (d_of (p_aks d))) (p_nsel d)
                                          (rows_at (p_rows d) t0) (Some (drows_of (p_rows d)))
                                          (sw_ratio (RNum erfR) (a_at (p_aks d) t0) (p_nsel d) (rows_at (p_rows d) t0)))) DS)).
Proof. exact pipeline_p_derive. Qed.
Print Assumptions C02_pipeline.

(* second derivative in ns: the exact statement for every regime ... *)
Theorem C02_d2ns_exact : forall (erfR : R -> R) opa N ns (Rs : list R) (nb : R),
  0 < opa -> N - ns <> 0 -> N = INR (length Rs) + nb ->
  List.Forall (fun r => ns * Xof N r <> opa - 1) Rs ->
  is_derive (fun t => evaluate_grad_ns (RNum erfR) opa N t Rs) ns
    (evaluate_ns_grad2 (RNum erfR) opa N ns Rs nb
     + Rsum (map (fun r => if Rlt_dec (opa - 1) (ns * Xof N r) then 0
                           else ev_nsgrad (RNum erfR) opa ns (Xof N r) * ev_nsgrad (RNum erfR) opa ns (Xof N r)
                                - (Xof N r * Xof N r) / (opa * opa)) Rs)).
Proof. exact ns_grad2_exact. Qed.
Print Assumptions C02_d2ns_exact.

(* ... in the Taylor regime calculate_ns_grad2 is NOT the derivative of the ns-gradient *)
Theorem C02_d2ns_unstable_refuted : forall (erfR : R -> R),
  exists opa N ns Rs nb D,
    0 < opa /\ N - ns <> 0 /\ N = INR (length Rs) + nb
    /\ List.Forall (fun r => ns * Xof N r < opa - 1) Rs
    /\ is_derive (fun t => evaluate_grad_ns (RNum erfR) opa N t Rs) ns D
    /\ D <> evaluate_ns_grad2 (RNum erfR) opa N ns Rs nb.
Proof. exact ns_grad2_unstable_refuted. Qed.
Print Assumptions C02_d2ns_unstable_refuted.

(* ... and the multi-dataset second derivative sum_j f_j^2 (...) in the all-stable regime *)
Theorem C02_multi_d2ns : forall (erfR : R -> R) opa ns (l : list (R * (R * list R * R))),
  0 < opa ->
  List.Forall (fun p => let f := fst p in let N := fst (fst (snd p)) in
                        let Rs := snd (fst (snd p)) in let nb := snd (snd p) in
                        N - ns * f <> 0 /\ N = INR (length Rs) + nb
                        /\ List.Forall (fun r => opa - 1 < ns * f * Xof N r) Rs) l ->
  is_derive (fun t => multi_grad_ns (RNum erfR) opa t (map fst l) (map (fun p => fst (snd p)) l)) ns
            (multi_ns_grad2 (RNum erfR) opa ns (map fst l) (map snd l)).
Proof. exact multi_ns_grad2_is_derivative. Qed.
Print Assumptions C02_multi_d2ns.

(* ---------------------------------------------------------------- the closed end-to-end statement *)
(* For EVERY declaration list accepted by map_param, every vector of floating values, every set of
   datasets (yields Y_jk and interpolated ratios phi_v arbitrary differentiable functions of the local
   parameter value, any (source, event) table without repeated pairs, any source weights), and every
   floating index r other than the index of ns: entry r of the gradient VECTOR of the model
   (M_LlhE2E.e2e_grad: create_src_params_recarray -> yield / ratio gradient selection by gpidx ->
   f_j / f_j_grad, sw_ratio / sw_grad, evaluate, multi-dataset loop -> columns of p_fids scattered back
   around ns_pidx = get_gflp_idx 'ns') is the derivative of the model's value with respect to the r-th
   floating value.  Hypotheses: leaves differentiable; non-degeneracy at the point (weights sums <> 0,
   N <> 0, log arguments positive, no event exactly at the Taylor threshold). *)
Theorem C02_end_to_end : forall (erfR : R -> R) opa n (ds : list (@gdecl R)) m vec rec (W : list R) (DS : list eds) nsi g (r : nat),
  0 < opa ->
  build n ds = Ok m -> create_src_params_recarray m vec = Ok rec ->
  get_gflp_idx (m_decls m) 0%Z = Ok nsi ->
  e2e_grad (RNum erfR) opa m vec W DS = Ok g ->
  (r < length vec)%nat -> Z.of_nat r <> nsi ->
  a_tot (RNum erfR) (map (a_row (RNum erfR) m vec W) DS) <> 0 ->
  List.Forall (fun d =>
      (forall k x, is_derive (e_Y d k) x (e_dY d k x))
      /\ (forall i x, is_derive (e_phi d i) x (e_dphi d i x))
      /\ NoDup (e_rows d)
      /\ List.Forall (fun p => (fst p < m_nmodels m)%nat) (e_rows d)
      /\ Rsum (a_row (RNum erfR) m vec W d) <> 0 /\ e_N d <> 0
      /\ 0 < 1 - nth (Z.to_nat nsi) vec 0
                 * (Rsum (a_row (RNum erfR) m vec W d) / a_tot (RNum erfR) (map (a_row (RNum erfR) m vec W) DS)) / e_N d
      /\ List.Forall (fun x => nth (Z.to_nat nsi) vec 0
                               * (Rsum (a_row (RNum erfR) m vec W d) / a_tot (RNum erfR) (map (a_row (RNum erfR) m vec W) DS))
                               * Xof (e_N d) x <> opa - 1)
                     (sw_ratio (RNum erfR) (a_row (RNum erfR) m vec W d) (e_nsel d) (vals_of (RNum erfR) m vec d))) DS ->
  is_derive (fun t => e2e_value (RNum erfR) opa m (set_nth vec r t) W DS nsi) (nth r vec 0) (nth r g 0).
Proof. exact e2e_entry_is_derivative. Qed.
Print Assumptions C02_end_to_end.

(* SigOverBkgPDFRatio.get_gradient: the executed row model (separately computed mask `m`, the four
   dependency cases) is case by case the gradient function of the quotient-rule theorems; rows with
   non-positive background get 0 *)
Theorem C02_sob_cases : forall (erfR : R -> R) z s ds b db,
  snd (sob_eval (RNum erfR) z s ds b db false false) = 0
  /\ snd (sob_eval (RNum erfR) z s ds b db true false) = sob_grad_sig (RNum erfR) ds b
  /\ snd (sob_eval (RNum erfR) z s ds b db true true) = sob_grad_both (RNum erfR) s ds b db
  /\ snd (sob_eval (RNum erfR) z s ds b db false true) = sob_grad_bkg (RNum erfR) s b db
  /\ fst (sob_eval (RNum erfR) z s ds b db false false) = sob_ratio (RNum erfR) z s b.
Proof. exact sob_eval_cases. Qed.
Print Assumptions C02_sob_cases.

(* PDFProduct.get_pd (product of two signal / background densities): the case-1 formula of the code is
   the product rule; when one factor does not depend on the parameter it reduces to the code's cases 2 / 3 *)
Theorem C02_pdf_product_rule : forall (erfR : R -> R) (p1 p2 : R -> R) (t0 d1 d2 : R),
  is_derive p1 t0 d1 -> is_derive p2 t0 d2 ->
  is_derive (fun t => p1 t * p2 t) t0 (lk_pdfprod_both (RNum erfR) (p1 t0) d2 (p2 t0) d1)
  /\ (d2 = 0 -> lk_pdfprod_both (RNum erfR) (p1 t0) d2 (p2 t0) d1 = lk_pdfprod_1 (RNum erfR) (p2 t0) d1)
  /\ (d1 = 0 -> lk_pdfprod_both (RNum erfR) (p1 t0) d2 (p2 t0) d1 = lk_pdfprod_2 (RNum erfR) (p1 t0) d2).
Proof. exact pdf_product_rule. Qed.
Print Assumptions C02_pdf_product_rule.

(* ---------------------------------------------------------------- non-vacuity *)
Close Scope R_scope.
Open Scope Z_scope.
(* the witness layout of the repaired defect: a fixed parameter declared first, then ns,
   then a floating parameter mapped to the two sources under different local names, then a
   fixed one: the hypotheses of the layout theorems hold and the keys are the floating ranks *)
Example C02_layout_nonvacuous :
  let ds : list (@gdecl Z) :=
    [mkG 5 true 77 [Some 10; None]; mkG 0 false 0 [Some 1; Some 1];
     mkG 6 false 0 [Some 11; Some 10]; mkG 7 true 99 [None; Some 11]] in
  exists m r kms,
    build 2 ds = Ok m /\ create_src_params_recarray m [100; 101] = Ok r
    /\ rcell r 0 10 = (Some 77, -1) /\ rcell r 1 10 = (Some 101, 2) /\ rcell r 0 11 = (Some 101, 2)
    /\ rcell r 1 11 = (Some 99, -4) /\ rcell r 0 1 = (Some 100, 1) /\ rcell r 1 12 = (None, 0)
    /\ a_grad_keys r [(1%nat, Some 11); (1%nat, Some 10)] = Ok kms /\ dict_keys kms = [1]
    /\ n_floating ds = 2 /\ get_gflp_idx ds 0 = Ok 0.
Proof. cbv zeta. eexists. eexists. eexists. repeat split; vm_compute; reflexivity. Qed.

(* the duplicate-name check of map_param rejects a second parameter under the same local name *)
Example C02_layout_dup_rejected :
  build 1 [mkG 0 false 0 [Some 1]; mkG 6 false 0 [Some 10]; mkG 7 true (5:Z) [Some 10]] = Err KeyError.
Proof. vm_compute. reflexivity. Qed.

(* ---------------------------------------------------------------- extension:
   TrialDataManager.get_values_mask_for_source_mask (the list plumbing behind a partial match) *)
Close Scope R_scope.
Open Scope Z_scope.
Theorem C02_values_mask_length : forall src_mask val_src,
  length (values_mask src_mask val_src) = length val_src.
Proof. exact values_mask_length. Qed.
Print Assumptions C02_values_mask_length.

(* a value entry is selected exactly when its source index is a valid source and that source is
   selected by the source mask: the OR-loop over np.arange(n_sources)[src_mask] is the pointwise test *)
Theorem C02_values_mask_pointwise : forall src_mask val_src v,
  (v < length val_src)%nat ->
  nth v (values_mask src_mask val_src) false
  = (0 <=? nth v val_src 0) && (nth v val_src 0 <? Z.of_nat (length src_mask))
    && nth (Z.to_nat (nth v val_src 0)) src_mask false.
Proof. exact values_mask_pointwise. Qed.
Print Assumptions C02_values_mask_pointwise.

(* with the error path: a boolean mask that does not have n_sources entries raises IndexError,
   otherwise the result has one entry per value and is the source mask read through src_evt_idxs[0] *)
Theorem C02_values_mask_res : forall n src_mask val_src,
  (length src_mask <> n -> values_mask_res n src_mask val_src = Err IndexError)
  /\ (length src_mask = n ->
      exists vm, values_mask_res n src_mask val_src = Ok vm /\ length vm = length val_src
        /\ forall v, (v < length val_src)%nat -> (0 <= nth v val_src 0 < Z.of_nat n) ->
             nth v vm false = nth (Z.to_nat (nth v val_src 0)) src_mask false).
Proof. exact values_mask_res_spec. Qed.
Print Assumptions C02_values_mask_res.

Example C02_values_mask_nonvacuous :
  values_mask_res 3 [true; false; true] [0; 0; 1; 2; 2] = Ok [true; true; false; true; true]
  /\ values_mask_res 3 [true; false] [0; 1] = Err IndexError
  /\ values_mask_res 2 [false; true] [] = Ok [].
Proof. repeat split; vm_compute; reflexivity. Qed.
