(* C06 — a trial's result never depends on earlier trials or evaluations: all
   caches are observationally invisible.  Statements only; every proof is
   `exact <lemma>`.
   `world` = abstract payloads (trial data, source hypotheses, arrays, the PDF /
   interpolation / LLH formulas); `cfg` = which data fields the trial data
   manager has, PDF value caching on/off, Linear1D or Parabola1D.
   `observations W C (init W C s0) ops` = what the objects with caches, freshly
   built for source hypothesis s0, return for the operations ops;
   `srun W C (sinit W C s0) ops` = the cache-free specification. *)
From Coq Require Import ZArith List Bool Lia.
From Sky Require Import Result G_cache M_Cache S_Cache P_Cache.
Import ListNotations.
Open Scope Z_scope.

(* T1: for EVERY history of initialise-trial / evaluate / change-source /
   second-derivative operations, every payload and every configuration without
   a plain (non source-event) global-fit-parameter data field, each returned
   value or raised error equals that of objects without any cache.  With such a
   field (its DataField memo lives in the events array and is keyed by the
   parameter values only) the same holds for every history that follows the
   API protocol `wseq`: no evaluation between a source change and the next
   initialize_trial.  (C06_plain_gfp_memo_refuted: the guard is needed.) *)
Theorem C06_refines_full :
  forall (W : world) (C : cfg),
    (forall x y, glow W x = glow W y -> gup W x = gup W y) ->
    forall (s0 : src W) (ops : list (op W)),
      c_ngfp C <= 0 \/ c_gfp_srcevt C = true \/ wseq W false ops = true ->
      observations W C (init W C s0) ops = srun W C (sinit W C s0) ops.
Proof. exact refines. Qed.
Print Assumptions C06_refines_full.

(* T2: after ANY history `pre`, once a trial is initialised with data d, an
   evaluation at (ns, x) — possibly after further evaluations / second
   derivatives `mid` of that trial — returns exactly what freshly built
   objects for the current source hypothesis return for
   [initialise trial d; evaluate (ns, x)]. *)
Theorem C06_evaluate_as_fresh :
  forall (W : world) (C : cfg),
    (forall x y, glow W x = glow W y -> gup W x = gup W y) ->
    forall (s0 : src W) (pre : list (op W)) (d : data W) (mid : list (op W)) (ns x : Z),
      forallb (is_query W) mid = true ->
      last (observations W C (init W C s0)
              (pre ++ InitTrial W d :: mid ++ [Evaluate W ns x])) (ONone W) =
      last (observations W C (init W C (src_after W s0 pre))
              [InitTrial W d; Evaluate W ns x]) (ONone W).
Proof. exact eval_fresh. Qed.
Print Assumptions C06_evaluate_as_fresh.

(* T3: the second derivative requested after an evaluation of the current trial
   — whether that evaluation returned a value or raised (fix 0119791) — is the
   one freshly built objects return for [initialise trial d; evaluate;
   second derivative]. *)
Theorem C06_ns_grad2_as_fresh :
  forall (W : world) (C : cfg),
    (forall x y, glow W x = glow W y -> gup W x = gup W y) ->
    forall (s0 : src W) (pre : list (op W)) (d : data W) (mid : list (op W)) (ns x : Z)
           (tail : list (op W)) (n : Z),
      forallb (is_query W) mid = true -> forallb (is_ns2 W) tail = true ->
      last (observations W C (init W C s0)
              (pre ++ InitTrial W d :: (mid ++ Evaluate W ns x :: tail) ++ [NsGrad2 W n])) (ONone W) =
      last (observations W C (init W C (src_after W s0 pre))
              [InitTrial W d; Evaluate W ns x; NsGrad2 W n]) (ONone W).
Proof. exact ns2_fresh. Qed.
Print Assumptions C06_ns_grad2_as_fresh.

(* T4: without an evaluation in the current trial the second derivative raises
   RuntimeError whatever earlier trials left behind (holds since fix 42bfd87). *)
Theorem C06_ns_grad2_needs_evaluation :
  forall (W : world) (C : cfg),
    (forall x y, glow W x = glow W y -> gup W x = gup W y) ->
    forall (s0 : src W) (pre : list (op W)) (d : data W) (tail : list (op W)) (n : Z),
      forallb (is_ns2 W) tail = true ->
      last (observations W C (init W C s0)
              (pre ++ InitTrial W d :: tail ++ [NsGrad2 W n])) (ONone W) =
      ONs2 W (Err RuntimeError).
Proof. exact ns2_needs_eval. Qed.
Print Assumptions C06_ns_grad2_needs_evaluation.

(* the premise on the grid holds for the code's ParameterGrid formulas
   lb + intD*delta / lb + (intD+1)*delta (regenerated kernels) BEFORE the two
   np.around steps of the code (np.around(floatD, 9), np.around(gp, decimals)):
   that those roundings keep distinct grid values distinct is NOT proved here
   (it fails only when `decimals` is coarser than the grid spacing) *)
Theorem C06_code_grid :
  forall lb d x y : Z, zlow lb d x = zlow lb d y -> zup lb d x = zup lb d y.
Proof. exact zgrid_ok. Qed.
Print Assumptions C06_code_grid.

(* every key test of the code is an exact comparison of (state id, grid key) *)
Theorem C06_key_tests_exact :
  (forall c s xc x, lin_is_cached c s xc x = true <-> c = Some s /\ xc = x) /\
  (forall c s xc x, par_sid_matches c s && negb (par_key_differs xc x) = true <-> c = Some s /\ xc = x) /\
  (forall c s, pd_cache_invalid c s = false <-> c = Some s) /\
  (forall c s kc k, negb (i3_sid_none c) && negb (i3_sid_differs c s) && negb (i3_key_differs kc k) = true
                    <-> c = Some s /\ kc = k) /\
  (forall x m, gfp_value_differs x m = false <-> m = Some x).
Proof. exact key_tests_exact. Qed.
Print Assumptions C06_key_tests_exact.

(* every change of the trial data state id is a strict increase, and
   initialize_trial always changes it *)
Theorem C06_state_id_bumps :
  (forall s, tdm_init_bump s > s) /\ (forall s, tdm_src_bump s > s) /\ (forall s, tdm_pre_bump s > s) /\
  (forall s, tdm_stat_bump s > s) /\ (forall s, tdm_gfp_bump s > s) /\
  (forall (W : world) (C : cfg) (st : state W) (d : data W), s_sid (init_trial W C st d) > s_sid st).
Proof. exact state_id_bumps. Qed.
Print Assumptions C06_state_id_bumps.

(* T5: two datasets (MultiDatasetTCLLHRatio over two single-dataset functions,
   each with its own trial data manager, PDFs and caches), with or without the
   ns-profile function NsProfileMultiDatasetTCLLHRatio and its remembered
   null-hypothesis value _logL_0: for EVERY history of {initialise trial (both
   datasets), evaluate, change source, second derivative} every observation
   equals that of the cache-free specification `msrun`, in which the
   null-hypothesis value is recomputed from the new trial by every
   initialisation.  (Configurations without a plain global-fit-parameter field.) *)
Theorem C06_multi_refines_full :
  forall (W : world) (C : cfg) (MW : mworld W) (MC : mcfg),
    (forall x y, glow W x = glow W y -> gup W x = gup W y) ->
    c_gfp_srcevt C || (c_ngfp C <=? 0) = true ->
    forall (s0 : src W) (ops : list (mop W)),
      mobservations W C MW MC (minit W C MW s0) ops = msrun W C MW MC (msinit W C MW s0) ops.
Proof. exact mrefines. Qed.
Print Assumptions C06_multi_refines_full.

(* T6: maximisation result and test statistic.  The minimiser is an oracle: ANY
   deterministic strategy `strat` that chooses the next parameter point (or
   stops) from the list of its earlier queries and the values / errors evaluate
   returned for them, any bound `fuel` on the number of queries, any function
   `pick` computing (log_lambda_max, best fit, status) from that list and any
   test statistic `ts` of the result.  After ANY history `xpre` — which may
   itself contain maximisations — in a trial initialised with data d and after
   any evaluations / second derivatives / maximisations `xmid` of that trial, the
   maximisation returns exactly what it returns on freshly built objects for the
   current source hypothesis, and so does the test statistic.  Holds for every
   configuration (no guard on global-fit-parameter fields). *)
Theorem C06_maximize_and_ts_as_fresh :
  forall (W : world) (C : cfg),
    (forall x y, glow W x = glow W y -> gup W x = gup W y) ->
    forall (MaxOut TS : Type) (strat : qlog W -> option (Z * Z)) (pick : qlog W -> MaxOut) (ts : MaxOut -> TS)
           (s0 : src W) (xpre : list (xop W)) (d : data W) (xmid : list (xop W)) (fuel : nat),
      forallb (xis_query W) xmid = true ->
      let used := snd (maximize W C MaxOut strat pick fuel
                         (xfinal W C MaxOut strat pick (init W C s0) (xpre ++ XOp W (InitTrial W d) :: xmid))) in
      let fresh := snd (maximize W C MaxOut strat pick fuel
                          (mfinal W C (init W C (xsrc_after W s0 xpre)) [InitTrial W d])) in
      used = fresh /\ ts used = ts fresh.
Proof. exact xmaximize_and_ts_as_fresh. Qed.
Print Assumptions C06_maximize_and_ts_as_fresh.

(* T7: with SplinedI3EnergySigSetOverBkgPDFRatio (its own cache of the ratio
   and gradients, keyed by state id and interpolation parameter, in front of the
   interpolation method) every observation of every history equals that of the
   same cache-free specification.  (Configurations without a plain
   global-fit-parameter field.) *)
Theorem C06_i3_ratio_cache_refines_full :
  forall (W : world) (C : cfg),
    (forall x y, glow W x = glow W y -> gup W x = gup W y) ->
    c_gfp_srcevt C || (c_ngfp C <=? 0) = true ->
    forall (s0 : src W) (ops : list (op W)),
      i3observations W C (i3init W C s0) ops = srun W C (sinit W C s0) ops.
Proof. exact i3refines. Qed.
Print Assumptions C06_i3_ratio_cache_refines_full.

(* T5' / T7': the refinement theorems T1, T5, T7 compare with specifications
   that keep what the objects are GIVEN between operations (the trial and the
   source it was initialised for, the ns-gradients of the last evaluation, the
   null-hypothesis value of the trial, the weight factors of the last
   evaluation) and are therefore not history-free by themselves.  The property
   itself — after ANY history a new trial behaves like on freshly built objects
   — is stated for each machine: T2/T3/T4/T6 (single dataset), and here for the
   i3 ratio machine and the two-dataset / ns-profile machine. *)
Theorem C06_i3_evaluate_as_fresh :
  forall (W : world) (C : cfg),
    (forall x y, glow W x = glow W y -> gup W x = gup W y) ->
    c_gfp_srcevt C || (c_ngfp C <=? 0) = true ->
    forall (s0 : src W) (pre : list (op W)) (d : data W) (mid : list (op W)) (ns x : Z),
      forallb (is_query W) mid = true ->
      last (i3observations W C (i3init W C s0) (pre ++ InitTrial W d :: mid ++ [Evaluate W ns x])) (ONone W) =
      last (i3observations W C (i3init W C (src_after W s0 pre)) [InitTrial W d; Evaluate W ns x]) (ONone W).
Proof. exact i3_eval_fresh. Qed.
Print Assumptions C06_i3_evaluate_as_fresh.

Theorem C06_i3_ns_grad2_as_fresh :
  forall (W : world) (C : cfg),
    (forall x y, glow W x = glow W y -> gup W x = gup W y) ->
    c_gfp_srcevt C || (c_ngfp C <=? 0) = true ->
    forall (s0 : src W) (pre : list (op W)) (d : data W) (mid : list (op W)) (ns x : Z) (tail : list (op W)) (n : Z),
      forallb (is_query W) mid = true -> forallb (is_ns2 W) tail = true ->
      last (i3observations W C (i3init W C s0)
              (pre ++ InitTrial W d :: (mid ++ Evaluate W ns x :: tail) ++ [NsGrad2 W n])) (ONone W) =
      last (i3observations W C (i3init W C (src_after W s0 pre)) [InitTrial W d; Evaluate W ns x; NsGrad2 W n]) (ONone W).
Proof. exact i3_ns2_fresh. Qed.
Print Assumptions C06_i3_ns_grad2_as_fresh.

(* two datasets, with or without the ns-profile function: [initialise both
   trials; evaluate] after ANY history equals the same on freshly built objects
   for the current source hypothesis.  With the ns-profile function the premise
   says that the null-hypothesis evaluation of the new trial returns a value on
   fresh objects (if it raises, initialize_for_new_trial raises and _logL_0 keeps
   the previous trial's value — the caller sees the exception). *)
Theorem C06_multi_evaluate_as_fresh :
  forall (W : world) (C : cfg) (MW : mworld W) (MC : mcfg),
    (forall x y, glow W x = glow W y -> gup W x = gup W y) ->
    c_gfp_srcevt C || (c_ngfp C <=? 0) = true ->
    forall (s0 : src W) (pre : list (mop W)) (d1 d2 : data W) (ns x : Z),
      m_profile MC = false \/
      hd (MNone W MW) (mobservations W C MW MC (minit W C MW (msrc_after W s0 pre)) [MInit W d1 d2]) = MInitO W MW (Ok 0) ->
      last (mobservations W C MW MC (minit W C MW s0) (pre ++ [MInit W d1 d2; MEval W ns x])) (MNone W MW) =
      last (mobservations W C MW MC (minit W C MW (msrc_after W s0 pre)) [MInit W d1 d2; MEval W ns x]) (MNone W MW).
Proof. exact multi_eval_fresh. Qed.
Print Assumptions C06_multi_evaluate_as_fresh.

(* The remaining guard of T2 / T3 (a source change is followed by a new trial) is necessary for the code as it is: *)
Theorem C06_source_change_without_new_trial_refuted :
  exists (W : world) (C : cfg) (s0 s1 : src W) (d : data W) (ns x : Z),
    last (observations W C (init W C s0)
            [InitTrial W d; ChangeSource W s1; Evaluate W ns x]) (ONone W)
    <> last (observations W C (init W C s1) [InitTrial W d; Evaluate W ns x]) (ONone W).
Proof. exact source_change_without_new_trial_refuted. Qed.
Print Assumptions C06_source_change_without_new_trial_refuted.

Theorem C06_plain_gfp_memo_refuted :
  exists (W : world) (C : cfg) (s0 : src W) (ops : list (op W)),
    (forall x y, glow W x = glow W y -> gup W x = gup W y) /\
    observations W C (init W C s0) ops <> srun W C (sinit W C s0) ops.
Proof. exact plain_gfp_memo_refuted. Qed.
Print Assumptions C06_plain_gfp_memo_refuted.

(* non-vacuity: a concrete history in which caches are hit (empty traces),
   partially hit, invalidated by a new trial and by a source change, with
   successful outputs; the grid premise holds for that world. *)
Example C06_nonvacuous :
  let W := wfree 100 100 100 400 in
  let C := mkcfg 1 0 1 true false 0 false in
  (forall x y, glow W x = glow W y -> gup W x = gup W y) /\
  map (fun r => (snd (fst r), snd r))
      (run W C (init W C 7)
         [InitTrial W 1; Evaluate W 5 250; Evaluate W 6 225; Evaluate W 5 350;
          InitTrial W 2; Evaluate W 5 350; ChangeSource W 8; InitTrial W 2; Evaluate W 5 350])
  = [([], 2); ([TF 200; TP 200; TF 300; TP 300; TB], 2); ([], 2); ([TF 300; TF 400; TP 400], 2);
     ([], 4); ([TF 300; TP 300; TF 400; TP 400; TB], 4); ([], 5); ([], 7);
     ([TF 300; TP 300; TF 400; TP 400; TB], 7)] /\
  forallb (fun o => match o with OEval _ (Err _) | ONs2 _ (Err _) => false | _ => true end)
      (observations W C (init W C 7)
         [InitTrial W 1; Evaluate W 5 250; Evaluate W 6 225; NsGrad2 W 6]) = true.
Proof. split; [exact (wfree_grid_ok 100 100 100 400) | split; vm_compute; reflexivity]. Qed.

(* the DataField memo: a plain field is recalculated (TG) for a new parameter
   value and in a new trial, re-used for the same value within a trial; a
   source-event field is recalculated at every evaluation; every evaluation
   changes the state id, so the id-keyed caches always miss; the protocol guard
   of T1 is satisfiable *)
Example C06_nonvacuous_gfp :
  let W := wfree 100 100 100 400 in
  let ops := [InitTrial W 1; Evaluate W 5 250; Evaluate W 6 250; Evaluate W 5 225;
              InitTrial W 2; Evaluate W 5 225] in
  map (fun r => (snd (fst r), snd r))
      (run W (mkcfg 0 0 0 true false 1 false) (init W (mkcfg 0 0 0 true false 1 false) 7) ops)
  = [([], 0); ([TG; TF 200; TP 200; TF 300; TP 300; TB], 1); ([TF 200; TP 200; TF 300; TP 300; TB], 2);
     ([TG; TF 200; TP 200; TF 300; TP 300; TB], 3); ([], 4); ([TG; TF 200; TP 200; TF 300; TP 300; TB], 5)] /\
  map (fun r => snd (fst r))
      (run W (mkcfg 0 0 0 true false 1 true) (init W (mkcfg 0 0 0 true false 1 true) 7) ops)
  = [[]; [TG; TF 200; TP 200; TF 300; TP 300; TB]; [TG; TF 200; TP 200; TF 300; TP 300; TB];
     [TG; TF 200; TP 200; TF 300; TP 300; TB]; []; [TG; TF 200; TP 200; TF 300; TP 300; TB]] /\
  wseq W false (ops ++ [ChangeSource W 8; InitTrial W 1; Evaluate W 5 250]) = true.
Proof. repeat split; vm_compute; reflexivity. Qed.

(* two datasets with the ns-profile function and mean_n_sig_0 = 3: the second
   trial's evaluation equals the one on freshly built objects and is computed
   from the second trial's data (provenance element 8: data id of dataset 0) *)
Example C06_nonvacuous_profile :
  let W := wfree 100 100 100 400 in
  let C := mkcfg 0 0 0 true false 0 false in
  let MW := mwfree 100 100 100 400 in
  let MC := mkmcfg true 3 250 in
  map (fun r => snd r) (mrun W C MW MC (minit W C MW 7) [MInit W 1 2; MEval W 5 250; MInit W 3 4; MEval W 5 250; MNs2 W 5])
    = [(0, 0); (0, 0); (1, 1); (1, 1); (1, 1)] /\
  nth 3 (mobservations W C MW MC (minit W C MW 7) [MInit W 1 2; MEval W 5 250; MInit W 3 4; MEval W 5 250]) (MNone W MW)
    = nth 1 (mobservations W C MW MC (minit W C MW 7) [MInit W 3 4; MEval W 5 250]) (MNone W MW) /\
  (fun o : mobs W MW => match o with MEvalO _ _ (Ok l) => nth 8 (l : list Z) 0 | _ => 0 end)
    (nth 1 (mobservations W C MW MC (minit W C MW 7) [MInit W 1 2; MEval W 5 250]) (MNone W MW)) = 1 /\
  (fun o : mobs W MW => match o with MEvalO _ _ (Ok l) => nth 8 (l : list Z) 0 | _ => 0 end)
    (nth 1 (mobservations W C MW MC (minit W C MW 7) [MInit W 3 4; MEval W 5 250]) (MNone W MW)) = 3.
Proof. repeat split; vm_compute; reflexivity. Qed.

(* a concrete minimiser (three queries moving through two grid cells, result =
   the list of queried points with Ok/Err flags) on used and on fresh objects *)
Example C06_nonvacuous_maximize :
  let W := wfree 100 100 100 400 in
  let C := mkcfg 1 0 1 true false 1 false in
  let strat := fun h : qlog W => if (length h <? 3)%nat then Some (5, 250 + 60 * Z.of_nat (length h)) else None in
  let pick := fun h : qlog W => map (fun q => (fst q, match snd q with Ok _ => true | Err _ => false end)) h in
  snd (maximize W C _ strat pick 10
         (xfinal W C _ strat pick (init W C 7)
            [XOp W (InitTrial W 1); XMax W 10; XOp W (ChangeSource W 8); XOp W (InitTrial W 2);
             XOp W (Evaluate W 6 225); XMax W 2; XOp W (NsGrad2 W 5)]))
  = [((5, 250), true); ((5, 310), true); ((5, 370), true)] /\
  snd (maximize W C _ strat pick 10 (mfinal W C (init W C 8) [InitTrial W 2]))
  = [((5, 250), true); ((5, 310), true); ((5, 370), true)].
Proof. split; vm_compute; reflexivity. Qed.

(* two global-fit-parameter fields on different parameters (interpolation
   parameter, ns): each is recalculated exactly when its own parameter changed,
   and every evaluation changes the state id whichever field was recalculated
   (seeded defect C06-5: only the last-registered field decided) *)
Example C06_nonvacuous_two_gfp_fields :
  let W := wfree 100 100 100 400 in
  let C := mkcfg 0 0 0 true false 2 false in
  map (fun r => (filter (fun e => match e with TG | TG2 => true | _ => false end) (snd (fst r)), snd r))
      (run W C (init W C 7) [InitTrial W 1; Evaluate W 5 250; Evaluate W 5 350; Evaluate W 6 350; Evaluate W 6 350])
  = [([], 0); ([TG; TG2], 1); ([TG], 2); ([TG2], 3); ([], 4)].
Proof. vm_compute. reflexivity. Qed.

(* the i3 ratio cache is hit by a repeated evaluation at the same parameter
   value (no manifold call), missed for another value of the same grid cell
   (the line cache below it is hit: no manifold call either, but the ratio is
   recomputed), and invalidated by a new trial *)
Example C06_nonvacuous_i3 :
  let W := wfree 100 100 100 400 in
  let C := mkcfg 0 0 0 false false 0 false in
  map (fun r => (snd (fst r), snd r))
      (i3run W C (i3init W C 7) [InitTrial W 1; Evaluate W 5 250; Evaluate W 6 250; Evaluate W 5 225;
                                 InitTrial W 2; Evaluate W 5 225])
  = [([], 0); ([TF 200; TP 200; TF 300; TP 300], 0); ([], 0); ([], 0); ([], 1); ([TF 200; TP 200; TF 300; TP 300], 1)].
Proof. vm_compute. reflexivity. Qed.

(* after an evaluation that raised (grid value without PDF) the second
   derivative raises, on used objects as on fresh ones (fix 0119791) *)
Example C06_ns_grad2_after_failed_evaluate :
  let W := wfree 100 100 100 400 in
  let C := mkcfg 0 0 0 true false 0 false in
  last (observations W C (init W C 7) [InitTrial W 1; Evaluate W 5 250; Evaluate W 5 950; NsGrad2 W 5]) (ONone W)
    = ONs2 W (Err RuntimeError) /\
  last (observations W C (init W C 7) [InitTrial W 1; Evaluate W 5 950; NsGrad2 W 5]) (ONone W)
    = ONs2 W (Err RuntimeError).
Proof. split; vm_compute; reflexivity. Qed.
