(* C05 — Event selection keeps exactly the qualifying pairs with a valid index map.
   Statements only; every proof is `exact <lemma>`.

   Reading guide.  `run m srcs evs inc` is the model of `m.select_events(events,
   src_evt_idxs=inc, ret_original_evt_idxs=True)` for a method tree m (All, DecBand /
   RABand, SpatialBox with its batch size, PsiFunc, AngErrOfPsi, `&`); the result has the
   selected events `s_events`, the (source, event) index table `s_tbl` and the original
   indices `s_orig`.  `crit_of m ns s e` is the documented criterion of m for source s and
   event e; `cidx c srcs evs k j` reads it at source index k and event index j.
   `lexlt` is the strict lexicographic order on (source, event) pairs: a table sorted by it
   is duplicate-free and grouped by ascending source. *)
From Coq Require Import ZArith List Bool Lia Sorting.Sorted Permutation.
From Coq Require Import Reals.
From Sky Require Import Result PyList Num NumR G_select M_Select M_SelectNum M_SelectTdm S_Select S_SelectNum P_Select P_SelectNum P_SelectTdm P_SelectInst.
Import ListNotations.
Local Open Scope nat_scope.

Theorem C05_cidx : forall (S E : Type) (c : S -> E -> bool) srcs evs k j,
  cidx c srcs evs k j = true <->
  exists s e, nth_error srcs k = Some s /\ nth_error evs j = Some e /\ c s e = true.
Proof. exact @cidx_true. Qed.
Print Assumptions C05_cidx.

(* Every method tree, any number of sources >= 1, any number of events:
   events = original-order filter of "some source qualifies"; the table is strictly
   ascending by (source, event), its indices point into the returned events, every
   returned event is listed, and (k, b) is listed iff returned event b (original index j)
   meets the criterion for source k. *)
Theorem C05_select : forall (S E : Type) (m : meth S E) (srcs : list S) (evs : list E),
  let ns := length srcs in
  let c := cidx (crit_of m ns) srcs evs in
  0 < ns -> wf_meth m ns ->
  exists r orig,
    run m srcs evs None = Ok r
    /\ orig = filter (fun j => existsb (fun k => c k j) (seq 0 ns)) (seq 0 (length evs))
    /\ s_orig r = map Z.of_nat orig
    /\ Forall2 (fun e j => nth_error evs j = Some e) (s_events r) orig
    /\ StronglySorted lexlt (s_tbl r)
    /\ (forall p, In p (s_tbl r) ->
          (0 <= fst p < Z.of_nat ns)%Z /\ (0 <= snd p < Z.of_nat (length (s_events r)))%Z)
    /\ (forall k b, In (Z.of_nat k, Z.of_nat b) (s_tbl r) <->
          k < ns /\ exists j, nth_error orig b = Some j /\ c k j = true)
    /\ (forall b, b < length (s_events r) -> exists k, In (Z.of_nat k, Z.of_nat b) (s_tbl r)).
Proof. exact @select_full. Qed.
Print Assumptions C05_select.

(* The same with an incoming table t0 (what an earlier method in a chain hands on):
   a pair is kept iff it is listed in t0 and meets the criterion; the outgoing table
   again satisfies the precondition tbl_ok of the next method. *)
Theorem C05_incoming : forall (S E : Type) (m : meth S E) (srcs : list S) (evs : list E) (t0 : tbl),
  let ns := length srcs in
  let c := fun k j => inc_has (Some t0) k j && cidx (crit_of m ns) srcs evs k j in
  0 < ns -> wf_meth m ns -> tbl_ok ns (length evs) t0 ->
  exists r orig,
    run m srcs evs (Some t0) = Ok r
    /\ orig = filter (fun j => existsb (fun k => c k j) (seq 0 ns)) (seq 0 (length evs))
    /\ s_orig r = map Z.of_nat orig
    /\ Forall2 (fun e j => nth_error evs j = Some e) (s_events r) orig
    /\ tbl_ok ns (length (s_events r)) (s_tbl r)
    /\ (forall k b, In (Z.of_nat k, Z.of_nat b) (s_tbl r) <->
          k < ns /\ exists j, nth_error orig b = Some j /\ c k j = true).
Proof. exact @select_incoming. Qed.
Print Assumptions C05_incoming.

Theorem C05_inc_has : forall t k j,
  inc_has (Some t) k j = true <-> In (Z.of_nat k, Z.of_nat j) t.
Proof. exact inc_has_In. Qed.
Print Assumptions C05_inc_has.

(* Chaining a & b: both stages run (b on the events and the table a returns), the
   original indices are composed (s_orig r [i] = s_orig r1 [ s_orig r2 [i] ]), and the
   result is the selection for the conjunction of the two criteria on the original events. *)
Theorem C05_chain : forall (S E : Type) (a b : meth S E) (srcs : list S) (evs : list E),
  let ns := length srcs in
  0 < ns -> wf_meth a ns -> wf_meth b ns ->
  exists r1 r2 r orig,
    run a srcs evs None = Ok r1
    /\ run b srcs (s_events r1) (Some (s_tbl r1)) = Ok r2
    /\ run (MAnd a b) srcs evs None = Ok r
    /\ s_events r = s_events r2 /\ s_tbl r = s_tbl r2
    /\ Forall2 (fun o o2 => exists p, o2 = Z.of_nat p /\ nth_error (s_orig r1) p = Some o)
               (s_orig r) (s_orig r2)
    /\ s_orig r = map Z.of_nat orig
    /\ orig = filter (fun j => existsb (fun k => cidx (crit_of a ns) srcs evs k j
                                                && cidx (crit_of b ns) srcs evs k j) (seq 0 ns))
                     (seq 0 (length evs))
    /\ Forall2 (fun e j => nth_error evs j = Some e) (s_events r) orig
    /\ (forall k p, In (Z.of_nat k, Z.of_nat p) (s_tbl r) <->
          k < ns /\ exists j, nth_error orig p = Some j
                              /\ cidx (crit_of a ns) srcs evs k j = true
                              /\ cidx (crit_of b ns) srcs evs k j = true).
Proof. exact @chain_full. Qed.
Print Assumptions C05_chain.

(* SpatialBox: filling mask_ra in batches of bs sources gives the unbatched broadcast
   for every number of sources and every batch size > 0 (the code uses 128) ... *)
Theorem C05_batching : forall (S : Type) (rowf : S -> list bool) (srcs : list S) (ne : nat) (bs : Z),
  (0 < bs)%Z -> fill_batches bs rowf srcs ne = Ok (map rowf srcs).
Proof. exact fill_batches_spec. Qed.
Print Assumptions C05_batching.

(* ... hence the selection does not depend on the batch size *)
Theorem C05_batch_indep : forall (S E : Type) (bs bs' : Z) (cra cdec : S -> E -> bool) srcs evs inc,
  (0 < bs)%Z -> (0 < bs')%Z ->
  run (MBox bs cra cra cdec) srcs evs inc = run (MBox bs' cra cra cdec) srcs evs inc.
Proof. exact @box_batch_indep. Qed.
Print Assumptions C05_batch_indep.

(* TrialDataManager.initialize_trial with a selection method and an index field.
   For every argsort that returns a permutation of 0..n-1: the stored events are the
   selected events in sorted order (ev2[i] = selected[argsort[i]]), orig2 gives their
   original indices (a permutation of the qualifying events), the stored table keeps
   the source column (so it stays grouped by ascending source), is duplicate-free, in
   range, and (k, b) is listed iff the event now at position b qualifies for source k. *)
Theorem C05_tdm_sort : forall (S E : Type) (argsort : list E -> list Z),
  (forall l, Permutation (argsort l) (map Z.of_nat (seq 0 (length l)))) ->
  forall (srcs : list S), 0 < length srcs ->
  forall (m : meth S E) (evs : list E),
    let ns := length srcs in
    let c := cidx (crit_of m ns) srcs evs in
    wf_meth m ns ->
    exists r1 ev2 t2 orig2,
      run m srcs evs None = Ok r1
      /\ tdm_init argsort (Some m) srcs evs true = Ok (ev2, t2)
      /\ Permutation orig2
           (filter (fun j => existsb (fun k => c k j) (seq 0 ns)) (seq 0 (length evs)))
      /\ Forall2 (fun e j => nth_error evs j = Some e) ev2 orig2
      /\ Forall2 (fun e z => nth_error (s_events r1) (Z.to_nat z) = Some e) ev2 (argsort (s_events r1))
      /\ map fst t2 = map fst (s_tbl r1)
      /\ NoDup t2
      /\ (forall q, In q t2 -> (0 <= fst q < Z.of_nat ns)%Z /\ (0 <= snd q < Z.of_nat (length ev2))%Z)
      /\ (forall k b, In (Z.of_nat k, Z.of_nat b) t2 <->
            k < ns /\ exists j, nth_error orig2 b = Some j /\ c k j = true).
Proof. exact tdm_sort_full. Qed.
Print Assumptions C05_tdm_sort.

(* without an index field the selection result is stored as it is *)
Theorem C05_tdm_nosort : forall (S E : Type) (argsort : list E -> list Z) srcs (m : meth S E) evs,
  tdm_init argsort (Some m) srcs evs false
  = (do r <- run m srcs evs None; Ok (s_events r, s_tbl r)).
Proof. exact tdm_nosort. Qed.
Print Assumptions C05_tdm_nosort.

(* without a selection method every event is paired with every source *)
Theorem C05_tdm_nosel : forall (S E : Type) (argsort : list E -> list Z),
  (forall l, Permutation (argsort l) (map Z.of_nat (seq 0 (length l)))) ->
  forall (srcs : list S), 0 < length srcs ->
  forall (evs : list E) (index_field : bool),
    exists ev2, tdm_init argsort None srcs evs index_field = Ok (ev2, full_tbl (length srcs) (length ev2))
      /\ tbl_ok (length srcs) (length ev2) (full_tbl (length srcs) (length ev2))
      /\ (if index_field
          then Forall2 (fun e z => nth_error evs (Z.to_nat z) = Some e) ev2 (argsort evs)
          else ev2 = evs).
Proof. exact tdm_nosel. Qed.
Print Assumptions C05_tdm_nosel.

(* ---- deepening ---------------------------------------------------------------- *)

(* PsiFunc and the number of sources.  wf_meth = the other side conditions (wf_other) plus
   "a tree containing PsiFunc has exactly one source" ... *)
Theorem C05_wf_split : forall (S E : Type) (m : meth S E) (ns : nat),
  wf_meth m ns <-> wf_other m /\ (has_psi m = true -> ns = 1).
Proof. exact @wf_split. Qed.
Print Assumptions C05_wf_split.

(* ... and the guard is needed: with any other number of sources every tree containing a
   PsiFunc raises ValueError (the real constructor raises it even earlier), whatever the
   events and the incoming table.  Together with C05_select: for trees meeting wf_other,
   select_events succeeds iff (PsiFunc present -> one source). *)
Theorem C05_psifunc_guard : forall (S E : Type) (srcs : list S), 0 < length srcs ->
  forall (m : meth S E) (evs : list E) (inc : option tbl),
    length srcs <> 1 -> wf_other m -> has_psi m = true -> inc_ok (length srcs) (length evs) inc ->
    run m srcs evs inc = Err ValueError.
Proof. exact psi_guard. Qed.
Print Assumptions C05_psifunc_guard.

(* original_evt_idxs for arbitrarily nested intersections: strictly ascending, and
   events[original_evt_idxs] are the returned events *)
Theorem C05_orig_maps_back : forall (S E : Type) (m : meth S E) (srcs : list S) (evs : list E),
  0 < length srcs -> wf_meth m (length srcs) ->
  exists r, run m srcs evs None = Ok r
    /\ Forall2 (fun e o => (0 <= o)%Z /\ nth_error evs (Z.to_nat o) = Some e) (s_events r) (s_orig r)
    /\ StronglySorted Z.lt (s_orig r).
Proof. exact @orig_maps_back. Qed.
Print Assumptions C05_orig_maps_back.

(* tdm_post written out (nothing hidden in the definition) *)
Theorem C05_tdm_post_unfold : forall (E : Type) (argsort : list E -> list Z) (ns : nat)
    (c : nat -> nat -> bool) (b : bool) (evs ev2 : list E) (t2 : tbl),
  tdm_post argsort ns c b evs ev2 t2 <->
  (let quals := filter (fun j => existsb (fun k => c k j) (seq 0 ns)) (seq 0 (length evs)) in
   exists orig2,
     Permutation orig2 quals
     /\ (b = false -> orig2 = quals)
     /\ Forall2 (fun e j => nth_error evs j = Some e) ev2 orig2
     /\ (b = true -> exists ev1,
           Forall2 (fun e j => nth_error evs j = Some e) ev1 quals
           /\ Forall2 (fun e z => nth_error ev1 (Z.to_nat z) = Some e) ev2 (argsort ev1))
     /\ StronglySorted (fun p q => (fst p <= fst q)%Z) t2
     /\ NoDup t2
     /\ (forall q, In q t2 -> (0 <= fst q < Z.of_nat ns)%Z /\ (0 <= snd q < Z.of_nat (length ev2))%Z)
     /\ (forall k p, In (Z.of_nat k, Z.of_nat p) t2 <->
           k < ns /\ exists j, nth_error orig2 p = Some j /\ c k j = true)
     /\ (forall p, p < length ev2 -> exists k, In (Z.of_nat k, Z.of_nat p) t2)).
Proof. intros. apply iff_refl. Qed.
Print Assumptions C05_tdm_post_unfold.

(* initialize_trial, top level: EVERY method tree or no method (criterion "every pair": the
   default full mapping), with and without an index field, every argsort that returns a
   permutation: the stored events are the qualifying events (in original order without index
   field, permuted by argsort with it), the stored table is grouped by ascending source,
   duplicate-free, in range, lists every stored event, and (k, p) is stored iff the event
   now at position p qualifies for source k. *)
Theorem C05_tdm : forall (S E : Type) (argsort : list E -> list Z),
  (forall l, Permutation (argsort l) (map Z.of_nat (seq 0 (length l)))) ->
  forall (srcs : list S), 0 < length srcs ->
  forall (m : option (meth S E)) (evs : list E) (b : bool),
    wf_opt m (length srcs) ->
    exists ev2 t2, tdm_init argsort m srcs evs b = Ok (ev2, t2)
                   /\ tdm_post argsort (length srcs) (crit_opt m srcs evs) b evs ev2 t2.
Proof. exact tdm_full. Qed.
Print Assumptions C05_tdm.

(* the re-used manager (state machine over trials; the reset `_src_evt_idxs = None` and the
   `is None` tests are translated statements): whatever the manager held ... *)
Theorem C05_tdm_trial_fresh : forall (S E : Type) (argsort : list E -> list Z) (srcs : list S)
    (st : tstate E) (m : option (meth S E)) (evs : list E),
  tdm_trial argsort st m srcs evs
  = (do r <- tdm_init argsort m srcs evs (td_index st);
     Ok {| td_events := fst r; td_tbl := Some (snd r); td_nsrc := length srcs; td_index := td_index st |}).
Proof. exact tdm_trial_init. Qed.
Print Assumptions C05_tdm_trial_fresh.

(* ... so after ANY history of operations (trials with any methods / sources / events,
   index_field_name changes) a trial succeeds, stores exactly what initialize_trial computes
   from its own arguments and the index-field setting in force, and the property holds *)
Theorem C05_tdm_history : forall (S E : Type) (argsort : list E -> list Z),
  (forall l, Permutation (argsort l) (map Z.of_nat (seq 0 (length l)))) ->
  forall (st0 : tstate E) (ops : list (top S E)) (st : tstate E)
         (m : option (meth S E)) (srcs : list S) (evs : list E),
    0 < length srcs -> wf_opt m (length srcs) ->
    tdm_run argsort st0 ops = Ok st ->
    let b := last_index (td_index st0) ops in
    exists ev2 t2,
      tdm_run argsort st0 (ops ++ [TTrial m srcs evs])
      = Ok {| td_events := ev2; td_tbl := Some t2; td_nsrc := length srcs; td_index := b |}
      /\ tdm_init argsort m srcs evs b = Ok (ev2, t2)
      /\ tdm_post argsort (length srcs) (crit_opt m srcs evs) b evs ev2 t2.
Proof. exact tdm_history. Qed.
Print Assumptions C05_tdm_history.

(* the premise "argsort returns a permutation" is met by an actual sorting procedure
   (insertion sort on the integer keys; used for np.argsort in the correspondence) *)
Theorem C05_zargsort_perm : forall l : list Z,
  Permutation (zargsort l) (map Z.of_nat (seq 0 (length l))).
Proof. exact zargsort_perm. Qed.
Print Assumptions C05_zargsort_perm.

(* select_events WITHOUT ret_original_evt_idxs — for IntersectionEventSelectionMethod a separate
   branch of the code (both methods called without the flag, no np.take; pinned by the kernel
   ix_shape) and the one TrialDataManager.initialize_trial uses (tdm_init is built on run_nr):
   for every tree, every input, incoming table and every error it returns what the flag=True
   branch returns minus the original indices *)
Theorem C05_run_nr : forall (S E : Type) (m : meth S E) (srcs : list S) (evs : list E) (inc : option tbl),
  run_nr m srcs evs inc = (do r <- run m srcs evs inc; Ok (s_events r, s_tbl r)).
Proof. exact @run_nr_eq. Qed.
Print Assumptions C05_run_nr.

(* ---- the criteria themselves, at the real-number reading of the translated formulas
   (RNum erf: the Num instance over R; erf is irrelevant here).  Float rounding is not
   claimed. *)

(* DecBand / SpatialBox (after fix a53f3be): declination within delta of the source's, the
   band edges are NOT clipped for the comparison, so an event at a pole is inside the band of
   a source whose band reaches the pole *)
Theorem C05_dec_crit : forall (erf : R -> R) (d s e : R),
  (dec_crit (RNum erf) d s e = true <-> (s - d < e < s + d)%R)
  /\ (dec_crit (RNum erf) d s e = true <-> (Rabs (e - s) < d)%R).
Proof. intros erf d s e. split; [exact (dec_crit_R erf d s e)|exact (dec_crit_abs erf d s e)]. Qed.
Print Assumptions C05_dec_crit.

(* the clipped band (used only for the RA half width) stays within [-pi/2, pi/2] *)
Theorem C05_band_in_range : forall (erf : R -> R) (s d : R),
  ((- PI / 2 <= rb_dec_minus (RNum erf) s d /\ rb_dec_plus (RNum erf) s d <= PI / 2)
   /\ (- PI / 2 <= sb_dec_minus (RNum erf) s d /\ sb_dec_plus (RNum erf) s d <= PI / 2))%R.
Proof. exact band_in_range. Qed.
Print Assumptions C05_band_in_range.

Theorem C05_box_dec_same : forall (erf : R -> R) (d s e : R),
  box_dec_crit (RNum erf) d s e = dec_crit (RNum erf) d s e.
Proof. exact box_dec_crit_R. Qed.
Print Assumptions C05_box_dec_same.

(* the RA half width lies in [0, 2 pi]; RABand and SpatialBox use the same one *)
Theorem C05_half_range : forall (erf : R -> R) (d s : R),
  (0 <= rb_half (RNum erf) d s <= 2 * PI)%R /\ sb_half (RNum erf) d s = rb_half (RNum erf) d s.
Proof. intros erf d s. split; [exact (half_range erf d s)|exact (half_same erf d s)]. Qed.
Print Assumptions C05_half_range.

(* the wrapped RA distance of RABand is in [0, pi] for all inputs *)
Theorem C05_ra_dist_range : forall (erf : R -> R) (e s : R),
  (0 <= rb_ra_dist (RNum erf) e s <= PI)%R.
Proof. exact ra_dist_range. Qed.
Print Assumptions C05_ra_dist_range.

(* np.mod coding (RABand) = folded np.mod coding (SpatialBox, after fix f511812) for ALL right
   ascensions, normalised or not: the two methods keep the same (source, event) pairs in RA *)
Theorem C05_ra_codings_agree : forall (erf : R -> R) (d sra sdec era : R),
  rb_ra_dist (RNum erf) era sra = sb_ra_mod (RNum erf) (sb_ra_diff (RNum erf) era sra)
  /\ raband_crit (RNum erf) d sra sdec era = box_ra_crit (RNum erf) d sra sdec era.
Proof.
  intros erf d sra sdec era.
  split; [exact (ra_codings_agree erf era sra)|exact (raband_box_same erf d sra sdec era)].
Qed.
Print Assumptions C05_ra_codings_agree.

(* closed form of the RA distance: for the multiple k of 2 pi nearest to the RA difference it is
   |era - sra - 2 pi k| (the distance on the circle), for all right ascensions *)
Theorem C05_ra_dist_circle : forall (erf : R -> R) (e s : R) (k : Z),
  (Rabs (e - s - IZR k * (2 * PI)) <= PI)%R ->
  rb_ra_dist (RNum erf) e s = Rabs (e - s - IZR k * (2 * PI))%R.
Proof. exact ra_dist_circle. Qed.
Print Assumptions C05_ra_dist_circle.

(* the batched and the unbatched copy of the RA mask in SpatialBox are the same criterion
   (the premise of wf_meth for MBox) *)
Theorem C05_box_ra_copies : forall (erf : R -> R) (d sra sdec era : R),
  box_ra_crit_b (RNum erf) d sra sdec era = box_ra_crit (RNum erf) d sra sdec era.
Proof. exact box_ra_copies. Qed.
Print Assumptions C05_box_ra_copies.

(* angular_separation (used by AngErrOfPsi) returns an angle in [0, pi] for all inputs *)
Theorem C05_angsep_range : forall (erf : R -> R) (ra1 dec1 ra2 dec2 : R),
  (0 <= angsep (RNum erf) ra1 dec1 ra2 dec2 <= PI)%R.
Proof. exact angsep_range. Qed.
Print Assumptions C05_angsep_range.

(* angular_separation IS the great-circle distance, for all right ascensions and
   declinations (no range restriction, in particular across the RA seam): the angle whose
   cosine is the scalar product of the two unit vectors *)
Theorem C05_angsep_great_circle : forall (erf : R -> R) (ra1 dec1 ra2 dec2 : R),
  angsep (RNum erf) ra1 dec1 ra2 dec2
  = acos (sin dec1 * sin dec2 + cos dec1 * cos dec2 * cos (ra1 - ra2))%R.
Proof. exact angsep_great_circle. Qed.
Print Assumptions C05_angsep_great_circle.

Theorem C05_angsep_turn_sym : forall (erf : R -> R) (ra1 dec1 ra2 dec2 : R) (k : nat),
  angsep (RNum erf) (ra1 + 2 * INR k * PI)%R dec1 ra2 dec2 = angsep (RNum erf) ra1 dec1 ra2 dec2
  /\ angsep (RNum erf) ra1 dec1 ra2 dec2 = angsep (RNum erf) ra2 dec2 ra1 dec1.
Proof. intros erf ra1 dec1 ra2 dec2 k. split; [exact (angsep_turn erf ra1 dec1 ra2 dec2 k)|exact (angsep_sym erf ra1 dec1 ra2 dec2)]. Qed.
Print Assumptions C05_angsep_turn_sym.

(* the AngErrOfPsi criterion (func(psi) = a psi + b) on the great-circle distance *)
Theorem C05_angerr_crit : forall (erf : R -> R) (a b fl sra sdec era edec err : R),
  let psi := acos (sin sdec * sin edec + cos sdec * cos edec * cos (sra - era))%R in
  angerr_crit (RNum erf) a b fl sra sdec era edec err = true <-> (a * psi + b <= err \/ psi < fl)%R.
Proof. exact angerr_crit_R. Qed.
Print Assumptions C05_angerr_crit.

(* ---- extension: utils/coords.angular_separation with its psi_floor argument
   (`if psi_floor is not None: psi = np.where(psi < psi_floor, psi_floor, psi)`), all reals *)
Theorem C05_angsep_floor : forall (erf : R -> R) (ra1 dec1 ra2 dec2 f : R),
  angsep_floor (RNum erf) ra1 dec1 ra2 dec2 None
    = acos (sin dec1 * sin dec2 + cos dec1 * cos dec2 * cos (ra1 - ra2))%R
  /\ angsep_floor (RNum erf) ra1 dec1 ra2 dec2 (Some f)
    = Rmax f (acos (sin dec1 * sin dec2 + cos dec1 * cos dec2 * cos (ra1 - ra2)))%R.
Proof.
  intros erf ra1 dec1 ra2 dec2 f.
  split; [exact (angsep_floor_none erf ra1 dec1 ra2 dec2)|exact (angsep_floor_some erf ra1 dec1 ra2 dec2 f)].
Qed.
Print Assumptions C05_angsep_floor.

(* the floored value is never below the floor nor below the distance, is one of the two, and
   stays an angle in [0, pi] for a floor in [0, pi] *)
Theorem C05_angsep_floor_props : forall (erf : R -> R) (ra1 dec1 ra2 dec2 f : R),
  let v := angsep_floor (RNum erf) ra1 dec1 ra2 dec2 (Some f) in
  let psi := angsep_floor (RNum erf) ra1 dec1 ra2 dec2 None in
  (f <= v /\ psi <= v /\ (v = f \/ v = psi) /\ (f <= psi -> v = psi) /\ (psi < f -> v = f)
   /\ (f <= PI -> 0 <= f -> 0 <= v <= PI))%R.
Proof. exact angsep_floor_props. Qed.
Print Assumptions C05_angsep_floor_props.

Example C05_nonvacuous_angsep_floor : forall erf : R -> R,
  (angsep_floor (RNum erf) 0 0 0 0 (Some 1) = 1 /\ angsep_floor (RNum erf) 0 0 0 0 None = 0
   /\ angsep_floor (RNum erf) 0 0 0 0 (Some (-1)) = 0)%R.
Proof. exact angsep_floor_example. Qed.

(* ---- the concrete classes: which class applies which criterion (real-number reading) *)

(* DecBandEventSectionMethod written out: the pairs are those with |dec_event - dec_source| < delta *)
Theorem C05_decband_pairs : forall (erf : R -> R) (delta : R) (srcs : list (R * R)) (evs : list (ev4 (T := R))),
  0 < length srcs ->
  exists r orig, run (decband (RNum erf) delta) srcs evs None = Ok r
    /\ s_orig r = map Z.of_nat orig
    /\ Forall2 (fun e j => nth_error evs j = Some e) (s_events r) orig
    /\ StronglySorted lt orig
    /\ StronglySorted lexlt (s_tbl r)
    /\ (forall j, In j orig <-> exists k s e, nth_error srcs k = Some s /\ nth_error evs j = Some e
                                             /\ (Rabs (e_dec e - snd s) < delta)%R)
    /\ (forall k p, In (Z.of_nat k, Z.of_nat p) (s_tbl r) <->
          exists j s e, nth_error orig p = Some j /\ nth_error srcs k = Some s /\ nth_error evs j = Some e
                        /\ (Rabs (e_dec e - snd s) < delta)%R).
Proof. exact decband_pairs. Qed.
Print Assumptions C05_decband_pairs.

(* SpatialBoxEventSelectionMethod (batch size of the code, both RA copies) returns exactly what
   RABandEventSectionMethod & DecBandEventSectionMethod returns, for all inputs *)
Theorem C05_spatialbox_is_raband_and_decband :
  forall (erf : R -> R) (delta : R) (srcs : list (R * R)) (evs : list (ev4 (T := R))),
  0 < length srcs ->
  exists r r', run (spatialbox (RNum erf) delta) srcs evs None = Ok r
    /\ run (MAnd (raband (RNum erf) delta) (decband (RNum erf) delta)) srcs evs None = Ok r'
    /\ s_events r = s_events r' /\ s_tbl r = s_tbl r' /\ s_orig r = s_orig r'.
Proof. exact spatialbox_is_raband_and_decband. Qed.
Print Assumptions C05_spatialbox_is_raband_and_decband.

Theorem C05_spatialbox_crit : forall (erf : R -> R) (delta : R) (ns : nat) (s : R * R) (e : ev4 (T := R)),
  crit_of (spatialbox (RNum erf) delta) ns s e = true <->
  (rb_ra_dist (RNum erf) (e_ra e) (fst s) < rb_half (RNum erf) delta (snd s))%R
  /\ (Rabs (e_dec e - snd s) < delta)%R.
Proof. exact crit_spatialbox. Qed.
Print Assumptions C05_spatialbox_crit.

(* ---- non-vacuity: concrete instances (sources and events are integers, the band
   criterion is |e - s| < 3, the box is the band twice, batch size 2 < 3 sources so the
   batched path runs; PsiFunc with one source; ex_c, ex_rev are defined in spec/S_Select.v) *)
Example C05_nonvacuous_band_chain :
  let srcs := [0; 10; 11]%Z in
  let evs := [5; 12; 1; 9; 30; 10]%Z in
  let m := MAnd (MBand KDec ex_c) (MBox 2 ex_c ex_c (fun s e => (e <? 12)%Z)) in
  0 < length srcs /\ wf_meth m (length srcs)
  /\ sel_out (run m srcs evs None)
     = Ok ([1; 9; 10]%Z, [(0, 0); (1, 1); (1, 2); (2, 1); (2, 2)]%Z, [2; 3; 5]%Z)
  /\ sel_out (run (MBand KDec ex_c) srcs evs None)
     = Ok ([12; 1; 9; 10]%Z, [(0, 1); (1, 0); (1, 2); (1, 3); (2, 0); (2, 2); (2, 3)]%Z, [1; 2; 3; 5]%Z)
  /\ tdm_init ex_rev (Some m) srcs evs true
     = Ok ([10; 9; 1]%Z, [(0, 2); (1, 1); (1, 0); (2, 1); (2, 0)]%Z).
Proof. cbv zeta. repeat split; try (vm_compute; reflexivity); try (cbn; lia); intros; reflexivity. Qed.

Example C05_nonvacuous_psi :
  let m := MAnd (MBand KRA ex_c) (MPsi (fun e => (e <? 2)%Z)) in
  wf_meth m 1
  /\ sel_out (run m [0%Z] [5; 1; -2; 2; 0]%Z None) = Ok ([1; -2; 0]%Z, [(0, 0); (0, 1); (0, 2)]%Z, [1; 2; 4]%Z).
Proof. cbv zeta. repeat split; vm_compute; reflexivity. Qed.

Example C05_nonvacuous_argsort :
  forall l : list Z, Permutation (ex_rev l) (map Z.of_nat (seq 0 (length l))).
Proof. intros l. unfold ex_rev. apply Permutation_sym, Permutation_rev. Qed.

(* a manager re-used over three trials (method + index field, no method, index field switched
   off + method): the last trial stores what a new manager would *)
Example C05_nonvacuous_history :
  let srcs := [0; 10; 11]%Z in
  let evs := [5; 12; 1; 9; 30; 10]%Z in
  let m := MAnd (MBand KDec ex_c) (MBox 2 ex_c ex_c (fun s e => (e <? 12)%Z)) in
  let ops := [TTrial (Some m) srcs evs; TTrial None [7%Z] [3; 4]%Z; TSetIndex false] in
  match tdm_run ex_rev (tdm_new true) (ops ++ [TTrial (Some (MBand KDec ex_c)) srcs evs]) with
  | Ok st => td_events st = [12; 1; 9; 10]%Z
             /\ td_tbl st = Some [(0, 1); (1, 0); (1, 2); (1, 3); (2, 0); (2, 2); (2, 3)]%Z
             /\ td_nsrc st = 3 /\ td_index st = false
  | Err _ => False
  end
  /\ match tdm_run ex_rev (tdm_new true) [TTrial (Some m) srcs evs; TTrial None [7%Z] [3; 4]%Z] with
     | Ok st => td_events st = [4; 3]%Z /\ td_tbl st = Some [(0, 0); (0, 1)]%Z
     | Err _ => False
     end.
Proof. cbv zeta. vm_compute. repeat split; reflexivity. Qed.

(* PsiFunc with two sources raises *)
Example C05_nonvacuous_psi_guard :
  run (MAnd (MBand KDec ex_c) (MPsi (fun e => (e <? 2)%Z))) [0; 5]%Z [1; 2]%Z None = Err ValueError.
Proof. vm_compute. reflexivity. Qed.
