(* C05 — Event selection keeps exactly the qualifying pairs with a valid index map.
   Statements only; every proof is `exact <lemma>`.

   Reading guide.  `run m srcs evs inc` is the model of `m.select_events(events,
   src_evt_idxs=inc, ret_original_evt_idxs=True)` for a method tree m (All, DecBand /
   RABand, SpatialBox with its batch size, PsiFunc, AngErrOfPsi, `&`); the result has the
   selected events `s_events`, the (source, event) index table `s_tbl` and the original
   indices `s_orig`.  `crit_of m ns s e` is the documented criterion of m for source s and
   event e; `cidx c srcs evs k j` reads it at source index k and event index j.
   `lexlt` is the strict lexicographic order on (source, event) pairs: a table sorted by it
   is duplicate-free and grouped by ascending source. *)
From Coq Require Import ZArith List Bool Lia Sorting.Sorted Permutation.
From Coq Require Import Reals.
From Sky Require Import Result PyList Num NumR G_select M_Select M_SelectNum S_Select P_Select P_SelectNum.
Import ListNotations.
Local Open Scope nat_scope.

Theorem C05_cidx : forall (S E : Type) (c : S -> E -> bool) srcs evs k j,
  cidx c srcs evs k j = true <->
  exists s e, nth_error srcs k = Some s /\ nth_error evs j = Some e /\ c s e = true.
Proof. exact @cidx_true. Qed.
Print Assumptions C05_cidx.

(* Every method tree, any number of sources >= 1, any number of events:
   events = original-order filter of "some source qualifies"; the table is strictly
   ascending by (source, event), its indices point into the returned events, every
   returned event is listed, and (k, b) is listed iff returned event b (original index j)
   meets the criterion for source k. *)
Theorem C05_select : forall (S E : Type) (m : meth S E) (srcs : list S) (evs : list E),
  let ns := length srcs in
  let c := cidx (crit_of m ns) srcs evs in
  0 < ns -> wf_meth m ns ->
  exists r orig,
    run m srcs evs None = Ok r
    /\ orig = filter (fun j => existsb (fun k => c k j) (seq 0 ns)) (seq 0 (length evs))
    /\ s_orig r = map Z.of_nat orig
    /\ Forall2 (fun e j => nth_error evs j = Some e) (s_events r) orig
    /\ StronglySorted lexlt (s_tbl r)
    /\ (forall p, In p (s_tbl r) ->
          (0 <= fst p < Z.of_nat ns)%Z /\ (0 <= snd p < Z.of_nat (length (s_events r)))%Z)
    /\ (forall k b, In (Z.of_nat k, Z.of_nat b) (s_tbl r) <->
          k < ns /\ exists j, nth_error orig b = Some j /\ c k j = true)
    /\ (forall b, b < length (s_events r) -> exists k, In (Z.of_nat k, Z.of_nat b) (s_tbl r)).
Proof. exact @select_full. Qed.
Print Assumptions C05_select.

(* The same with an incoming table t0 (what an earlier method in a chain hands on):
   a pair is kept iff it is listed in t0 and meets the criterion; the outgoing table
   again satisfies the precondition tbl_ok of the next method. *)
Theorem C05_incoming : forall (S E : Type) (m : meth S E) (srcs : list S) (evs : list E) (t0 : tbl),
  let ns := length srcs in
  let c := fun k j => inc_has (Some t0) k j && cidx (crit_of m ns) srcs evs k j in
  0 < ns -> wf_meth m ns -> tbl_ok ns (length evs) t0 ->
  exists r orig,
    run m srcs evs (Some t0) = Ok r
    /\ orig = filter (fun j => existsb (fun k => c k j) (seq 0 ns)) (seq 0 (length evs))
    /\ s_orig r = map Z.of_nat orig
    /\ Forall2 (fun e j => nth_error evs j = Some e) (s_events r) orig
    /\ tbl_ok ns (length (s_events r)) (s_tbl r)
    /\ (forall k b, In (Z.of_nat k, Z.of_nat b) (s_tbl r) <->
          k < ns /\ exists j, nth_error orig b = Some j /\ c k j = true).
Proof. exact @select_incoming. Qed.
Print Assumptions C05_incoming.

Theorem C05_inc_has : forall t k j,
  inc_has (Some t) k j = true <-> In (Z.of_nat k, Z.of_nat j) t.
Proof. exact inc_has_In. Qed.
Print Assumptions C05_inc_has.

(* Chaining a & b: both stages run (b on the events and the table a returns), the
   original indices are composed (s_orig r [i] = s_orig r1 [ s_orig r2 [i] ]), and the
   result is the selection for the conjunction of the two criteria on the original events. *)
Theorem C05_chain : forall (S E : Type) (a b : meth S E) (srcs : list S) (evs : list E),
  let ns := length srcs in
  0 < ns -> wf_meth a ns -> wf_meth b ns ->
  exists r1 r2 r orig,
    run a srcs evs None = Ok r1
    /\ run b srcs (s_events r1) (Some (s_tbl r1)) = Ok r2
    /\ run (MAnd a b) srcs evs None = Ok r
    /\ s_events r = s_events r2 /\ s_tbl r = s_tbl r2
    /\ Forall2 (fun o o2 => exists p, o2 = Z.of_nat p /\ nth_error (s_orig r1) p = Some o)
               (s_orig r) (s_orig r2)
    /\ s_orig r = map Z.of_nat orig
    /\ orig = filter (fun j => existsb (fun k => cidx (crit_of a ns) srcs evs k j
                                                && cidx (crit_of b ns) srcs evs k j) (seq 0 ns))
                     (seq 0 (length evs))
    /\ Forall2 (fun e j => nth_error evs j = Some e) (s_events r) orig
    /\ (forall k p, In (Z.of_nat k, Z.of_nat p) (s_tbl r) <->
          k < ns /\ exists j, nth_error orig p = Some j
                              /\ cidx (crit_of a ns) srcs evs k j = true
                              /\ cidx (crit_of b ns) srcs evs k j = true).
Proof. exact @chain_full. Qed.
Print Assumptions C05_chain.

(* SpatialBox: filling mask_ra in batches of bs sources gives the unbatched broadcast
   for every number of sources and every batch size > 0 (the code uses 128) ... *)
Theorem C05_batching : forall (S : Type) (rowf : S -> list bool) (srcs : list S) (ne : nat) (bs : Z),
  (0 < bs)%Z -> fill_batches bs rowf srcs ne = Ok (map rowf srcs).
Proof. exact fill_batches_spec. Qed.
Print Assumptions C05_batching.

(* ... hence the selection does not depend on the batch size *)
Theorem C05_batch_indep : forall (S E : Type) (bs bs' : Z) (cra cdec : S -> E -> bool) srcs evs inc,
  (0 < bs)%Z -> (0 < bs')%Z ->
  run (MBox bs cra cra cdec) srcs evs inc = run (MBox bs' cra cra cdec) srcs evs inc.
Proof. exact @box_batch_indep. Qed.
Print Assumptions C05_batch_indep.

(* TrialDataManager.initialize_trial with a selection method and an index field.
   For every argsort that returns a permutation of 0..n-1: the stored events are the
   selected events in sorted order (ev2[i] = selected[argsort[i]]), orig2 gives their
   original indices (a permutation of the qualifying events), the stored table keeps
   the source column (so it stays grouped by ascending source), is duplicate-free, in
   range, and (k, b) is listed iff the event now at position b qualifies for source k. *)
Theorem C05_tdm_sort : forall (S E : Type) (argsort : list E -> list Z),
  (forall l, Permutation (argsort l) (map Z.of_nat (seq 0 (length l)))) ->
  forall (srcs : list S), 0 < length srcs ->
  forall (m : meth S E) (evs : list E),
    let ns := length srcs in
    let c := cidx (crit_of m ns) srcs evs in
    wf_meth m ns ->
    exists r1 ev2 t2 orig2,
      run m srcs evs None = Ok r1
      /\ tdm_init argsort (Some m) srcs evs true = Ok (ev2, t2)
      /\ Permutation orig2
           (filter (fun j => existsb (fun k => c k j) (seq 0 ns)) (seq 0 (length evs)))
      /\ Forall2 (fun e j => nth_error evs j = Some e) ev2 orig2
      /\ Forall2 (fun e z => nth_error (s_events r1) (Z.to_nat z) = Some e) ev2 (argsort (s_events r1))
      /\ map fst t2 = map fst (s_tbl r1)
      /\ NoDup t2
      /\ (forall q, In q t2 -> (0 <= fst q < Z.of_nat ns)%Z /\ (0 <= snd q < Z.of_nat (length ev2))%Z)
      /\ (forall k b, In (Z.of_nat k, Z.of_nat b) t2 <->
            k < ns /\ exists j, nth_error orig2 b = Some j /\ c k j = true).
Proof. exact tdm_sort_full. Qed.
Print Assumptions C05_tdm_sort.

(* without an index field the selection result is stored as it is *)
Theorem C05_tdm_nosort : forall (S E : Type) (argsort : list E -> list Z) srcs (m : meth S E) evs,
  tdm_init argsort (Some m) srcs evs false
  = (do r <- run m srcs evs None; Ok (s_events r, s_tbl r)).
Proof. exact tdm_nosort. Qed.
Print Assumptions C05_tdm_nosort.

(* without a selection method every event is paired with every source *)
Theorem C05_tdm_nosel : forall (S E : Type) (argsort : list E -> list Z),
  (forall l, Permutation (argsort l) (map Z.of_nat (seq 0 (length l)))) ->
  forall (srcs : list S), 0 < length srcs ->
  forall (evs : list E) (index_field : bool),
    exists ev2, tdm_init argsort None srcs evs index_field = Ok (ev2, full_tbl (length srcs) (length ev2))
      /\ tbl_ok (length srcs) (length ev2) (full_tbl (length srcs) (length ev2))
      /\ (if index_field
          then Forall2 (fun e z => nth_error evs (Z.to_nat z) = Some e) ev2 (argsort evs)
          else ev2 = evs).
Proof. exact tdm_nosel. Qed.
Print Assumptions C05_tdm_nosel.

(* ---- the criteria themselves, at the real-number reading of the translated formulas
   (RNum erf: the Num instance over R; erf is irrelevant here).  Float rounding is not
   claimed. *)

(* DecBand / SpatialBox: the open declination band around the source, clipped at the poles *)
Theorem C05_dec_crit : forall (erf : R -> R) (d s e : R),
  dec_crit (RNum erf) d s e = true <->
  (Rmax (- PI / 2) (s - d) < e < Rmin (s + d) (PI / 2))%R.
Proof. exact dec_crit_R. Qed.
Print Assumptions C05_dec_crit.

Theorem C05_band_in_range : forall (erf : R -> R) (s d : R),
  (- PI / 2 <= db_dec_minus (RNum erf) s d /\ db_dec_plus (RNum erf) s d <= PI / 2)%R.
Proof. exact band_in_range. Qed.
Print Assumptions C05_band_in_range.

Theorem C05_box_dec_same : forall (erf : R -> R) (d s e : R),
  box_dec_crit (RNum erf) d s e = dec_crit (RNum erf) d s e.
Proof. exact box_dec_crit_R. Qed.
Print Assumptions C05_box_dec_same.

(* the RA half width lies in [0, 2 pi]; RABand and SpatialBox use the same one *)
Theorem C05_half_range : forall (erf : R -> R) (d s : R),
  (0 <= rb_half (RNum erf) d s <= 2 * PI)%R /\ sb_half (RNum erf) d s = rb_half (RNum erf) d s.
Proof. intros erf d s. split; [exact (half_range erf d s)|exact (half_same erf d s)]. Qed.
Print Assumptions C05_half_range.

(* the wrapped RA distance of RABand is in [0, pi] for all inputs *)
Theorem C05_ra_dist_range : forall (erf : R -> R) (e s : R),
  (0 <= rb_ra_dist (RNum erf) e s <= PI)%R.
Proof. exact ra_dist_range. Qed.
Print Assumptions C05_ra_dist_range.

(* np.mod coding (RABand) = np.where coding (SpatialBox) for right ascensions in [0, 2 pi):
   the two methods keep the same (source, event) pairs in right ascension *)
Theorem C05_ra_codings_agree : forall (erf : R -> R) (d sra sdec era : R),
  (0 <= era < 2 * PI)%R -> (0 <= sra < 2 * PI)%R ->
  rb_ra_dist (RNum erf) era sra = sb_ra_mod (RNum erf) (sb_ra_diff (RNum erf) era sra)
  /\ raband_crit (RNum erf) d sra sdec era = box_ra_crit (RNum erf) d sra sdec era.
Proof.
  intros erf d sra sdec era He Hs.
  split; [exact (ra_codings_agree erf era sra He Hs)|exact (raband_box_same erf d sra sdec era He Hs)].
Qed.
Print Assumptions C05_ra_codings_agree.

(* the batched and the unbatched copy of the RA mask in SpatialBox are the same criterion
   (the premise of wf_meth for MBox) *)
Theorem C05_box_ra_copies : forall (erf : R -> R) (d sra sdec era : R),
  box_ra_crit_b (RNum erf) d sra sdec era = box_ra_crit (RNum erf) d sra sdec era.
Proof. exact box_ra_copies. Qed.
Print Assumptions C05_box_ra_copies.

(* angular_separation (used by AngErrOfPsi) returns an angle in [0, pi] for all inputs *)
Theorem C05_angsep_range : forall (erf : R -> R) (ra1 dec1 ra2 dec2 : R),
  (0 <= angsep (RNum erf) ra1 dec1 ra2 dec2 <= PI)%R.
Proof. exact angsep_range. Qed.
Print Assumptions C05_angsep_range.

(* ---- non-vacuity: concrete instances (sources and events are integers, the band
   criterion is |e - s| < 3, the box is the band twice, batch size 2 < 3 sources so the
   batched path runs; PsiFunc with one source; ex_c, ex_rev are defined in spec/S_Select.v) *)
Example C05_nonvacuous_band_chain :
  let srcs := [0; 10; 11]%Z in
  let evs := [5; 12; 1; 9; 30; 10]%Z in
  let m := MAnd (MBand KDec ex_c) (MBox 2 ex_c ex_c (fun s e => (e <? 12)%Z)) in
  0 < length srcs /\ wf_meth m (length srcs)
  /\ sel_out (run m srcs evs None)
     = Ok ([1; 9; 10]%Z, [(0, 0); (1, 1); (1, 2); (2, 1); (2, 2)]%Z, [2; 3; 5]%Z)
  /\ sel_out (run (MBand KDec ex_c) srcs evs None)
     = Ok ([12; 1; 9; 10]%Z, [(0, 1); (1, 0); (1, 2); (1, 3); (2, 0); (2, 2); (2, 3)]%Z, [1; 2; 3; 5]%Z)
  /\ tdm_init ex_rev (Some m) srcs evs true
     = Ok ([10; 9; 1]%Z, [(0, 2); (1, 1); (1, 0); (2, 1); (2, 0)]%Z).
Proof. cbv zeta. repeat split; try (vm_compute; reflexivity); try (cbn; lia); intros; reflexivity. Qed.

Example C05_nonvacuous_psi :
  let m := MAnd (MBand KRA ex_c) (MPsi (fun e => (e <? 2)%Z)) in
  wf_meth m 1
  /\ sel_out (run m [0%Z] [5; 1; -2; 2; 0]%Z None) = Ok ([1; -2; 0]%Z, [(0, 0); (0, 1); (0, 2)]%Z, [1; 2; 4]%Z).
Proof. cbv zeta. repeat split; vm_compute; reflexivity. Qed.

Example C05_nonvacuous_argsort :
  forall l : list Z, Permutation (ex_rev l) (map Z.of_nat (seq 0 (length l))).
Proof. intros l. unfold ex_rev. apply Permutation_sym, Permutation_rev. Qed.
