(* C15 — Grid rounding hits exact grid members; interpolation is exact and
   consistent.  Statements only; every proof is `exact <lemma>`.
   Number systems: `forall T (N : Num T)` = every number system (so also IEEE
   doubles); `RNum erf` = exact real arithmetic; `SFNum` = IEEE-754 binary64 as
   specified by Coq.Floats.SpecFloat. *)
From Coq Require Import Reals ZArith List Bool Lra Lia SpecFloat.
From Coquelicot Require Import Coquelicot.
From Sky Require Import Result PyList Num NumR G_grid M_Grid M_GridSF P_Grid P_GridInterp P_GridSF
  P_GridCall P_GridLocal P_GridIrr P_GridExt P_GridCache
  M_GridPdf P_GridHist P_GridPdf P_GridBelow P_GridMember P_GridEnd P_GridAuto.
Import ListNotations.
Open Scope R_scope.

(* ---- bit identity, structurally, in every number system: every rounded value
   and every stored grid point is the ONE expression Gp applied to the index the
   function computed *)
Theorem C15_rounded_value_is_Gp_of_index : forall (T : Type) (N : Num T) (g : gdesc) (v : T),
  round_lower N g v = Gp N g (k_lower N g v) /\
  round_upper N g v = Gp N g (k_upper N g v) /\
  round_nearest N g v = Gp N g (k_nearest N g v).
Proof. intros T N g v. exact (conj (round_lower_is_Gp N g v) (conj (round_upper_is_Gp N g v) (round_nearest_is_Gp N g v))). Qed.
Print Assumptions C15_rounded_value_is_Gp_of_index.

Theorem C15_stored_grid_is_map_Gp : forall (T : Type) (N : Num T) (d0 : T) (dec : Z) (arr : list T) (p : pgrid),
  pg_make N d0 dec arr = Ok p ->
  pg_grid p = map (Gp N (pg_desc p)) (map (k_nearest N (pg_desc p)) arr)
  /\ g_dec (pg_desc p) = dec /\ (dec <= 16)%Z.
Proof. exact @pg_make_grid_is_map_Gp. Qed.
Print Assumptions C15_stored_grid_is_map_Gp.

Theorem C15_extended_grid_is_map_Gp : forall (T : Type) (N : Num T) (p q : pgrid),
  pg_extend N p = Ok q ->
  exists newgrid, pg_grid q = map (Gp N (pg_desc q)) (map (k_nearest N (pg_desc q)) newgrid)
                  /\ length newgrid = S (S (length (pg_grid p))).
Proof. exact @pg_extend_grid_is_map_Gp. Qed.
Print Assumptions C15_extended_grid_is_map_Gp.

(* hence membership (bit-identical, any number system) FOLLOWS FROM membership of the index the function
   computed among the stored indices.  One direction only; whether that hypothesis holds on doubles is exactly
   the open question: it is proved over R (C15_rounded_values_are_members), refuted on binary64 for one grid
   (C15_grid_points_fixed_refuted) and otherwise decided per generated grid by computation -- it is NOT proved
   for any class of float grids. *)
Theorem C15_member_iff_index : forall (T : Type) (N : Num T) (d0 : T) (dec : Z) (arr : list T) (p : pgrid) (v : T),
  pg_make N d0 dec arr = Ok p ->
  (In (k_lower N (pg_desc p) v) (map (k_nearest N (pg_desc p)) arr) -> In (round_lower N (pg_desc p) v) (pg_grid p)) /\
  (In (k_upper N (pg_desc p) v) (map (k_nearest N (pg_desc p)) arr) -> In (round_upper N (pg_desc p) v) (pg_grid p)) /\
  (In (k_nearest N (pg_desc p) v) (map (k_nearest N (pg_desc p)) arr) -> In (round_nearest N (pg_desc p) v) (pg_grid p)).
Proof.
  intros T N d0 dec arr p v H.
  exact (conj (round_lower_member N d0 dec arr p v H)
              (conj (round_upper_member N d0 dec arr p v H) (round_nearest_member N d0 dec arr p v H))).
Qed.
Print Assumptions C15_member_iff_index.

Theorem C15_irregular_results_are_members : forall (T : Type) (N : Num T) (grid : list T) (v x : T),
  irr_nearest N grid v = Ok x \/ irr_lower N grid v = Ok x \/ irr_upper N grid v = Ok x -> In x grid.
Proof. exact @irr_results_are_members. Qed.
Print Assumptions C15_irregular_results_are_members.

(* ---- exact arithmetic: grid with origin a/10^d and spacing b/10^d > 0 *)
Theorem C15_bracket : forall (erf : R -> R) (a b d : Z) (v : R), (0 <= d)%Z -> (0 < b)%Z ->
  let g := {| g_lb := IZR a / IZR (10 ^ d); g_delta := IZR b / IZR (10 ^ d); g_dec := d |} in
  g_lb g <= v ->
  exists n : Z, (0 <= n)%Z /\
    round_lower (RNum erf) g v = g_lb g + IZR n * g_delta g /\
    round_upper (RNum erf) g v = g_lb g + IZR (n + 1) * g_delta g /\
    round_upper (RNum erf) g v = round_lower (RNum erf) g v + g_delta g /\
    round_lower (RNum erf) g v - 5 / 10000000000 * g_delta g <= v /\
    v <= round_upper (RNum erf) g v - 5 / 10000000000 * g_delta g /\
    v < round_upper (RNum erf) g v.
Proof. exact regular_bracket. Qed.
Print Assumptions C15_bracket.

Theorem C15_nearest_half_spacing : forall (erf : R -> R) (a b d : Z) (v : R), (0 <= d)%Z -> (0 < b)%Z ->
  let g := {| g_lb := IZR a / IZR (10 ^ d); g_delta := IZR b / IZR (10 ^ d); g_dec := d |} in
  g_lb g <= v ->
  exists m : Z, (0 <= m)%Z /\
    round_nearest (RNum erf) g v = g_lb g + IZR m * g_delta g /\
    Rabs (round_nearest (RNum erf) g v - v) <= g_delta g / 2 + 5 / 10000000000 * g_delta g.
Proof. exact regular_nearest. Qed.
Print Assumptions C15_nearest_half_spacing.

(* the fixed-point clause: holds in exact arithmetic (_partial), fails on doubles (_refuted) *)
Theorem C15_grid_points_fixed_partial : forall (erf : R -> R) (a b d n : Z), (0 <= d)%Z -> (0 < b)%Z ->
  let g := {| g_lb := IZR a / IZR (10 ^ d); g_delta := IZR b / IZR (10 ^ d); g_dec := d |} in
  let v := g_lb g + IZR n * g_delta g in
  round_lower (RNum erf) g v = v /\ round_nearest (RNum erf) g v = v /\ round_upper (RNum erf) g v = v + g_delta g.
Proof. exact regular_fixed_points. Qed.
Print Assumptions C15_grid_points_fixed_partial.

Theorem C15_grid_points_fixed_refuted :
  exists (p : pgrid) (g0 g1 : spec_float),
    pg_make SFNum sf_d3 3 witness_arr = Ok p /\
    nth_error (pg_grid p) 0 = Some g0 /\ nth_error (pg_grid p) 1 = Some g1 /\
    sf_repr g0 = (7971459301376000, -37)%Z /\
    sf_repr g1 = (7971459438814953, -37)%Z /\
    SFltb g0 g1 = true /\
    round_lower SFNum (pg_desc p) g1 = g0 /\
    round_upper SFNum (pg_desc p) g1 = g1 /\
    self_consistent SFNum p = false.
Proof. exact fixed_point_refuted_binary64. Qed.
Print Assumptions C15_grid_points_fixed_refuted.

Theorem C15_make_grid_exact : forall (erf : R -> R) (a b d : Z) (n : nat), (0 <= d <= 16)%Z -> (0 < b)%Z ->
  let pts := map (fun i => IZR a / IZR (10 ^ d) + IZR (0 + Z.of_nat i) * (IZR b / IZR (10 ^ d))) (seq 0 (S n)) in
  pg_make (RNum erf) (IZR b / IZR (10 ^ d)) d pts
  = Ok {| pg_desc := {| g_lb := IZR a / IZR (10 ^ d); g_delta := IZR b / IZR (10 ^ d); g_dec := d |};
          pg_grid := pts |}.
Proof. exact make_grid_exact. Qed.
Print Assumptions C15_make_grid_exact.

Theorem C15_extend_grid_exact : forall (erf : R -> R) (a b d : Z) (n : nat), (0 <= d)%Z -> (0 < b)%Z ->
  let pts := fun (a' : Z) (m : nat) =>
    map (fun i => IZR a' / IZR (10 ^ d) + IZR (0 + Z.of_nat i) * (IZR b / IZR (10 ^ d))) (seq 0 m) in
  pg_extend (RNum erf)
    {| pg_desc := {| g_lb := IZR a / IZR (10 ^ d); g_delta := IZR b / IZR (10 ^ d); g_dec := d |};
       pg_grid := pts a (S n) |}
  = Ok {| pg_desc := {| g_lb := IZR (a - b) / IZR (10 ^ d); g_delta := IZR b / IZR (10 ^ d); g_dec := d |};
          pg_grid := pts (a - b)%Z (S (S (S n))) |}.
Proof. exact extend_grid_exact. Qed.
Print Assumptions C15_extend_grid_exact.

(* ---- irregular grid, exact arithmetic: greatest member <= v / least member > v *)
Theorem C15_irregular_lower_upper : forall (erf : R -> R) (grid : list R) (v g0 : R) (rest : list R),
  grid = g0 :: rest ->
  (fix incr (l : list R) : Prop := match l with a :: ((b :: _) as r) => a < b /\ incr r | _ => True end) grid ->
  g0 <= v ->
  (exists lo, irr_lower (RNum erf) grid v = Ok lo /\ In lo grid /\ lo <= v /\
              (forall y, In y grid -> y <= v -> y <= lo)) /\
  ((exists y, In y grid /\ v < y) ->
   exists up, irr_upper (RNum erf) grid v = Ok up /\ In up grid /\ v < up /\
              (forall y, In y grid -> v < y -> up <= y)).
Proof. exact irregular_lower_upper. Qed.
Print Assumptions C15_irregular_lower_upper.

Theorem C15_irregular_nearest : forall (erf : R -> R) (grid : list R) (v : R),
  (fix incr (l : list R) : Prop := match l with a :: ((b :: _) as r) => a < b /\ incr r | _ => True end) grid ->
  grid <> [] ->
  exists ne, irr_nearest (RNum erf) grid v = Ok ne /\ In ne grid /\
             forall y, In y grid -> Rabs (ne - v) <= Rabs (y - v).
Proof. exact irregular_nearest. Qed.
Print Assumptions C15_irregular_nearest.

(* membership in exact arithmetic: for the stored grid origin + i*spacing, i = 0..m, and any
   value in its range the rounded values ARE elements of the stored grid *)
Theorem C15_rounded_values_are_members : forall (erf : R -> R) (a b d : Z) (m : nat) (v : R),
  (0 <= d)%Z -> (0 < b)%Z ->
  let g := {| g_lb := IZR a / IZR (10 ^ d); g_delta := IZR b / IZR (10 ^ d); g_dec := d |} in
  let pts := map (fun i => IZR a / IZR (10 ^ d) + IZR (0 + Z.of_nat i) * (IZR b / IZR (10 ^ d))) (seq 0 (S m)) in
  let last := g_lb g + IZR (Z.of_nat m) * g_delta g in
  g_lb g <= v -> v <= last ->
  In (round_lower (RNum erf) g v) pts /\
  In (round_nearest (RNum erf) g v) pts /\
  (v < last - 5 / 10000000000 * g_delta g -> In (round_upper (RNum erf) g v) pts).
Proof. exact regular_rounded_values_are_members. Qed.
Print Assumptions C15_rounded_values_are_members.

(* ParameterGrid(grid) with delta=None: delta = mean of the differences *)
Theorem C15_make_grid_auto_delta_exact : forall (erf : R -> R) (a b d : Z) (n : nat), (0 <= d <= 16)%Z -> (0 < b)%Z ->
  let pts := map (fun i => IZR a / IZR (10 ^ d) + IZR (0 + Z.of_nat i) * (IZR b / IZR (10 ^ d))) (seq 0 (S (S n))) in
  mean_diff (RNum erf) pts = IZR b / IZR (10 ^ d) /\
  pg_make_auto (RNum erf) d pts = Ok {| pg_desc := {| g_lb := IZR a / IZR (10 ^ d); g_delta := IZR b / IZR (10 ^ d); g_dec := d |}; pg_grid := pts |}.
Proof.
  intros erf a b d n Hd Hb pts.
  exact (conj (mean_diff_of_regular_points erf a b d n (proj1 Hd)) (make_grid_auto_exact erf a b d n Hd Hb)).
Qed.
Print Assumptions C15_make_grid_auto_delta_exact.

Theorem C15_irregular_extend_increasing : forall (erf : R -> R) (grid : list R) (g0 g1 : R) (rest : list R),
  grid = g0 :: g1 :: rest ->
  (fix incr (l : list R) : Prop := match l with a :: ((b :: _) as r) => a < b /\ incr r | _ => True end) grid ->
  exists lo hi, irr_extend (RNum erf) grid = Ok (lo :: grid ++ [hi]) /\ lo = g0 - (g1 - g0) /\
    (fix incr (l : list R) : Prop := match l with a :: ((b :: _) as r) => a < b /\ incr r | _ => True end)
      (lo :: grid ++ [hi]).
Proof. exact irregular_extend_increasing. Qed.
Print Assumptions C15_irregular_extend_increasing.

(* ---- interpolation, exact arithmetic *)
Theorem C15_linear_reproduces_grid_points : forall (erf : R -> R) (a b d n : Z) (F : R -> R),
  (0 <= d)%Z -> (0 < b)%Z -> (0 <= n)%Z ->
  let g := {| g_lb := IZR a / IZR (10 ^ d); g_delta := IZR b / IZR (10 ^ d); g_dec := d |} in
  let x := g_lb g + IZR n * g_delta g in
  lin_value1 (RNum erf) g F x = F x.
Proof. exact linear_reproduces_grid_points. Qed.
Print Assumptions C15_linear_reproduces_grid_points.

Theorem C15_linear_exact_degree_1 : forall (erf : R -> R) (a b d : Z) (p q x : R), (0 <= d)%Z -> (0 < b)%Z ->
  let g := {| g_lb := IZR a / IZR (10 ^ d); g_delta := IZR b / IZR (10 ^ d); g_dec := d |} in
  g_lb g <= x ->
  let F := fun t => p * t + q in
  lin_value1 (RNum erf) g F x = F x /\ lin_grad1 (RNum erf) g F x = p.
Proof. exact linear_exact_degree_1. Qed.
Print Assumptions C15_linear_exact_degree_1.

Theorem C15_linear_gradient_is_derivative : forall (erf : R -> R) (g : gdesc) (F : R -> R) (x : R),
  let '(_, m, b) := lin_params (RNum erf) g F x in
  lin_value1 (RNum erf) g F x = lin_value (RNum erf) m x b /\ lin_grad1 (RNum erf) g F x = lin_grad (RNum erf) m /\
  is_derive (fun t => lin_value (RNum erf) m t b) x (lin_grad (RNum erf) m).
Proof. exact linear_gradient_is_derivative. Qed.
Print Assumptions C15_linear_gradient_is_derivative.

Theorem C15_parabola_reproduces_grid_points : forall (erf : R -> R) (a b d n : Z) (F : R -> R),
  (0 <= d)%Z -> (0 < b)%Z -> (0 <= n)%Z ->
  let g := {| g_lb := IZR a / IZR (10 ^ d); g_delta := IZR b / IZR (10 ^ d); g_dec := d |} in
  let x := g_lb g + IZR n * g_delta g in
  par_value1 (RNum erf) g F x = F x.
Proof. exact parabola_reproduces_grid_points. Qed.
Print Assumptions C15_parabola_reproduces_grid_points.

Theorem C15_parabola_exact_degree_2 : forall (erf : R -> R) (a b d : Z) (c2 c1 c0 x : R), (0 <= d)%Z -> (0 < b)%Z ->
  let g := {| g_lb := IZR a / IZR (10 ^ d); g_delta := IZR b / IZR (10 ^ d); g_dec := d |} in
  g_lb g <= x ->
  let F := fun t => c2 * (t * t) + c1 * t + c0 in
  par_value1 (RNum erf) g F x = F x /\ par_grad1 (RNum erf) g F x = 2 * c2 * x + c1.
Proof. exact parabola_exact_degree_2. Qed.
Print Assumptions C15_parabola_exact_degree_2.

Theorem C15_parabola_gradient_is_derivative : forall (erf : R -> R) (g : gdesc) (F : R -> R) (x : R),
  let '(x1, M1, a, b) := par_params (RNum erf) g F x in
  par_value1 (RNum erf) g F x = par_value (RNum erf) a (par_xm (RNum erf) x x1) b M1 /\
  par_grad1 (RNum erf) g F x = par_grad_ret (RNum erf) (par_grad (RNum erf) a (par_xm (RNum erf) x x1) b) /\
  is_derive (fun t => par_value (RNum erf) a (par_xm (RNum erf) t x1) b M1) x
            (par_grad_ret (RNum erf) (par_grad (RNum erf) a (par_xm (RNum erf) x x1) b)).
Proof. exact parabola_gradient_is_derivative. Qed.
Print Assumptions C15_parabola_gradient_is_derivative.

(* the value as a function of the parameter, nodes included, is differentiable
   strictly inside a cell / near a grid point, with the reported gradient *)
Theorem C15_linear_is_derive_inside_cell : forall (erf : R -> R) (a b d n : Z) (F : R -> R) (x : R),
  (0 <= d)%Z -> (0 < b)%Z -> (0 <= n)%Z ->
  let g := {| g_lb := IZR a / IZR (10 ^ d); g_delta := IZR b / IZR (10 ^ d); g_dec := d |} in
  IZR n + 5 / 10000000000 < (x - g_lb g) / g_delta g < IZR n + 1 - 5 / 10000000000 ->
  is_derive (lin_value1 (RNum erf) g F) x (lin_grad1 (RNum erf) g F x).
Proof. exact linear_is_derive_inside_cell. Qed.
Print Assumptions C15_linear_is_derive_inside_cell.

Theorem C15_parabola_is_derive_near_grid_point : forall (erf : R -> R) (a b d m : Z) (F : R -> R) (x : R),
  (0 <= d)%Z -> (0 < b)%Z -> (1 <= m)%Z ->
  let g := {| g_lb := IZR a / IZR (10 ^ d); g_delta := IZR b / IZR (10 ^ d); g_dec := d |} in
  IZR m - 1 / 2 + 5 / 10000000000 < (x - g_lb g) / g_delta g < IZR m + 1 / 2 - 5 / 10000000000 ->
  is_derive (par_value1 (RNum erf) g F) x (par_grad1 (RNum erf) g F x).
Proof. exact parabola_is_derive_near_grid_point. Qed.
Print Assumptions C15_parabola_is_derive_near_grid_point.

(* ---- the whole call, one shared or several per-source values, every number system *)
Theorem C15_linear_call_is_per_entry : forall (T : Type) (N : Num T) (g : gdesc) (Fm : manifold)
    (idxs : list (nat * nat)) (id : Z) (xs : list T) (xof : nat -> T),
  (forall s e, In (s, e) idxs -> bcast xs s = Ok (xof s)) ->
  exists st', lin_call N g Fm idxs None id xs =
    Ok (map (fun se => lin_value1 N g (fun t => Fm id t (fst se) (snd se)) (xof (fst se))) idxs,
        map (fun se => lin_grad1 N g (fun t => Fm id t (fst se) (snd se)) (xof (fst se))) idxs, st').
Proof. exact @lin_call_fresh_is_per_entry. Qed.
Print Assumptions C15_linear_call_is_per_entry.

Theorem C15_parabola_call_is_per_entry : forall (T : Type) (N : Num T) (g : gdesc) (Fm : manifold)
    (idxs : list (nat * nat)) (id : Z) (xs : list T) (xof : nat -> T),
  (forall s e, In (s, e) idxs -> bcast xs s = Ok (xof s)) ->
  exists st', par_call N g Fm idxs None id xs =
    Ok (map (fun se => par_value1 N g (fun t => Fm id t (fst se) (snd se)) (xof (fst se))) idxs,
        map (fun se => par_grad1 N g (fun t => Fm id t (fst se) (snd se)) (xof (fst se))) idxs, st').
Proof. exact @par_call_fresh_is_per_entry. Qed.
Print Assumptions C15_parabola_call_is_per_entry.

(* ---- cache consistency: the cache key (x0 resp. x1, compared exactly since fix 1fcff1d)
   determines the cached parametrisation, so a hit returns what a miss would compute *)
Theorem C15_linear_cache_key : forall (erf : R -> R) (a b d : Z) (F : R -> R) (x x' : R), (0 <= d)%Z -> (0 < b)%Z ->
  let g := {| g_lb := IZR a / IZR (10 ^ d); g_delta := IZR b / IZR (10 ^ d); g_dec := d |} in
  g_lb g <= x -> g_lb g <= x' ->
  round_lower (RNum erf) g x = round_lower (RNum erf) g x' ->
  lin_params (RNum erf) g F x = lin_params (RNum erf) g F x' /\
  (let '(_, m, b0) := lin_params (RNum erf) g F x' in
   lin_value_cached (RNum erf) m x b0 = lin_value1 (RNum erf) g F x
   /\ lin_grad_cached (RNum erf) m = lin_grad1 (RNum erf) g F x).
Proof. exact linear_params_determined_by_x0. Qed.
Print Assumptions C15_linear_cache_key.

Theorem C15_linear_two_calls_consistent : forall (erf : R -> R) (a b d : Z) (Fm : manifold)
    (idxs : list (nat * nat)) (id : Z) (xs0 xs : list R) (xof0 xof : nat -> R),
  (0 <= d)%Z -> (0 < b)%Z ->
  let g := {| g_lb := IZR a / IZR (10 ^ d); g_delta := IZR b / IZR (10 ^ d); g_dec := d |} in
  (forall s e, In (s, e) idxs -> bcast xs0 s = Ok (xof0 s) /\ bcast xs s = Ok (xof s)
                                 /\ g_lb g <= xof0 s /\ g_lb g <= xof s) ->
  (length xs0 = 1 \/ length xs = 1 \/ length xs0 = length xs)%nat ->
  exists v0 g0 st, lin_call (RNum erf) g Fm idxs None id xs0 = Ok (v0, g0, st) /\
  exists st', lin_call (RNum erf) g Fm idxs st id xs =
    Ok (map (fun se => lin_value1 (RNum erf) g (fun t => Fm id t (fst se) (snd se)) (xof (fst se))) idxs,
        map (fun se => lin_grad1 (RNum erf) g (fun t => Fm id t (fst se) (snd se)) (xof (fst se))) idxs, st').
Proof. exact linear_second_call_consistent. Qed.
Print Assumptions C15_linear_two_calls_consistent.

Theorem C15_parabola_cache_key : forall (erf : R -> R) (g : gdesc) (F : R -> R) (x x' : R),
  round_nearest (RNum erf) g x = round_nearest (RNum erf) g x' ->
  par_params (RNum erf) g F x = par_params (RNum erf) g F x'.
Proof. exact parabola_params_determined_by_x1. Qed.
Print Assumptions C15_parabola_cache_key.

Theorem C15_parabola_two_calls_consistent : forall (erf : R -> R) (g : gdesc) (Fm : manifold)
    (idxs : list (nat * nat)) (id : Z) (xs0 xs : list R) (xof0 xof : nat -> R),
  (forall s e, In (s, e) idxs -> bcast xs0 s = Ok (xof0 s) /\ bcast xs s = Ok (xof s)) ->
  (length xs0 = 1 \/ length xs = 1 \/ length xs0 = length xs)%nat ->
  exists v0 g0 st, par_call (RNum erf) g Fm idxs None id xs0 = Ok (v0, g0, st) /\
  exists st', par_call (RNum erf) g Fm idxs st id xs =
    Ok (map (fun se => par_value1 (RNum erf) g (fun t => Fm id t (fst se) (snd se)) (xof (fst se))) idxs,
        map (fun se => par_grad1 (RNum erf) g (fun t => Fm id t (fst se) (snd se)) (xof (fst se))) idxs, st').
Proof. exact parabola_second_call_consistent. Qed.
Print Assumptions C15_parabola_two_calls_consistent.

(* ---- cache consistency as a state machine: EVERY history of calls on one object
   (any length, any trial data state ids -- the layout of the values array is a function
   of the state id --, shared or per-source values, some sources changing cell and
   others not): each returned (values, gradients) is the cache-free per-entry computation
   at the arguments of that call *)
Theorem C15_linear_history_consistent : forall (erf : R -> R) (a b d : Z) (Fm : manifold)
    (layout : Z -> list (nat * nat)) (calls : list (Z * list R)) (xofs : list (nat -> R)),
  (0 <= d)%Z -> (0 < b)%Z ->
  let g := {| g_lb := IZR a / IZR (10 ^ d); g_delta := IZR b / IZR (10 ^ d); g_dec := d |} in
  (forall k id xs xof, nth_error calls k = Some (id, xs) -> nth_error xofs k = Some xof ->
     forall s e, In (s, e) (layout id) -> bcast xs s = Ok (xof s) /\ g_lb g <= xof s) ->
  forall k id xs xof v gr,
    nth_error calls k = Some (id, xs) -> nth_error xofs k = Some xof ->
    nth_error (lin_run (RNum erf) g Fm layout None calls) k = Some (Ok (v, gr)) ->
    v = map (fun se => lin_value1 (RNum erf) g (fun t => Fm id t (fst se) (snd se)) (xof (fst se))) (layout id) /\
    gr = map (fun se => lin_grad1 (RNum erf) g (fun t => Fm id t (fst se) (snd se)) (xof (fst se))) (layout id).
Proof.
  intros erf a b d Fm layout calls xofs Hd Hb g.
  exact (linear_history_consistent erf a b d Hd Hb Fm layout calls xofs None (or_introl eq_refl)).
Qed.
Print Assumptions C15_linear_history_consistent.

(* ... and no call of such a history raises when every value array has length 1 or n *)
Theorem C15_linear_history_no_error : forall (erf : R -> R) (a b d : Z) (Fm : manifold)
    (layout : Z -> list (nat * nat)) (calls : list (Z * list R)) (xofs : list (nat -> R)) (n : nat),
  (0 <= d)%Z -> (0 < b)%Z ->
  let g := {| g_lb := IZR a / IZR (10 ^ d); g_delta := IZR b / IZR (10 ^ d); g_dec := d |} in
  length xofs = length calls ->
  (forall k id xs xof, nth_error calls k = Some (id, xs) -> nth_error xofs k = Some xof ->
     (forall s e, In (s, e) (layout id) -> bcast xs s = Ok (xof s) /\ g_lb g <= xof s)
     /\ (length xs = 1 \/ length xs = n)%nat) ->
  forall k r, nth_error (lin_run (RNum erf) g Fm layout None calls) k = Some r -> exists vg, r = Ok vg.
Proof.
  intros erf a b d Fm layout calls xofs n Hd Hb g.
  exact (linear_history_no_error erf a b d Hd Hb Fm layout calls xofs n None (or_introl eq_refl) I).
Qed.
Print Assumptions C15_linear_history_no_error.

Theorem C15_parabola_history_consistent : forall (erf : R -> R) (g : gdesc) (Fm : manifold)
    (layout : Z -> list (nat * nat)) (calls : list (Z * list R)) (xofs : list (nat -> R)),
  (forall k id xs xof, nth_error calls k = Some (id, xs) -> nth_error xofs k = Some xof ->
     forall s e, In (s, e) (layout id) -> bcast xs s = Ok (xof s)) ->
  forall k id xs xof v gr,
    nth_error calls k = Some (id, xs) -> nth_error xofs k = Some xof ->
    nth_error (par_run (RNum erf) g Fm layout None calls) k = Some (Ok (v, gr)) ->
    v = map (fun se => par_value1 (RNum erf) g (fun t => Fm id t (fst se) (snd se)) (xof (fst se))) (layout id) /\
    gr = map (fun se => par_grad1 (RNum erf) g (fun t => Fm id t (fst se) (snd se)) (xof (fst se))) (layout id).
Proof.
  intros erf g Fm layout calls xofs.
  exact (parabola_history_consistent erf g Fm layout calls xofs None (or_introl eq_refl)).
Qed.
Print Assumptions C15_parabola_history_consistent.

Theorem C15_parabola_history_no_error : forall (erf : R -> R) (g : gdesc) (Fm : manifold)
    (layout : Z -> list (nat * nat)) (calls : list (Z * list R)) (xofs : list (nat -> R)) (n : nat),
  length xofs = length calls ->
  (forall k id xs xof, nth_error calls k = Some (id, xs) -> nth_error xofs k = Some xof ->
     (forall s e, In (s, e) (layout id) -> bcast xs s = Ok (xof s)) /\ (length xs = 1 \/ length xs = n)%nat) ->
  forall k r, nth_error (par_run (RNum erf) g Fm layout None calls) k = Some r -> exists vg, r = Ok vg.
Proof.
  intros erf g Fm layout calls xofs n.
  exact (parabola_history_no_error erf g Fm layout calls xofs n None (or_introl eq_refl) I).
Qed.
Print Assumptions C15_parabola_history_no_error.

(* ---- end to end: every entry of every result of every history *)
Theorem C15_linear_history_gradient_is_derivative : forall (erf : R -> R) (a b d : Z) (Fm : manifold)
    (layout : Z -> list (nat * nat)) (calls : list (Z * list R)) (xofs : list (nat -> R)),
  (0 <= d)%Z -> (0 < b)%Z ->
  let g := {| g_lb := IZR a / IZR (10 ^ d); g_delta := IZR b / IZR (10 ^ d); g_dec := d |} in
  (forall k id xs xof, nth_error calls k = Some (id, xs) -> nth_error xofs k = Some xof ->
     forall s e, In (s, e) (layout id) -> bcast xs s = Ok (xof s) /\ g_lb g <= xof s) ->
  forall k id xs xof v gr j s e (n : Z),
    nth_error calls k = Some (id, xs) -> nth_error xofs k = Some xof ->
    nth_error (lin_run (RNum erf) g Fm layout None calls) k = Some (Ok (v, gr)) ->
    nth_error (layout id) j = Some (s, e) ->
    (0 <= n)%Z ->
    IZR n + 5 / 10000000000 < (xof s - g_lb g) / g_delta g < IZR n + 1 - 5 / 10000000000 ->
    exists vj gj, nth_error v j = Some vj /\ nth_error gr j = Some gj /\
      vj = lin_value1 (RNum erf) g (fun t => Fm id t s e) (xof s) /\
      is_derive (lin_value1 (RNum erf) g (fun t => Fm id t s e)) (xof s) gj.
Proof.
  intros erf a b d Fm layout calls xofs Hd Hb g.
  exact (linear_history_gradient_is_derivative erf a b d Hd Hb Fm layout calls xofs).
Qed.
Print Assumptions C15_linear_history_gradient_is_derivative.

Theorem C15_linear_history_exact_for_lines : forall (erf : R -> R) (a b d : Z) (Fm : manifold)
    (layout : Z -> list (nat * nat)) (P Q : Z -> nat -> nat -> R) (calls : list (Z * list R)) (xofs : list (nat -> R)),
  (0 <= d)%Z -> (0 < b)%Z ->
  let g := {| g_lb := IZR a / IZR (10 ^ d); g_delta := IZR b / IZR (10 ^ d); g_dec := d |} in
  (forall id t s e, Fm id t s e = P id s e * t + Q id s e) ->
  (forall k id xs xof, nth_error calls k = Some (id, xs) -> nth_error xofs k = Some xof ->
     forall s e, In (s, e) (layout id) -> bcast xs s = Ok (xof s) /\ g_lb g <= xof s) ->
  forall k id xs xof v gr j s e,
    nth_error calls k = Some (id, xs) -> nth_error xofs k = Some xof ->
    nth_error (lin_run (RNum erf) g Fm layout None calls) k = Some (Ok (v, gr)) ->
    nth_error (layout id) j = Some (s, e) ->
    nth_error v j = Some (Fm id (xof s) s e) /\ nth_error gr j = Some (P id s e).
Proof.
  intros erf a b d Fm layout P Q calls xofs Hd Hb g.
  exact (linear_history_exact_for_lines erf a b d Hd Hb Fm layout P Q calls xofs).
Qed.
Print Assumptions C15_linear_history_exact_for_lines.

Theorem C15_parabola_history_gradient_is_derivative : forall (erf : R -> R) (a b d : Z) (Fm : manifold)
    (layout : Z -> list (nat * nat)) (calls : list (Z * list R)) (xofs : list (nat -> R)),
  (0 <= d)%Z -> (0 < b)%Z ->
  let g := {| g_lb := IZR a / IZR (10 ^ d); g_delta := IZR b / IZR (10 ^ d); g_dec := d |} in
  (forall k id xs xof, nth_error calls k = Some (id, xs) -> nth_error xofs k = Some xof ->
     forall s e, In (s, e) (layout id) -> bcast xs s = Ok (xof s)) ->
  forall k id xs xof v gr j s e (m : Z),
    nth_error calls k = Some (id, xs) -> nth_error xofs k = Some xof ->
    nth_error (par_run (RNum erf) g Fm layout None calls) k = Some (Ok (v, gr)) ->
    nth_error (layout id) j = Some (s, e) ->
    (1 <= m)%Z ->
    IZR m - 1 / 2 + 5 / 10000000000 < (xof s - g_lb g) / g_delta g < IZR m + 1 / 2 - 5 / 10000000000 ->
    exists vj gj, nth_error v j = Some vj /\ nth_error gr j = Some gj /\
      vj = par_value1 (RNum erf) g (fun t => Fm id t s e) (xof s) /\
      is_derive (par_value1 (RNum erf) g (fun t => Fm id t s e)) (xof s) gj.
Proof.
  intros erf a b d Fm layout calls xofs Hd Hb g.
  exact (parabola_history_gradient_is_derivative erf a b d Hd Hb Fm layout calls xofs).
Qed.
Print Assumptions C15_parabola_history_gradient_is_derivative.

Theorem C15_parabola_history_exact_for_quadratics : forall (erf : R -> R) (a b d : Z) (Fm : manifold)
    (layout : Z -> list (nat * nat)) (C2 C1 C0 : Z -> nat -> nat -> R) (calls : list (Z * list R)) (xofs : list (nat -> R)),
  (0 <= d)%Z -> (0 < b)%Z ->
  let g := {| g_lb := IZR a / IZR (10 ^ d); g_delta := IZR b / IZR (10 ^ d); g_dec := d |} in
  (forall id t s e, Fm id t s e = C2 id s e * (t * t) + C1 id s e * t + C0 id s e) ->
  (forall k id xs xof, nth_error calls k = Some (id, xs) -> nth_error xofs k = Some xof ->
     forall s e, In (s, e) (layout id) -> bcast xs s = Ok (xof s) /\ g_lb g <= xof s) ->
  forall k id xs xof v gr j s e,
    nth_error calls k = Some (id, xs) -> nth_error xofs k = Some xof ->
    nth_error (par_run (RNum erf) g Fm layout None calls) k = Some (Ok (v, gr)) ->
    nth_error (layout id) j = Some (s, e) ->
    nth_error v j = Some (Fm id (xof s) s e) /\
    nth_error gr j = Some (2 * C2 id s e * xof s + C1 id s e).
Proof.
  intros erf a b d Fm layout C2 C1 C0 calls xofs Hd Hb g.
  exact (parabola_history_exact_for_quadratics erf a b d Hd Hb Fm layout C2 C1 C0 calls xofs).
Qed.
Print Assumptions C15_parabola_history_exact_for_quadratics.

(* ---- the cache key is (trial data state id, grid cell) only: the history theorems are about ONE manifold
   function per object, a function of (state id, grid value, source, event).  If the function (or what it
   closes over: eventdata, kwargs) changes while state id and cell stay the same, a hit answers for the OLD
   function -- on IEEE doubles, grid 1,2,3,..., x = 2.5, F0 = 0, F1 = 1: the object answers 0 for F1 *)
Theorem C15_cache_key_omits_function_refuted :
  (exists v0 g0 st v gr st' vf gf stf,
     lin_call SFNum wit_g wit_F0 wit_idxs None 1 wit_xs = Ok (v0, g0, st) /\
     lin_call SFNum wit_g wit_F1 wit_idxs st 1 wit_xs = Ok (v, gr, st') /\
     lin_call SFNum wit_g wit_F1 wit_idxs None 1 wit_xs = Ok (vf, gf, stf) /\
     v = [sf_zero] /\ vf = [sf_one]) /\
  (exists v0 g0 st v gr st' vf gf stf,
     par_call SFNum wit_g wit_F0 wit_idxs None 1 wit_xs = Ok (v0, g0, st) /\
     par_call SFNum wit_g wit_F1 wit_idxs st 1 wit_xs = Ok (v, gr, st') /\
     par_call SFNum wit_g wit_F1 wit_idxs None 1 wit_xs = Ok (vf, gf, stf) /\
     v = [sf_zero] /\ vf = [sf_one]).
Proof. exact cache_key_omits_function_refuted. Qed.
Print Assumptions C15_cache_key_omits_function_refuted.

(* ---- PDFSet lookup by the hash of the rounded grid values (every number system).
   h v = hash(frozenset({name: v}.items())) *)
Theorem C15_pdfset_lookup_finds_grid_pdf : forall (T A : Type) (h : T -> Z) (grid : list T) (pdfs : list A)
    (tbl : pdfset) (i : nat) (gi : T) (q : A) (x : T),
  ps_build h [] grid pdfs = Ok tbl ->
  nth_error grid i = Some gi -> nth_error pdfs i = Some q ->
  h x = h gi ->
  ps_get h tbl x = Ok q.
Proof. exact @ps_lookup_finds_grid_pdf. Qed.
Print Assumptions C15_pdfset_lookup_finds_grid_pdf.

Theorem C15_rounded_value_finds_its_pdf : forall (T : Type) (N : Num T) (A : Type) (h : T -> Z)
    (d0 : T) (dec : Z) (arr : list T) (p : pgrid) (pdfs : list A) (tbl : pdfset) (v : T),
  pg_make N d0 dec arr = Ok p ->
  ps_build h [] (pg_grid p) pdfs = Ok tbl ->
  (In (k_lower N (pg_desc p) v) (map (k_nearest N (pg_desc p)) arr) ->
   exists i q, nth_error (pg_grid p) i = Some (round_lower N (pg_desc p) v) /\ nth_error pdfs i = Some q
               /\ ps_get h tbl (round_lower N (pg_desc p) v) = Ok q) /\
  (In (k_nearest N (pg_desc p) v) (map (k_nearest N (pg_desc p)) arr) ->
   exists i q, nth_error (pg_grid p) i = Some (round_nearest N (pg_desc p) v) /\ nth_error pdfs i = Some q
               /\ ps_get h tbl (round_nearest N (pg_desc p) v) = Ok q) /\
  (In (k_upper N (pg_desc p) v) (map (k_nearest N (pg_desc p)) arr) ->
   exists i q, nth_error (pg_grid p) i = Some (round_upper N (pg_desc p) v) /\ nth_error pdfs i = Some q
               /\ ps_get h tbl (round_upper N (pg_desc p) v) = Ok q).
Proof. exact @rounded_value_finds_its_pdf. Qed.
Print Assumptions C15_rounded_value_finds_its_pdf.

(* given a self-consistent grid (the computable float predicate) and Python's hash
   contract (values comparing equal hash equal) *)
Theorem C15_self_consistent_grid_point_finds_own_pdf : forall (T : Type) (N : Num T) (A : Type) (h : T -> Z)
    (p : pgrid) (pdfs : list A) (tbl : pdfset) (i : nat) (gi : T) (q : A),
  (forall x y, neqb N x y = true -> h x = h y) ->
  self_consistent N p = true ->
  ps_build h [] (pg_grid p) pdfs = Ok tbl ->
  nth_error (pg_grid p) i = Some gi -> nth_error pdfs i = Some q ->
  ps_get h tbl (round_lower N (pg_desc p) gi) = Ok q /\
  ps_get h tbl (round_nearest N (pg_desc p) gi) = Ok q.
Proof. exact @self_consistent_grid_point_finds_own_pdf. Qed.
Print Assumptions C15_self_consistent_grid_point_finds_own_pdf.

(* the guard "ps_build ... = Ok tbl" is needed: distinct grid values can have equal hashes.  This is the hash
   make_dict_hash used BEFORE fix 3d907c5 (CPython's own hash of numbers: hash(-1) = -2); kept as the regression
   witness.  C15_pdfset_build_ok is the positive counterpart. *)
Theorem C15_pdfset_build_refuted :
  NoDup [-3; -2; -1; 0]%Z /\
  ps_build cpython_hash_small [] [-3; -2; -1; 0]%Z [0; 1; 2; 3]%nat = Err KeyError /\
  exists tbl, ps_build cpython_hash_small [] [-3; -2; 0; 1]%Z [0; 1; 2; 3]%nat = Ok tbl.
Proof. exact pdfset_build_refuted. Qed.
Print Assumptions C15_pdfset_build_refuted.

Theorem C15_pdfset_build_ok : forall (T A : Type) (h : T -> Z) (grid : list T) (pdfs : list A),
  NoDup (map h grid) -> length grid = length pdfs -> exists tbl, ps_build h [] grid pdfs = Ok tbl.
Proof. exact @ps_build_ok. Qed.
Print Assumptions C15_pdfset_build_ok.

(* ---- the guard "origin <= v" of C15_bracket / C15_nearest_half_spacing is needed:
   below the origin astype(int64) truncates towards zero instead of flooring *)
Theorem C15_nearest_below_origin_refuted : forall erf : R -> R,
  let g := {| g_lb := IZR 1 / IZR (10 ^ 0); g_delta := IZR 1 / IZR (10 ^ 0); g_dec := 0 |} in
  exists v : R, v < g_lb g /\ g_lb g - v < g_delta g / 2 /\
    round_nearest (RNum erf) g v = g_lb g + g_delta g /\
    Rabs (round_nearest (RNum erf) g v - v) > g_delta g / 2 + 5 / 10000000000 * g_delta g.
Proof. exact nearest_below_origin_refuted. Qed.
Print Assumptions C15_nearest_below_origin_refuted.

Theorem C15_lower_below_origin_refuted : forall erf : R -> R,
  let g := {| g_lb := IZR 1 / IZR (10 ^ 0); g_delta := IZR 1 / IZR (10 ^ 0); g_dec := 0 |} in
  exists v : R, v < g_lb g /\ v < round_lower (RNum erf) g v.
Proof. exact lower_below_origin_refuted. Qed.
Print Assumptions C15_lower_below_origin_refuted.

(* the guard "first grid point <= v" of C15_irregular_lower_upper is needed: below the first
   point the index -1 wraps around to the LAST grid point *)
Theorem C15_irregular_lower_below_first_refuted : forall erf : R -> R,
  irr_lower (RNum erf) [1; 2] 0 = Ok 2.
Proof. exact irregular_lower_below_first_refuted. Qed.
Print Assumptions C15_irregular_lower_below_first_refuted.

(* ---- non-vacuity *)
Example C15_ex_fine_grid_self_consistent :
  exists p, pg_make SFNum sf_d3 3 (sf_arange sf_zero sf_d3 6) = Ok p /\ self_consistent SFNum p = true.
Proof. exact self_consistent_fine_grid. Qed.
Example C15_ex_tenth_grid_self_consistent :
  exists p, pg_make SFNum (sf_div sf_one (ofZ SFNum 10)) 1
                    (sf_arange (ofZ SFNum (-3)) (sf_div sf_one (ofZ SFNum 10)) 8) = Ok p
            /\ self_consistent SFNum p = true.
Proof. exact self_consistent_tenth_grid. Qed.
Example C15_ex_bcast_shared : forall s : nat, bcast (T := Z) [7%Z] s = Ok 7%Z.
Proof. intros s. reflexivity. Qed.
Example C15_ex_inside_cell : IZR 2 + 5 / 10000000000 < (1 + 25 / 100 - IZR 10 / IZR (10 ^ 1)) / (IZR 1 / IZR (10 ^ 1)) < IZR 2 + 1 - 5 / 10000000000.
Proof. change (10 ^ 1)%Z with 10%Z. split; lra. Qed.
Example C15_ex_pdfset : exists tbl, ps_build (fun x : Z => x) [] [10; 20; 30]%Z [1; 2; 3]%nat = Ok tbl
  /\ ps_get (fun x : Z => x) tbl 20%Z = Ok 2%nat /\ ps_get (fun x : Z => x) tbl 25%Z = Err KeyError.
Proof. eexists. repeat split; reflexivity. Qed.
Example C15_ex_pdfset_hash_collision : ps_build (fun _ : Z => 0%Z) [] [10; 20]%Z [1; 2]%nat = Err KeyError.
Proof. reflexivity. Qed.
(* instances: the hypotheses of the main theorems are met by concrete grids / histories *)
Example C15_ex_bracket_instance : forall erf : R -> R,
  let g := {| g_lb := IZR 58000000 / IZR (10 ^ 3); g_delta := IZR 1 / IZR (10 ^ 3); g_dec := 3 |} in
  exists n : Z, (0 <= n)%Z /\ round_lower (RNum erf) g (58000 + 1 / 2000) = g_lb g + IZR n * g_delta g
                /\ 58000 + 1 / 2000 < round_upper (RNum erf) g (58000 + 1 / 2000).
Proof.
  intros erf g.
  destruct (C15_bracket erf 58000000 1 3 (58000 + 1 / 2000) ltac:(lia) ltac:(lia)) as [n [H0 [H1 [_ [_ [_ [_ H6]]]]]]].
  - cbn [g_lb]. change (10 ^ 3)%Z with 1000%Z. lra.
  - exists n. repeat split; assumption.
Qed.
Example C15_ex_history_instance : forall (erf : R -> R) (Fm : manifold) (k : nat) r,
  let g := {| g_lb := IZR 1 / IZR (10 ^ 0); g_delta := IZR 1 / IZR (10 ^ 0); g_dec := 0 |} in
  nth_error (lin_run (RNum erf) g Fm (fun _ => [(0, 0)%nat; (0, 1)%nat])
                     None [(1%Z, [3 / 2]); (1%Z, [8 / 5]); (2%Z, [3 / 2]); (2%Z, [5 / 2])]) k = Some r ->
  exists vg, r = Ok vg.
Proof.
  intros erf Fm k r g.
  apply (C15_linear_history_no_error erf 1 1 0 Fm (fun _ => [(0, 0)%nat; (0, 1)%nat])
           [(1%Z, [3 / 2]); (1%Z, [8 / 5]); (2%Z, [3 / 2]); (2%Z, [5 / 2])]
           [fun _ => 3 / 2; fun _ => 8 / 5; fun _ => 3 / 2; fun _ => 5 / 2] 1 ltac:(lia) ltac:(lia) eq_refl).
  intros k' id xs xof Hc Hx.
  do 4 (destruct k' as [|k']; [cbn in Hc, Hx; inversion Hc; inversion Hx; subst;
                              split; [intros s e _; split; [reflexivity|cbn [g_lb]; change (10 ^ 0)%Z with 1%Z; lra]|left; reflexivity]|]).
  destruct k'; discriminate.
Qed.
Example C15_ex_hypotheses : (0 <= 3 <= 16)%Z /\ (0 < 1)%Z /\ IZR 58000000 / IZR (10 ^ 3) <= 58000 + 1 / 2.
Proof. split; [lia|split; [lia|]]. change (10 ^ 3)%Z with 1000%Z. lra. Qed.
