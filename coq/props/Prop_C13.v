(* C13 — flux models: integrals, units, parameter updates and copies are consistent.
   Statements only; every proof is `exact <lemma>`.  RNum erfR is the real-number
   reading of the Num-polymorphic model M_Flux.v (whose formulas are the kernels
   regenerated from skyllh/core/flux_model.py); erfR is an arbitrary function, the
   Gaussian theorems carry its derivative as a premise. *)
From Coq Require Import Reals ZArith List Bool Lra Lia.
From Coquelicot Require Import Coquelicot.
From Sky Require Import Result Num NumR G_flux M_Flux S_Flux P_Flux P_FluxInt P_FluxObj P_FluxStore P_FluxDeep P_FluxRv.
Import ListNotations.
Open Scope R_scope.

(* ---------------------------------------------------------------- integrals *)
Theorem C13_pl_int : forall (erfR : R -> R) E0 g E1 E2, 0 < E0 -> 0 < E1 <= E2 ->
  is_RInt (fun E => pl_call (RNum erfR) E E0 g) E1 E2 (pl_integral (RNum erfR) E0 g E1 E2).
Proof. exact pl_is_RInt. Qed.
Print Assumptions C13_pl_int.

Theorem C13_pl_closed_forms : forall (erfR : R -> R) E0 g E1 E2,
  pl_call (RNum erfR) E1 E0 g = Rpower (E1 / E0) (- g)
  /\ pl_integral (RNum erfR) E0 1 E1 E2 = E0 * ln (E2 / E1)
  /\ (0 < E1 -> 0 < E2 -> g <> 1 -> pl_integral (RNum erfR) E0 g E1 E2
                 = Rpower E0 g / (1 - g) * (Rpower E2 (1 - g) - Rpower E1 (1 - g))).
Proof.
  intros erfR E0 g E1 E2.
  exact (conj (K_pl_call erfR E1 E0 g) (conj (pl_integral_g1 erfR E0 E1 E2) (pl_integral_gen erfR E0 g E1 E2))).
Qed.
Print Assumptions C13_pl_closed_forms.

Theorem C13_additive : forall (erfR : R -> R),
  (forall E0 g a b c, 0 < a -> 0 < b -> 0 < c ->
     pl_integral (RNum erfR) E0 g a b + pl_integral (RNum erfR) E0 g b c = pl_integral (RNum erfR) E0 g a c)
  /\ (forall a b c, ue_int (RNum erfR) a b + ue_int (RNum erfR) b c = ue_int (RNum erfR) a c)
  /\ (forall a b c, ut_int (RNum erfR) a b + ut_int (RNum erfR) b c = ut_int (RNum erfR) a c)
  /\ (forall ts te a b c, ts <= te -> a <= b <= c ->
     box_integral (RNum erfR) ts te a b + box_integral (RNum erfR) ts te b c = box_integral (RNum erfR) ts te a c)
  /\ (forall ts te sg a b c,
     gauss_integral (RNum erfR) ts te sg a b + gauss_integral (RNum erfR) ts te sg b c
       = gauss_integral (RNum erfR) ts te sg a c).
Proof.
  intros erfR.
  exact (conj (pl_additive erfR) (conj (unity_additive erfR) (conj (unity_t_additive erfR)
        (conj (box_additive erfR) (gauss_additive erfR))))).
Qed.
Print Assumptions C13_additive.

Theorem C13_box_int : forall (erfR : R -> R) tu ts te t1 t2, ts <= te -> t1 <= t2 ->
  is_RInt (t_call (RNum erfR) (Box tu ts te) None) t1 t2 (t_int (RNum erfR) (Box tu ts te) None t1 t2)
  /\ t_int (RNum erfR) (Box tu ts te) None t1 t2 = Rmax 0 (Rmin t2 te - Rmax t1 ts).
Proof.
  intros erfR tu ts te t1 t2 Hw H12.
  exact (conj (box_is_RInt erfR tu ts te t1 t2 Hw H12) (box_int_length erfR tu ts te t1 t2 Hw H12)).
Qed.
Print Assumptions C13_box_int.

(* Gaussian (after fix 0a1ba7d: the integration range is clipped to the support window):
   get_integral is the integral of the profile values for EVERY interval; inside the window
   it is the plain erf difference.  Before the fix this was refuted outside the window. *)
Theorem C13_gauss_int : forall (erfR : R -> R),
  (forall x, is_derive erfR x (2 / sqrt PI * exp (- (x * x)))) ->
  forall tu ts te sg tol t1 t2, 0 < sg -> ts <= te -> t1 <= t2 ->
  is_RInt (t_call (RNum erfR) (Gauss tu ts te sg tol) None) t1 t2
          (t_int (RNum erfR) (Gauss tu ts te sg tol) None t1 t2).
Proof. exact gauss_is_RInt. Qed.
Print Assumptions C13_gauss_int.

Theorem C13_gauss_int_inside : forall (erfR : R -> R) tu ts te sg tol t1 t2,
  ts <= t1 -> t1 <= t2 -> t2 <= te ->
  t_int (RNum erfR) (Gauss tu ts te sg tol) None t1 t2 =
    sqrt (PI / 2) * sg * erfR ((t2 - (ts + te) / 2) / (sqrt 2 * sg))
    - sqrt (PI / 2) * sg * erfR ((t1 - (ts + te) / 2) / (sqrt 2 * sg)).
Proof. exact gauss_int_inside. Qed.
Print Assumptions C13_gauss_int_inside.

(* get_total_integral is the integral over the CURRENT support window (a function of the state only:
   together with C13_update_box / C13_update_gauss, updated and constructed profiles have the same total) *)
Theorem C13_total : forall (erfR : R -> R) p,
  t_total (RNum erfR) p =
    match p with UnityT _ ts te | Box _ ts te | Gauss _ ts te _ _ => t_int (RNum erfR) p None ts te end.
Proof. exact t_total_spec. Qed.
Print Assumptions C13_total.

(* ---------------------------------------------------------------- product *)
Theorem C13_product : forall (erfR : R -> R) s l Phi0 ls le lt sp ep tp rd E t eu tu,
  nth_error s l = Some (OM Phi0 ls le lt) ->
  get_s s ls = Ok sp -> get_e s le = Ok ep -> get_t s lt = Ok tp ->
  ffm_call (RNum erfR) s l rd E t eu tu =
    Ok (Phi0
        * (match rd with Some (ra, dec) => s_call (RNum erfR) sp ra dec | None => 1 end)
        * (match E with Some x => e_call (RNum erfR) ep eu x | None => 1 end)
        * (match t with Some x => t_call (RNum erfR) tp tu x | None => 1 end)).
Proof. exact ffm_product. Qed.
Print Assumptions C13_product.

(* ---------------------------------------------------------------- units *)
(* the same physical argument (value times unit factor) given in unit u or in unit w *)
Theorem C13_units : forall (erfR : R -> R),
  (forall p u w x, e_call (RNum erfR) p (Some u) x = e_call (RNum erfR) p (Some w) (x * IZR (efac u) / IZR (efac w)))
  /\ (forall p x, e_call (RNum erfR) p None x = e_call (RNum erfR) p (Some (e_unit p)) x)
  /\ (forall p u w a b, e_int (RNum erfR) p (Some u) a b
        = e_int (RNum erfR) p (Some w) (a * IZR (efac u) / IZR (efac w)) (b * IZR (efac u) / IZR (efac w)))
  /\ (forall p u w x, t_call (RNum erfR) p (Some u) x = t_call (RNum erfR) p (Some w) (x * IZR (tfac u) / IZR (tfac w)))
  /\ (forall p u w a b, t_int (RNum erfR) p (Some u) a b
        = t_int (RNum erfR) p (Some w) (a * IZR (tfac u) / IZR (tfac w)) (b * IZR (tfac u) / IZR (tfac w)))
  /\ (forall E0 g k E, 0 < k -> pl_call (RNum erfR) (E / k) (E0 / k) g = pl_call (RNum erfR) E E0 g).
Proof.
  intros erfR.
  exact (conj (e_call_units erfR) (conj (e_call_own erfR) (conj (e_int_units erfR)
        (conj (t_call_units erfR) (conj (t_int_units erfR) (pl_rescale erfR)))))).
Qed.
Print Assumptions C13_units.

(* ---------------------------------------------------------------- update = construct *)
(* constructors, as the code runs them, in normal form *)
Theorem C13_construct : forall (erfR : R -> R) tu t0 tw sg tol,
  box_new (RNum erfR) tu t0 tw = Box tu (t0 - tw / 2) (t0 + tw / 2)
  /\ (t0 <= tw -> box_from (RNum erfR) tu t0 tw = Box tu t0 tw)
  /\ gauss_new (RNum erfR) tu t0 sg tol
     = Gauss tu (t0 - sqrt (- 2 * (sg * sg) * ln tol)) (t0 + sqrt (- 2 * (sg * sg) * ln tol)) sg tol.
Proof.
  intros erfR tu t0 tw sg tol.
  exact (conj (box_new_R erfR tu t0 tw) (conj (box_from_R erfR tu t0 tw) (gauss_new_R erfR tu t0 sg tol))).
Qed.
Print Assumptions C13_construct.

(* any history of set_params / t0, tw setters / move on a box profile ends in exactly the
   profile constructed with the parameter values the history asks for *)
Theorem C13_update_box : forall (erfR : R -> R) ops tu t0 tw, List.Forall par_op ops ->
  t_run (RNum erfR) ops (box_new (RNum erfR) tu t0 tw) =
    box_new (RNum erfR) tu (fst (fold_left (box_spec tu) ops (t0, tw))) (snd (fold_left (box_spec tu) ops (t0, tw))).
Proof. exact box_update. Qed.
Print Assumptions C13_update_box.

(* the same for the Gaussian (t0, sigma_t setters incl. the support window, move); this is the
   statement that failed before fix 3a4f2c1 *)
Theorem C13_update_gauss : forall (erfR : R -> R) ops tu t0 sg tol, List.Forall par_op ops ->
  t_run (RNum erfR) ops (gauss_new (RNum erfR) tu t0 sg tol) =
    gauss_new (RNum erfR) tu (fst (fold_left (gauss_spec tu) ops (t0, sg)))
              (snd (fold_left (gauss_spec tu) ops (t0, sg))) tol.
Proof. exact gauss_update. Qed.
Print Assumptions C13_update_gauss.

Theorem C13_update_energy : forall (erfR : R -> R) eu E0 g Ec a b pd,
  fst (e_set_params (RNum erfR) pd (PowerLaw eu E0 g)) = PowerLaw eu (pick pd nE0 E0) (pick pd nGamma g)
  /\ fst (e_set_params (RNum erfR) pd (Cutoff eu E0 g Ec))
     = Cutoff eu (pick pd nE0 E0) (pick pd nGamma g) (pick pd nEcut Ec)
  /\ fst (e_set_params (RNum erfR) pd (LogPar eu E0 a b))
     = LogPar eu (pick pd nE0 E0) (pick pd nAlpha a) (pick pd nBeta b).
Proof.
  intros erfR eu E0 g Ec a b pd.
  exact (conj (pl_set_params erfR eu E0 g pd) (conj (co_set_params erfR eu E0 g Ec pd) (lp_set_params erfR eu E0 a b pd))).
Qed.
Print Assumptions C13_update_energy.

(* ---------------------------------------------------------------- copies *)
(* what any sequence of mutators can touch: only locations in a reference-closed set A
   containing the operated objects *)
Theorem C13_frame : forall (T : Type) (N : Num T) (A : nat -> Prop) ops s s',
  List.Forall mutator ops -> (forall o, In o ops -> A (op_loc o)) -> closed A s ->
  run N s ops = Ok s' ->
  (forall k, ~ A k -> nth_error s' k = nth_error s k) /\ same_shape s s'.
Proof. exact @run_frame. Qed.
Print Assumptions C13_frame.

(* copy(): fresh locations only, equal to the original when made, closed under references *)
Theorem C13_copy_fresh : forall (T : Type) (s : @store T) l s' l',
  obj_copy s l = Ok (s', l') ->
  exists new, s' = s ++ new /\ (length s <= l' < length s')%nat
    /\ view_of s' l' = view_of s l
    /\ closed (fun k => (length s <= k)%nat) s'
    /\ (forall k, In k (reach s' l') -> (length s <= k)%nat).
Proof. exact @copy_spec. Qed.
Print Assumptions C13_copy_fresh.

(* a copy never shares state with its original *)
Theorem C13_copy_independent : forall (T : Type) (N : Num T) (s : @store T) l s' l' ops s'',
  wf s -> obj_copy s l = Ok (s', l') -> List.Forall mutator ops -> run N s' ops = Ok s'' ->
  ((forall o, In o ops -> (length s <= op_loc o)%nat) ->
     forall k, (k < length s)%nat -> nth_error s'' k = nth_error s k)
  /\ ((forall o, In o ops -> (op_loc o < length s)%nat) ->
     forall k, (length s <= k)%nat -> nth_error s'' k = nth_error s' k).
Proof. exact @copy_independent. Qed.
Print Assumptions C13_copy_independent.

(* ================================================================ deepening *)
(* Numerically integrated profiles (cut-off, log-parabola, function-based): the code's
   get_integral = scipy quad applied to the profile's own __call__ (kernels gen_int_*,
   co_int_delegate, lp_int_delegate).  Q is the quadrature ORACLE; its contract is the premise:
   it returns the Riemann integral of an integrable integrand. *)
Theorem C13_numeric_int : forall (erfR : R -> R) (Q : (R -> R) -> R -> R -> R),
  (forall f a b, ex_RInt f a b -> Q f a b = RInt f a b) ->
  (forall eu E0 g Ec E1 E2, 0 < E0 -> Ec <> 0 -> 0 < E1 <= E2 ->
     is_RInt (e_call (RNum erfR) (Cutoff eu E0 g Ec) None) E1 E2
             (e_int_q (RNum erfR) Q (Cutoff eu E0 g Ec) None E1 E2))
  /\ (forall eu E0 a b E1 E2, 0 < E0 -> 0 < E1 <= E2 ->
     is_RInt (e_call (RNum erfR) (LogPar eu E0 a b) None) E1 E2
             (e_int_q (RNum erfR) Q (LogPar eu E0 a b) None E1 E2))
  /\ (forall eu (f : R -> R) E1 E2, E1 <= E2 -> (forall x, E1 <= x <= E2 -> continuous f x) ->
     is_RInt (e_call (RNum erfR) (FuncE eu f) None) E1 E2
             (e_int_q (RNum erfR) Q (FuncE eu f) None E1 E2)).
Proof.
  intros erfR Q HQ.
  exact (conj (cutoff_is_RInt erfR Q HQ) (conj (logpar_is_RInt erfR Q HQ) (func_is_RInt erfR Q HQ))).
Qed.
Print Assumptions C13_numeric_int.

Theorem C13_numeric_additive : forall (erfR : R -> R) (Q : (R -> R) -> R -> R -> R),
  (forall f a b, ex_RInt f a b -> Q f a b = RInt f a b) ->
  (forall eu E0 g Ec a b c, 0 < E0 -> Ec <> 0 -> 0 < a -> a <= b <= c ->
     e_int_q (RNum erfR) Q (Cutoff eu E0 g Ec) None a b + e_int_q (RNum erfR) Q (Cutoff eu E0 g Ec) None b c
       = e_int_q (RNum erfR) Q (Cutoff eu E0 g Ec) None a c)
  /\ (forall eu E0 al be a b c, 0 < E0 -> 0 < a -> a <= b <= c ->
     e_int_q (RNum erfR) Q (LogPar eu E0 al be) None a b + e_int_q (RNum erfR) Q (LogPar eu E0 al be) None b c
       = e_int_q (RNum erfR) Q (LogPar eu E0 al be) None a c)
  /\ (forall eu (f : R -> R) a b c, a <= b <= c -> (forall x, a <= x <= c -> continuous f x) ->
     e_int_q (RNum erfR) Q (FuncE eu f) None a b + e_int_q (RNum erfR) Q (FuncE eu f) None b c
       = e_int_q (RNum erfR) Q (FuncE eu f) None a c).
Proof. exact numeric_additive. Qed.
Print Assumptions C13_numeric_additive.

(* every argument is converted to the profile's unit exactly once on every path (values of all
   energy / time profiles, integrals of all energy profiles incl. the quadrature ones; no
   premise on Q), and the own-unit values are the documented formulas *)
Theorem C13_convert_once : forall (erfR : R -> R) (Q : (R -> R) -> R -> R -> R),
  (forall p unit E, e_call (RNum erfR) p unit E =
     e_call (RNum erfR) p None
       (match unit with None => E
        | Some u => if (u =? e_unit p)%Z then E else E * (IZR (efac u) / IZR (efac (e_unit p))) end))
  /\ (forall p unit t, t_call (RNum erfR) p unit t =
     t_call (RNum erfR) p None
       (match unit with None => t
        | Some u => if (u =? t_unit p)%Z then t else t * (IZR (tfac u) / IZR (tfac (t_unit p))) end))
  /\ (forall p unit a b, e_int_q (RNum erfR) Q p unit a b =
     e_int_q (RNum erfR) Q p None
       (match unit with None => a
        | Some u => if (u =? e_unit p)%Z then a else a * (IZR (efac u) / IZR (efac (e_unit p))) end)
       (match unit with None => b
        | Some u => if (u =? e_unit p)%Z then b else b * (IZR (efac u) / IZR (efac (e_unit p))) end))
  /\ (forall p u w a b, e_int_q (RNum erfR) Q p (Some u) a b =
     e_int_q (RNum erfR) Q p (Some w) (a * IZR (efac u) / IZR (efac w)) (b * IZR (efac u) / IZR (efac w)))
  /\ (forall p E, e_call (RNum erfR) p None E =
      match p with
      | UnityE _ => 1
      | PowerLaw _ E0 g => Rpower (E / E0) (- g)
      | Cutoff _ E0 g Ec => Rpower (E / E0) (- g) * exp (- E / Ec)
      | LogPar _ E0 a b => Rpower (E / E0) (- a - b * ln (E / E0))
      | FuncE _ f => f E
      end).
Proof.
  intros erfR Q.
  exact (conj (e_call_once erfR) (conj (t_call_once erfR) (conj (e_int_q_once erfR Q)
        (conj (e_int_q_units erfR Q) (e_call_value erfR))))).
Qed.
Print Assumptions C13_convert_once.

(* the unit factor table: identity, composition along conversions, inverse pairs, positivity;
   to_internal_flux_unit composes with it *)
Theorem C13_unit_table : forall (erfR : R -> R),
  (forall fac, (forall v, 0 < IZR (fac v)) ->
     (forall u, conv (RNum erfR) fac u u = 1)
     /\ (forall u v w, conv (RNum erfR) fac u v * conv (RNum erfR) fac v w = conv (RNum erfR) fac u w)
     /\ (forall u v, conv (RNum erfR) fac u v * conv (RNum erfR) fac v u = 1)
     /\ (forall u v, 0 < conv (RNum erfR) fac u v))
  /\ (forall v, 0 < IZR (efac v)) /\ (forall v, 0 < IZR (tfac v))
  /\ to_internal (RNum erfR) 0 0 = 1
  /\ (forall eu tu, to_internal (RNum erfR) eu tu * (conv (RNum erfR) efac eu 0 * conv (RNum erfR) tfac tu 0) = 1)
  /\ (forall eu tu eu' tu', to_internal (RNum erfR) eu tu
        = to_internal (RNum erfR) eu' tu' * (conv (RNum erfR) efac eu' eu * conv (RNum erfR) tfac tu' tu)).
Proof.
  intros erfR.
  exact (conj (conv_table erfR) (conj (efac_pos) (conj (tfac_pos) (to_internal_spec erfR)))).
Qed.
Print Assumptions C13_unit_table.

(* box: update = construct for EVERY history, the raw t_start / t_stop setters included (no guard) *)
Theorem C13_update_box_full : forall (erfR : R -> R) ops tu t0 tw,
  t_run (RNum erfR) ops (box_new (RNum erfR) tu t0 tw) =
    box_new (RNum erfR) tu (fst (fold_left (box_spec_full tu) ops (t0, tw)))
                           (snd (fold_left (box_spec_full tu) ops (t0, tw))).
Proof. exact box_update_full. Qed.
Print Assumptions C13_update_box_full.

(* Gaussian: the guard of C13_update_gauss is needed — after a raw t_start write the object is
   one that no constructor call produces (window no longer t0 -+ d(sigma_t, tol)) *)
Theorem C13_update_gauss_raw_refuted : forall (erfR : R -> R),
  exists tu t0 sg tol v, forall t0' sg',
    t_apply (RNum erfR) (gauss_new (RNum erfR) tu t0 sg tol) (TSetAttr nTstart v)
      <> gauss_new (RNum erfR) tu t0' sg' tol.
Proof. exact gauss_raw_refuted. Qed.
Print Assumptions C13_update_gauss_raw_refuted.

(* FluxModel.__call__ on array arguments: shape (Ncoord, Nenergy, Ntime) and every element is
   Phi0 * S[i] * E[j] * T[k]; an absent argument contributes the one-element array [1] *)
Theorem C13_product_array : forall (erfR : R -> R) s l Phi0 ls le lt sp ep tp rd E t eu tu,
  nth_error s l = Some (OM Phi0 ls le lt) ->
  get_s s ls = Ok sp -> get_e s le = Ok ep -> get_t s lt = Ok tp ->
  let sv := match rd with Some xs => map (fun x => s_call (RNum erfR) sp (fst x) (snd x)) xs | None => [1] end in
  let ev := match E with Some xs => map (e_call (RNum erfR) ep eu) xs | None => [1] end in
  let tv := match t with Some xs => map (t_call (RNum erfR) tp tu) xs | None => [1] end in
  exists r, ffm_call_arr (RNum erfR) s l rd E t eu tu = Ok r
    /\ length r = length sv
    /\ (forall row, In row r -> length row = length ev /\ forall col, In col row -> length col = length tv)
    /\ (forall i j k a b c, nth_error sv i = Some a -> nth_error ev j = Some b -> nth_error tv k = Some c ->
          exists row col, nth_error r i = Some row /\ nth_error row j = Some col
                          /\ nth_error col k = Some (Phi0 * a * b * c)).
Proof. exact ffm_array. Qed.
Print Assumptions C13_product_array.

(* cdf of the box profile: in [0,1], monotone, 0 at t_start, 1 at t_stop, and
   cdf * get_total_integral = get_integral(t_start, t) *)
Theorem C13_cdf_box : forall (erfR : R -> R) tu ts te, ts < te ->
  (forall t, 0 <= box_cdf (RNum erfR) tu ts te None t <= 1)
  /\ (forall t t', t <= t' -> box_cdf (RNum erfR) tu ts te None t <= box_cdf (RNum erfR) tu ts te None t')
  /\ box_cdf (RNum erfR) tu ts te None ts = 0
  /\ box_cdf (RNum erfR) tu ts te None te = 1
  /\ (forall t, ts <= t <= te ->
        box_cdf (RNum erfR) tu ts te None t * t_total (RNum erfR) (Box tu ts te)
          = t_int (RNum erfR) (Box tu ts te) None ts t).
Proof. exact box_cdf_props. Qed.
Print Assumptions C13_cdf_box.

(* the same for the Gaussian (erf' premise): total integral positive, cdf in [0,1], monotone,
   cdf(t_start) = 0, cdf(t_stop) = 1 — never above 1 *)
Theorem C13_cdf_gauss : forall (erfR : R -> R),
  (forall x, is_derive erfR x (2 / sqrt PI * exp (- (x * x)))) ->
  forall tu ts te sg tol, 0 < sg -> ts < te ->
  0 < t_total (RNum erfR) (Gauss tu ts te sg tol)
  /\ (forall t, 0 <= gauss_cdf (RNum erfR) tu ts te sg tol None t <= 1)
  /\ (forall t t', t <= t' -> gauss_cdf (RNum erfR) tu ts te sg tol None t <= gauss_cdf (RNum erfR) tu ts te sg tol None t')
  /\ gauss_cdf (RNum erfR) tu ts te sg tol None ts = 0
  /\ gauss_cdf (RNum erfR) tu ts te sg tol None te = 1
  /\ (forall t, ts <= t <= te ->
        gauss_cdf (RNum erfR) tu ts te sg tol None t * t_total (RNum erfR) (Gauss tu ts te sg tol)
          = t_int (RNum erfR) (Gauss tu ts te sg tol) None ts t).
Proof. exact gauss_cdf_props. Qed.
Print Assumptions C13_cdf_gauss.

(* ================================================================ audit follow-up *)
(* the point profile is 1 exactly where BOTH coordinates match (kernel pt_call), and a model applies
   its spatial profile only when both ra and dec are given (kernels ffm_if_s / _e / _t) *)
Theorem C13_optional_coords : forall (erfR : R -> R),
  (forall ra dec r d, s_call (RNum erfR) (Point r d) ra dec
       = if Req_EM_T ra r then if Req_EM_T dec d then 1 else 0 else 0)
  /\ (forall s l ra dec E t eu tu,
       ffm_call2 (RNum erfR) s l ra dec E t eu tu =
         ffm_call (RNum erfR) s l (match ra, dec with Some a, Some b => Some (a, b) | _, _ => None end) E t eu tu).
Proof. intros erfR. exact (conj (s_call_point erfR) (ffm_call2_spec erfR)). Qed.
Print Assumptions C13_optional_coords.

(* a MODEL updated through set_params (FactorizedFluxModel / PointlikeFFM / SteadyPointlikeFFM are all
   this object in the store): afterwards it consists of Phi0 and its three profiles each updated with
   the same dictionary; point and unity-time profiles updated = constructed *)
Theorem C13_update_model : forall (erfR : R -> R),
  (forall s l pd Phi0 ls le lt sp ep tp,
     nth_error s l = Some (OM Phi0 ls le lt) ->
     get_s s ls = Ok sp -> get_e s le = Ok ep -> get_t s lt = Ok tp ->
     exists s' b, obj_set_params (RNum erfR) s l pd = Ok (s', b)
       /\ view_of s' l = Ok (VM (pick pd nPhi0 Phi0) (fst (s_set_params (RNum erfR) pd sp))
                                (fst (e_set_params (RNum erfR) pd ep)) (fst (t_set_params (RNum erfR) pd tp))))
  /\ (forall ra dec pd, fst (s_set_params (RNum erfR) pd (Point ra dec)) = Point (pick pd nRa ra) (pick pd nDec dec))
  /\ (forall tu ts te pd, fst (t_set_params (RNum erfR) pd (UnityT tu ts te))
        = UnityT tu (pick pd nTstart ts) (pick pd nTstop te)).
Proof. intros erfR. exact (conj (ffm_update erfR) (conj (pt_set_params erfR) (ut_set_params erfR))). Qed.
Print Assumptions C13_update_model.

(* Gaussian constructor and histories on the code's domain 0 < tol <= 1 (there the radicand is
   non-negative: the window is real, not an artefact of Coq's total sqrt / ln) *)
Theorem C13_gauss_guarded : forall (erfR : R -> R),
  (forall tu t0 sg tol, 0 < tol <= 1 ->
     0 <= - 2 * (sg * sg) * ln tol
     /\ gauss_new (RNum erfR) tu t0 sg tol
        = Gauss tu (t0 - sqrt (- 2 * (sg * sg) * ln tol)) (t0 + sqrt (- 2 * (sg * sg) * ln tol)) sg tol)
  /\ (forall ops tu t0 sg tol, 0 < tol <= 1 -> List.Forall par_op ops ->
     t_run (RNum erfR) ops (gauss_new (RNum erfR) tu t0 sg tol) =
       gauss_new (RNum erfR) tu (fst (fold_left (gauss_spec tu) ops (t0, sg)))
                 (snd (fold_left (gauss_spec tu) ops (t0, sg))) tol).
Proof.
  intros erfR.
  exact (conj (gauss_new_guarded erfR) (fun ops tu t0 sg tol _ => gauss_update erfR ops tu t0 sg tol)).
Qed.
Print Assumptions C13_gauss_guarded.

(* MathFunction.copy: `f = deepcopy(self)` (kernel mf_copy pins the call), and with newparams the
   copy — not the original — receives set_params (kernel mf_copy_with) *)
Theorem C13_copy_is_deepcopy : forall (T : Type) (N : Num T) (s : @store T) l pd,
  step N s (OpCopy l) = (do r <- obj_copy s l; Ok (fst r))
  /\ step N s (OpCopyWith l pd)
     = (do r <- obj_copy s l; do r2 <- obj_set_params N (fst r) (snd r) pd; Ok (fst r2))
  /\ (forall x, mf_copy x = x).
Proof. intros T N s l pd. exact (conj (step_copy N s l) (conj (step_copy_with N s l pd) K_mf_copy)). Qed.
Print Assumptions C13_copy_is_deepcopy.

(* non-vacuity by instantiation: the integral theorems applied to concrete parameters *)
Example C13_ex_pl_int : forall (erfR : R -> R),
  is_RInt (fun E => pl_call (RNum erfR) E 100 (1 + 1 / 1000000000000)) 1 10
          (pl_integral (RNum erfR) 100 (1 + 1 / 1000000000000) 1 10)
  /\ is_RInt (t_call (RNum erfR) (Box 0 4 6) None) 0 5 (t_int (RNum erfR) (Box 0 4 6) None 0 5).
Proof.
  intros erfR. split.
  - apply C13_pl_int; lra.
  - apply (C13_box_int erfR 0%Z 4 6 0 5); lra.
Qed.
Example C13_ex_gauss_int : forall (erfR : R -> R),
  (forall x, is_derive erfR x (2 / sqrt PI * exp (- (x * x)))) ->
  is_RInt (t_call (RNum erfR) (Gauss 0 (-1) 1 2 (1/2)) None) (-3) (1/2)
          (t_int (RNum erfR) (Gauss 0 (-1) 1 2 (1/2)) None (-3) (1/2)).
Proof. intros erfR H. apply C13_gauss_int; [exact H|lra..]. Qed.
Example C13_ex_oracle : forall (erfR : R -> R),
  is_RInt (e_call (RNum erfR) (Cutoff 0 1 2 10) None) 1 100
          (e_int_q (RNum erfR) (fun f a b => RInt f a b) (Cutoff 0 1 2 10) None 1 100).
Proof.
  intros erfR.
  apply (proj1 (C13_numeric_int erfR (fun f a b => RInt f a b) (fun f a b _ => eq_refl))); lra.
Qed.

(* ================================================================ extension: utils/flux_model.py *)
(* create_scipy_stats_rv_continuous_from_TimeFluxProfile: pdf(t) = profile(t) * norm with
   norm = 1 / get_total_integral (0 when the total is 0) — kernels rv_has_norm, rv_norm, rv_pdf *)
Theorem C13_rv_pdf : forall (erfR : R -> R) p t,
  rv_pdf_of (RNum erfR) p t
    = t_call (RNum erfR) p None t * (if Req_EM_T (t_total (RNum erfR) p) 0 then 0 else 1 / t_total (RNum erfR) p)
  /\ (t_total (RNum erfR) p = 0 -> rv_pdf_of (RNum erfR) p t = 0).
Proof. intros erfR p t. exact (conj (rv_pdf_value erfR p t) (rv_zero_total erfR p t)). Qed.
Print Assumptions C13_rv_pdf.

(* the density of a box profile is non-negative, 1/tw on the support and integrates to 1 *)
Theorem C13_rv_box_normalised : forall (erfR : R -> R) tu ts te, ts < te ->
  is_RInt (rv_pdf_of (RNum erfR) (Box tu ts te)) ts te 1
  /\ (forall t, 0 <= rv_pdf_of (RNum erfR) (Box tu ts te) t)
  /\ (forall t, ts <= t <= te -> rv_pdf_of (RNum erfR) (Box tu ts te) t = 1 / (te - ts)).
Proof. exact rv_box_normalised. Qed.
Print Assumptions C13_rv_box_normalised.

(* the density of a Gaussian profile integrates to 1 over its support window (erf' premise) *)
Theorem C13_rv_gauss_normalised : forall (erfR : R -> R),
  (forall x, is_derive erfR x (2 / sqrt PI * exp (- (x * x)))) ->
  forall tu ts te sg tol, 0 < sg -> ts < te ->
  is_RInt (rv_pdf_of (RNum erfR) (Gauss tu ts te sg tol)) ts te 1.
Proof. exact rv_gauss_normalised. Qed.
Print Assumptions C13_rv_gauss_normalised.

Example C13_ex_rv : forall (erfR : R -> R),
  is_RInt (rv_pdf_of (RNum erfR) (Box 0 4 6)) 4 6 1 /\ rv_pdf_of (RNum erfR) (Box 0 4 6) 5 = 1 / (6 - 4).
Proof.
  intros erfR. destruct (C13_rv_box_normalised erfR 0%Z 4 6 ltac:(lra)) as (A & _ & C).
  split; [exact A|apply C; lra].
Qed.

(* the quadrature contract is satisfiable (RInt itself), the cut-off guards are satisfiable *)
Example C13_nonvacuous_oracle :
  (forall (f : R -> R) a b, ex_RInt f a b -> RInt f a b = RInt f a b) /\ 0 < 1 /\ 10 <> 0 /\ 0 < 1 <= 100.
Proof. split; [reflexivity|lra]. Qed.

(* ---------------------------------------------------------------- non-vacuity *)
Example C13_nonvacuous_reals :
  0 < 100 /\ 0 < 1 <= 10 /\ (1 + 1 / 1000000000000 <> 1) /\ (-1 <= 1) /\ (0 < 2) /\ (-1 <= 0 /\ 0 <= 1 /\ 1 <= 1).
Proof. lra. Qed.

(* a model with three profiles, deep-copied; set_params through the copy changes the copy
   (incl. its own energy profile) and leaves the original as it was; run on integers *)
Example C13_nonvacuous_store :
  let s := [OS (Point 1 2); OE (PowerLaw 0 10 2); OT (Box 0 4 6); OM 7 0%nat 1%nat 2%nat]%Z in
  wf s
  /\ exists s' s'', obj_copy s 3 = Ok (s', 7%nat)
     /\ run ZNum s' [OpSetParams 7 [(nGamma, 5); (nPhi0, 9); (nT0, 11)]%Z; OpMove 6 3%Z None] = Ok s''
     /\ view_of s'' 3 = Ok (VM 7 (Point 1 2) (PowerLaw 0 10 2) (Box 0 4 6))%Z
     /\ view_of s'' 7 = Ok (VM 9 (Point 1 2) (PowerLaw 0 10 5) (Box 0 18 20))%Z   (* integer arithmetic: 1/2 = 0 *)
     /\ List.Forall mutator [OpSetParams 7 [(nGamma, 5); (nPhi0, 9); (nT0, 11)]%Z; OpMove 6 3%Z None].
Proof.
  cbv zeta. split.
  - intros k p a b c H. destruct k as [|[|[|[|k]]]]; cbn in H; try discriminate.
    + inversion H; subst; cbn; lia.
    + destruct k; discriminate.
  - eexists. eexists. split; [vm_compute; reflexivity|]. split; [vm_compute; reflexivity|].
    split; [vm_compute; reflexivity|]. split; [vm_compute; reflexivity|].
    repeat constructor.
Qed.

Example C13_nonvacuous_history :
  List.Forall (par_op (T := R)) [TSetParams [(nT0, 3)]; TSetAttr nTw 2; TMove 1 (Some 1%Z); TSetAttr nSigma 5]
  /\ fold_left (box_spec 0) [TSetParams [(nT0, 3)]; TSetAttr nTw 2; TMove 1 (Some 1%Z)] (0, 1) = (3 + 1 * (IZR (tfac 1) / IZR (tfac 0)), 2).
Proof.
  split.
  - repeat constructor; cbn; try discriminate.
  - cbn. unfold pick. cbn. reflexivity.
Qed.
