(* C13 — flux models: integrals, units, parameter updates and copies are consistent.
   Statements only; every proof is `exact <lemma>`.  RNum erfR is the real-number
   reading of the Num-polymorphic model M_Flux.v (whose formulas are the kernels
   regenerated from skyllh/core/flux_model.py); erfR is an arbitrary function, the
   Gaussian theorems carry its derivative as a premise. *)
From Coq Require Import Reals ZArith List Bool Lra Lia.
From Coquelicot Require Import Coquelicot.
From Sky Require Import Result Num NumR G_flux M_Flux S_Flux P_Flux P_FluxInt P_FluxObj P_FluxStore.
Import ListNotations.
Open Scope R_scope.

(* ---------------------------------------------------------------- integrals *)
Theorem C13_pl_int : forall (erfR : R -> R) E0 g E1 E2, 0 < E0 -> 0 < E1 <= E2 ->
  is_RInt (fun E => pl_call (RNum erfR) E E0 g) E1 E2 (pl_integral (RNum erfR) E0 g E1 E2).
Proof. exact pl_is_RInt. Qed.
Print Assumptions C13_pl_int.

Theorem C13_pl_closed_forms : forall (erfR : R -> R) E0 g E1 E2,
  pl_call (RNum erfR) E1 E0 g = Rpower (E1 / E0) (- g)
  /\ pl_integral (RNum erfR) E0 1 E1 E2 = E0 * ln (E2 / E1)
  /\ (g <> 1 -> pl_integral (RNum erfR) E0 g E1 E2
                 = Rpower E0 g / (1 - g) * (Rpower E2 (1 - g) - Rpower E1 (1 - g))).
Proof.
  intros erfR E0 g E1 E2.
  exact (conj (K_pl_call erfR E1 E0 g) (conj (pl_integral_g1 erfR E0 E1 E2) (pl_integral_gen erfR E0 g E1 E2))).
Qed.
Print Assumptions C13_pl_closed_forms.

Theorem C13_additive : forall (erfR : R -> R),
  (forall E0 g a b c, 0 < a -> 0 < b -> 0 < c ->
     pl_integral (RNum erfR) E0 g a b + pl_integral (RNum erfR) E0 g b c = pl_integral (RNum erfR) E0 g a c)
  /\ (forall a b c, ue_int (RNum erfR) a b + ue_int (RNum erfR) b c = ue_int (RNum erfR) a c)
  /\ (forall a b c, ut_int (RNum erfR) a b + ut_int (RNum erfR) b c = ut_int (RNum erfR) a c)
  /\ (forall ts te a b c, ts <= te -> a <= b <= c ->
     box_integral (RNum erfR) ts te a b + box_integral (RNum erfR) ts te b c = box_integral (RNum erfR) ts te a c)
  /\ (forall ts te sg a b c,
     gauss_integral (RNum erfR) ts te sg a b + gauss_integral (RNum erfR) ts te sg b c
       = gauss_integral (RNum erfR) ts te sg a c).
Proof.
  intros erfR.
  exact (conj (pl_additive erfR) (conj (unity_additive erfR) (conj (unity_t_additive erfR)
        (conj (box_additive erfR) (gauss_additive erfR))))).
Qed.
Print Assumptions C13_additive.

Theorem C13_box_int : forall (erfR : R -> R) tu ts te t1 t2, ts <= te -> t1 <= t2 ->
  is_RInt (t_call (RNum erfR) (Box tu ts te) None) t1 t2 (t_int (RNum erfR) (Box tu ts te) None t1 t2)
  /\ t_int (RNum erfR) (Box tu ts te) None t1 t2 = Rmax 0 (Rmin t2 te - Rmax t1 ts).
Proof.
  intros erfR tu ts te t1 t2 Hw H12.
  exact (conj (box_is_RInt erfR tu ts te t1 t2 Hw H12) (box_int_length erfR tu ts te t1 t2 Hw H12)).
Qed.
Print Assumptions C13_box_int.

(* Gaussian (after fix 0a1ba7d: the integration range is clipped to the support window):
   get_integral is the integral of the profile values for EVERY interval; inside the window
   it is the plain erf difference.  Before the fix this was refuted outside the window. *)
Theorem C13_gauss_int : forall (erfR : R -> R),
  (forall x, is_derive erfR x (2 / sqrt PI * exp (- (x * x)))) ->
  forall tu ts te sg tol t1 t2, 0 < sg -> ts <= te -> t1 <= t2 ->
  is_RInt (t_call (RNum erfR) (Gauss tu ts te sg tol) None) t1 t2
          (t_int (RNum erfR) (Gauss tu ts te sg tol) None t1 t2).
Proof. exact gauss_is_RInt. Qed.
Print Assumptions C13_gauss_int.

Theorem C13_gauss_int_inside : forall (erfR : R -> R) tu ts te sg tol t1 t2,
  ts <= t1 -> t1 <= t2 -> t2 <= te ->
  t_int (RNum erfR) (Gauss tu ts te sg tol) None t1 t2 =
    sqrt (PI / 2) * sg * erfR ((t2 - (ts + te) / 2) / (sqrt 2 * sg))
    - sqrt (PI / 2) * sg * erfR ((t1 - (ts + te) / 2) / (sqrt 2 * sg)).
Proof. exact gauss_int_inside. Qed.
Print Assumptions C13_gauss_int_inside.

(* get_total_integral is the integral over the CURRENT support window (a function of the state only:
   together with C13_update_box / C13_update_gauss, updated and constructed profiles have the same total) *)
Theorem C13_total : forall (erfR : R -> R) p,
  t_total (RNum erfR) p =
    match p with UnityT _ ts te | Box _ ts te | Gauss _ ts te _ _ => t_int (RNum erfR) p None ts te end.
Proof. exact t_total_spec. Qed.
Print Assumptions C13_total.

(* ---------------------------------------------------------------- product *)
Theorem C13_product : forall (erfR : R -> R) s l Phi0 ls le lt sp ep tp rd E t eu tu,
  nth_error s l = Some (OM Phi0 ls le lt) ->
  get_s s ls = Ok sp -> get_e s le = Ok ep -> get_t s lt = Ok tp ->
  ffm_call (RNum erfR) s l rd E t eu tu =
    Ok (Phi0
        * (match rd with Some (ra, dec) => s_call (RNum erfR) sp ra dec | None => 1 end)
        * (match E with Some x => e_call (RNum erfR) ep eu x | None => 1 end)
        * (match t with Some x => t_call (RNum erfR) tp tu x | None => 1 end)).
Proof. exact ffm_product. Qed.
Print Assumptions C13_product.

(* ---------------------------------------------------------------- units *)
(* the same physical argument (value times unit factor) given in unit u or in unit w *)
Theorem C13_units : forall (erfR : R -> R),
  (forall p u w x, e_call (RNum erfR) p (Some u) x = e_call (RNum erfR) p (Some w) (x * IZR (efac u) / IZR (efac w)))
  /\ (forall p x, e_call (RNum erfR) p None x = e_call (RNum erfR) p (Some (e_unit p)) x)
  /\ (forall p u w a b, e_int (RNum erfR) p (Some u) a b
        = e_int (RNum erfR) p (Some w) (a * IZR (efac u) / IZR (efac w)) (b * IZR (efac u) / IZR (efac w)))
  /\ (forall p u w x, t_call (RNum erfR) p (Some u) x = t_call (RNum erfR) p (Some w) (x * IZR (tfac u) / IZR (tfac w)))
  /\ (forall p u w a b, t_int (RNum erfR) p (Some u) a b
        = t_int (RNum erfR) p (Some w) (a * IZR (tfac u) / IZR (tfac w)) (b * IZR (tfac u) / IZR (tfac w)))
  /\ (forall E0 g k E, 0 < k -> pl_call (RNum erfR) (E / k) (E0 / k) g = pl_call (RNum erfR) E E0 g).
Proof.
  intros erfR.
  exact (conj (e_call_units erfR) (conj (e_call_own erfR) (conj (e_int_units erfR)
        (conj (t_call_units erfR) (conj (t_int_units erfR) (pl_rescale erfR)))))).
Qed.
Print Assumptions C13_units.

(* ---------------------------------------------------------------- update = construct *)
(* constructors, as the code runs them, in normal form *)
Theorem C13_construct : forall (erfR : R -> R) tu t0 tw sg tol,
  box_new (RNum erfR) tu t0 tw = Box tu (t0 - tw / 2) (t0 + tw / 2)
  /\ (t0 <= tw -> box_from (RNum erfR) tu t0 tw = Box tu t0 tw)
  /\ gauss_new (RNum erfR) tu t0 sg tol
     = Gauss tu (t0 - sqrt (- 2 * (sg * sg) * ln tol)) (t0 + sqrt (- 2 * (sg * sg) * ln tol)) sg tol.
Proof.
  intros erfR tu t0 tw sg tol.
  exact (conj (box_new_R erfR tu t0 tw) (conj (box_from_R erfR tu t0 tw) (gauss_new_R erfR tu t0 sg tol))).
Qed.
Print Assumptions C13_construct.

(* any history of set_params / t0, tw setters / move on a box profile ends in exactly the
   profile constructed with the parameter values the history asks for *)
Theorem C13_update_box : forall (erfR : R -> R) ops tu t0 tw, List.Forall par_op ops ->
  t_run (RNum erfR) ops (box_new (RNum erfR) tu t0 tw) =
    box_new (RNum erfR) tu (fst (fold_left (box_spec tu) ops (t0, tw))) (snd (fold_left (box_spec tu) ops (t0, tw))).
Proof. exact box_update. Qed.
Print Assumptions C13_update_box.

(* the same for the Gaussian (t0, sigma_t setters incl. the support window, move); this is the
   statement that failed before fix 3a4f2c1 *)
Theorem C13_update_gauss : forall (erfR : R -> R) ops tu t0 sg tol, List.Forall par_op ops ->
  t_run (RNum erfR) ops (gauss_new (RNum erfR) tu t0 sg tol) =
    gauss_new (RNum erfR) tu (fst (fold_left (gauss_spec tu) ops (t0, sg)))
              (snd (fold_left (gauss_spec tu) ops (t0, sg))) tol.
Proof. exact gauss_update. Qed.
Print Assumptions C13_update_gauss.

Theorem C13_update_energy : forall (erfR : R -> R) eu E0 g Ec a b pd,
  fst (e_set_params (RNum erfR) pd (PowerLaw eu E0 g)) = PowerLaw eu (pick pd nE0 E0) (pick pd nGamma g)
  /\ fst (e_set_params (RNum erfR) pd (Cutoff eu E0 g Ec))
     = Cutoff eu (pick pd nE0 E0) (pick pd nGamma g) (pick pd nEcut Ec)
  /\ fst (e_set_params (RNum erfR) pd (LogPar eu E0 a b))
     = LogPar eu (pick pd nE0 E0) (pick pd nAlpha a) (pick pd nBeta b).
Proof.
  intros erfR eu E0 g Ec a b pd.
  exact (conj (pl_set_params erfR eu E0 g pd) (conj (co_set_params erfR eu E0 g Ec pd) (lp_set_params erfR eu E0 a b pd))).
Qed.
Print Assumptions C13_update_energy.

(* ---------------------------------------------------------------- copies *)
(* what any sequence of mutators can touch: only locations in a reference-closed set A
   containing the operated objects *)
Theorem C13_frame : forall (T : Type) (N : Num T) (A : nat -> Prop) ops s s',
  List.Forall mutator ops -> (forall o, In o ops -> A (op_loc o)) -> closed A s ->
  run N s ops = Ok s' ->
  (forall k, ~ A k -> nth_error s' k = nth_error s k) /\ same_shape s s'.
Proof. exact @run_frame. Qed.
Print Assumptions C13_frame.

(* copy(): fresh locations only, equal to the original when made, closed under references *)
Theorem C13_copy_fresh : forall (T : Type) (s : @store T) l s' l',
  obj_copy s l = Ok (s', l') ->
  exists new, s' = s ++ new /\ (length s <= l' < length s')%nat
    /\ view_of s' l' = view_of s l
    /\ closed (fun k => (length s <= k)%nat) s'
    /\ (forall k, In k (reach s' l') -> (length s <= k)%nat).
Proof. exact @copy_spec. Qed.
Print Assumptions C13_copy_fresh.

(* a copy never shares state with its original *)
Theorem C13_copy_independent : forall (T : Type) (N : Num T) (s : @store T) l s' l' ops s'',
  wf s -> obj_copy s l = Ok (s', l') -> List.Forall mutator ops -> run N s' ops = Ok s'' ->
  ((forall o, In o ops -> (length s <= op_loc o)%nat) ->
     forall k, (k < length s)%nat -> nth_error s'' k = nth_error s k)
  /\ ((forall o, In o ops -> (op_loc o < length s)%nat) ->
     forall k, (length s <= k)%nat -> nth_error s'' k = nth_error s' k).
Proof. exact @copy_independent. Qed.
Print Assumptions C13_copy_independent.

(* ---------------------------------------------------------------- non-vacuity *)
Example C13_nonvacuous_reals :
  0 < 100 /\ 0 < 1 <= 10 /\ (1 + 1 / 1000000000000 <> 1) /\ (-1 <= 1) /\ (0 < 2) /\ (-1 <= 0 /\ 0 <= 1 /\ 1 <= 1).
Proof. lra. Qed.

(* a model with three profiles, deep-copied; set_params through the copy changes the copy
   (incl. its own energy profile) and leaves the original as it was; run on integers *)
Example C13_nonvacuous_store :
  let s := [OS (Point 1 2); OE (PowerLaw 0 10 2); OT (Box 0 4 6); OM 7 0%nat 1%nat 2%nat]%Z in
  wf s
  /\ exists s' s'', obj_copy s 3 = Ok (s', 7%nat)
     /\ run ZNum s' [OpSetParams 7 [(nGamma, 5); (nPhi0, 9); (nT0, 11)]%Z; OpMove 6 3%Z None] = Ok s''
     /\ view_of s'' 3 = Ok (VM 7 (Point 1 2) (PowerLaw 0 10 2) (Box 0 4 6))%Z
     /\ view_of s'' 7 = Ok (VM 9 (Point 1 2) (PowerLaw 0 10 5) (Box 0 18 20))%Z   (* integer arithmetic: 1/2 = 0 *)
     /\ List.Forall mutator [OpSetParams 7 [(nGamma, 5); (nPhi0, 9); (nT0, 11)]%Z; OpMove 6 3%Z None].
Proof.
  cbv zeta. split.
  - intros k p a b c H. destruct k as [|[|[|[|k]]]]; cbn in H; try discriminate.
    + inversion H; subst; cbn; lia.
    + destruct k; discriminate.
  - eexists. eexists. split; [vm_compute; reflexivity|]. split; [vm_compute; reflexivity|].
    split; [vm_compute; reflexivity|]. split; [vm_compute; reflexivity|].
    repeat constructor.
Qed.

Example C13_nonvacuous_history :
  List.Forall (par_op (T := R)) [TSetParams [(nT0, 3)]; TSetAttr nTw 2; TMove 1 (Some 1%Z); TSetAttr nSigma 5]
  /\ fold_left (box_spec 0) [TSetParams [(nT0, 3)]; TSetAttr nTw 2; TMove 1 (Some 1%Z)] (0, 1) = (3 + 1 * (IZR (tfac 1) / IZR (tfac 0)), 2).
Proof.
  split.
  - repeat constructor; cbn; try discriminate.
  - cbn. unfold pick. cbn. reflexivity.
Qed.
