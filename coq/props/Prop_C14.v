(* C14 — Live-time queries agree with the set of half-open up-time intervals.
   Statements only; every proof is `exact <lemma>`. *)
From Coq Require Import ZArith List Bool Lia.
From Sky Require Import Result PyList M_Livetime S_Livetime P_Livetime.
Import ListNotations.
Open Scope Z_scope.

(* The code's own integrity check accepts exactly the well-formed lists. *)
Theorem C14_integrity : forall ivs, integrity ivs = true <-> wf ivs.
Proof. intros ivs; split; [exact (integrity_wf ivs) | exact (wf_integrity ivs)]. Qed.
Print Assumptions C14_integrity.

Theorem C14_is_on : forall ivs t,
  wf ivs -> (is_on ivs t = true <-> exists l u, In (l, u) ivs /\ l <= t < u).
Proof. exact is_on_spec. Qed.
Print Assumptions C14_is_on.

Theorem C14_between : forall ivs t1 t2,
  wf ivs -> t1 <= t2 ->
  exists r, between ivs t1 t2 = Ok r
    /\ (forall t, In_on r t <-> In_on ivs t /\ t1 <= t < t2)
    /\ wf r
    /\ ((forall t, ~ (In_on ivs t /\ t1 <= t < t2)) -> measure r = 0).
Proof. exact between_spec. Qed.
Print Assumptions C14_between.

(* sharper: the returned array is literally the clipped interval list *)
Theorem C14_between_exact : forall ivs t1 t2,
  wf ivs -> t1 <= t2 ->
  between ivs t1 t2 =
    Ok (map (fun iv => (Z.max (fst iv) t1, Z.min (snd iv) t2))
            (filter (fun iv => (t1 <? snd iv) && (fst iv <=? t2)) ivs)).
Proof. exact between_clip. Qed.
Print Assumptions C14_between_exact.

Theorem C14_upto : forall ivs t,
  wf ivs -> ivs <> [] ->
  upto ivs t =
    Ok (fold_right Z.add 0
          (map (fun iv => Z.max 0 (Z.min (snd iv) t - fst iv)) ivs)).
Proof. exact upto_spec. Qed.
Print Assumptions C14_upto.

Theorem C14_draw : forall ivs window w,
  wf ivs ->
  match window with
  | None => 0 <= w < livetime ivs ->
      exists x, draw ivs None w = Ok x /\ In_on ivs x
  | Some (t1, t2) => t1 <= t2 -> 0 <= w < measure (clip ivs t1 t2) ->
      exists x, draw ivs (Some (t1, t2)) w = Ok x /\ In_on ivs x /\ t1 <= x < t2
  end.
Proof. exact draw_spec. Qed.
Print Assumptions C14_draw.

Theorem C14_subset : forall ivs times t1 t2,
  wf ivs -> t1 <= t2 ->
  exists arr,
    subset ivs times t1 t2 =
      Ok (filter (fun t => (t1 <=? t) && (t <? t2)) times, arr, measure arr)
    /\ (forall t, In_on arr t <-> In_on ivs t /\ t1 <= t < t2).
Proof. exact subset_spec. Qed.
Print Assumptions C14_subset.

(* draw_ontimes with OPTIONAL window bounds, as the code reads them: a bound is missing only
   when it is None (a bound equal to 0 is a bound); a missing bound is replaced by the first
   lower / last upper edge.  For every combination the drawn time lies in on-time inside the
   effective window. *)
Theorem C14_draw_optional_bounds : forall ivs (t_min t_max : option Z) w,
  wf ivs -> ivs <> [] ->
  let lo := match t_min with Some v => v | None => match ivs with (l, _) :: _ => l | [] => 0 end end in
  let hi := match t_max with Some v => v | None => last (map snd ivs) 0 end in
  match t_min, t_max with
  | None, None => 0 <= w < livetime ivs ->
      exists x, draw_opt ivs None None w = Ok x /\ In_on ivs x
  | _, _ => lo <= hi -> 0 <= w < measure (clip ivs lo hi) ->
      exists x, draw_opt ivs t_min t_max w = Ok x /\ In_on ivs x /\ lo <= x < hi
  end.
Proof. exact draw_opt_spec. Qed.
Print Assumptions C14_draw_optional_bounds.

(* non-vacuity: a concrete list with a touching pair, a zero-length interval
   and gaps meets the hypotheses; windows in a gap / before / after give []. *)
Example C14_nonvacuous :
  let ivs := [(10, 20); (30, 50); (50, 60); (80, 80); (90, 100)] in
  wf ivs /\ ivs <> []
  /\ between ivs 22 28 = Ok [] /\ between ivs 0 5 = Ok [] /\ between ivs 110 120 = Ok []
  /\ between ivs 15 95 = Ok [(15, 20); (30, 50); (50, 60); (80, 80); (90, 95)]
  /\ upto ivs 95 = Ok 45 /\ is_on ivs 50 = true /\ is_on ivs 80 = false
  /\ draw ivs (Some (15, 95)) 34 = Ok 59
  /\ draw_opt ivs (Some 0) None 3 = Ok 13 /\ draw_opt ivs None (Some 0) 0 = Err IndexError.
Proof. cbv zeta. repeat split; try (vm_compute; reflexivity); try (cbn; lia); discriminate. Qed.
