(* C14 — Live-time queries agree with the set of half-open up-time intervals.
   Statements only; every proof is `exact <lemma>`. *)
From Coq Require Import ZArith List Bool Lia.
From Sky Require Import Result PyList M_Livetime S_Livetime P_Livetime P_LivetimeGrl.
Import ListNotations.
Open Scope Z_scope.

(* The code's own integrity check accepts exactly the well-formed lists. *)
Theorem C14_integrity : forall ivs, integrity ivs = true <-> wf ivs.
Proof. intros ivs; split; [exact (integrity_wf ivs) | exact (wf_integrity ivs)]. Qed.
Print Assumptions C14_integrity.

Theorem C14_is_on : forall ivs t,
  wf ivs -> (is_on ivs t = true <-> exists l u, In (l, u) ivs /\ l <= t < u).
Proof. exact is_on_spec. Qed.
Print Assumptions C14_is_on.

Theorem C14_between : forall ivs t1 t2,
  wf ivs -> t1 <= t2 ->
  exists r, between ivs t1 t2 = Ok r
    /\ (forall t, In_on r t <-> In_on ivs t /\ t1 <= t < t2)
    /\ wf r
    /\ ((forall t, ~ (In_on ivs t /\ t1 <= t < t2)) -> measure r = 0).
Proof. exact between_spec. Qed.
Print Assumptions C14_between.

(* sharper: the returned array is literally the clipped interval list *)
Theorem C14_between_exact : forall ivs t1 t2,
  wf ivs -> t1 <= t2 ->
  between ivs t1 t2 =
    Ok (map (fun iv => (Z.max (fst iv) t1, Z.min (snd iv) t2))
            (filter (fun iv => (t1 <? snd iv) && (fst iv <=? t2)) ivs)).
Proof. exact between_clip. Qed.
Print Assumptions C14_between_exact.

Theorem C14_upto : forall ivs t,
  wf ivs -> ivs <> [] ->
  upto ivs t =
    Ok (fold_right Z.add 0
          (map (fun iv => Z.max 0 (Z.min (snd iv) t - fst iv)) ivs)).
Proof. exact upto_spec. Qed.
Print Assumptions C14_upto.

Theorem C14_draw : forall ivs window w,
  wf ivs ->
  match window with
  | None => 0 <= w < livetime ivs ->
      exists x, draw ivs None w = Ok x /\ In_on ivs x
  | Some (t1, t2) => t1 <= t2 -> 0 <= w < measure (clip ivs t1 t2) ->
      exists x, draw ivs (Some (t1, t2)) w = Ok x /\ In_on ivs x /\ t1 <= x < t2
  end.
Proof. exact draw_spec. Qed.
Print Assumptions C14_draw.

Theorem C14_subset : forall ivs times t1 t2,
  wf ivs -> t1 <= t2 ->
  exists arr,
    subset ivs times t1 t2 =
      Ok (filter (fun t => (t1 <=? t) && (t <? t2)) times, arr, measure arr)
    /\ (forall t, In_on arr t <-> In_on ivs t /\ t1 <= t < t2).
Proof. exact subset_spec. Qed.
Print Assumptions C14_subset.

(* draw_ontimes with OPTIONAL window bounds, as the code reads them: a bound is missing only
   when it is None (a bound equal to 0 is a bound); a missing bound is replaced by the first
   lower / last upper edge.  For every combination the drawn time lies in on-time inside the
   effective window. *)
Theorem C14_draw_optional_bounds : forall ivs (t_min t_max : option Z) w,
  wf ivs -> ivs <> [] ->
  let lo := match t_min with Some v => v | None => match ivs with (l, _) :: _ => l | [] => 0 end end in
  let hi := match t_max with Some v => v | None => last (map snd ivs) 0 end in
  match t_min, t_max with
  | None, None => 0 <= w < livetime ivs ->
      exists x, draw_opt ivs None None w = Ok x /\ In_on ivs x
  | _, _ => lo <= hi -> 0 <= w < measure (clip ivs lo hi) ->
      exists x, draw_opt ivs t_min t_max w = Ok x /\ In_on ivs x /\ lo <= x < hi
  end.
Proof. exact draw_opt_spec. Qed.
Print Assumptions C14_draw_optional_bounds.

(* ---- good-run list -> Livetime (clip_grl_start_times, I3Livetime.from_grl_data), the way
   time_dependent_ps.create_analysis builds the live time.  A good-run list is its list of (start, stop) rows. *)

(* The chain accepts exactly the lists whose runs are ordered (start <= stop) and whose stop times do not
   decrease; everything else (a run ending before its predecessor ends) raises ValueError in the constructor. *)
Theorem C14_grl_accepts_iff : forall runs,
  (Forall ordered runs /\ nondecreasing (map snd runs) = true -> exists ivs, grl_livetime runs = Ok ivs /\ wf ivs)
  /\ (~ (Forall ordered runs /\ nondecreasing (map snd runs) = true) -> grl_livetime runs = Err ValueError).
Proof.
  intros runs; split.
  - intros H. exists (clip_grl runs). split.
    + unfold grl_livetime. apply (proj1 (from_grl_spec _)). now apply clip_grl_wf_iff.
    + now apply clip_grl_wf_iff.
  - exact (grl_livetime_rejects runs).
Qed.
Print Assumptions C14_grl_accepts_iff.

(* For runs sorted by start time (overlaps allowed) a time is reported as on exactly when it lies in one of the
   half-open runs; the stop column and the number of runs are kept. *)
Theorem C14_grl_is_on : forall runs,
  Forall ordered runs ->
  nondecreasing (map fst runs) = true ->
  nondecreasing (map snd runs) = true ->
  exists ivs, grl_livetime runs = Ok ivs
    /\ wf ivs
    /\ (forall t, is_on ivs t = true <-> In_on runs t)
    /\ map snd ivs = map snd runs
    /\ length ivs = length runs.
Proof. exact grl_livetime_spec. Qed.
Print Assumptions C14_grl_is_on.

(* Clipping is the identity on a sorted, non-overlapping list, never writes the stop column, and without clipping
   from_grl_data accepts exactly the sorted, non-overlapping lists. *)
Theorem C14_grl_clip_id : forall runs,
  (wf runs -> clip_grl runs = runs)
  /\ map snd (clip_grl runs) = map snd runs
  /\ (wf runs -> from_grl runs = Ok runs) /\ (~ wf runs -> from_grl runs = Err ValueError).
Proof.
  intros runs. split; [exact (clip_grl_id runs)|]. split; [exact (clip_grl_stops runs)|]. exact (from_grl_spec runs).
Qed.
Print Assumptions C14_grl_clip_id.

(* get_integrated_livetime: a number is returned unchanged, a Livetime gives the measure of its on-time. *)
Theorem C14_integrated_livetime :
  (forall v, integrated_livetime (inl v) = v) /\ (forall ivs, integrated_livetime (inr ivs) = measure ivs).
Proof. exact integrated_livetime_spec. Qed.
Print Assumptions C14_integrated_livetime.

(* non-vacuity: overlapping runs (one slightly, one touching, one zero-length) meet the hypotheses, the clipped
   list is what the code produces, and a run contained in its predecessor is rejected. *)
Example C14_grl_nonvacuous :
  let runs := [(10, 20); (18, 30); (30, 30); (29, 41); (50, 60)] in
  Forall ordered runs /\ nondecreasing (map fst runs) = false /\ nondecreasing (map snd runs) = true
  /\ grl_livetime runs = Ok [(10, 20); (20, 30); (30, 30); (30, 41); (50, 60)]
  /\ grl_livetime [(10, 20); (18, 30); (29, 41)] = Ok [(10, 20); (20, 30); (30, 41)]
  /\ nondecreasing (map fst [(10, 20); (18, 30); (29, 41)]) = true
  /\ from_grl [(10, 20); (18, 30)] = Err ValueError
  /\ grl_livetime [(0, 10); (2, 5)] = Err ValueError.
Proof.
  cbv zeta. repeat split; try (vm_compute; reflexivity).
  repeat constructor; unfold ordered; cbn; lia.
Qed.

(* non-vacuity: a concrete list with a touching pair, a zero-length interval
   and gaps meets the hypotheses; windows in a gap / before / after give []. *)
Example C14_nonvacuous :
  let ivs := [(10, 20); (30, 50); (50, 60); (80, 80); (90, 100)] in
  wf ivs /\ ivs <> []
  /\ between ivs 22 28 = Ok [] /\ between ivs 0 5 = Ok [] /\ between ivs 110 120 = Ok []
  /\ between ivs 15 95 = Ok [(15, 20); (30, 50); (50, 60); (80, 80); (90, 95)]
  /\ upto ivs 95 = Ok 45 /\ is_on ivs 50 = true /\ is_on ivs 80 = false
  /\ draw ivs (Some (15, 95)) 34 = Ok 59
  /\ draw_opt ivs (Some 0) None 3 = Ok 13 /\ draw_opt ivs None (Some 0) 0 = Err IndexError.
Proof. cbv zeta. repeat split; try (vm_compute; reflexivity); try (cbn; lia); discriminate. Qed.
