(* C20 — named collections, keyed lookups, stage checks and configurations keep
   their identity rules.  Statements only; every proof is `exact <lemma>`. *)
From Coq Require Import ZArith List Bool Lia Permutation.
From Sky Require Import Result PyList G_coll M_Coll M_CollKeys M_CollCfg S_Coll P_Coll P_CollKeys P_CollCfg.
Import ListNotations.
Open Scope Z_scope.

(* ---- NamedObjectCollection ---------------------------------------- *)
(* After EVERY history of new / add / += / pop / + operations (any length, any
   operands, failing operations included) every collection's name index is the
   OrderedDict built from enumerate(objects); when the names are unique it is
   literally enumerate, and all by-name accessors agree with the positions. *)
Theorem C20_index : forall ops i ty l d,
  view (run [] ops) i = Some (ty, l, d) ->
  d = od_of (enum_names 0 l)
  /\ (NoDup (names l) ->
      d = enum_names 0 l
      /\ od_keys d = names l
      /\ (forall k o, nth_error l k = Some o ->
            noc_index_by_name (run [] ops) i (oname o) = Ok (Z.of_nat k)
            /\ noc_getitem_name (run [] ops) i (oname o) = Ok o
            /\ noc_contains (run [] ops) i (oname o) = Ok true)
      /\ (forall n, ~ In n (names l) ->
            noc_index_by_name (run [] ops) i n = Err KeyError
            /\ noc_contains (run [] ops) i n = Ok false)).
Proof. exact index_all_histories. Qed.
Print Assumptions C20_index.

(* a + x after any history: the old heap is a prefix of the new one (no cell of
   an existing collection is written or re-bound, so both operands and every
   other collection are unchanged), the result is an instance that did not
   exist, with list and index cells that did not exist, holding the objects
   of a followed by the added ones (the objects themselves are shared). *)
Theorem C20_plus : forall ops i x h' r,
  noc_plus (run [] ops) i x = (h', r) ->
  let h := run [] ops in
  firstn (length h) h' = h
  /\ (forall j v, view h j = Some v -> view h' j = Some v)
  /\ match r with
     | Err _ => True
     | Ok c => exists ty l d news lo' di',
         view h i = Some (ty, l, d)
         /\ (operand_in h x -> oc_add_objs h ty x = Ok news)
         /\ get_inst h c = None /\ (length h <= lo')%nat /\ (length h <= di')%nat
         /\ get_inst h' c = Some (ty, lo', di')
         /\ view h' c = Some (ty, l ++ news, od_of (enum_names 0 (l ++ news)))
     end.
Proof. exact plus_fresh. Qed.
Print Assumptions C20_plus.

(* rejected add / pop leave everything as it was *)
Theorem C20_add_failure_atomic : forall h i x h' e, noc_add h i x = (h', Err e) -> h' = h.
Proof. exact add_failure_atomic. Qed.
Print Assumptions C20_add_failure_atomic.

Theorem C20_pop_failure_atomic : forall h i k h' e, noc_pop h i k = (h', Err e) -> h' = h.
Proof. exact pop_failure_atomic. Qed.
Print Assumptions C20_pop_failure_atomic.

(* ---- make_dict_hash / PDFSet --------------------------------------- *)
Theorem C20_hash : forall (H : list item -> Z) (d d' : od Z),
  Permutation d d' -> NoDup (od_keys d) ->
  make_dict_hash H (DDict d) = make_dict_hash H (DDict d').
Proof. exact hash_order_free. Qed.
Print Assumptions C20_hash.

Theorem C20_pdfset_get : forall (H : list item -> Z) s (d d' : od Z),
  Permutation d d' -> NoDup (od_keys d) ->
  pdfset_get H s (GDict d) = pdfset_get H s (GDict d').
Proof. exact pdfset_get_order_free. Qed.
Print Assumptions C20_pdfset_get.

Theorem C20_pdfset_add : forall (H : list item -> Z) s p (d d' : od Z),
  Permutation d d' -> NoDup (od_keys d) ->
  pdfset_add H s p (GDict d) = pdfset_add H s p (GDict d').
Proof. exact pdfset_add_order_free. Qed.
Print Assumptions C20_pdfset_add.

Theorem C20_pdfset_add_get : forall (H : list item -> Z) s p (d d' : od Z) s',
  Permutation d d' -> NoDup (od_keys d) ->
  pdfset_add H s p (GDict d) = (s', Ok tt) ->
  pdfset_get H s' (GDict d') = Ok p
  /\ (exists k, make_dict_hash H (DDict d') = Ok k /\ pdfset_get H s' (GInt k) = Ok p)
  /\ pdfset_contains H s' (GDict d') = Ok true.
Proof. exact pdfset_add_get. Qed.
Print Assumptions C20_pdfset_add_get.

Theorem C20_pdfset_add_frame : forall (H : list item -> Z) s p g s' r k,
  pdfset_add H s p g = (s', r) ->
  (forall d, g = GDict d -> make_dict_hash H (DDict d) <> Ok k) ->
  pdfset_get H s' (GInt k) = pdfset_get H s (GInt k).
Proof. exact pdfset_add_frame. Qed.
Print Assumptions C20_pdfset_add_frame.

(* the order in which two PDFs are registered does not matter for any lookup *)
Theorem C20_pdfset_add_commute : forall (H : list item -> Z) s p1 d1 p2 d2 s1 s12 s2 s21,
  pdfset_add H s p1 (GDict d1) = (s1, Ok tt) -> pdfset_add H s1 p2 (GDict d2) = (s12, Ok tt) ->
  pdfset_add H s p2 (GDict d2) = (s2, Ok tt) -> pdfset_add H s2 p1 (GDict d1) = (s21, Ok tt) ->
  forall g, pdfset_get H s12 g = pdfset_get H s21 g.
Proof. exact pdfset_add_commute. Qed.
Print Assumptions C20_pdfset_add_commute.

(* ---- DatasetCollection --------------------------------------------- *)
(* after every add_datasets / remove_dataset history (rejected and partly
   executed additions included) the dictionary has unique keys, every dataset is
   stored under its own name, and get_dataset(n) returns a dataset named n *)
Theorem C20_dataset_collection : forall ops,
  (NoDup (od_keys (drun [] ops))
   /\ forall k o, In (k, o) (drun [] ops) -> oname o = k /\ issub (ocls o) CBase = true)
  /\ forall n o, dsc_get (drun [] ops) n = Ok o -> oname o = n.
Proof. exact dataset_collection_keys. Qed.
Print Assumptions C20_dataset_collection.

(* ---- DataFieldStages ----------------------------------------------- *)
(* for ALL integers (negative ones in two's complement, as Python's &) *)
Theorem C20_and_check : forall s a,
  match a with
  | SInt m => exists b, and_check s a = Ok b
      /\ (b = true <-> forall n, 0 <= n -> Z.testbit m n = true -> Z.testbit s n = true)
  | SSeq ms => exists b, and_check s a = Ok b
      /\ (b = true <-> forall m, In m ms ->
                        forall n, 0 <= n -> Z.testbit m n = true -> Z.testbit s n = true)
  end.
Proof. exact and_check_spec. Qed.
Print Assumptions C20_and_check.

Theorem C20_or_check : forall s a,
  match a with
  | SInt m => exists b, or_check s a = Ok b
      /\ (b = true <-> exists n, 0 <= n /\ Z.testbit m n = true /\ Z.testbit s n = true)
  | SSeq ms => exists b, or_check s a = Ok b
      /\ (b = true <-> exists m, In m ms /\
                        exists n, 0 <= n /\ Z.testbit m n = true /\ Z.testbit s n = true)
  end.
Proof. exact or_check_spec. Qed.
Print Assumptions C20_or_check.

(* the 16 x 16 table over the four stage bits, swept by computation *)
Theorem C20_stage_table : table_ok 16 4 = true.
Proof. exact table_16. Qed.
Print Assumptions C20_stage_table.

(* ---- Config ---------------------------------------------------------- *)
(* After EVERY history of steps (building / editing the base dictionary and user
   dictionaries, Config(), Config.from_dict(d), every mutator on every
   instance) one further step changes nothing that can be read from
     - any Config instance other than the one a mutator is applied to,
     - the base dictionary or any user dictionary, unless the step is an edit of
       such a dictionary itself.
   (tree_of is the complete content below a root; users[0] is _BASECONFIG.) *)
Theorem C20_config_isolation : forall fuel ops o,
  let w := wrun fuel w0 ops in
  let w' := fst (wstep fuel w o) in
  (forall j r, nth_error (winsts w) j = Some r -> ~ targets_inst o j ->
     forall f, tree_of f (wst w') (VRef r) = tree_of f (wst w) (VRef r))
  /\ (forall u r, nth_error (wusers w) u = Some r -> ~ is_user_step o ->
     forall f, tree_of f (wst w') (VRef r) = tree_of f (wst w) (VRef r)).
Proof. exact cfg_isolation. Qed.
Print Assumptions C20_config_isolation.

(* no dictionary node is reachable from two instances, or from an instance and
   the base / a user dictionary *)
Theorem C20_config_disjoint : forall fuel ops,
  let w := wrun fuel w0 ops in
  (forall i j ri rj l, i <> j -> nth_error (winsts w) i = Some ri -> nth_error (winsts w) j = Some rj ->
     reach (wst w) ri l -> reach (wst w) rj l -> False)
  /\ (forall i u ri ru l, nth_error (winsts w) i = Some ri -> nth_error (wusers w) u = Some ru ->
     reach (wst w) ri l -> reach (wst w) ru l -> False).
Proof. exact cfg_disjoint. Qed.
Print Assumptions C20_config_disjoint.

(* copy.deepcopy: the old store is not written, everything reachable from the copy is new *)
Theorem C20_deepcopy_fresh : forall fuel st b st' m' r,
  dcopy fuel st [] b = Ok (st', m', r) ->
  (forall k, (k < length st)%nat -> nth_error st' k = nth_error st k)
  /\ (forall l, reach st' r l -> (length st <= l < length st')%nat).
Proof. exact dcopy_fresh. Qed.
Print Assumptions C20_deepcopy_fresh.

(* ---- non-vacuity ---------------------------------------------------- *)
Example C20_index_nonvacuous :
  let o k := mkobj k k CBase in
  let ops := [ONew CBase; ONew CBase; OAdd 2 (OpObj (o 0)); OAdd 2 (OpObj (o 1)); OAdd 5 (OpObj (o 2));
              OAdd 2 (OpColl 5); OPop 2 (PName 0); OPlus 2 (OpObj (o 0))] in
  exists l d, view (run [] ops) 2 = Some (CBase, l, d) /\ NoDup (names l) /\ names l = [1; 2]
  /\ view (run [] ops) 9 = Some (CBase, [o 1; o 2; o 0], [(1, 0); (2, 1); (0, 2)]).
Proof. cbv zeta. eexists; eexists. split; [vm_compute; reflexivity|].
  split; [repeat constructor; cbn; intuition lia|]. split; reflexivity. Qed.

Example C20_hash_nonvacuous :
  Permutation [(1, 4); (2, 5); (0, 7)] [(0, 7); (1, 4); (2, 5)]
  /\ NoDup (od_keys [(1, 4); (2, 5); (0, 7)])
  /\ canon_items [(1, 4); (2, 5); (0, 7)] = [(0, 7); (1, 4); (2, 5)].
Proof.
  split; [|split; [repeat constructor; cbn; intuition lia | reflexivity]].
  change [(0, 7); (1, 4); (2, 5)] with ([(0, 7)] ++ [(1, 4); (2, 5)]).
  change [(1, 4); (2, 5); (0, 7)] with ([(1, 4); (2, 5)] ++ [(0, 7)]).
  apply Permutation_app_comm.
Qed.

(* two instances made from ONE user dictionary (the input of the repaired defect
   1ce065f), the first one edited, then the user dictionary edited: the steps
   succeed (no fuel exhaustion) and the three contents are different *)
Example C20_config_nonvacuous :
  let ops := [WUserNew; WUserNew; WUserSet 1 [] 22 0; WUserLink 0 [] 2 1;       (* base = {2: {22: 0}} *)
              WUserNew; WUserNew; WUserSet 3 [] 22 7; WUserLink 2 [] 2 3;       (* user = {2: {22: 7}} *)
              WFromDict 2; WFromDict 2; WMut 0 MEnable; WUserSet 2 [2] 22 9] in
  let w := wrun 20 w0 ops in
  map (fun r => tree_of 20 (wst w) (VRef r)) (winsts w)
    = [Ok (TNode [(2, TNode [(22, TAtom 1)])]); Ok (TNode [(2, TNode [(22, TAtom 7)])])]
  /\ tree_of 20 (wst w) (VRef 2) = Ok (TNode [(2, TNode [(22, TAtom 9)])])
  /\ tree_of 20 (wst w) (VRef 0) = Ok (TNode [(2, TNode [(22, TAtom 0)])]).
Proof. cbv zeta. repeat split; vm_compute; reflexivity. Qed.
