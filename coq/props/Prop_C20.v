(* C20 — named collections, keyed lookups, stage checks and configurations keep
   their identity rules.  Statements only; every proof is `exact <lemma>`. *)
From Coq Require Import ZArith List Bool Lia Permutation.
From Sky Require Import Result PyList G_coll M_Coll M_CollKeys M_CollCfg S_Coll P_Coll P_CollKeys P_CollCfg.
Import ListNotations.
Open Scope Z_scope.

(* ---- NamedObjectCollection ---------------------------------------- *)
(* After EVERY history of new / add / += / pop / + operations (any length, any
   operands, failing operations included) every collection's name index is the
   OrderedDict built from enumerate(objects); when the names are unique it is
   literally enumerate, and all by-name accessors agree with the positions. *)
Theorem C20_index : forall ops i ty l d,
  view (run [] ops) i = Some (ty, l, d) ->
  d = od_of (enum_names 0 l)
  /\ (NoDup (names l) ->
      d = enum_names 0 l
      /\ od_keys d = names l
      /\ (forall k o, nth_error l k = Some o ->
            noc_index_by_name (run [] ops) i (oname o) = Ok (Z.of_nat k)
            /\ noc_getitem_name (run [] ops) i (oname o) = Ok o
            /\ noc_contains (run [] ops) i (oname o) = Ok true)
      /\ (forall n, ~ In n (names l) ->
            noc_index_by_name (run [] ops) i n = Err KeyError
            /\ noc_contains (run [] ops) i n = Ok false)).
Proof. exact index_all_histories. Qed.
Print Assumptions C20_index.

(* a + x after any history: the old heap is a prefix of the new one (no cell of
   an existing collection is written or re-bound, so both operands and every
   other collection are unchanged), the result is an instance that did not
   exist, with list and index cells that did not exist, holding the objects
   of a followed by the added ones (the objects themselves are shared). *)
Theorem C20_plus : forall ops i x h' r,
  noc_plus (run [] ops) i x = (h', r) ->
  let h := run [] ops in
  firstn (length h) h' = h
  /\ (forall j v, view h j = Some v -> view h' j = Some v)
  /\ match r with
     | Err _ => True
     | Ok c => exists ty l d news lo' di',
         view h i = Some (ty, l, d)
         /\ (operand_in h x -> oc_add_objs h ty x = Ok news)
         /\ get_inst h c = None /\ (length h <= lo')%nat /\ (length h <= di')%nat
         /\ get_inst h' c = Some (ty, lo', di')
         /\ view h' c = Some (ty, l ++ news, od_of (enum_names 0 (l ++ news)))
     end.
Proof. exact plus_fresh. Qed.
Print Assumptions C20_plus.

(* rejected add / pop leave everything as it was *)
Theorem C20_add_failure_atomic : forall h i x h' e, noc_add h i x = (h', Err e) -> h' = h.
Proof. exact add_failure_atomic. Qed.
Print Assumptions C20_add_failure_atomic.

Theorem C20_pop_failure_atomic : forall h i k h' e, noc_pop h i k = (h', Err e) -> h' = h.
Proof. exact pop_failure_atomic. Qed.
Print Assumptions C20_pop_failure_atomic.

(* pop after any history, with Python's list.pop semantics: the removed object is
   the one at the (possibly negative) index / the last one / the one named n;
   the remaining objects keep their order and the index is rebuilt; all other
   collections are unchanged; out-of-range indices (also on an empty collection)
   give IndexError, unknown names KeyError, and then nothing changes *)
Theorem C20_pop : forall ops i k h' r,
  noc_pop (run [] ops) i k = (h', r) ->
  let h := run [] ops in
  (forall j v, j <> i -> view h j = Some v -> view h' j = Some v)
  /\ match r with
     | Ok o => exists ty l d l1 l2,
         view h i = Some (ty, l, d) /\ l = l1 ++ o :: l2
         /\ view h' i = Some (ty, l1 ++ l2, od_of (enum_names 0 (l1 ++ l2)))
         /\ match k with
            | PNone => l2 = []
            | PIdx ix => ix = zlen l1 \/ ix = - zlen l2 - 1
            | PName n => oname o = n
            end
     | Err e => h' = h /\ forall ty l d, view h i = Some (ty, l, d) ->
         match k with
         | PNone => l = [] /\ e = IndexError
         | PIdx ix => (ix < - zlen l \/ zlen l <= ix) /\ e = IndexError
         | PName n => ~ In n (names l) /\ e = KeyError
         end
     end.
Proof. exact pop_all_histories. Qed.
Print Assumptions C20_pop.

(* copy() after any history: nothing old is written; the copy is a new instance
   whose list cell AND name-index cell are different from the cells of every
   existing instance (NamedObjectCollection.copy overrides ObjectCollection.copy
   for exactly this), with the same content *)
Theorem C20_copy : forall ops i h' c,
  noc_copy (run [] ops) i = (h', Ok c) ->
  let h := run [] ops in
  firstn (length h) h' = h
  /\ exists ty l d lo' di',
       view h i = Some (ty, l, d) /\ view h' c = Some (ty, l, d)
       /\ get_inst h c = None /\ get_inst h' c = Some (ty, lo', di')
       /\ (forall j tyj loj dij, get_inst h j = Some (tyj, loj, dij) -> loj <> lo' /\ dij <> di').
Proof. exact copy_fresh. Qed.
Print Assumptions C20_copy.

(* the constructor with initial objects (they are added one by one through add) *)
Theorem C20_new_from : forall ops ty s h' r,
  noc_new_from (run [] ops) ty s = (h', r) ->
  let h := run [] ops in
  firstn (length h) h' = h
  /\ match r with
     | Err _ => True
     | Ok c => get_inst h c = None
               /\ view h' c = Some (ty, s, od_of (enum_names 0 s))
               /\ Forall (fun o => issub (ocls o) ty = true) s
     end.
Proof. exact new_from_all_histories. Qed.
Print Assumptions C20_new_from.

(* ... and it succeeds exactly when every given object passes the type check *)
Theorem C20_new_from_decides : forall ops ty s h' r,
  noc_new_from (run [] ops) ty s = (h', r) ->
  (Forall (fun o => issub (ocls o) ty = true) s -> exists c, r = Ok c)
  /\ (forall e, r = Err e -> e = TypeError /\ ~ Forall (fun o => issub (ocls o) ty = true) s).
Proof. exact new_from_decides. Qed.
Print Assumptions C20_new_from_decides.

(* the element type check of add / += / + / the constructor: after any history a
   collection holds only instances of (subclasses of) its obj_type *)
Theorem C20_typed : forall ops i ty l d,
  view (run [] ops) i = Some (ty, l, d) -> Forall (fun o => issub (ocls o) ty = true) l.
Proof. exact typed_all_histories. Qed.
Print Assumptions C20_typed.

(* ---- Extension: ModelCollection.cast --------------------------------- *)
(* casting something that already is a collection returns THAT collection (the same
   object, no copy) and touches nothing *)
Theorem C20_cast_identity : forall h j ty lo di,
  get_inst h j = Some (ty, lo, di) -> mc_cast h (CColl j) = (h, Ok j).
Proof. exact cast_identity. Qed.
Print Assumptions C20_cast_identity.

(* after any history: a successful cast of None / a Model / a sequence of Models is a
   NEW collection holding exactly these objects (index = enumerate), nothing old is
   written; the cast fails — with TypeError and without any change — exactly for
   a non-Model object, a sequence containing a non-Model, or any other argument *)
Theorem C20_cast : forall ops a h' r,
  mc_cast (run [] ops) a = (h', r) ->
  let h := run [] ops in
  firstn (length h) h' = h
  /\ match r with
     | Ok c =>
         match a with
         | CColl j => c = j /\ h' = h /\ get_inst h j <> None
         | _ => get_inst h c = None
                /\ view h' c = Some (CBase, cast_objs a, od_of (enum_names 0 (cast_objs a)))
                /\ Forall (fun o => issub (ocls o) CBase = true) (cast_objs a)
         end
     | Err e => e = TypeError /\ h' = h
                /\ match a with
                   | CNone => False
                   | CObj o => issub (ocls o) CBase = false
                   | CColl j => get_inst h j = None
                   | CSeq s => ~ Forall (fun o => issub (ocls o) CBase = true) s
                   | COther => True
                   end
     end.
Proof. exact cast_all_histories. Qed.
Print Assumptions C20_cast.

(* ---- make_dict_hash / PDFSet --------------------------------------- *)
(* (no side condition: the statements hold for every pair of item lists that are
   permutations of each other; Python dictionaries additionally have unique keys)
   NOTE: these theorems hold BY CONSTRUCTION of the model: make_dict_hash is modelled
   as H (canon_items d) for an arbitrary function H of the sorted item list, which
   is what "a function of frozenset(d.items())" means.  That the code really hashes
   the frozenset of the items is NOT proved here; it is tied by the statement-
   skeleton pin of make_dict_hash (kernels sh_make_dict_hash, mdh) and by the
   harness (all orderings of 1..4-entry dictionaries, sampled 5..7-entry ones). *)
Theorem C20_hash : forall (H : list item -> Z) (d d' : od Z),
  Permutation d d' ->
  make_dict_hash H (DDict d) = make_dict_hash H (DDict d').
Proof. exact hash_order_free. Qed.
Print Assumptions C20_hash.

Theorem C20_pdfset_get : forall (H : list item -> Z) s (d d' : od Z),
  Permutation d d' ->
  pdfset_get H s (GDict d) = pdfset_get H s (GDict d').
Proof. exact pdfset_get_order_free. Qed.
Print Assumptions C20_pdfset_get.

Theorem C20_pdfset_add : forall (H : list item -> Z) s p (d d' : od Z),
  Permutation d d' ->
  pdfset_add H s p (GDict d) = pdfset_add H s p (GDict d').
Proof. exact pdfset_add_order_free. Qed.
Print Assumptions C20_pdfset_add.

Theorem C20_pdfset_add_get : forall (H : list item -> Z) s p (d d' : od Z) s',
  Permutation d d' ->
  pdfset_add H s p (GDict d) = (s', Ok tt) ->
  pdfset_get H s' (GDict d') = Ok p
  /\ (exists k, make_dict_hash H (DDict d') = Ok k /\ pdfset_get H s' (GInt k) = Ok p)
  /\ pdfset_contains H s' (GDict d') = Ok true.
Proof. exact pdfset_add_get. Qed.
Print Assumptions C20_pdfset_add_get.

Theorem C20_pdfset_add_frame : forall (H : list item -> Z) s p g s' r k,
  pdfset_add H s p g = (s', r) ->
  (forall d, g = GDict d -> make_dict_hash H (DDict d) <> Ok k) ->
  pdfset_get H s' (GInt k) = pdfset_get H s (GInt k).
Proof. exact pdfset_add_frame. Qed.
Print Assumptions C20_pdfset_add_frame.

(* the order in which two PDFs are registered does not matter for any lookup *)
Theorem C20_pdfset_add_commute : forall (H : list item -> Z) s p1 d1 p2 d2 s1 s12 s2 s21,
  pdfset_add H s p1 (GDict d1) = (s1, Ok tt) -> pdfset_add H s1 p2 (GDict d2) = (s12, Ok tt) ->
  pdfset_add H s p2 (GDict d2) = (s2, Ok tt) -> pdfset_add H s2 p1 (GDict d1) = (s21, Ok tt) ->
  forall g, pdfset_get H s12 g = pdfset_get H s21 g.
Proof. exact pdfset_add_commute. Qed.
Print Assumptions C20_pdfset_add_commute.

(* ---- DatasetCollection --------------------------------------------- *)
(* after every add_datasets / remove_dataset history (rejected and partly
   executed additions included) the dictionary has unique keys, every dataset is
   stored under its own name, and get_dataset(n) returns a dataset named n *)
Theorem C20_dataset_collection : forall ops,
  (NoDup (od_keys (drun [] ops))
   /\ forall k o, In (k, o) (drun [] ops) -> oname o = k /\ issub (ocls o) CBase = true)
  /\ forall n o, dsc_get (drun [] ops) n = Ok o -> oname o = n.
Proof. exact dataset_collection_keys. Qed.
Print Assumptions C20_dataset_collection.

(* ---- DataFieldStages ----------------------------------------------- *)
(* for ALL integers (negative ones in two's complement, as Python's &) *)
Theorem C20_and_check : forall s a,
  match a with
  | SInt m => exists b, and_check s a = Ok b
      /\ (b = true <-> forall n, 0 <= n -> Z.testbit m n = true -> Z.testbit s n = true)
  | SSeq ms => exists b, and_check s a = Ok b
      /\ (b = true <-> forall m, In m ms ->
                        forall n, 0 <= n -> Z.testbit m n = true -> Z.testbit s n = true)
  end.
Proof. exact and_check_spec. Qed.
Print Assumptions C20_and_check.

Theorem C20_or_check : forall s a,
  match a with
  | SInt m => exists b, or_check s a = Ok b
      /\ (b = true <-> exists n, 0 <= n /\ Z.testbit m n = true /\ Z.testbit s n = true)
  | SSeq ms => exists b, or_check s a = Ok b
      /\ (b = true <-> exists m, In m ms /\
                        exists n, 0 <= n /\ Z.testbit m n = true /\ Z.testbit s n = true)
  end.
Proof. exact or_check_spec. Qed.
Print Assumptions C20_or_check.

(* sequences of masks: the check is the check against the bitwise OR of all
   masks (masks may share bits: an OR, not a sum) *)
Theorem C20_and_check_seq_fold : forall s ms,
  and_check s (SSeq ms) = Ok (Z.land s (fold_right Z.lor 0 ms) =? fold_right Z.lor 0 ms).
Proof. exact and_check_seq_fold. Qed.
Print Assumptions C20_and_check_seq_fold.

Theorem C20_or_check_seq_fold : forall s ms,
  or_check s (SSeq ms) = Ok (negb (Z.land s (fold_right Z.lor 0 ms) =? 0)).
Proof. exact or_check_seq_fold. Qed.
Print Assumptions C20_or_check_seq_fold.

(* DataFields.get_joint_names: exactly the fields whose stage shares a bit with
   the given stage (with the OR of the given stages), in declaration order *)
Theorem C20_joint_names : forall fields a,
  joint_names fields a =
    Ok (map fst (filter (fun kv => negb (Z.land (snd kv)
                                   (match a with SInt m => m | SSeq ms => fold_right Z.lor 0 ms end) =? 0))
                        fields)).
Proof. exact joint_names_exact. Qed.
Print Assumptions C20_joint_names.

(* the four stage constants of DataFieldStages (regenerated from the class body)
   are distinct single bits: a constant passes both checks against itself and
   neither check against any other constant *)
Theorem C20_stage_constants : forall a b,
  In a [dfs_dataprep_exp; dfs_dataprep_mc; dfs_analysis_exp; dfs_analysis_mc] ->
  In b [dfs_dataprep_exp; dfs_dataprep_mc; dfs_analysis_exp; dfs_analysis_mc] ->
  (a = b -> or_check a (SInt b) = Ok true /\ and_check a (SInt b) = Ok true)
  /\ (a <> b -> or_check a (SInt b) = Ok false /\ and_check a (SInt b) = Ok false).
Proof. exact stage_constants_disjoint. Qed.
Print Assumptions C20_stage_constants.

(* the 16 x 16 table over the four stage bits, swept by computation *)
Theorem C20_stage_table : table_ok 16 4 = true.
Proof. exact table_16. Qed.
Print Assumptions C20_stage_table.

(* ---- Config ---------------------------------------------------------- *)
(* After EVERY history of steps (building / editing the base dictionary and user
   dictionaries, Config(), Config.from_dict(d), every mutator on every
   instance) one further step changes nothing that can be read from
     - any Config instance other than the one a mutator is applied to,
     - the base dictionary or any user dictionary, unless the step is an edit of
       such a dictionary itself.
   (tree_of is the complete content below a root; users[0] is _BASECONFIG.) *)
Theorem C20_config_isolation : forall fuel ops o,
  let w := wrun fuel w0 ops in
  let w' := fst (wstep fuel w o) in
  (forall j r, nth_error (winsts w) j = Some r -> ~ targets_inst o j ->
     forall f, tree_of f (wst w') (VRef r) = tree_of f (wst w) (VRef r))
  /\ (forall u r, nth_error (wusers w) u = Some r -> ~ is_user_step o ->
     forall f, tree_of f (wst w') (VRef r) = tree_of f (wst w) (VRef r)).
Proof. exact cfg_isolation. Qed.
Print Assumptions C20_config_isolation.

(* no dictionary node is reachable from two instances, or from an instance and
   the base / a user dictionary *)
Theorem C20_config_disjoint : forall fuel ops,
  let w := wrun fuel w0 ops in
  (forall i j ri rj l, i <> j -> nth_error (winsts w) i = Some ri -> nth_error (winsts w) j = Some rj ->
     reach (wst w) ri l -> reach (wst w) rj l -> False)
  /\ (forall i u ri ru l, nth_error (winsts w) i = Some ri -> nth_error (wusers w) u = Some ru ->
     reach (wst w) ri l -> reach (wst w) ru l -> False).
Proof. exact cfg_disjoint. Qed.
Print Assumptions C20_config_disjoint.

(* copy.deepcopy: the old store is not written, everything reachable from the copy is new *)
Theorem C20_deepcopy_fresh : forall fuel st b st' m' r,
  dcopy fuel st [] b = Ok (st', m', r) ->
  (forall k, (k < length st)%nat -> nth_error st' k = nth_error st k)
  /\ (forall l, reach st' r l -> (length st <= l < length st')%nat).
Proof. exact dcopy_fresh. Qed.
Print Assumptions C20_deepcopy_fresh.

(* copy.deepcopy copies the content: the complete tree below the copy equals the
   tree below the original (aliasing and cycles go through the memo table) *)
Theorem C20_deepcopy_content : forall st fuel b st' m' r,
  (forall k nd, nth_error st k = Some nd -> forall key x, In (key, VRef x) nd -> (x < length st)%nat) ->
  (forall l nd, nth_error st l = Some nd -> NoDup (od_keys nd)) ->
  (b < length st)%nat ->
  dcopy fuel st [] b = Ok (st', m', r) ->
  forall f, tree_of f st' (VRef r) = tree_of f st (VRef b).
Proof. exact dcopy_content. Qed.
Print Assumptions C20_deepcopy_content.

(* Config() after any history: the new instance has exactly the content the
   base configuration has at that moment *)
Theorem C20_config_new_is_base : forall fuel ops w',
  let w := wrun fuel w0 ops in
  wstep fuel w WNew = (w', Ok tt) ->
  exists base root,
    nth_error (wusers w) 0 = Some base /\ winsts w' = winsts w ++ [root] /\ wusers w' = wusers w
    /\ forall f, tree_of f (wst w') (VRef root) = tree_of f (wst w) (VRef base).
Proof. exact new_config_is_base. Qed.
Print Assumptions C20_config_new_is_base.

(* Config.from_dict(d) after any history: the new instance's content is the base
   content with the top-level items of d written over it (dict.update of the two
   contents; the sub-dictionaries of d replace those of the base as a whole) *)
Theorem C20_config_from_dict_content : forall fuel ops u w',
  let w := wrun fuel w0 ops in
  wstep fuel w (WFromDict u) = (w', Ok tt) ->
  exists base ur root,
    nth_error (wusers w) 0 = Some base /\ nth_error (wusers w) u = Some ur
    /\ winsts w' = winsts w ++ [root] /\ wusers w' = wusers w
    /\ forall f eb eu,
         tree_of (S f) (wst w) (VRef base) = Ok (TNode eb) ->
         tree_of (S f) (wst w) (VRef ur) = Ok (TNode eu) ->
         tree_of (S f) (wst w') (VRef root) = Ok (TNode (od_update eb eu)).
Proof. exact from_dict_content. Qed.
Print Assumptions C20_config_from_dict_content.

(* composition: an instance is a private snapshot of the base configuration at its
   creation time — whatever later happens to the base, to user dictionaries and
   to other instances (any steps not applied to this instance), its content
   stays what the base was when Config() was called *)
Theorem C20_config_snapshot : forall fuel ops1 ops2 w1,
  let w := wrun fuel w0 ops1 in
  wstep fuel w WNew = (w1, Ok tt) ->
  let j := length (winsts w) in
  (forall o, In o ops2 -> ~ targets_inst o j) ->
  exists base root,
    nth_error (wusers w) 0 = Some base
    /\ nth_error (winsts (wrun fuel w1 ops2)) j = Some root
    /\ forall f, tree_of f (wst (wrun fuel w1 ops2)) (VRef root) = tree_of f (wst w) (VRef base).
Proof. exact config_snapshot. Qed.
Print Assumptions C20_config_snapshot.

(* ---- non-vacuity ---------------------------------------------------- *)
Example C20_index_nonvacuous :
  let o k := mkobj k k CBase in
  let ops := [ONew CBase; ONew CBase; OAdd 2 (OpObj (o 0)); OAdd 2 (OpObj (o 1)); OAdd 5 (OpObj (o 2));
              OAdd 2 (OpColl 5); OPop 2 (PName 0); OPlus 2 (OpObj (o 0))] in
  exists l d, view (run [] ops) 2 = Some (CBase, l, d) /\ NoDup (names l) /\ names l = [1; 2]
  /\ view (run [] ops) 9 = Some (CBase, [o 1; o 2; o 0], [(1, 0); (2, 1); (0, 2)]).
Proof. cbv zeta. eexists; eexists. split; [vm_compute; reflexivity|].
  split; [repeat constructor; cbn; intuition lia|]. split; reflexivity. Qed.

Example C20_hash_nonvacuous :
  Permutation [(1, 4); (2, 5); (0, 7)] [(0, 7); (1, 4); (2, 5)]
  /\ NoDup (od_keys [(1, 4); (2, 5); (0, 7)])
  /\ canon_items [(1, 4); (2, 5); (0, 7)] = [(0, 7); (1, 4); (2, 5)].
Proof.
  split; [|split; [repeat constructor; cbn; intuition lia | reflexivity]].
  change [(0, 7); (1, 4); (2, 5)] with ([(0, 7)] ++ [(1, 4); (2, 5)]).
  change [(1, 4); (2, 5); (0, 7)] with ([(1, 4); (2, 5)] ++ [(0, 7)]).
  apply Permutation_app_comm.
Qed.

(* two instances made from ONE user dictionary (the input of the repaired defect
   1ce065f), the first one edited, then the user dictionary edited: the steps
   succeed (no fuel exhaustion) and the three contents are different *)
Example C20_config_nonvacuous :
  let ops := [WUserNew; WUserNew; WUserSet 1 [] 22 0; WUserLink 0 [] 2 1;       (* base = {2: {22: 0}} *)
              WUserNew; WUserNew; WUserSet 3 [] 22 7; WUserLink 2 [] 2 3;       (* user = {2: {22: 7}} *)
              WFromDict 2; WFromDict 2; WMut 0 MEnable; WUserSet 2 [2] 22 9] in
  let w := wrun 20 w0 ops in
  map (fun r => tree_of 20 (wst w) (VRef r)) (winsts w)
    = [Ok (TNode [(2, TNode [(22, TAtom 1)])]); Ok (TNode [(2, TNode [(22, TAtom 7)])])]
  /\ tree_of 20 (wst w) (VRef 2) = Ok (TNode [(2, TNode [(22, TAtom 9)])])
  /\ tree_of 20 (wst w) (VRef 0) = Ok (TNode [(2, TNode [(22, TAtom 0)])]).
Proof. cbv zeta. repeat split; vm_compute; reflexivity. Qed.

(* pop with negative / out-of-range indices and the constructor: concrete runs *)
Example C20_pop_nonvacuous :
  let o k := mkobj k k CBase in
  let h := run [] [ONewSeq CBase [o 0; o 1; o 2; o 3]] in
  (exists h', noc_pop h 2 (PIdx (-3)) = (h', Ok (o 1))
              /\ view h' 2 = Some (CBase, [o 0; o 2; o 3], [(0, 0); (2, 1); (3, 2)]))
  /\ snd (noc_pop h 2 (PIdx (-5))) = Err IndexError /\ snd (noc_pop h 2 (PIdx 4)) = Err IndexError
  /\ snd (noc_pop h 2 (PName 7)) = Err KeyError
  /\ snd (noc_new_from h CDerived [o 0]) = Err TypeError
  /\ and_check 5 (SSeq [1; 4; 5]) = Ok true /\ or_check 2 (SSeq [5; 4]) = Ok false
  /\ or_check 6 (SSeq [3; 3]) = Ok true.
Proof. cbv zeta. split; [eexists; split; vm_compute; reflexivity|]. repeat split; vm_compute; reflexivity. Qed.

(* the two side conditions of C20_deepcopy_content are needed: with a duplicated key
   or a dangling reference the copy has a different content *)
Example C20_deepcopy_content_needs_unique_keys :
  exists st st' m' r, dcopy 5 st [] 0 = Ok (st', m', r)
    /\ tree_of 5 st' (VRef r) <> tree_of 5 st (VRef 0).
Proof.
  exists [[(1, VAtom 0); (1, VAtom 5)]]. eexists; eexists; eexists. split; [vm_compute; reflexivity|].
  vm_compute. discriminate.
Qed.

Example C20_deepcopy_content_needs_no_dangling :
  exists st st' m' r, dcopy 5 st [] 0 = Ok (st', m', r)
    /\ tree_of 5 st' (VRef r) <> tree_of 5 st (VRef 0).
Proof.
  exists [[(1, VRef 1)]]. eexists; eexists; eexists. split; [vm_compute; reflexivity|].
  vm_compute. discriminate.
Qed.

(* the guard operand_in of C20_plus is needed: an operand that names the location
   the copy is about to occupy does not denote a collection of the old heap *)
Example C20_plus_operand_guard_needed :
  let o0 := mkobj 0 0 CBase in
  let h := run [] [ONewSeq CBase [o0]] in
  snd (noc_plus h 2 (OpColl 5)) = Ok 5%nat /\ oc_add_objs h CBase (OpColl 5) = Err AttributeError.
Proof. cbv zeta. split; vm_compute; reflexivity. Qed.

(* the hypotheses of C20_config_snapshot are satisfiable: an instance, then edits
   of the base and of another instance; the first instance still shows the old base *)
Example C20_config_snapshot_nonvacuous :
  let ops1 := [WUserNew; WUserNew; WUserSet 1 [] 22 0; WUserLink 0 [] 2 1] in
  let w := wrun 20 w0 ops1 in
  let w1 := fst (wstep 20 w WNew) in
  let ops2 := [WUserSet 0 [2] 22 9; WNew; WMut 1 MEnable] in
  snd (wstep 20 w WNew) = Ok tt
  /\ (forall o, In o ops2 -> ~ targets_inst o (length (winsts w)))
  /\ map (fun r => tree_of 20 (wst (wrun 20 w1 ops2)) (VRef r)) (winsts (wrun 20 w1 ops2))
     = [Ok (TNode [(2, TNode [(22, TAtom 0)])]); Ok (TNode [(2, TNode [(22, TAtom 1)])])].
Proof.
  cbv zeta. split; [vm_compute; reflexivity|]. split; [|vm_compute; reflexivity].
  intros o [<-|[<-|[<-|[]]]]; vm_compute; try tauto. discriminate.
Qed.

(* REMARK (not a statement about skyllh, not a refutation of the property): Python's
   copy.copy(cfg) / cfg.copy() is the shallow copy the USER asks for; it shares the
   nested dictionaries with the original by definition.  The property speaks of
   instances made by the package's own construction paths (Config(), from_dict,
   from_yaml); those are the steps of the world in the C20_config_* theorems.  The
   computation below only documents what a shallow copy is in the store model. *)
Example C20_python_shallow_copy_shares :
  let w := wrun 20 w0 [WUserNew; WUserNew; WUserSet 1 [] 22 0; WUserLink 0 [] 2 1; WNew] in
  exists root, nth_error (winsts w) 0 = Some root
  /\ let (st1, c2) := cfg_shallow (wst w) root in
     let (st2, r) := cfg_apply st1 c2 MEnable in
     r = Ok tt /\ tree_of 20 st1 (VRef root) = Ok (TNode [(2, TNode [(22, TAtom 0)])])
     /\ tree_of 20 st2 (VRef root) = Ok (TNode [(2, TNode [(22, TAtom 1)])]).
Proof. cbv zeta. eexists. split; [vm_compute; reflexivity|]. vm_compute. repeat split. Qed.

(* item deletion (del cfg[..][k] / cfg[..].pop(k)) is one of the mutators covered by
   C20_config_isolation; a concrete run: deleting in one instance, the other keeps the item *)
Example C20_config_delitem_nonvacuous :
  let ops := [WUserNew; WUserNew; WUserSet 1 [] 22 0; WUserSet 1 [] 21 5; WUserLink 0 [] 2 1;
              WNew; WNew; WMut 0 (MDelItem [2] 22); WMut 0 (MDelItem [2] 99)] in
  let w := wrun 20 w0 ops in
  map (fun r => tree_of 20 (wst w) (VRef r)) (winsts w)
  = [Ok (TNode [(2, TNode [(21, TAtom 5)])]); Ok (TNode [(2, TNode [(22, TAtom 0); (21, TAtom 5)])])]
  /\ snd (wstep 20 (wrun 20 w0 (firstn 8 ops)) (WMut 0 (MDelItem [2] 99))) = Err KeyError.
Proof. cbv zeta. split; vm_compute; reflexivity. Qed.

Example C20_cast_nonvacuous :
  let o k := mkobj k k CBase in
  let h := run [] [ONewSeq CBase [o 0; o 1]] in
  mc_cast h (CColl 2) = (h, Ok 2%nat)
  /\ snd (mc_cast h (CSeq [o 2; o 0])) = Ok 5%nat
  /\ view (fst (mc_cast h (CSeq [o 2; o 0]))) 5 = Some (CBase, [o 2; o 0], [(2, 0); (0, 1)])
  /\ snd (mc_cast h CNone) = Ok 5%nat
  /\ snd (mc_cast h (CObj (mkobj 7 1 CForeign))) = Err TypeError
  /\ snd (mc_cast h (CSeq [o 2; mkobj 7 1 CForeign])) = Err TypeError
  /\ snd (mc_cast h COther) = Err TypeError.
Proof. cbv zeta. repeat split; vm_compute; reflexivity. Qed.
