(* C19 — Sky-coordinate utilities are metric-consistent and stay in canonical
   ranges.  Statements only; every proof is `exact <lemma>`.  All theorems are
   about the real-number reading (instance RNum) of the model M_Coords.v, whose
   formulas are the regenerated kernels of gen/G_coords.v.  `e` is the (unused)
   erf parameter of the instance. *)
From Coq Require Import Reals ZArith List Lra SpecFloat.
From Sky Require Import Num NumR G_coords M_Coords S_Coords P_Coords_Real P_Coords P_Coords_Rot P_Coords_Sky P_Coords_Astropy M_CoordsSF M_CoordsPdf P_CoordsPdf.
Open Scope R_scope.

(* ------------------------------------------------------------ angular_separation *)
Theorem C19_sep_symmetric : forall (e : R -> R) ra1 dec1 ra2 dec2 psi_floor,
  angsep (RNum e) ra1 dec1 ra2 dec2 psi_floor = angsep (RNum e) ra2 dec2 ra1 dec1 psi_floor.
Proof. exact angsep_sym. Qed.
Print Assumptions C19_sep_symmetric.

Theorem C19_sep_zero_for_equal : forall (e : R -> R) ra dec,
  angsep (RNum e) ra dec ra dec None = 0.
Proof. exact angsep_self. Qed.
Print Assumptions C19_sep_zero_for_equal.

(* zero exactly for equal directions (equal as points of the sphere) *)
Theorem C19_sep_zero_iff_equal : forall (e : R -> R) ra1 dec1 ra2 dec2,
  angsep (RNum e) ra1 dec1 ra2 dec2 None = 0 <-> dirv ra1 dec1 = dirv ra2 dec2.
Proof. exact angsep_zero_iff. Qed.
Print Assumptions C19_sep_zero_iff_equal.

Theorem C19_sep_at_most_pi : forall (e : R -> R) ra1 dec1 ra2 dec2,
  0 <= angsep (RNum e) ra1 dec1 ra2 dec2 None <= PI.
Proof. exact angsep_range. Qed.
Print Assumptions C19_sep_at_most_pi.

Theorem C19_sep_full_turns : forall (e : R -> R) ra1 dec1 ra2 dec2 psi_floor (k1 k2 : Z),
  angsep (RNum e) (ra1 + 2 * IZR k1 * PI) dec1 (ra2 + 2 * IZR k2 * PI) dec2 psi_floor
  = angsep (RNum e) ra1 dec1 ra2 dec2 psi_floor.
Proof. intros. rewrite angsep_period1. apply angsep_period2. Qed.
Print Assumptions C19_sep_full_turns.

(* half-angle identity: the haversine value is the angle between the unit vectors *)
Theorem C19_sep_is_angle : forall (e : R -> R) ra1 dec1 ra2 dec2,
  angsep (RNum e) ra1 dec1 ra2 dec2 None = acos (vdot (dirv ra1 dec1) (dirv ra2 dec2))
  /\ cos (angsep (RNum e) ra1 dec1 ra2 dec2 None) = vdot (dirv ra1 dec1) (dirv ra2 dec2).
Proof. intros. split; [exact (angsep_angle e ra1 dec1 ra2 dec2) | exact (angsep_cos e ra1 dec1 ra2 dec2)]. Qed.
Print Assumptions C19_sep_is_angle.

Theorem C19_sep_floor : forall (e : R -> R) ra1 dec1 ra2 dec2 f,
  angsep (RNum e) ra1 dec1 ra2 dec2 (Some f) = Rmax (angsep (RNum e) ra1 dec1 ra2 dec2 None) f.
Proof. exact angsep_floor. Qed.
Print Assumptions C19_sep_floor.

(* the anchored callers (signalpdf.calculate_pd, tdm psi field) get the angle
   between source and event, whatever the argument order of the call *)
Theorem C19_sep_callers : forall (e : R -> R) src_ra src_dec ra dec,
  signalpdf_psi (RNum e) src_ra src_dec ra dec = acos (vdot (dirv src_ra src_dec) (dirv ra dec))
  /\ tdm_psi (RNum e) ra dec src_ra src_dec None = acos (vdot (dirv src_ra src_dec) (dirv ra dec))
  /\ forall f, tdm_psi (RNum e) ra dec src_ra src_dec (Some f)
               = Rmax (acos (vdot (dirv src_ra src_dec) (dirv ra dec))) f.
Proof.
  intros. split; [exact (signalpdf_psi_R e src_ra src_dec ra dec)|].
  split; [exact (tdm_psi_R e ra dec src_ra src_dec None)|].
  intros f. exact (tdm_psi_R e ra dec src_ra src_dec (Some f)).
Qed.
Print Assumptions C19_sep_callers.

(* ------------------------------------------------------------ rotate_spherical_vector *)
(* the rotation matrix is orthogonal (R^T R = 1, stated as an isometry of the
   inner product) for every pair of directions, degenerate axes included *)
Theorem C19_rotation_orthogonal : forall (e : R -> R) ra1 dec1 ra2 dec2 (a b : V3),
  vdot (matvec (RNum e) (rot_matrix (RNum e) ra1 dec1 ra2 dec2) a)
       (matvec (RNum e) (rot_matrix (RNum e) ra1 dec1 ra2 dec2) b) = vdot a b.
Proof. exact rot_matrix_isometry. Qed.
Print Assumptions C19_rotation_orthogonal.

Theorem C19_rotation_maps_v1_to_v2 : forall (e : R -> R) ra1 dec1 ra2 dec2,
  matvec (RNum e) (rot_matrix (RNum e) ra1 dec1 ra2 dec2) (dirv ra1 dec1) = dirv ra2 dec2.
Proof. exact rot_matrix_maps. Qed.
Print Assumptions C19_rotation_maps_v1_to_v2.

(* the returned (ra, dec) is the rotated unit vector *)
Theorem C19_rotation_result_is_rotated_vector : forall (e : R -> R) ra1 dec1 ra2 dec2 ra3 dec3,
  dirv (fst (rot_sv (RNum e) ra1 dec1 ra2 dec2 ra3 dec3)) (snd (rot_sv (RNum e) ra1 dec1 ra2 dec2 ra3 dec3))
  = matvec (RNum e) (rot_matrix (RNum e) ra1 dec1 ra2 dec2) (dirv ra3 dec3).
Proof. exact rot_sv_dirv. Qed.
Print Assumptions C19_rotation_result_is_rotated_vector.

(* rotating the reconstructed direction (ra3, dec3) by the rotation that takes
   the true direction (ra1, dec1) onto the source (ra2, dec2) preserves its
   separation from the true direction *)
Theorem C19_rotation_preserves_separation : forall (e : R -> R) ra1 dec1 ra2 dec2 ra3 dec3,
  angsep (RNum e) (fst (rot_sv (RNum e) ra1 dec1 ra2 dec2 ra3 dec3))
                  (snd (rot_sv (RNum e) ra1 dec1 ra2 dec2 ra3 dec3)) ra2 dec2 None
  = angsep (RNum e) ra3 dec3 ra1 dec1 None.
Proof. exact rot_sv_preserves. Qed.
Print Assumptions C19_rotation_preserves_separation.

Theorem C19_rotation_preserves_pairs : forall (e : R -> R) ra1 dec1 ra2 dec2 ra3 dec3 ra4 dec4,
  angsep (RNum e) (fst (rot_sv (RNum e) ra1 dec1 ra2 dec2 ra3 dec3))
                  (snd (rot_sv (RNum e) ra1 dec1 ra2 dec2 ra3 dec3))
                  (fst (rot_sv (RNum e) ra1 dec1 ra2 dec2 ra4 dec4))
                  (snd (rot_sv (RNum e) ra1 dec1 ra2 dec2 ra4 dec4)) None
  = angsep (RNum e) ra3 dec3 ra4 dec4 None.
Proof. exact rot_sv_preserves_pair. Qed.
Print Assumptions C19_rotation_preserves_pairs.

Theorem C19_rotation_true_lands_on_source : forall (e : R -> R) ra1 dec1 ra2 dec2,
  angsep (RNum e) (fst (rot_sv (RNum e) ra1 dec1 ra2 dec2 ra1 dec1))
                  (snd (rot_sv (RNum e) ra1 dec1 ra2 dec2 ra1 dec1)) ra2 dec2 None = 0.
Proof. exact rot_sv_true_on_source. Qed.
Print Assumptions C19_rotation_true_lands_on_source.

(* On IEEE doubles the antipodal case of C19_rotation_maps_v1_to_v2 fails (open
   finding C19-rotate-antipodal).  Closed witness in Coq's SpecFloat binary64
   arithmetic for the algebraic part of the code (cross product, norm,
   normalisation, matrix, matrix-vector product), inputs = the unit vectors
   numpy computes for (1.0, 0.5) and (1.0 + pi, -0.5): the cross product is
   (-2^-54, 0, 2^-54) instead of 0, its normalisation (-0.7071, 0, 0.7071) is not
   perpendicular to v1 (n.v1 > 2^-9), and the image of v1 misses v2:
   (R v1).v2 < 1 - 2^-16, i.e. by more than 5.5e-3 rad. *)
Theorem C19_rotation_float_antipodal_refuted :
  rot_axis C19SF wit_v1 wit_v2
    = (S754_finite true 6369051672525772 (-53), S754_zero false, S754_finite false 6369051672525772 (-53))
  /\ SFltb (c19_of 1 (-9)) (dot C19SF (rot_axis C19SF wit_v1 wit_v2) wit_v1) = true
  /\ SFltb (dot C19SF (matvec C19SF (rot_matrix_of C19SF wit_c wit_s (rot_axis C19SF wit_v1 wit_v2)) wit_v1) wit_v2)
           (c19_of 65535 (-16)) = true.
Proof. vm_compute. repeat split; reflexivity. Qed.
Print Assumptions C19_rotation_float_antipodal_refuted.

(* ------------------------------------------------------------ azimuth <-> right ascension *)
Theorem C19_azi_ra_involution : forall (e : R -> R) azi mjd,
  0 <= azi < 2 * PI ->
  azi2ra (RNum e) (azi2ra (RNum e) azi mjd) mjd = azi
  /\ ra2azi (RNum e) (azi2ra (RNum e) azi mjd) mjd = azi
  /\ azi2ra (RNum e) (ra2azi (RNum e) azi mjd) mjd = azi.
Proof. exact azi_ra_roundtrips. Qed.
Print Assumptions C19_azi_ra_involution.

(* without the range premise the round trip reduces the angle modulo 2 pi *)
Theorem C19_azi_ra_twice : forall (e : R -> R) azi mjd,
  azi2ra (RNum e) (azi2ra (RNum e) azi mjd) mjd = Rfmod azi (2 * PI).
Proof. exact azi2ra_twice. Qed.
Print Assumptions C19_azi_ra_twice.

(* ------------------------------------------------------------ psi_to_dec_and_ra *)
(* for every source, every opening angle psi in [0, pi] and every value t of
   the uniform draw: the produced direction lies at separation psi *)
Theorem C19_psi_to_dec_and_ra : forall (e : R -> R) src_dec src_ra psi t,
  0 <= psi <= PI ->
  angsep (RNum e) (snd (psi2decra (RNum e) src_dec src_ra psi t))
                  (fst (psi2decra (RNum e) src_dec src_ra psi t)) src_ra src_dec None = psi.
Proof. exact psi2decra_sep. Qed.
Print Assumptions C19_psi_to_dec_and_ra.

(* ------------------------------------------------------------ rotate_signal_events_on_sphere *)
(* The astropy operations are oracles O of the model.  Premises = their
   documented contracts: separation is the angle between the unit vectors;
   directional_offset_by(pa, d) from a point whose latitude is in the set okLat
   returns the coordinates (lon in [0, 2 pi), lat in [-pi/2, pi/2]) of the point
   at distance d in direction pa (north through east).  okLat = [-pi/2, pi/2] is
   the ideal oracle; astropy's own formulas satisfy the premises with okLat =
   "cos(lat) >= 1e-12 or lat = +-pi/2" (C19_rses_contracts_satisfiable), so the
   theorems are not vacuous; with okLat = [-pi/2, pi/2] the premise is FALSE for
   astropy (C19_astropy_offset_gap_refuted). *)
Theorem C19_rses_preserves_separation :
  forall (e : R -> R) (O : sky_oracle (T := R)) (okLat : R -> Prop),
  (forall l1 b1 l2 b2, o_separation O l1 b1 l2 b2 = acos (vdot (dirv l1 b1) (dirv l2 b2))) ->
  (forall lon lat pa d, okLat lat -> 0 <= d <= PI ->
     dirv (fst (o_offset_by O lon lat pa d)) (snd (o_offset_by O lon lat pa d)) = offset_point lon lat pa d
     /\ 0 <= fst (o_offset_by O lon lat pa d) < 2 * PI
     /\ - (PI / 2) <= snd (o_offset_by O lon lat pa d) <= PI / 2) ->
  forall src_ra src_dec true_ra true_dec reco_ra reco_dec,
  okLat src_dec ->
  angsep (RNum e) (fst (rses (RNum e) O src_ra src_dec true_ra true_dec reco_ra reco_dec))
                  (snd (rses (RNum e) O src_ra src_dec true_ra true_dec reco_ra reco_dec)) src_ra src_dec None
  = angsep (RNum e) reco_ra reco_dec true_ra true_dec None.
Proof. exact rses_preserves_sep. Qed.
Print Assumptions C19_rses_preserves_separation.

Theorem C19_rses_range :
  forall (e : R -> R) (O : sky_oracle (T := R)) (okLat : R -> Prop),
  (forall l1 b1 l2 b2, o_separation O l1 b1 l2 b2 = acos (vdot (dirv l1 b1) (dirv l2 b2))) ->
  (forall lon lat pa d, okLat lat -> 0 <= d <= PI ->
     dirv (fst (o_offset_by O lon lat pa d)) (snd (o_offset_by O lon lat pa d)) = offset_point lon lat pa d
     /\ 0 <= fst (o_offset_by O lon lat pa d) < 2 * PI
     /\ - (PI / 2) <= snd (o_offset_by O lon lat pa d) <= PI / 2) ->
  forall src_ra src_dec true_ra true_dec reco_ra reco_dec,
  okLat src_dec ->
  0 <= fst (rses (RNum e) O src_ra src_dec true_ra true_dec reco_ra reco_dec) < 2 * PI
  /\ - (PI / 2) <= snd (rses (RNum e) O src_ra src_dec true_ra true_dec reco_ra reco_dec) <= PI / 2.
Proof. exact rses_range. Qed.
Print Assumptions C19_rses_range.

(* with the position-angle contract in addition: the rotated reconstruction has
   in the source's local (radial, north, east) frame the coordinates the
   reconstruction has in the true direction's frame, i.e. separation and
   position angle are both carried over *)
Theorem C19_rses_preserves_frame :
  forall (e : R -> R) (O : sky_oracle (T := R)) (okLat : R -> Prop),
  (forall l1 b1 l2 b2, o_separation O l1 b1 l2 b2 = acos (vdot (dirv l1 b1) (dirv l2 b2))) ->
  (forall lon lat pa d, okLat lat -> 0 <= d <= PI ->
     dirv (fst (o_offset_by O lon lat pa d)) (snd (o_offset_by O lon lat pa d)) = offset_point lon lat pa d
     /\ 0 <= fst (o_offset_by O lon lat pa d) < 2 * PI
     /\ - (PI / 2) <= snd (o_offset_by O lon lat pa d) <= PI / 2) ->
  (forall l1 b1 l2 b2,
     sin (acos (vdot (dirv l1 b1) (dirv l2 b2))) * cos (o_position_angle O l1 b1 l2 b2) = vdot (dirv l2 b2) (north l1 b1)
     /\ sin (acos (vdot (dirv l1 b1) (dirv l2 b2))) * sin (o_position_angle O l1 b1 l2 b2) = vdot (dirv l2 b2) (east l1 b1)) ->
  forall src_ra src_dec true_ra true_dec reco_ra reco_dec,
  okLat src_dec ->
  let out := rses (RNum e) O src_ra src_dec true_ra true_dec reco_ra reco_dec in
  vdot (dirv (fst out) (snd out)) (dirv src_ra src_dec) = vdot (dirv reco_ra reco_dec) (dirv true_ra true_dec)
  /\ vdot (dirv (fst out) (snd out)) (north src_ra src_dec) = vdot (dirv reco_ra reco_dec) (north true_ra true_dec)
  /\ vdot (dirv (fst out) (snd out)) (east src_ra src_dec) = vdot (dirv reco_ra reco_dec) (east true_ra true_dec).
Proof. exact rses_frame. Qed.
Print Assumptions C19_rses_preserves_frame.

(* with astropy's own formulas (transcribed in M_Coords: ap_position_angle,
   ap_separation = Vincenty, ap_offset_by regular branch) in place of the
   oracles, the contracts are theorems: no premise on oracles is left.  The
   guard (regular branch, or exactly a pole) excludes only astropy's approximate
   pole branch 0 < cos(dec) < 1e-12, where the contract is false
   (C19_astropy_offset_gap_refuted). *)
Theorem C19_rses_astropy_preserves_separation :
  forall (e : R -> R) src_ra src_dec true_ra true_dec reco_ra reco_dec,
  (1 / 1000000000000 <= cos src_dec \/ src_dec = PI / 2 \/ src_dec = - (PI / 2)) ->
  angsep (RNum e) (fst (rses_ap (RNum e) src_ra src_dec true_ra true_dec reco_ra reco_dec))
                  (snd (rses_ap (RNum e) src_ra src_dec true_ra true_dec reco_ra reco_dec)) src_ra src_dec None
  = angsep (RNum e) reco_ra reco_dec true_ra true_dec None.
Proof. exact rses_ap_preserves_sep. Qed.
Print Assumptions C19_rses_astropy_preserves_separation.

Theorem C19_rses_astropy_preserves_frame :
  forall (e : R -> R) src_ra src_dec true_ra true_dec reco_ra reco_dec,
  (1 / 1000000000000 <= cos src_dec \/ src_dec = PI / 2 \/ src_dec = - (PI / 2)) ->
  let out := rses_ap (RNum e) src_ra src_dec true_ra true_dec reco_ra reco_dec in
  vdot (dirv (fst out) (snd out)) (dirv src_ra src_dec) = vdot (dirv reco_ra reco_dec) (dirv true_ra true_dec)
  /\ vdot (dirv (fst out) (snd out)) (north src_ra src_dec) = vdot (dirv reco_ra reco_dec) (north true_ra true_dec)
  /\ vdot (dirv (fst out) (snd out)) (east src_ra src_dec) = vdot (dirv reco_ra reco_dec) (east true_ra true_dec).
Proof. exact rses_ap_frame. Qed.
Print Assumptions C19_rses_astropy_preserves_frame.

(* ranges hold for every real input, pole branch included *)
Theorem C19_rses_astropy_range :
  forall (e : R -> R) src_ra src_dec true_ra true_dec reco_ra reco_dec,
  0 <= fst (rses_ap (RNum e) src_ra src_dec true_ra true_dec reco_ra reco_dec) < 2 * PI
  /\ - (PI / 2) <= snd (rses_ap (RNum e) src_ra src_dec true_ra true_dec reco_ra reco_dec) <= PI / 2.
Proof. exact rses_ap_range. Qed.
Print Assumptions C19_rses_astropy_range.

(* the three astropy formulas meet their contracts *)
Theorem C19_astropy_contracts :
  forall (e : R -> R),
  (forall l1 b1 l2 b2, ap_separation (RNum e) l1 b1 l2 b2 = acos (vdot (dirv l1 b1) (dirv l2 b2)))
  /\ (forall l1 b1 l2 b2,
      sin (acos (vdot (dirv l1 b1) (dirv l2 b2))) * cos (ap_position_angle (RNum e) l1 b1 l2 b2) = vdot (dirv l2 b2) (north l1 b1)
      /\ sin (acos (vdot (dirv l1 b1) (dirv l2 b2))) * sin (ap_position_angle (RNum e) l1 b1 l2 b2) = vdot (dirv l2 b2) (east l1 b1))
  /\ (forall lon lat pa d,
      (1 / 1000000000000 <= cos lat \/ lat = PI / 2 \/ lat = - (PI / 2)) -> 0 <= d <= PI ->
      dirv (fst (ap_offset_by (RNum e) lon lat pa d)) (snd (ap_offset_by (RNum e) lon lat pa d)) = offset_point lon lat pa d).
Proof.
  intros e. split; [exact (ap_separation_R e)|]. split; [exact (ap_position_angle_R e) | exact (ap_offset_by_dirv e)].
Qed.
Print Assumptions C19_astropy_contracts.

(* the guard is needed: in astropy's approximate pole branch the offset contract fails *)
Theorem C19_astropy_offset_gap_refuted : forall (e : R -> R),
  exists lon lat pa d, - (PI / 2) <= lat <= PI / 2 /\ 0 <= d <= PI /\ 0 < cos lat < 1 / 1000000000000
    /\ dirv (fst (ap_offset_by (RNum e) lon lat pa d)) (snd (ap_offset_by (RNum e) lon lat pa d)) <> offset_point lon lat pa d.
Proof. exact ap_offset_by_gap_refuted. Qed.
Print Assumptions C19_astropy_offset_gap_refuted.

(* the premises of C19_rses_preserves_* hold for the transcribed astropy formulas *)
Theorem C19_rses_contracts_satisfiable : forall (e : R -> R),
  (forall l1 b1 l2 b2, o_separation (ap_oracle (RNum e)) l1 b1 l2 b2 = acos (vdot (dirv l1 b1) (dirv l2 b2)))
  /\ (forall lon lat pa d, (1 / 1000000000000 <= cos lat \/ lat = PI / 2 \/ lat = - (PI / 2)) -> 0 <= d <= PI ->
      dirv (fst (o_offset_by (ap_oracle (RNum e)) lon lat pa d)) (snd (o_offset_by (ap_oracle (RNum e)) lon lat pa d))
        = offset_point lon lat pa d
      /\ 0 <= fst (o_offset_by (ap_oracle (RNum e)) lon lat pa d) < 2 * PI
      /\ - (PI / 2) <= snd (o_offset_by (ap_oracle (RNum e)) lon lat pa d) <= PI / 2)
  /\ (forall l1 b1 l2 b2,
      sin (acos (vdot (dirv l1 b1) (dirv l2 b2))) * cos (o_position_angle (ap_oracle (RNum e)) l1 b1 l2 b2) = vdot (dirv l2 b2) (north l1 b1)
      /\ sin (acos (vdot (dirv l1 b1) (dirv l2 b2))) * sin (o_position_angle (ap_oracle (RNum e)) l1 b1 l2 b2) = vdot (dirv l2 b2) (east l1 b1)).
Proof. exact ap_oracle_meets_contracts. Qed.
Print Assumptions C19_rses_contracts_satisfiable.

(* EVERY source declination in [-pi/2, pi/2], astropy's approximate pole branch
   included - in particular every double the code can receive as a pole (no
   double equals pi/2; for the nearest one cos = 6.1e-17, inside that branch):
   the cosine of the separation from the source differs from the cosine of the
   separation reco-true by at most 2 cos(src_dec) < 2e-12, and by 0 outside the
   approximate branch *)
Theorem C19_rses_astropy_all_latitudes :
  forall (e : R -> R) src_ra src_dec true_ra true_dec reco_ra reco_dec,
  - (PI / 2) <= src_dec <= PI / 2 ->
  Rabs (vdot (dirv (fst (rses_ap (RNum e) src_ra src_dec true_ra true_dec reco_ra reco_dec))
                   (snd (rses_ap (RNum e) src_ra src_dec true_ra true_dec reco_ra reco_dec))) (dirv src_ra src_dec)
        - vdot (dirv reco_ra reco_dec) (dirv true_ra true_dec))
  <= (if Rlt_dec (cos src_dec) (1 / 1000000000000) then 2 * cos src_dec else 0).
Proof. exact rses_ap_all_latitudes. Qed.
Print Assumptions C19_rses_astropy_all_latitudes.

(* signal_event_post_sampling_processing (the caller of rotate_signal_events_on_sphere),
   read per event: an event sampled for source number k is rotated onto
   source_list[k] and keeps its separation with respect to ITS OWN source, whatever
   other source indices occur in the draw (sparse, unordered, repeated) *)
Theorem C19_post_sampling_own_source :
  forall (e : R -> R) (srcs : list (R * R)) (evs : list (nat * (R * R) * (R * R))) i k
         true_ra true_dec reco_ra reco_dec src_ra src_dec,
  nth_error evs i = Some (k, (true_ra, true_dec), (reco_ra, reco_dec)) ->
  nth_error srcs k = Some (src_ra, src_dec) ->
  (1 / 1000000000000 <= cos src_dec \/ src_dec = PI / 2 \/ src_dec = - (PI / 2)) ->
  exists out, nth_error (post_sampling_ap (RNum e) srcs evs) i = Some (Some out)
    /\ angsep (RNum e) (fst out) (snd out) src_ra src_dec None = angsep (RNum e) reco_ra reco_dec true_ra true_dec None
    /\ 0 <= fst out < 2 * PI /\ - (PI / 2) <= snd out <= PI / 2.
Proof. exact post_sampling_ap_own_source. Qed.
Print Assumptions C19_post_sampling_own_source.

(* the code performs the rotation unconditionally: no `if`, a single `return` *)
Theorem C19_rses_unconditional : rses_nif = 0%Z /\ rses_nreturn = 1%Z.
Proof. exact (conj K_rses_nif K_rses_nreturn). Qed.
Print Assumptions C19_rses_unconditional.

(* ------------------------------------------------------------ canonical ranges *)
(* every produced coordinate except hor_to_equ_transform's declination *)
Theorem C19_range_partial : forall (e : R -> R),
  (forall ra1 dec1 ra2 dec2 ra3 dec3,
     0 <= fst (rot_sv (RNum e) ra1 dec1 ra2 dec2 ra3 dec3) < 2 * PI
     /\ - (PI / 2) <= snd (rot_sv (RNum e) ra1 dec1 ra2 dec2 ra3 dec3) <= PI / 2)
  /\ (forall azi mjd, 0 <= azi2ra (RNum e) azi mjd < 2 * PI)
  /\ (forall ra mjd, 0 <= ra2azi (RNum e) ra mjd < 2 * PI)
  /\ (forall src_dec src_ra psi t,
     - (PI / 2) <= fst (psi2decra (RNum e) src_dec src_ra psi t) <= PI / 2
     /\ 0 <= snd (psi2decra (RNum e) src_dec src_ra psi t) < 2 * PI)
  /\ (forall azi zen mjd,
     0 <= fst (hor2equ (RNum e) azi zen mjd) < 2 * PI
     /\ (0 <= zen <= PI -> 0 <= snd (hor2equ (RNum e) azi zen mjd) <= PI)
     /\ (- (PI / 2) <= snd (hor2equ (RNum e) azi zen mjd) <= PI / 2 <-> PI / 2 <= zen <= 3 * PI / 2)).
Proof.
  intros e. split; [exact (rot_sv_range e)|]. split; [exact (azi2ra_range e)|].
  split; [exact (ra2azi_range e)|].
  split; [exact (psi2decra_range e) | exact (hor2equ_partial e)].
Qed.
Print Assumptions C19_range_partial.

(* the exact image of hor_to_equ_transform on the physical domain at a fixed
   time: [0, 2 pi) x [0, pi] onto [0, 2 pi) x [0, pi] — southern declinations
   are never produced, every dec in (pi/2, pi] is *)
Theorem C19_hor_to_equ_image : forall (e : R -> R) mjd,
  (forall azi zen, 0 <= azi < 2 * PI -> 0 <= zen <= PI ->
     0 <= fst (hor2equ (RNum e) azi zen mjd) < 2 * PI /\ 0 <= snd (hor2equ (RNum e) azi zen mjd) <= PI)
  /\ (forall ra dec, 0 <= ra < 2 * PI -> 0 <= dec <= PI ->
     exists azi zen, 0 <= azi < 2 * PI /\ 0 <= zen <= PI /\ hor2equ (RNum e) azi zen mjd = (ra, dec)).
Proof. exact hor2equ_image. Qed.
Print Assumptions C19_hor_to_equ_image.

(* the full range statement is false: hor_to_equ_transform returns dec = pi - zen *)
Theorem C19_range_full_refuted : forall (e : R -> R),
  exists azi zen mjd, 0 <= azi < 2 * PI /\ 0 <= zen <= PI
    /\ ~ (- (PI / 2) <= snd (hor2equ (RNum e) azi zen mjd) <= PI / 2).
Proof. exact hor2equ_dec_refuted. Qed.
Print Assumptions C19_range_full_refuted.

(* the statement skeletons of all anchored functions are pinned by the translator
   (fail-closed `shape` kernels): an inserted store, re-bound argument, branch or
   return breaks the build of G_coords.v *)
Theorem C19_statement_skeletons_pinned :
  sh_angular_separation = true /\ sh_rotate_spherical_vector = true /\ sh_rotate_signal_events_on_sphere = true
  /\ sh_azi_to_ra_transform = true /\ sh_ra_to_azi_transform = true /\ sh_hor_to_equ_transform = true
  /\ sh_psi_to_dec_and_ra = true /\ sh_tdm_field_func_psi = true /\ sh_get_tdm_field_func_psi = true
  /\ sh_signalpdf_calculate_pd = true /\ sh_post_sampling_processing = true.
Proof. repeat split; reflexivity. Qed.
Print Assumptions C19_statement_skeletons_pinned.

(* ------------------------------------------------------------ end to end *)
(* what the analysis sees: an MC event rotated onto the source (either rotation
   routine) enters the psi data field and the spatial signal PDF with exactly the
   separation it had from its true direction; a direction drawn at opening
   angle psi is seen at psi (or at the configured floor) *)
Theorem C19_pipeline_rotation : forall (e : R -> R) ra1 dec1 ra2 dec2 ra3 dec3,
  tdm_psi (RNum e) (fst (rot_sv (RNum e) ra1 dec1 ra2 dec2 ra3 dec3)) (snd (rot_sv (RNum e) ra1 dec1 ra2 dec2 ra3 dec3))
          ra2 dec2 None = angsep (RNum e) ra3 dec3 ra1 dec1 None
  /\ signalpdf_psi (RNum e) ra2 dec2 (fst (rot_sv (RNum e) ra1 dec1 ra2 dec2 ra3 dec3))
                   (snd (rot_sv (RNum e) ra1 dec1 ra2 dec2 ra3 dec3)) = angsep (RNum e) ra3 dec3 ra1 dec1 None.
Proof. exact pipeline_rot. Qed.
Print Assumptions C19_pipeline_rotation.

Theorem C19_pipeline_rotation_astropy : forall (e : R -> R) src_ra src_dec true_ra true_dec reco_ra reco_dec,
  (1 / 1000000000000 <= cos src_dec \/ src_dec = PI / 2 \/ src_dec = - (PI / 2)) ->
  tdm_psi (RNum e) (fst (rses_ap (RNum e) src_ra src_dec true_ra true_dec reco_ra reco_dec))
          (snd (rses_ap (RNum e) src_ra src_dec true_ra true_dec reco_ra reco_dec)) src_ra src_dec None
    = angsep (RNum e) reco_ra reco_dec true_ra true_dec None
  /\ signalpdf_psi (RNum e) src_ra src_dec (fst (rses_ap (RNum e) src_ra src_dec true_ra true_dec reco_ra reco_dec))
                   (snd (rses_ap (RNum e) src_ra src_dec true_ra true_dec reco_ra reco_dec))
    = angsep (RNum e) reco_ra reco_dec true_ra true_dec None.
Proof. exact pipeline_rses_ap. Qed.
Print Assumptions C19_pipeline_rotation_astropy.

Theorem C19_pipeline_psi : forall (e : R -> R) src_dec src_ra psi t f,
  0 <= psi <= PI ->
  tdm_psi (RNum e) (snd (psi2decra (RNum e) src_dec src_ra psi t)) (fst (psi2decra (RNum e) src_dec src_ra psi t))
          src_ra src_dec None = psi
  /\ tdm_psi (RNum e) (snd (psi2decra (RNum e) src_dec src_ra psi t)) (fst (psi2decra (RNum e) src_dec src_ra psi t))
          src_ra src_dec (Some f) = Rmax psi f.
Proof. exact pipeline_psi. Qed.
Print Assumptions C19_pipeline_psi.

(* ------------------------------------------------------------ extension: the value of the spatial signal PDF *)
(* GaussianPSFPointLikeSourceSignalSpatialPDF.calculate_pd for one (source, event)
   pair (kernels spdf_sigma_sq, spdf_pd + the pinned angular_separation call): the
   density is the Gaussian of the angle between source and event, so it depends on
   the two directions only through that angle *)
Theorem C19_signalpdf_value : forall (e : R -> R) src_ra src_dec ra dec sigma,
  sigma <> 0 ->
  signalpdf_pd (RNum e) src_ra src_dec ra dec sigma
  = / (2 * PI * (sigma * sigma))
    * exp (- (acos (vdot (dirv src_ra src_dec) (dirv ra dec)) * acos (vdot (dirv src_ra src_dec) (dirv ra dec)))
           / (2 * (sigma * sigma))).
Proof. exact signalpdf_pd_R. Qed.
Print Assumptions C19_signalpdf_value.

(* strictly positive, never above the peak 1/(2 pi sigma^2), which is attained on the source *)
Theorem C19_signalpdf_bounds : forall (e : R -> R) src_ra src_dec ra dec sigma,
  sigma <> 0 ->
  0 < signalpdf_pd (RNum e) src_ra src_dec ra dec sigma <= / (2 * PI * (sigma * sigma))
  /\ signalpdf_pd (RNum e) src_ra src_dec src_ra src_dec sigma = / (2 * PI * (sigma * sigma)).
Proof. exact signalpdf_pd_bounds. Qed.
Print Assumptions C19_signalpdf_bounds.

Example C19_instance_signalpdf : forall e : R -> R,
  signalpdf_pd (RNum e) 1 (1 / 2) 1 (1 / 2) 2 = / (2 * PI * (2 * 2)).
Proof. intros e. apply (C19_signalpdf_bounds e 1 (1 / 2) 1 (1 / 2) 2). lra. Qed.

(* ------------------------------------------------------------ the remaining guards are needed *)
Theorem C19_azi_ra_involution_guard_needed : forall (e : R -> R) mjd,
  azi2ra (RNum e) (azi2ra (RNum e) (2 * PI) mjd) mjd <> 2 * PI.
Proof. exact azi2ra_guard_needed. Qed.
Print Assumptions C19_azi_ra_involution_guard_needed.

Theorem C19_psi_guard_needed : forall (e : R -> R) src_dec src_ra psi t,
  (psi < 0 \/ PI < psi) ->
  angsep (RNum e) (snd (psi2decra (RNum e) src_dec src_ra psi t))
                  (fst (psi2decra (RNum e) src_dec src_ra psi t)) src_ra src_dec None <> psi.
Proof.
  intros e sd sr psi t [H|H]; [exact (psi2decra_guard_needed e sd sr psi t H) | exact (psi2decra_guard_needed_hi e sd sr psi t H)].
Qed.
Print Assumptions C19_psi_guard_needed.

(* ------------------------------------------------------------ non-vacuity *)
Example C19_nonvacuous_ranges :
  (exists azi, 0 <= azi < 2 * PI) /\ (exists psi, 0 <= psi <= PI /\ psi <> 0)
  /\ (exists zen, 0 <= zen <= PI /\ PI / 2 <= zen <= 3 * PI / 2).
Proof.
  generalize PI2_1; intros H.
  split; [exists 1; lra|]. split; [exists 1; lra | exists PI; lra].
Qed.

(* the guard of the astropy theorems is met e.g. on the equator *)
Example C19_nonvacuous_guard : 1 / 1000000000000 <= cos 0 /\ - (PI / 2) <= 0 <= PI / 2.
Proof. rewrite cos_0. generalize PI_RGT_0. lra. Qed.

(* instances of the guarded theorems at concrete inputs meeting the guards *)
Example C19_instance_involution : forall e : R -> R,
  azi2ra (RNum e) (azi2ra (RNum e) 1 58457) 58457 = 1.
Proof. intros e. apply (C19_azi_ra_involution e 1 58457). generalize PI2_1. lra. Qed.

Example C19_instance_psi : forall e : R -> R,
  angsep (RNum e) (snd (psi2decra (RNum e) (1 / 2) 2 1 3)) (fst (psi2decra (RNum e) (1 / 2) 2 1 3)) 2 (1 / 2) None = 1.
Proof. intros e. apply (C19_psi_to_dec_and_ra e (1 / 2) 2 1 3). generalize PI2_1. lra. Qed.

Example C19_instance_rses : forall e : R -> R,
  angsep (RNum e) (fst (rses_ap (RNum e) 1 0 2 (1 / 2) 2 1)) (snd (rses_ap (RNum e) 1 0 2 (1 / 2) 2 1)) 1 0 None
  = angsep (RNum e) 2 1 2 (1 / 2) None.
Proof. intros e. apply (C19_rses_astropy_preserves_separation e 1 0 2 (1 / 2) 2 1). left. rewrite cos_0. lra. Qed.

(* two different coordinate pairs denoting the same point (the pole) *)
Example C19_nonvacuous_equal_directions : dirv 0 (PI / 2) = dirv 1 (PI / 2) /\ (0 <> 1).
Proof. unfold dirv. rewrite cos_PI2, sin_PI2, !Rmult_0_r. split; [reflexivity | lra]. Qed.
