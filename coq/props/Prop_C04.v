(* C04 — all views of the global parameter set agree after any sequence of edits.
   Statements only; every proof is `exact <lemma>`.
   Model: model/M_Params.v (Parameter objects in a store, ParameterSet with all of its caches,
   ParameterModelMapper), spec: spec/S_Params.v (the parameter table and the brute-force views). *)
From Coq Require Import ZArith List Bool Lia.
From Sky Require Import Result PyList M_Params S_Params P_Params P_ParamsViews P_ParamsWorld P_ParamsMap P_ParamsRec P_ParamsArgs P_ParamsRefine P_ParamsE2E P_ParamsX.
Import ListNotations.
Open Scope Z_scope.

(* T0 (end to end): REFINEMENT.  The world of Parameter objects, store locations and caches behaves,
   for every operation sequence, exactly like the value-level specification interpreter `s_step` of
   S_Params.v (parameter sets = plain lists of parameters, no identity, no caches; a rejected operation
   is a no-op): same abstract world after every step, same exception (or none) at every step.
   The interpreter is written independently of the model: what one Parameter does (s_param_new,
   s_make_fixed, s_make_floating, s_set_value) and the alias column of map_param (s_dup_scan, s_column:
   model by model, with nth_error) are closed forms of their own; C04_spec_parameter_ops and
   C04_spec_map_rows state separately that the model's code computes them.  Only the request lookup
   `assoc`, Python list indexing `py_get`/`py_set` and the record type are shared with the model. *)
Theorem C04_refinement : forall src ops,
  abs (run (init src) ops) = s_run (s_init src) ops
  /\ map (fun we => (abs (fst we), snd we)) (trace (init src) ops) = s_trace (s_init src) ops.
Proof. exact refinement_reachable. Qed.
Print Assumptions C04_refinement.

Theorem C04_refinement_step : forall w o,
  WorldOk w ->
  abs (fst (step w o)) = fst (s_step (abs w) o) /\ snd (step w o) = snd (s_step (abs w) o).
Proof. exact refinement_step. Qed.
Print Assumptions C04_refinement_step.

(* the abstraction is what the consistency invariant says it is *)
Theorem C04_abs_set : forall st s ps, Consistent st s ps -> abs_set st s = ps.
Proof. exact abs_set_Consistent. Qed.
Print Assumptions C04_abs_set.

(* the independent Parameter-level definitions of the specification are what the model of the code computes *)
Theorem C04_spec_parameter_ops :
  (forall d, s_param_new d = param_new d)
  /\ (forall p i, s_make_fixed p i = make_fixed p i)
  /\ (forall p i lo hi, s_make_floating p i lo hi = make_floating p i lo hi)
  /\ (forall p v, s_set_value p v = set_value p v)
  /\ (forall e, s_entry e = parse_fentry e).
Proof. exact (conj s_param_new_eq (conj s_make_fixed_eq (conj s_make_floating_eq (conj s_set_value_eq s_entry_eq)))). Qed.
Print Assumptions C04_spec_parameter_ops.

(* ... and the model-by-model reading of map_param's column is what the numpy plumbing (boolean mask,
   np.where with broadcasting, hstack) of the model computes *)
Theorem C04_spec_map_rows : forall m l p models al,
  map_param m l p models al =
  do rows <- s_map_rows (length (mp_src m)) (mp_names m) (p_name p) models al;
  do g <- add_param (mp_gps m) l p false; Ok (mkMapper (mp_src m) g rows).
Proof. intros. rewrite s_map_rows_eq. apply map_param_factor. Qed.
Print Assumptions C04_spec_map_rows.

(* no dangling location in a reachable world: the abstraction `abs_set` drops nothing *)
Theorem C04_no_dangling : forall src ops s,
  let w := run (init src) ops in
  In s (all_sets w) -> length (abs_set (w_store w) s) = length (ps_params s).
Proof. exact reachable_no_dangling. Qed.
Print Assumptions C04_no_dangling.

(* T1: after ANY operation sequence (any length, any number of parameters, sets and models; failed
   operations included) every parameter set of the world — the mapper's global set and every set made
   by ParameterSet(), union, copy — is consistent: each cache is the stated function of the Parameter
   objects; no Parameter object belongs to two sets; the alias matrix has one row per model, one column
   per global parameter, and no local name twice for a model. *)
Theorem C04_inv_reachable_full : forall src ops,
  let w := run (init src) ops in
  (forall s, In s (all_sets w) -> exists ps, Consistent (w_store w) s ps)
  /\ NoDup (concat (map ps_params (all_sets w)))
  /\ length (mp_names (w_map w)) = length (mp_src (w_map w))
  /\ (forall arow, In arow (mp_names (w_map w)) ->
        length arow = length (ps_params (mp_gps (w_map w))) /\ NoDup (somes arow)).
Proof. exact reachable_full. Qed.
Print Assumptions C04_inv_reachable_full.

(* the invariant is inductive: one step from ANY consistent world (not only reachable ones) *)
Theorem C04_inv_step : forall w o, WorldOk w -> WorldOk (fst (step w o)).
Proof. exact step_ok. Qed.
Print Assumptions C04_inv_step.

(* T2a: every view of a consistent parameter set is the brute-force reading of its table *)
Theorem C04_views_set : forall st s ps,
  Consistent st s ps ->
  let T := table_of ps in
  ps_mask s = s_mask T
  /\ floating_mask s = map negb (s_mask T)
  /\ ps_fxn s = s_fixed_names T
  /\ ps_fln s = s_floating_names T
  /\ params_name_list s = s_fixed_names T ++ s_floating_names T
  /\ ps_fxv s = s_fixed_values T
  /\ fixed_params_idxs s = s_fixed_idxs T
  /\ floating_params_idxs s = s_floating_idxs T
  /\ n_params s = zlen T
  /\ n_fixed_params s = zlen (s_fixed_names T)
  /\ n_floating_params s = zlen (s_floating_names T)
  /\ floating_param_initials st s = Ok (s_floating_initials T)
  /\ floating_param_bounds st s = Ok (s_floating_bounds T)
  /\ (forall n, get_fixed_pidx s n = match s_fixed_pidx T n with Some i => Ok i | None => Err KeyError end)
  /\ (forall n, get_floating_pidx s n = match s_floating_pidx T n with Some i => Ok i | None => Err KeyError end).
Proof. exact views_all. Qed.
Print Assumptions C04_views_set.

(* T2b: get_params_dict / create_global_params_dict: floating values from the vector in declaration
   order, fixed ones keep their fixed value *)
Theorem C04_params_dict : forall st s ps vec vals,
  Consistent st s ps -> s_values (table_of ps) vec = Some vals ->
  forall n, dict_get (get_params_dict s vec) n = s_lookup (s_params_map (table_of ps) vals) n.
Proof. exact view_params_dict. Qed.
Print Assumptions C04_params_dict.

Theorem C04_params_dict_nth : forall st s ps vec vals j p v,
  Consistent st s ps -> s_values (table_of ps) vec = Some vals ->
  nth_error ps j = Some p -> nth_error vals j = Some v ->
  dict_get (get_params_dict s vec) (p_name p) = Some v.
Proof. exact view_params_dict_nth. Qed.
Print Assumptions C04_params_dict_nth.

(* T2c: create_model_params_dict: each model receives exactly the values of the parameters mapped to
   it, under its local alias *)
Theorem C04_model_params_dict : forall st m ps vec vals midx arow,
  Consistent st (mp_gps m) ps -> matrix_ok m -> aliases_ok m ->
  s_values (table_of ps) vec = Some vals ->
  nth_error (mp_names m) midx = Some arow ->
  exists d, create_model_params_dict m vec (Z.of_nat midx) = Ok d
    /\ forall a, dict_get d a = s_lookup (s_local arow vals) a.
Proof. exact model_params_dict_ok. Qed.
Print Assumptions C04_model_params_dict.

(* T2d: create_src_params_recarray: the fields are the sorted distinct local names of the source
   models; one row per source model, in model order; the cell (source, local name u) holds the value
   and gpidx of exactly the parameter mapped to that source under the name u — floating values from the
   vector, fixed ones from the table — and (None, 0) = NaN / "not applicable" when there is none *)
Theorem C04_src_params_recarray : forall st m ps vec vals,
  Consistent st (mp_gps m) ps -> matrix_ok m -> aliases_ok m ->
  s_values (table_of ps) vec = Some vals ->
  exists uniq rows,
    create_src_params_recarray m vec None = Ok (uniq, rows)
    /\ strictly_sorted uniq
    /\ (forall u, In u uniq <->
          exists i arow, nth_error (mp_src m) i = Some true /\ nth_error (mp_names m) i = Some arow /\ In u (somes arow))
    /\ map fst rows = s_positions 0 (mp_src m)
    /\ (forall smidx cells, In (smidx, cells) rows ->
          exists i arow, smidx = Z.of_nat i /\ nth_error (mp_src m) i = Some true
            /\ nth_error (mp_names m) i = Some arow
            /\ cells = map (s_cell arow vals (s_gpidxs 0 0 (table_of ps))) uniq).
Proof. exact src_params_recarray_ok. Qed.
Print Assumptions C04_src_params_recarray.

(* get_src_model_idxs(): the positions of the source models, whatever precedes them *)
Theorem C04_src_model_idxs : forall m, get_src_model_idxs m None = s_positions 0 (mp_src m).
Proof. exact src_idxs_positions. Qed.
Print Assumptions C04_src_model_idxs.

(* T2e: create_src_params_recarray for ANY form of the `sources` argument (None / int32 array of model
   indices / source objects): rows for exactly the selected models, in the stated order *)
Theorem C04_src_params_recarray_sel : forall st m ps vec vals sources,
  Consistent st (mp_gps m) ps -> matrix_ok m -> aliases_ok m ->
  s_values (table_of ps) vec = Some vals ->
  (forall arr, sources = Some (inl arr) -> forall z, In z arr -> 0 <= z < Z.of_nat (length (mp_src m))) ->
  exists uniq rows,
    create_src_params_recarray m vec sources = Ok (uniq, rows)
    /\ unique_source_param_names m = Ok uniq
    /\ map fst rows = sel_idxs m sources
    /\ (forall smidx cells, In (smidx, cells) rows ->
          exists i arow, smidx = Z.of_nat i /\ nth_error (mp_names m) i = Some arow
            /\ cells = map (s_cell arow vals (s_gpidxs 0 0 (table_of ps))) uniq).
Proof. exact src_params_recarray_sel. Qed.
Print Assumptions C04_src_params_recarray_sel.

Theorem C04_src_model_idxs_sel : forall m srcs,
  get_src_model_idxs m (Some srcs) = filter (fun smidx => mem smidx srcs) (s_positions 0 (mp_src m)).
Proof. exact src_idxs_selection. Qed.
Print Assumptions C04_src_model_idxs_sel.

(* T2f: get_local_param_is_global_floating_param_mask: a local name is flagged iff some model maps a
   FLOATING global parameter under that name *)
Theorem C04_local_is_floating_mask : forall st m ps names,
  Consistent st (mp_gps m) ps -> matrix_ok m ->
  length (local_is_floating_mask m names) = length names
  /\ forall k name, nth_error names k = Some name ->
       (nth_error (local_is_floating_mask m names) k = Some true <->
        exists arow j p, In arow (mp_names m) /\ nth_error arow j = Some (Some name)
                         /\ nth_error ps j = Some p /\ p_isfixed p = false).
Proof. exact local_is_floating_mask_ok. Qed.
Print Assumptions C04_local_is_floating_mask.

(* T3a: the argument paths.  Parameter(name, initial, valmin, valmax, isfixed): every combination *)
Theorem C04_param_new : forall d,
  param_new d =
  let fx := match d_isfixed d with
            | Some b => b
            | None => match d_valmin d, d_valmax d with Some _, Some _ => false | _, _ => true end
            end in
  if fx then Ok (mkParam (d_name d) (d_initial d) true (d_valmin d) (d_valmax d) (d_initial d))
  else match d_valmin d, d_valmax d with
       | Some lo, Some hi =>
           if (lo <=? d_initial d) && (d_initial d <=? hi)
           then Ok (mkParam (d_name d) (d_initial d) false (Some lo) (Some hi) (d_initial d))
           else Err ValueError
       | _, _ => Err TypeError
       end.
Proof. exact param_new_spec. Qed.
Print Assumptions C04_param_new.

(* make_params_floating / make_floating for every form of the request entry (None, scalar, triple with
   any of its members None): given settings are used — also when they are 0 —, missing ones inherited *)
Theorem C04_make_floating_forms : forall p e,
  let '(i, lo, hi) := parse_fentry e in
  (i, lo, hi) = match e with
                | FNone => (None, None, None)
                | FInit v => (Some v, None, None)
                | FTriple i lo hi => (i, lo, hi)
                end
  /\ make_floating p i lo hi =
     match opt_or lo (p_valmin p), opt_or hi (p_valmax p) with
     | Some lo', Some hi' =>
         let i' := match e with
                   | FNone | FTriple None _ _ => p_value p
                   | FInit v | FTriple (Some v) _ _ => v
                   end in
         if (lo' <=? i') && (i' <=? hi')
         then Ok (mkParam (p_name p) i' false (Some lo') (Some hi') i')
         else Err ValueError
     | _, _ => Err ValueError
     end.
Proof. exact float_entry_spec. Qed.
Print Assumptions C04_make_floating_forms.

Theorem C04_make_fixed_forms : forall p i,
  make_fixed p i =
  match i with
  | None => mkParam (p_name p) (p_value p) true (p_valmin p) (p_valmax p) (p_value p)
  | Some v =>
      match p_valmin p, p_valmax p with
      | Some lo, Some hi =>
          if (lo <=? v) && (v <=? hi) then mkParam (p_name p) v true (Some lo) (Some hi) v
          else mkParam (p_name p) v true None None v
      | lo, hi => mkParam (p_name p) v true lo hi v
      end
  end.
Proof. exact make_fixed_spec. Qed.
Print Assumptions C04_make_fixed_forms.

(* T4 (composition): for EVERY operation sequence, the views of the resulting world of objects are the
   brute-force readings of the world the specification interpreter computes from the same sequence
   (no invariant left as a premise: Consistent / matrix_ok / aliases_ok are discharged by T1, the
   abstraction by T0) *)
Theorem C04_e2e_views_set : forall src ops r t,
  a_get (s_run (s_init src) ops) r = Ok t ->
  exists s, get_set (run (init src) ops) r = Ok s /\
  let T := table_of t in
  ps_mask s = s_mask T
  /\ floating_mask s = map negb (s_mask T)
  /\ ps_fxn s = s_fixed_names T
  /\ ps_fln s = s_floating_names T
  /\ params_name_list s = s_fixed_names T ++ s_floating_names T
  /\ ps_fxv s = s_fixed_values T
  /\ fixed_params_idxs s = s_fixed_idxs T
  /\ floating_params_idxs s = s_floating_idxs T
  /\ n_params s = zlen T
  /\ n_fixed_params s = zlen (s_fixed_names T)
  /\ n_floating_params s = zlen (s_floating_names T)
  /\ floating_param_initials (w_store (run (init src) ops)) s = Ok (s_floating_initials T)
  /\ floating_param_bounds (w_store (run (init src) ops)) s = Ok (s_floating_bounds T)
  /\ (forall n, get_fixed_pidx s n = match s_fixed_pidx T n with Some i => Ok i | None => Err KeyError end)
  /\ (forall n, get_floating_pidx s n = match s_floating_pidx T n with Some i => Ok i | None => Err KeyError end).
Proof. exact e2e_views_set. Qed.
Print Assumptions C04_e2e_views_set.

Theorem C04_e2e_params_dict : forall src ops r t vec vals,
  a_get (s_run (s_init src) ops) r = Ok t -> s_values (table_of t) vec = Some vals ->
  exists s, get_set (run (init src) ops) r = Ok s
    /\ forall n, dict_get (get_params_dict s vec) n = s_lookup (s_params_map (table_of t) vals) n.
Proof. exact e2e_params_dict. Qed.
Print Assumptions C04_e2e_params_dict.

Theorem C04_e2e_model_params_dict : forall src ops vec vals midx arow,
  s_values (table_of (a_g (s_run (s_init src) ops))) vec = Some vals ->
  nth_error (a_names (s_run (s_init src) ops)) midx = Some arow ->
  exists d, create_model_params_dict (w_map (run (init src) ops)) vec (Z.of_nat midx) = Ok d
    /\ forall x, dict_get d x = s_lookup (s_local arow vals) x.
Proof. exact e2e_model_params_dict. Qed.
Print Assumptions C04_e2e_model_params_dict.

Theorem C04_e2e_src_params_recarray : forall src ops vec vals sources,
  s_values (table_of (a_g (s_run (s_init src) ops))) vec = Some vals ->
  (forall arr, sources = Some (inl arr) -> forall z, In z arr -> 0 <= z < Z.of_nat (length (a_src (s_run (s_init src) ops)))) ->
  exists uniq rows,
    create_src_params_recarray (w_map (run (init src) ops)) vec sources = Ok (uniq, rows)
    /\ strictly_sorted uniq
    /\ (forall u, In u uniq <->
          exists i arow, nth_error (a_src (s_run (s_init src) ops)) i = Some true
                         /\ nth_error (a_names (s_run (s_init src) ops)) i = Some arow /\ In u (somes arow))
    /\ map fst rows = match sources with
                      | None => s_positions 0 (a_src (s_run (s_init src) ops))
                      | Some (inl arr) => arr
                      | Some (inr srcs) => filter (fun smidx => mem smidx srcs) (s_positions 0 (a_src (s_run (s_init src) ops)))
                      end
    /\ (forall smidx cells, In (smidx, cells) rows ->
          exists i arow, smidx = Z.of_nat i /\ nth_error (a_names (s_run (s_init src) ops)) i = Some arow
            /\ cells = map (s_cell arow vals (s_gpidxs 0 0 (table_of (a_g (s_run (s_init src) ops))))) uniq).
Proof. exact e2e_src_params_recarray. Qed.
Print Assumptions C04_e2e_src_params_recarray.

(* the remaining premise of T2b-T2e, "one vector entry per floating parameter" (s_values = Some), is
   needed: the record array refuses any other vector, the other views do not check it *)
Theorem C04_recarray_rejects_wrong_length : forall m vec sources,
  zlen vec <> n_floating_params (mp_gps m) -> create_src_params_recarray m vec sources = Err ValueError.
Proof. exact recarray_rejects_wrong_length. Qed.
Print Assumptions C04_recarray_rejects_wrong_length.

(* T3: rejections.  Value outside a floating parameter's bounds / change of a fixed value *)
Theorem C04_rejects_value : forall p v,
  param_ok p ->
  (if p_isfixed p then v <> p_initial p
   else exists lo hi, p_valmin p = Some lo /\ p_valmax p = Some hi /\ (v < lo \/ v > hi)) ->
  set_value p v = Err ValueError.
Proof. exact set_value_rejects. Qed.
Print Assumptions C04_rejects_value.

Theorem C04_accepts_value : forall p v,
  param_ok p ->
  (if p_isfixed p then v = p_initial p
   else exists lo hi, p_valmin p = Some lo /\ p_valmax p = Some hi /\ lo <= v <= hi) ->
  set_value p v = Ok (with_value p v).
Proof. exact set_value_accepts. Qed.
Print Assumptions C04_accepts_value.

(* duplicate local name for a model the parameter is mapped to *)
Theorem C04_rejects_duplicate_alias : forall m l p models al midx arow a,
  let n := length (mp_src m) in
  let names := match al with ANone => repeat (p_name p) n | AStr x => repeat x n | ASeq ls => ls end in
  let applied := match models with Some ms => ms | None => arange n end in
  length (mp_names m) = n -> (midx < n)%nat ->
  mem (Z.of_nat midx) applied = true ->
  nth_error (mp_names m) midx = Some arow -> nth_error names midx = Some a -> In a (somes arow) ->
  (forall j, (j < midx)%nat -> mem (Z.of_nat j) applied = true ->
     exists r x, nth_error (mp_names m) j = Some r /\ nth_error names j = Some x /\ ~ In x (somes r)) ->
  map_param m l p models al = Err KeyError.
Proof. exact map_param_rejects_duplicate. Qed.
Print Assumptions C04_rejects_duplicate_alias.

(* whatever is rejected leaves store, parameter sets and alias matrix unchanged *)
Theorem C04_rejected_unchanged : forall w o e,
  WorldOk w -> snd (step w o) = Some e ->
  w_store (fst (step w o)) = w_store w /\ all_sets (fst (step w o)) = all_sets w
  /\ mp_names (w_map (fst (step w o))) = mp_names (w_map w).
Proof. exact step_rejected_unchanged. Qed.
Print Assumptions C04_rejected_unchanged.

(* what fixing / floating does to the table, and that an invalid request is rejected as a whole *)
Theorem C04_make_params_fixed : forall st s ps req,
  Consistent st s ps -> NoDup (ps_params s) ->
  match make_params_fixed st s req with
  | (st', s', None) =>
      Consistent st' s' (map (fix_one req) ps)
      /\ (forall p, In p ps -> assoc req (p_name p) <> None -> p_isfixed p = false)
      /\ ps_params s' = ps_params s /\ agree_outside (ps_params s) st st' /\ length st' = length st
  | (st', s', Some e) =>
      e = ValueError /\ st' = st /\ s' = s
      /\ exists p, In p ps /\ assoc req (p_name p) <> None /\ p_isfixed p = true
  end.
Proof. exact make_params_fixed_ok. Qed.
Print Assumptions C04_make_params_fixed.

Theorem C04_make_params_floating : forall st s ps req,
  Consistent st s ps -> NoDup (ps_params s) ->
  match make_params_floating st s req with
  | (st', s', None) =>
      Consistent st' s' (map (float_one req) ps)
      /\ (forall p, In p ps -> float_req_ok req p)
      /\ ps_params s' = ps_params s /\ agree_outside (ps_params s) st st' /\ length st' = length st
  | (st', s', Some e) =>
      e = ValueError /\ st' = st /\ s' = s /\ exists p, In p ps /\ ~ float_req_ok req p
  end.
Proof. exact make_params_floating_ok. Qed.
Print Assumptions C04_make_params_floating.

(* union / copy build their result from fresh Parameter objects only *)
Theorem C04_union : forall st srcs pss,
  Forall2 (readable st) srcs pss ->
  match srcs with
  | [] => union st srcs = Err ValueError
  | _ :: _ =>
      NoDup (map p_name (hd [] pss)) ->
      exists new s',
        union st srcs = Ok (st ++ new, s')
        /\ ps_params s' = seq (length st) (length new)
        /\ Consistent (st ++ new) s' new
        /\ new = fold_left add_new (tl pss) (hd [] pss)
  end.
Proof. exact union_ok. Qed.
Print Assumptions C04_union.

Theorem C04_copy : forall st s ps,
  Consistent st s ps ->
  exists s', copy_set st s = Ok (st ++ ps, s')
    /\ ps_params s' = seq (length st) (length ps)
    /\ Consistent (st ++ ps) s' ps.
Proof. exact copy_set_ok. Qed.
Print Assumptions C04_copy.

(* ================= the rest of the public API (xop): T1 does NOT extend to it =================
   OPEN finding C04-shared-parameter: an existing Parameter object handed to a second owner
   (add_param(p), ParameterSet(params=...), map_param(p)), then fixed through the first owner: the second
   owner's mask and name lists disagree with its own Parameter object *)
Theorem C04_shared_refuted :
  exists src ops s ps,
    let w := xrun (init src) ops in
    In s (all_sets w) /\ mapM (rd (w_store w)) (ps_params s) = Ok ps
    /\ ps_mask s <> map p_isfixed ps /\ ps_fln s <> s_floating_names (table_of ps).
Proof. exact shared_refuted. Qed.
Print Assumptions C04_shared_refuted.

(* partial: histories without these operations are the `op` histories of T0-T4 ... *)
Theorem C04_xrun_base : forall ops w, xrun w (map XBase ops) = run w ops.
Proof. exact xrun_base. Qed.
Print Assumptions C04_xrun_base.

(* ... and handing out an existing object leaves every set consistent in itself (the damage is done by the
   next edit through one of the owners) *)
Theorem C04_shared_partial : forall w n front r k,
  Forall (fun s => exists ps, Consistent (w_store w) s ps) (all_sets w) ->
  Forall (fun s => exists ps, Consistent (w_store (fst (xstep w (XAddShared n front r k)))) s ps)
         (all_sets (fst (xstep w (XAddShared n front r k)))).
Proof. exact add_shared_keeps_sets_consistent. Qed.
Print Assumptions C04_shared_partial.

(* documented two-step protocol (not a finding; change_fixed_value is outside the property's alphabet):
   change_fixed_value alone leaves the fixed-value cache (and every value dictionary built from it) with the
   old value ... *)
Theorem C04_change_fixed_needs_cache_update :
  exists src ops ps,
    let w := xrun (init src) ops in
    let g := mp_gps (w_map w) in
    mapM (rd (w_store w)) (ps_params g) = Ok ps
    /\ ps_fxv g <> s_fixed_values (table_of ps)
    /\ dict_get (get_params_dict g []) 0 = Some 5 /\ map p_value ps = [9].
Proof. exact change_fixed_refuted. Qed.
Print Assumptions C04_change_fixed_needs_cache_update.

(* ... until update_fixed_param_value_cache is called on the set: then it is consistent again *)
Theorem C04_update_cache_restores : forall st s ps j l p v,
  Consistent st s ps -> NoDup (ps_params s) ->
  nth_error (ps_params s) j = Some l -> nth_error ps j = Some p -> p_isfixed p = true ->
  let p' := mkParam (p_name p) v true (p_valmin p) (p_valmax p) v in
  change_fixed_value p v = Ok p'
  /\ exists fps f,
       fixed_params (wr st l p') s = Ok fps
       /\ upd_cache (ps_fxv s) 0 fps = (f, None)
       /\ Consistent (wr st l p') (with_fxv s f) (set_nth ps j p').
Proof. exact update_cache_restores. Qed.
Print Assumptions C04_update_cache_restores.

(* ---- non-vacuity: a concrete history (non-source model first; fixed parameter declared ahead of
   floating ones; alias; fix, float, union, copy, rejected requests) reaches a world whose global set
   has a non-trivial table; the hypotheses of the view theorems hold there and the views compute. *)
Example C04_nonvacuous :
  let w := run (init [false; true; true]) ex_ops in
  let g := mp_gps (w_map w) in
  map snd (trace (init [false; true; true]) ex_ops)
    = [None; None; None; Some ValueError; Some KeyError; None; None; None; None; None; Some ValueError]
  /\ (exists ps, mapM (rd (w_store w)) (ps_params g) = Ok ps
        /\ table_of ps = [mkRow 0 (KFloat 1 (Some 0) (Some 2)); mkRow 1 (KFixed 7); mkRow 2 (KFloat 2 (Some 0) (Some 3))]
        /\ s_values (table_of ps) [100; 101] = Some [100; 7; 101])
  /\ mp_names (w_map w) = [[Some 0; None; None]; [Some 0; Some 4; None]; [Some 0; Some 4; Some 7]]
  /\ create_model_params_dict (w_map w) [100; 101] 2 = Ok [(0, 100); (7, 101); (4, 7)]
  /\ get_params_dict g [100; 101] = [(0, 100); (2, 101); (1, 7)]
  /\ create_src_params_recarray (w_map w) [100; 101] None
     = Ok ([0; 4; 7], [(1, [(Some 100, 1); (Some 7, -2); (None, 0)]); (2, [(Some 100, 1); (Some 7, -2); (Some 101, 2)])])
  /\ length (w_sets w) = 2%nat
  /\ NoDup (concat (map ps_params (all_sets w))).
Proof.
  cbv zeta. split; [vm_compute; reflexivity|]. split.
  - eexists. split; [vm_compute; reflexivity|]. split; vm_compute; reflexivity.
  - repeat split; try (vm_compute; reflexivity).
    exact (proj1 (proj2 (reachable_ok [false; true; true] ex_ops))).
Qed.

(* the specification interpreter on the same history: same exceptions, and the abstract world computed
   from values only is the abstraction of the world of objects; zero is a value like any other *)
Example C04_refinement_nonvacuous :
  let a := s_run (s_init [false; true; true]) ex_ops in
  map snd (s_trace (s_init [false; true; true]) ex_ops)
    = [None; None; None; Some ValueError; Some KeyError; None; None; None; None; None; Some ValueError]
  /\ map p_name (a_g a) = [0; 1; 2] /\ map p_isfixed (a_g a) = [false; true; false]
  /\ map (map p_isfixed) (a_sets a) = [[false; true; true]; [false; true; false]]
  /\ a = abs (run (init [false; true; true]) ex_ops)
  /\ make_floating (mkParam 0 5 true None None 5) (Some 0) (Some (-1)) (Some 6)
     = Ok (mkParam 0 0 false (Some (-1)) (Some 6) 0)
  /\ make_floating (mkParam 0 5 true (Some 0) (Some 6) 5) None None None
     = Ok (mkParam 0 5 false (Some 0) (Some 6) 5).
Proof. cbv zeta. repeat split; vm_compute; reflexivity. Qed.

(* guards that are needed (witnesses): a too short vector makes get_params_dict silently drop a floating
   parameter, a too long one makes create_model_params_dict raise, an int32 source array with an index
   outside the models makes create_src_params_recarray raise *)
Example C04_guards_needed :
  let w := run (init [false; true; true]) ex_ops in
  let g := mp_gps (w_map w) in
  dict_get (get_params_dict g [100]) 2 = None
  /\ dict_get (get_params_dict g [100; 101]) 2 = Some 101
  /\ create_model_params_dict (w_map w) [100; 101; 102] 2 = Err IndexError
  /\ create_src_params_recarray (w_map w) [100; 101] (Some (inl [1; 7])) = Err IndexError
  /\ create_src_params_recarray (w_map w) [100] None = Err ValueError.
Proof. cbv zeta. repeat split; vm_compute; reflexivity. Qed.

(* ================= extension: get_floating_params_dict / create_global_floating_params_dict =================
   the dictionary of the floating parameters only: floating names in declaration order, zipped with the
   vector (zip truncates: a short vector drops the last names, surplus entries are ignored) *)
Theorem C04_floating_params_dict : forall st s ps vec,
  Consistent st s ps ->
  forall n, dict_get (get_floating_params_dict s vec) n = s_lookup (combine (s_floating_names (table_of ps)) vec) n.
Proof. exact floating_params_dict_ok. Qed.
Print Assumptions C04_floating_params_dict.

(* end to end: for every operation sequence the mapper's dictionary is the reading of the world the
   specification interpreter computes *)
Theorem C04_e2e_global_floating_params_dict : forall src ops vec,
  forall n, dict_get (create_global_floating_params_dict (w_map (run (init src) ops)) vec) n
            = s_lookup (combine (s_floating_names (table_of (a_g (s_run (s_init src) ops)))) vec) n.
Proof. exact global_floating_params_dict_reachable. Qed.
Print Assumptions C04_e2e_global_floating_params_dict.

Example C04_floating_params_dict_nonvacuous :
  let m := w_map (run (init [false; true; true]) ex_ops) in
  s_floating_names (table_of (a_g (s_run (s_init [false; true; true]) ex_ops))) = [0; 2]
  /\ create_global_floating_params_dict m [100; 101] = [(0, 100); (2, 101)]
  /\ create_global_floating_params_dict m [100] = [(0, 100)]
  /\ create_global_floating_params_dict m [100; 101; 102] = [(0, 100); (2, 101)].
Proof. cbv zeta. repeat split; vm_compute; reflexivity. Qed.
