(* C09 — Parallel map returns all results in input order, or fails loudly.
   Statements only; every proof is `exact <lemma>`.

   Model (M_Parallel.v): `parallelize f args ncpu sched` is the call
   skyllh.core.multiproc.parallelize(func, args_list, ncpu) run under the
   schedule `sched`: a list of atomic actions of the master's gather loop
   (one read of shared state per step) and of the worker processes (put a log
   record / the result record / the end marker, end regularly, die with any
   exit code at any point).  `None` = the schedule ended before the call
   returned; `Some (Done r)` = it returned r; `Some (Fail e)` = it raised. *)
From Coq Require Import ZArith List Bool Arith Lia Permutation.
From Sky Require Import Result G_parallel M_Parallel P_Parallel P_ParallelLoud P_ParallelTop P_ParallelPerm P_ParallelFair M_ParallelNcpu P_ParallelNcpu.
Import ListNotations.
Local Open Scope nat_scope.

(* numpy.array_split: the chunks concatenate to the input, there are k of
   them, the first (n mod k) have n/k + 1 elements and the others n/k *)
Theorem C09_array_split : forall (A : Type) (l : list A) (k : nat),
  1 <= k ->
  concat (array_split l k) = l /\ length (array_split l k) = k /\
  map (@length A) (array_split l k)
  = repeat (S (length l / k)) (length l mod k) ++ repeat (length l / k) (k - length l mod k).
Proof. exact @array_split_spec. Qed.
Print Assumptions C09_array_split.

(* ORDER / NEVER PARTIAL.  For every function (tasks may raise), argument list,
   ncpu and EVERY schedule - every arrival order of the result records, every
   interleaving of the master's polls with the workers, workers dying at any
   point: a list that is returned is the list of all results in input order. *)
Theorem C09_order : forall (A R : Type) (f : A -> res R) (args : list A) (ncpu : Z)
    (sched : list action) (r : list R),
  parallelize f args ncpu sched = Some (Done r) -> mapM f args = Ok r.
Proof. exact @parallelize_safe. Qed.
Print Assumptions C09_order.

Theorem C09_order_map : forall (A R : Type) (g : A -> R) (args : list A) (ncpu : Z)
    (sched : list action) (r : list R),
  parallelize (fun a => Ok (g a)) args ncpu sched = Some (Done r) ->
  r = map g args /\ length r = length args.
Proof. exact @parallelize_safe_map. Qed.
Print Assumptions C09_order_map.

(* the same at the level of the gather loop, for arbitrary worker results
   (wres p = Err: a task of worker p raises): a returned list is the master's
   own results followed by one result list per worker in pid order *)
Theorem C09_gather_order : forall (R : Type) (np : nat) (wres : nat -> res (list R))
    (r0 : list R) (sched : list action) (r : list R),
  exec np wres sched (init r0) = Fin (Done r) ->
  exists rs, Forall2 (fun p x => wres p = Ok x) (seq 1 np) rs /\ r = r0 ++ concat rs.
Proof. exact @gather_safe. Qed.
Print Assumptions C09_gather_order.

(* the re-assembly alone, as a statement about arrival orders: for EVERY
   permutation of the workers' result records, storing them into
   pid_result_list_map as they arrive and concatenating by pid gives the
   master's results followed by the workers' in pid order *)
Theorem C09_order_perm : forall (R : Type) (np : nat) (xs : list (list R)) (r0 : list R)
    (arr : list (nat * list R)),
  length xs = np ->
  Permutation arr (combine (seq 1 np) xs) ->
  assemble (fold_left (fun d e => dset (fst e) (snd e) d) arr [(0, r0)]) = Ok (r0 ++ concat xs).
Proof. exact @assemble_any_arrival. Qed.
Print Assumptions C09_order_perm.

(* LOUD.  Whatever happened before (schedule s1: any deliveries, any deaths,
   any polls), once every child process has ended - regularly or not - the call
   is over after at most poll_bound further steps of the master, whatever else
   is scheduled in between; it then has returned the complete ordered list or
   raised.  poll_bound = 8 * (records in the result queue + items in the log
   queues) + 7.  PARTIAL: guard "no result record is stuck half-way in the
   result queue" (no_partial), see C09_loud_refuted. *)
Theorem C09_loud_gather_partial : forall (R : Type) (np : nat) (wres : nat -> res (list R))
    (r0 : list R) (s1 s2 : list action) (w : world) (m : mst),
  exec np wres s1 (init r0) = Run w m ->
  (forall p, 1 <= p <= np -> exitc (wks w p) <> None) ->
  (forall p, 1 <= p <= np -> pc (wks w p) <> WPutting) ->
  8 * (length (rq w) + list_sum (map (fun p => length (lq (wks w p))) (seq 1 np))) + 7
    <= length (filter is_master s2) ->
  exists o, exec np wres (s1 ++ s2) (init r0) = Fin o /\
    (forall r, o = Done r ->
       exists rs, Forall2 (fun p x => wres p = Ok x) (seq 1 np) rs /\ r = r0 ++ concat rs).
Proof. exact @gather_loud. Qed.
Print Assumptions C09_loud_gather_partial.

Theorem C09_loud_partial : forall (A R : Type) (f : A -> res R) (args : list A) (ncpu : Z)
    (s1 s2 : list action) (r0 : list R) (w : world) (m : mst),
  args <> [] -> (1 < ncpu)%Z ->
  mapM f (chunk args (Z.to_nat ncpu) 0) = Ok r0 ->
  exec (Z.to_nat ncpu - 1) (fun pid => mapM f (chunk args (Z.to_nat ncpu) pid)) s1 (init r0)
    = Run w m ->
  quiescent (Z.to_nat ncpu - 1) w ->
  no_partial (Z.to_nat ncpu - 1) w ->
  poll_bound (Z.to_nat ncpu - 1) w <= n_master s2 ->
  exists o, parallelize f args ncpu (s1 ++ s2) = Some o /\
            (forall r, o = Done r -> mapM f args = Ok r).
Proof. exact @parallelize_loud. Qed.
Print Assumptions C09_loud_partial.

(* ... and the guard is needed (OPEN FINDING C09-hang-killed-while-sending-result): a worker that is killed
   while its result record is only partly in the pipe (records larger than the pipe capacity) has ended, but the
   master stays blocked inside rqueue.get(block=False) for every number of further steps *)
Theorem C09_loud_refuted : forall n,
  exists w m,
    exec 1 wres2 (sched_midput ++ repeat Master n) (init [0]) = Run w m /\
    exitc (wks w 1) = Some (-9)%Z /\ pc (wks w 1) = WPutting.
Proof. exact midput_refuted. Qed.
Print Assumptions C09_loud_refuted.

(* a task of the master's own chunk raises: the call raises, under every schedule *)
Theorem C09_master_raises : forall (A R : Type) (f : A -> res R) (args : list A) (ncpu : Z)
    (sched : list action) (e : err),
  args <> [] -> (1 < ncpu)%Z ->
  mapM f (chunk args (Z.to_nat ncpu) 0) = Err e ->
  parallelize f args ncpu sched = Some (Fail TaskRaised).
Proof. exact @parallelize_master_raises. Qed.
Print Assumptions C09_master_raises.

Theorem C09_single : forall (A R : Type) (f : A -> res R) (args : list A) (sched : list action),
  args <> [] ->
  parallelize f args 1 sched
  = Some (match mapM f args with Ok r => Done r | Err _ => Fail TaskRaised end).
Proof. exact @parallelize_single. Qed.
Print Assumptions C09_single.

(* COMPLETE.  No task raises and no process dies: whenever the call is over it
   has RETURNED (never an error), and the list is map f args - for every
   argument list (also the empty one), every ncpu >= 1, also ncpu > number of
   tasks, and every completion order. *)
Theorem C09_complete : forall (A R : Type) (f : A -> res R) (args : list A) (ncpu : Z)
    (sched : list action) (o : outcome R),
  (1 <= ncpu)%Z -> (forall a, exists b, f a = Ok b) ->
  forallb (fun a => negb (is_die a)) sched = true ->
  parallelize f args ncpu sched = Some o ->
  exists r, o = Done r /\ mapM f args = Ok r.
Proof. exact @parallelize_complete. Qed.
Print Assumptions C09_complete.

(* zero tasks: the empty list, for every ncpu and before anything is scheduled *)
Theorem C09_empty : forall (A R : Type) (f : A -> res R) (ncpu : Z) (sched : list action),
  parallelize f [] ncpu sched = Some (Done []).
Proof. exact @parallelize_empty. Qed.
Print Assumptions C09_empty.

(* regression witness: the code before fix ac3e25b (progress bar created first)
   raised ValueError for the empty argument list *)
Theorem C09_legacy_empty_raised :
  exists (f : Z -> res Z) (ncpu : Z) (sched : list action),
    (forall a, exists b, f a = Ok b) /\ fault_free sched /\ (1 <= ncpu)%Z /\
    mapM f [] = Ok [] /\
    par_with_legacy_empty 0 ncpu (mapM f []) (fun k pid => mapM f (chunk [] k pid)) sched
      = Some (Fail EmptyArgs).
Proof. exact legacy_empty_raised. Qed.
Print Assumptions C09_legacy_empty_raised.

(* DETERMINISTIC for a given seed (state s0 of the RandomStateService) and
   worker count: two calls that return, under any two schedules, return the
   same list.  The random number generator is abstract (St, draw, mk). *)
Theorem C09_deterministic : forall (A R St : Type) (draw : St -> Z * St) (mk : Z -> St)
    (g : St -> A -> res (R * St)) (s0 : St) (args : list A) (ncpu : Z)
    (sched1 sched2 : list action) (r1 r2 : list R),
  parallelize_rss St draw mk g s0 args ncpu sched1 = Some (Done r1) ->
  parallelize_rss St draw mk g s0 args ncpu sched2 = Some (Done r2) ->
  r1 = r2.
Proof. exact @parallelize_rss_deterministic. Qed.
Print Assumptions C09_deterministic.

(* The gather loop BEFORE the fix 4581a4c (mstep_legacy) never ends on two
   schedules in which every child has ended; the loop after the fix raises. *)
Theorem C09_legacy_hang_a : forall n,
  exists w m, exec_legacy 2 wres2 (sched_a ++ repeat Master n) (init [0]) = Run w m /\
              quiescent 2 w.
Proof. exact legacy_hang_a. Qed.
Print Assumptions C09_legacy_hang_a.

Theorem C09_legacy_hang_b : forall n,
  exists w m, exec_legacy 2 wres2 (sched_b ++ repeat Master n) (init [0]) = Run w m /\
              exitc (wks w 1) = Some 1%Z /\ exitc (wks w 2) = Some 0%Z.
Proof. exact legacy_hang_b. Qed.
Print Assumptions C09_legacy_hang_b.

Theorem C09_fixed_on_a :
  exec 2 wres2 (sched_a ++ [Master; Master; Master]) (init [0]) = Fin (Fail ChildDied).
Proof. exact fixed_on_a. Qed.
Print Assumptions C09_fixed_on_a.

Theorem C09_fixed_on_b :
  exec 2 wres2 (sched_b ++ [Master; Master]) (init [0]) = Fin (Fail LogIncomplete).
Proof. exact fixed_on_b. Qed.
Print Assumptions C09_fixed_on_b.

(* FAIR SCHEDULES.  The hypothesis "every child has ended" of C09_loud follows
   from a condition on the schedule alone: every child process either is run to
   the end of its program (result record, end marker, regular end - possible
   when none of its tasks raises), reaches its raising task (ARaise: the
   exception ends worker_wrapper and the process with exit code 1 - a modelled
   transition, fix cdc2ef8) or dies / is killed at some point (signal, hard
   exit, an external watchdog).  PARTIAL: same guard as C09_loud_partial.  After such a schedule and poll_bound master
   steps the call is over, with the complete list or an error. *)
Theorem C09_fair_loud_gather_partial : forall (R : Type) (np : nat) (wres : nat -> res (list R))
    (r0 : list R) (s1 s2 : list action) (w : world) (m : mst),
  (forall p, 1 <= p <= np ->
     ((exists r, wres p = Ok r) /\
      subseq [Worker p APutResult; Worker p APutEnd; Worker p AExit0] s1) \/
     ((exists e, wres p = Err e) /\ In (Worker p ARaise) s1) \/
     (exists c, In (Worker p (ADie c)) s1)) ->
  exec np wres s1 (init r0) = Run w m ->
  (forall p, 1 <= p <= np -> pc (wks w p) <> WPutting) ->
  poll_bound np w <= n_master s2 ->
  exists o, exec np wres (s1 ++ s2) (init r0) = Fin o /\
    (forall r, o = Done r ->
       exists rs, Forall2 (fun p x => wres p = Ok x) (seq 1 np) rs /\ r = r0 ++ concat rs).
Proof. exact @fair_loud. Qed.
Print Assumptions C09_fair_loud_gather_partial.

Theorem C09_fair_loud_partial : forall (A R : Type) (f : A -> res R) (args : list A) (ncpu : Z)
    (s1 s2 : list action) (r0 : list R) (w : world) (m : mst),
  args <> [] -> (1 < ncpu)%Z ->
  mapM f (chunk args (Z.to_nat ncpu) 0) = Ok r0 ->
  exec (Z.to_nat ncpu - 1) (fun pid => mapM f (chunk args (Z.to_nat ncpu) pid)) s1 (init r0)
    = Run w m ->
  fair (Z.to_nat ncpu - 1) (fun pid => mapM f (chunk args (Z.to_nat ncpu) pid)) s1 ->
  no_partial (Z.to_nat ncpu - 1) w ->
  poll_bound (Z.to_nat ncpu - 1) w <= n_master s2 ->
  exists o, parallelize f args ncpu (s1 ++ s2) = Some o /\
            (forall r, o = Done r -> mapM f args = Ok r).
Proof. exact @parallelize_fair_loud. Qed.
Print Assumptions C09_fair_loud_partial.

(* a fair schedule leaves no child running *)
Theorem C09_fair_quiescent : forall (R : Type) (np : nat) (wres : nat -> res (list R))
    (r0 : list R) (sched : list action) (w : world) (m : mst),
  fair np wres sched -> exec np wres sched (init r0) = Run w m ->
  forall p, 1 <= p <= np -> exitc (wks w p) <> None.
Proof. exact @fair_quiescent. Qed.
Print Assumptions C09_fair_quiescent.

(* WORKER SIDE.  A worker one of whose tasks raised never has a result record:
   not in the result queue, not in pid_result_list_map, in no reachable state. *)
Theorem C09_raising_worker_no_result : forall (R : Type) (np : nat) (wres : nat -> res (list R))
    (r0 : list R) (sched : list action) (w : world) (m : mst) (p : nat) (e : err),
  exec np wres sched (init r0) = Run w m -> 1 <= p -> wres p = Err e ->
  ~ In p (map fst (rq w)) /\ ~ In p (map fst (pmap m)).
Proof. exact @raising_worker_no_result. Qed.
Print Assumptions C09_raising_worker_no_result.

(* STATEMENT ORDER of the code, as read by the translator from the current
   source: all_procs_ended before rqueue.get; exit codes before the all-ended
   test; pid_proc_ended before the log get; task loop and rqueue.put consecutive
   statements of worker_wrapper (not a `finally`); the worker does not wait for
   its status queue (fix 10bab65).  The model steps are instantiated with these
   facts (mstep = mstep_gen ..., wstep = wstep_gen ...). *)
Theorem C09_order_facts :
  par_ord_ended_before_get = true /\ par_ord_died_before_all_ended = true /\
  par_ord_ended_before_log_get = true /\ par_ord_tasks_before_result = true /\
  par_ord_status_nonblocking = true /\ par_ord_raise_log_nonblocking = true /\
  par_worker_shape = true /\ par_hook_shape = true /\
  par_n_queue_ctor = 3%Z /\ par_n_simple_queue_ctor = 0%Z /\ par_n_try = 3%Z.
Proof.
  exact (conj K_par_ord_ended_before_get (conj K_par_ord_died_before_all_ended
        (conj K_par_ord_ended_before_log_get (conj K_par_ord_tasks_before_result
        (conj K_par_ord_status_nonblocking (conj K_par_ord_raise_log_nonblocking
        (conj K_par_worker_shape (conj K_par_hook_shape K_par_queue_ctors)))))))).
Qed.
Print Assumptions C09_order_facts.

(* ... and each of them is needed.  all_procs_ended read AFTER the failed get:
   a fault-free run raises (the worker delivers and ends in between) *)
Theorem C09_read_order_refuted :
  fault_free sched_late_flag /\
  exec_gen 1 wres2 false true true true true true sched_late_flag (init [0]) = Fin (Fail MissingResult) /\
  exists r, exec 1 wres2 (sched_late_flag ++ repeat Master 8) (init [0]) = Fin (Done r).
Proof. exact late_flag_refuted. Qed.
Print Assumptions C09_read_order_refuted.

Theorem C09_log_read_order_refuted :
  fault_free sched_late_log_flag /\
  exec_gen 1 wres2 true true false true true true sched_late_log_flag (init [0]) = Fin (Fail LogIncomplete) /\
  exists r, exec 1 wres2 (sched_late_log_flag ++ repeat Master 8) (init [0]) = Fin (Done r).
Proof. exact late_log_flag_refuted. Qed.
Print Assumptions C09_log_read_order_refuted.

(* result record put in a `finally` block: a partial list is returned *)
Theorem C09_finally_refuted :
  exec_gen 1 wres_raise true true true false true true sched_finally (init [0]) = Fin (Done [0]) /\
  exec 1 wres_raise sched_finally (init [0]) = Fin (Fail ChildDied).
Proof. exact finally_refuted. Qed.
Print Assumptions C09_finally_refuted.

(* the worker waits for its status queue at its end (code before fix 10bab65,
   interactive session): after the complete worker program the master stays in
   proc.join() for ever; with the fix the call returns *)
Theorem C09_status_block_refuted : forall n,
  exists w m,
    exec_gen 1 wres2 true true true true false true (sched_status_block ++ repeat Master n) (init [0]) = Run w m /\
    ph m = Join /\ exitc (wks w 1) = None.
Proof. exact status_block_refuted. Qed.
Print Assumptions C09_status_block_refuted.

Theorem C09_status_fixed :
  exec 1 wres2 sched_status_block (init [0]) = Fin (Done [0; 1]).
Proof. exact status_fixed. Qed.
Print Assumptions C09_status_fixed.

(* the worker waits for its log records queue when a task raised (code before fix
   cdc2ef8): it never ends, its exit code stays None, the master polls for ever *)
Theorem C09_raise_logs_refuted : forall n,
  exists w m,
    exec_gen 1 wres_raise true true true true true false (sched_raise_logs ++ repeat Master n) (init [0]) = Run w m /\
    exitc (wks w 1) = None.
Proof. exact raise_logs_refuted. Qed.
Print Assumptions C09_raise_logs_refuted.

Theorem C09_raise_logs_fixed :
  exec 1 wres_raise (sched_raise_logs ++ repeat Master 3) (init [0]) = Fin (Fail ChildDied).
Proof. exact raise_logs_fixed. Qed.
Print Assumptions C09_raise_logs_fixed.

(* SEEDS.  The RandomStateService of worker p is seeded with the p-th number
   drawn from the given rss (ncpu - 1 draws, in pid order), the master goes on
   with the rss after these draws; parallelize makes exactly one kind of random
   request, to rss.random, and none to the global numpy generator. *)
Theorem C09_seed_child : forall (St : Type) (draw : St -> Z * St) (mk : Z -> St) (s0 : St)
    (ncpu : Z) (p : nat),
  (Z.of_nat (S p) < ncpu)%Z ->
  exists d, nth_error (fst (draws St draw (Z.to_nat (ncpu - 1)) s0)) p = Some d /\
            rss_of St draw mk s0 ncpu (S p) = mk d.
Proof. exact @rss_of_child. Qed.
Print Assumptions C09_seed_child.

Theorem C09_seed_master : forall (St : Type) (draw : St -> Z * St) (mk : Z -> St) (s0 : St) (ncpu : Z),
  rss_of St draw mk s0 ncpu 0 = snd (draws St draw (Z.to_nat (ncpu - 1)) s0).
Proof. exact @rss_of_master. Qed.
Print Assumptions C09_seed_master.

Theorem C09_rng_requests : par_n_global_rng_calls = 0%Z /\ par_n_rss_requests = 1%Z.
Proof. exact rng_requests. Qed.
Print Assumptions C09_rng_requests.

(* RandomStateService.__init__ / reseed hand the (cast) seed to numpy unconditionally: statement skeletons with
   right-hand sides, read from skyllh/core/random.py (a seed of 0 is a seed; `mk : Z -> St` is total) *)
Theorem C09_rss_seeding_shape : par_rss_init_shape = true /\ par_rss_reseed_shape = true.
Proof. exact K_par_rss_shapes. Qed.
Print Assumptions C09_rss_seeding_shape.

(* ---- non-vacuity ---- *)

(* 7 tasks, 3 processes, worker 2 delivers before worker 1, polls interleaved *)
Example C09_ex_out_of_order :
  parallelize (fun x => Ok (x * x)%Z) [1; 2; 3; 4; 5; 6; 7]%Z 3
    ([Master; Master; Worker 2 (APutLog 5); Worker 2 APutResult; Master; Worker 1 (APutLog 3);
      Worker 2 APutEnd; Master; Master; Worker 1 APutResult; Master; Worker 2 AExit0;
      Worker 1 APutEnd; Worker 1 AExit0] ++ repeat Master 20)
  = Some (Done [1; 4; 9; 16; 25; 36; 49]%Z).
Proof. vm_compute. reflexivity. Qed.

(* more processes than tasks *)
Example C09_ex_more_cpus :
  parallelize (fun x => Ok (x + 1)%Z) [10; 20]%Z 4
    ([Worker 3 APutResult; Worker 3 APutEnd; Worker 3 AExit0; Worker 1 APutResult;
      Worker 2 APutResult; Worker 2 APutEnd; Worker 1 APutEnd; Worker 1 AExit0; Worker 2 AExit0]
     ++ repeat Master 40)
  = Some (Done [11; 21]%Z).
Proof. vm_compute. reflexivity. Qed.

(* the hypotheses of C09_loud are met by a run in which worker 1 died *)
Example C09_ex_loud_hyp :
  exists w m,
    exec 2 (fun pid => mapM (fun x => Ok x) (chunk [1; 2; 3]%Z 3 pid))
         [Worker 2 APutResult; Worker 1 (ADie (-9)%Z); Master; Worker 2 APutEnd; Worker 2 AExit0]
         (init [1%Z]) = Run w m /\
    quiescent 2 w /\ no_partial 2 w /\ poll_bound 2 w = 23.
Proof.
  eexists; eexists. split; [vm_compute; reflexivity|]. split; [|split; [|vm_compute; reflexivity]].
  - intros p Hp. assert (Hc : p = 1 \/ p = 2) by lia. destruct Hc as [->| ->]; vm_compute; discriminate.
  - intros p Hp. assert (Hc : p = 1 \/ p = 2) by lia. destruct Hc as [->| ->]; vm_compute; discriminate.
Qed.

Example C09_ex_died :
  parallelize (fun x => Ok x) [1; 2; 3]%Z 3
    ([Worker 2 APutResult; Worker 1 (ADie (-9)%Z); Master; Worker 2 APutEnd; Worker 2 AExit0]
     ++ repeat Master 23)
  = Some (Fail ChildDied).
Proof. vm_compute. reflexivity. Qed.

(* a fair schedule: worker 1 is killed by a watchdog, worker 2 runs its program *)
Example C09_ex_fair :
  fair 2 (fun pid => mapM (fun x => Ok x) (chunk [1; 2; 3]%Z 3 pid))
       [Worker 2 APutResult; Master; Worker 1 (ADie (-9)%Z); Worker 2 APutEnd; Master; Worker 2 AExit0].
Proof.
  intros p Hp. assert (Hc : p = 1 \/ p = 2) by lia. destruct Hc as [->| ->].
  - right. right. exists (-9)%Z. cbn. auto.
  - left. split; [eexists; vm_compute; reflexivity|].
    apply sub_take, sub_skip, sub_skip, sub_take, sub_skip, sub_take, sub_nil.
Qed.

(* a fair schedule with a raising worker (worker 1: its task raises) *)
Example C09_ex_fair_raise :
  fair 1 wres_raise [Worker 1 (APutLog 7%Z); Master; Worker 1 ARaise] /\
  exec 1 wres_raise ([Worker 1 (APutLog 7%Z); Master; Worker 1 ARaise] ++ repeat Master 15) (init [0])
    = Fin (Fail ChildDied).
Proof.
  split; [|vm_compute; reflexivity].
  intros p Hp. assert (p = 1) by lia. subst. right. left.
  split; [eexists; reflexivity|cbn; auto].
Qed.

(* ---- extension: get_ncpu (the number of processes handed to parallelize) ---- *)

(* get_ncpu returns the first setting that is not None among the local one, the
   configured one and 1; TypeError if that is no int, ValueError if it is < 1 *)
Theorem C09_get_ncpu : forall (cfg local : nval),
  get_ncpu cfg local =
  match (match local with VNone => match cfg with VNone => VInt 1 | v => v end | v => v end) with
  | VInt z => if (z <? 1)%Z then Err ValueError else Ok z
  | _ => Err TypeError
  end.
Proof. exact get_ncpu_spec. Qed.
Print Assumptions C09_get_ncpu.

(* a number accepted by get_ncpu is >= 1 and is never rejected by parallelize *)
Theorem C09_get_ncpu_parallelize : forall (A R : Type) (cfg local : nval) (n : Z) (f : A -> res R)
    (args : list A) (sched : list action),
  get_ncpu cfg local = Ok n ->
  (1 <= n)%Z /\ parallelize f args n sched <> Some (Fail BadNcpu).
Proof.
  intros A R cfg local n f args sched H.
  exact (conj (proj1 (get_ncpu_ok cfg local n H)) (get_ncpu_parallelize cfg local n f args sched H)).
Qed.
Print Assumptions C09_get_ncpu_parallelize.

Example C09_ex_get_ncpu :
  get_ncpu (VInt 4) VNone = Ok 4%Z /\ get_ncpu (VInt 4) (VInt 2) = Ok 2%Z /\ get_ncpu VNone VNone = Ok 1%Z /\
  get_ncpu (VInt 0) VNone = Err ValueError /\ get_ncpu VNone VBad = Err TypeError.
Proof. vm_compute. repeat split; reflexivity. Qed.
