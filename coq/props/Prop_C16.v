(* C16 — the column container DataFieldRecordArray behaves like a plain table under
   any operation sequence.  Statements only; every proof is `exact <lemma>`. *)
From Coq Require Import ZArith List Bool Lia.
From Sky Require Import Result PyList G_table M_Table S_Table S_TableInterp P_TableBase P_TableOps P_TableOps2 P_TableOps3
  P_TableCtor P_Table P_TableRefine P_TableThm P_TableClosed P_TableFull P_TableRows P_TableFindings M_TableRec P_TableRec.
Import ListNotations.
Open Scope Z_scope.

(* the translated length tests / updates of storage.py *)
Theorem C16_len_kernels : forall len n,
  (af_len_bad len n = false <-> n = len) /\ (si_len_bad len n = false <-> n = len)
  /\ (ctor_len_bad len n = false <-> n = len) /\ append_new_len len n = len + n /\ indices_n len = len
  /\ ctor_first_len n = n /\ ctor_empty_len = 0 /\ (dict_nonempty n = true <-> n > 0).
Proof.
  intros len n. exact (conj (K_af_len_bad len n) (conj (K_si_len_bad len n) (conj (K_ctor_len_bad len n)
    (conj (K_append_new_len len n) (conj (K_indices_n len) (conj (K_ctor_first_len n) (conj K_ctor_empty_len (K_dict_nonempty n)))))))).
Qed.
Print Assumptions C16_len_kernels.

(* INVARIANT, for every operation sequence (also through every raising call): in every
   live table the names are duplicate-free, field_name_list equals the dict keys, every
   column has length len, and the indices cache is absent or arange(len). *)
Theorem C16_inv : forall ops, Forall op_wf ops ->
  let w := run empty_world ops in
  forall i o, nth_error (wobjs w) i = Some o ->
    NoDup (keys (fields o))
    /\ fnl o = keys (fields o)
    /\ 0 <= olen o
    /\ (forall n l, In (n, l) (fields o) -> exists b, rd (wstore w) l = Some b /\ zlen (bdata b) = olen o)
    /\ match oidx o with
       | None => True
       | Some li => exists b, rd (wstore w) li = Some b /\ bdata b = arange (Z.to_nat (olen o))
       end.
Proof. exact inv_all_sequences. Qed.
Print Assumptions C16_inv.

(* FRESHNESS, for every operation sequence: no two columns of a table and no two tables
   (origin, selections, copies, constructed tables) share a buffer location. *)
Theorem C16_fresh : forall ops, Forall op_wf ops ->
  let w := run empty_world ops in
  (forall i o, nth_error (wobjs w) i = Some o -> NoDup (obj_locs o))
  /\ (forall i j oi oj, i <> j -> nth_error (wobjs w) i = Some oi -> nth_error (wobjs w) j = Some oj ->
        forall l, In l (obj_locs oi) -> ~ In l (obj_locs oj)).
Proof. exact fresh_all_sequences. Qed.
Print Assumptions C16_fresh.

(* ... hence later writes do not cross: whatever an operation does (in-place assignment to a
   selection included, success or failure), every table other than its target is the same
   object and observes exactly the same field list, dtypes, column values, length, indices. *)
Theorem C16_writes_do_not_cross : forall ops p, Forall op_wf ops -> op_wf p ->
  let w := run empty_world ops in
  let w' := fst (step w p) in
  forall j oj, nth_error (wobjs w) j = Some oj -> target p <> Some j ->
    nth_error (wobjs w') j = Some oj /\ obs_obj (wstore w') oj = obs_obj (wstore w) oj.
Proof. exact writes_do_not_cross. Qed.
Print Assumptions C16_writes_do_not_cross.

(* REFINEMENT, rows stay aligned.  sort_by_field applies ONE position list (a permutation
   of arange(len) that sorts the key column) to all columns: the table afterwards is the
   plain table with the rows taken in that order; dtypes are kept. *)
Theorem C16_sort_refines : forall s E o n perm s' o',
  repr s E o -> eqlen E o -> sort_by_field s o n perm = ((s', o'), Done) ->
  exists E' ps, repr s' E' o' /\ names_of o' = names_of o /\ olen o' = olen o
    /\ sel_pos (olen o) (SIdx perm) = Ok ps /\ length ps = Z.to_nat (olen o)
    /\ is_perm perm (Z.to_nat (olen o)) = true
    /\ (forall k, In k (names_of o) -> bdt (E' k) = bdt (E k))
    /\ (names_of o <> [] -> abs E' (names_of o) (Z.to_nat (olen o)) = t_take (abs E (names_of o) (Z.to_nat (olen o))) ps)
    /\ In n (names_of o) /\ argsort_ok (bdata (E n)) perm = true.
Proof. exact sort_refines. Qed.
Print Assumptions C16_sort_refines.

(* append concatenates the rows (restricted to the fields of the target), resets the
   indices cache and adds the lengths. *)
Theorem C16_append_refines : forall s E o Ea a s' o',
  repr s E o -> eqlen E o -> repr s Ea a -> eqlen Ea a -> append s o a = ((s', o'), Done) ->
  exists E', repr s' E' o' /\ names_of o' = names_of o /\ olen o' = olen o + olen a /\ oidx o' = None
    /\ (forall k, In k (names_of o) -> E' k = np_append (E k) (Ea k))
    /\ abs E' (names_of o) (Z.to_nat (olen o + olen a))
       = t_append (abs E (names_of o) (Z.to_nat (olen o))) (abs Ea (names_of o) (Z.to_nat (olen a))).
Proof. exact append_op_refines. Qed.
Print Assumptions C16_append_refines.

(* a raising append / append_field / __setitem__ / remove_field / set_field_dtype leaves the
   table exactly as it was (fix d68bdf4 and friends): stated for append. *)
Theorem C16_failed_append_unchanged : forall s E o Ea a s' o' e,
  repr s E o -> repr s Ea a -> append s o a = ((s', o'), Raised e) -> s' = s /\ o' = o.
Proof. exact failed_append_unchanged. Qed.
Print Assumptions C16_failed_append_unchanged.

(* set_selection writes the same positions of every column in place and touches nothing
   else of the table (names, length, cache, locations are unchanged); a failure in the
   existence pre-check changes nothing (fix 37af686). *)
Theorem C16_set_selection_refines : forall s E o Ea a sl,
  repr s E o -> repr s Ea a -> compat o a ->
  match set_selection s o a sl with
  | ((s', o'), x) =>
      exists todo, o' = o /\ repr s' (EmixW sl (fnl o) E Ea todo) o /\ frame_rel s o s' o
        /\ (x = Done -> todo = [] /\ forall n, In n (keys (fields o)) -> In n (keys (fields a)))
  end.
Proof. exact set_selection_spec. Qed.
Print Assumptions C16_set_selection_refines.

(* copy(keep_fields): the copy holds exactly the kept columns of the origin (same values,
   dtypes, order) in locations that did not exist before. *)
Theorem C16_copy_refines : forall s E a keep s' o',
  repr s E a -> eqlen E a -> ctor_from s a keep [] [] = (s', Some o', Done) ->
  repr s' E o' /\ names_of o' = filter (keepb keep) (names_of a)
  /\ (names_of o' <> [] -> olen o' = olen a) /\ oidx o' = None
  /\ (forall l, In l (obj_locs o') -> (length s <= l)%nat)
  /\ exists ext, s' = s ++ ext.
Proof. exact copy_refines. Qed.
Print Assumptions C16_copy_refines.

(* get_selection: ONE position list (from the index array or mask) is applied to all
   columns; the result is the plain table of the selected rows, dtypes kept, in fresh locations. *)
Theorem C16_select_refines : forall s E a sl s' o',
  repr s E a -> eqlen E a -> get_selection s a sl = (s', Some o', Done) -> names_of a <> [] ->
  exists E' ps, repr s' E' o' /\ names_of o' = names_of a /\ sel_pos (olen a) sl = Ok ps
    /\ olen o' = Z.of_nat (length ps) /\ oidx o' = None
    /\ (forall k, In k (names_of a) -> bdt (E' k) = bdt (E k) /\ gather (bdata (E k)) ps = Some (bdata (E' k)))
    /\ abs E' (names_of a) (length ps) = t_take (abs E (names_of a) (Z.to_nat (olen a))) ps
    /\ (forall l, In l (obj_locs o') -> (length s <= l)%nat).
Proof. exact select_refines. Qed.
Print Assumptions C16_select_refines.

(* a raising remove_field / append_field / __setitem__ / set_field_dtype leaves the table as it was *)
Theorem C16_failed_simple_ops_unchanged : forall s E o, repr s E o ->
  (forall n e s' o', remove_field s o n = ((s', o'), Raised e) -> s' = s /\ o' = o)
  /\ (forall n b e s' o', append_field (s ++ [b]) o n (length s) = ((s', o'), Raised e) -> s' = s ++ [b] /\ o' = o)
  /\ (forall n b e s' o', setitem (s ++ [b]) o n (length s) = ((s', o'), Raised e) -> s' = s ++ [b] /\ o' = o)
  /\ (forall n dt e s' o', set_field_dtype s o n dt = ((s', o'), Raised e) -> s' = s /\ o' = o).
Proof. exact failed_simple_ops_unchanged. Qed.
Print Assumptions C16_failed_simple_ops_unchanged.

(* non-vacuity: a concrete history (construct, sort, self-append, indices, select, assign the
   selection back, copy, rename with a swap, failing append) runs without Stuck, satisfies
   op_wf, and produces the expected plain tables. *)
Definition ex_ops : list op :=
  [ OCtor [(0, mkbuf 0 [3; 1; 2]); (1, mkbuf 3 [30; 10; 20])] None [] [] true;
    OSort 0 0 [1; 2; 0];
    OAppend 0 0;
    OIndices 0;
    OSelect 0 (SIdx [5; 0]);
    OSetSel 0 (SMask [true; true; false; false; false; false]) 1;
    OCtorFrom 0 (Some [1]) [] [];
    ORename 0 [(0, 1); (1, 0)] true;
    OAppend 2 1 ].

Example C16_nonvacuous :
  Forall op_wf ex_ops
  /\ map fst (run_obs empty_world ex_ops) = [Done; Done; Done; Done; Done; Done; Done; Done; Done]
  /\ map (fun o => (fnl o, olen o)) (wobjs (run empty_world ex_ops)) = [([1; 0], 6); ([0; 1], 2); ([1], 8)]
  /\ observe (run empty_world (firstn 6 ex_ops)) =
       [ ([0; 1], [(0, 6%nat, Some (0, [3; 1; 3; 1; 2; 3])); (1, 7%nat, Some (3, [30; 10; 30; 10; 20; 30]))], 6,
          Some (8%nat, Some (2, [0; 1; 2; 3; 4; 5])));
         ([0; 1], [(0, 9%nat, Some (0, [3; 1])); (1, 10%nat, Some (3, [30; 10]))], 2, None) ]
  /\ snd (step (run empty_world (firstn 2 ex_ops)) (OAppend 0 7)) = Stuck.
Proof.
  split; [repeat constructor; cbn; repeat constructor; cbn; intuition discriminate|].
  vm_compute. repeat split; reflexivity.
Qed.

(* ================================================================================
   FULL REFINEMENT.  S_TableInterp.v is a plain-table interpreter: tables are VALUES (named
   columns, a length, "indices asked for"), there is no store, and a raising operation
   returns the tables unchanged by definition.  For EVERY operation sequence the abstraction
   of the model's final world (every live table read out of the store) is what that
   interpreter computes, and every step has the interpreter's outcome (Done / which
   exception / Stuck).  This composes all per-operation lemmas (constructors with
   keep_fields / conversions / copy flag, copy, get_selection, set_selection, append,
   append_field, __setitem__, remove_field, rename_fields incl. swaps and chains, tidy_up,
   sort_by_field, convert_dtypes, set_field_dtype, indices). *)
Theorem C16_full_refinement : forall ops, Forall op_wf ops ->
  absw (run empty_world ops) = s_run [] ops
  /\ map fst (run_obs empty_world ops) = s_outcomes [] ops.
Proof. exact full_refinement. Qed.
Print Assumptions C16_full_refinement.

(* a raising operation (also one that raises inside numpy: index out of range, shape mismatch,
   after some columns of a well-formed table could have been processed) changes NO table *)
Theorem C16_failed_op_changes_nothing : forall ops p e, Forall op_wf ops -> op_wf p ->
  let w := run empty_world ops in
  snd (step w p) = Raised e -> absw (fst (step w p)) = absw w.
Proof. exact failed_op_changes_nothing. Qed.
Print Assumptions C16_failed_op_changes_nothing.

(* PROGRESS: the model gets Stuck only for a table index that does not exist or an argsort
   oracle answer that is not a sorting permutation of the key column *)
Theorem C16_progress : forall ops p, Forall op_wf ops -> op_wf p ->
  let w := run empty_world ops in
  (forall t, In t (op_tables p) -> (t < length (wobjs w))%nat) -> oracle_ok (absw w) p ->
  snd (step w p) <> Stuck.
Proof. exact progress. Qed.
Print Assumptions C16_progress.

(* closed forms of the interpreter on well-formed sources.  Constructor / copy: filter by
   keep_fields (None keeps everything, an EMPTY list keeps nothing), convert each kept
   column once; no kept column gives length 0. *)
Theorem C16_ctor_closed : forall length keep conv exc copy src,
  (forall c, In c src -> blen (snd c) = length) -> NoDup (keys src) ->
  v_ctor src length keep conv exc copy =
    Ok (mkat (map (conv1 conv exc) (filter (keepc keep) src))
             (match filter (keepc keep) src with [] => 0 | _ => length end) false).
Proof. exact v_ctor_closed. Qed.
Print Assumptions C16_ctor_closed.

Theorem C16_keep_empty_list_keeps_nothing : forall src length conv exc copy, 0 <= length ->
  (forall c, In c src -> blen (snd c) = length) -> NoDup (keys src) ->
  v_ctor src length (Some []) conv exc copy = Ok (mkat [] 0 false).
Proof. exact keep_empty_list_keeps_nothing. Qed.
Print Assumptions C16_keep_empty_list_keeps_nothing.

(* convert_dtypes decides once per column, on the dtype before the call (no chaining) *)
Theorem C16_convert_closed : forall t conv exc,
  s_convert t conv exc = Ok (mkat (map (conv1 conv exc) (acols t)) (alen t) (acache t)).
Proof. exact s_convert_closed. Qed.
Print Assumptions C16_convert_closed.

Example C16_convert_not_chained :
  s_convert (mkat [(0, mkbuf 2 [1; 2]); (1, mkbuf 3 [3; 4])] 2 false) [(2, 3); (3, 0)] []
    = Ok (mkat [(0, mkbuf 3 [1; 2]); (1, mkbuf 0 [3; 4])] 2 false)
  /\ s_convert (mkat [(0, mkbuf 2 [1; 2]); (1, mkbuf 3 [3; 4])] 2 false) [(3, 0); (2, 3)] []
    = Ok (mkat [(0, mkbuf 3 [1; 2]); (1, mkbuf 0 [3; 4])] 2 false).
Proof. exact convert_not_chained. Qed.

(* the interpreter on the non-vacuity history: swap-rename, copy with keep list, failing ops *)
Example C16_interpreter_example :
  s_run [] ex_ops =
    [ mkat [(1, mkbuf 0 [3; 1; 3; 1; 2; 3]); (0, mkbuf 3 [30; 10; 30; 10; 20; 30])] 6 true;
      mkat [(0, mkbuf 0 [3; 1]); (1, mkbuf 3 [30; 10])] 2 false;
      mkat [(1, mkbuf 3 [30; 10; 30; 10; 20; 30; 30; 10])] 8 false ]
  /\ s_outcomes [] (ex_ops ++ [OAppend 0 2; OSetSel 0 (SIdx [9]) 1; OSetSel 0 (SIdx [9; 9]) 1; OCtorFrom 0 (Some []) [] []])
     = [Done; Done; Done; Done; Done; Done; Done; Done; Done; Raised KeyError; Raised ValueError; Raised IndexError; Done].
Proof. split; vm_compute; reflexivity. Qed.

(* rename_fields as a SIMULTANEOUS renaming (swaps and chains included, after fix 4f30bc8):
   whenever the result has no duplicate name, the table afterwards consists of the columns
   that are not renamed, in their old order, followed by the renamed columns in the order of
   the dict under their new names, each with the data it had before. *)
Theorem C16_rename_closed : forall t conv must,
  NoDup (anames t) -> NoDup (map fst conv) ->
  let pres := filter (fun cv => mem (fst cv) (anames t)) conv in
  let kept := filter (fun col => negb (mem (fst col) (map fst pres))) (acols t) in
  NoDup (map snd pres) -> (forall n, In n (map snd pres) -> ~ In n (keys kept)) ->
  (must = true -> forall cv, In cv conv -> mem (fst cv) (anames t) = true) ->
  s_rename t conv must =
    Ok (mkat (kept ++ map (fun cv => (snd cv, lookup (fst cv) (acols t))) pres) (alen t) (acache t)).
Proof. exact s_rename_closed. Qed.
Print Assumptions C16_rename_closed.

Example C16_rename_swap_and_chain :
  s_rename (mkat [(0, mkbuf 0 [1]); (1, mkbuf 3 [2]); (2, mkbuf 1 [3])] 1 false) [(0, 1); (1, 0)] true
    = Ok (mkat [(2, mkbuf 1 [3]); (1, mkbuf 0 [1]); (0, mkbuf 3 [2])] 1 false)
  /\ s_rename (mkat [(0, mkbuf 0 [1]); (1, mkbuf 3 [2]); (2, mkbuf 1 [3])] 1 false) [(1, 0); (0, 5); (9, 2)] false
    = Ok (mkat [(2, mkbuf 1 [3]); (0, mkbuf 3 [2]); (5, mkbuf 0 [1])] 1 false).
Proof. exact rename_swap_and_chain. Qed.

(* set_selection on ROWS: a row hit by the selector becomes the source row of the LAST hit
   (a one-row source is broadcast), every other row stays as it was. *)
Theorem C16_set_selection_rows : forall (E Ea E' : name -> buf) names sl len alen' ps,
  (forall n, In n names -> length (bdata (E n)) = len /\ length (bdata (Ea n)) = alen'
                           /\ np_put (bdata (E n)) sl (bdata (Ea n)) = Ok (bdata (E' n))) ->
  sel_pos (Z.of_nat len) sl = Ok ps ->
  forall i, (i < len)%nat ->
    row E' names i =
      match last_idx ps i with
      | Some j => row Ea names (if Nat.eqb alen' (length ps) then j else 0%nat)
      | None => row E names i
      end.
Proof. exact set_selection_rows. Qed.
Print Assumptions C16_set_selection_rows.

(* the constructor's field filter, as translated from the source
   `(keep_fields is not None) and (fname not in keep_fields)`, is the model's skip test;
   hence (C16_ctor_closed) an EMPTY keep_fields keeps no field and None keeps all. *)
Theorem C16_keep_filter_kernel : forall keep fname,
  ctor_keep_given (keep_flag keep) && ctor_not_in_keep fname (keep_list keep)
  = match keep with Some k => negb (mem fname k) | None => false end.
Proof. exact K_ctor_keep_filter. Qed.
Print Assumptions C16_keep_filter_kernel.

Theorem C16_keep_none_keeps_all : forall src length conv exc copy, 0 <= length ->
  (forall c, In c src -> blen (snd c) = length) -> NoDup (keys src) ->
  v_ctor src length None conv exc copy =
    Ok (mkat (map (conv1 conv exc) src) (match src with [] => 0 | _ => length end) false).
Proof. exact keep_none_keeps_all. Qed.
Print Assumptions C16_keep_none_keeps_all.

(* ================================================================================
   WHY THE REMAINING GUARDS ARE NEEDED (witnesses) *)

(* (open findings C16-zero-field-length / C16-zero-field-selection) A table WITHOUT fields keeps its
   length (remove_field of the last field: len 5), but its copy, a constructor call whose keep_fields
   filters everything and its selections have length 0, and an index 99 is not noticed.  Hence
   the guards `names_of _ <> []` of C16_copy_refines / C16_select_refines. *)
Theorem C16_zero_field_length_refuted :
  Forall op_wf zf_ops
  /\ map fst (run_obs empty_world zf_ops) = [Done; Done; Done; Done; Done]
  /\ map (fun o => (fnl o, olen o)) (wobjs (run empty_world zf_ops)) = [([], 5); ([], 0); ([], 0); ([], 0)].
Proof. exact zero_field_length_refuted. Qed.
Print Assumptions C16_zero_field_length_refuted.

(* (open finding C16-colliding-rename) a renaming whose result has a duplicate name loses a column
   without an exception.  Hence the duplicate-freeness hypotheses of C16_rename_closed; the
   interpreter's s_rename is defined on collisions only by "what the code does". *)
Theorem C16_rename_collision_refuted :
  exists t conv t', NoDup (anames t) /\ NoDup (map fst conv)
    /\ s_rename t conv true = Ok t' /\ (length (acols t') < length (acols t))%nat.
Proof. exact rename_collision_refuted. Qed.
Print Assumptions C16_rename_collision_refuted.

(* (by design, NOT a finding) `t1[n] = t0[m]` stores the column array of one table into another:
   the tables then share a location, an in-place assignment to t0 changes t1, and the world is
   no longer the value interpreter's world.  C16_inv / C16_fresh / C16_writes_do_not_cross /
   C16_full_refinement therefore quantify over op_wf sequences, and op_wf excludes OSetItemFrom:
   they are statements about callers that hand in arrays of their own. *)
Theorem C16_alias_refuted :
  map fst (run_obs empty_world alias_ops) = [Done; Done; Done; Done; Done]
  /\ (exists o0 o1 l, nth_error (wobjs (run empty_world alias_ops)) 0 = Some o0
        /\ nth_error (wobjs (run empty_world alias_ops)) 1 = Some o1
        /\ In l (obj_locs o0) /\ In l (obj_locs o1))
  /\ map acols (absw (run empty_world alias_ops))
       = [[(0, mkbuf 2 [8; 9])]; [(0, mkbuf 2 [8; 9])]; [(0, mkbuf 2 [8; 9])]]
  /\ map acols (s_run [] alias_ops)
       = [[(0, mkbuf 2 [8; 9])]; [(0, mkbuf 2 [1; 2])]; [(0, mkbuf 2 [8; 9])]].
Proof. exact alias_refuted. Qed.
Print Assumptions C16_alias_refuted.

(* set_selection on rows, composed with the operation itself *)
Theorem C16_set_selection_op_rows : forall s E o Ea a sl s' o' ps,
  repr s E o -> eqlen E o -> repr s Ea a -> eqlen Ea a -> compat o a ->
  set_selection s o a sl = ((s', o'), Done) -> sel_pos (olen o) sl = Ok ps ->
  exists E', o' = o /\ repr s' E' o
    /\ forall i, (i < Z.to_nat (olen o))%nat ->
         row E' (keys (fields o)) i =
           match last_idx ps i with
           | Some j => row Ea (keys (fields o)) (if Nat.eqb (Z.to_nat (olen a)) (length ps) then j else 0%nat)
           | None => row E (keys (fields o)) i
           end.
Proof. exact set_selection_op_rows. Qed.
Print Assumptions C16_set_selection_op_rows.

(* ================================================================================
   EXTENSION: as_numpy_record_array (M_TableRec.v) — the accessor that turns the column store
   back into a record array.  Its rows are exactly the rows of the plain table. *)
Theorem C16_record_array_rows : forall s E o, repr s E o -> eqlen E o ->
  as_record s o = Ok (map (fun n => (n, bdt (E n))) (keys (fields o)),
                      trows (abs E (keys (fields o)) (Z.to_nat (olen o)))).
Proof. exact as_record_rows. Qed.
Print Assumptions C16_record_array_rows.

(* for EVERY operation sequence, the record array of every live table exists (no exception) and is
   the record array of the corresponding table of the plain-table interpreter *)
Theorem C16_record_array_refines : forall ops, Forall op_wf ops ->
  let w := run empty_world ops in
  forall i o, nth_error (wobjs w) i = Some o ->
    exists t, nth_error (s_run [] ops) i = Some t /\ as_record (wstore w) o = Ok (rec_of t).
Proof. exact record_array_all_sequences. Qed.
Print Assumptions C16_record_array_refines.

(* a field name list that names a missing field makes the accessor raise KeyError (what the
   invariant `field_name_list = keys` protects against) *)
Theorem C16_record_array_missing_field : forall s o n, In n (fnl o) -> assoc n (fields o) = None ->
  (forall k, In k (fnl o) -> k <> n -> exists l b, assoc k (fields o) = Some l /\ rd s l = Some b) ->
  as_record s o = Err KeyError.
Proof. exact as_record_missing_field. Qed.
Print Assumptions C16_record_array_missing_field.

Example C16_record_array_example :
  rec_world (run empty_world (firstn 6 ex_ops)) =
    [ Ok ([(0, 0); (1, 3)], [[3; 30]; [1; 10]; [3; 30]; [1; 10]; [2; 20]; [3; 30]]);
      Ok ([(0, 0); (1, 3)], [[3; 30]; [1; 10]]) ]
  /\ as_record [mkbuf 2 [1; 2; 3]; mkbuf 3 [7]] (mkobj [(0, 0%nat); (1, 1%nat)] [0; 1] 3 None)
     = Ok ([(0, 2); (1, 3)], [[1; 7]; [2; 7]; [3; 7]])
  /\ as_record [mkbuf 2 [1; 2; 3]; mkbuf 3 [7; 8]] (mkobj [(0, 0%nat); (1, 1%nat)] [0; 1] 3 None) = Err ValueError
  /\ as_record [mkbuf 2 [1; 2; 3]] (mkobj [(0, 0%nat)] [0; 5] 3 None) = Err KeyError.
Proof. repeat split; vm_compute; reflexivity. Qed.
