(* C08 — same seed, same result: random streams are reproducible and kept
   apart; weighted random choice; unused-seed search.
   Statements only; every proof is `exact <lemma>`. *)
From Coq Require Import ZArith List Bool Lia Permutation Sorted QArith.
From Sky Require Import Result PyList Num M_Random S_Random P_Random P_RandomChoice P_RandomOrder.
Import ListNotations.
Open Scope Z_scope.

(* ---- extending a trial file: the seed used is not in the file, for EVERY
   finite seed column and every seed of the given service ---- *)
Theorem C08_seed_full : forall (rss_seed : Z) (seeds : list Z),
  exists s, extend_seed rss_seed seeds = Ok s
    /\ ~ In s seeds
    /\ (~ In rss_seed seeds -> s = rss_seed)
    /\ (In rss_seed seeds ->
          1 <= s /\ ~ In s seeds /\ forall j, 1 <= j < s -> In j seeds).
Proof. exact extend_seed_fresh. Qed.
Print Assumptions C08_seed_full.

(* ---- RandomChoice over any ordered carrier with monotone + and / ---- *)
Theorem C08_choice : forall (T : Type) (N : Num T),
  (forall a b c, nleb N a b = true -> nleb N b c = true -> nleb N a c = true) ->
  (forall a b, nltb N a b = true -> nleb N b a = false) ->
  (forall a x, nleb N (nzero N) a = true -> nleb N (nzero N) x = true ->
               nleb N a (nadd N a x) = true) ->
  (forall a x, nleb N (nzero N) a = true -> nleb N x (nzero N) = true ->
               nleb N (nadd N a x) a = true) ->
  (forall a b c, nltb N (nzero N) c = true -> nleb N a b = true ->
                 nleb N (ndiv N a c) (ndiv N b c) = true) ->
  (forall c, nltb N (nzero N) c = true -> nleb N (none N) (ndiv N c c) = true) ->
  (forall c, nltb N (nzero N) c = true -> nleb N (ndiv N (nzero N) c) (nzero N) = true) ->
  (forall a, nleb N (nzero N) a = true -> nleb N a (nzero N) = false ->
             nltb N (nzero N) a = true) ->
  forall (eps64 epsp : T) (items : list Z) (p : list T) (rc : rchoice)
         (u : list T) (perm : list nat) (junk : Z),
  (* all probabilities >= 0, the constructor accepted them, positive sum *)
  Forall (fun x => nleb N (nzero N) x = true) p ->
  rc_init N eps64 epsp items p = Ok rc ->
  (forall L, py_get (ncumsum N p) (-1) = Ok L -> nltb N (nzero N) L = true) ->
  (* uniforms in [0,1); argsort returned some permutation of the positions *)
  Forall (fun x => nleb N (nzero N) x = true /\ nltb N x (none N) = true) u ->
  Permutation perm (seq 0 (length u)) ->
  exists out,
    rc_call N rc u (map Z.of_nat perm) junk = Ok out
    /\ Forall2 (fun ui it =>
         let k := Z.to_nat (ss_right N (rc_cdf rc) ui) in
         (k < length p)%nat
         /\ nth_error items k = Some it
         /\ (exists x, nth_error p k = Some x /\ nltb N (nzero N) x = true)
         /\ ((forall i e, (i < k)%nat -> nth_error (rc_cdf rc) i = Some e -> nleb N e ui = true)
             /\ exists e, nth_error (rc_cdf rc) k = Some e /\ nleb N e ui = false)) u out.
Proof. exact (@rc_call_correct). Qed.
Print Assumptions C08_choice.

(* ---- RandomChoice for EVERY vector the constructor accepts: entries >= 0
   (checked), sum within the tolerance of 1 - slightly below or above -,
   zeros anywhere incl. trailing.  No premise on p beyond acceptance; the
   carrier laws are the eight of C08_choice plus five. ---- *)
Theorem C08_choice_accepted : forall (T : Type) (N : Num T),
  (forall a b c, nleb N a b = true -> nleb N b c = true -> nleb N a c = true) ->
  (forall a b, nltb N a b = true -> nleb N b a = false) ->
  (forall a x, nleb N (nzero N) a = true -> nleb N (nzero N) x = true ->
               nleb N a (nadd N a x) = true) ->
  (forall a x, nleb N (nzero N) a = true -> nleb N x (nzero N) = true ->
               nleb N (nadd N a x) a = true) ->
  (forall a b c, nltb N (nzero N) c = true -> nleb N a b = true ->
                 nleb N (ndiv N a c) (ndiv N b c) = true) ->
  (forall c, nltb N (nzero N) c = true -> nleb N (none N) (ndiv N c c) = true) ->
  (forall c, nltb N (nzero N) c = true -> nleb N (ndiv N (nzero N) c) (nzero N) = true) ->
  (forall a, nleb N (nzero N) a = true -> nleb N a (nzero N) = false ->
             nltb N (nzero N) a = true) ->
  nleb N (nzero N) (nzero N) = true ->
  (forall a, nleb N (nzero N) a = true -> nltb N (nzero N) a = false -> nleb N a (nzero N) = true) ->
  (forall a x, nleb N (nzero N) a = true -> nleb N (nzero N) x = true ->
               nleb N x (nadd N a x) = true) ->
  (forall s, nleb N s (nzero N) = true -> nleb N (none N) (nabs N (nsub N s (none N))) = true) ->
  (forall a b c, nltb N a b = true -> nleb N b c = true -> nltb N a c = true) ->
  forall (eps64 epsp : T) (items : list Z) (p : list T) (rc : rchoice)
         (u : list T) (perm : list nat) (junk : Z),
  (* the tolerance atol = max(sqrt eps64, sqrt eps_dtype) is below 1 *)
  nltb N (nmax N (nsqrt N eps64) (nsqrt N epsp)) (none N) = true ->
  rc_init N eps64 epsp items p = Ok rc ->
  Forall (fun x => nleb N (nzero N) x = true /\ nltb N x (none N) = true) u ->
  Permutation perm (seq 0 (length u)) ->
  exists out,
    rc_call N rc u (map Z.of_nat perm) junk = Ok out
    /\ Forall2 (fun ui it =>
         let k := Z.to_nat (ss_right N (rc_cdf rc) ui) in
         (k < length p)%nat
         /\ nth_error items k = Some it
         /\ (exists x, nth_error p k = Some x /\ nltb N (nzero N) x = true)
         /\ ((forall i e, (i < k)%nat -> nth_error (rc_cdf rc) i = Some e -> nleb N e ui = true)
             /\ exists e, nth_error (rc_cdf rc) k = Some e /\ nleb N e ui = false)) u out.
Proof. exact (@rc_call_accepted). Qed.
Print Assumptions C08_choice_accepted.

Theorem C08_choice_accepted_Q :
  forall (eps64 epsp : Q) (items : list Z) (p : list Q) (rc : rchoice)
         (u : list Q) (perm : list nat) (junk : Z),
  Qltb (Qminmax.Qmax eps64 epsp) 1 = true ->
  rc_init QNum eps64 epsp items p = Ok rc ->
  Forall (fun x => Qle_bool 0 x = true /\ Qltb x 1 = true) u ->
  Permutation perm (seq 0 (length u)) ->
  exists out,
    rc_call QNum rc u (map Z.of_nat perm) junk = Ok out
    /\ Forall2 (fun ui it =>
         let k := Z.to_nat (ss_right QNum (rc_cdf rc) ui) in
         (k < length p)%nat
         /\ nth_error items k = Some it
         /\ (exists x, nth_error p k = Some x /\ Qltb 0 x = true)
         /\ ((forall i e, (i < k)%nat -> nth_error (rc_cdf rc) i = Some e -> Qle_bool e ui = true)
             /\ exists e, nth_error (rc_cdf rc) k = Some e /\ Qle_bool e ui = false)) u out.
Proof. exact rc_call_accepted_Q. Qed.
Print Assumptions C08_choice_accepted_Q.

(* the guard "tolerance below 1" is needed: with atol = 2 the all-zero vector is
   accepted and the call fails *)
Example C08_choice_tolerance_refuted :
  exists (items : list Z) (p u : list Q) (rc : rchoice),
    rc_init QNum 2%Q 2%Q items p = Ok rc
    /\ Forall (fun x => Qle_bool 0 x = true /\ Qltb x 1 = true) u
    /\ rc_call QNum rc u (map Z.of_nat [0%nat]) 0 = Err IndexError.
Proof.
  exists [7; 8], [0; 0]%Q, [0]%Q. eexists. split; [vm_compute; reflexivity|].
  split; [repeat constructor | vm_compute; reflexivity].
Qed.

(* accepted vectors whose sum is slightly above / below 1, with trailing zeros:
   a uniform just below 1 still lands on the last POSITIVE entry *)
Example C08_choice_accepted_example :
  let eps := (1 # 10000)%Q in
  rc_run QNum eps eps [10; 11; 12; 13] [1 # 2; (1 # 2) + (1 # 100000); 0; 0]%Q [999999 # 1000000; 0]%Q
         (map Z.of_nat [1; 0]%nat) 5 = Ok [11; 10]
  /\ rc_run QNum eps eps [10; 11; 12; 13] [1 # 2; (1 # 2) - (1 # 100000); 0; 0]%Q [999999 # 1000000; 0]%Q
         (map Z.of_nat [1; 0]%nat) 5 = Ok [11; 10]
  /\ rc_run QNum eps eps [10; 11; 12; 13] [1 # 2; (1 # 2) + (1 # 1000); 0; 0]%Q [0]%Q [0] 5 = Err ValueError
  /\ Qltb (Qminmax.Qmax eps eps) 1 = true.
Proof. cbv zeta. repeat split; vm_compute; reflexivity. Qed.

(* the same statement for the rationals, with no premise on the carrier *)
Theorem C08_choice_Q :
  forall (eps64 epsp : Q) (items : list Z) (p : list Q) (rc : rchoice)
         (u : list Q) (perm : list nat) (junk : Z),
  Forall (fun x => Qle_bool 0 x = true) p ->
  rc_init QNum eps64 epsp items p = Ok rc ->
  (forall L, py_get (ncumsum QNum p) (-1) = Ok L -> Qltb 0 L = true) ->
  Forall (fun x => Qle_bool 0 x = true /\ Qltb x 1 = true) u ->
  Permutation perm (seq 0 (length u)) ->
  exists out,
    rc_call QNum rc u (map Z.of_nat perm) junk = Ok out
    /\ Forall2 (fun ui it =>
         let k := Z.to_nat (ss_right QNum (rc_cdf rc) ui) in
         (k < length p)%nat
         /\ nth_error items k = Some it
         /\ (exists x, nth_error p k = Some x /\ Qltb 0 x = true)
         /\ ((forall i e, (i < k)%nat -> nth_error (rc_cdf rc) i = Some e -> Qle_bool e ui = true)
             /\ exists e, nth_error (rc_cdf rc) k = Some e /\ Qle_bool e ui = false)) u out.
Proof. exact rc_call_correct_Q. Qed.
Print Assumptions C08_choice_Q.

(* sorting the uniforms and un-sorting the indices is invisible: the output
   is the element-wise map, for every permutation argsort may return and every
   content of the uninitialised index array (no premise on the carrier) *)
Theorem C08_choice_unsort : forall (T : Type) (N : Num T) (rc : rchoice)
    (u : list T) (perm : list nat) (junk : Z),
  Permutation perm (seq 0 (length u)) ->
  rc_call N rc u (map Z.of_nat perm) junk
    = mapM (fun x => py_get (rc_items rc) (ss_right N (rc_cdf rc) x)) u.
Proof. exact (@rc_call_unsort). Qed.
Print Assumptions C08_choice_unsort.

(* the stored cdf is non-decreasing (precondition of np.searchsorted) *)
Theorem C08_cdf_sorted : forall (T : Type) (N : Num T),
  (forall a b c, nleb N a b = true -> nleb N b c = true -> nleb N a c = true) ->
  (forall a x, nleb N (nzero N) a = true -> nleb N (nzero N) x = true ->
               nleb N a (nadd N a x) = true) ->
  (forall a b c, nltb N (nzero N) c = true -> nleb N a b = true ->
                 nleb N (ndiv N a c) (ndiv N b c) = true) ->
  forall (p : list T) (L : T),
  nltb N (nzero N) L = true ->
  Forall (fun x => nleb N (nzero N) x = true) p ->
  StronglySorted (fun a b => nleb N a b = true) (map (fun x => ndiv N x L) (ncumsum N p)).
Proof. exact (@cdf_sorted). Qed.
Print Assumptions C08_cdf_sorted.

(* ---- minimiser restarts never touch the service handed in as `rss`:
   one trial ---- *)
Theorem C08_trial : forall (rng val : Type) (seed_rng : Z -> rng)
    (draw : rng -> req -> val * rng) (bdata data : Type)
    (bkg : rss rng -> bdata * rss rng) (sig : bdata -> rss rng -> data * rss rng)
    (impl : nat -> option val -> bool * bool)
    (r : rss rng) (mr : option (rss rng)) (maxrep nfloat : Z),
  exists reps fit,
    do_trial rng val seed_rng draw impl bdata data bkg sig r mr maxrep nfloat
    = Ok (fst (let '(b, r1) := bkg r in sig b r1),
          rs_seed (snd (let '(b, r1) := bkg r in sig b r1)),
          fit,
          snd (let '(b, r1) := bkg r in sig b r1),
          iter_state (rss rng) (fun m => snd (rss_draw rng val draw m (RUniform nfloat)))
                     (Z.to_nat reps)
                     (match mr with None => rss_new rng seed_rng (rs_seed r) | Some m => m end))
    /\ 0 <= reps <= Z.max 0 maxrep /\ (fit = Ok reps \/ fit = Err ValueError).
Proof. exact do_trial_spec. Qed.
Print Assumptions C08_trial.

(* n trials: whatever the minimiser does (oracle per trial, repetition limit,
   number of floating parameters, the service it was given), the generated
   pseudo data and the final state of `rss` are the same *)
Theorem C08_noninterference : forall (rng val : Type) (seed_rng : Z -> rng)
    (draw : rng -> req -> val * rng) (bdata data : Type)
    (bkg : rss rng -> bdata * rss rng) (sig : bdata -> rss rng -> data * rss rng)
    (impls1 impls2 : list (nat -> option val -> bool * bool))
    (r : rss rng) (mr1 mr2 : option (rss rng)) (mx1 mx2 nf1 nf2 : Z),
  length impls1 = length impls2 ->
  exists l1 l2 r' m1 m2,
    do_trials_seq rng val seed_rng draw bdata data bkg sig impls1 r mr1 mx1 nf1 = Ok (l1, r', m1)
    /\ do_trials_seq rng val seed_rng draw bdata data bkg sig impls2 r mr2 mx2 nf2 = Ok (l2, r', m2)
    /\ map (fun x => fst (fst x)) l1 = map (fun x => fst (fst x)) l2.
Proof. exact trials_noninterference. Qed.
Print Assumptions C08_noninterference.

(* determinism of the data stream: it is the n-fold iteration of
   generate_pseudo_data started from the service's state *)
Theorem C08_determinism : forall (rng val : Type) (seed_rng : Z -> rng)
    (draw : rng -> req -> val * rng) (bdata data : Type)
    (bkg : rss rng -> bdata * rss rng) (sig : bdata -> rss rng -> data * rss rng)
    (impls : list (nat -> option val -> bool * bool))
    (r : rss rng) (mr : option (rss rng)) (maxrep nfloat : Z),
  exists l r' mr',
    do_trials_seq rng val seed_rng draw bdata data bkg sig impls r mr maxrep nfloat = Ok (l, r', mr')
    /\ map (fun x => fst (fst x)) l
       = fst (data_stream (rss rng) data (fun r => let '(b, r1) := bkg r in sig b r1) (length impls) r)
    /\ r' = snd (data_stream (rss rng) data (fun r => let '(b, r1) := bkg r in sig b r1) (length impls) r)
    /\ length l = length impls.
Proof. exact do_trials_seq_spec. Qed.
Print Assumptions C08_determinism.

(* ---- MCDataSamplingBkgGenMethod.generate_events (no pre-selection): the
   requests go to the handed service in the order [poisson] random(n) [uniform(n)] ---- *)
Theorem C08_bkg_draws : forall (rng val : Type) (draw : rng -> req -> val * rng) (val_int : val -> Z)
    (poisson : bool) (n_fixed : Z) (scramble : bool) (r : rss rng),
  bkg_mc rng val draw val_int poisson n_fixed scramble r
  = let n := if poisson then val_int (fst (rss_draw rng val draw r (RPoisson 0))) else n_fixed in
    let r1 := if poisson then snd (rss_draw rng val draw r (RPoisson 0)) else r in
    let r2 := snd (rc_draw rng val draw r1 n) in
    (n, if scramble then snd (rss_draw rng val draw r2 (RUniform n)) else r2).
Proof. exact bkg_mc_spec. Qed.
Print Assumptions C08_bkg_draws.

(* ---- the seeds recorded in the rows appended by extend_trial_data_file ->
   create_trial_data_file -> do_trials -> parallelize -> do_trial.  One process:
   every row carries the chosen, unused seed. ---- *)
Theorem C08_extend_rows : forall (rng val : Type) (seed_rng : Z -> rng)
    (draw : rng -> req -> val * rng) (val_int : val -> Z) (rss_seed : Z) (seeds : list Z),
  exists s, extend_rows rng val seed_rng draw val_int rss_seed seeds 1 = Ok [s]
            /\ ~ In s seeds /\ extend_seed rss_seed seeds = Ok s.
Proof. exact extend_rows_single. Qed.
Print Assumptions C08_extend_rows.

(* several processes - partial: the master's rows carry the chosen unused seed;
   the rows of worker k carry the k-th randint(0, 2^32) read of the re-seeded
   service, about which nothing is guaranteed (see the refutation below) *)
Theorem C08_extend_rows_workers_partial : forall (rng val : Type) (seed_rng : Z -> rng)
    (draw : rng -> req -> val * rng) (val_int : val -> Z) (rss_seed : Z) (seeds : list Z) (ncpu : Z),
  1 < ncpu ->
  exists s, extend_seed rss_seed seeds = Ok s /\ ~ In s seeds
    /\ extend_rows rng val seed_rng draw val_int rss_seed seeds ncpu
       = Ok (s :: fst (randints rng val draw val_int (Z.to_nat (ncpu - 1))
                                {| rs_seed := s; rs_st := seed_rng s |})).
Proof. exact extend_rows_workers. Qed.
Print Assumptions C08_extend_rows_workers_partial.

(* refuted for ncpu = 2: a generator whose first randint after seed 2 is 1 makes the
   worker's rows carry the seed 1, which already occurs in the file *)
Example C08_extend_rows_workers_refuted :
  exists (table : list (Z * list Z)) (rss_seed : Z) (seeds : list Z) (s w : Z),
    extend_rows tm_rng Z (tm_seed table) tm_draw (fun v => v) rss_seed seeds 2 = Ok [s; w]
    /\ ~ In s seeds /\ In w seeds.
Proof.
  exists [(2, [1])], 1, [0; 1], 2, 1. split; [vm_compute; reflexivity|].
  split; [cbn; intuition lia | cbn; tauto].
Qed.

(* ---- Analysis.generate_signal_events writes the mean into the CALLER's
   sig_kwargs dictionary: whatever entry an earlier use left there, every
   generation hands the signal generator the mean_n_sig of that call (and none
   when mean_n_sig = 0) ---- *)
Theorem C08_sig_kwargs : forall (kw : option Z) (means : list Z),
  sig_means_used kw means = map (fun m => if m =? 0 then None else Some m) means.
Proof. exact (fun kw means => sig_means_used_spec means kw). Qed.
Print Assumptions C08_sig_kwargs.

Example C08_sig_kwargs_example :
  sig_means_used None [1; 3; 0; 2] = [Some 1; Some 3; None; Some 2]
  /\ sig_means_used (Some 7) [1; 3] = [Some 1; Some 3].
Proof. split; vm_compute; reflexivity. Qed.

(* ---- the caller passes the SAME service as rss and as minimizer_rss ----
   partial: the pseudo data of this trial is still that of generate_pseudo_data
   on rss, but rss is left advanced by the minimiser's `reps` requests too *)
Theorem C08_alias_partial : forall (rng val : Type)
    (draw : rng -> req -> val * rng) (impl : nat -> option val -> bool * bool)
    (bdata data : Type)
    (bkg : rss rng -> bdata * rss rng) (sig : bdata -> rss rng -> data * rss rng)
    (r : rss rng) (maxrep nfloat : Z),
  exists reps fit,
    do_trial_aliased rng val draw impl bdata data bkg sig r maxrep nfloat
    = Ok (fst (let '(b, r1) := bkg r in sig b r1),
          rs_seed (iter_state (rss rng) (fun m => snd (rss_draw rng val draw m (RUniform nfloat)))
                              (Z.to_nat reps) (snd (let '(b, r1) := bkg r in sig b r1))),
          fit,
          iter_state (rss rng) (fun m => snd (rss_draw rng val draw m (RUniform nfloat)))
                     (Z.to_nat reps) (snd (let '(b, r1) := bkg r in sig b r1)))
    /\ 0 <= reps <= Z.max 0 maxrep.
Proof. exact do_trial_aliased_spec. Qed.
Print Assumptions C08_alias_partial.

(* refuted for the aliased call: the state rss is left in - hence the NEXT
   trial's pseudo data - depends on the minimiser (0 vs. 2 restarts) *)
Example C08_alias_refuted :
  exists (impl1 impl2 : nat -> option Z -> bool * bool),
    let bkg := tm_script [RPoisson 0; RRandom 4] in
    let sg := fun (_ : list Z) => tm_script [RRandom 2] in
    let r := rss_new tm_rng (tm_seed []) 5 in
    match do_trial_aliased tm_rng Z tm_draw impl1 (list Z) (list Z) bkg sg r 10 2,
          do_trial_aliased tm_rng Z tm_draw impl2 (list Z) (list Z) bkg sg r 10 2 with
    | Ok (d1, _, _, r1), Ok (d2, _, _, r2) => d1 = d2 /\ tm_log r1 <> tm_log r2
    | _, _ => False
    end.
Proof.
  exists (fun _ _ => (true, true)), (fun k _ => (Nat.leb 2 k, true)).
  vm_compute. split; [reflexivity | discriminate].
Qed.

(* ---- MCMultiDatasetSignalGenerator.generate_signal_events: every request
   goes to the handed service, in the order [poisson] choice(n) re-draws;
   each re-draw asks for at least one candidate.  The re-draw loop is unbounded
   in the code: the statement is about runs that finish (Ok), see the two
   theorems after it. ---- *)
Theorem C08_signal_draws : forall (rng val : Type) (draw : rng -> req -> val * rng)
    (val_int : val -> Z) (sig_groups : val -> list Z) (sig_valid : Z -> val -> Z)
    (fuel : nat) (poisson : bool) (mean : Z) (r : rss rng) (n : Z) (r' : rss rng),
  sig_mc rng val draw val_int sig_groups sig_valid fuel poisson mean r = Ok (n, r') ->
  n = (if poisson then val_int (fst (rss_draw rng val draw r (RPoisson 1))) else mean)
  /\ exists ks,
       r' = rc_draws rng val draw (n :: ks)
                     (if poisson then snd (rss_draw rng val draw r (RPoisson 1)) else r)
       /\ Forall (fun k => 1 <= k) ks.
Proof. exact sig_mc_spec. Qed.
Print Assumptions C08_signal_draws.

Theorem C08_signal_redraw_terminates : forall (rng val : Type) (draw : rng -> req -> val * rng)
    (sig_valid : Z -> val -> Z) (g : Z),
  (forall v, 1 <= sig_valid g v) ->
  forall (fuel : nat) (n ns : Z) (r : rss rng), ns - n <= Z.of_nat fuel ->
  exists r', redraw_loop rng val draw sig_valid fuel g n ns r = Ok r'.
Proof. exact redraw_progress. Qed.
Print Assumptions C08_signal_redraw_terminates.

(* the guard is needed: when no re-draw ever yields a valid event of the group
   (e.g. the valid field ranges exclude all its candidates) the loop never ends *)
Theorem C08_signal_redraw_diverges : forall (rng val : Type) (draw : rng -> req -> val * rng)
    (sig_valid : Z -> val -> Z) (g : Z),
  (forall v, sig_valid g v = 0) ->
  forall (fuel : nat) (ns : Z) (r : rss rng), 0 < ns ->
  redraw_loop rng val draw sig_valid fuel g 0 ns r = Err OutOfFuel.
Proof. exact redraw_no_progress. Qed.
Print Assumptions C08_signal_redraw_diverges.

(* C08_trial with this signal generation plugged in (where it finishes) *)
Theorem C08_trial_signal : forall (rng val : Type) (seed_rng : Z -> rng)
    (draw : rng -> req -> val * rng) (val_int : val -> Z)
    (sig_groups : val -> list Z) (sig_valid : Z -> val -> Z)
    (fuel : nat) (poisson : bool) (mean : Z)
    (bkg : rss rng -> list Z * rss rng)
    (impl : nat -> option val -> bool * bool)
    (r : rss rng) (mr : option (rss rng)) (maxrep nfloat : Z),
  let sg := fun (b : list Z) (x : rss rng) =>
              match sig_mc rng val draw val_int sig_groups sig_valid fuel poisson mean x with
              | Ok (n, x') => (n :: b, x')
              | Err _ => (b, x)
              end in
  exists reps fit,
    do_trial rng val seed_rng draw impl (list Z) (list Z) bkg sg r mr maxrep nfloat
    = Ok (fst (let '(b, r1) := bkg r in sg b r1),
          rs_seed (snd (let '(b, r1) := bkg r in sg b r1)),
          fit,
          snd (let '(b, r1) := bkg r in sg b r1),
          iter_state (rss rng) (fun m => snd (rss_draw rng val draw m (RUniform nfloat)))
                     (Z.to_nat reps)
                     (match mr with None => rss_new rng seed_rng (rs_seed r) | Some m => m end))
    /\ 0 <= reps <= Z.max 0 maxrep /\ (fit = Ok reps \/ fit = Err ValueError).
Proof.
  exact (fun rng val seed_rng draw val_int sig_groups sig_valid fuel poisson mean bkg impl r mr maxrep nfloat =>
           do_trial_spec rng val seed_rng draw (list Z) (list Z) bkg _ impl r mr maxrep nfloat).
Qed.
Print Assumptions C08_trial_signal.

(* signal generation on the logging machine: poisson -> 3, choice(3), two groups
   with 2 and 0 invalid events; the first re-draw of group 0 yields 1 valid
   event, the second 1 *)
Example C08_signal_example :
  let groups := fun v : Z => if v =? 1001 then [2; 0] else [] in
  let valid := fun (g v : Z) => 1 in
  let r := rss_new tm_rng (tm_seed [(5, [3; 1001; 1002; 1003])]) 5 in
  match sig_mc tm_rng Z tm_draw (fun v => v) groups valid 10 true 0 r with
  | Ok (n, r') => n = 3 /\ tm_log r' = (5, [RPoisson 1; RRandom 3; RRandom 2; RRandom 1])
  | Err _ => False
  end.
Proof. vm_compute. split; reflexivity. Qed.

(* ---- Minimizer.minimize: terminates within max_repetitions, draws exactly
   `reps` times uniform(size=n_floating) from the service it is handed, and
   leaves the other service alone ---- *)
Theorem C08_minimize : forall (rng val : Type) (draw : rng -> req -> val * rng)
    (impl : nat -> option val -> bool * bool) (r m : rss rng) (maxrep nfloat : Z),
  exists reps fit,
    minimize rng val draw impl [r; m] 1 maxrep nfloat
      = Ok (fit, [r; iter_state (rss rng)
                       (fun m => snd (rss_draw rng val draw m (RUniform nfloat)))
                       (Z.to_nat reps) m])
    /\ 0 <= reps <= Z.max 0 maxrep
    /\ (fit = Ok reps \/ fit = Err ValueError).
Proof. exact minimize_spec. Qed.
Print Assumptions C08_minimize.

(* ---- per-worker services ---- *)
(* worker pid (0 < pid < ncpu) gets a fresh service seeded with the pid-th
   randint(0, 2^32) draw of the parent service: a function of the parent's
   state and pid only *)
Theorem C08_workers : forall (rng val : Type) (seed_rng : Z -> rng)
    (draw : rng -> req -> val * rng) (val_int : val -> Z)
    (parent : rss rng) (ncpu pid : Z),
  1 < ncpu -> 0 < pid < ncpu ->
  exists s,
    nth_error (fst (randints rng val draw val_int (Z.to_nat (ncpu - 1)) parent))
              (Z.to_nat (pid - 1)) = Some s
    /\ proc_rss rng val seed_rng draw val_int parent ncpu pid = Ok (rss_new rng seed_rng s).
Proof. exact proc_rss_worker. Qed.
Print Assumptions C08_workers.

Theorem C08_workers_master : forall (rng val : Type) (seed_rng : Z -> rng)
    (draw : rng -> req -> val * rng) (val_int : val -> Z) (parent : rss rng) (ncpu : Z),
  1 <= ncpu ->
  proc_rss rng val seed_rng draw val_int parent ncpu 0
    = Ok (snd (randints rng val draw val_int (Z.to_nat (ncpu - 1)) parent))
  /\ zlen (rss_list rng val seed_rng draw val_int parent ncpu) = ncpu.
Proof. exact proc_rss_master_len. Qed.
Print Assumptions C08_workers_master.

(* the seed of a worker does not depend on how many workers follow it *)
Theorem C08_workers_prefix : forall (rng val : Type)
    (draw : rng -> req -> val * rng) (val_int : val -> Z) (n m : nat) (r : rss rng),
  (n <= m)%nat ->
  fst (worker_seeds rng val draw val_int n r)
    = firstn n (fst (worker_seeds rng val draw val_int m r)).
Proof. exact worker_seeds_prefix. Qed.
Print Assumptions C08_workers_prefix.

(* ---- parallelize: same seed, same ncpu => the same result list for every
   order in which the worker processes deliver their result records ---- *)
Theorem C08_assembly_order : forall (A : Type) (res0 : list A) (arr1 arr2 : list (Z * list A)),
  Permutation arr1 arr2 ->
  NoDup (map fst arr1) ->
  (forall pid, In pid (map fst arr1) <-> 1 <= pid <= Z.of_nat (length arr1)) ->
  exists out, assemble (collect res0 arr1) = Ok out /\ assemble (collect res0 arr2) = Ok out.
Proof. exact (@assemble_order_independent). Qed.
Print Assumptions C08_assembly_order.

(* ---- RandomStateService.reseed(s) rewinds the stream to that of a fresh
   RandomStateService(s), for every prior state and every prior seed -
   including a service that already carries the seed s ---- *)
Theorem C08_reseed : forall (rng val : Type) (seed_rng : Z -> rng)
    (draw : rng -> req -> val * rng) (r : rss rng) (s : Z) (qs : list req),
  let run := fix run (qs : list req) (x : rss rng) : list val :=
               match qs with
               | [] => []
               | q :: rest => let '(v, x') := rss_draw rng val draw x q in v :: run rest x'
               end in
  run qs (rss_reseed rng seed_rng r s) = run qs (rss_new rng seed_rng s)
  /\ rss_seed rng (rss_reseed rng seed_rng r s) = s.
Proof. exact rss_reseed_stream. Qed.
Print Assumptions C08_reseed.

Theorem C08_reseed_state : forall (rng : Type) (seed_rng : Z -> rng) (r : rss rng) (s : Z),
  rss_reseed rng seed_rng r s = {| rs_seed := s; rs_st := seed_rng s |}.
Proof.
  exact (fun rng seed_rng r s =>
           eq_trans (rss_reseed_fresh rng seed_rng r s) (proj1 (rss_new_spec rng seed_rng s))).
Qed.
Print Assumptions C08_reseed_state.

(* ------------------------------------------------------------------ *)
(* non-vacuity *)
(* a service seeded 5 that has answered three requests, re-seeded with the SAME seed 5 *)
Example C08_reseed_example :
  let tbl := [(5, [11; 12; 13; 14])] in
  let r0 := rss_new tm_rng (tm_seed tbl) 5 in
  let '(_, r3) := tm_script [RRandom 1; RPoisson 0; RUniform 2] r0 in
  fst (rs_st r3) = [14]
  /\ fst (rs_st (rss_reseed tm_rng (tm_seed tbl) r3 5)) = [11; 12; 13; 14]
  /\ rs_seed (rss_reseed tm_rng (tm_seed tbl) r3 5) = 5.
Proof. vm_compute. repeat split. Qed.

Example C08_assembly_example :
  assemble (collect [10; 11] [(2, [30]); (1, [20; 21]); (3, [])]) = Ok [10; 11; 20; 21; 30]
  /\ assemble (collect [10; 11] [(1, [20; 21]); (3, []); (2, [30])]) = Ok [10; 11; 20; 21; 30]
  /\ NoDup (map fst [(2, [30]); (1, [20; 21]); (3, @nil Z)]).
Proof. repeat split; try (vm_compute; reflexivity). repeat constructor; cbn; intuition lia. Qed.

Example C08_seed_examples :
  extend_seed 1 [0; 1] = Ok 2 /\ extend_seed 0 [0; 1] = Ok 2
  /\ extend_seed 0 [3; 0; 1; 2; 5; 1] = Ok 4 /\ extend_seed 7 [0; 1] = Ok 7
  /\ extend_seed 0 [] = Ok 0 /\ extend_seed 2 [2; -1; 1] = Ok 3.
Proof. repeat split; vm_compute; reflexivity. Qed.

(* a probability vector with leading, inner and trailing zeros over the
   rationals meets every premise of C08_choice_Q; uniforms 0, a cdf entry
   itself, just below 1 *)
Example C08_choice_example :
  let p := [0; 1 # 4; 0; 1 # 2; 1 # 4; 0]%Q in
  let u := [3 # 4; 0; 1 # 4; 999 # 1000; 1 # 8]%Q in
  Forall (fun x => Qle_bool 0 x = true) p
  /\ Forall (fun x => Qle_bool 0 x = true /\ Qltb x 1 = true) u
  /\ (exists rc, rc_init QNum (1 # 1000000) (1 # 1000000) [10; 11; 12; 13; 14; 15] p = Ok rc)
  /\ (forall L, py_get (ncumsum QNum p) (-1) = Ok L -> Qltb 0 L = true)
  /\ Permutation [1; 4; 2; 0; 3]%nat (seq 0 (length u))
  /\ rc_run QNum (1 # 1000000) (1 # 1000000) [10; 11; 12; 13; 14; 15] p u
            (map Z.of_nat [1; 4; 2; 0; 3]%nat) 77 = Ok [14; 11; 13; 14; 11].
Proof.
  cbv zeta. split; [repeat constructor|]. split; [repeat constructor|].
  split; [eexists; vm_compute; reflexivity|].
  split; [intros L H; vm_compute in H; inversion H; reflexivity|].
  split; [|vm_compute; reflexivity].
  apply (Permutation_trans (l' := [0; 1; 4; 2; 3]%nat)).
  - apply (perm_trans (l' := [1; 0; 4; 2; 3]%nat)); [|apply perm_swap].
    apply perm_skip. apply (perm_trans (l' := [4; 0; 2; 3]%nat)); [|apply perm_swap].
    apply perm_skip. apply (perm_trans (l' := [2; 0; 3]%nat)); [|].
    + apply perm_skip. apply Permutation_refl.
    + apply perm_swap.
  - apply perm_skip. apply perm_skip.
    apply (perm_trans (l' := [2; 4; 3]%nat)); [apply perm_swap|].
    apply perm_skip. apply perm_swap.
Qed.

(* a trial on the logging machine: three restarts draw three times from the
   service seeded with rss.seed = 5 and never from `rss` itself *)
Example C08_trial_example :
  let impl := fun (k : nat) (_ : option Z) => (Nat.leb 3 k, true) in
  let bkg := tm_script [RPoisson 0; RRandom 4; RUniform 4] in
  let sg := fun (_ : list Z) => tm_script [RPoisson 1; RRandom 2] in
  let r := rss_new tm_rng (tm_seed []) 5 in
  match do_trial tm_rng Z (tm_seed []) tm_draw impl (list Z) (list Z) bkg sg r None 10 2 with
  | Ok (_, sd, fit, r', m') =>
      sd = 5 /\ fit = Ok 3
      /\ tm_log r' = (5, [RPoisson 0; RRandom 4; RUniform 4; RPoisson 1; RRandom 2])
      /\ tm_log m' = (5, [RUniform 2; RUniform 2; RUniform 2])
  | Err _ => False
  end.
Proof. vm_compute. repeat split. Qed.

(* ---- Extension: ParameterSet.generate_random_floating_param_initials ----
   one initial per floating parameter (ValueError on a length mismatch), and
   over the rationals every initial lies within the bounds of its parameter
   for uniforms in [0,1] and lower <= upper *)
Theorem C08_initials_shape : forall (T : Type) (N : Num T) (bounds : list (T * T)) (u r : list T),
  param_initials N bounds u = Ok r -> length r = length bounds /\ length u = length bounds.
Proof. exact (@param_initials_length). Qed.
Print Assumptions C08_initials_shape.

Theorem C08_initials_in_bounds_Q : forall (bounds : list (Q * Q)) (u r : list Q),
  Forall (fun b => (fst b <= snd b)%Q) bounds ->
  Forall (fun x => (0 <= x)%Q /\ (x <= 1)%Q) u ->
  param_initials QNum bounds u = Ok r ->
  Forall2 (fun b v => (fst b <= v)%Q /\ (v <= snd b)%Q) bounds r.
Proof. exact param_initials_in_bounds_Q. Qed.
Print Assumptions C08_initials_in_bounds_Q.

Example C08_initials_example :
  match param_initials QNum [(0, 2); (1, 9); (-3, -3)]%Q [1 # 2; 1 # 4; 1]%Q with
  | Ok r => map Qred r = [1; 3; -3]%Q
  | Err _ => False
  end /\ param_initials QNum [(0, 2)]%Q [] = Err ValueError.
Proof. split; vm_compute; reflexivity. Qed.
