(* C03 — dataset and source weights form a partition of unity; composition laws.
   Statements only; every proof is `exact <lemma>`.  Real-number reading (RNum erfR);
   the model functions are those of model/M_Weights.v, the manual's
   formulas those of spec/S_Weights.v and spec/S_Llh.v. *)
From Coq Require Import Reals ZArith List Bool Lra Lia Permutation.
From Sky Require Import Result PyList Num NumR G_weights M_Weights S_Llh S_Weights
     P_WeightsBase P_Weights P_Stacked P_WeightsComp P_WeightsSvc P_WeightsTable P_WeightsPerm.
Import ListNotations.
Open Scope R_scope.

(* ---------------------------------------------------------------- partition of unity *)
Theorem C03_fj_sum1 : forall (erfR : R -> R) (a : list (list R)),
  Rsum (map Rsum a) <> 0 -> Rsum (f_j (RNum erfR) a) = 1.
Proof. exact f_j_sum1. Qed.
Print Assumptions C03_fj_sum1.

Theorem C03_fj_nonneg : forall (erfR : R -> R) (a : list (list R)),
  Forall (Forall (fun x => 0 <= x)) a -> 0 < Rsum (map Rsum a) ->
  Forall (fun f => 0 <= f) (f_j (RNum erfR) a).
Proof. exact f_j_nonneg. Qed.
Print Assumptions C03_fj_nonneg.

Theorem C03_fj_le1 : forall (erfR : R -> R) (a : list (list R)),
  Forall (Forall (fun x => 0 <= x)) a -> 0 < Rsum (map Rsum a) ->
  Forall (fun f => f <= 1) (f_j (RNum erfR) a).
Proof. exact f_j_le1. Qed.
Print Assumptions C03_fj_le1.

(* the code's expression is the manual's un-simplified sum_k f_k * f_{j|k} wherever
   that is defined (every source has a non-zero total yield) *)
Theorem C03_fj_manual : forall (erfR : R -> R) (a : list (list R)) (K : nat),
  Forall (fun row => length row = K) a ->
  (forall k, (k < K)%nat -> colsum a k <> 0) -> total a <> 0 ->
  f_j (RNum erfR) a = map (f_j_manual a K) a.
Proof. exact f_j_is_manual. Qed.
Print Assumptions C03_fj_manual.

(* ... and stays the partition of unity where the manual's expression is 0/0 *)
Theorem C03_fj_manual_undefined_code_defined : forall (erfR : R -> R),
  let a := [[1; 0]; [3; 0]] in
  colsum a 1 = 0 /\ f_j (RNum erfR) a = [1 / 4; 3 / 4].
Proof. exact manual_undefined_code_defined. Qed.
Print Assumptions C03_fj_manual_undefined_code_defined.

(* ---------------------------------------------------------------- a_jk table, group slices *)
Theorem C03_slices_tile : forall (sizes : list Z) (i : Z),
  Forall (fun n => (0 <= n)%Z) sizes ->
  length (filter (in_slice i) (slices sizes))
  = if ((0 <=? i) && (i <? zsum sizes))%Z then 1%nat else 0%nat.
Proof. exact slices_tile. Qed.
Print Assumptions C03_slices_tile.

Theorem C03_slices_chained : forall (sizes : list Z),
  Forall (fun n => (0 <= n)%Z) sizes -> chained 0%Z (slices sizes) (zsum sizes).
Proof. exact slices_chained. Qed.
Print Assumptions C03_slices_chained.

(* the service's table is W_k * Y_jk laid out group after group; it is Ok, i.e. no
   cell of the np.empty table is left unwritten (that would be Err AssertionError) *)
Theorem C03_a_jk_table : forall (erfR : R -> R) (J : nat) (groups : list (list R * list (list R))),
  wf_groups J groups -> a_jk_calc (RNum erfR) J groups = Ok (a_spec J groups).
Proof. exact a_jk_calc_spec. Qed.
Print Assumptions C03_a_jk_table.

(* a long-lived service after change_shg_mgr = a freshly built one (any number system) *)
Theorem C03_change_shg_mgr_fresh : forall (T : Type) (N : Num T) (J : nat)
    (W0 : list (list T)) (changes : list (list (list T))) (W : list (list T))
    (Ycols : list (list (list T))),
  a_jk_after N J W0 (changes ++ [W]) Ycols = a_jk_calc N J (combine W Ycols).
Proof. exact @a_jk_after_fresh. Qed.
Print Assumptions C03_change_shg_mgr_fresh.

(* ---------------------------------------------------------------- stacked ratio *)
Theorem C03_stacked_checked : forall (erfR : R -> R) (a_k : list R) (n_sel : nat)
    (vals : list (nat * nat * R)) (Ri : list R),
  stacked_ratio (RNum erfR) a_k n_sel vals = Ok Ri ->
  idx_ok (length a_k) n_sel vals = true /\ Ri = sw_ratio (RNum erfR) a_k n_sel vals.
Proof. intros erfR. exact (stacked_ratio_inv (RNum erfR)). Qed.
Print Assumptions C03_stacked_checked.

Theorem C03_weighted_mean : forall (erfR : R -> R) (a_k : list R) (n_sel : nat)
    (vals : list (nat * nat * R)) (e : nat),
  NoDup (map pair_of vals) -> (e < n_sel)%nat ->
  nth e (sw_ratio (RNum erfR) a_k n_sel vals) 0 =
  Rsum (map (fun k => lookup vals k e * nth k a_k 0) (seq 0 (length a_k))) / Rsum a_k.
Proof. exact stacked_ratio_is_weighted_mean. Qed.
Print Assumptions C03_weighted_mean.

Theorem C03_weighted_mean_between : forall (erfR : R -> R) (a_k : list R) (n_sel : nat)
    (vals : list (nat * nat * R)) (e : nat) (m M : R),
  NoDup (map pair_of vals) -> (e < n_sel)%nat ->
  Forall (fun x => 0 <= x) a_k -> 0 < Rsum a_k ->
  (forall k, (k < length a_k)%nat -> m <= lookup vals k e <= M) ->
  m <= nth e (sw_ratio (RNum erfR) a_k n_sel vals) 0 <= M.
Proof. exact stacked_ratio_between. Qed.
Print Assumptions C03_weighted_mean_between.

(* the duplicate-free pair table (invariant of the event selection, C05) is needed:
   numpy's `+=` through an index array keeps only the last of two writes *)
Theorem C03_stacked_dup_refuted : forall (erfR : R -> R),
  exists a_k vals,
    ~ NoDup (map pair_of vals) /\
    nth 0 (sw_ratio (RNum erfR) a_k 1 vals) 0
    <> Rsum (map (fun v => snd v * nth (src_of v) a_k 0) vals) / Rsum a_k.
Proof. exact stacked_dup_refuted. Qed.
Print Assumptions C03_stacked_dup_refuted.

(* ---------------------------------------------------------------- additivity *)
Theorem C03_additive : forall (erfR : R -> R) (opa ns : R) (J : nat)
    (groups : list (list R * list (list R))) (ds : list (dset (T:=R))) (v : R),
  multi_eval (RNum erfR) opa ns J groups ds = Ok v ->
  exists a Rs,
    a_jk_calc (RNum erfR) J groups = Ok a /\ length ds = J
    /\ (length ds <= length (f_j (RNum erfR) a))%nat
    /\ Forall2 (fun d Rj => exists a_k, py_get a (d_idx d) = Ok a_k
                  /\ stacked_ratio (RNum erfR) a_k (d_nsel d) (d_vals d) = Ok Rj) ds Rs
    /\ v = Rsum (map (fun q => logLambda_manual (opa - 1) (d_N (fst (snd q))) (ns * fst q) (snd (snd q)))
                     (combine (f_j (RNum erfR) a) (combine ds Rs))).
Proof. exact multi_eval_additive. Qed.
Print Assumptions C03_additive.

(* ---------------------------------------------------------------- permutations *)
Theorem C03_perm_datasets_fj : forall (erfR : R -> R) (a a' : list (list R)),
  Permutation a a' -> Permutation (f_j (RNum erfR) a) (f_j (RNum erfR) a').
Proof. exact f_j_perm. Qed.
Print Assumptions C03_perm_datasets_fj.

Theorem C03_perm_datasets_value : forall (erfR : R -> R) (opa ns : R)
    (fd fd' : list (R * (R * list R))),
  Permutation fd fd' ->
  multi_value (RNum erfR) opa ns (map fst fd) (map snd fd)
  = multi_value (RNum erfR) opa ns (map fst fd') (map snd fd').
Proof. exact multi_value_perm. Qed.
Print Assumptions C03_perm_datasets_value.

(* rows of a_jk with their data (N_j, n_selected_j, pair table_j); the ratios of a
   dataset are the stacked ratios of its own row *)
Theorem C03_perm_datasets_rows : forall (erfR : R -> R) (opa ns : R)
    (rd rd' : list (list R * (R * nat * list (nat * nat * R)))),
  Permutation rd rd' ->
  let data := fun x : list R * (R * nat * list (nat * nat * R)) =>
    (fst (fst (snd x)), sw_ratio (RNum erfR) (fst x) (snd (fst (snd x))) (snd (snd x))) in
  multi_value (RNum erfR) opa ns (f_j (RNum erfR) (map fst rd)) (map data rd)
  = multi_value (RNum erfR) opa ns (f_j (RNum erfR) (map fst rd')) (map data rd').
Proof. exact multi_value_perm_rows. Qed.
Print Assumptions C03_perm_datasets_rows.

Theorem C03_perm_sources_fj : forall (erfR : R -> R) (a a' : list (list R)),
  Forall2 (fun r r' => Permutation r r') a a' -> f_j (RNum erfR) a = f_j (RNum erfR) a'.
Proof. exact f_j_perm_sources. Qed.
Print Assumptions C03_perm_sources_fj.

(* new source j is old source p[j]: weights permuted, labels of the pair table mapped *)
Theorem C03_perm_sources_ratio : forall (erfR : R -> R) (a_k : list R) (n_sel : nat)
    (vals : list (nat * nat * R)) (p : list nat) (e : nat),
  Permutation p (seq 0 (length a_k)) ->
  NoDup (map pair_of vals) ->
  Forall (fun v => (src_of v < length a_k)%nat) vals -> (e < n_sel)%nat ->
  nth e (sw_ratio (RNum erfR) (map (fun i => nth i a_k 0) p) n_sel vals) 0
  = nth e (sw_ratio (RNum erfR) a_k n_sel (map (relabel p) vals)) 0.
Proof. exact stacked_ratio_perm_sources. Qed.
Print Assumptions C03_perm_sources_ratio.

(* the order of the value array (rows of the pair table) is irrelevant *)
Theorem C03_value_order_ratio : forall (erfR : R -> R) (a_k : list R) (n_sel : nat)
    (vals vals' : list (nat * nat * R)),
  NoDup (map pair_of vals) -> Permutation vals vals' ->
  sw_ratio (RNum erfR) a_k n_sel vals = sw_ratio (RNum erfR) a_k n_sel vals'.
Proof. exact stacked_ratio_value_order. Qed.
Print Assumptions C03_value_order_ratio.

(* ---------------------------------------------------------------- scale W -> c W *)
Theorem C03_scale_fj : forall (erfR : R -> R) (c : R) (W : list R) (Y : list (list R)),
  c <> 0 -> Rsum (map Rsum (a_table (RNum erfR) W Y)) <> 0 ->
  f_j (RNum erfR) (a_table (RNum erfR) (map (Rmult c) W) Y) = f_j (RNum erfR) (a_table (RNum erfR) W Y).
Proof. exact f_j_scale. Qed.
Print Assumptions C03_scale_fj.

Theorem C03_scale_ratio : forall (erfR : R -> R) (c : R) (a_k : list R) (n_sel : nat)
    (vals : list (nat * nat * R)),
  c <> 0 -> Rsum a_k <> 0 ->
  sw_ratio (RNum erfR) (map (Rmult c) a_k) n_sel vals = sw_ratio (RNum erfR) a_k n_sel vals.
Proof. exact stacked_ratio_scale. Qed.
Print Assumptions C03_scale_ratio.

(* end to end through the services, any grouping: same fractions, same value, same errors *)
Theorem C03_scale_services : forall (erfR : R -> R) (c : R) (J : nat)
    (groups : list (list R * list (list R))),
  c <> 0 -> wf_groups J groups -> total (a_spec J groups) <> 0 ->
  exists a, weights_eval (RNum erfR) J groups = Ok (a, f_j (RNum erfR) a)
    /\ weights_eval (RNum erfR) J (map (fun g => (map (Rmult c) (fst g), snd g)) groups)
       = Ok (map (map (Rmult c)) a, f_j (RNum erfR) a).
Proof. exact weights_eval_scale. Qed.
Print Assumptions C03_scale_services.

Theorem C03_scale_value : forall (erfR : R -> R) (c opa ns : R) (J : nat)
    (groups : list (list R * list (list R))) (ds : list (dset (T:=R))),
  c <> 0 -> wf_groups J groups ->
  Forall (fun row => Rsum row <> 0) (a_spec J groups) -> total (a_spec J groups) <> 0 ->
  multi_eval (RNum erfR) opa ns J (map (fun g => (map (Rmult c) (fst g), snd g)) groups) ds
  = multi_eval (RNum erfR) opa ns J groups ds.
Proof. exact multi_eval_scale. Qed.
Print Assumptions C03_scale_value.

(* ---------------------------------------------------------------- guards are needed *)
Theorem C03_fj_sum1_guard_needed : forall (erfR : R -> R),
  exists a : list (list R), Rsum (map Rsum a) = 0 /\ Rsum (f_j (RNum erfR) a) <> 1.
Proof. exact fj_sum1_guard_needed. Qed.
Print Assumptions C03_fj_sum1_guard_needed.

Theorem C03_fj_nonneg_guard_needed : forall (erfR : R -> R),
  exists a : list (list R), 0 < Rsum (map Rsum a) /\ ~ Forall (fun f => 0 <= f) (f_j (RNum erfR) a).
Proof. exact fj_nonneg_guard_needed. Qed.
Print Assumptions C03_fj_nonneg_guard_needed.

Theorem C03_weighted_mean_between_guard_needed : forall (erfR : R -> R),
  exists a_k vals,
    NoDup (map pair_of vals) /\ 0 < Rsum a_k
    /\ (forall k, (k < length a_k)%nat -> 1 <= lookup vals k 0 <= 3)
    /\ nth 0 (sw_ratio (RNum erfR) a_k 1 vals) 0 < 1.
Proof. exact stacked_between_guard_needed. Qed.
Print Assumptions C03_weighted_mean_between_guard_needed.

(* ---------------------------------------------------------------- a_jk table, all inputs *)
(* yields of the group's length or single values (numpy broadcasting); yield arrays beyond
   the J datasets are ignored *)
Theorem C03_a_jk_table_broadcast : forall (erfR : R -> R) (J : nat)
    (groups groups' : list (list R * list (list R))),
  norm_groups J groups = Some groups' -> a_jk_calc (RNum erfR) J groups = Ok (a_spec J groups').
Proof. exact a_jk_calc_bcast. Qed.
Print Assumptions C03_a_jk_table_broadcast.

(* for EVERY input: a completely written table, or ValueError / IndexError; never the read
   of an unwritten np.empty cell (Err AssertionError) *)
Theorem C03_a_jk_table_total : forall (erfR : R -> R) (J : nat) (groups : list (list R * list (list R))),
  (exists a, a_jk_calc (RNum erfR) J groups = Ok a)
  \/ a_jk_calc (RNum erfR) J groups = Err ValueError \/ a_jk_calc (RNum erfR) J groups = Err IndexError.
Proof. exact a_jk_calc_total. Qed.
Print Assumptions C03_a_jk_table_total.

(* ---------------------------------------------------------------- the service as an object *)
(* create_src_recarray_list_list: cell (j, g) holds the record array the DetSigYield of
   dataset j and group g built from the sources of group g *)
Theorem C03_recarray_cells : forall (Rec : Type) (to_rec : Z -> Z -> Z -> Rec) (J G j g : nat),
  (j < J)%nat -> (g < G)%nat ->
  exists row, nth_error (create_recarrays to_rec J G) j = Some row
              /\ nth_error row g = Some (to_rec (Z.of_nat j) (Z.of_nat g) (Z.of_nat g)).
Proof. exact @create_recarrays_cell. Qed.
Print Assumptions C03_recarray_cells.

(* the state of the service object is carried literally: change_shg_mgr re-creates the record
   arrays and the weight arrays and touches nothing else — get_weights after change_shg_mgr and
   before the next calculate still returns the table of the OLD configuration *)
Theorem C03_change_shg_mgr_keeps_table : forall (T : Type) (Rec : Type) (J G : nat)
    (old : svc_state (T:=T) (Rec:=Rec)) (cfg : list (list T) * (Z -> Z -> Z -> Rec)),
  svc_get_weights (svc_change_to J G old cfg) = svc_get_weights old.
Proof. exact @svc_change_keeps_table. Qed.
Print Assumptions C03_change_shg_mgr_keeps_table.

(* after any history of change_shg_mgr calls (and whatever was calculated before), calculate gives
   the table a fresh service computes for the current configuration: weights W_g; cell (j, g) =
   arr[j, g] applied to the record array arr[j][g] builds from group g's current sources and to
   group g's slice of the source parameters *)
Theorem C03_service_history_independent : forall (T : Type) (N : Num T) (Rec : Type) (J : nat)
    (cfg0 : list (list T) * (Z -> Z -> Z -> Rec)) (changes : list (list (list T) * (Z -> Z -> Z -> Rec)))
    (cfg : list (list T) * (Z -> Z -> Z -> Rec)) (yc : Z -> Z -> Rec -> Z * Z -> list T),
  svc_calculate N J (svc_after J (length (fst cfg)) cfg0 (changes ++ [cfg])) yc
  = a_jk_calc N J
      (combine (fst cfg)
         (map (fun gs => map (fun j => yc (Z.of_nat j) (Z.of_nat (fst gs))
                                          (snd cfg (Z.of_nat j) (Z.of_nat (fst gs)) (Z.of_nat (fst gs)))
                                          (snd gs))
                             (seq 0 J))
              (combine (seq 0 (length (fst cfg))) (slices (map zlen (fst cfg)))))).
Proof. exact @svc_history_independent. Qed.
Print Assumptions C03_service_history_independent.

(* ... and the re-creation of the weight arrays is needed for it: a change_shg_mgr that re-creates
   only the record arrays (seeded defect C03-1) keeps computing with the captured weights *)
Theorem C03_stale_weights_refuted : forall (erfR : R -> R),
  exists (cfg0 cfg : list (list R) * (Z -> Z -> Z -> unit)) (yc : Z -> Z -> unit -> Z * Z -> list R),
    svc_calculate (RNum erfR) 1
      (set_recs (svc_init 1 1 cfg0) (create_recarrays (snd cfg) 1 1)) yc
    <> a_jk_calc (RNum erfR) 1 (svc_groups 1 cfg yc).
Proof. exact stale_weights_refuted. Qed.
Print Assumptions C03_stale_weights_refuted.

Theorem C03_multi_eval_service_fresh : forall (T : Type) (N : Num T) (Rec : Type) (opa ns : T) (J : nat)
    (cfg0 : list (list T) * (Z -> Z -> Z -> Rec)) (changes : list (list (list T) * (Z -> Z -> Z -> Rec)))
    (cfg : list (list T) * (Z -> Z -> Z -> Rec)) (yc : Z -> Z -> Rec -> Z * Z -> list T) (ds : list (dset (T:=T))),
  multi_eval_svc N opa ns J (svc_after J (length (fst cfg)) cfg0 (changes ++ [cfg])) yc ds
  = multi_eval N opa ns J (svc_groups J cfg yc) ds.
Proof. exact @multi_eval_svc_fresh. Qed.
Print Assumptions C03_multi_eval_service_fresh.

(* end to end: the value the long-lived objects return after any change_shg_mgr history is the
   manual's sum over datasets on the CURRENT configuration.  (Identity between the totalised real
   expressions: outside N_j <> 0, ns f_j < N_j, sum_k a_jk <> 0 numpy gives nan/inf, see manifest.) *)
Theorem C03_multi_eval_service_manual : forall (erfR : R -> R) (Rec : Type) (opa ns : R) (J : nat)
    (cfg0 : list (list R) * (Z -> Z -> Z -> Rec)) (changes : list (list (list R) * (Z -> Z -> Z -> Rec)))
    (cfg : list (list R) * (Z -> Z -> Z -> Rec)) (yc : Z -> Z -> Rec -> Z * Z -> list R)
    (ds : list (dset (T:=R))) (v : R),
  multi_eval_svc (RNum erfR) opa ns J (svc_after J (length (fst cfg)) cfg0 (changes ++ [cfg])) yc ds = Ok v ->
  exists a Rs,
    a_jk_calc (RNum erfR) J (svc_groups J cfg yc) = Ok a /\ length ds = J
    /\ (length ds <= length (f_j (RNum erfR) a))%nat
    /\ Forall2 (fun d Rj => exists a_k, py_get a (d_idx d) = Ok a_k
                  /\ stacked_ratio (RNum erfR) a_k (d_nsel d) (d_vals d) = Ok Rj) ds Rs
    /\ v = Rsum (map (fun q => logLambda_manual (opa - 1) (d_N (fst (snd q))) (ns * fst q) (snd (snd q)))
                     (combine (f_j (RNum erfR) a) (combine ds Rs))).
Proof. intros erfR Rec. exact (@multi_eval_svc_manual erfR Rec). Qed.
Print Assumptions C03_multi_eval_service_manual.

(* ---------------------------------------------------------------- dataset permutation, service level *)
(* q lists for every new position the old dataset; the yield arrays of every group and the
   per-dataset data (N, n_selected, pair table) are permuted with q; dataset j uses row j *)
Theorem C03_perm_datasets_service : forall (erfR : R -> R) (opa ns : R) (J : nat)
    (groups : list (list R * list (list R))) (data : list (R * nat * list (nat * nat * R)))
    (q : list nat) (d0 : R * nat * list (nat * nat * R)) (v v' : R),
  wf_groups J groups -> length data = J -> Permutation q (seq 0 J) ->
  let dsets := fun (l : list (R * nat * list (nat * nat * R))) =>
    map (fun jx : nat * (R * nat * list (nat * nat * R)) =>
           ((Z.of_nat (fst jx), fst (fst (snd jx)), snd (fst (snd jx)), snd (snd jx)) : dset (T:=R)))
        (combine (seq 0 (length l)) l) in
  multi_eval (RNum erfR) opa ns J groups (dsets data) = Ok v ->
  multi_eval (RNum erfR) opa ns J
             (map (fun g => (fst g, map (fun i => nth i (snd g) []) q)) groups)
             (dsets (map (fun i => nth i data d0) q)) = Ok v' ->
  v = v'.
Proof. exact multi_eval_perm_datasets. Qed.
Print Assumptions C03_perm_datasets_service.

(* ---------------------------------------------------------------- source permutation of the VALUE *)
(* an element of rd is (row of a_jk, (N_j, n_selected_j, pair table_j)) of one dataset.  Left: the
   sources re-ordered (new source i is old source p[i]), pair tables labelled with the new indices.
   Right: the same configuration in the old labelling.  Same fractions, same stacked ratios, same value. *)
Theorem C03_perm_sources_value : forall (erfR : R -> R) (opa ns : R) (K : nat) (p : list nat)
    (rd : list (list R * (R * nat * list (nat * nat * R)))),
  Permutation p (seq 0 K) ->
  Forall (fun x => length (fst x) = K /\ NoDup (map pair_of (snd (snd x)))
                   /\ Forall (fun v => (src_of v < K)%nat) (snd (snd x))) rd ->
  let data := fun x : list R * (R * nat * list (nat * nat * R)) =>
    (fst (fst (snd x)), sw_ratio (RNum erfR) (fst x) (snd (fst (snd x))) (snd (snd x))) in
  let permuted := map (fun x : list R * (R * nat * list (nat * nat * R)) =>
                         (map (fun i => nth i (fst x) 0) p, snd x)) rd in
  let relabelled := map (fun x : list R * (R * nat * list (nat * nat * R)) =>
                           (fst x, (fst (snd x), map (relabel p) (snd (snd x))))) rd in
  multi_value (RNum erfR) opa ns (f_j (RNum erfR) (map fst permuted)) (map data permuted)
  = multi_value (RNum erfR) opa ns (f_j (RNum erfR) (map fst relabelled)) (map data relabelled).
Proof. exact multi_value_perm_sources. Qed.
Print Assumptions C03_perm_sources_value.

(* ---------------------------------------------------------------- non-vacuity *)
(* a 2-dataset, 3-source, 2-group configuration with a zero entry meets every
   hypothesis used above; its slices are [0,2) and [2,3) *)
Example C03_nonvacuous_slices :
  slices [2; 0; 1]%Z = [(0, 2); (2, 2); (2, 3)]%Z /\ Forall (fun n => (0 <= n)%Z) [2; 0; 1]%Z.
Proof. split; [vm_compute; reflexivity|repeat constructor; lia]. Qed.

Example C03_nonvacuous_table :
  let groups := [([1; 2], [[1; 2]; [1 / 2; 0]]); ([3], [[4]; [2]])] in
  wf_groups 2 groups /\ a_spec 2 groups = [[1 * 1; 2 * 2; 3 * 4]; [1 * (1 / 2); 2 * 0; 3 * 2]].
Proof. cbv zeta. split; [repeat constructor|reflexivity]. Qed.

Example C03_nonvacuous_pairs :
  let vals : list (nat * nat * R) :=
    [((0%nat, 0%nat), 3 / 2); ((0%nat, 2%nat), 2); ((1%nat, 1%nat), 1); ((2%nat, 0%nat), 4)] in
  NoDup (map pair_of vals) /\ Forall (fun v => (src_of v < 3)%nat) vals
  /\ Permutation [2; 0; 1]%nat (seq 0 3).
Proof.
  cbv zeta. split; [|split].
  - cbn. repeat constructor; cbn; intuition congruence.
  - repeat constructor.
  - cbn. apply Permutation_sym. apply (Permutation_trans (l' := [0; 2; 1]%nat)).
    + apply perm_skip. apply perm_swap.
    + apply perm_swap.
Qed.

Example C03_nonvacuous_broadcast :
  norm_groups 2 [([1; 2], [[5]; [1; 2]; [9; 9; 9]]); ([3], [[4]; [2]])]
  = Some [([1; 2], [[5; 5]; [1; 2]]); ([3], [[4]; [2]])]
  /\ norm_groups 2 [([1; 2], [[5; 6; 7]; [1; 2]])] = None.
Proof. split; reflexivity. Qed.

Example C03_nonvacuous_perm_service :
  Permutation [1; 0]%nat (seq 0 2) /\ wf_groups 2 [([1; 2], [[1; 2]; [1 / 2; 0]]); ([3], [[4]; [2]])].
Proof. split; [apply perm_swap|repeat constructor]. Qed.

(* a conclusion evaluated: three sources with a_k = (1, 2, 4); event 0 was selected for sources 0
   and 2 with ratios 3/2 and 4 *)
Example C03_weighted_mean_instance : forall (erfR : R -> R),
  let vals : list (nat * nat * R) :=
    [((0%nat, 0%nat), 3 / 2); ((0%nat, 2%nat), 2); ((1%nat, 1%nat), 1); ((2%nat, 0%nat), 4)] in
  nth 0 (sw_ratio (RNum erfR) [1; 2; 4] 3 vals) 0 = (1 * (3 / 2) + 4 * 4) / 7.
Proof. exact stacked_example. Qed.
