(* C01 x C05 — from the event selection to the value.  Statement only; the proof
   is `exact <lemma>`.  Kept in its own file because it rests on C05's development
   (model/M_Select*.v, spec/S_Select.v, proofs/P_Select*.v, imported read-only):
   the check re-establishes it on every run in which that development builds. *)
From Coq Require Import Reals ZArith List Bool Lra Lia Permutation.
From Sky Require Import Result Num NumR G_llh M_Llh M_LlhPipe S_Llh S_LlhPipe
  P_LlhK P_LlhValue P_LlhCompose.
From Sky Require Import M_Select S_Select P_LlhSelect.
Import ListNotations.
Open Scope R_scope.

(* end to end, WITHOUT the duplicate-free hypothesis: for every event
   selection method tree (or none), every source list, every event list, with
   or without index field, initialize_trial succeeds (C05, imported), the index
   arrays it stores are in range, and the source-weighted chain evaluated on
   them is the manual's formula on sum_k a_k R_ke / sum_k a_k. *)
Theorem C01_selection_to_value : forall (S E : Type) (argsort : list E -> list Z),
  (forall l, Permutation (argsort l) (map Z.of_nat (seq 0 (length l)))) ->
  forall (srcs : list S), (0 < length srcs)%nat ->
  forall (m : option (meth S E)) (evs : list E) (b : bool),
  wf_opt m (length srcs) ->
  exists ev2 t2,
    tdm_init argsort m srcs evs b = Ok (ev2, t2)
    /\ List.Forall (fun k => (k < length srcs)%nat) (map (fun q => Z.to_nat (fst q)) t2)
    /\ List.Forall (fun e => (e < length ev2)%nat) (map (fun q => Z.to_nat (snd q)) t2)
    /\ forall (erfR : R -> R) opa N ns a_k (f0 : rfactor) (fs : list rfactor),
         length a_k = length srcs -> Rsum a_k <> 0 ->
         let src_idxs := map (fun q : Z * Z => Z.to_nat (fst q)) t2 in
         let evt_idxs := map (fun q : Z * Z => Z.to_nat (snd q)) t2 in
         (length (snd (fst f0)) = length evt_idxs /\ length (snd f0) = length ev2) ->
         List.Forall (fun f : rfactor => length (snd (fst f)) = length evt_idxs
                                         /\ length (snd f) = length ev2) fs ->
         pipe_value (RNum erfR) opa N ns true a_k (length ev2) src_idxs evt_idxs f0 fs
         = logLambda_manual (opa - 1) N ns
             (map (stacked_spec a_k
                     (combine (combine src_idxs evt_idxs)
                        (map (fun i => row_ratio i (nth i evt_idxs 0%nat) f0 fs)
                             (seq 0 (length evt_idxs)))))
                  (seq 0 (length ev2))).
Proof. exact selection_to_value_guarded. Qed.
Print Assumptions C01_selection_to_value.


(* non-vacuity: a real selection method (a declination-band criterion on integer
   "declinations") on two sources satisfies the hypotheses, and so does the
   intersection of two of them *)
Example C01_sel_nonvacuous :
  let c := fun (s e : Z) => (Z.abs (e - s) <? 3)%Z in
  (forall l : list Z, Permutation (map Z.of_nat (seq 0 (length l))) (map Z.of_nat (seq 0 (length l))))
  /\ (0 < length [10%Z; 20%Z])%nat
  /\ wf_opt (Some (MBand KDec c)) (length [10%Z; 20%Z])
  /\ wf_opt (Some (MAnd (MBand KDec c) (MBand KRA c))) (length [10%Z; 20%Z])
  /\ wf_opt (@None (meth Z Z)) (length [10%Z; 20%Z]).
Proof. cbv zeta. repeat split. intros l. apply Permutation_refl. cbn. lia. Qed.
