(* Specification for C01: the manual's formulas (doc/user_manual.tex, eqs.
   logLambda, logLambdaiTaylor, logLambdaOfXOptimized), transcribed
   independently of the code as per-event sums over R. *)
From Coq Require Import Reals List.
Import ListNotations.
Open Scope R_scope.

Definition Rsum (l : list R) : R := fold_right Rplus 0 l.

(* log Lambda_i as a function of alpha_i = ns * X_i, threshold alpha *)
Definition Taylor (alpha a : R) : R :=
  ln (1 + alpha) + (a - alpha) / (1 + alpha)
  - / 2 * ((a - alpha) / (1 + alpha)) * ((a - alpha) / (1 + alpha)).

Definition Lam (alpha a : R) : R :=
  if Rlt_dec alpha a then ln (1 + a) else Taylor alpha a.

(* X_i = (R_i - 1)/N *)
Definition Xof (N r : R) : R := (r - 1) / N.

(* eq. logLambdaOfXOptimized: N' selected events with ratios Rs, N total *)
Definition logLambda_manual (alpha N ns : R) (Rs : list R) : R :=
  Rsum (map (fun r => Lam alpha (ns * Xof N r)) Rs)
  + (N - INR (length Rs)) * ln (1 - ns / N).
