(* C16 — the plain-table interpreter: tables are VALUES (a list of named columns, a
   length, "the index array has been asked for"); there is no store, so nothing can be
   shared; an operation that raises leaves every table as it was.  The numpy contract
   (np_append, fancy indexing, index assignment, broadcasting, astype) is shared with the
   model; everything about dicts-of-locations, caches and per-field loops is not. *)
From Coq Require Import ZArith List Bool.
From Sky Require Import Result PyList M_Table.
Import ListNotations.
Open Scope Z_scope.

Record atable := mkat { acols : list (name * buf); alen : Z; acache : bool }.

Definition anames (t : atable) : list name := keys (acols t).

(* apply a fallible per-column function to all columns; the first error wins *)
Fixpoint map_cols (g : name -> buf -> res buf) (c : list (name * buf)) : res (list (name * buf)) :=
  match c with
  | [] => Ok []
  | (k, b) :: r => do b' <- g k b; do r' <- map_cols g r; Ok ((k, b') :: r')
  end.

Definition lookup (k : name) (c : list (name * buf)) : buf :=
  match assoc k c with Some b => b | None => mkbuf 0 [] end.

(* ---- operations on one table: result table or the exception *)
Definition s_append_field (t : atable) (n : name) (b : buf) : res atable :=
  if mem n (anames t) then Err KeyError
  else if negb (blen b =? alen t) then Err ValueError
  else Ok (mkat (acols t ++ [(n, b)]) (alen t) (acache t)).

Definition s_setitem (t : atable) (n : name) (b : buf) : res atable :=
  if negb (mem n (anames t)) then s_append_field t n b
  else if negb (blen b =? alen t) then Err ValueError
  else Ok (mkat (dset (acols t) n b) (alen t) (acache t)).

Definition s_remove (t : atable) (n : name) : res atable :=
  if mem n (anames t) then Ok (mkat (ddel (acols t) n) (alen t) (acache t)) else Err KeyError.

Definition s_tidy (t : atable) (keep : list name) : res atable :=
  Ok (mkat (filter (fun c => mem (fst c) keep) (acols t)) (alen t) (acache t)).

(* rename: take out every present old name (in the order of the dict), then insert the
   taken columns under their new names (a new name that already exists is overwritten) *)
Fixpoint s_rename_pop (present : list name) (conv : list (name * name)) (c : list (name * buf))
  : list (name * buf) * list (name * buf) :=
  match conv with
  | [] => (c, [])
  | (old, new) :: r =>
    if mem old present then
      match assoc old c with
      | None => s_rename_pop present r c
      | Some b => let '(c', ins) := s_rename_pop present r (ddel c old) in (c', (new, b) :: ins)
      end
    else s_rename_pop present r c
  end.

Fixpoint s_rename_ins (ins : list (name * buf)) (c : list (name * buf)) : list (name * buf) :=
  match ins with
  | [] => c
  | (n, b) :: r => s_rename_ins r (dset c n b)
  end.

Definition s_rename (t : atable) (conv : list (name * name)) (must : bool) : res atable :=
  if must && negb (forallb (fun c => mem (fst c) (anames t)) conv) then Err KeyError
  else let '(c, ins) := s_rename_pop (anames t) conv (acols t) in
       Ok (mkat (s_rename_ins ins c) (alen t) (acache t)).

Definition s_take (sl : sel) (k : name) (b : buf) : res buf :=
  do vs <- np_take (bdata b) sl; Ok (mkbuf (bdt b) vs).

(* None = the oracle answer is not a sorting permutation of the key column *)
Definition s_sort (t : atable) (n : name) (perm : list Z) : option (res atable) :=
  match assoc n (acols t) with
  | None => Some (Err KeyError)
  | Some key =>
    if argsort_ok (bdata key) perm then
      Some (do c <- map_cols (s_take (SIdx perm)) (acols t); Ok (mkat c (alen t) (acache t)))
    else None
  end.

Definition s_conv1 (conv : list (dtype * dtype)) (exc : list name) (k : name) (b : buf) : res buf :=
  if mem k exc then Ok b
  else match assoc (bdt b) conv with Some dt => Ok (astype dt b) | None => Ok b end.

Definition s_convert (t : atable) conv exc : res atable :=
  do c <- map_cols (s_conv1 conv exc) (acols t); Ok (mkat c (alen t) (acache t)).

Definition s_set_dtype (t : atable) (n : name) (dt : dtype) : res atable :=
  match assoc n (acols t) with
  | None => Err KeyError
  | Some b => Ok (mkat (dset (acols t) n (astype dt b)) (alen t) (acache t))
  end.

Definition s_indices (t : atable) : res atable := Ok (mkat (acols t) (alen t) true).

Definition s_append (t a : atable) : res atable :=
  if forallb (fun k => mem k (anames a)) (anames t) then
    Ok (mkat (map (fun c => (fst c, np_append (snd c) (lookup (fst c) (acols a)))) (acols t))
             (alen t + alen a) false)
  else Err KeyError.

Definition s_put (sl : sel) (a : atable) (k : name) (b : buf) : res buf :=
  do d <- np_put (bdata b) sl (bdata (lookup k (acols a))); Ok (mkbuf (bdt b) d).

Definition s_setsel (t a : atable) (sl : sel) : res atable :=
  if forallb (fun k => mem k (anames a)) (anames t) then
    do c <- map_cols (s_put sl a) (acols t); Ok (mkat c (alen t) (acache t))
  else Err KeyError.

(* ---- constructor on values *)
Definition v_ctor_one (length : Z) (keep : option (list name)) (conv : list (dtype * dtype))
    (exc : list name) (copy : bool) (nb : name * buf) (st : list (name * buf) * option Z)
  : res (list (name * buf) * option Z) :=
  let '(acc, len) := st in
  let '(fname, b) := nb in
  if match keep with Some k => negb (mem fname k) | None => false end then Ok st
  else
    let '(dt, copy_field) :=
      match (if mem fname exc then None else assoc (bdt b) conv) with
      | Some dt' => (dt', true)
      | None => (bdt b, copy)
      end in
    do b' <- (if copy_field then
                match broadcast (bdata b) (Z.to_nat length) with
                | None => Err ValueError
                | Some vs => Ok (mkbuf dt vs)
                end
              else Ok b);
    match len with
    | None => Ok (dset acc fname b', Some (blen b'))
    | Some n => if negb (blen b' =? n) then Err ValueError else Ok (dset acc fname b', len)
    end.

Fixpoint v_ctor_loop length keep conv exc copy (src : list (name * buf)) (st : list (name * buf) * option Z)
  : res (list (name * buf) * option Z) :=
  match src with
  | [] => Ok st
  | nb :: r => do st' <- v_ctor_one length keep conv exc copy nb st; v_ctor_loop length keep conv exc copy r st'
  end.

Definition v_ctor (src : list (name * buf)) (length : Z) keep conv exc copy : res atable :=
  do r <- v_ctor_loop length keep conv exc copy src ([], None);
  Ok (mkat (fst r) (match snd r with Some n => n | None => 0 end) false).

Definition v_dict_length (d : list (name * buf)) : Z :=
  match d with (_, b) :: _ => blen b | [] => 0 end.

Definition v_ctor_dict (d : list (name * buf)) keep conv exc copy : res atable :=
  v_ctor d (v_dict_length d) keep conv exc copy.

Fixpoint v_dict (cols : list (name * buf)) (d : list (name * buf)) : list (name * buf) :=
  match cols with
  | [] => d
  | (n, b) :: r => v_dict r (dset d n b)
  end.

Definition s_select (a : atable) (sl : sel) : res atable :=
  do c <- map_cols (s_take sl) (acols a); v_ctor_dict c None [] [] false.

(* ---- the world of tables *)
Definition s_put_table (ws : list atable) (t : nat) (r : res atable) : list atable * outcome :=
  match r with
  | Ok t' => (set_nth ws t t', Done)
  | Err e => (ws, Raised e)
  end.

Definition s_new_table (ws : list atable) (r : res atable) : list atable * outcome :=
  match r with
  | Ok t' => (ws ++ [t'], Done)
  | Err e => (ws, Raised e)
  end.

Definition s_on (ws : list atable) (t : nat) (f : atable -> list atable * outcome) : list atable * outcome :=
  match nth_error ws t with Some a => f a | None => (ws, Stuck) end.

Definition s_step (ws : list atable) (p : op) : list atable * outcome :=
  match p with
  | OCtor cols keep conv exc copy => s_new_table ws (v_ctor_dict (v_dict cols []) keep conv exc copy)
  | OCtorFrom src keep conv exc =>
      s_on ws src (fun a => s_new_table ws (v_ctor (acols a) (alen a) keep conv exc true))
  | OSelect src sl => s_on ws src (fun a => s_new_table ws (s_select a sl))
  | OSetSel t sl src => s_on ws t (fun o => s_on ws src (fun a => s_put_table ws t (s_setsel o a sl)))
  | OAppend t src => s_on ws t (fun o => s_on ws src (fun a => s_put_table ws t (s_append o a)))
  | OAppendField t n b => s_on ws t (fun o => s_put_table ws t (s_append_field o n b))
  | OSetItem t n b => s_on ws t (fun o => s_put_table ws t (s_setitem o n b))
  | ORemove t n => s_on ws t (fun o => s_put_table ws t (s_remove o n))
  | ORename t conv must => s_on ws t (fun o => s_put_table ws t (s_rename o conv must))
  | OTidy t keep => s_on ws t (fun o => s_put_table ws t (s_tidy o keep))
  | OSort t n perm =>
      s_on ws t (fun o => match s_sort o n perm with
                          | Some r => s_put_table ws t r
                          | None => (ws, Stuck)
                          end)
  | OConvert t conv exc => s_on ws t (fun o => s_put_table ws t (s_convert o conv exc))
  | OSetDtype t n dt => s_on ws t (fun o => s_put_table ws t (s_set_dtype o n dt))
  | OIndices t => s_on ws t (fun o => s_put_table ws t (s_indices o))
  | OSetItemFrom t n src m =>      (* on VALUES: the column is copied *)
      s_on ws t (fun o => s_on ws src (fun a =>
        match assoc m (acols a) with
        | Some b => s_put_table ws t (s_setitem o n b)
        | None => (ws, Raised KeyError)
        end))
  end.

Fixpoint s_run (ws : list atable) (ops : list op) : list atable :=
  match ops with
  | [] => ws
  | p :: r => s_run (fst (s_step ws p)) r
  end.

Fixpoint s_outcomes (ws : list atable) (ops : list op) : list outcome :=
  match ops with
  | [] => []
  | p :: r => snd (s_step ws p) :: s_outcomes (fst (s_step ws p)) r
  end.

(* ---- abstraction of the model world *)
Definition getb (s : store) (l : loc) : buf := match rd s l with Some b => b | None => mkbuf 0 [] end.
Definition vals_of (s : store) (d : list (name * loc)) : list (name * buf) :=
  map (fun nl => (fst nl, getb s (snd nl))) d.
Definition abs_obj (s : store) (o : obj) : atable :=
  mkat (vals_of s (fields o)) (olen o) (match oidx o with Some _ => true | None => false end).
Definition absw (w : world) : list atable := map (abs_obj (wstore w)) (wobjs w).
