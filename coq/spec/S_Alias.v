(* C07 — specification side: what "unchanged" and "only documented fields change" mean,
   independent of how the operations are implemented. *)
From Coq Require Import ZArith List Bool Lia PeanoNat.
From Sky Require Import Result M_Alias.
Import ListNotations.
Open Scope Z_scope.

(* s' leaves every object that exists in s untouched (objects may have been added) *)
Definition old_untouched (s s' : store) : Prop :=
  (forall b, (b < length (sb s))%nat -> nth_error (sb s') b = nth_error (sb s) b) /\
  (forall t, (t < length (st s))%nat -> nth_error (st s') t = nth_error (st s) t).

(* the first nB buffers and the first nT table objects are untouched *)
Definition prefix_untouched (nB nT : nat) (s s' : store) : Prop :=
  (forall b, (b < nB)%nat -> nth_error (sb s') b = nth_error (sb s) b) /\
  (forall t, (t < nT)%nat -> nth_error (st s') t = nth_error (st s) t).

(* a table whose columns all exist *)
Definition table_wf (s : store) (x : table) : Prop :=
  Forall (fun p => (snd p < length (sb s))%nat) (tf x).

(* no trial in flight: only the data sets' arrays exist *)
Definition trial_free (w : world) : Prop :=
  Forall (fun o => o = None) (w_cache w) /\ Forall (fun o => o = None) (w_ev w) /\
  Forall (fun o => o = None) (w_sig w) /\ Forall (fun o => o = None) (w_tdm w).

(* scrambling frame: between s and s' only table t changed, and of t only the
   bindings of the fields in D; no existing buffer was written *)
Definition rebinds_only (t : tloc) (D : list fid) (s s' : store) : Prop :=
  (forall b, (b < length (sb s))%nat -> nth_error (sb s') b = nth_error (sb s) b) /\
  (length (sb s) <= length (sb s'))%nat /\
  (forall u, u <> t -> nth_error (st s') u = nth_error (st s) u) /\
  (forall x, nth_error (st s) t = Some x ->
     exists x', nth_error (st s') t = Some x' /\ tlen x' = tlen x /\
       (forall f, ~ In f D -> lookup f (tf x') = lookup f (tf x)) /\
       (forall f, lookup f (tf x) <> None -> lookup f (tf x') <> None)).

(* column content of field f of table t *)
Definition col (s : store) (t : tloc) (f : fid) : option (list Z) :=
  match nth_error (st s) t with
  | None => None
  | Some x => match lookup f (tf x) with None => None | Some b => nth_error (sb s) b end
  end.

(* table t of store s was created after s0 and all its columns are arrays created after s0 *)
Definition fresh_table (s0 s : store) (t : tloc) : Prop :=
  (length (st s0) <= t)%nat /\
  forall x, nth_error (st s) t = Some x ->
            Forall (fun p => (length (sb s0) <= snd p)%nat) (tf x).

(* two table objects that are different and share no column array *)
Definition disjoint_tables (s : store) (t u : tloc) : Prop :=
  t <> u /\
  forall x y, nth_error (st s) t = Some x -> nth_error (st s) u = Some y ->
              forall p q, In p (tf x) -> In q (tf y) -> snd p <> snd q.
