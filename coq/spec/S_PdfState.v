(* Stateless specification of SignalTimePDF._calculate_pd: source k gets the
   normalised density of the profile reached after rows 0..k — with its own S. *)
From Coq Require Import List.
From Sky Require Import Num M_Pdf M_PdfState.
Import ListNotations.

Section Spec.
  Context {T : Type} (N : Num T).

  Fixpoint calc_spec (ivs : list (T * T)) (tol : T) (p : @profile T)
           (rows : list (T * T)) (times : list (list T)) : list (list T) :=
    match rows, times with
    | r :: rs, ts :: tss =>
        let p' := fst (apply_row N tol p r) in
        map (sig_time_pd N ivs p') ts :: calc_spec ivs tol p' rs tss
    | _, _ => []
    end.

  (* the cached normalisation is the one of the current profile *)
  Definition tinv (ivs : list (T * T)) (st : tstate) : Prop :=
    snd st = S_of N ivs (fst st).
End Spec.
