(* Stateless specification of SignalTimePDF._calculate_pd: source k gets the
   normalised density of the profile reached after rows 0..k — with its own S. *)
From Coq Require Import List.
From Sky Require Import Num M_Pdf M_PdfState.
Import ListNotations.

Section Spec.
  Context {T : Type} (N : Num T).

  Fixpoint calc_spec (ivs : list (T * T)) (tol : T) (p : @profile T)
           (rows : list (T * T)) (times : list (list T)) : list (list T) :=
    match rows, times with
    | r :: rs, ts :: tss =>
        let p' := fst (apply_row N tol p r) in
        map (sig_time_pd N ivs p') ts :: calc_spec ivs tol p' rs tss
    | _, _ => []
    end.

  (* the cached normalisation is the one of the current profile *)
  Definition tinv (ivs : list (T * T)) (st : tstate) : Prop :=
    snd st = S_of N ivs (fst st).

  (* what an object returns, as a function of the CURRENT live time and
     profile only (no cached normalisation in sight) *)
  Definition spec_step (tol : T) (c : list (T * T) * @profile T) (op : top)
    : (list (T * T) * @profile T) * list (list T) :=
    let (ivs, p) := c in
    match op with
    | SetProfile p' | ExtProfile p' => ((ivs, p'), [])
    | SetLivetime ivs' | ExtLivetime ivs' => ((ivs', p), [])
    | EvalSig rows times => ((ivs, rows_profile N tol p (firstn (length times) rows)), calc_spec ivs tol p rows times)
    | EvalBkg times => ((ivs, p), [map (bkg_time_pd N ivs p) times])
    end.

  Fixpoint spec_run (tol : T) (c : list (T * T) * @profile T) (ops : list top) : list (list (list T)) :=
    match ops with
    | [] => []
    | op :: r => let (c', out) := spec_step tol c op in out :: spec_run tol c' r
    end.
End Spec.
