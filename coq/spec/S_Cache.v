(* Specification for C06: the same operations on objects that have no cache at
   all.  The state is only what the analysis objects are *given*: the trial
   data of the current trial (with the source hypothesis it was initialised
   for), the source data field values, the current source hypothesis, the
   event data array built when the trial was initialised, and the ns-gradients
   of the last successful evaluation of the current trial (which
   calculate_ns_grad2 is documented to use).  No state id, no cached line /
   parabola, no cached PDF values.  Every evaluation recomputes everything. *)
From Coq Require Import ZArith List Bool.
From Sky Require Import Result G_cache M_Cache.
Import ListNotations.
Open Scope Z_scope.

Section Spec.
Variable W : world.
Variable C : cfg.
Notation Tv := (tv (data W) (src W) (GV W)).

Record sstate := mksst {
  ss_view : option (view (data W) (src W));
  ss_srcf : option (src W);
  ss_cur : src W;
  ss_evd : option Tv;
  ss_nsg : option (G W) }.

Definition has_src_fields : bool := negb (c_nsrc C =? 0).
Definition has_gfp_field : bool := c_ngfp C >? 0.

(* what the PDFs read at an evaluation with parameter value x: the global-fit-
   parameter dependent data field is recalculated for x at every evaluation *)
Definition full_tv (vw : view (data W) (src W)) (sf : option (src W)) (cs : src W) (x : Z) : Tv :=
  (vw, (sf, if has_gfp_field then Some (Fg W vw sf cs x) else None)).
Definition plain_tv (vw : view (data W) (src W)) (sf : option (src W)) : Tv := (vw, (sf, None)).

Definition sinit (s0 : src W) : sstate :=
  mksst None (if has_src_fields then Some s0 else None) s0 None None.

(* the value of the manifold at a grid value, recomputed *)
Definition pure_sig (cur evd : Tv) (g : Z) : res (V W) :=
  if in_grid W g then Ok (Fsig W cur evd g) else Err KeyError.

Definition pure_lin (cur evd : Tv) (x : Z) : res (O W) :=
  let x0 := glow W x in
  let x1 := gup W x in
  do M0 <- pure_sig cur evd x0;
  do M1 <- pure_sig cur evd x1;
  Ok (Lev W (Lmk W x0 x1 M0 M1) x).

Definition pure_par (cur evd : Tv) (x : Z) : res (O W) :=
  let x1 := gnear W x in
  do M0 <- pure_sig cur evd (gnear W (x1 - gdx W));
  do M1 <- pure_sig cur evd x1;
  do M2 <- pure_sig cur evd (gnear W (x1 + gdx W));
  Ok (Pev W (Pmk W M0 M1 M2) x x1).

Definition pure_interp (cur evd : Tv) (x : Z) : res (O W) :=
  if c_par C then pure_par cur evd x else pure_lin cur evd x.

(* the cache-free evaluation of the LLH ratio function *)
Definition pure_eval (cur evd : Tv) (ns x : Z) : res (Out W) :=
  do o <- pure_interp cur evd x;
  Ok (fin W o (Fbkg W cur) cur (ns, x)).

Definition pure_nsg (cur evd : Tv) (ns x : Z) : option (G W) :=
  match pure_interp cur evd x with
  | Ok o => Some (nsg_of W o (Fbkg W cur) cur (ns, x))
  | Err _ => None
  end.

Definition sstep (s : sstate) (o : op W) : sstate * obs W :=
  match o with
  | InitTrial _ d =>
      let vw := mkview d (ss_cur s) in
      (mksst (Some vw) (ss_srcf s) (ss_cur s) (Some (plain_tv vw (ss_srcf s))) None, ONone W)
  | ChangeSource _ s' =>
      (mksst (ss_view s) (if has_src_fields then Some s' else ss_srcf s) s' (ss_evd s) (ss_nsg s),
       ONone W)
  | Evaluate _ ns x =>
      match ss_view s, ss_evd s with
      | Some vw, Some evd =>
          let cur := full_tv vw (ss_srcf s) (ss_cur s) x in
          (mksst (ss_view s) (ss_srcf s) (ss_cur s) (ss_evd s)
                 (match pure_nsg cur evd ns x with Some g => Some g | None => ss_nsg s end),
           OEval W (pure_eval cur evd ns x))
      | _, _ => (s, OEval W (Err TypeError))
      end
  | NsGrad2 _ ns =>
      (s, ONs2 W (match ss_nsg s, ss_view s with
                  | Some g, Some vw => Ok (g2 W g (plain_tv vw (ss_srcf s)) ns)
                  | None, _ => Err RuntimeError
                  | _, _ => Err TypeError
                  end))
  end.

Fixpoint srun (s : sstate) (ops : list (op W)) : list (obs W) :=
  match ops with
  | [] => []
  | o :: r => let '(s', ob) := sstep s o in ob :: srun s' r
  end.

(* the source hypothesis the objects hold after a history *)
Fixpoint src_after (s0 : src W) (ops : list (op W)) : src W :=
  match ops with
  | [] => s0
  | ChangeSource _ s :: r => src_after s r
  | _ :: r => src_after s0 r
  end.

(* histories that follow the API protocol "after change_shg_mgr a new trial
   should be initialized": no evaluation between a source change and the next
   initialize_trial (dirty = a source change is pending) *)
Fixpoint wseq (dirty : bool) (ops : list (op W)) : bool :=
  match ops with
  | [] => true
  | InitTrial _ _ :: r => wseq false r
  | ChangeSource _ _ :: r => wseq true r
  | Evaluate _ _ _ :: r => negb dirty && wseq dirty r
  | NsGrad2 _ _ :: r => wseq dirty r
  end.

(* operations that neither start a trial nor change the sources *)
Definition is_query (o : op W) : bool :=
  match o with Evaluate _ _ _ | NsGrad2 _ _ => true | _ => false end.
Definition is_ns2 (o : op W) : bool :=
  match o with NsGrad2 _ _ => true | _ => false end.

End Spec.

Arguments ss_view {W} _.
Arguments ss_srcf {W} _.
Arguments ss_cur {W} _.
Arguments ss_evd {W} _.
Arguments ss_nsg {W} _.

Section SpecAux.
Variable W : world.
Variable C : cfg.
(* final specification state of a history *)
Fixpoint sfinal (s : sstate W) (ops : list (op W)) : sstate W :=
  match ops with
  | [] => s
  | o :: r => sfinal (fst (sstep W C s o)) r
  end.
End SpecAux.
