(* Specification for C06: the same operations on objects that have no cache at
   all.  The state is only what the analysis objects are *given*: the trial
   data of the current trial (with the source hypothesis it was initialised
   for), the source data field values, the current source hypothesis, the
   event data array built when the trial was initialised, and the ns-gradients
   of the last successful evaluation of the current trial (which
   calculate_ns_grad2 is documented to use).  No state id, no cached line /
   parabola, no cached PDF values.  Every evaluation recomputes everything. *)
From Coq Require Import ZArith List Bool.
From Sky Require Import Result G_cache M_Cache.
Import ListNotations.
Open Scope Z_scope.

Section Spec.
Variable W : world.
Variable C : cfg.
Notation Tv := (tv (data W) (src W) (GV W)).

Record sstate := mksst {
  ss_view : option (view (data W) (src W));
  ss_srcf : option (src W);
  ss_cur : src W;
  ss_evd : option Tv;
  ss_nsg : option (G W) }.

Definition has_src_fields : bool := negb (c_nsrc C =? 0).
Definition has_gfp_field : bool := c_ngfp C >? 0.

(* what the PDFs read at an evaluation with parameter value x: the global-fit-
   parameter dependent data field is recalculated for x at every evaluation *)
Definition has_gfp_field2 : bool := 2 <=? c_ngfp C.
Definition full_tv (vw : view (data W) (src W)) (sf : option (src W)) (cs : src W) (ns x : Z) : Tv :=
  (vw, (sf, (if has_gfp_field then Some (Fg W vw sf cs x) else None,
             if has_gfp_field2 then Some (Fg2 W vw sf cs ns) else None))).
Definition plain_tv (vw : view (data W) (src W)) (sf : option (src W)) : Tv := (vw, (sf, (None, None))).

Definition sinit (s0 : src W) : sstate :=
  mksst None (if has_src_fields then Some s0 else None) s0 None None.

(* the value of the manifold at a grid value, recomputed *)
Definition pure_sig (cur evd : Tv) (g : Z) : res (V W) :=
  if in_grid W g then Ok (Fsig W cur evd g) else Err KeyError.

Definition pure_lin (cur evd : Tv) (x : Z) : res (O W) :=
  let x0 := glow W x in
  let x1 := gup W x in
  do M0 <- pure_sig cur evd x0;
  do M1 <- pure_sig cur evd x1;
  Ok (Lev W (Lmk W x0 x1 M0 M1) x).

Definition pure_par (cur evd : Tv) (x : Z) : res (O W) :=
  let x1 := gnear W x in
  do M0 <- pure_sig cur evd (gnear W (x1 - gdx W));
  do M1 <- pure_sig cur evd x1;
  do M2 <- pure_sig cur evd (gnear W (x1 + gdx W));
  Ok (Pev W (Pmk W M0 M1 M2) x x1).

Definition pure_interp (cur evd : Tv) (x : Z) : res (O W) :=
  if c_par C then pure_par cur evd x else pure_lin cur evd x.

(* the cache-free evaluation of the LLH ratio function *)
Definition pure_eval (cur evd : Tv) (ns x : Z) : res (Out W) :=
  do o <- pure_interp cur evd x;
  Ok (fin W o (Fbkg W cur) cur (ns, x)).

Definition pure_nsg (cur evd : Tv) (ns x : Z) : option (G W) :=
  match pure_interp cur evd x with
  | Ok o => Some (nsg_of W o (Fbkg W cur) cur (ns, x))
  | Err _ => None
  end.

Definition sstep (s : sstate) (o : op W) : sstate * obs W :=
  match o with
  | InitTrial _ d =>
      let vw := mkview d (ss_cur s) in
      (mksst (Some vw) (ss_srcf s) (ss_cur s) (Some (plain_tv vw (ss_srcf s))) None, ONone W)
  | ChangeSource _ s' =>
      (mksst (ss_view s) (if has_src_fields then Some s' else ss_srcf s) s' (ss_evd s) (ss_nsg s),
       ONone W)
  | Evaluate _ ns x =>
      match ss_view s, ss_evd s with
      | Some vw, Some evd =>
          let cur := full_tv vw (ss_srcf s) (ss_cur s) ns x in
          (* the ns-gradients are those of THIS evaluation (none when it raises) *)
          (mksst (ss_view s) (ss_srcf s) (ss_cur s) (ss_evd s) (pure_nsg cur evd ns x),
           OEval W (pure_eval cur evd ns x))
      | _, _ => (mksst (ss_view s) (ss_srcf s) (ss_cur s) (ss_evd s) None, OEval W (Err TypeError))
      end
  | NsGrad2 _ ns =>
      (s, ONs2 W (match ss_nsg s, ss_view s with
                  | Some g, Some vw => Ok (g2 W g (plain_tv vw (ss_srcf s)) ns)
                  | None, _ => Err RuntimeError
                  | _, _ => Err TypeError
                  end))
  end.

Fixpoint srun (s : sstate) (ops : list (op W)) : list (obs W) :=
  match ops with
  | [] => []
  | o :: r => let '(s', ob) := sstep s o in ob :: srun s' r
  end.

(* the source hypothesis the objects hold after a history *)
Fixpoint src_after (s0 : src W) (ops : list (op W)) : src W :=
  match ops with
  | [] => s0
  | ChangeSource _ s :: r => src_after s r
  | _ :: r => src_after s0 r
  end.

(* histories that follow the API protocol "after change_shg_mgr a new trial
   should be initialized": no evaluation between a source change and the next
   initialize_trial (dirty = a source change is pending) *)
Fixpoint wseq (dirty : bool) (ops : list (op W)) : bool :=
  match ops with
  | [] => true
  | InitTrial _ _ :: r => wseq false r
  | ChangeSource _ _ :: r => wseq true r
  | Evaluate _ _ _ :: r => negb dirty && wseq dirty r
  | NsGrad2 _ _ :: r => wseq dirty r
  end.

(* operations that neither start a trial nor change the sources *)
Definition is_query (o : op W) : bool :=
  match o with Evaluate _ _ _ | NsGrad2 _ _ => true | _ => false end.
Definition is_ns2 (o : op W) : bool :=
  match o with NsGrad2 _ _ => true | _ => false end.

End Spec.

Arguments ss_view {W} _.
Arguments ss_srcf {W} _.
Arguments ss_cur {W} _.
Arguments ss_evd {W} _.
Arguments ss_nsg {W} _.

Section SpecAux.
Variable W : world.
Variable C : cfg.
(* final specification state of a history *)
Fixpoint sfinal (s : sstate W) (ops : list (op W)) : sstate W :=
  match ops with
  | [] => s
  | o :: r => sfinal (fst (sstep W C s o)) r
  end.
End SpecAux.

(* ------------------------------------------------------------------------
   Two datasets without caches.  The null-hypothesis value of the ns-profile
   function is recomputed by every initialisation of a trial, from that trial. *)
Section MultiSpec.
Variable W : world.
Variable C : cfg.
Variable MW : mworld W.
Variable MC : mcfg.

Record msstate := mkms {
  p1 : sstate W; p2 : sstate W;
  p_l0 : option (MOut MW);
  p_wsrc : option (src W) }.

Definition msinit (s0 : src W) : msstate := mkms (sinit W C s0) (sinit W C s0) None None.

Definition obs_eval (o : obs W) : res (Out W) :=
  match o with OEval _ r => r | _ => Err TypeError end.
Definition obs_ns2 (o : obs W) : res (Out2 W) :=
  match o with ONs2 _ r => r | _ => Err TypeError end.

Definition mseval2 (s : msstate) (ns x : Z) : msstate * res (MOut MW) :=
  let cur := ss_cur (p1 s) in
  let '(a, o1) := sstep W C (p1 s) (Evaluate W (nsf MW cur 0 ns) x) in
  match obs_eval o1 with
  | Err e => (mkms a (p2 s) (p_l0 s) (Some cur), Err e)
  | Ok v1 =>
    let '(b, o2) := sstep W C (p2 s) (Evaluate W (nsf MW cur 1 ns) x) in
    match obs_eval o2 with
    | Err e => (mkms a b (p_l0 s) (Some cur), Err e)
    | Ok v2 => (mkms a b (p_l0 s) (Some cur), Ok (mfin MW v1 v2 cur (ns, x)))
    end
  end.

Definition msstep (s : msstate) (o : mop W) : msstate * mobs W MW :=
  match o with
  | MInit _ d1 d2 =>
      let s1 := mkms (fst (sstep W C (p1 s) (InitTrial W d1))) (fst (sstep W C (p2 s) (InitTrial W d2)))
                     (p_l0 s) (p_wsrc s) in
      if m_profile MC then
        let '(s2, r) := mseval2 s1 (m_ns0 MC) (m_x0 MC) in
        match r with
        | Ok v => (mkms (p1 s2) (p2 s2) (Some v) (p_wsrc s2), MInitO W MW (Ok 0))
        | Err e => (s2, MInitO W MW (Err e))
        end
      else (s1, MInitO W MW (Ok 0))
  | MEval _ ns x =>
      let '(s', r) := mseval2 s ns x in
      (s', MEvalO W MW (if m_profile MC then
                          match r with
                          | Ok v => match p_l0 s' with Some l => Ok (psub MW v l) | None => Err TypeError end
                          | Err e => Err e
                          end
                        else r))
  | MSrc _ sr =>
      (mkms (fst (sstep W C (p1 s) (ChangeSource W sr))) (fst (sstep W C (p2 s) (ChangeSource W sr)))
            (p_l0 s) (p_wsrc s), MNone W MW)
  | MNs2 _ n =>
      (s, MNs2O W MW (match p_wsrc s with
                      | None => Err AttributeError
                      | Some ws =>
                        match obs_ns2 (snd (sstep W C (p1 s) (NsGrad2 W (nsf MW ws 0 n)))) with
                        | Err e => Err e
                        | Ok a => match obs_ns2 (snd (sstep W C (p2 s) (NsGrad2 W (nsf MW ws 1 n)))) with
                                  | Err e => Err e
                                  | Ok b => Ok (mg2 MW a b ws n)
                                  end
                        end
                      end))
  end.

Fixpoint msrun (s : msstate) (ops : list (mop W)) : list (mobs W MW) :=
  match ops with
  | [] => []
  | o :: r => let '(s', ob) := msstep s o in ob :: msrun s' r
  end.

End MultiSpec.

(* the same minimiser on objects without caches *)
Section MaximizeSpec.
Variable W : world.
Variable C : cfg.
Variable MaxOut : Type.
Variable strat : qlog W -> option (Z * Z).
Variable pick : qlog W -> MaxOut.

Fixpoint smax_loop (fuel : nat) (s : sstate W) (h : qlog W) : sstate W * qlog W :=
  match fuel with
  | 0%nat => (s, h)
  | S f =>
    match strat h with
    | None => (s, h)
    | Some (ns, x) =>
      let '(s1, o) := sstep W C s (Evaluate W ns x) in
      smax_loop f s1 (h ++ [((ns, x), obs_eval W o)])
    end
  end.

Definition smaximize (fuel : nat) (s : sstate W) : MaxOut := pick (snd (smax_loop fuel s [])).

Definition xis_query (o : xop W) : bool :=
  match o with XOp _ o' => is_query W o' | XMax _ _ => true end.

Fixpoint xsrc_after (s0 : src W) (xs : list (xop W)) : src W :=
  match xs with
  | [] => s0
  | XOp _ (ChangeSource _ s) :: r => xsrc_after s r
  | _ :: r => xsrc_after s0 r
  end.

End MaximizeSpec.

Section MultiSpecAux.
Variable W : world.
Variable C : cfg.
Variable MW : mworld W.
Variable MC : mcfg.

Fixpoint msfinal (s : msstate W MW) (ops : list (mop W)) : msstate W MW :=
  match ops with
  | [] => s
  | o :: r => msfinal (fst (msstep W C MW MC s o)) r
  end.

Fixpoint msrc_after (s0 : src W) (ops : list (mop W)) : src W :=
  match ops with
  | [] => s0
  | MSrc _ s :: r => msrc_after s r
  | _ :: r => msrc_after s0 r
  end.

End MultiSpecAux.
