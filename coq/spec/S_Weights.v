(* Specification for C03: the manual's formulas (doc/user_manual.tex, section
   "Multiple Datasets", eqs. dataset-weight-factor-single-source, fk, the
   un-simplified multi-source expression, dataset-weight-factor-multi-sources-
   with-source-weight-coefficient; section "Stacking of Sources", eq.
   SiStackingA), transcribed independently of the code over R.
   a : table of the coefficients a_jk = W_k * Y_jk (the manual writes the un-simplified sum for the yields Y;
   with the source weights W it is the manual's last equation), one row per dataset j, one
   column per source k (K columns). *)
From Coq Require Import Reals List.
From Sky Require Import S_Llh.
Import ListNotations.
Open Scope R_scope.

Definition colsum (a : list (list R)) (k : nat) : R := Rsum (map (fun row => nth k row 0) a).
Definition total (a : list (list R)) : R := Rsum (map Rsum a).

(* eq. fk: relative strength of source k in all datasets *)
Definition f_src (a : list (list R)) (k : nat) : R := colsum a k / total a.
(* eq. dataset-weight-factor-single-source for source k: share of dataset j (row) *)
Definition f_ds_given_src (a : list (list R)) (row : list R) (k : nat) : R :=
  nth k row 0 / colsum a k.
(* f_j = sum_k f_k * f_j(p_sk) — the expression before "cancels out" *)
Definition f_j_manual (a : list (list R)) (K : nat) (row : list R) : R :=
  Rsum (map (fun k => f_src a k * f_ds_given_src a row k) (seq 0 K)).
(* the simplified equation the manual arrives at *)
Definition f_j_simplified (a : list (list R)) (row : list R) : R := Rsum row / total a.

(* eq. SiStackingA applied to the ratio: R_i = (1/A) sum_k a_k R_ik *)
Definition stacked_manual (a_k R_k : list R) : R :=
  Rsum (map (fun p => fst p * snd p) (combine a_k R_k)) / Rsum a_k.

(* a_jk = W_k * Y_jk with the sources laid out group after group:
   groups = [(W_g, [Y_g for dataset 0; Y_g for dataset 1; ...])]; row j of the
   table is the concatenation over the groups of W_g (.) Y_g[j] *)
Definition mulrow (W Y : list R) : list R := map (fun p => fst p * snd p) (combine W Y).
Fixpoint a_rows (ps : list (list R)) (groups : list (list R * list (list R))) : list (list R) :=
  match groups with
  | [] => ps
  | (W, Ycol) :: r =>
      a_rows (map (fun pY => fst pY ++ mulrow W (snd pY)) (combine ps Ycol)) r
  end.
Definition a_spec (J : nat) (groups : list (list R * list (list R))) : list (list R) :=
  a_rows (repeat [] J) groups.

(* every group comes with one yield array per dataset, of the group's size *)
Definition wf_groups (J : nat) (groups : list (list R * list (list R))) : Prop :=
  Forall (fun g => length (snd g) = J /\ Forall (fun Yg => length Yg = length (fst g)) (snd g))
         groups.

(* numpy broadcasting of a yield array against a group of n sources: equal length,
   or a single value repeated; anything else is an error *)
Definition bcast (n : nat) (Y : list R) : option (list R) :=
  if Nat.eqb (length Y) n then Some Y
  else match Y with [y] => Some (repeat y n) | _ => None end.
(* the yields of the first J datasets of one group, broadcast *)
Fixpoint bcast_col (n J : nat) (Ycol : list (list R)) : option (list (list R)) :=
  match J with
  | O => Some []
  | S J' => match Ycol with
            | [] => None
            | Y :: r => match bcast n Y, bcast_col n J' r with
                        | Some y, Some t => Some (y :: t)
                        | _, _ => None
                        end
            end
  end.
Fixpoint norm_groups (J : nat) (groups : list (list R * list (list R)))
  : option (list (list R * list (list R))) :=
  match groups with
  | [] => Some []
  | (W, Ycol) :: r => match bcast_col (length W) J Ycol, norm_groups J r with
                      | Some Y', Some r' => Some ((W, Y') :: r')
                      | _, _ => None
                      end
  end.
