(* Specification vocabulary for C11 (independent of the model): clipping to an
   interval, first-order convexity, minimiser on an interval. *)
From Coq Require Import Reals Lra.
Open Scope R_scope.

(* projection of a point onto [lo, hi] *)
Definition clipR (lo hi x : R) : R :=
  if Rlt_dec x lo then lo else if Rlt_dec hi x then hi else x.

Lemma clipR_in lo hi x : lo <= hi -> lo <= clipR lo hi x <= hi.
Proof. intros H. unfold clipR. destruct (Rlt_dec x lo); [lra|]. destruct (Rlt_dec hi x); lra. Qed.

Lemma clipR_id lo hi x : lo <= x <= hi -> clipR lo hi x = x.
Proof. intros H. unfold clipR. destruct (Rlt_dec x lo); [lra|]. destruct (Rlt_dec hi x); lra. Qed.

(* f is convex and differentiable with derivative f' in the sense of its
   first-order characterisation: the graph lies above every tangent.  (For a
   log-likelihood ratio L concave in ns, f = -L.) *)
Definition convex_fo (f f' : R -> R) : Prop :=
  forall x y, f x + f' x * (y - x) <= f y.

(* x minimises f on [lo, hi] *)
Definition argmin_on (f : R -> R) (lo hi x : R) : Prop :=
  lo <= x <= hi /\ forall y, lo <= y <= hi -> f x <= f y.

(* the same, required only on a domain D (a real -log Lambda is undefined for ns >= N: the hypotheses of the
   theorems need to hold only where the minimiser evaluates the objective) *)
Definition convex_on (D : R -> Prop) (f f' : R -> R) : Prop :=
  forall x y, D x -> D y -> f x + f' x * (y - x) <= f y.

(* the points a bounded Newton-Raphson run started at init can evaluate *)
Definition nr_domain (lo hi init : R) (x : R) : Prop :=
  x = init \/ x = lo \/ x = hi \/ lo <= x <= hi.

Lemma nr_domain_clip lo hi init y : nr_domain lo hi init (clipR lo hi y).
Proof.
  unfold nr_domain, clipR. destruct (Rlt_dec y lo); [tauto|]. destruct (Rlt_dec hi y); [tauto|].
  right. right. right. lra.
Qed.
