(* Specification vocabulary for C19, written independently of the code:
   directions on the unit sphere as Cartesian unit vectors, the Euclidean
   inner product, the angle between two unit vectors, 3x3 matrices acting on
   vectors, and the canonical coordinate ranges. *)
From Coq Require Import Reals.
Open Scope R_scope.

Definition V3 : Type := (R * R * R)%type.
Definition M3 : Type := (V3 * V3 * V3)%type.            (* rows *)

Definition c1 (v : V3) : R := fst (fst v).
Definition c2 (v : V3) : R := snd (fst v).
Definition c3 (v : V3) : R := snd v.

(* the unit vector of the direction (right ascension / longitude ra,
   declination / latitude dec) *)
Definition dirv (ra dec : R) : V3 :=
  (cos ra * cos dec, sin ra * cos dec, sin dec).

Definition vdot (a b : V3) : R := c1 a * c1 b + c2 a * c2 b + c3 a * c3 b.

(* the angle in [0, pi] between two unit vectors *)
Definition angle (a b : V3) : R := acos (vdot a b).

Definition mapply (m : M3) (v : V3) : V3 :=
  (vdot (fst (fst m)) v, vdot (snd (fst m)) v, vdot (snd m) v).

(* canonical ranges *)
Definition ra_canonical (ra : R) : Prop := 0 <= ra < 2 * PI.
Definition dec_canonical (dec : R) : Prop := - (PI / 2) <= dec <= PI / 2.

(* ---- local tangent frame at a direction and the great-circle offset (the
   documented meaning of astropy's position_angle / separation /
   directional_offset_by) *)
Definition north (lon lat : R) : V3 := (- sin lat * cos lon, - sin lat * sin lon, cos lat).
Definition east (lon lat : R) : V3 := (- sin lon, cos lon, 0).
Definition vlin (a : R) (u : V3) (b : R) (v : V3) (c : R) (w : V3) : V3 :=
  (a * c1 u + b * c1 v + c * c1 w, a * c2 u + b * c2 v + c * c2 w, a * c3 u + b * c3 v + c * c3 w).
(* the point at angular distance d from (lon, lat) in the direction of position
   angle pa (measured from north through east) *)
Definition offset_point (lon lat pa d : R) : V3 :=
  vlin (cos d) (dirv lon lat) (sin d * cos pa) (north lon lat) (sin d * sin pa) (east lon lat).
