(* Specification vocabulary for C18 (signal injection). *)
From Coq Require Import ZArith List Bool.
From Sky Require Import Result PyList M_Inject.
Import ListNotations.
Open Scope Z_scope.

(* The contract of the random choice oracle (numpy RandomState.choice with
   p, skyllh RandomChoice): exactly k indices are returned, and when the
   probabilities are non-negative and not all zero, no index of probability 0
   (in particular none outside the array) is ever returned.  The second clause
   is property C08's theorem about the inverse-CDF lookup. *)
Definition choice_contract {rng : Type} (choice : rng -> list Z -> nat -> list nat * rng) : Prop :=
  forall g p k,
    length (fst (choice g p k)) = k
    /\ (Forall (fun x => 0 <= x) p -> Exists (fun x => 0 < x) p ->
        forall d, In d (fst (choice g p k)) -> 0 < nth d p 0).

(* per-dataset counts: all non-negative *)
Definition nonneg (l : list Z) : Prop := Forall (fun x => 0 <= x) l.

(* zero weight -> zero count, position by position *)
Definition zero_stays_zero (ws cnt : list Z) : Prop :=
  Forall2 (fun w n => w = 0 -> n = 0) ws cnt.

(* the candidate c points at an MC event of dataset c_ds inside the (shifted)
   declination band of source c_src of group c_shg and inside the energy range *)
Definition cand_sound (shgs : list shgT) (dss : list dsT) (c : cand) : Prop :=
  exists h d e x ow L U,
    nth_error shgs (Z.to_nat (c_shg c)) = Some h /\ 0 <= c_shg c
    /\ nth_error dss (Z.to_nat (c_ds c)) = Some d /\ 0 <= c_ds c
    /\ nth_error (d_mc d) (Z.to_nat (c_ev c)) = Some e /\ 0 <= c_ev c
    /\ nth_error (h_src h) (Z.to_nat (c_src c)) = Some (x, ow) /\ 0 <= c_src c
    /\ (forall e', In e' (d_mc d) -> L <= e_sd e' <= U)
    /\ (exists e1 e2, In e1 (d_mc d) /\ In e2 (d_mc d) /\ e_sd e1 = L /\ e_sd e2 = U)
    /\ L < U
    /\ in_band x (h_hw h) L U (e_sd e) = true
    /\ in_energy (h_er h) (e_en e) = true
    /\ c_wn c = e_mw e * h_flux h (e_en e)
                * (match src_weights h with Some _ => match ow with Some w => w | None => 0 end | None => 1 end)
                * d_lt d.

(* an event vector satisfies every configured validity range *)
Definition in_ranges (rngs : list (nat * (Z * Z))) (ev : list Z) : Prop :=
  forall f lo hi, In (f, (lo, hi)) rngs -> exists v, nth_error ev f = Some v /\ lo <= v <= hi.
