(* Specification vocabulary for C18 (signal injection). *)
From Coq Require Import ZArith List Bool.
From Sky Require Import Result PyList M_Inject.
Import ListNotations.
Open Scope Z_scope.

(* The contract of the random choice oracle (numpy RandomState.choice with
   p, skyllh RandomChoice): exactly k indices are returned, and when the
   probabilities are non-negative and not all zero, no index of probability 0
   (in particular none outside the array) is ever returned.  The second clause
   is property C08's theorem about the inverse-CDF lookup. *)
Definition choice_contract {rng : Type} (choice : rng -> list Z -> nat -> list nat * rng) : Prop :=
  forall g p k,
    length (fst (choice g p k)) = k
    /\ (Forall (fun x => 0 <= x) p -> Exists (fun x => 0 < x) p ->
        forall d, In d (fst (choice g p k)) -> 0 < nth d p 0).

(* per-dataset counts: all non-negative *)
Definition nonneg (l : list Z) : Prop := Forall (fun x => 0 <= x) l.

(* zero weight -> zero count, position by position *)
Definition zero_stays_zero (ws cnt : list Z) : Prop :=
  Forall2 (fun w n => w = 0 -> n = 0) ws cnt.

(* the candidate c points at an MC event of dataset c_ds inside the (shifted)
   declination band of source c_src of group c_shg and inside the energy range *)
Definition cand_sound (shgs : list shgT) (dss : list dsT) (c : cand) : Prop :=
  exists h d e x ow L U,
    nth_error shgs (Z.to_nat (c_shg c)) = Some h /\ 0 <= c_shg c
    /\ nth_error dss (Z.to_nat (c_ds c)) = Some d /\ 0 <= c_ds c
    /\ nth_error (d_mc d) (Z.to_nat (c_ev c)) = Some e /\ 0 <= c_ev c
    /\ nth_error (h_src h) (Z.to_nat (c_src c)) = Some (x, ow) /\ 0 <= c_src c
    /\ (forall e', In e' (d_mc d) -> L <= e_sd e' <= U)
    /\ (exists e1 e2, In e1 (d_mc d) /\ In e2 (d_mc d) /\ e_sd e1 = L /\ e_sd e2 = U)
    /\ L < U
    /\ 0 < h_hw h /\ c_wd c = h_hw h
    /\ in_band x (h_hw h) L U (e_sd e) = true
    /\ in_energy (h_er h) (e_en e) = true
    /\ c_wn c = e_mw e * h_flux h (e_en e)
                * (match src_weights h with Some _ => match ow with Some w => w | None => 0 end | None => 1 end)
                * d_lt d.

(* an event vector satisfies every configured validity range *)
Definition in_ranges (rngs : list (nat * (Z * Z))) (ev : list Z) : Prop :=
  forall f lo hi, In (f, (lo, hi)) rngs -> exists v, nth_error ev f = Some v /\ lo <= v <= hi.

(* all physical inputs are non-negative *)
Definition inputs_nonneg (shgs : list shgT) (dss : list dsT) : Prop :=
  Forall (fun h => (forall en, 0 <= h_flux h en)
                   /\ Forall (fun s : Z * option Z => match snd s with Some w => 0 <= w | None => True end) (h_src h)) shgs
  /\ Forall (fun d => 0 <= d_lt d /\ Forall (fun e => 0 <= e_mw e) (d_mc d)) dss.


(* a candidate of non-zero weight: none of its factors is zero; in particular
   its source has a non-zero weight (zero-weight sources are never injected) *)
Definition cand_factors_nonzero (shgs : list shgT) (dss : list dsT) (c : cand) : Prop :=
  exists h d e x ow,
    nth_error shgs (Z.to_nat (c_shg c)) = Some h
    /\ nth_error dss (Z.to_nat (c_ds c)) = Some d
    /\ nth_error (d_mc d) (Z.to_nat (c_ev c)) = Some e
    /\ nth_error (h_src h) (Z.to_nat (c_src c)) = Some (x, ow)
    /\ e_mw e <> 0 /\ d_lt d <> 0 /\ h_flux h (e_en e) <> 0
    /\ (src_weights h <> None -> exists w, ow = Some w /\ w <> 0).


(* the generator object is consistent: its table is the one built from its
   current sources and data, and its sampler holds exactly the table's weights *)
Definition mc_ok (st : mcgen) : Prop :=
  construct (g_shgs st) (g_dss st) = Ok (g_tbl st) /\ g_p st = samp_w (g_tbl st).

(* number of events in a {dataset key: events} dictionary *)
Definition dict_total {E : Type} (d : list (Z * list E)) : Z := zsum (map (fun kv => zlen (snd kv)) d).

(* what a per-dataset generator called with poisson=False guarantees (C18_count
   for the MC generator): it reports and returns what it was asked for *)
Definition subgen_contract {rng E : Type} (subgen : nat -> rng -> Z -> res (Z * list (Z * list E) * rng)) : Prop :=
  forall j g c n d g', 0 <= c -> subgen j g c = Ok (n, d, g') -> n = c /\ dict_total d = c.
