(* Specification vocabulary for C20 (definitions only):
   reachability between dict nodes of a configuration store. *)
From Coq Require Import ZArith List.
From Sky Require Import Result PyList M_Coll M_CollCfg.
Import ListNotations.

(* node c is reachable from node a through dictionary values *)
Inductive reach (st : cstore) : nat -> nat -> Prop :=
| reach_refl : forall a, reach st a a
| reach_step : forall a b c k nd,
    nth_error st a = Some nd -> In (k, VRef b) nd -> reach st b c -> reach st a c.

(* which entity a step writes to *)
Definition targets_inst (o : wop) (j : nat) : Prop :=
  match o with WMut i _ => i = j | _ => False end.
Definition is_user_step (o : wop) : Prop :=
  match o with WUserNew | WUserSet _ _ _ _ | WUserLink _ _ _ _ => True | _ => False end.
