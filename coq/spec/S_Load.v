(* Plain-table specification of loading (independent of the loaders' control
   flow): what a table file denotes and what "load the listed files restricted
   to a keep set with a dtype map" means, column by column. *)
From Coq Require Import ZArith List Bool.
From Sky Require Import Result PyList M_Load.
Import ListNotations.
Open Scope Z_scope.

(* a file is well formed when its field names are distinct and every row has
   one cell per field (always true for a numpy structured array) *)
Definition wf_file (f : file) : Prop :=
  NoDup (map fst (f_schema f)) /\
  Forall (fun r => length r = length (f_schema f)) (f_rows f).

(* position of a field in a schema *)
Fixpoint idx_of (fname : name) (sch : list (name * dtype)) : nat :=
  match sch with
  | [] => O
  | (n, _) :: r => if fname =? n then O else S (idx_of fname r)
  end.

(* the column of a field: one cell per row, in row order *)
Definition spec_col (f : file) (fname : name) : list Z :=
  map (fun r => nth (idx_of fname (f_schema f)) r 0) (f_rows f).

Definition spec_keeps (o : lopts) (fname : name) : bool :=
  match o_keep o with None => true | Some k => zmem fname k end.

Definition spec_kept (o : lopts) (sch : list (name * dtype)) : list (name * dtype) :=
  filter (fun p => spec_keeps o (fst p)) sch.

(* dtype map with exception list *)
Definition spec_dtype (o : lopts) (fname : name) (dt : dtype) : dtype :=
  if zmem fname (o_exc o) then dt
  else match alookup dt (o_conv o) with Some d => d | None => dt end.

(* one file: (file fields ∩ keep set) in file order, converted dtype, the column *)
Definition spec_load_file (f : file) (o : lopts) : table :=
  map (fun p => (fst p, (spec_dtype o (fst p) (snd p), spec_col f (fst p))))
      (spec_kept o (f_schema f)).

(* number of np.load calls of the memory-efficient loader for n rows with block
   size bs: the first one plus one after every row whose index is a multiple of bs *)
Definition spec_opens (n bs : Z) : Z :=
  1 + Z.of_nat (length (filter (fun k => Z.of_nat k mod bs =? 0) (seq 0 (Z.to_nat n)))).

(* several files: the fields of the first file; every column is the
   concatenation of the files' columns in file order *)
Definition spec_has (f : file) (o : lopts) (fname : name) : bool :=
  zmem fname (map fst (spec_kept o (f_schema f))).

Definition spec_dtype_in (f : file) (o : lopts) (fname : name) : dtype :=
  match alookup fname (spec_kept o (f_schema f)) with
  | Some dt => spec_dtype o fname dt
  | None => 0
  end.

Definition spec_load_files (f0 : file) (rest : list file) (o : lopts) : table :=
  map (fun p => (fst p,
                 (fold_left promote (map (fun f => spec_dtype_in f o (fst p)) rest)
                            (spec_dtype o (fst p) (snd p)),
                  concat (map (fun f => spec_col f (fst p)) (f0 :: rest)))))
      (spec_kept o (f_schema f0)).

(* required names of a stage table for a stage mask *)
Definition spec_required (df : stage_table) (stages : Z) : list name :=
  map fst (filter (fun fs => negb (Z.land (snd fs) stages =? 0)) df).

(* a path either names a well-formed file or does not exist *)
Definition wf_opt (p : option file) : Prop :=
  match p with Some f => wf_file f | None => True end.

(* renaming: the fields that are renamed (old name present in the table), under
   their new names, in the order of the renaming dictionary; and the fields that
   stay *)
Definition ren_pairs (t : table) (conv : list (name * name)) : table :=
  flat_map (fun on => match alookup (fst on) t with Some c => [(snd on, c)] | None => [] end) conv.
Definition ren_rest (t : table) (conv : list (name * name)) : table :=
  filter (fun c : col => negb (zmem (fst c) (keys conv))) t.

(* csv: the table a text file denotes — the same rows, every column float64 (3) *)
Definition retype64 (f : file) : file :=
  mkFile (map (fun p => (fst p, 3)) (f_schema f)) (f_rows f).
