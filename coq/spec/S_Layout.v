(* Specification vocabulary for the layout clause of C02, independent of the code:
   which declaration feeds which (source, local name), and the rank of a declaration
   among the floating parameters = its position in the vector of floating values and
   in the gradient vector. *)
From Coq Require Import ZArith List Bool.
From Sky Require Import M_Layout.
Import ListNotations.

Section S.
  Context {V : Type}.
  (* the local name under which declaration d is mapped to source s (None: not mapped) *)
  Definition nm (s : nat) (d : @gdecl V) : option Z :=
    match nth_error (g_names d) s with Some o => o | None => None end.
  Definition isfl (d : @gdecl V) : bool := negb (g_fixed d).
  (* number of floating declarations in a prefix *)
  Definition rankn (pre : list (@gdecl V)) : nat := length (filter isfl pre).
  Definition rank (pre : list (@gdecl V)) : Z := Z.of_nat (rankn pre).
End S.
