(* Vocabulary for the C02 derivative statements: quantities of one dataset as
   functions of the single real variable that is moved (one floating parameter). *)
From Coq Require Import Reals List.
Import ListNotations.

(* one dataset: total event number N, dataset weight f_j(t) with derivative value,
   per-selected-event stacked ratios R_i(t) with their derivative values *)
Record dsfun := mkDsfun {
  dq_N : R; dq_f : R -> R; dq_df : R; dq_R : list (R -> R); dq_dR : list R }.

Definition at_t {A} (fs : list (R -> A)) (t : R) : list A := map (fun g => g t) fs.

(* a weight a_jk(t) or a table ratio R_ik(t) together with the value of its derivative at the
   point of interest *)
Definition wfun := ((R -> R) * R)%type.
Definition a_at (aks : list wfun) (t : R) : list R := map (fun a => fst a t) aks.
Definition d_of (aks : list wfun) : list R := map snd aks.
Definition rows_at (rows : list (nat * nat * wfun)) (t : R) : list (nat * nat * R) :=
  map (fun v => (fst v, fst (snd v) t)) rows.
Definition drows_of (rows : list (nat * nat * wfun)) : list (nat * nat * R) :=
  map (fun v => (fst v, snd (snd v))) rows.

(* one dataset of the pipeline: N, number of selected events, its row of the a_jk table,
   its (source, event, ratio) table *)
Record pds := mkPds { p_N : R; p_nsel : nat; p_aks : list wfun; p_rows : list (nat * nat * wfun) }.
